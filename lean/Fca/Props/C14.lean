/-
  Props/C14 — many-valued contexts: lattice and binarisation preserve the closure system.
  Only property theorems live here; helper lemmas are in `Fca/Lemmas/MVContext*.lean`.
-/
import Fca.Lemmas.MVContext
import Fca.Lemmas.MVBinarize
import Fca.Lemmas.MVLattice
import Fca.Lemmas.MVHist
namespace Fca.C14
open Fca Fca.MV

/-- in-range index list -/
def InRange (xs : List Nat) (n : Nat) : Prop := ∀ x ∈ xs, x < n

instance (xs : List Nat) (n : Nat) : Decidable (InRange xs n) := by unfold InRange; infer_instance

/-- `extension_i(descriptions_i, base)` = the objects of the base (default: all objects, in context order)
    that the description of *every* named column covers, in the order of the base — whatever the
    iteration order of the dict, and although the loop stops early once nothing is left.  FULL. -/
theorem mv_ext_conjunctive (K : MVCtx) (desc : Desc) (base : Option (List Nat)) (hwt : K.WellTyped desc) :
    K.extensionI desc base = .ok ((base.getD (List.range K.nObjects)).filter fun g =>
      desc.all fun p => match K.cols[p.1]? with
        | some c => c.covers p.2 g
        | none => false) :=
  K.extensionI_eq desc base hwt

/-- `intention_i(A)` is a well-typed description with one entry per column, in column order, and
    `extension_i(intention_i(A))` is the set of objects covered by every column's own description of `A`. -/
theorem mv_int_columnwise (K : MVCtx) (A : List Nat) :
    K.WellTyped (K.intentionI A) ∧
    (K.intentionI A).map (·.1) = List.range K.cols.length ∧
    K.cl A = .ok ((List.range K.nObjects).filter fun g =>
      (K.intentionI A).all fun p => match K.cols[p.1]? with
        | some c => c.covers p.2 g
        | none => false) := by
  refine ⟨K.wellTyped_intentionI A, ?_, K.cl_eq A⟩
  unfold MVCtx.intentionI
  rw [List.map_map]
  have : ((fun p : Nat × DVal => p.1) ∘ fun ci : Col × Nat => (ci.2, ci.1.intentionI A)) = fun ci => ci.2 := rfl
  rw [this]
  rw [show (fun ci : Col × Nat => ci.2) = Prod.snd from rfl, List.zipIdx_map_snd, List.range_eq_range']

/-- closure laws: on a non-empty in-range object list `cl = extension_i ∘ intention_i` never raises, is
    extensive, monotone, idempotent, independent of the order of the list, and `intention_i(A)` is the most
    specific description covering `A` (every well-typed description covering `A` covers `cl A`).  FULL. -/
theorem mv_closure_laws (K : MVCtx) (A : List Nat) (hne : A ≠ []) (hA : InRange A K.nObjects) :
    ∃ X, K.cl A = .ok X ∧
      (∀ g ∈ A, g ∈ X) ∧
      (∀ B, (∀ g ∈ A, g ∈ B) → ∃ Y, K.cl B = .ok Y ∧ ∀ g ∈ X, g ∈ Y) ∧
      K.cl X = .ok X ∧
      (∀ B, B ≠ [] → (∀ g, g ∈ A ↔ g ∈ B) → K.cl B = .ok X) ∧
      (∀ desc, K.WellTyped desc → (∀ g ∈ A, K.coversAll desc g = true) → ∀ g ∈ X, K.coversAll desc g = true) := by
  refine ⟨K.clSpec A, K.cl_eq A, K.clSpec_extensive A hA, ?_, ?_, ?_, ?_⟩
  · intro B hAB
    exact ⟨K.clSpec B, K.cl_eq B, K.clSpec_mono A B hne hAB⟩
  · rw [K.cl_eq, K.clSpec_idem A hne hA]
  · intro B hB h
    rw [K.cl_eq, K.clSpec_congr A B hne hB h]
  · intro desc hwt hcov
    exact K.clSpec_least A hne desc hwt hcov

example : ∃ (K : MVCtx) (A : List Nat), A ≠ [] ∧ InRange A K.nObjects ∧ K.WF ∧ K.clSpec A = [0, 2] :=
  ⟨⟨[.interval [(0, 0), (1, 2), (0, 1)], .attr [true, false, true]], 3, ["a", "b", "c"]⟩, [2, 0],
   by decide, by decide, by decide, by decide⟩

/-! ## binarisation -/

/-- `binarize()` succeeds, keeps the object names, has one row per object, and its (well-formed) table is as
    wide as `n_bin_attrs` declares, which is the number of binary attributes `to_bin_attr_extents` produces.
    FULL (contexts with at least one object and one pattern structure). -/
theorem binarize_objects_and_width (K : MVCtx) (hwf : K.WF) (hn : 1 ≤ K.nObjects) (hc : K.cols ≠ []) :
    ∃ Kb, K.binarize = .ok Kb ∧ Kb.objNames = K.objNames ∧ Kb.table.height = K.nObjects ∧ Kb.table.WF ∧
      Kb.table.width = K.nBinAttrs ∧ K.nBinAttrs = K.binAttrExtents.length := by
  refine ⟨_, K.binarize_eq hc, rfl, K.binTable_height hwf hc, Spec.transpose_wf _, ?_, K.nBinAttrs_eq hwf hn⟩
  rw [K.nBinAttrs_eq hwf hn]; rfl

/-- the binarised context closes every non-empty object set exactly as the many-valued context does — so the
    two have the same non-empty closed object sets; its least closed set is the extent of the bottom
    description, which under `BottomOK` is what the code computes as the closure of the empty set.  FULL for
    the non-empty sets; the empty set needs `BottomOK` (finding D17, see `not_BottomOK_witness`). -/
theorem binarize_same_closed_sets (K : MVCtx) (hwf : K.WF) (hc : K.cols ≠ []) :
    ∃ Kb, K.binarize = .ok Kb ∧
      (∀ A, A ≠ [] → InRange A K.nObjects → K.cl A = .ok (Spec.closure Kb.table A)) ∧
      (∀ X, X ≠ [] → InRange X K.nObjects → (Spec.closure Kb.table X = X ↔ K.cl X = .ok X)) ∧
      Spec.closure Kb.table [] = K.extBottom ∧
      (K.BottomOK → K.cl [] = .ok (Spec.closure Kb.table [])) := by
  refine ⟨_, K.binarize_eq hc, ?_, ?_, K.closure_binTable_nil hwf hc, ?_⟩
  · intro A hA hr
    rw [K.cl_eq]; congr 1; exact (K.closure_binTable hwf hc A hA hr).symm
  · intro X hX hr
    rw [K.cl_eq]
    show Spec.closure K.binTable X = X ↔ _
    rw [K.closure_binTable hwf hc X hX hr]
    constructor
    · intro h; rw [h]
    · intro h; injection h
  · intro hb
    rw [K.cl_eq, K.clSpec_nil_of_bottomOK hb]; congr 1
    exact (K.closure_binTable_nil hwf hc).symm

/-! ## binarisation: names are labels of positions; only the current contents count -/

/-- One binary attribute per produced description, in order, WHATEVER the generated names are.  `nm` (column,
    position ↦ the `describe_pattern` string) is arbitrary — nothing is assumed about it, in particular not that it is
    injective (`SetPS` calls the descriptions `{'a','b'}` and `{'a, b'}` both `"s: a, b"`, `{'∅'}` and the empty
    description both `"s: ∅"`).  `binarize()` with names succeeds; its table and object names are those of the
    unnamed model `binarize` (so `binarize_same_closed_sets` speaks about it); its attribute names are the produced
    names in the produced order, repetitions kept; it has as many names as columns; the width is the SUM of the
    `n_bin_attrs` the columns declare; and column `a` of the table is the `a`-th produced extent.  FULL. -/
theorem binarize_one_attribute_per_description (K : MVCtx) (nm : Nat → Nat → String) (hwf : K.WF)
    (hn : 1 ≤ K.nObjects) (hc : K.cols ≠ []) :
    ∃ Kn, K.binarizeNamed nm = .ok Kn ∧
      K.binarize = .ok ⟨Kn.table, Kn.objNames⟩ ∧
      Kn.attrNames = (K.binAttrNamed nm).map (·.1) ∧
      Kn.attrNames.length = Kn.table.width ∧
      Kn.table.width = (K.cols.map Col.nBinAttrs).sum ∧
      (∀ g a, g < K.nObjects → a < Kn.table.width →
        Kn.table.get g a = (K.binAttrExtents.getD a []).getD g false) := by
  have hne : (K.binAttrNamed nm).isEmpty = false := by
    cases h : K.binAttrNamed nm with
    | nil =>
      have := K.binAttrNamed_length nm
      rw [h] at this
      exact absurd (List.eq_nil_of_length_eq_zero this.symm) (K.binAttrExtents_ne_nil hc)
    | cons _ _ => rfl
  refine ⟨⟨Spec.transpose (Table.ofRows K.binAttrExtents), K.objNames, (K.binAttrNamed nm).map (·.1)⟩,
    ?_, K.binarize_eq hc, rfl, ?_, ?_, ?_⟩
  · unfold MVCtx.binarizeNamed
    simp only [hne, Bool.false_eq_true, ↓reduceIte, K.binAttrNamed_map_snd nm]
    rfl
  · show ((K.binAttrNamed nm).map (·.1)).length = K.binTable.width
    rw [List.length_map, K.binAttrNamed_length nm, K.binTable_width]
  · show K.binTable.width = K.nBinAttrs
    rw [K.binTable_width, K.nBinAttrs_eq hwf hn]
  · intro g a hg ha
    exact K.binTable_get hwf hc g a hg ha

/-- the context of seeded change C14-g: one `SetPS` column over the values `'a' < 'a, b' < 'b'` (numbered 0, 1, 2) with
    the cells `{'a'}`, `{'b'}`, `{'a, b'}` -/
def collideK : MVCtx := ⟨[.set [[0], [2], [1]]], 3, ["g0", "g1", "g2"]⟩
/-- the names `SetPS.describe_pattern` gives its 8 descriptions: positions 2 (`{'a','b'}`) and 5 (`{'a, b'}`) collide -/
def collideNm : Nat → Nat → String := fun _ k =>
  ["s: a, a, b, b", "s: a, a, b", "s: a, b", "s: a, b, b", "s: a", "s: a, b", "s: b", "s: ∅"].getD k ""

/-- `d[k] = v` on a dict kept as an association list in insertion order: an existing key keeps its position and gets
    the new value -/
def dictSet (d : List (String × List Bool)) (k : String) (v : List Bool) : List (String × List Bool) :=
  if d.any (·.1 == k) then d.map fun q => if q.1 == k then (k, v) else q else d ++ [(k, v)]

/-- assembling the pairs through a name-keyed dict (`dict(pairs)`) — NOT what `binarize()` does; it is here only to
    show that the theorem above excludes it -/
def dictAssemble (pairs : List (String × List Bool)) : List (String × List Bool) :=
  pairs.foldl (fun d p => dictSet d p.1 p.2) []

/-- Non-vacuity: the hypotheses are satisfiable WITH colliding names — the attribute names of the binarised context are
    not duplicate-free, the width is still the declared 8, and `{0,1}` (the objects `'a'` and `'b'`) is closed in the
    binarised context exactly as in the many-valued one; a name-keyed assembly of the same pairs would have 7 columns
    and close `{0,1}` to all three objects. -/
example : collideK.WF ∧ 1 ≤ collideK.nObjects ∧ collideK.cols ≠ [] ∧
    (∃ Kn, collideK.binarizeNamed collideNm = .ok Kn ∧ ¬ Kn.attrNames.Nodup ∧ Kn.table.width = 8 ∧
      collideK.nBinAttrs = 8 ∧ Spec.closure Kn.table [0, 1] = [0, 1] ∧ collideK.clSpec [0, 1] = [0, 1]) ∧
    (dictAssemble (collideK.binAttrNamed collideNm)).length = 7 ∧
    Spec.closure (MVCtx.tr (Table.ofRows ((dictAssemble (collideK.binAttrNamed collideNm)).map (·.2)))) [0, 1]
      = [0, 1, 2] := by
  refine ⟨by decide, by decide, by decide, ⟨_, rfl, by decide, by decide, by decide, by decide, by decide⟩,
    by decide, by decide⟩

/-- Binarisation depends only on the CURRENT column contents.  Let one context object live through any history of
    queries (`n_bin_attrs`, `binarize`, `to_bin_attr_extents`, `intention_i`, `extension_i`, closures, lattice
    constructions) and public mutations (`ps.data = …`, in-place edits of `ps.data[i]`, `K.pattern_structures = […]`,
    `K.object_names = […]`), each accepted by its setter.  Then for the state `K'` reached:
    `binarize()` succeeds with the CURRENT object names, one row per object, width = the sum of the `n_bin_attrs` of the
    CURRENT columns = the number of produced extents; it closes every non-empty object set exactly as the current
    many-valued context does; and its table is a function of the current columns alone — any other context with the
    same columns (other names, another history, a freshly built one) binarises to the same table.  FULL. -/
theorem binarize_after_history (K : MVCtx) (steps : List MVCtx.Step) (hwf : K.WF) (hn : 1 ≤ K.nObjects)
    (hc : K.cols ≠ []) (hv : K.HistValid steps) :
    ∃ Kb, (K.run steps).binarize = .ok Kb ∧
      Kb.objNames = (K.run steps).objNames ∧ Kb.table.height = K.nObjects ∧
      Kb.table.width = ((K.run steps).cols.map Col.nBinAttrs).sum ∧
      Kb.table.width = (K.run steps).binAttrExtents.length ∧
      (∀ A, A ≠ [] → InRange A K.nObjects → (K.run steps).cl A = .ok (Spec.closure Kb.table A)) ∧
      (∀ K₂ : MVCtx, K₂.cols = (K.run steps).cols → ∃ Kb₂, K₂.binarize = .ok Kb₂ ∧ Kb₂.table = Kb.table) := by
  obtain ⟨hwf', hc', hn'⟩ := K.run_invariants steps hwf hc hv
  obtain ⟨Kb, hb, hnames, hh, _, hw, hw'⟩ := binarize_objects_and_width (K.run steps) hwf' (by rw [hn']; exact hn) hc'
  obtain ⟨Kb', hb', hcl, _⟩ := binarize_same_closed_sets (K.run steps) hwf' hc'
  rw [hb] at hb'
  cases hb'
  refine ⟨Kb, hb, hnames, by rw [hh, hn'], hw, by rw [hw, hw'], ?_, ?_⟩
  · intro A hA hr
    exact hcl A hA (by rw [hn']; exact hr)
  · intro K₂ h₂
    refine ⟨_, K₂.binarize_eq (by rw [h₂]; exact hc'), ?_⟩
    rw [(K.run steps).binarize_eq hc'] at hb
    cases hb
    show Spec.transpose (Table.ofRows K₂.binAttrExtents) = Spec.transpose (Table.ofRows (K.run steps).binAttrExtents)
    unfold MVCtx.binAttrExtents
    rw [h₂]

/-- a history in the scope of the theorem: everything is used, a reading −1 is corrected to −2 through the setter
    (the edit of seeded change C14-h: it keeps CPython's `hash` of the column), one cell is edited in place, the objects
    are renamed; the final binarisation has the 6 attributes of the final column -/
example : (⟨[.interval [(-3, -3), (-1, -1), (0, 0)]], 3, ["a", "b", "c"]⟩ : MVCtx).HistValid
      [.query .nBinAttrs, .query .binarize, .query (.lattice 1000),
       .setData 0 (.interval [(-3, -3), (-2, -2), (0, 0)]), .query .binarize,
       .setCell 0 2 (.iv (-2, 0)), .setObjNames ["x", "y", "z"]] ∧
    ((⟨[.interval [(-3, -3), (-1, -1), (0, 0)]], 3, ["a", "b", "c"]⟩ : MVCtx).run
      [.query .nBinAttrs, .query .binarize, .query (.lattice 1000),
       .setData 0 (.interval [(-3, -3), (-2, -2), (0, 0)]), .query .binarize,
       .setCell 0 2 (.iv (-2, 0)), .setObjNames ["x", "y", "z"]]).nBinAttrs = 5 := by
  refine ⟨by decide, by decide⟩

/-! ## lattice level

  `BottomOK K` ("the closure of the empty object set, as the code computes it, lies in every closed set") is a
  hypothesis of the lattice-level theorems **by design**: it is the decidable side condition that separates the
  tables on which the pinned convention `AttributePS.intention_i([]) is False` (finding D17) is harmless from
  those on which the unrestricted statement is false (`not_BottomOK_witness`).  It holds whenever the context
  has an `IntervalPS`/`IntervalNumpyPS` column or no `AttributePS` column. -/

/-- `BottomOK` is exactly "the code's closure of the empty set is the least closed set (the extent of the bottom
    description)", and it holds for every context without an `AttributePS` column and for every context with
    an interval column. -/
theorem bottomOK_characterised (K : MVCtx) :
    (K.BottomOK ↔ K.cl [] = .ok K.extBottom) ∧
    ((∀ c ∈ K.cols, c.isAttr = false) → K.BottomOK) ∧
    ((∃ c ∈ K.cols, c.isInterval = true) → K.BottomOK) := by
  refine ⟨?_, K.bottomOK_of_no_attr, K.bottomOK_of_interval⟩
  rw [K.bottomOK_iff, K.cl_eq]
  constructor
  · intro h; rw [h]
  · intro h; injection h

/-- Lattice exactness (all three mining paths).  For every many-valued context with `BottomOK`, every
    threshold `n_projections_to_binarize` — hence whichever of the object-wise path (CbO directly on
    descriptions), the binarising path, or the binarising path on the transposed binarised context
    `close_by_one` takes — and every fuel from the closed form `closeByOneFuel` (`(k+1)^(k+1)+1`, `k` the number
    of objects the worklist runs over) on:  `close_by_one` terminates without raising, `ConceptLattice
    .from_context` accepts its result (no extent is repeated, so the `KeyError` of finding D17 cannot occur), and
    the concepts are exact (`ExactMV`): every closed object set exactly once and nothing else, each with
    `intention_i(extent)` — its most specific description by `mv_closure_laws`.
    The binarising paths rest on property C02's machine analysis for `cboFbarray`; the object-wise path
    instantiates the same abstract worklist machine with the many-valued closure `ext ∘ int`
    (`Lemmas/MVLattice.hyp_mv`).
    Not in this statement: the cover relation ("ordered by inclusion") is computed from the extents by
    `order_extents_comparison` (caspailleur), which the model takes by its contract; the correspondence check
    compares the implementation's `children_dict` with the covers of inclusion (`Spec.lowerCovers`). -/
theorem mv_lattice_exact (K : MVCtx) (hwf : K.WF) (hn : 1 ≤ K.nObjects) (hc : K.cols ≠ []) (hb : K.BottomOK)
    (thr fuel : Nat) (hf : K.closeByOneFuel thr ≤ fuel) :
    ∃ pcs, K.closeByOne thr fuel = .ok pcs ∧ K.latticeConcepts thr fuel = .ok pcs ∧ MVCtx.ExactMV K pcs :=
  K.closeByOne_exact hwf hn hc hb thr fuel hf

/-- Path agreement (all three paths).  Under `BottomOK`, for any two thresholds — so for any two of the
    object-wise path, the binarising path and its transposed shape — the two lattices hold the same pattern
    concepts: every concept of one has a concept of the other with the same extent (as a set; the object-wise
    path lists extents in generation order) and an equivalent description (`DescEquiv`: equal interval and
    flag values, set values equal as sets).  Together with `ExactMV.distinct` of both sides this is a bijection. -/
theorem paths_agree (K : MVCtx) (hwf : K.WF) (hn : 1 ≤ K.nObjects) (hc : K.cols ≠ []) (hb : K.BottomOK)
    (thr₁ thr₂ fuel₁ fuel₂ : Nat) (hf₁ : K.closeByOneFuel thr₁ ≤ fuel₁) (hf₂ : K.closeByOneFuel thr₂ ≤ fuel₂) :
    ∃ p₁ p₂, K.latticeConcepts thr₁ fuel₁ = .ok p₁ ∧ K.latticeConcepts thr₂ fuel₂ = .ok p₂ ∧
      (∀ pc ∈ p₁, ∃ pc' ∈ p₂, MVCtx.SetEqL pc.extent pc'.extent ∧ DescEquiv pc.intent pc'.intent) ∧
      (∀ pc ∈ p₂, ∃ pc' ∈ p₁, MVCtx.SetEqL pc.extent pc'.extent ∧ DescEquiv pc.intent pc'.intent) := by
  obtain ⟨p₁, _, h₁, e₁⟩ := K.closeByOne_exact hwf hn hc hb thr₁ fuel₁ hf₁
  obtain ⟨p₂, _, h₂, e₂⟩ := K.closeByOne_exact hwf hn hc hb thr₂ fuel₂ hf₂
  exact ⟨p₁, p₂, h₁, h₂, K.exactMV_agree p₁ p₂ e₁ e₂, K.exactMV_agree p₂ p₁ e₂ e₁⟩

/-- the hypotheses are satisfiable with all three paths occurring: a 3×2 table (SetPS, AttributePS) with
    `BottomOK`; threshold 0 takes the object-wise path, 1000 the binarising one; a tall one-column table takes
    the transposed shape -/
example : ∃ K : MVCtx, K.WF ∧ 1 ≤ K.nObjects ∧ K.cols ≠ [] ∧ K.BottomOK ∧
    K.choosePath 0 = .objectwise ∧ K.choosePath 1000 = .binDirect :=
  ⟨⟨[.set [[0], [], [0, 1]], .attr [false, true, true]], 3, ["a", "b", "c"]⟩,
   by decide, by decide, by decide, by decide, by decide, by decide⟩

example : ∃ K : MVCtx, K.WF ∧ 1 ≤ K.nObjects ∧ K.cols ≠ [] ∧ K.BottomOK ∧ K.choosePath 1000 = .binTransposed :=
  ⟨⟨[.interval [(1, 1), (1, 1), (1, 1)]], 3, ["a", "b", "c"]⟩,
   by decide, by decide, by decide, by decide, by decide⟩

deriving instance DecidableEq for Except

/-- `MVContext([[False],[True]], {'a': AttributePS})` -/
def witness₁ : MVCtx := ⟨[.attr [false, true]], 2, ["0", "1"]⟩
/-- `MVContext([[False]], {'a': AttributePS})` -/
def witness₂ : MVCtx := ⟨[.attr [false]], 1, ["0"]⟩

/-- Without `BottomOK` the unrestricted statements fail *in the model* (and, by the correspondence check, in the
    implementation: finding D17, `AttributePS.intention_i([]) is False`):
    * `MVContext([[False],[True]], one AttributePS column)`: `{1}` is a closed object set, but the object-wise
      path (`n_projections_to_binarize = 0`) returns only the extent `{0,1}`;
    * `MVContext([[False]], one AttributePS column)`: the binarising path mines the extent `{0}` twice and
      `ConceptLattice.from_context` fails with `KeyError`. -/
theorem not_BottomOK_witness :
    (witness₁.WF ∧ ¬ witness₁.BottomOK ∧ [1] ∈ witness₁.closedSets ∧ witness₁.choosePath 0 = .objectwise ∧
       witness₁.latticeConcepts 0 50 = .ok [⟨[0, 1], [(0, .bval false)]⟩]) ∧
    (witness₂.WF ∧ ¬ witness₂.BottomOK ∧ witness₂.choosePath 1000 = .binDirect ∧
       witness₂.closeByOne 1000 50 = .ok [⟨[0], [(0, .bval false)]⟩, ⟨[0], [(0, .bval false)]⟩] ∧
       witness₂.latticeConcepts 1000 50 = .error .KeyError) := by
  decide

end Fca.C14

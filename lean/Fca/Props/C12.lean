/-
  Props/C12 — every order-construction routine computes exactly the cover relation.

  Only the property theorems live here (plus examples showing that their hypotheses are satisfiable);
  models are in `Fca/Model/Construct.lean`, the specification in `Fca/Spec/Covers.lean`, hypotheses bundles
  (`OrdOK`, `SchedOK`, `TopoSorted`, `TreeInput`, `AddInput`, `RemInput`, `IsCoverDict`, …) and all lemmas in
  `Fca/Lemmas/Construct*.lean`.

  Conventions: a concept is its extent (duplicate-free `List Nat`); `Spec.covers cs i` are the lower covers of
  concept `i` within the list `cs`; a returned dictionary `out` "is the cover relation" (`IsCoverDict cs out`) when
  it has one duplicate-free entry per index whose members are exactly `Spec.covers cs i` (sets are compared by
  membership; the driver prints them sorted).  Every loop over a Python `set` goes through `ord`, an arbitrary
  rearrangement (`OrdOK`), and the theorems hold for all of them.
-/
import Fca.Model.Construct
import Fca.Spec.Covers
import Fca.Lemmas.ConstructBasic
import Fca.Lemmas.ConstructCC
import Fca.Lemmas.ConstructOE
import Fca.Lemmas.ConstructAdd
import Fca.Lemmas.ConstructRemove2
import Fca.Lemmas.ConstructHyps
namespace Fca.C12
open Fca Fca.Spec Fca.Construct

/-- `complete_comparison(concepts, is_concepts_sorted=False, n_jobs)` returns for every concept exactly its
    lower covers within the list — any list of duplicate-free extents (a greatest / least element is not even
    needed), any listing order, any job count (`joblib` returns the per-concept results in submission order),
    any iteration order of the copied sets.  The model keeps the aliasing of the real code: the subtraction
    loop shrinks the very sets it later subtracts. -/
theorem complete_comparison_covers (cs : List Ext) (hnd : ExtsNodup cs) (nJobs : Nat)
    (ord : List Nat → List Nat) (hord : OrdOK ord) :
    IsCoverDict cs (completeComparisonC cs false nJobs ord) := by
  have h := completeComparison_covers (n := cs.length) (strictOrd_ltAt cs hnd) ord false nJobs
    (fun xs x => (hord xs).mem_iff) (fun a x _ => mem_getSubconcepts_unsorted)
  unfold IsCoverDict completeComparisonC Spec.covers
  rw [← ltAt_eq_ssubAt hnd]
  exact h

/-- the same with `is_concepts_sorted=True` (the `b_i < a_i` shortcut and `sorted(b_is)`): what the flag needs is
    `TopoSorted` — every strict superconcept is listed before its subconcepts; sorting by non-increasing support
    (`SizeSorted`, what `sort_concepts` does) is one way to get it (`sizeSorted_topoSorted`). -/
theorem complete_comparison_sorted_covers (cs : List Ext) (hnd : ExtsNodup cs) (hsorted : TopoSorted cs)
    (nJobs : Nat) (ord : List Nat → List Nat) (hord : OrdOK ord) :
    IsCoverDict cs (completeComparisonC cs true nJobs ord) := by
  have h := completeComparison_covers (n := cs.length) (strictOrd_ltAt cs hnd) ord true nJobs
    (fun xs x => (hord xs).mem_iff)
    (fun a x ha => mem_getSubconcepts_sorted (fun j hj hlt => by
      rw [ltAt_eq_ssubAt hnd] at hlt
      exact hsorted a j ha hj hlt))
  unfold IsCoverDict completeComparisonC Spec.covers
  rw [← ltAt_eq_ssubAt hnd]
  exact h

example : ExtsNodup [[0, 1, 2], [0, 1], [2], []] ∧ TopoSorted [[0, 1, 2], [0, 1], [2], []] :=
  ⟨by decide, topoSorted_of_B (by decide)⟩

/-- a linear extension that is not sorted by size is admissible as well -/
example : TopoSorted [[0, 1, 2], [2], [0, 1], []] ∧ ¬ SizeSorted [[0, 1, 2], [2], [0, 1], []] :=
  ⟨topoSorted_of_B (by decide), fun h => by have := h 1 2 (by decide) (by decide); revert this; decide⟩

/-- `construct_spanning_tree` followed by `_get_chains` (both flags, every iteration order of the child sets):
    both succeed; every chain starts at the greatest concept, every step goes from a concept to one of its
    children in the tree (its unique tree parent is the previous element) and is a strict inclusion of extents,
    all entries are valid indexes, and the chains cover all indexes (`Spec.chainsOK`, the checker the driver also
    applies to the implementation's own tree and chains).  `TreeInput`: duplicate-free extents, `top` is the
    greatest concept, and `TopoSorted` when the flag is set. -/
theorem chains_of_spanning_tree (cs : List Ext) (top : Nat) (isSorted : Bool)
    (hin : TreeInput cs top isSorted) (ord : List Nat → List Nat) (hord : OrdOK ord) :
    ∃ t chains, spanningTreeC cs isSorted ord = .ok t ∧ getChainsC cs t.sup isSorted = .ok chains ∧
      chainsOK cs.length (ssubAt cs) (parentOf t.sup) top chains = true := by
  obtain ⟨t, chs, h1, h2, h3⟩ := tree_chains_C cs top isSorted hin ord hord
  refine ⟨t, chs, h1, h2, ?_⟩
  rw [← ltAt_eq_ssubAt hin.nodup]; exact h3

example : TreeInput [[2], [0, 1, 2], [], [0, 1]] 1 false :=
  ⟨by decide, isTop_of_B (by decide), by intro h; cases h⟩

example : TreeInput [[0, 1, 2], [2], [0, 1], []] 0 true :=
  ⟨by decide, isTop_of_B (by decide), fun _ => topoSorted_of_B (by decide)⟩

/-- `construct_lattice_by_spanning_tree(concepts, is_concepts_sorted, n_jobs=1)`: spanning tree, chains, the
    sequential chain sweep (per-chain resume indexes, the three shared sets, the three exits of
    `iterate_chain`) and the final reduction return exactly the cover relation. -/
theorem spanning_tree_covers (cs : List Ext) (top : Nat) (isSorted : Bool)
    (hin : TreeInput cs top isSorted) (ord : List Nat → List Nat) (hord : OrdOK ord)
    (sched : Nat → Nat → List Nat → List Nat) :
    ∃ out, bySpanningTreeC cs isSorted 1 ord sched = .ok out ∧ IsCoverDict cs out := by
  -- with `n_jobs = 1` the schedule argument is not even looked at
  have h := bySpanningTree_C cs top isSorted hin ord hord 1 (Nat.le_refl _) (fun _ _ b => b)
    (fun _ _ b => List.Perm.refl b)
  unfold bySpanningTreeC bySpanningTree at h ⊢
  simpa using h

/-- the parallel twin `construct_lattice_from_spanning_tree_parallel` inside
    `construct_lattice_by_spanning_tree(…, n_jobs)`: for every `n_jobs ≥ 1` the chains are handed out in batches
    of `n_jobs`, and *for every order in which the scans of a batch take effect* (`SchedOK`: for each concept and
    batch an arbitrary permutation of the batch — every interleaving at the granularity of one `iterate_chain`
    call on the shared sets) the result is the cover relation; hence any two job counts / schedules give the same
    dictionary (second part).  NOT covered: interleavings *inside* a scan (two threads between two bytecodes of
    `iterate_chain`); the model does not exhibit them and the harness only probes them with a
    `sys.setswitchinterval` sweep. -/
theorem spanning_tree_parallel_sched_indep (cs : List Ext) (top : Nat) (isSorted : Bool)
    (hin : TreeInput cs top isSorted) (ord : List Nat → List Nat) (hord : OrdOK ord)
    (nJobs : Nat) (hjobs : 1 ≤ nJobs) (sched : Nat → Nat → List Nat → List Nat) (hsched : SchedOK sched) :
    (∃ out, bySpanningTreeC cs isSorted nJobs ord sched = .ok out ∧ IsCoverDict cs out) ∧
    ∀ (nJobs' : Nat) (ord' : List Nat → List Nat) (sched' : Nat → Nat → List Nat → List Nat),
      1 ≤ nJobs' → OrdOK ord' → SchedOK sched' →
      ∃ out out', bySpanningTreeC cs isSorted nJobs ord sched = .ok out ∧
        bySpanningTreeC cs isSorted nJobs' ord' sched' = .ok out' ∧
        ∀ i, i < cs.length → SameSetC (out.getD i []) (out'.getD i []) := by
  obtain ⟨out, e, c⟩ := bySpanningTree_C cs top isSorted hin ord hord nJobs hjobs sched hsched
  refine ⟨⟨out, e, c⟩, fun nJobs' ord' sched' hj' ho' hs' => ?_⟩
  obtain ⟨out', e', c'⟩ := bySpanningTree_C cs top isSorted hin ord' ho' nJobs' hj' sched' hs'
  refine ⟨out, out', e, e', fun i hi x => ?_⟩
  rw [(c.2 i hi).2 x, (c'.2 i hi).2 x]

/-- a schedule that reverses every second batch is admissible -/
example : SchedOK (fun c k b => if (c + k) % 2 = 0 then b else b.reverse) := by
  intro c k b
  show (if (c + k) % 2 = 0 then b else b.reverse).Perm b
  split
  · exact List.Perm.refl _
  · exact List.reverse_perm _

/-- `order_extents_comparison` at specification level: `caspailleur` is third-party and enters by its contract
    (`id_to_topo_map` is a permutation `idToTopo` of the indexes and the bit-set routine returns the lower covers
    `Spec.covers` of the re-listed extents — its documented behaviour on complete concept sets).  What is proved is
    the code's own part: the dictionary comprehension that translates sorted positions back has every index as a
    key exactly once and maps it to exactly its lower covers in the original listing. -/
theorem order_extents_covers (cs : List Ext) (idToTopo : List Nat)
    (hperm : idToTopo.Perm (List.range cs.length)) :
    ((orderExtentsComparison cs.length idToTopo (Spec.covers (topoList cs idToTopo))).map (·.1)).Perm
        (List.range cs.length) ∧
    ∀ i, i < cs.length →
      (dictGet (orderExtentsComparison cs.length idToTopo (Spec.covers (topoList cs idToTopo))) i).Nodup ∧
      SameSetC (dictGet (orderExtentsComparison cs.length idToTopo (Spec.covers (topoList cs idToTopo))) i)
        (Spec.covers cs i) :=
  ⟨orderExtents_keys cs idToTopo ⟨hperm⟩ _, fun _ hi => orderExtents_covers cs idToTopo ⟨hperm⟩ hi⟩

/-- `add_concept(new, concepts, children, parents, top, bottom)` — given the correct cover relation (both
    directions) of a list with a greatest and a least concept, the true extreme indexes or `None` for either of
    them, and a new concept (not in the list) with which the list still has a greatest and a least concept — returns
    the correct children and parents dictionaries, top and bottom index of the enlarged list `concepts + [new]`,
    for every iteration order of the sets and every fuel above the closed-form bound `addFuel`
    (`AddInput` bundles exactly these hypotheses; the three branches new-top / new-bottom / in-between are covered).
    Purity: the model is a function — it returns new values and cannot modify `cs` / `r`.  That the real helper
    leaves the caller's list and dictionaries untouched with `inplace=False` (and puts the result into them with
    `inplace=True`) is therefore NOT a consequence of this theorem; the correspondence check establishes it on the
    explored inputs (deep comparison with a snapshot, and a history of further calls on the same base). -/
theorem add_concept_correct (cs : List Ext) (new : Ext) (r : Rel) (t0 b0 : Nat)
    (hin : AddInput cs new r t0 b0) (ord : List Nat → List Nat) (hord : OrdOK ord)
    (fuel : Nat) (hfuel : addFuel cs new r ≤ fuel) :
    ∃ r', addConcept cs new r ord fuel = .ok r' ∧
      IsCoverDict (cs ++ [new]) r'.sub ∧ IsUpperCoverDict (cs ++ [new]) r'.sup ∧
      ∃ t' b', r'.top = some t' ∧ IsTop (cs ++ [new]) t' ∧ r'.bot = some b' ∧ IsBottom (cs ++ [new]) b' :=
  addConcept_ok hin ord hord hfuel

example : AddInput [[0, 1], [], [1]] [0] ⟨[[2], [], [1]], [[], [2], [0]], some 0, none⟩ 0 1 where
  nodup := by decide
  len := by decide
  fresh := by decide
  sub := isCoverDict_of_eq (by decide)
  sup := isUpperCoverDict_of_eq (by decide)
  top := isTop_of_B (by decide)
  bot := isBottom_of_B (by decide)
  rtop := Or.inr rfl
  rbot := Or.inl rfl
  top' := ⟨0, isTop_of_B (by decide)⟩
  bot' := ⟨1, isBottom_of_B (by decide)⟩

/-- the new concept may become the new top -/
example : AddInput [[0], []] [0, 1] ⟨[[1], []], [[], [0]], some 0, some 1⟩ 0 1 where
  nodup := by decide
  len := by decide
  fresh := by decide
  sub := isCoverDict_of_eq (by decide)
  sup := isUpperCoverDict_of_eq (by decide)
  top := isTop_of_B (by decide)
  bot := isBottom_of_B (by decide)
  rtop := Or.inr rfl
  rbot := Or.inr rfl
  top' := ⟨2, isTop_of_B (by decide)⟩
  bot' := ⟨1, isBottom_of_B (by decide)⟩

/-- `remove_concept(concept_i, concepts, children, parents, top, bottom)` — given the correct cover relation
    (both directions) of a list of at least three concepts with a greatest and a least one, the true extreme
    indexes or `None`, and an index whose removal leaves a list that still has a greatest and a least concept
    (this includes removing the top or the bottom itself when it has a single neighbour) — returns the correct
    children and parents dictionaries (re-indexed), top and bottom index of the reduced list, for every iteration
    order of the sets (`RemInput` bundles exactly these hypotheses).  Purity: as for `add_concept_correct` the
    model returns new values; that the real helper does not touch its inputs with `inplace=False` is checked by the
    correspondence check, not proved here. -/
theorem remove_concept_correct (cs : List Ext) (ci : Nat) (r : Rel) (t0 b0 : Nat)
    (hin : RemInput cs ci r t0 b0) (ord : List Nat → List Nat) (hord : OrdOK ord) :
    ∃ r', removeConcept cs ci r ord = .ok r' ∧
      IsCoverDict (cs.eraseIdx ci) r'.sub ∧ IsUpperCoverDict (cs.eraseIdx ci) r'.sup ∧
      ∃ t' b', r'.top = some t' ∧ IsTop (cs.eraseIdx ci) t' ∧ r'.bot = some b' ∧
        IsBottom (cs.eraseIdx ci) b' :=
  removeConcept_ok hin ord hord

example : RemInput [[0, 1], [], [1]] 2 ⟨[[2], [], [1]], [[], [2], [0]], some 0, none⟩ 0 1 where
  nodup := by decide
  len := by decide
  ciLt := by decide
  sub := isCoverDict_of_eq (by decide)
  sup := isUpperCoverDict_of_eq (by decide)
  top := isTop_of_B (by decide)
  bot := isBottom_of_B (by decide)
  rtop := Or.inr rfl
  rbot := Or.inl rfl
  top' := ⟨0, isTop_of_B (by decide)⟩
  bot' := ⟨1, isBottom_of_B (by decide)⟩

/-- removing the top itself (its only child becomes the top) is within the hypotheses -/
example : RemInput [[0, 1], [], [1]] 0 ⟨[[2], [], [1]], [[], [2], [0]], none, some 1⟩ 0 1 where
  nodup := by decide
  len := by decide
  ciLt := by decide
  sub := isCoverDict_of_eq (by decide)
  sup := isUpperCoverDict_of_eq (by decide)
  top := isTop_of_B (by decide)
  bot := isBottom_of_B (by decide)
  rtop := Or.inl rfl
  rbot := Or.inr rfl
  top' := ⟨1, isTop_of_B (by decide)⟩
  bot' := ⟨0, isBottom_of_B (by decide)⟩

end Fca.C12

/-
  Props/C12 — every order-construction routine computes exactly the cover relation.

  Only the property theorems live here (plus examples showing that their hypotheses are satisfiable);
  models are in `Fca/Model/Construct.lean`, the specification in `Fca/Spec/Covers.lean`, hypotheses bundles
  (`OrdOK`, `SchedOK`, `TopoSorted`, `TreeInput`, `AddInput`, `RemInput`, `IsCoverDict`, …) and all lemmas in
  `Fca/Lemmas/Construct*.lean`.

  Conventions: a concept is its extent (duplicate-free `List Nat`); `Spec.covers cs i` are the lower covers of
  concept `i` within the list `cs`; a returned dictionary `out` "is the cover relation" (`IsCoverDict cs out`) when
  it has one duplicate-free entry per index whose members are exactly `Spec.covers cs i` (sets are compared by
  membership; the driver prints them sorted).  Every loop over a Python `set` goes through `ord`, an arbitrary
  rearrangement (`OrdOK`), and the theorems hold for all of them.
-/
import Fca.Model.Construct
import Fca.Spec.Covers
import Fca.Lemmas.ConstructBasic
import Fca.Lemmas.ConstructCC
import Fca.Lemmas.ConstructOE
import Fca.Lemmas.ConstructAdd
import Fca.Lemmas.ConstructRemove2
import Fca.Lemmas.ConstructHyps
import Fca.Lemmas.ConstructFast
import Fca.Lemmas.ConstructPruned
import Fca.Lemmas.CaspFinal
namespace Fca.C12
open Fca Fca.Spec Fca.Construct

/-- `complete_comparison(concepts, is_concepts_sorted=False, n_jobs)` returns for every concept exactly its
    lower covers within the list — any list of duplicate-free extents (a greatest / least element is not even
    needed), any listing order, any job count (`joblib` returns the per-concept results in submission order),
    any iteration order of the copied sets.  The model keeps the aliasing of the real code: the subtraction
    loop shrinks the very sets it later subtracts. -/
theorem complete_comparison_covers (cs : List Ext) (hnd : ExtsNodup cs) (nJobs : Nat)
    (ord : List Nat → List Nat) (hord : OrdOK ord) :
    IsCoverDict cs (completeComparisonC cs false nJobs ord) := by
  have h := completeComparison_covers (n := cs.length) (strictOrd_ltAt cs hnd) ord false nJobs
    (fun xs x => (hord xs).mem_iff) (fun a x _ => mem_getSubconcepts_unsorted)
  unfold IsCoverDict completeComparisonC Spec.covers
  rw [← ltAt_eq_ssubAt hnd]
  exact h

/-- the same with `is_concepts_sorted=True` (the `b_i < a_i` shortcut and `sorted(b_is)`): what the flag needs is
    `TopoSorted` — every strict superconcept is listed before its subconcepts; sorting by non-increasing support
    (`SizeSorted`, what `sort_concepts` does) is one way to get it (`sizeSorted_topoSorted`). -/
theorem complete_comparison_sorted_covers (cs : List Ext) (hnd : ExtsNodup cs) (hsorted : TopoSorted cs)
    (nJobs : Nat) (ord : List Nat → List Nat) (hord : OrdOK ord) :
    IsCoverDict cs (completeComparisonC cs true nJobs ord) := by
  have h := completeComparison_covers (n := cs.length) (strictOrd_ltAt cs hnd) ord true nJobs
    (fun xs x => (hord xs).mem_iff)
    (fun a x ha => mem_getSubconcepts_sorted (fun j hj hlt => by
      rw [ltAt_eq_ssubAt hnd] at hlt
      exact hsorted a j ha hj hlt))
  unfold IsCoverDict completeComparisonC Spec.covers
  rw [← ltAt_eq_ssubAt hnd]
  exact h

example : ExtsNodup [[0, 1, 2], [0, 1], [2], []] ∧ TopoSorted [[0, 1, 2], [0, 1], [2], []] :=
  ⟨by decide, topoSorted_of_B (by decide)⟩

/-- a linear extension that is not sorted by size is admissible as well -/
example : TopoSorted [[0, 1, 2], [2], [0, 1], []] ∧ ¬ SizeSorted [[0, 1, 2], [2], [0, 1], []] :=
  ⟨topoSorted_of_B (by decide), fun h => by have := h 1 2 (by decide) (by decide); revert this; decide⟩

/-- `construct_spanning_tree` followed by `_get_chains` (both flags, every iteration order of the child sets):
    both succeed; every chain starts at the greatest concept, every step goes from a concept to one of its
    children in the tree (its unique tree parent is the previous element) and is a strict inclusion of extents,
    all entries are valid indexes, and the chains cover all indexes (`Spec.chainsOK`, the checker the driver also
    applies to the implementation's own tree and chains).  `TreeInput`: duplicate-free extents, `top` is the
    greatest concept, and `TopoSorted` when the flag is set. -/
theorem chains_of_spanning_tree (cs : List Ext) (top : Nat) (isSorted : Bool)
    (hin : TreeInput cs top isSorted) (ord : List Nat → List Nat) (hord : OrdOK ord) :
    ∃ t chains, spanningTreeC cs isSorted ord = .ok t ∧ getChainsC cs t.sup isSorted = .ok chains ∧
      chainsOK cs.length (ssubAt cs) (parentOf t.sup) top chains = true := by
  obtain ⟨t, chs, h1, h2, h3⟩ := tree_chains_C cs top isSorted hin ord hord
  refine ⟨t, chs, h1, h2, ?_⟩
  rw [← ltAt_eq_ssubAt hin.nodup]; exact h3

example : TreeInput [[2], [0, 1, 2], [], [0, 1]] 1 false :=
  ⟨by decide, isTop_of_B (by decide), by intro h; cases h⟩

example : TreeInput [[0, 1, 2], [2], [0, 1], []] 0 true :=
  ⟨by decide, isTop_of_B (by decide), fun _ => topoSorted_of_B (by decide)⟩

/-- `construct_lattice_by_spanning_tree(concepts, is_concepts_sorted, n_jobs=1)`: spanning tree, chains, the
    sequential chain sweep (per-chain resume indexes, the three shared sets, the three exits of
    `iterate_chain`) and the final reduction return exactly the cover relation. -/
theorem spanning_tree_covers (cs : List Ext) (top : Nat) (isSorted : Bool)
    (hin : TreeInput cs top isSorted) (ord : List Nat → List Nat) (hord : OrdOK ord)
    (sched : Nat → Nat → List Nat → List Nat) :
    ∃ out, bySpanningTreeC cs isSorted 1 ord sched = .ok out ∧ IsCoverDict cs out := by
  -- with `n_jobs = 1` the schedule argument is not even looked at
  have h := bySpanningTree_C cs top isSorted hin ord hord 1 (Nat.le_refl _) (fun _ _ b => b)
    (fun _ _ b => List.Perm.refl b)
  unfold bySpanningTreeC bySpanningTree at h ⊢
  simpa using h

/-- the parallel twin `construct_lattice_from_spanning_tree_parallel` inside
    `construct_lattice_by_spanning_tree(…, n_jobs)`: for every `n_jobs ≥ 1` the chains are handed out in batches
    of `n_jobs`, and *for every order in which the scans of a batch take effect* (`SchedOK`: for each concept and
    batch an arbitrary permutation of the batch — every interleaving at the granularity of one `iterate_chain`
    call on the shared sets) the result is the cover relation; hence any two job counts / schedules give the same
    dictionary (second part).  NOT covered: interleavings *inside* a scan (two threads between two bytecodes of
    `iterate_chain`); the model does not exhibit them and the harness only probes them with a
    `sys.setswitchinterval` sweep. -/
theorem spanning_tree_parallel_sched_indep (cs : List Ext) (top : Nat) (isSorted : Bool)
    (hin : TreeInput cs top isSorted) (ord : List Nat → List Nat) (hord : OrdOK ord)
    (nJobs : Nat) (hjobs : 1 ≤ nJobs) (sched : Nat → Nat → List Nat → List Nat) (hsched : SchedOK sched) :
    (∃ out, bySpanningTreeC cs isSorted nJobs ord sched = .ok out ∧ IsCoverDict cs out) ∧
    ∀ (nJobs' : Nat) (ord' : List Nat → List Nat) (sched' : Nat → Nat → List Nat → List Nat),
      1 ≤ nJobs' → OrdOK ord' → SchedOK sched' →
      ∃ out out', bySpanningTreeC cs isSorted nJobs ord sched = .ok out ∧
        bySpanningTreeC cs isSorted nJobs' ord' sched' = .ok out' ∧
        ∀ i, i < cs.length → SameSetC (out.getD i []) (out'.getD i []) := by
  obtain ⟨out, e, c⟩ := bySpanningTree_C cs top isSorted hin ord hord nJobs hjobs sched hsched
  refine ⟨⟨out, e, c⟩, fun nJobs' ord' sched' hj' ho' hs' => ?_⟩
  obtain ⟨out', e', c'⟩ := bySpanningTree_C cs top isSorted hin ord' ho' nJobs' hj' sched' hs'
  refine ⟨out, out', e, e', fun i hi x => ?_⟩
  rw [(c.2 i hi).2 x, (c'.2 i hi).2 x]

/-- a schedule that reverses every second batch is admissible -/
example : SchedOK (fun c k b => if (c + k) % 2 = 0 then b else b.reverse) := by
  intro c k b
  show (if (c + k) % 2 = 0 then b else b.reverse).Perm b
  split
  · exact List.Perm.refl _
  · exact List.reverse_perm _

/-- `order_extents_comparison` at specification level: `caspailleur` is third-party and enters by its contract
    (`id_to_topo_map` is a permutation `idToTopo` of the indexes and the bit-set routine returns the lower covers
    `Spec.covers` of the re-listed extents — its documented behaviour on complete concept sets).  What is proved is
    the code's own part: the dictionary comprehension that translates sorted positions back has every index as a
    key exactly once and maps it to exactly its lower covers in the original listing. -/
theorem order_extents_covers (cs : List Ext) (idToTopo : List Nat)
    (hperm : idToTopo.Perm (List.range cs.length)) :
    ((orderExtentsComparison cs.length idToTopo (Spec.covers (topoList cs idToTopo))).map (·.1)).Perm
        (List.range cs.length) ∧
    ∀ i, i < cs.length →
      (dictGet (orderExtentsComparison cs.length idToTopo (Spec.covers (topoList cs idToTopo))) i).Nodup ∧
      SameSetC (dictGet (orderExtentsComparison cs.length idToTopo (Spec.covers (topoList cs idToTopo))) i)
        (Spec.covers cs i) :=
  ⟨orderExtents_keys cs idToTopo ⟨hperm⟩ _, fun _ hi => orderExtents_covers cs idToTopo ⟨hperm⟩ hi⟩

/-- `add_concept(new, concepts, children, parents, top, bottom)` — given the correct cover relation (both
    directions) of a list with a greatest and a least concept, the true extreme indexes or `None` for either of
    them, and a new concept (not in the list) with which the list still has a greatest and a least concept — returns
    the correct children and parents dictionaries, top and bottom index of the enlarged list `concepts + [new]`,
    for every iteration order of the sets and every fuel above the closed-form bound `addFuel`
    (`AddInput` bundles exactly these hypotheses; the three branches new-top / new-bottom / in-between are covered).
    Purity: the model is a function — it returns new values and cannot modify `cs` / `r`.  That the real helper
    leaves the caller's list and dictionaries untouched with `inplace=False` (and puts the result into them with
    `inplace=True`) is therefore NOT a consequence of this theorem; the correspondence check establishes it on the
    explored inputs (deep comparison with a snapshot, and a history of further calls on the same base). -/
theorem add_concept_correct (cs : List Ext) (new : Ext) (r : Rel) (t0 b0 : Nat)
    (hin : AddInput cs new r t0 b0) (ord : List Nat → List Nat) (hord : OrdOK ord)
    (fuel : Nat) (hfuel : addFuel cs new r ≤ fuel) :
    ∃ r', addConcept cs new r ord fuel = .ok r' ∧
      IsCoverDict (cs ++ [new]) r'.sub ∧ IsUpperCoverDict (cs ++ [new]) r'.sup ∧
      ∃ t' b', r'.top = some t' ∧ IsTop (cs ++ [new]) t' ∧ r'.bot = some b' ∧ IsBottom (cs ++ [new]) b' :=
  addConcept_ok hin ord hord hfuel

example : AddInput [[0, 1], [], [1]] [0] ⟨[[2], [], [1]], [[], [2], [0]], some 0, none⟩ 0 1 where
  nodup := by decide
  len := by decide
  fresh := by decide
  sub := isCoverDict_of_eq (by decide)
  sup := isUpperCoverDict_of_eq (by decide)
  top := isTop_of_B (by decide)
  bot := isBottom_of_B (by decide)
  rtop := Or.inr rfl
  rbot := Or.inl rfl
  top' := ⟨0, isTop_of_B (by decide)⟩
  bot' := ⟨1, isBottom_of_B (by decide)⟩

/-- the new concept may become the new top -/
example : AddInput [[0], []] [0, 1] ⟨[[1], []], [[], [0]], some 0, some 1⟩ 0 1 where
  nodup := by decide
  len := by decide
  fresh := by decide
  sub := isCoverDict_of_eq (by decide)
  sup := isUpperCoverDict_of_eq (by decide)
  top := isTop_of_B (by decide)
  bot := isBottom_of_B (by decide)
  rtop := Or.inr rfl
  rbot := Or.inr rfl
  top' := ⟨2, isTop_of_B (by decide)⟩
  bot' := ⟨1, isBottom_of_B (by decide)⟩

/-- `remove_concept(concept_i, concepts, children, parents, top, bottom)` — given the correct cover relation
    (both directions) of a list of at least three concepts with a greatest and a least one, the true extreme
    indexes or `None`, and an index whose removal leaves a list that still has a greatest and a least concept
    (this includes removing the top or the bottom itself when it has a single neighbour) — returns the correct
    children and parents dictionaries (re-indexed), top and bottom index of the reduced list, for every iteration
    order of the sets (`RemInput` bundles exactly these hypotheses).  Purity: as for `add_concept_correct` the
    model returns new values; that the real helper does not touch its inputs with `inplace=False` is checked by the
    correspondence check, not proved here. -/
theorem remove_concept_correct (cs : List Ext) (ci : Nat) (r : Rel) (t0 b0 : Nat)
    (hin : RemInput cs ci r t0 b0) (ord : List Nat → List Nat) (hord : OrdOK ord) :
    ∃ r', removeConcept cs ci r ord = .ok r' ∧
      IsCoverDict (cs.eraseIdx ci) r'.sub ∧ IsUpperCoverDict (cs.eraseIdx ci) r'.sup ∧
      ∃ t' b', r'.top = some t' ∧ IsTop (cs.eraseIdx ci) t' ∧ r'.bot = some b' ∧
        IsBottom (cs.eraseIdx ci) b' :=
  removeConcept_ok hin ord hord

example : RemInput [[0, 1], [], [1]] 2 ⟨[[2], [], [1]], [[], [2], [0]], some 0, none⟩ 0 1 where
  nodup := by decide
  len := by decide
  ciLt := by decide
  sub := isCoverDict_of_eq (by decide)
  sup := isUpperCoverDict_of_eq (by decide)
  top := isTop_of_B (by decide)
  bot := isBottom_of_B (by decide)
  rtop := Or.inr rfl
  rbot := Or.inl rfl
  top' := ⟨0, isTop_of_B (by decide)⟩
  bot' := ⟨1, isBottom_of_B (by decide)⟩

/-- removing the top itself (its only child becomes the top) is within the hypotheses -/
example : RemInput [[0, 1], [], [1]] 0 ⟨[[2], [], [1]], [[], [2], [0]], none, some 1⟩ 0 1 where
  nodup := by decide
  len := by decide
  ciLt := by decide
  sub := isCoverDict_of_eq (by decide)
  sup := isUpperCoverDict_of_eq (by decide)
  top := isTop_of_B (by decide)
  bot := isBottom_of_B (by decide)
  rtop := Or.inl rfl
  rbot := Or.inr rfl
  top' := ⟨1, isTop_of_B (by decide)⟩
  bot' := ⟨0, isBottom_of_B (by decide)⟩

/-! ### size-gated scenarios (H8): what holds for lists of every size, with every kind of extent -/

/-- **Pruned lists.**  Take any list that meets the hypotheses of the spanning-tree theorems and keep an arbitrary
    sub-list of it that still contains the greatest concept (Sofia / random-forest style pruning, a filter on a
    measure, 20 concepts dropped out of 1024, …): the sub-list meets the hypotheses again, so
    `construct_lattice_by_spanning_tree` (every `n_jobs ≥ 1`, every schedule, both flags) and
    `complete_comparison` return exactly the cover relation OF THE SUB-LIST.  Nothing like closure under
    intersection is assumed anywhere (the example below is a sub-list that is not closed): a routine that is only
    right on complete concept sets — `order_extents_comparison` — is not a substitute, at any size. -/
theorem pruned_list_covers (cs cs' : List Ext) (top : Nat) (isSorted : Bool)
    (hin : TreeInput cs top isSorted) (hsub : cs'.Sublist cs) (hkeep : cs.getD top [] ∈ cs')
    (ord : List Nat → List Nat) (hord : OrdOK ord) (nJobs : Nat) (hjobs : 1 ≤ nJobs)
    (sched : Nat → Nat → List Nat → List Nat) (hsched : SchedOK sched) :
    (∃ out, bySpanningTreeC cs' isSorted nJobs ord sched = .ok out ∧ IsCoverDict cs' out) ∧
    IsCoverDict cs' (completeComparisonC cs' isSorted nJobs ord) := by
  obtain ⟨top', hin'⟩ := hin.sublist hsub hkeep
  refine ⟨bySpanningTree_C cs' top' isSorted hin' ord hord nJobs hjobs sched hsched, ?_⟩
  cases isSorted with
  | false => exact complete_comparison_covers cs' hin'.nodup nJobs ord hord
  | true => exact complete_comparison_sorted_covers cs' hin'.nodup (hin'.sorted rfl) nJobs ord hord

/-- the hypotheses are met by a complete lattice (all subsets of three objects, sorted) and a pruned sub-list of
    it that is NOT closed under intersection: `{0,1} ∩ {1,2} = {1}` was dropped -/
example :
    TreeInput [[0, 1, 2], [0, 1], [0, 2], [1, 2], [0], [1], [2], []] 0 true ∧
    [[0, 1, 2], [0, 1], [1, 2], [0], []].Sublist [[0, 1, 2], [0, 1], [0, 2], [1, 2], [0], [1], [2], []] ∧
    ([[0, 1, 2], [0, 1], [0, 2], [1, 2], [0], [1], [2], []] : List Ext).getD 0 [] ∈
      ([[0, 1, 2], [0, 1], [1, 2], [0], []] : List Ext) ∧
    interClosedB [[0, 1, 2], [0, 1], [0, 2], [1, 2], [0], [1], [2], []] = true ∧
    interClosedB [[0, 1, 2], [0, 1], [1, 2], [0], []] = false :=
  ⟨⟨by decide, isTop_of_B (by decide), fun _ => topoSorted_of_B (by decide)⟩, by decide, by decide, by decide,
    by decide⟩

/-- **Extents count as sets.**  Two listings of the same concepts that differ only in the ORDER in which each concept
    lists its objects (`extent_i` ascending, descending, shuffled — `SameExtents`) get the same cover relation from
    the spanning-tree routine and from `complete_comparison`, for any two job counts, set-iteration orders and
    schedules.  Object indexes are natural numbers of any size in all C12 theorems: there is no word size, object
    64 or 128 is an object like any other (second example below). -/
theorem result_depends_on_extents_as_sets (cs cs' : List Ext) (top : Nat) (isSorted : Bool)
    (hin : TreeInput cs top isSorted) (hsame : SameExtents cs cs') (hnd' : ExtsNodup cs')
    (ord ord' : List Nat → List Nat) (hord : OrdOK ord) (hord' : OrdOK ord')
    (nJobs nJobs' : Nat) (hj : 1 ≤ nJobs) (hj' : 1 ≤ nJobs')
    (sched sched' : Nat → Nat → List Nat → List Nat) (hs : SchedOK sched) (hs' : SchedOK sched') :
    (∃ out out', bySpanningTreeC cs isSorted nJobs ord sched = .ok out ∧
        bySpanningTreeC cs' isSorted nJobs' ord' sched' = .ok out' ∧
        ∀ i, i < cs.length → SameSetC (out.getD i []) (out'.getD i [])) ∧
    ∀ i, i < cs.length → SameSetC ((completeComparisonC cs isSorted nJobs ord).getD i [])
      ((completeComparisonC cs' isSorted nJobs' ord').getD i []) := by
  have hin' : TreeInput cs' top isSorted :=
    ⟨hnd', isTop_sameExtents hsame hin.top, fun h => topoSorted_sameExtents hsame (hin.sorted h)⟩
  obtain ⟨out, e, c⟩ := bySpanningTree_C cs top isSorted hin ord hord nJobs hj sched hs
  obtain ⟨out', e', c'⟩ := bySpanningTree_C cs' top isSorted hin' ord' hord' nJobs' hj' sched' hs'
  have c'' := isCoverDict_sameExtents hsame c'
  have hcc : IsCoverDict cs (completeComparisonC cs isSorted nJobs ord) ∧
      IsCoverDict cs (completeComparisonC cs' isSorted nJobs' ord') := by
    cases isSorted with
    | false =>
      exact ⟨complete_comparison_covers cs hin.nodup nJobs ord hord,
        isCoverDict_sameExtents hsame (complete_comparison_covers cs' hnd' nJobs' ord' hord')⟩
    | true =>
      exact ⟨complete_comparison_sorted_covers cs hin.nodup (hin.sorted rfl) nJobs ord hord,
        isCoverDict_sameExtents hsame
          (complete_comparison_sorted_covers cs' hnd' (hin'.sorted rfl) nJobs' ord' hord')⟩
  refine ⟨⟨out, out', e, e', fun i hi x => ?_⟩, fun i hi x => ?_⟩
  · rw [(c.2 i hi).2 x, (c''.2 i hi).2 x]
  · rw [(hcc.1.2 i hi).2 x, (hcc.2.2 i hi).2 x]

/-- the same concepts with the objects listed in another order, object indexes beyond any machine word -/
example : SameExtents [[0, 1, 2, 64, 200], [0, 64], [0, 1, 2], [0], []] [[200, 2, 64, 0, 1], [64, 0], [2, 0, 1], [0], []] ∧
    ExtsNodup [[200, 2, 64, 0, 1], [64, 0], [2, 0, 1], [0], []] ∧
    TreeInput [[0, 1, 2, 64, 200], [0, 64], [0, 1, 2], [0], []] 0 false :=
  ⟨⟨rfl, fun i => by
      match i with
      | 0 | 1 | 2 | 3 | 4 => intro x; simp [List.getD] <;> omega
      | _ + 5 => intro x; simp [List.getD]⟩,
    by decide, ⟨by decide, isTop_of_B (by decide), by intro h; cases h⟩⟩

/-- object 64 decides: `{0, 64}` is not below `{0, 1, 2}` (it would be if the object were dropped), and `{0}` is the
    only lower cover of either -/
example : Spec.coversDict [[0, 1, 2, 64, 200], [0, 64], [0, 1, 2], [0], []] = [[1, 2], [3], [3], [4], []] := by decide

/-- **The driver's oracle is the specification.**  The bit-set evaluation used by the driver (extents packed into
    unbounded `Nat` bit sets, the strict-inclusion relation tabulated as bit rows, "row minus the union of the rows
    of its members") returns EXACTLY the lists `Spec.coversDict` / `Spec.upperCoversDict` define, and the same
    greatest / least index, for every list of extents — 1000-concept lists are judged by the specification itself. -/
theorem fast_oracle_exact (cs : List Ext) :
    Spec.Fast.coversDictFast cs = Spec.coversDict cs ∧
    Spec.Fast.upperCoversDictFast cs = Spec.upperCoversDict cs ∧
    Spec.Fast.topFast cs = (List.range cs.length).find? (Spec.isTopB cs) ∧
    Spec.Fast.bottomFast cs = (List.range cs.length).find? (Spec.isBottomB cs) :=
  ⟨Spec.Fast.coversDictFast_eq cs, Spec.Fast.upperCoversDictFast_eq cs, Spec.Fast.topFast_eq cs,
    Spec.Fast.bottomFast_eq cs⟩

example : Spec.Fast.coversDictFast [[0, 1, 2, 64, 200], [0, 64], [0, 1, 2], [0], []] = [[1, 2], [3], [3], [4], []] := by
  decide

/-- **The driver's model runs are the models.**  The driver evaluates the generic models at the tabulated concept
    comparison `ltAtFast cs` (supports and packed extents looked up in arrays); that comparison IS `ltAt cs`
    (`concepts[i] < concepts[j]` with its two support shortcuts) for every list, so the three entry points
    coincide with the ones the theorems above are about. -/
theorem models_at_fast_lt (cs : List Ext) :
    ltAtFast cs = ltAt cs ∧ completeComparisonF cs = completeComparisonC cs ∧
    spanningTreeF cs = spanningTreeC cs ∧ bySpanningTreeF cs = bySpanningTreeC cs :=
  ⟨ltAtFast_eq cs, completeComparisonF_eq cs, spanningTreeF_eq cs, bySpanningTreeF_eq cs⟩


/-! ## `order_extents_comparison` and `caspailleur.order` — code-shaped model, contract proved (session 4) -/

open Fca Fca.Construct Fca.Spec

/-- `order_extents_comparison(concepts)` — code-shaped model incl. the caspailleur routines — returns a
    dictionary whose keys are all indexes (each once) and whose value at `i` is exactly the set of lower
    covers of `cs[i]` within `cs` under extent inclusion: the statement of `order_extents_covers` with the
    permutation and the cover function COMPUTED instead of taken by contract.  FULL on duplicate-free
    intersection-closed families whose indexes fit `n_objects`. -/
theorem order_extents_comparison_code_exact (cs : List Ext)
    (hr : Casp.inRangeB cs = true) (hd : Casp.distinctSetsB cs = true) (hc : Casp.interClosedB cs = true) :
    ∃ d, Casp.orderExtentsComparisonCode cs = .ok d ∧
      (d.map (·.1)).Perm (List.range cs.length) ∧
      ∀ i, i < cs.length → (dictGet d i).Nodup ∧ SameSetC (dictGet d i) (Spec.covers cs i) :=
  Casp.oe_code_exact cs hr hd hc

/-- the code-shaped model returns the very value the specification-level model is handed by contract -/
theorem order_extents_comparison_code_eq_contract (cs : List Ext)
    (hr : Casp.inRangeB cs = true) (hd : Casp.distinctSetsB cs = true) (hc : Casp.interClosedB cs = true) :
    ∃ idToTopo, idToTopo.Perm (List.range cs.length) ∧
      Casp.orderExtentsComparisonCode cs =
        .ok (orderExtentsComparison cs.length idToTopo (Spec.covers (topoList cs idToTopo))) := by
  obtain ⟨p, hp, e⟩ := Casp.oe_code_eq cs hr hd hc
  exact ⟨p, hp.perm, e⟩

/-- `sort_intents_inclusion(intents, return_transitive_order=True)` on a non-empty list of equal-length
    bitarrays that is duplicate-free, passes `check_topologically_sorted` and is closed under `&`:
    `lattice[i]` = the upper covers of `i` (smallest strict supersets), `trans_lattice[i]` = all strict
    supersets. -/
theorem sort_intents_inclusion_covers (intents : List Casp.Bits) (nA : Nat) (hne : intents ≠ [])
    (hu : Casp.Uniform intents nA) (hnd : intents.Nodup)
    (hs : Casp.checkTopologicallySorted true intents = true) (hc : Casp.Closed intents) :
    ∃ lattice trans, Casp.sortIntentsInclusion intents = .ok (lattice, trans) ∧
      lattice.length = intents.length ∧ trans.length = intents.length ∧
      ∀ i, i < intents.length → ∀ j,
        (Casp.bit (lattice.getD i []) j = true ↔
          (j < intents.length ∧ Casp.UpperCover intents.length (Casp.hasOf intents) i j)) ∧
        (Casp.bit (trans.getD i []) j = true ↔
          (j < intents.length ∧ Casp.SSub (Casp.hasOf intents) i j)) := by
  obtain ⟨st, e, inv⟩ := Casp.sortIntentsInclusion_spec hne hu hs (Casp.fam_of_list hu hnd hs hc)
  exact ⟨st.1, st.2, e, inv.shape1.1, inv.shape2.1, fun i hi j =>
    ⟨inv.lat i (Nat.zero_le _) hi j, inv.trans i (Nat.zero_le _) hi j⟩⟩

/-- `inverse_order` on an `n × n` table is the relation transpose: `new_order[j][i] = order[i][j]` -/
theorem inverse_order_transpose (order : List Casp.Bits) (n : Nat) (hs : Casp.Shape order n n) :
    ∃ inv, Casp.inverseOrder order = .ok inv ∧ Casp.Shape inv n n ∧
      ∀ i j, Casp.bit (inv.getD j []) i = true ↔ Casp.bit (order.getD i []) j = true :=
  Casp.inverseOrder_spec hs

/-- `topological_sorting(elements)`: the sorted list is a permutation of the input that passes
    `check_topologically_sorted`; on duplicate-free input the index map is a permutation of `range n`
    sending every position to the position of its element in the sorted list. -/
theorem topological_sorting_sorted (els : List Casp.Bits) (hnd : els.Nodup) :
    ∃ srt m, Casp.topologicalSorting els true = .ok (srt, m) ∧ srt.Perm els ∧
      Casp.checkTopologicallySorted true srt = true ∧ m.Perm (List.range els.length) ∧
      m = els.map srt.idxOf :=
  ⟨_, _, Casp.topologicalSorting_nodup hnd, Casp.stableSort_perm true els, Casp.stableSort_check els,
    Casp.idxMap_perm (Casp.stableSort_perm true els) hnd, rfl⟩

/-! non-vacuity: the hypotheses hold on the Boolean lattice `2^3` (8 extents, scrambled listing) and on an
    `N5`-shaped closed family; the model's value on them -/

example : Casp.inRangeB [[0], [0, 1, 2], [], [1, 2], [0, 1], [2], [1], [0, 2]] = true ∧
    Casp.distinctSetsB [[0], [0, 1, 2], [], [1, 2], [0, 1], [2], [1], [0, 2]] = true ∧
    Casp.interClosedB [[0], [0, 1, 2], [], [1, 2], [0, 1], [2], [1], [0, 2]] = true := by decide

example : Casp.orderExtentsComparisonCode [[0], [0, 1, 2], [], [1, 2], [0, 1], [2], [1], [0, 2]] =
    .ok [(2, []), (0, [2]), (6, [2]), (5, [2]), (4, [0, 6]), (7, [0, 5]), (3, [6, 5]), (1, [4, 7, 3])] := by
  decide

/-- `N5`: `∅ ⊂ {0} ⊂ {0,1} ⊂ {0,1,2}` and `∅ ⊂ {2} ⊂ {0,1,2}` -/
example : Casp.inRangeB [[0, 1, 2], [0, 1], [2], [0], []] = true ∧
    Casp.distinctSetsB [[0, 1, 2], [0, 1], [2], [0], []] = true ∧
    Casp.interClosedB [[0, 1, 2], [0, 1], [2], [0], []] = true := by decide

example : Casp.orderExtentsComparisonCode [[0, 1, 2], [0, 1], [2], [0], []] =
    .ok [(4, []), (3, [4]), (2, [4]), (1, [3]), (0, [2, 1])] := by decide

/-- **why the family must be intersection-closed**: `{0,1} ∩ {0,2} = {0}` is missing from this list; while
    `∅` (index 4) is processed, every element of `{1,2}` (index 3) is first found in an earlier-listed
    superset of `∅` (`1` in `{0,1}`, `2` in `{0,2}`), so `{1,2}` is never recorded as an upper neighbour of
    `∅`: the routine answers "`{1,2}` has no lower neighbour" although `∅` is one. -/
theorem not_closed_witness :
    Casp.interClosedB [[0, 1, 2], [0, 1], [0, 2], [1, 2], []] = false ∧
    Casp.inRangeB [[0, 1, 2], [0, 1], [0, 2], [1, 2], []] = true ∧
    Casp.distinctSetsB [[0, 1, 2], [0, 1], [0, 2], [1, 2], []] = true ∧
    Casp.orderExtentsComparisonCode [[0, 1, 2], [0, 1], [0, 2], [1, 2], []] =
      .ok [(4, []), (1, [4]), (2, [4]), (3, []), (0, [1, 2, 3])] ∧
    Spec.covers [[0, 1, 2], [0, 1], [0, 2], [1, 2], []] 3 = [4] := by decide

/-- the two other hypotheses are needed as well: a repeated extent ends in `KeyError` (the `{el: i}`
    dictionary of `topological_sorting` collapses the two copies, `topo_to_id_map` misses a position), an
    index `≥ max(len(extent))` in `IndexError` (`isets2bas`) -/
theorem duplicate_and_range_witness :
    Casp.orderExtentsComparisonCode [[0, 1], [0], [0], []] = .error .KeyError ∧
    Casp.orderExtentsComparisonCode [[2], []] = .error .IndexError ∧
    Casp.orderExtentsComparisonCode [] = .error .ValueError := by decide


end Fca.C12

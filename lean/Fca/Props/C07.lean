/-
  Props/C07 — every serialisation format round-trips contexts, concepts and lattices.
  Only property theorems live here; helper lemmas are in `Fca/Lemmas/Codec*.lean`.

  Text level (strings are `List Char`): cxt, csv.  Tree level (JSON trees / frames; `json.dumps`/`json.loads`
  and pandas are the trusted layer): json, pandas, formal concepts, lattices of formal concepts.
  Many-valued contexts, pattern concepts and their lattices: tree level as well; the JSON *texts* nested inside
  those trees (`ps.to_json(v)` is a text) are covered by an explicit hypothesis that `loads` inverts `dumps` on
  the value trees that occur (`MVCodecOk`, `PCodecOk`), shown satisfiable for the model's own `dumps`/`loads`.
-/
import Fca.Model.Codec
import Fca.Model.CodecJson
import Fca.Model.CodecMV
import Fca.Lemmas.CodecCxt
import Fca.Lemmas.CodecCsv
import Fca.Lemmas.CodecCsvSep
import Fca.Lemmas.CodecJson
import Fca.Lemmas.CodecConcept
import Fca.Lemmas.CodecMV
import Fca.Lemmas.CodecMVCxt
import Fca.Lemmas.CodecPConcept
import Fca.Lemmas.CodecHist
import Fca.Lemmas.CodecFloatLit
namespace Fca.C07
open Fca Fca.Codec

/-- at least one object and one attribute (the small end of the property's scope) -/
def NonEmpty (K : Cxt) : Prop := K.rows ≠ [] ∧ K.attrs ≠ []
instance (K : Cxt) : Decidable (NonEmpty K) := by unfold NonEmpty; infer_instance

/-- names the `.cxt` format can carry: every object and attribute name is non-empty and has no newline -/
def AdmissibleCxt (K : Cxt) : Prop := (∀ g ∈ K.objs, NameOk g) ∧ (∀ a ∈ K.attrs, NameOk a)
instance (K : Cxt) : Decidable (AdmissibleCxt K) := by unfold AdmissibleCxt; infer_instance

/-- what the csv format can carry with the one-character separator `c`: the separator is neither `\n` nor
    `\r`; no name and neither word contains the separator, `\n` or `\r` (names may be empty and may have
    leading/trailing blanks); the two words differ -/
def AdmissibleCsv (K : Cxt) (c : Char) (wt wf : Str) : Prop :=
  (c ≠ nl ∧ c ≠ cr) ∧ wt ≠ wf ∧ FieldOk c wt ∧ FieldOk c wf ∧
    (∀ g ∈ K.objs, FieldOk c g) ∧ (∀ a ∈ K.attrs, FieldOk c a)
instance (K : Cxt) (c : Char) (wt wf : Str) : Decidable (AdmissibleCsv K c wt wf) := by
  unfold AdmissibleCsv; infer_instance

/-- `read_cxt(data=write_cxt(K)) = K` (the description is not stored in the format). -/
theorem cxt_roundtrip (K : Cxt) (hwf : K.WF) (hne : NonEmpty K) (hadm : AdmissibleCxt K) :
    readCxt (writeCxt K) = .ok { K with descr := none } :=
  readCxt_writeCxt K hwf hne.1 hne.2 hadm.1 hadm.2

/-- `write_csv(K, path, sep, wt, wf)` followed by `read_csv(path, sep, wt, wf)` gives `K` back; the text
    goes through a text-mode file (universal newlines), which is why `\r` is excluded. -/
theorem csv_roundtrip (K : Cxt) (c : Char) (wt wf : Str) (hwf : K.WF) (hne : NonEmpty K)
    (hadm : AdmissibleCsv K c wt wf) :
    csvViaFile K [c] wt wf = .ok { K with descr := none } :=
  readCsv_writeCsv K c wt wf hwf hne.1 hne.2 hadm.1 hadm.2.1 hadm.2.2.1 hadm.2.2.2.1 hadm.2.2.2.2.1
    hadm.2.2.2.2.2

/-- admissibility for an arbitrary (multi-character) separator: it is non-empty and has no `\n`/`\r`, and no
    character of it occurs in a name or word ("the separator does not occur in a name" is *not* enough for
    several characters: with `sep = "aa"` the name `"a"` makes `"a" + "aa"` split as `["", "a"]`) -/
def AdmissibleCsvSep (K : Cxt) (sep wt wf : Str) : Prop :=
  (sep ≠ [] ∧ nl ∉ sep ∧ cr ∉ sep) ∧ wt ≠ wf ∧ FieldOkS sep wt ∧ FieldOkS sep wf ∧
    (∀ g ∈ K.objs, FieldOkS sep g) ∧ (∀ a ∈ K.attrs, FieldOkS sep a)
instance (K : Cxt) (sep wt wf : Str) : Decidable (AdmissibleCsvSep K sep wt wf) := by
  unfold AdmissibleCsvSep; infer_instance

/-- `csv_roundtrip` for any separator string (`sep='::'`, `' | '`, …). -/
theorem csv_roundtrip_multichar (K : Cxt) (sep wt wf : Str) (hwf : K.WF) (hne : NonEmpty K)
    (hadm : AdmissibleCsvSep K sep wt wf) :
    csvViaFile K sep wt wf = .ok { K with descr := none } :=
  readCsv_writeCsv_sep K sep wt wf hwf hne.1 hne.2 hadm.1 hadm.2.1 hadm.2.2.1 hadm.2.2.2.1 hadm.2.2.2.2.1
    hadm.2.2.2.2.2

/-- `read_json(write_json(K)) = K` on trees, for arbitrary names (any string) and description. -/
theorem json_roundtrip (K : Cxt) (hwf : K.WF) (hn : K.rows ≠ []) :
    readJsonTree (writeJsonTree K) = .ok K :=
  readJson_writeJson K hwf hn

/-- `from_pandas(to_pandas(K)) = K` on frames (the description is not stored in a frame). -/
theorem pandas_roundtrip (K : Cxt) (hwf : K.WF) (hn : K.rows ≠ []) :
    fromPandas (toPandas K) = .ok { K with descr := none } :=
  mkCxt_ok K.rows K.objs K.attrs none hn hwf.1 hwf.2

/-- `FormalConcept.from_dict(c.to_dict(objs_order, attrs_order))` is `c` again — same extent/intent indexes
    and names in the same order, same context hash and monotonicity flag (hence `==` and equal hash keys) —
    for a concept whose index lists are ascending and whose names are listed in context order (what every
    miner but `close_by_one_objectwise` yields; for that one the read-back lists are the sorted ones) and
    whose measures are not called `Ext`/`Int`.  The read-back measures are those of `c` plus the keys
    `Supp`, `Context_Hash`, `Monotone` (`FConcept.readBack`). -/
theorem formal_concept_roundtrip (c : FConcept) (oo ao : List Str) (h : FConceptOk c oo ao) :
    (c.toDict oo ao).bind FConcept.fromDict = .ok c.readBack ∧
      c.readBack.extentI = c.extentI ∧ c.readBack.extent = c.extent ∧
      c.readBack.intentI = c.intentI ∧ c.readBack.intent = c.intent ∧
      c.readBack.contextHash = c.contextHash ∧ c.readBack.monotone = c.monotone ∧
      c.readBack.key = c.key := by
  refine ⟨?_, rfl, rfl, rfl, rfl, rfl, rfl, rfl⟩
  rw [fconcept_toDict c oo ao h]
  exact fconcept_fromDict c oo ao h

/-- Writing a lattice of ≥ 3 formal concepts and reading it back gives the same concepts in the same order
    (each as in `formal_concept_roundtrip`) and — because `read_json` hands `subconcepts_dict=` to a
    constructor that ignores it — the cover relation, top and bottom *recomputed* from the concepts' order.
    They are those of `L` whenever `L`'s own `children_dict`/`top`/`bottom` are what `rebuild` computes
    (hypothesis `hre`; `ch` lists each children set ascending). -/
theorem lattice_json_roundtrip (L : Lat FConcept) (oo ao : List Str) (hlen : 3 ≤ L.concepts.length)
    (hc : ∀ c ∈ L.concepts, FConceptOk c oo ao) (ch : List (List Nat))
    (hre : rebuild (L.concepts.map FConcept.key) = .ok (ch, L.top, L.bottom)) :
    (writeFLat L oo ao).bind readLatTree
      = .ok (.inl ⟨L.concepts.map FConcept.readBack, ch, L.top, L.bottom⟩) :=
  readFLat_writeFLat L oo ao hlen hc ch hre

/-- For every shipped pattern structure class the value codec inverts itself on the descriptions the class
    stores: `from_json(to_json(v)) = v` on trees and — under `loads (dumps j) = j` for the value's tree — on
    texts, and `_transform_data(v) = v`. -/
theorem pattern_value_roundtrip (t : PType) (v : PVal) (h : Fits t v)
    (hcodec : ∀ j, toJsonVal t v = .ok j → loads (dumps j) = some j) :
    (toJsonVal t v).bind (fromJsonVal t) = .ok v ∧
    (toJsonText t v).bind (fun s => fromJsonText t (.str s)) = .ok v ∧
    (v ≠ .none_ → transformVal t v = .ok v) :=
  ⟨fromJsonVal_toJsonVal t v h, fromJsonText_toJsonText t v h hcodec, transformVal_fits t v h⟩

/-- `MVContext.read_json(write_json(K)) = K` — object names, attribute names, description, and every pattern
    structure (name, class, data column) in the same order — for every well-formed many-valued context over
    the shipped classes (`MVOk`: pattern structures in attribute order, distinct attribute names, n,m ≥ 1,
    every column as long as the object list, every cell a description its class stores).
    Tree level (first conjunct) and text level (second conjunct, under the additional explicit hypothesis
    that `json.loads` inverts `json.dumps` on the file's tree); `MVCodecOk` is the same hypothesis for the
    cell texts nested in the tree. -/
theorem mv_json_roundtrip (K : MVCxt) (h : MVOk K) (hcod : MVCodecOk K) :
    (writeMVTree K).bind readMVTree = .ok K ∧
    ((∀ tree, writeMVTree K = .ok tree → loads (dumpsCompact tree) = some tree) →
      (writeMVText K).bind readMVText = .ok K) := by
  have ht := readMV_writeMV K h hcod
  refine ⟨ht, fun hl => ?_⟩
  cases hw : writeMVTree K with
  | error e => rw [hw] at ht; cases ht
  | ok tree =>
    rw [hw] at ht
    simp only [writeMVText, hw, Except.bind, readMVText, hl tree hw] at ht ⊢
    exact ht

/-- `PatternConcept.from_dict(c.to_dict(json_ready=True), json_ready=True)` is `c` again: same extent
    indexes and names, same intent dictionaries (`{int(str(k)): from_json(to_json(v))}` and the by-name one,
    in the same item order), same `pattern_types` table and attribute names, same context hash (hence `==`
    and equal hash keys); the read-back measures are those of `c` plus `Supp`, `Context_Hash`. -/
theorem pattern_concept_roundtrip (c : PConcept) (h : PConceptOk c) (hcod : PCodecOk c) :
    c.toDict.bind PConcept.fromDict = .ok c.readBack ∧
      c.readBack.extentI = c.extentI ∧ c.readBack.extent = c.extent ∧
      c.readBack.intentI = c.intentI ∧ c.readBack.intent = c.intent ∧
      c.readBack.ptypes = c.ptypes ∧ c.readBack.attrNames = c.attrNames ∧
      c.readBack.contextHash = c.contextHash ∧ c.readBack.key = c.key := by
  refine ⟨?_, rfl, rfl, rfl, rfl, rfl, rfl, rfl, rfl⟩
  rw [pconcept_toDict c h]
  exact pconcept_fromDict c h hcod

/-- `lattice_json_roundtrip` for lattices of ≥ 3 pattern concepts (lattices of many-valued contexts). -/
theorem pattern_lattice_json_roundtrip (L : Lat PConcept) (hlen : 3 ≤ L.concepts.length)
    (hc : ∀ c ∈ L.concepts, PConceptOk c) (hcod : ∀ c ∈ L.concepts, PCodecOk c) (ch : List (List Nat))
    (hre : rebuild (L.concepts.map PConcept.key) = .ok (ch, L.top, L.bottom)) :
    (writePLat L).bind readLatTree
      = .ok (.inr ⟨L.concepts.map PConcept.readBack, ch, L.top, L.bottom⟩) :=
  readPLat_writePLat L hlen hc hcod ch hre

/-! ### extreme and degenerate interval descriptions (every border position) -/

/-- every JSON float literal — a finite `repr` literal or `Infinity` / `-Infinity` — is a float already -/
theorem jsonFloat_isFloatLit (l : Str) (h : IsJsonFloat l) : IsFloatLit l := by
  unfold IsFloatLit floatLit
  rcases h with h | rfl | rfl
  · unfold finiteLitB at h
    simp only [Bool.and_eq_true] at h
    have hany := h.2
    rw [if_pos]
    rw [List.any_eq_true] at hany ⊢
    obtain ⟨c, hc, hcc⟩ := hany
    refine ⟨c, hc, ?_⟩
    simp only [Bool.or_eq_true] at hcc ⊢
    rcases hcc with (h1 | h1) | h1
    · exact .inl (.inl (.inl (.inl h1)))
    · exact .inl (.inl (.inl (.inr h1)))
    · exact .inl (.inl (.inr h1))
  · rfl
  · rfl

/-- `from_json(to_json((a, b))) = (a, b)` for BOTH interval classes and ANY two JSON float literals as borders —
    finite or infinite on either side, proper, improper (`a > b`) or a point — on trees and on the texts produced
    and parsed by the model's own `dumps` / `loads` (no codec hypothesis); `_transform_data` leaves it unchanged. -/
theorem interval_value_roundtrip (t : PType) (ht : t.isInterval = true) (a b : Str)
    (ha : IsJsonFloat a) (hb : IsJsonFloat b) :
    (toJsonVal t (.interval a b)).bind (fromJsonVal t) = .ok (.interval a b) ∧
    (toJsonText t (.interval a b)).bind (fun s => fromJsonText t (.str s)) = .ok (.interval a b) ∧
    transformVal t (.interval a b) = .ok (.interval a b) := by
  have hf : Fits t (.interval a b) := by
    cases t <;> simp [PType.isInterval] at ht <;>
      exact ⟨jsonFloat_isFloatLit a ha, jsonFloat_isFloatLit b hb⟩
  have hcodec : ∀ j, toJsonVal t (.interval a b) = .ok j → loads (dumps j) = some j := by
    intro j hj
    have : j = .arr [.flt a, .flt b] := by
      cases t <;> simp [PType.isInterval] at ht <;> (simp only [toJsonVal] at hj; cases hj; rfl)
    rw [this]
    exact loads_dumps_pair a b ha hb
  exact pattern_value_roundtrip t (.interval a b) hf hcodec |>.imp id (fun h => ⟨h.1, h.2 (by simp)⟩)

/-- every border of every interval cell of `K` is a JSON float literal -/
def JsonFloatBorders (K : MVCxt) : Prop :=
  ∀ c ∈ K.cols, ∀ a b, PVal.interval a b ∈ c.data → IsJsonFloat a ∧ IsJsonFloat b

/-- the text layer is *proved* (not assumed) for the interval and attribute cells: with JSON float literals as
    borders the cells' codec hypothesis only remains for the `SetPS` cells -/
theorem mvCodecOk_of_borders (K : MVCxt) (h : MVOk K) (hb : JsonFloatBorders K)
    (hsets : ∀ c ∈ K.cols, c.ptype = .SetPS → ∀ v ∈ c.data,
      loads (dumps (valTree c.ptype v)) = some (valTree c.ptype v)) : MVCodecOk K := by
  intro c hc v hv
  have hfit := (h.fits c hc v hv).1
  cases ht : c.ptype with
  | SetPS => rw [← ht]; exact hsets c hc ht v hv
  | AttributePS =>
    rw [ht] at hfit
    cases v <;> simp only [Fits] at hfit
    rename_i b
    cases b <;> rfl
  | IntervalPS =>
    rw [ht] at hfit
    cases v <;> simp only [Fits] at hfit
    · rename_i a b
      exact loads_dumps_pair a b (hb c hc a b hv).1 (hb c hc a b hv).2
    · rfl
  | IntervalNumpyPS =>
    rw [ht] at hfit
    cases v <;> simp only [Fits] at hfit
    · rename_i a b
      exact loads_dumps_pair a b (hb c hc a b hv).1 (hb c hc a b hv).2
    · rfl

/-- `mv_json_roundtrip` with the codec hypothesis discharged for interval and attribute columns: a many-valued
    context whose interval borders are JSON float literals (±infinity and the extreme finite values in any
    position, improper and point intervals included) round-trips; only `SetPS` cells keep the hypothesis. -/
theorem mv_json_roundtrip_extremes (K : MVCxt) (h : MVOk K) (hb : JsonFloatBorders K)
    (hsets : ∀ c ∈ K.cols, c.ptype = .SetPS → ∀ v ∈ c.data,
      loads (dumps (valTree c.ptype v)) = some (valTree c.ptype v)) :
    (writeMVTree K).bind readMVTree = .ok K :=
  (mv_json_roundtrip K h (mvCodecOk_of_borders K h hb hsets)).1

/-! ### histories: a context written after any sequence of public mutations is read back as its CURRENT content -/

/-- `K.attribute_names = names` (the setter as repaired by 94822bb): the attribute names AND the names of the
    pattern structures are `names` afterwards — the invariant `MVOk.names` (pattern structures are named by the
    attributes, in order) is preserved by the rename instead of being broken by it — and the renamed context
    round-trips.  What `MVOk.names` still excludes: contexts whose attribute-name list was changed WITHOUT the
    setter's renaming (item assignment `K.attribute_names[j] = …` on the aliased list, `K.attribute_names = None`),
    where `ps.name` stays behind; duplicate names (`MVOk.nodup`) as before. -/
theorem mv_attribute_rename_roundtrip (K : MVCxt) (ns : List Str) (h : MVOk K)
    (hs : MVStepOk K (.setAttrs ns)) (hcod : MVCodecOk (K.step (.setAttrs ns))) :
    (K.step (.setAttrs ns)).attrs = ns ∧ (K.step (.setAttrs ns)).cols.map (·.name) = ns ∧
    (K.step (.setAttrs ns)).cols.map (·.ptype) = K.cols.map (·.ptype) ∧
    (K.step (.setAttrs ns)).cols.map (·.data) = K.cols.map (·.data) ∧
    (writeMVTree (K.step (.setAttrs ns))).bind readMVTree = .ok (K.step (.setAttrs ns)) := by
  have hok := mvok_step K (.setAttrs ns) h hs
  refine ⟨rfl, hok.names, ?_, ?_, (mv_json_roundtrip _ hok hcod).1⟩
  · show (if K.cols.length = ns.length then renameCols K.cols ns else K.cols).map (·.ptype) = _
    split
    · exact renameCols_map_ptype K.cols ns
    · rfl
  · show (if K.cols.length = ns.length then renameCols K.cols ns else K.cols).map (·.data) = _
    split
    · exact renameCols_map_data K.cols ns
    · rfl

/-- after any history of legal public mutations (`ps.data = col`, `ps.data[i] = v`, replacing a pattern structure,
    `object_names = …`, `description = …`, and — since the repair 94822bb — `attribute_names = …`, which renames
    attributes and pattern structures together) the many-valued context that is written and read back is the
    context as it is NOW: the writer depends on nothing but the current content. -/
theorem mv_json_roundtrip_history (K : MVCxt) (steps : List MVStep) (h : MVOk K) (hs : MVStepsOk K steps)
    (hcod : MVCodecOk (K.run steps)) :
    (writeMVTree (K.run steps)).bind readMVTree = .ok (K.run steps) :=
  (mv_json_roundtrip (K.run steps) (mvok_run steps K h hs) hcod).1

/-- the same for formal contexts and every format: after any history of `object_names = …`,
    `attribute_names = …`, `data.data = rows` (same shape), `description = …` the json and pandas round trips
    give the current context, and so do cxt and csv whenever the CURRENT names are admissible for the format. -/
theorem context_roundtrip_history (K : Cxt) (steps : List CxtStep) (hwf : K.WF) (hn : K.rows ≠ [])
    (hs : CxtStepsOk K steps) :
    readJsonTree (writeJsonTree (K.run steps)) = .ok (K.run steps) ∧
    fromPandas (toPandas (K.run steps)) = .ok { K.run steps with descr := none } ∧
    (NonEmpty (K.run steps) → AdmissibleCxt (K.run steps) →
      readCxt (writeCxt (K.run steps)) = .ok { K.run steps with descr := none }) ∧
    (∀ sep wt wf, NonEmpty (K.run steps) → AdmissibleCsvSep (K.run steps) sep wt wf →
      csvViaFile (K.run steps) sep wt wf = .ok { K.run steps with descr := none }) := by
  have hw := cxt_run_wf steps K hwf hn hs
  exact ⟨json_roundtrip _ hw.1 hw.2, pandas_roundtrip _ hw.1 hw.2,
    fun hne hadm => cxt_roundtrip _ hw.1 hne hadm,
    fun sep wt wf hne hadm => csv_roundtrip_multichar _ sep wt wf hw.1 hne hadm⟩

/-! ### non-vacuity: the hypotheses are met by concrete, non-trivial inputs -/

private def exK : Cxt :=
  { objs := [" a".toList, "b ".toList], attrs := ["x".toList, "y z".toList, "X.".toList],
    rows := [[true, false, true], [false, true, true]], descr := none }

example : exK.WF ∧ NonEmpty exK ∧ AdmissibleCxt exK := by decide
example : readCxt (writeCxt exK) = .ok exK := by rfl

example : AdmissibleCsv exK ';' "True".toList "False".toList ∧ AdmissibleCsv exK ',' "1".toList [] := by decide
example : csvViaFile exK [';'] "True".toList "False".toList = .ok exK := by rfl

example : AdmissibleCsvSep exK "::".toList "True".toList "False".toList ∧
    AdmissibleCsvSep exK "|-|".toList "1".toList "0".toList := by decide
example : csvViaFile exK "::".toList "True".toList "False".toList = .ok exK := by rfl

/-- the separator `"aa"` does not occur in the name `"a"`, yet the round trip breaks: the disjointness of
    characters in `AdmissibleCsvSep` is what excludes it -/
example : csvViaFile ⟨["a".toList], ["x".toList], [[true]], none⟩ "aa".toList "T".toList "F".toList
    = .error valueError := by rfl

/-- a blank separator forbids blanks inside names — `exK` is *not* admissible for `' '` -/
example : ¬ AdmissibleCsv exK ' ' "True".toList "False".toList := by decide

private def exC : FConcept :=
  { extentI := [0, 1], extent := [" a".toList, "b ".toList], intentI := [2], intent := ["X.".toList],
    measures := [("stab".toList, .flt "0.5".toList)], contextHash := some 42, monotone := false }

example : FConceptOk exC exK.objs exK.attrs :=
  ⟨by decide, by decide, by decide, by decide, by decide⟩

private def exL : Lat FConcept :=
  { concepts := [⟨[0, 1], [" a".toList, "b ".toList], [2], ["X.".toList], [], some 42, false⟩,
                 ⟨[0], [" a".toList], [0, 2], ["x".toList, "X.".toList], [], some 42, false⟩,
                 ⟨[1], ["b ".toList], [1, 2], ["y z".toList, "X.".toList], [], some 42, false⟩,
                 ⟨[], [], [0, 1, 2], ["x".toList, "y z".toList, "X.".toList], [], some 42, false⟩],
    children := [[1, 2], [3], [3], []], top := 0, bottom := 3 }

example : 3 ≤ exL.concepts.length := by decide
example : rebuild (exL.concepts.map FConcept.key) = .ok (exL.children, exL.top, exL.bottom) := by rfl

example : ∀ c ∈ exL.concepts, FConceptOk c exK.objs exK.attrs := by
  intro c hc
  simp only [exL, List.mem_cons, List.not_mem_nil, or_false] at hc
  rcases hc with rfl | rfl | rfl | rfl <;> exact ⟨by decide, by decide, by decide, by decide, by decide⟩

example : Fits .IntervalPS (.interval "1.0".toList "2.5".toList) ∧ Fits .IntervalNumpyPS .none_ ∧
    Fits .SetPS (.set [.str "a".toList, .str "b".toList]) ∧ Fits .SetPS (.set [.int (-4), .int 1, .int 10]) ∧
    Fits .AttributePS (.attr true) := by decide

/-- the codec hypothesis holds for the model's own `dumps`/`loads` on concrete value trees -/
example : loads (dumps (.arr [.flt "1.0".toList, .flt "2.5".toList])) = some (.arr [.flt "1.0".toList, .flt "2.5".toList])
    ∧ loads (dumps .null) = some .null ∧ loads (dumps (.bool true)) = some (.bool true) := by
  refine ⟨?_, ?_, ?_⟩ <;> rfl

private def exMV : MVCxt :=
  { objs := ["g 1".toList, "g2".toList], attrs := ["num".toList, "tags".toList, "flag".toList],
    cols := [⟨"num".toList, .IntervalPS, [.interval "1.0".toList "2.5".toList, .interval "-3.0".toList "-3.0".toList]⟩,
             ⟨"tags".toList, .SetPS, [.set [.str "a".toList, .str "b".toList], .set []]⟩,
             ⟨"flag".toList, .AttributePS, [.attr true, .attr false]⟩],
    descr := some "d".toList }

example : MVOk exMV := ⟨by decide, by decide, by decide, by decide, by decide, by decide⟩

example : MVCodecOk exMV := by
  intro c hc v hv
  simp only [exMV, List.mem_cons, List.not_mem_nil, or_false] at hc
  rcases hc with rfl | rfl | rfl <;>
    (simp only [List.mem_cons, List.not_mem_nil, or_false] at hv; rcases hv with rfl | rfl <;> rfl)

private def exPC : PConcept :=
  { extentI := [0, 1], extent := ["g 1".toList, "g2".toList],
    intentI := [(0, .interval "-3.0".toList "2.5".toList), (1, .set []), (2, .attr false)],
    intent := [("num".toList, .interval "-3.0".toList "2.5".toList), ("tags".toList, .set []), ("flag".toList, .attr false)],
    ptypes := [("num".toList, .IntervalPS), ("tags".toList, .SetPS), ("flag".toList, .AttributePS)],
    attrNames := ["num".toList, "tags".toList, "flag".toList], measures := [], contextHash := some 7 }

example : PConceptOk exPC := by
  refine ⟨?_, ?_, by decide, by decide, by decide⟩
  · intro kv hkv
    simp only [exPC, List.mem_cons, List.not_mem_nil, or_false] at hkv
    rcases hkv with rfl | rfl | rfl <;> exact ⟨rfl, by decide⟩
  · intro kv hkv
    simp only [exPC, List.mem_cons, List.not_mem_nil, or_false] at hkv
    rcases hkv with rfl | rfl | rfl <;> exact ⟨rfl, by decide⟩

example : PCodecOk exPC := by
  refine ⟨?_, ?_⟩ <;>
  · intro kv hkv
    simp only [exPC, List.mem_cons, List.not_mem_nil, or_false] at hkv
    rcases hkv with rfl | rfl | rfl <;> rfl

/-- infinite borders in every position, improper and point intervals, signed zero, the largest and the smallest
    positive double -/
private def exMVext : MVCxt :=
  { objs := ["g1".toList, "g2".toList, "g3".toList, "g4".toList], attrs := ["lo".toList, "np".toList],
    cols := [⟨"lo".toList, .IntervalPS,
               [.interval "Infinity".toList "Infinity".toList, .interval "-Infinity".toList "-Infinity".toList,
                .interval "Infinity".toList "-Infinity".toList, .interval "-0.0".toList "1.7976931348623157e+308".toList]⟩,
             ⟨"np".toList, .IntervalNumpyPS,
               [.interval "-Infinity".toList "Infinity".toList, .interval "Infinity".toList "3.0".toList,
                .interval "5e-324".toList "-Infinity".toList, .interval "1e+16".toList "1e-07".toList]⟩],
    descr := none }

example : MVOk exMVext := ⟨by decide, by decide, by decide, by decide, by decide, by decide⟩

example : JsonFloatBorders exMVext := by
  intro c hc a b hv
  simp only [exMVext, List.mem_cons, List.not_mem_nil, or_false] at hc
  rcases hc with rfl | rfl <;>
    (simp only [List.mem_cons, List.not_mem_nil, or_false, PVal.interval.injEq] at hv
     rcases hv with ⟨rfl, rfl⟩ | ⟨rfl, rfl⟩ | ⟨rfl, rfl⟩ | ⟨rfl, rfl⟩ <;> exact ⟨by decide, by decide⟩)

example : (writeMVTree exMVext).bind readMVTree = .ok exMVext := by rfl

/-- text level (the model's own `dumps` / `loads`) on one improper infinite cell -/
example : (toJsonText .IntervalPS (.interval "Infinity".toList "-Infinity".toList)).bind
    (fun s => fromJsonText .IntervalPS (.str s)) = .ok (.interval "Infinity".toList "-Infinity".toList) := by rfl

example : IsJsonFloat "Infinity".toList ∧ IsJsonFloat "-Infinity".toList ∧ IsJsonFloat "-0.0".toList ∧
    IsJsonFloat "1.7976931348623157e+308".toList ∧ IsJsonFloat "5e-324".toList ∧ IsJsonFloat "1e-07".toList ∧
    ¬ IsJsonFloat "NaN".toList ∧ ¬ IsJsonFloat "1".toList := by decide

/-- a history: replace a column, then a cell, rename the objects, drop the description -/
example : MVStepsOk exMV [.setCol 0 [.interval "Infinity".toList "-Infinity".toList, .interval "0.5".toList "0.5".toList],
    .setCell 1 1 (.set [.str "null".toList]), .setObjs ["a".toList, "b".toList], .setDescr none,
    .setAttrs ["p".toList, "num".toList, "∅".toList]] := by
  refine ⟨?_, ?_, ?_, trivial, ⟨rfl, by decide⟩, trivial⟩
  · intro c hc
    simp only [exMV, List.getElem?_cons_zero, Option.some.injEq] at hc
    subst hc
    exact ⟨rfl, by decide⟩
  · intro c hc
    simp only [MVCxt.step, exMV, modCol, List.getElem?_cons_succ, List.getElem?_cons_zero, Option.some.injEq] at hc
    subst hc
    exact ⟨by decide, by decide⟩
  · rfl

example : CxtStepsOk exK [.setObjs ["x".toList, "y".toList], .setRows [[false, false, true], [true, true, true]],
    .setAttrs ["null".toList, "true".toList, "∅".toList], .setDescr (some "d".toList)] := by
  refine ⟨rfl, ?_, rfl, trivial, trivial⟩
  exact ⟨rfl, by decide⟩

end Fca.C07

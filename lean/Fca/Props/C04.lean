/-
  Props/C04 — the reduced-labelled line diagram is a lossless representation of the context.

  The theorems are about the code-shaped models `newExtentI` / `newIntentI` (= `get_concept_new_extent_i` /
  `get_concept_new_intent_i`: own set minus the union over the children / parents computed by the POSet
  queries) and their name versions, on a concept list `cs` listing every concept of `t` exactly once
  (`IsConceptList t cs`, what C02 establishes), for every set-iteration order `ord`.
  This is the basic theorem of FCA (object concepts γg, attribute concepts μa, g I a ⇔ γg ≤ μa) on the
  executable definitions.  Only property theorems live here.
-/
import Fca.Model.LatticeQuery
import Fca.Spec.LatticeQuery
import Fca.Lemmas.LatticeQueryLabels
import Fca.Lemmas.LatticeQueryC04
import Fca.Lemmas.C04Diagram
import Fca.Lemmas.C04Reach
namespace Fca.C04
open Fca Fca.LQ Fca.Spec

abbrev IsConceptList := LQ.IsConceptList

/-- non-vacuity: a 3×3 table with two identical rows (objects 0 and 1 share a node) and two identical
    columns (attributes 0 and 1 share a node), concepts in an unsorted order -/
def exTable : Table := ⟨[[true, true, false], [true, true, false], [false, false, true]], 3⟩
def exLat : Lat := [([], [0, 1, 2]), ([0, 1], [0, 1]), ([0, 1, 2], []), ([2], [2])]
example : IsConceptList exTable exLat := by decide
example : newExtentI exLat id 1 = [0, 1] ∧ newIntentI exLat id 1 = [0, 1] := by decide

/-- each object `g` labels exactly one node: `g` is in the new extent of concept `i` iff `i` is the
    position of the object concept `({g}″, {g}′)` -/
theorem object_label_unique (t : Table) (cs : Lat) (H : IsConceptList t cs)
    (ord : List Nat → List Nat) (ho : PQ.IsOrder ord) (g : Nat) (hg : g < t.height) :
    ∃ k, k < cs.length ∧ extOf cs k = closure t [g] ∧
      ∀ i, i < cs.length → (g ∈ newExtentI cs ord i ↔ i = k) := by
  have hr : ∀ x ∈ [g], x < t.height := fun x hx => by
    rw [List.mem_singleton.mp hx]; exact hg
  obtain ⟨k, hk, he, _⟩ := H.exists_idx (isConcept_of_objs t hr)
  have hgk : g ∈ extOf cs k := by rw [he]; exact subset_closure t hr g List.mem_cons_self
  refine ⟨k, hk, he, ?_⟩
  intro i hi
  rw [mem_newExtentI]
  constructor
  · rintro ⟨hgi, hno⟩
    have hki : leq cs k i = true := by
      rw [H.leq_iff hk i, he]
      exact H.closure_sub hi (fun x hx => by rw [List.mem_singleton.mp hx]; exact hgi)
    apply Classical.byContradiction
    intro hne
    have hkd : k ∈ descendants cs i := PQ.mem_descendants.mpr ⟨hk, hki, fun e => hne e.symm⟩
    obtain ⟨j, hj, hkj⟩ := H.child_above ho hkd
    exact hno j hj ((H.leq_iff hk j).mp hkj g hgk)
  · rintro rfl
    refine ⟨hgk, ?_⟩
    intro j hj hgj
    obtain ⟨hjn, hji, hne⟩ := H.children_lt ho hj
    have hij : leq cs i j = true := by
      rw [H.leq_iff hi j, he]
      exact H.closure_sub hjn (fun x hx => by rw [List.mem_singleton.mp hx]; exact hgj)
    exact hne (H.leq_antisymm hjn hi hji hij)

/-- each attribute `a` labels exactly one node: the position of the attribute concept `({a}′, {a}″)` -/
theorem attribute_label_unique (t : Table) (cs : Lat) (H : IsConceptList t cs)
    (ord : List Nat → List Nat) (ho : PQ.IsOrder ord) (a : Nat) (ha : a < t.width) :
    ∃ k, k < cs.length ∧ extOf cs k = extAll t [a] ∧ intOf cs k = closureAttr t [a] ∧
      ∀ i, i < cs.length → (a ∈ newIntentI cs ord i ↔ i = k) := by
  have hr : ∀ x ∈ [a], x < t.width := fun x hx => by
    rw [List.mem_singleton.mp hx]; exact ha
  obtain ⟨k, hk, he, hik⟩ := H.exists_idx (isConcept_of_attrs t hr)
  have hak : a ∈ intOf cs k := by rw [hik]; exact subset_closureAttr t hr a List.mem_cons_self
  -- a concept whose intent contains `a` lies below the attribute concept, and conversely
  have key : ∀ j, j < cs.length → (a ∈ intOf cs j ↔ leq cs j k = true) := by
    intro j hj
    constructor
    · intro haj
      rw [H.leq_iff hj k, he, ← H.ext_eq hj]
      exact extAll_antitone t (fun x hx => by rw [List.mem_singleton.mp hx]; exact haj)
    · intro hjk
      exact (H.leq_iff_int hj hk).mp hjk a hak
  refine ⟨k, hk, he, hik, ?_⟩
  intro i hi
  rw [mem_newIntentI]
  constructor
  · rintro ⟨hai, hno⟩
    have hik' := (key i hi).mp hai
    apply Classical.byContradiction
    intro hne
    have hka : k ∈ ancestors cs i := PQ.mem_ancestors.mpr ⟨hk, hik', fun e => hne e.symm⟩
    obtain ⟨j, hj, hjk⟩ := H.parent_below ho hka
    exact hno j hj ((key j (H.parents_lt ho hj).1).mpr hjk)
  · rintro rfl
    refine ⟨hak, ?_⟩
    intro j hj haj
    obtain ⟨hjn, hij, hne⟩ := H.parents_lt ho hj
    exact hne (H.leq_antisymm hjn hi ((key j hjn).mp haj) hij)

/-- the table is recovered from the diagram: object `g` has attribute `a` iff the node labelled `g` is
    below or equal to the node labelled `a` (equivalently: equal to it or among its descendants) -/
theorem table_reconstructed (t : Table) (cs : Lat) (H : IsConceptList t cs)
    (ord : List Nat → List Nat) (ho : PQ.IsOrder ord) (g a : Nat) (hg : g < t.height) (ha : a < t.width)
    (i j : Nat) (hi : i < cs.length) (hj : j < cs.length)
    (hgi : g ∈ newExtentI cs ord i) (haj : a ∈ newIntentI cs ord j) :
    (t.get g a = true ↔ leq cs i j = true) ∧
    (t.get g a = true ↔ (i = j ∨ j ∈ ancestors cs i)) := by
  obtain ⟨kg, hkg, heg, hug⟩ := object_label_unique t cs H ord ho g hg
  obtain ⟨ka, hka, hea, _, hua⟩ := attribute_label_unique t cs H ord ho a ha
  have ei : i = kg := (hug i hi).mp hgi
  have ej : j = ka := (hua j hj).mp haj
  subst ei ej
  have hr : ∀ x ∈ [g], x < t.height := fun x hx => by
    rw [List.mem_singleton.mp hx]; exact hg
  have main : t.get g a = true ↔ leq cs i j = true := by
    rw [H.leq_iff hi j, heg]
    constructor
    · intro hga
      apply H.closure_sub hj
      intro x hx
      rw [List.mem_singleton.mp hx, hea]
      exact (mem_extAll t).mpr ⟨hg, fun b hb => by rw [List.mem_singleton.mp hb]; exact hga⟩
    · intro hsub
      have := hsub g (subset_closure t hr g List.mem_cons_self)
      rw [hea] at this
      exact ((mem_extAll t).mp this).2 a List.mem_cons_self
  refine ⟨main, main.trans ?_⟩
  constructor
  · intro hle
    by_cases e : i = j
    · exact Or.inl e
    · exact Or.inr (PQ.mem_ancestors.mpr ⟨hj, hle, fun e' => e e'.symm⟩)
  · rintro (e | hanc)
    · rw [e]; exact H.isPO.refl j hj
    · exact (PQ.mem_ancestors.mp hanc).2.1

/-- index and name versions agree: with pairwise distinct names, the name labels are the names of the
    index labels -/
theorem labels_by_name_agree (t : Table) (cs : Lat) (H : IsConceptList t cs)
    (ord : List Nat → List Nat) (ho : PQ.IsOrder ord) (objNames attrNames : List String)
    (hon : objNames.Nodup) (hol : objNames.length = t.height)
    (han : attrNames.Nodup) (hal : attrNames.length = t.width) (i : Nat) (hi : i < cs.length) :
    newExtent objNames cs ord i = namesOf objNames (newExtentI cs ord i) ∧
    newIntent attrNames cs ord i = namesOf attrNames (newIntentI cs ord i) := by
  have hch : ∀ j ∈ children cs ord i, j < cs.length := fun j hj => (H.children_lt ho hj).1
  have hpa : ∀ j ∈ parents cs ord i, j < cs.length := fun j hj => (H.parents_lt ho hj).1
  constructor
  · unfold newExtent newExtentI namesOf PQ.removeAll unionOf
    simp only
    rw [List.filter_map]
    congr 1
    apply List.filter_congr
    intro g hg
    have hgn : g < objNames.length := by rw [hol]; exact H.ext_lt hi g hg
    simp only [Function.comp, List.contains_eq_mem, List.mem_flatMap, List.mem_map,
      Bool.not_eq_eq_eq_not, Bool.not_not, decide_eq_decide]
    constructor
    · rintro ⟨j, hj, x, hx, e⟩
      have hxn : x < objNames.length := by rw [hol]; exact H.ext_lt (hch j hj) x hx
      rw [(List.getD_inj hxn hgn hon).mp e] at hx
      exact ⟨j, hj, hx⟩
    · rintro ⟨j, hj, hx⟩
      exact ⟨j, hj, g, hx, rfl⟩
  · unfold newIntent newIntentI namesOf PQ.removeAll unionOf
    simp only
    rw [List.filter_map]
    congr 1
    apply List.filter_congr
    intro a ha
    have han' : a < attrNames.length := by rw [hal]; exact H.int_lt hi a ha
    simp only [Function.comp, List.contains_eq_mem, List.mem_flatMap, List.mem_map,
      Bool.not_eq_eq_eq_not, Bool.not_not, decide_eq_decide]
    constructor
    · rintro ⟨j, hj, x, hx, e⟩
      have hxn : x < attrNames.length := by rw [hal]; exact H.int_lt (hpa j hj) x hx
      rw [(List.getD_inj hxn han' han).mp e] at hx
      exact ⟨j, hj, hx⟩
    · rintro ⟨j, hj, hx⟩
      exact ⟨j, hj, a, hx, rfl⟩

/-- the checker the harness applies to the IMPLEMENTATION's labels and ancestor sets is a verified oracle:
    it answers `true` exactly when (1) every object labels exactly one node, (2) every attribute labels exactly
    one node (labels in range), and (3) `table[g][a] ⇔ node(g) = node(a) ∨ node(a) ∈ anc[node(g)]` — i.e. the
    statements of `object_label_unique`, `attribute_label_unique`, `table_reconstructed` for the given lists. -/
theorem holdsC04_iff (t : Table) (newExt newInt anc : List (List Nat)) :
    Spec.holdsC04 t newExt newInt anc = true ↔ C04Holds t newExt newInt anc :=
  LQ.holdsC04_iff t newExt newInt anc

/-- the model's labels and ancestor sets satisfy the three statements, hence the checker accepts them -/
theorem model_holdsC04 (t : Table) (cs : Lat) (H : IsConceptList t cs)
    (ord : List Nat → List Nat) (ho : PQ.IsOrder ord) :
    Spec.holdsC04 t ((List.range cs.length).map (newExtentI cs ord))
      ((List.range cs.length).map (newIntentI cs ord)) ((List.range cs.length).map (ancestors cs)) = true := by
  rw [holdsC04_iff]
  have hget : ∀ (f : Nat → List Nat) i, i < cs.length → ((List.range cs.length).map f).getD i [] = f i := by
    intro f i hi
    simp [List.getD_eq_getElem?_getD, List.getElem?_map, List.getElem?_range hi]
  unfold C04Holds
  simp only [List.length_map, List.length_range, true_and]
  refine ⟨?_, ?_, ?_, ?_⟩
  · intro g hg
    obtain ⟨k, hk, _, hu⟩ := object_label_unique t cs H ord ho g hg
    refine ⟨k, hk, by rw [hget _ k hk]; exact (hu k hk).mpr rfl, ?_⟩
    intro i' hi' h
    rw [hget _ i' hi'] at h
    exact (hu i' hi').mp h
  · intro a ha
    obtain ⟨k, hk, _, _, hu⟩ := attribute_label_unique t cs H ord ho a ha
    refine ⟨k, hk, by rw [hget _ k hk]; exact (hu k hk).mpr rfl, ?_⟩
    intro j' hj' h
    rw [hget _ j' hj'] at h
    exact (hu j' hj').mp h
  · intro i hi
    rw [hget _ i hi, hget _ i hi]
    exact ⟨fun g hg => H.ext_lt hi g (mem_newExtentI.mp hg).1, fun a ha => H.int_lt hi a (mem_newIntentI.mp ha).1⟩
  · intro g a i j hg ha hi hj hgi haj
    rw [hget _ i hi] at hgi ⊢
    rw [hget _ j hj] at haj
    exact (table_reconstructed t cs H ord ho g a hg ha i j hi hj hgi haj).2

/-- the table is recovered from the diagram A USER IS SHOWN: the reduced labels and the drawn cover edges
    (`parents_dict`) alone — "below or equal" read as reachability along the edges (`Spec.reachAll`, what
    `Spec.holdsC04Edges` uses) is the lattice order, so the checker applied to the drawn edges accepts the model -/
theorem model_holdsC04Edges (t : Table) (cs : Lat) (H : IsConceptList t cs)
    (ord : List Nat → List Nat) (ho : PQ.IsOrder ord) :
    Spec.holdsC04Edges t ((List.range cs.length).map (newExtentI cs ord))
      ((List.range cs.length).map (newIntentI cs ord)) ((List.range cs.length).map (parents cs ord)) = true := by
  unfold Spec.holdsC04Edges
  rw [holdsC04_iff]
  have hget : ∀ (f : Nat → List Nat) i, i < cs.length → ((List.range cs.length).map f).getD i [] = f i := by
    intro f i hi
    simp [List.getD_eq_getElem?_getD, List.getElem?_map, List.getElem?_range hi]
  refine LQ.C04Holds.congr_anc ((holdsC04_iff _ _ _ _).mp (model_holdsC04 t cs H ord ho)) ?_ ?_
  · simp [Spec.reachAll]
  · intro i hi j
    have hi' : i < cs.length := by simpa using hi
    have e : (Spec.reachAll ((List.range cs.length).map (parents cs ord))).getD i [] =
        Spec.reachFrom ((List.range cs.length).map (parents cs ord)) i := by
      unfold Spec.reachAll
      simp [List.getD_eq_getElem?_getD, List.getElem?_map, List.getElem?_range hi']
    rw [e, hget _ i hi']
    exact H.mem_reachFrom ho hi' j

/-- the hypothesis `IsConceptList` is decided by the subset-free test the driver uses for wide tables
    (duplicate-free list of concepts containing the top extent and closed under cutting an extent by one attribute) -/
theorem isConceptListFast_iff (t : Table) (cs : Lat) :
    Spec.isConceptListFast t cs = true ↔ IsConceptList t cs :=
  LQ.isConceptListFast_iff t cs

end Fca.C04

/-
  Props/C03 — lattice order, covers, top/bottom, meet and join are those of extent inclusion.

  All theorems are about the code-shaped models of `Fca/Model/LatticeQuery.lean` (the uncached POSet
  queries instantiated with `FormalConcept.__le__`, `sort_concepts`, `_get_chains`) on a concept list
  `cs` that lists every formal concept of the table `t` exactly once (`IsConceptList t cs`; this is what
  C02 establishes for the construction algorithms).  Python set-iteration orders are the parameter `ord`,
  over which every theorem quantifies (`PQ.IsOrder ord`: same members in any order).
  Only property theorems live here; helper lemmas are in `Fca/Lemmas/LatticeQuery*.lean`.
-/
import Fca.Model.LatticeQuery
import Fca.Spec.LatticeQuery
import Fca.Lemmas.LatticeQueryConcept
import Fca.Lemmas.LatticeQuerySort
import Fca.Lemmas.LatticeQueryChains
import Fca.Lemmas.LatticeQueryChainsFull
import Fca.Lemmas.LatticeQueryReindex
import Fca.Lemmas.LatticeQueryPruned
namespace Fca.C03
open Fca Fca.LQ Fca.Spec

/-- the hypothesis shared by all theorems: `cs` is a duplicate-free enumeration of `allConcepts t` -/
abbrev IsConceptList := LQ.IsConceptList

/-- non-vacuity: the 3×3 table `[[1,0,1],[0,1,1],[1,1,0]]` with its 8 concepts in the order Lindig's
    algorithm emits them (not the sorted order) -/
def exTable : Table := ⟨[[true, false, true], [false, true, true], [true, true, false]], 3⟩
def exLat : Lat :=
  [([0, 1, 2], []), ([0, 2], [0]), ([1, 2], [1]), ([0, 1], [2]), ([2], [0, 1]), ([0], [0, 2]),
   ([1], [1, 2]), ([], [0, 1, 2])]
example : IsConceptList exTable exLat := by decide
example : PQ.IsOrder id ∧ PQ.IsOrder List.reverse := ⟨PQ.isOrder_id, PQ.isOrder_reverse⟩

/-- `descendants(i)` = the concepts with strictly smaller extent (as an ascending index list) -/
theorem descendants_strict_subextents (t : Table) (cs : Lat) (H : IsConceptList t cs)
    (i : Nat) (hi : i < cs.length) :
    descendants cs i = Spec.strictSub (cs.map (·.1)) i := by
  unfold descendants PQ.descendants Spec.strictSub
  rw [List.length_map]
  apply List.filter_congr
  intro j hj
  have hjn := List.mem_range.mp hj
  rw [exts_getD, exts_getD, Bool.eq_iff_iff, Bool.and_eq_true, bne_iff_ne]
  exact H.lt_iff_ssubset hi hjn

/-- `ancestors(i)` = the concepts with strictly larger extent -/
theorem ancestors_strict_superextents (t : Table) (cs : Lat) (H : IsConceptList t cs)
    (i : Nat) (hi : i < cs.length) :
    ancestors cs i = Spec.strictSuper (cs.map (·.1)) i := by
  unfold ancestors PQ.ancestors Spec.strictSuper
  rw [List.length_map]
  apply List.filter_congr
  intro j hj
  have hjn := List.mem_range.mp hj
  rw [exts_getD, exts_getD, Bool.eq_iff_iff, Bool.and_eq_true, bne_iff_ne]
  constructor
  · rintro ⟨h, hne⟩
    exact (H.lt_iff_ssubset hjn hi).mp ⟨h, fun e => hne e.symm⟩
  · intro h
    have := (H.lt_iff_ssubset hjn hi).mpr h
    exact ⟨this.1, fun e => this.2 e.symm⟩

/-- `children(i)` = the lower covers of `i` w.r.t. extent inclusion, for every set-iteration order -/
theorem children_lower_covers (t : Table) (cs : Lat) (H : IsConceptList t cs)
    (ord : List Nat → List Nat) (ho : PQ.IsOrder ord) (i : Nat) (hi : i < cs.length) :
    children cs ord i = Spec.lowerCovers (cs.map (·.1)) i := by
  apply PQ.sorted_ext (PQ.children_sorted ord i) (lowerCovers_sorted _ _)
  intro x
  rw [PQ.mem_children H.isPO ho, mem_lowerCovers, List.length_map]
  simp only [exts_getD, PQ.mem_descendants]
  constructor
  · rintro ⟨⟨hx, hle, hne⟩, hno⟩
    refine ⟨hx, (H.lt_iff_ssubset hi hx).mp ⟨hle, hne⟩, ?_⟩
    rintro k hk ⟨h₁, h₂⟩
    have hki := (H.lt_iff_ssubset hi hk).mpr h₂
    have hxk := (H.lt_iff_ssubset hk hx).mpr h₁
    exact hno k ⟨hk, hki.1, hki.2⟩ ⟨hx, hxk.1, hxk.2⟩
  · rintro ⟨hx, hss, hno⟩
    have hxi := (H.lt_iff_ssubset hi hx).mpr hss
    refine ⟨⟨hx, hxi.1, hxi.2⟩, ?_⟩
    rintro y ⟨hy, hyl, hyn⟩ ⟨_, hxl, hxn⟩
    exact hno y hy ⟨(H.lt_iff_ssubset hy hx).mp ⟨hxl, hxn⟩, (H.lt_iff_ssubset hi hy).mp ⟨hyl, hyn⟩⟩

/-- `parents(i)` = the upper covers of `i` w.r.t. extent inclusion, for every set-iteration order -/
theorem parents_upper_covers (t : Table) (cs : Lat) (H : IsConceptList t cs)
    (ord : List Nat → List Nat) (ho : PQ.IsOrder ord) (i : Nat) (hi : i < cs.length) :
    parents cs ord i = Spec.upperCovers (cs.map (·.1)) i := by
  apply PQ.sorted_ext (PQ.parents_sorted ord i) (upperCovers_sorted _ _)
  intro x
  rw [PQ.mem_parents H.isPO ho, mem_upperCovers, List.length_map]
  simp only [exts_getD, PQ.mem_ancestors]
  constructor
  · rintro ⟨⟨hx, hle, hne⟩, hno⟩
    refine ⟨hx, (H.lt_iff_ssubset hx hi).mp ⟨hle, fun e => hne e.symm⟩, ?_⟩
    rintro k hk ⟨h₁, h₂⟩
    have hik := (H.lt_iff_ssubset hk hi).mpr h₁
    have hkx := (H.lt_iff_ssubset hx hk).mpr h₂
    exact hno k ⟨hk, hik.1, fun e => hik.2 e.symm⟩ ⟨hx, hkx.1, fun e => hkx.2 e.symm⟩
  · rintro ⟨hx, hss, hno⟩
    have hix := (H.lt_iff_ssubset hx hi).mpr hss
    refine ⟨⟨hx, hix.1, fun e => hix.2 e.symm⟩, ?_⟩
    rintro y ⟨hy, hyl, hyn⟩ ⟨_, hxl, hxn⟩
    exact hno y hy ⟨(H.lt_iff_ssubset hy hi).mp ⟨hyl, fun e => hyn e.symm⟩,
      (H.lt_iff_ssubset hx hy).mp ⟨hxl, fun e => hxn e.symm⟩⟩

/-- the constructor finds exactly one top, and its extent is the set of all objects -/
theorem top_all_objects (t : Table) (cs : Lat) (H : IsConceptList t cs) :
    ∃ k, k < cs.length ∧ top cs = .ok k ∧ extOf cs k = List.range t.height := by
  obtain ⟨k, hk, he, _⟩ := H.exists_idx (isConcept_of_attrs t (B := []) (fun _ h => by cases h))
  rw [extAll_nil] at he
  refine ⟨k, hk, ?_, he⟩
  apply PQ.top_eq_of_greatest H.isPO hk
  intro j hj
  rw [H.leq_iff hj k, he]
  intro g hg
  exact List.mem_range.mpr (H.ext_lt hj g hg)

/-- the constructor finds exactly one bottom, and its extent is the set of objects having every attribute -/
theorem bottom_ext_all_attrs (t : Table) (cs : Lat) (H : IsConceptList t cs) :
    ∃ k, k < cs.length ∧ bottom cs = .ok k ∧ extOf cs k = extAll t (List.range t.width) := by
  obtain ⟨k, hk, he, _⟩ := H.exists_idx
    (isConcept_of_attrs t (B := List.range t.width) (fun _ h => List.mem_range.mp h))
  refine ⟨k, hk, ?_, he⟩
  apply PQ.bottom_eq_of_least H.isPO hk
  intro j hj
  rw [H.leq_iff hk j, he, ← H.ext_eq hj]
  exact extAll_antitone t (fun a ha => List.mem_range.mpr (H.int_lt hj a ha))

/-- for a non-empty selection `S` of concepts the meet exists (is not `None`) and its extent is the
    intersection of the extents — for every order of `S` and every set-iteration order -/
theorem meet_extent_inter (t : Table) (cs : Lat) (H : IsConceptList t cs)
    (ord : List Nat → List Nat) (ho : PQ.IsOrder ord) (S : List Nat) (hS : S ≠ [])
    (hSn : ∀ s ∈ S, s < cs.length) :
    ∃ k, k < cs.length ∧ meet cs ord S = .ok (some k) ∧
      extOf cs k = Spec.interAll (List.range t.height) (S.map (extOf cs)) := by
  have hU : ∀ a ∈ S.flatMap (intOf cs), a < t.width := by
    intro a ha
    obtain ⟨s, hs, has⟩ := List.mem_flatMap.mp ha
    exact H.int_lt (hSn s hs) a has
  obtain ⟨k, hk, he, _⟩ := H.exists_idx (isConcept_of_attrs t hU)
  rw [← interAll_exts H hSn] at he
  refine ⟨k, hk, ?_, he⟩
  apply PQ.meet_eq_of_glb H.isPO ho hS hSn hk
  · intro s hs
    rw [H.leq_iff hk s, he]
    intro g hg
    exact (mem_interAll.mp hg).2 _ (List.mem_map.mpr ⟨s, hs, rfl⟩)
  · intro y hy hlb
    rw [H.leq_iff hy k, he]
    intro g hg
    refine mem_interAll.mpr ⟨List.mem_range.mpr (H.ext_lt hy g hg), ?_⟩
    intro l hl
    obtain ⟨s, hs, rfl⟩ := List.mem_map.mp hl
    exact (H.leq_iff hy s).mp (hlb s hs) g hg

/-- for a non-empty selection `S` the join exists and its intent is the intersection of the intents -/
theorem join_intent_inter (t : Table) (cs : Lat) (H : IsConceptList t cs)
    (ord : List Nat → List Nat) (ho : PQ.IsOrder ord) (S : List Nat) (hS : S ≠ [])
    (hSn : ∀ s ∈ S, s < cs.length) :
    ∃ k, k < cs.length ∧ join cs ord S = .ok (some k) ∧
      intOf cs k = Spec.interAll (List.range t.width) (S.map (intOf cs)) := by
  have hV : ∀ g ∈ S.flatMap (extOf cs), g < t.height := by
    intro g hg
    obtain ⟨s, hs, hgs⟩ := List.mem_flatMap.mp hg
    exact H.ext_lt (hSn s hs) g hgs
  obtain ⟨k, hk, he, hi⟩ := H.exists_idx (isConcept_of_objs t hV)
  rw [← interAll_ints H hSn] at hi
  refine ⟨k, hk, ?_, hi⟩
  apply PQ.join_eq_of_lub H.isPO ho hS hSn hk
  · intro s hs
    rw [H.leq_iff (hSn s hs) k, he]
    intro g hg
    exact subset_closure t hV g (List.mem_flatMap.mpr ⟨s, hs, hg⟩)
  · intro y hy hub
    rw [H.leq_iff hk y, he]
    apply H.closure_sub hy
    intro g hg
    obtain ⟨s, hs, hgs⟩ := List.mem_flatMap.mp hg
    exact (H.leq_iff (hSn s hs) y).mp (hub s hs) g hgs

/-- `sort_concepts` (key: (−support, comma-joined decimal extent string), stable) keeps the list an
    enumeration of all concepts, lists them by non-increasing support, puts the concept with all objects
    first and the concept with extent (all attributes)′ last; `top` / `bottom` of the sorted lattice are
    the positions `0` / `len−1`; the Lean listing checker used on the implementation accepts it. -/
theorem listing_sorted (t : Table) (cs : Lat) (H : IsConceptList t cs) :
    IsConceptList t (sortConcepts cs) ∧
    (sortConcepts cs).Pairwise (fun a b => b.1.length ≤ a.1.length) ∧
    (sortConcepts cs).head?.map (·.1) = some (List.range t.height) ∧
    (sortConcepts cs).getLast?.map (·.1) = some (extAll t (List.range t.width)) ∧
    top (sortConcepts cs) = .ok 0 ∧
    bottom (sortConcepts cs) = .ok ((sortConcepts cs).length - 1) ∧
    Spec.listingOk t (sortConcepts cs) = true := by
  have Hs := H.sort
  have hp := sortConcepts_supports cs
  have hh := head_of_sorted Hs hp
  have hl := getLast_of_sorted Hs hp
  have hpos : 0 < (sortConcepts cs).length := by
    cases hs : sortConcepts cs with
    | nil => rw [hs] at hh; cases hh
    | cons a r => simp
  refine ⟨Hs, hp, ?_, ?_, ?_, ?_, ?_⟩
  · rw [hh]; simp [extAll_nil]
  · rw [hl]; rfl
  · obtain ⟨k, hk, htop, he⟩ := top_all_objects t _ Hs
    have h0 : extOf (sortConcepts cs) 0 = List.range t.height := by
      rw [extOf_zero_of_head hh]; exact extAll_nil t
    rw [htop, Hs.ext_inj hk hpos (he.trans h0.symm)]
  · obtain ⟨k, hk, hbot, he⟩ := bottom_ext_all_attrs t _ Hs
    have h0 := extOf_last_of_getLast hl
    rw [hbot, Hs.ext_inj hk (by omega) (he.trans h0.symm)]
  · unfold Spec.listingOk
    rw [supportsNonIncreasing_of_pairwise hp, hh, hl]
    simp [extAll_nil]

/-- `get_chains()` (= `_get_chains(elements, parents_dict)`; dictionaries keyed by concept, smallest parent
    index, fuel-bounded loops) never raises and returns chains such that: every chain starts at the top concept,
    every step goes from a concept to one of its children (lower covers), and every concept lies on some chain.
    The Lean checker `chainsOk`, which judges the implementation's chains, accepts the result. -/
theorem chains_correct (t : Table) (cs : Lat) (H : IsConceptList t cs)
    (ord : List Nat → List Nat) (ho : PQ.IsOrder ord) :
    ∃ chs k, top cs = .ok k ∧ chains cs ord = .ok chs ∧
      (∀ ch ∈ chs, ch.head? = some k ∧ Steps (fun p c => c ∈ children cs ord p) ch) ∧
      (∀ i, i < cs.length → ∃ ch ∈ chs, i ∈ ch) ∧
      Spec.chainsOk (cs.map (·.1)) (List.range t.height) chs = true := by
  obtain ⟨chs, k, hk, htop, hek, hok, hcov, hgood⟩ := chains_ok H ho
  have conv : ∀ ch ∈ chs, Steps (fun p c => c ∈ Spec.lowerCovers (cs.map (·.1)) p) ch := by
    intro ch hch
    obtain ⟨_, hst, hb⟩ := hgood ch hch
    apply steps_imp_mem ch _ hst
    intro p hp c hc hpc
    have hcn := hb c hc
    have hpn := hb p hp
    rw [parents_upper_covers t cs H ord ho c hcn, mem_upperCovers] at hpc
    rw [mem_lowerCovers]
    exact ⟨by rw [List.length_map]; exact hcn, hpc.2.1, hpc.2.2⟩
  refine ⟨chs, k, htop, hok, ?_, hcov, ?_⟩
  · intro ch hch
    refine ⟨(hgood ch hch).1, ?_⟩
    apply steps_imp_mem ch _ (conv ch hch)
    intro p hp c _ hpc
    rw [children_lower_covers t cs H ord ho p ((hgood ch hch).2.2 p hp)]
    exact hpc
  · unfold Spec.chainsOk
    rw [Bool.and_eq_true, List.all_eq_true, List.all_eq_true]
    constructor
    · intro ch hch
      rw [Bool.and_eq_true]
      refine ⟨?_, chainSteps_of_steps _ ch (conv ch hch)⟩
      rw [(hgood ch hch).1]
      simp only [List.length_map, Bool.and_eq_true, decide_eq_true_eq, beq_iff_eq]
      exact ⟨hk, by rw [exts_getD, hek]⟩
    · intro i hi
      rw [List.length_map] at hi
      obtain ⟨ch, hch, hic⟩ := hcov i (List.mem_range.mp hi)
      rw [List.any_eq_true]
      exact ⟨ch, hch, by simpa using hic⟩

/-- The Lindig path of `from_context`.  `cs0` is the concept list in the order Lindig's algorithm emitted it and
    `chd` its `children_dict` (one key per concept, the set stored at key `i` = the lower covers of concept `i`;
    this is what C02's `lindig_exact` bookkeeping yields).  Then `POSet.__init__` (worklist closure of the children
    relation with the closed-form fuel `closedFuel n = (n+1)^(n+1)`, `_transpose_hierarchy` twice, the semilattice
    constructors' top/bottom) followed by `from_context`'s re-sorting and re-indexing of the four caches and of
    top/bottom never fails, and in the resulting lattice — whose element list is `sort_concepts cs0` — the
    cached children / descendants / parents / ancestors of every concept are exactly the lower covers / strictly
    smaller extents / upper covers / strictly larger extents of the SORTED list, `_cache_top = 0` and
    `_cache_bottom = n-1`.  For every worklist order that is a permutation (`ord`). -/
theorem lindig_path_correct (t : Table) (cs0 : Lat) (H : IsConceptList t cs0) (chd : LC.Dict)
    (hkeys : LC.KeysNodup chd) (hklt : ∀ p ∈ chd, p.1 < cs0.length)
    (hch : ∀ i, i < cs0.length → ∃ l, LC.dget chd i = some l ∧
      ∀ x, x ∈ l ↔ x ∈ Spec.lowerCovers (cs0.map (·.1)) i)
    (ord : List Nat → List Nat) (hord : ∀ l, (ord l).Perm l)
    (fuel : Nat) (hfuel : LC.closedFuel cs0.length ≤ fuel) :
    ∃ c0 m c, LC.initFromChildren chd cs0.length ord fuel = .ok c0 ∧
      LC.reindex cs0 c0 = .ok (sortConcepts cs0, m, c) ∧
      (∀ j, j < cs0.length →
        (∃ l, LC.dget c.children j = some l ∧
          ∀ x, x ∈ l ↔ x ∈ Spec.lowerCovers ((sortConcepts cs0).map (·.1)) j) ∧
        (∃ l, LC.dget c.descendants j = some l ∧
          ∀ x, x ∈ l ↔ x ∈ Spec.strictSub ((sortConcepts cs0).map (·.1)) j) ∧
        (∃ l, LC.dget c.parents j = some l ∧
          ∀ x, x ∈ l ↔ x ∈ Spec.upperCovers ((sortConcepts cs0).map (·.1)) j) ∧
        (∃ l, LC.dget c.ancestors j = some l ∧
          ∀ x, x ∈ l ↔ x ∈ Spec.strictSuper ((sortConcepts cs0).map (·.1)) j)) ∧
      c.top = some 0 ∧ c.bottom = some (cs0.length - 1) := by
  have Hs := H.sort
  have hlen : (sortConcepts cs0).length = cs0.length := (sortConcepts_perm cs0).length_eq
  have hp := sortConcepts_supports cs0
  -- the hypotheses of the worklist lemma
  have S : LC.ClosedSetup (leq cs0) cs0.length (fun a => (extOf cs0 a).length) chd := by
    refine ⟨H.isPO, fun a b ha hb h hne => H.ext_len_lt ha hb h hne, hkeys, hklt, ?_⟩
    intro i hi
    obtain ⟨l, hl, hm⟩ := hch i hi
    refine ⟨l, hl, fun x => ?_⟩
    rw [hm x, ← children_lower_covers t cs0 H id PQ.isOrder_id i hi]
    rfl
  obtain ⟨kt, hkt, _, hekt⟩ := top_all_objects t cs0 H
  obtain ⟨kb, hkb, _, hekb⟩ := bottom_ext_all_attrs t cs0 H
  have hgreat : ∀ j, j < cs0.length → leq cs0 j kt = true := by
    intro j hj
    rw [H.leq_iff hj kt, hekt]
    exact fun g hg => List.mem_range.mpr (H.ext_lt hj g hg)
  have hleast : ∀ j, j < cs0.length → leq cs0 kb j = true := by
    intro j hj
    rw [H.leq_iff hkb j, hekb, ← H.ext_eq hj]
    exact extAll_antitone t (fun a ha => List.mem_range.mpr (H.int_lt hj a ha))
  obtain ⟨c0, hinit, _, gch, gdesc, gpar, ganc, htop, hbot⟩ :=
    S.init_ok hord hfuel hkb hleast hkt hgreat
  obtain ⟨m, hm, iso, hconc⟩ := LC.mapIsort_ok H
  have po1 : PQ.IsPO (leq (sortConcepts cs0)) cs0.length := by
    have := Hs.isPO; rwa [hlen] at this
  refine ⟨c0, m, ⟨LC.reindexDict m c0.children, LC.reindexDict m c0.descendants, LC.reindexDict m c0.parents,
    LC.reindexDict m c0.ancestors, c0.top.map (m.getD · 0), c0.bottom.map (m.getD · 0)⟩, hinit, ?_, ?_, ?_, ?_⟩
  · unfold LC.reindex
    simp only [hm]
  · intro j hj
    have hj' : j < (sortConcepts cs0).length := by rw [hlen]; exact hj
    refine ⟨?_, ?_, ?_, ?_⟩
    · obtain ⟨l, hl, hmem⟩ := LC.reindex_good iso gch (R1 := PQ.children (leq (sortConcepts cs0)) cs0.length id)
        (fun i hi y => iso.children H.isPO po1 hi y) j hj
      refine ⟨l, hl, fun x => ?_⟩
      rw [hmem x, ← children_lower_covers t _ Hs id PQ.isOrder_id j hj']
      unfold children; rw [hlen]
    · obtain ⟨l, hl, hmem⟩ := LC.reindex_good iso gdesc (R1 := PQ.descendants (leq (sortConcepts cs0)) cs0.length)
        (fun i hi y => iso.desc hi y) j hj
      refine ⟨l, hl, fun x => ?_⟩
      rw [hmem x, ← descendants_strict_subextents t _ Hs j hj']
      unfold descendants; rw [hlen]
    · obtain ⟨l, hl, hmem⟩ := LC.reindex_good iso gpar (R1 := PQ.parents (leq (sortConcepts cs0)) cs0.length id)
        (fun i hi y => iso.parents H.isPO po1 hi y) j hj
      refine ⟨l, hl, fun x => ?_⟩
      rw [hmem x, ← parents_upper_covers t _ Hs id PQ.isOrder_id j hj']
      unfold parents; rw [hlen]
    · obtain ⟨l, hl, hmem⟩ := LC.reindex_good iso ganc (R1 := PQ.ancestors (leq (sortConcepts cs0)) cs0.length)
        (fun i hi y => iso.anc hi y) j hj
      refine ⟨l, hl, fun x => ?_⟩
      rw [hmem x, ← ancestors_strict_superextents t _ Hs j hj']
      unfold ancestors; rw [hlen]
  · show c0.top.map (m.getD · 0) = some 0
    rw [htop]
    simp only [Option.map_some, Option.some.injEq]
    have h0 : extOf (sortConcepts cs0) 0 = List.range t.height := by
      rw [extOf_zero_of_head (head_of_sorted Hs hp)]; exact extAll_nil t
    have hpos : 0 < cs0.length := by omega
    apply Hs.ext_inj (by rw [hlen]; exact iso.rng kt hkt) (by rw [hlen]; exact hpos)
    unfold extOf
    rw [hconc kt hkt]
    exact hekt.trans h0.symm
  · show c0.bottom.map (m.getD · 0) = some (cs0.length - 1)
    rw [hbot]
    simp only [Option.map_some, Option.some.injEq]
    have hl := extOf_last_of_getLast (getLast_of_sorted Hs hp)
    rw [hlen] at hl
    apply Hs.ext_inj (by rw [hlen]; exact iso.rng kb hkb) (by rw [hlen]; omega)
    unfold extOf
    rw [hconc kb hkb]
    exact hekb.trans hl.symm

/-! ### pruned lattices (after `del L[i]` / `L.remove(c)`): any duplicate-free list of concepts of the table -/

/-- the hypothesis of the pruned versions: a duplicate-free list of formal concepts of `t` (not necessarily all) -/
abbrev IsConceptSub := LQ.IsConceptSub

/-- non-vacuity: the example lattice with two inner concepts deleted (top and bottom kept) -/
example : IsConceptSub exTable [([0, 1, 2], []), ([0, 2], [0]), ([2], [0, 1]), ([0], [0, 2]), ([], [0, 1, 2])] := by
  decide
example (t : Table) (cs : Lat) (H : IsConceptList t cs) : IsConceptSub t cs := H.toSub

/-- in a pruned lattice the four order queries are still those of extent inclusion *within the list*:
    strictly smaller / larger extents and the lower / upper covers among the remaining concepts -/
theorem pruned_relations (t : Table) (cs : Lat) (H : IsConceptSub t cs)
    (ord : List Nat → List Nat) (ho : PQ.IsOrder ord) (i : Nat) (hi : i < cs.length) :
    descendants cs i = Spec.strictSub (cs.map (·.1)) i ∧
    ancestors cs i = Spec.strictSuper (cs.map (·.1)) i ∧
    children cs ord i = Spec.lowerCovers (cs.map (·.1)) i ∧
    parents cs ord i = Spec.upperCovers (cs.map (·.1)) i :=
  ⟨H.descendants_eq i hi, H.ancestors_eq i hi, H.children_eq ho i hi, H.parents_eq ho i hi⟩

/-- a pruned lattice that keeps the concept of all objects and the concept of all attributes still has exactly
    one top (extent = all objects) and one bottom (extent = objects having every attribute) -/
theorem pruned_top_bottom (t : Table) (cs : Lat) (H : IsConceptSub t cs)
    (htop : (extAll t [], closureAttr t []) ∈ cs)
    (hbot : (extAll t (List.range t.width), closureAttr t (List.range t.width)) ∈ cs) :
    (∃ k, k < cs.length ∧ top cs = .ok k ∧ extOf cs k = List.range t.height) ∧
    (∃ k, k < cs.length ∧ bottom cs = .ok k ∧ extOf cs k = extAll t (List.range t.width)) :=
  ⟨H.top_eq htop, H.bottom_eq hbot⟩

end Fca.C03

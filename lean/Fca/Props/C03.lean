/-
  Props/C03 — lattice order, covers, top/bottom, meet and join are those of extent inclusion.

  All theorems are about the code-shaped models of `Fca/Model/LatticeQuery.lean` (the uncached POSet
  queries instantiated with `FormalConcept.__le__`, `sort_concepts`, `_get_chains`) on a concept list
  `cs` that lists every formal concept of the table `t` exactly once (`IsConceptList t cs`; this is what
  C02 establishes for the construction algorithms).  Python set-iteration orders are the parameter `ord`,
  over which every theorem quantifies (`PQ.IsOrder ord`: same members in any order).
  Only property theorems live here; helper lemmas are in `Fca/Lemmas/LatticeQuery*.lean`.
-/
import Fca.Model.LatticeQuery
import Fca.Spec.LatticeQuery
import Fca.Lemmas.LatticeQueryConcept
import Fca.Lemmas.LatticeQuerySort
import Fca.Lemmas.LatticeQueryChains
namespace Fca.C03
open Fca Fca.LQ Fca.Spec

/-- the hypothesis shared by all theorems: `cs` is a duplicate-free enumeration of `allConcepts t` -/
abbrev IsConceptList := LQ.IsConceptList

/-- non-vacuity: the 3×3 table `[[1,0,1],[0,1,1],[1,1,0]]` with its 8 concepts in the order Lindig's
    algorithm emits them (not the sorted order) -/
def exTable : Table := ⟨[[true, false, true], [false, true, true], [true, true, false]], 3⟩
def exLat : Lat :=
  [([0, 1, 2], []), ([0, 2], [0]), ([1, 2], [1]), ([0, 1], [2]), ([2], [0, 1]), ([0], [0, 2]),
   ([1], [1, 2]), ([], [0, 1, 2])]
example : IsConceptList exTable exLat := by decide
example : PQ.IsOrder id ∧ PQ.IsOrder List.reverse := ⟨PQ.isOrder_id, PQ.isOrder_reverse⟩

/-- `descendants(i)` = the concepts with strictly smaller extent (as an ascending index list) -/
theorem descendants_strict_subextents (t : Table) (cs : Lat) (H : IsConceptList t cs)
    (i : Nat) (hi : i < cs.length) :
    descendants cs i = Spec.strictSub (cs.map (·.1)) i := by
  unfold descendants PQ.descendants Spec.strictSub
  rw [List.length_map]
  apply List.filter_congr
  intro j hj
  have hjn := List.mem_range.mp hj
  rw [exts_getD, exts_getD, Bool.eq_iff_iff, Bool.and_eq_true, bne_iff_ne]
  exact H.lt_iff_ssubset hi hjn

/-- `ancestors(i)` = the concepts with strictly larger extent -/
theorem ancestors_strict_superextents (t : Table) (cs : Lat) (H : IsConceptList t cs)
    (i : Nat) (hi : i < cs.length) :
    ancestors cs i = Spec.strictSuper (cs.map (·.1)) i := by
  unfold ancestors PQ.ancestors Spec.strictSuper
  rw [List.length_map]
  apply List.filter_congr
  intro j hj
  have hjn := List.mem_range.mp hj
  rw [exts_getD, exts_getD, Bool.eq_iff_iff, Bool.and_eq_true, bne_iff_ne]
  constructor
  · rintro ⟨h, hne⟩
    exact (H.lt_iff_ssubset hjn hi).mp ⟨h, fun e => hne e.symm⟩
  · intro h
    have := (H.lt_iff_ssubset hjn hi).mpr h
    exact ⟨this.1, fun e => this.2 e.symm⟩

/-- `children(i)` = the lower covers of `i` w.r.t. extent inclusion, for every set-iteration order -/
theorem children_lower_covers (t : Table) (cs : Lat) (H : IsConceptList t cs)
    (ord : List Nat → List Nat) (ho : PQ.IsOrder ord) (i : Nat) (hi : i < cs.length) :
    children cs ord i = Spec.lowerCovers (cs.map (·.1)) i := by
  apply PQ.sorted_ext (PQ.children_sorted ord i) (lowerCovers_sorted _ _)
  intro x
  rw [PQ.mem_children H.isPO ho, mem_lowerCovers, List.length_map]
  simp only [exts_getD, PQ.mem_descendants]
  constructor
  · rintro ⟨⟨hx, hle, hne⟩, hno⟩
    refine ⟨hx, (H.lt_iff_ssubset hi hx).mp ⟨hle, hne⟩, ?_⟩
    rintro k hk ⟨h₁, h₂⟩
    have hki := (H.lt_iff_ssubset hi hk).mpr h₂
    have hxk := (H.lt_iff_ssubset hk hx).mpr h₁
    exact hno k ⟨hk, hki.1, hki.2⟩ ⟨hx, hxk.1, hxk.2⟩
  · rintro ⟨hx, hss, hno⟩
    have hxi := (H.lt_iff_ssubset hi hx).mpr hss
    refine ⟨⟨hx, hxi.1, hxi.2⟩, ?_⟩
    rintro y ⟨hy, hyl, hyn⟩ ⟨_, hxl, hxn⟩
    exact hno y hy ⟨(H.lt_iff_ssubset hy hx).mp ⟨hxl, hxn⟩, (H.lt_iff_ssubset hi hy).mp ⟨hyl, hyn⟩⟩

/-- `parents(i)` = the upper covers of `i` w.r.t. extent inclusion, for every set-iteration order -/
theorem parents_upper_covers (t : Table) (cs : Lat) (H : IsConceptList t cs)
    (ord : List Nat → List Nat) (ho : PQ.IsOrder ord) (i : Nat) (hi : i < cs.length) :
    parents cs ord i = Spec.upperCovers (cs.map (·.1)) i := by
  apply PQ.sorted_ext (PQ.parents_sorted ord i) (upperCovers_sorted _ _)
  intro x
  rw [PQ.mem_parents H.isPO ho, mem_upperCovers, List.length_map]
  simp only [exts_getD, PQ.mem_ancestors]
  constructor
  · rintro ⟨⟨hx, hle, hne⟩, hno⟩
    refine ⟨hx, (H.lt_iff_ssubset hx hi).mp ⟨hle, fun e => hne e.symm⟩, ?_⟩
    rintro k hk ⟨h₁, h₂⟩
    have hik := (H.lt_iff_ssubset hk hi).mpr h₁
    have hkx := (H.lt_iff_ssubset hx hk).mpr h₂
    exact hno k ⟨hk, hik.1, fun e => hik.2 e.symm⟩ ⟨hx, hkx.1, fun e => hkx.2 e.symm⟩
  · rintro ⟨hx, hss, hno⟩
    have hix := (H.lt_iff_ssubset hx hi).mpr hss
    refine ⟨⟨hx, hix.1, fun e => hix.2 e.symm⟩, ?_⟩
    rintro y ⟨hy, hyl, hyn⟩ ⟨_, hxl, hxn⟩
    exact hno y hy ⟨(H.lt_iff_ssubset hy hi).mp ⟨hyl, fun e => hyn e.symm⟩,
      (H.lt_iff_ssubset hx hy).mp ⟨hxl, fun e => hxn e.symm⟩⟩

/-- the constructor finds exactly one top, and its extent is the set of all objects -/
theorem top_all_objects (t : Table) (cs : Lat) (H : IsConceptList t cs) :
    ∃ k, k < cs.length ∧ top cs = .ok k ∧ extOf cs k = List.range t.height := by
  obtain ⟨k, hk, he, _⟩ := H.exists_idx (isConcept_of_attrs t (B := []) (fun _ h => by cases h))
  rw [extAll_nil] at he
  refine ⟨k, hk, ?_, he⟩
  apply PQ.top_eq_of_greatest H.isPO hk
  intro j hj
  rw [H.leq_iff hj k, he]
  intro g hg
  exact List.mem_range.mpr (H.ext_lt hj g hg)

/-- the constructor finds exactly one bottom, and its extent is the set of objects having every attribute -/
theorem bottom_ext_all_attrs (t : Table) (cs : Lat) (H : IsConceptList t cs) :
    ∃ k, k < cs.length ∧ bottom cs = .ok k ∧ extOf cs k = extAll t (List.range t.width) := by
  obtain ⟨k, hk, he, _⟩ := H.exists_idx
    (isConcept_of_attrs t (B := List.range t.width) (fun _ h => List.mem_range.mp h))
  refine ⟨k, hk, ?_, he⟩
  apply PQ.bottom_eq_of_least H.isPO hk
  intro j hj
  rw [H.leq_iff hk j, he, ← H.ext_eq hj]
  exact extAll_antitone t (fun a ha => List.mem_range.mpr (H.int_lt hj a ha))

/-- for a non-empty selection `S` of concepts the meet exists (is not `None`) and its extent is the
    intersection of the extents — for every order of `S` and every set-iteration order -/
theorem meet_extent_inter (t : Table) (cs : Lat) (H : IsConceptList t cs)
    (ord : List Nat → List Nat) (ho : PQ.IsOrder ord) (S : List Nat) (hS : S ≠ [])
    (hSn : ∀ s ∈ S, s < cs.length) :
    ∃ k, k < cs.length ∧ meet cs ord S = .ok (some k) ∧
      extOf cs k = Spec.interAll (List.range t.height) (S.map (extOf cs)) := by
  have hU : ∀ a ∈ S.flatMap (intOf cs), a < t.width := by
    intro a ha
    obtain ⟨s, hs, has⟩ := List.mem_flatMap.mp ha
    exact H.int_lt (hSn s hs) a has
  obtain ⟨k, hk, he, _⟩ := H.exists_idx (isConcept_of_attrs t hU)
  rw [← interAll_exts H hSn] at he
  refine ⟨k, hk, ?_, he⟩
  apply PQ.meet_eq_of_glb H.isPO ho hS hSn hk
  · intro s hs
    rw [H.leq_iff hk s, he]
    intro g hg
    exact (mem_interAll.mp hg).2 _ (List.mem_map.mpr ⟨s, hs, rfl⟩)
  · intro y hy hlb
    rw [H.leq_iff hy k, he]
    intro g hg
    refine mem_interAll.mpr ⟨List.mem_range.mpr (H.ext_lt hy g hg), ?_⟩
    intro l hl
    obtain ⟨s, hs, rfl⟩ := List.mem_map.mp hl
    exact (H.leq_iff hy s).mp (hlb s hs) g hg

/-- for a non-empty selection `S` the join exists and its intent is the intersection of the intents -/
theorem join_intent_inter (t : Table) (cs : Lat) (H : IsConceptList t cs)
    (ord : List Nat → List Nat) (ho : PQ.IsOrder ord) (S : List Nat) (hS : S ≠ [])
    (hSn : ∀ s ∈ S, s < cs.length) :
    ∃ k, k < cs.length ∧ join cs ord S = .ok (some k) ∧
      intOf cs k = Spec.interAll (List.range t.width) (S.map (intOf cs)) := by
  have hV : ∀ g ∈ S.flatMap (extOf cs), g < t.height := by
    intro g hg
    obtain ⟨s, hs, hgs⟩ := List.mem_flatMap.mp hg
    exact H.ext_lt (hSn s hs) g hgs
  obtain ⟨k, hk, he, hi⟩ := H.exists_idx (isConcept_of_objs t hV)
  rw [← interAll_ints H hSn] at hi
  refine ⟨k, hk, ?_, hi⟩
  apply PQ.join_eq_of_lub H.isPO ho hS hSn hk
  · intro s hs
    rw [H.leq_iff (hSn s hs) k, he]
    intro g hg
    exact subset_closure t hV g (List.mem_flatMap.mpr ⟨s, hs, hg⟩)
  · intro y hy hub
    rw [H.leq_iff hk y, he]
    apply H.closure_sub hy
    intro g hg
    obtain ⟨s, hs, hgs⟩ := List.mem_flatMap.mp hg
    exact (H.leq_iff (hSn s hs) y).mp (hub s hs) g hgs

/-- `sort_concepts` (key: (−support, comma-joined decimal extent string), stable) keeps the list an
    enumeration of all concepts, lists them by non-increasing support, puts the concept with all objects
    first and the concept with extent (all attributes)′ last; `top` / `bottom` of the sorted lattice are
    the positions `0` / `len−1`; the Lean listing checker used on the implementation accepts it. -/
theorem listing_sorted (t : Table) (cs : Lat) (H : IsConceptList t cs) :
    IsConceptList t (sortConcepts cs) ∧
    (sortConcepts cs).Pairwise (fun a b => b.1.length ≤ a.1.length) ∧
    (sortConcepts cs).head?.map (·.1) = some (List.range t.height) ∧
    (sortConcepts cs).getLast?.map (·.1) = some (extAll t (List.range t.width)) ∧
    top (sortConcepts cs) = .ok 0 ∧
    bottom (sortConcepts cs) = .ok ((sortConcepts cs).length - 1) ∧
    Spec.listingOk t (sortConcepts cs) = true := by
  have Hs := H.sort
  have hp := sortConcepts_supports cs
  have hh := head_of_sorted Hs hp
  have hl := getLast_of_sorted Hs hp
  have hpos : 0 < (sortConcepts cs).length := by
    cases hs : sortConcepts cs with
    | nil => rw [hs] at hh; cases hh
    | cons a r => simp
  refine ⟨Hs, hp, ?_, ?_, ?_, ?_, ?_⟩
  · rw [hh]; simp [extAll_nil]
  · rw [hl]; rfl
  · obtain ⟨k, hk, htop, he⟩ := top_all_objects t _ Hs
    have h0 : extOf (sortConcepts cs) 0 = List.range t.height := by
      rw [extOf_zero_of_head hh]; exact extAll_nil t
    rw [htop, Hs.ext_inj hk hpos (he.trans h0.symm)]
  · obtain ⟨k, hk, hbot, he⟩ := bottom_ext_all_attrs t _ Hs
    have h0 := extOf_last_of_getLast hl
    rw [hbot, Hs.ext_inj hk (by omega) (he.trans h0.symm)]
  · unfold Spec.listingOk
    rw [supportsNonIncreasing_of_pairwise hp, hh, hl]
    simp [extAll_nil]

/-- PARTIAL (chain decomposition).  Proved: if `map_i_isort` holds, for every concept, its position in the
    sorted listing (hypothesis `hpos` — in the code these positions come from a dictionary keyed by concept
    hash/equality), then from ANY start concept the inner `while True:` loop of `_get_chains` terminates within
    `n+1` rounds without `IndexError` and returns a path that starts at that concept, moves at every step to a
    parent (so that, read backwards as `get_chains` returns it, it steps parent → child) and ends at the top
    concept.  MISSING for the full statement: (1) the lemma that the two dictionary look-ups return the positions
    (`dictIdx l l[k] = some k` on duplicate-free concept lists), which discharges `hpos`; (2) the outer loop:
    every round starts at an unvisited concept, so the rounds terminate and the chains cover all concepts.
    Both are validated per case by the correspondence check (`modelChainsOk`, model chains = get_chains()). -/
theorem chains_correct_partial (t : Table) (cs : Lat) (H : IsConceptList t cs)
    (ord : List Nat → List Nat) (ho : PQ.IsOrder ord) (iIsort : List Nat)
    (hpos : ∀ i, i < cs.length → iIsort.getD i 0 < cs.length ∧
      conc (sortConcepts cs) (iIsort.getD i 0) = conc cs i)
    (ci : Nat) (hci : ci < cs.length) :
    ∃ path topIdx, top cs = .ok topIdx ∧
      chainClimb (parents cs ord) iIsort (cs.length + 1) ci (iIsort.getD ci 0) [] = .ok path ∧
      path.head? = some ci ∧ path.getLast? = some topIdx ∧
      Steps (fun c p => c ∈ children cs ord p) path := by
  obtain ⟨k, hk, htop, hek⟩ := top_all_objects t cs H
  have Hs := H.sort
  have hp := sortConcepts_supports cs
  have hlen : (sortConcepts cs).length = cs.length := (sortConcepts_perm cs).length_eq
  -- position 0 of the sorted list holds the top concept
  have h0 : extOf (sortConcepts cs) 0 = List.range t.height := by
    rw [extOf_zero_of_head (head_of_sorted Hs hp)]; exact extAll_nil t
  -- supports along sorted positions
  have hmono : ∀ a b, a < b → b < cs.length →
      (extOf (sortConcepts cs) b).length ≤ (extOf (sortConcepts cs) a).length := by
    intro a b hab hb
    have := (List.pairwise_iff_getElem.mp hp) a b (by omega) (by omega) hab
    simpa [extOf, conc, List.getD_eq_getElem?_getD, List.getElem?_eq_getElem, hlen, hb,
      show a < cs.length by omega] using this
  have hext : ∀ i, i < cs.length → extOf (sortConcepts cs) (iIsort.getD i 0) = extOf cs i := by
    intro i hi; unfold extOf; rw [(hpos i hi).2]
  have S : ChainSetup (parents cs ord) iIsort cs.length k := by
    refine ⟨?_, ?_, ?_, fun i hi => (hpos i hi).1⟩
    · intro i hi _ p hpP
      obtain ⟨hpn, hle, hne⟩ := H.parents_lt ho hpP
      refine ⟨hpn, ?_⟩
      have hlt := H.ext_len_lt hi hpn hle (fun e => hne e.symm)
      rw [← hext i hi, ← hext p hpn] at hlt
      rcases Nat.lt_trichotomy (iIsort.getD p 0) (iIsort.getD i 0) with h | h | h
      · exact h
      · rw [h] at hlt; omega
      · have := hmono _ _ h (hpos p hpn).1; omega
    · intro i hi hne hnil
      have hik : i ≠ k := by
        intro e
        apply hne
        have : extOf (sortConcepts cs) (iIsort.getD i 0) = extOf (sortConcepts cs) 0 := by
          rw [hext i hi, e, hek, h0]
        exact Hs.ext_inj (by rw [hlen]; exact (hpos i hi).1) (by rw [hlen]; omega) this
      have hka : k ∈ ancestors cs i := by
        refine PQ.mem_ancestors.mpr ⟨hk, ?_, fun e => hik e.symm⟩
        rw [H.leq_iff hi k, hek]
        exact fun g hg => List.mem_range.mpr (H.ext_lt hi g hg)
      obtain ⟨j, hj, _⟩ := H.parent_below ho hka
      rw [hnil] at hj; cases hj
    · intro i hi hz
      apply H.ext_inj hi hk
      rw [← hext i hi, hz, h0, hek]
  obtain ⟨path, hok, hh, hl, hs, hb⟩ := climb_ok S (cs.length + 1) ci [] hci (by have := (hpos ci hci).1; omega)
  refine ⟨path, k, htop, by simpa using hok, hh, hl, ?_⟩
  -- a parent step, read from the parent's side, is a child step
  have conv : ∀ l : List Nat, (∀ x ∈ l, x < cs.length) → Steps (fun x y => y ∈ parents cs ord x) l →
      Steps (fun c p => c ∈ children cs ord p) l := by
    intro l
    induction l with
    | nil => intro _ _; trivial
    | cons x rest ih =>
      intro hl hst
      refine ⟨fun y hy => ?_, ih (fun z hz => hl z (List.mem_cons_of_mem _ hz)) hst.2⟩
      have hyp : y ∈ parents cs ord x := hst.1 y hy
      show x ∈ children cs ord y
      have hx := hl x List.mem_cons_self
      obtain ⟨hyn, _, _⟩ := H.parents_lt ho hyp
      rw [parents_upper_covers t cs H ord ho x hx, mem_upperCovers] at hyp
      rw [children_lower_covers t cs H ord ho y hyn, mem_lowerCovers]
      exact ⟨by rw [List.length_map]; exact hx, hyp.2.1, hyp.2.2⟩
  exact conv path hb hs

end Fca.C03

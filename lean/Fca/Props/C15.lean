/-
  Props/C15 — approximate miners return only genuine concepts and honour their limits.

  Sofia: the theorems are stated for `sofiaWith tie meas …`, i.e. for EVERY set-iteration order
  `tie` (assumed only to enumerate the set: `TieOK`) and EVERY measure function returning one value
  per extent (`MeasLen`) — both `stability_lbounds` variants are instances (`sofia_both_bounds`), and so
  is whatever `caspailleur` really computes on families that are not closed under intersection.
  All of them hold for every `L_max` (the property asks `L_max ≥ 1`) and every `min_supp = p/q`.

  Trees / forests: the fitted trees are DATA of the model (`Fca/Model/RFTree.lean`: the arrays
  `children_left/right, feature, threshold` — `DL.Tree` of C20 reused — and sklearn's `decision_path` as the per-row
  descent `DL.pathFrom`; the harness compares the real `decision_path` matrix with it on every fitted tree).
  `rf_concepts_genuine` is FULL for point-valued interval columns: every tree-node extent is closed
  (`rf_node_extents_closed`), so every returned pair is a genuine pattern concept, and the all-objects concept is
  among them.  It FAILS for proper interval cells (`d19_proper_interval_not_genuine`: known finding D19) and on the
  `FormalContext` path (`formal_path_not_genuine`; `rf_formal_genuine_iff` says exactly when it holds).

  Only property theorems live here; helper lemmas are in `Fca/Lemmas/SofiaApprox.lean`.
-/
import Fca.Model.SofiaApprox
import Fca.Spec.C15
import Fca.Lemmas.SofiaApprox
import Fca.Model.RFTree
import Fca.Lemmas.RFTree
import Fca.Props.C01
namespace Fca.C15
open Fca Fca.Spec Fca.SofiaApprox

/-- `from_objects(extent.search(True), K, is_extent=True)` of the mask of `B'` is `(B', B'')` -/
theorem conceptOf_maskOf (K : Ctx) (hwf : K.table.WF) (B : List Nat) :
    conceptOf K (maskOf K.table B) = (extAll K.table B, closureAttr K.table B) := by
  unfold conceptOf
  simp only [search1_maskOf]
  rw [C01.intention_i_exact K hwf (extAll K.table B) none (extAll_lt K.table) (by intro bs h; cases h)]
  rfl

/-- what the loop invariant says about the returned concepts -/
theorem sofia_out (K : Ctx) (tie : Tie) (htie : TieOK tie) (meas : Measure) (hmeas : MeasLen meas)
    (ms : MinSupp) (lmax : Nat) :
    ∃ masks, sofiaMasks tie meas ms lmax K.table = .ok masks ∧
      sofiaWith tie meas ms lmax K = .ok (masks.map (conceptOf K)) ∧
      Inv K.table ms lmax (applied ms K.table [] (List.range K.table.width)) masks := by
  obtain ⟨masks, hm, hinv⟩ := inv_sofiaMasks htie hmeas ms lmax K.table
  exact ⟨masks, hm, by simp [sofiaWith, hm], hinv⟩

/-- Sofia never raises (in particular `sorted(measure_values)[::-1][L_max]` is in range). -/
theorem sofia_total (K : Ctx) (tie : Tie) (htie : TieOK tie) (meas : Measure) (hmeas : MeasLen meas)
    (ms : MinSupp) (lmax : Nat) : ∃ out, sofiaWith tie meas ms lmax K = .ok out := by
  obtain ⟨masks, _, h, _⟩ := sofia_out K tie htie meas hmeas ms lmax
  exact ⟨_, h⟩

/-- Both `stability_lbounds` variants are covered by the theorems below. -/
theorem sofia_both_bounds (tie : Tie) (useLog : Bool) (ms : MinSupp) (lmax : Nat) (K : Ctx) :
    sofia tie useLog ms lmax K = sofiaWith tie (measureOf useLog K.table.height) ms lmax K ∧
    MeasLen (measureOf useLog K.table.height) :=
  ⟨rfl, measLen_measureOf useLog _⟩

/-- Every returned pair is a formal concept of the context (it is listed by the brute-force
    enumeration `allConcepts`), and its extent is closed. -/
theorem sofia_sound (K : Ctx) (hwf : K.table.WF) (tie : Tie) (htie : TieOK tie) (meas : Measure)
    (hmeas : MeasLen meas) (ms : MinSupp) (lmax : Nat) (out : List (List Nat × List Nat))
    (hout : sofiaWith tie meas ms lmax K = .ok out) :
    ∀ c ∈ out, c ∈ allConcepts K.table ∧ closure K.table c.1 = c.1 := by
  obtain ⟨masks, _, h, hinv⟩ := sofia_out K tie htie meas hmeas ms lmax
  rw [h] at hout; cases hout
  intro c hc
  obtain ⟨e, he, rfl⟩ := List.mem_map.mp hc
  obtain ⟨B, hB, rfl⟩ := hinv.gen e he
  have hr : ∀ b ∈ B, b < K.table.width := fun b hb => applied_lt ms K.table b (hB b hb)
  rw [conceptOf_maskOf K hwf]
  exact ⟨(mem_allConcepts K.table).mpr (isConcept_of_attrs K.table hr), closure_extAll hr⟩

/-- The returned concepts are pairwise distinct — even their extents are. -/
theorem sofia_no_dup (K : Ctx) (hwf : K.table.WF) (tie : Tie) (htie : TieOK tie) (meas : Measure)
    (hmeas : MeasLen meas) (ms : MinSupp) (lmax : Nat) (out : List (List Nat × List Nat))
    (hout : sofiaWith tie meas ms lmax K = .ok out) :
    (out.map (·.1)).Nodup ∧ out.Nodup := by
  obtain ⟨masks, _, h, hinv⟩ := sofia_out K tie htie meas hmeas ms lmax
  rw [h] at hout; cases hout
  have h1 : ((masks.map (conceptOf K)).map (·.1)).Nodup := by
    rw [List.map_map]
    apply nodup_map_on _ hinv.nodup
    intro x hx y hy hxy
    obtain ⟨B, _, rfl⟩ := hinv.gen x hx
    obtain ⟨B', _, rfl⟩ := hinv.gen y hy
    simp only [Function.comp, conceptOf_maskOf K hwf] at hxy
    exact maskOf_eq_of_extAll_eq K.table hxy
  exact ⟨h1, List.Pairwise.of_map _ (fun a b hab heq => hab (by rw [heq])) h1⟩

/-- The top concept (all objects) is returned — as the last element — and the first returned
    extent is contained in every returned extent. -/
theorem sofia_top_and_least (K : Ctx) (hwf : K.table.WF) (tie : Tie) (htie : TieOK tie) (meas : Measure)
    (hmeas : MeasLen meas) (ms : MinSupp) (lmax : Nat) (out : List (List Nat × List Nat))
    (hout : sofiaWith tie meas ms lmax K = .ok out) :
    (∃ ys, out = ys ++ [(List.range K.table.height, intAll K.table (List.range K.table.height))]) ∧
    (∃ c₀ rest, out = c₀ :: rest ∧ ∀ c ∈ out, ∀ g ∈ c₀.1, g ∈ c.1) := by
  obtain ⟨masks, _, h, hinv⟩ := sofia_out K tie htie meas hmeas ms lmax
  rw [h] at hout; cases hout
  constructor
  · obtain ⟨ys, hys⟩ := hinv.last
    refine ⟨ys.map (conceptOf K), ?_⟩
    rw [hys, List.map_append, List.map_singleton, conceptOf_maskOf K hwf]
    have : extAll K.table [] = List.range K.table.height := by
      simp [extAll, ext]
    simp only [closureAttr, this]
  · obtain ⟨tl, htl⟩ := hinv.head
    refine ⟨conceptOf K (maskOf K.table _), tl.map (conceptOf K), by rw [htl]; rfl, ?_⟩
    intro c hc g hg
    obtain ⟨e, he, rfl⟩ := List.mem_map.mp hc
    obtain ⟨B, hB, rfl⟩ := hinv.gen e he
    rw [conceptOf_maskOf K hwf] at hg ⊢
    exact extAll_antitone K.table hB g hg

/-- Every returned concept other than the first one has support ≥ the threshold
    (`not (count < min_supp)` for the converted `min_supp`). -/
theorem sofia_support (K : Ctx) (hwf : K.table.WF) (tie : Tie) (htie : TieOK tie) (meas : Measure)
    (hmeas : MeasLen meas) (ms : MinSupp) (lmax : Nat) (out : List (List Nat × List Nat))
    (hout : sofiaWith tie meas ms lmax K = .ok out) :
    ∀ c ∈ out.tail, ms.below K.table.height c.1.length = false := by
  obtain ⟨masks, _, h, hinv⟩ := sofia_out K tie htie meas hmeas ms lmax
  rw [h] at hout; cases hout
  intro c hc
  rw [← List.map_tail] at hc
  obtain ⟨e, he, rfl⟩ := List.mem_map.mp hc
  have hs := hinv.supp e he
  obtain ⟨B, _, rfl⟩ := hinv.gen e (List.mem_of_mem_tail he)
  rw [conceptOf_maskOf K hwf]
  rw [count_maskOf] at hs
  exact hs

/-- Never more than `L_max + 2` concepts (at most `L_max` measures exceed the `(L_max+1)`-th largest,
    plus the two extremes). -/
theorem sofia_count_le (K : Ctx) (tie : Tie) (htie : TieOK tie) (meas : Measure)
    (hmeas : MeasLen meas) (ms : MinSupp) (lmax : Nat) (out : List (List Nat × List Nat))
    (hout : sofiaWith tie meas ms lmax K = .ok out) : out.length ≤ lmax + 2 := by
  obtain ⟨masks, _, h, hinv⟩ := sofia_out K tie htie meas hmeas ms lmax
  rw [h] at hout; cases hout
  simpa using hinv.len

/-- When the limit is not binding (the `len(extents_proj) > L_max` block never runs), every concept
    of the context whose support meets the threshold is returned. -/
theorem sofia_nonbinding_all (K : Ctx) (hwf : K.table.WF) (tie : Tie) (htie : TieOK tie) (meas : Measure)
    (ms : MinSupp) (lmax : Nat) (hnb : neverBinds tie ms lmax K.table = true)
    (out : List (List Nat × List Nat)) (hout : sofiaWith tie meas ms lmax K = .ok out) :
    ∀ c ∈ allConcepts K.table, ms.below K.table.height c.1.length = false → c ∈ out := by
  obtain ⟨masks, hm, hall⟩ := complete_sofiaMasks (meas := meas) htie ms lmax K.table hnb
  simp only [sofiaWith, hm] at hout
  cases hout
  intro c hc hsupp
  obtain ⟨A, B⟩ := c
  rw [mem_allConcepts, isConcept_iff] at hc
  obtain ⟨hA, hB⟩ := hc
  have hr : ∀ b ∈ B, b < K.table.width := by
    intro b hb; rw [← hB] at hb; exact intAll_lt K.table b hb
  have hmem := hall B hr (by rw [count_maskOf, hA]; exact hsupp)
  apply List.mem_map.mpr
  refine ⟨_, hmem, ?_⟩
  rw [conceptOf_maskOf K hwf]
  simp only [closureAttr, hA, hB]

/-- A decidable sufficient condition for "not binding": if the number of concepts meeting the threshold,
    plus one, is at most `L_max`, the pruning block never runs — for every tie order. -/
theorem sofia_nonbinding_of_count (K : Ctx) (tie : Tie) (htie : TieOK tie) (ms : MinSupp) (lmax : Nat)
    (hcnt : (Spec.C15.meeting K.table ms).length + 1 ≤ lmax) : neverBinds tie ms lmax K.table = true :=
  neverBinds_of_count htie hcnt

/-- The result has exactly one greatest and exactly one least element w.r.t. extent inclusion
    (what `ConceptLattice` needs to accept the list). -/
theorem sofia_is_lattice (K : Ctx) (hwf : K.table.WF) (tie : Tie) (htie : TieOK tie) (meas : Measure)
    (hmeas : MeasLen meas) (ms : MinSupp) (lmax : Nat) (out : List (List Nat × List Nat))
    (hout : sofiaWith tie meas ms lmax K = .ok out) :
    (∃ top ∈ out, (∀ c ∈ out, ∀ g ∈ c.1, g ∈ top.1) ∧
        ∀ c ∈ out, (∀ c' ∈ out, ∀ g ∈ c'.1, g ∈ c.1) → c = top) ∧
    (∃ bot ∈ out, (∀ c ∈ out, ∀ g ∈ bot.1, g ∈ c.1) ∧
        ∀ c ∈ out, (∀ c' ∈ out, ∀ g ∈ c.1, g ∈ c'.1) → c = bot) := by
  obtain ⟨masks, _, h, hinv⟩ := sofia_out K tie htie meas hmeas ms lmax
  rw [h] at hout; cases hout
  -- two returned concepts with the same members of the extent are the same concept
  have huniq : ∀ c ∈ masks.map (conceptOf K), ∀ d ∈ masks.map (conceptOf K),
      (∀ g, g ∈ c.1 ↔ g ∈ d.1) → c = d := by
    intro c hc d hd hcd
    obtain ⟨e, he, rfl⟩ := List.mem_map.mp hc
    obtain ⟨e', he', rfl⟩ := List.mem_map.mp hd
    obtain ⟨B, _, rfl⟩ := hinv.gen e he
    obtain ⟨B', _, rfl⟩ := hinv.gen e' he'
    simp only [conceptOf_maskOf K hwf] at hcd
    rw [maskOf_eq_of_extAll_eq K.table (extAll_eq_of_same_mem hcd)]
  constructor
  · obtain ⟨ys, hys⟩ := hinv.last
    have htop : conceptOf K (maskOf K.table []) ∈ masks.map (conceptOf K) :=
      List.mem_map.mpr ⟨_, by rw [hys]; simp, rfl⟩
    have hge : ∀ c ∈ masks.map (conceptOf K), ∀ g ∈ c.1, g ∈ (conceptOf K (maskOf K.table [])).1 := by
      intro c hc g hg
      obtain ⟨e, he, rfl⟩ := List.mem_map.mp hc
      obtain ⟨B, _, rfl⟩ := hinv.gen e he
      rw [conceptOf_maskOf K hwf] at hg ⊢
      exact extAll_antitone K.table (by simp) g hg
    refine ⟨_, htop, hge, ?_⟩
    intro c hc hmax
    exact huniq c hc _ htop (fun g => ⟨hge c hc g, hmax _ htop g⟩)
  · obtain ⟨tl, htl⟩ := hinv.head
    have hbot : conceptOf K (maskOf K.table (applied ms K.table [] (List.range K.table.width)))
        ∈ masks.map (conceptOf K) :=
      List.mem_map.mpr ⟨_, by rw [htl]; exact List.mem_cons_self, rfl⟩
    have hle : ∀ c ∈ masks.map (conceptOf K), ∀ g ∈
        (conceptOf K (maskOf K.table (applied ms K.table [] (List.range K.table.width)))).1, g ∈ c.1 := by
      intro c hc g hg
      obtain ⟨e, he, rfl⟩ := List.mem_map.mp hc
      obtain ⟨B, hB, rfl⟩ := hinv.gen e he
      rw [conceptOf_maskOf K hwf] at hg ⊢
      exact extAll_antitone K.table hB g hg
    refine ⟨_, hbot, hle, ?_⟩
    intro c hc hmin
    exact huniq c hc _ hbot (fun g => ⟨hmin _ hbot g, hle c hc g⟩)

/-- The model's answer passes the checker `failsC15` that the harness applies to the IMPLEMENTATION's
    answers (so the checker is satisfiable and not stricter than what is proved of the model). -/
theorem sofia_satisfies_checker (K : Ctx) (hwf : K.table.WF) (tie : Tie) (htie : TieOK tie)
    (meas : Measure) (hmeas : MeasLen meas) (ms : MinSupp) (lmax : Nat) (out : List (List Nat × List Nat))
    (hout : sofiaWith tie meas ms lmax K = .ok out) :
    Spec.C15.failsC15 K.table ms lmax out = [] := by
  have hsound := sofia_sound K hwf tie htie meas hmeas ms lmax out hout
  have hnd := (sofia_no_dup K hwf tie htie meas hmeas ms lmax out hout).1
  obtain ⟨⟨ys, hys⟩, c₀, rest, hc₀, hleast⟩ := sofia_top_and_least K hwf tie htie meas hmeas ms lmax out hout
  have hsupp := sofia_support K hwf tie htie meas hmeas ms lmax out hout
  have hlen := sofia_count_le K tie htie meas hmeas ms lmax out hout
  have c0 : (out.all fun c => isConcept K.table c.1 c.2) = true := by
    rw [List.all_eq_true]; intro c hc
    exact (mem_allConcepts K.table).mp (hsound c hc).1
  have c1 : ((out.map (·.1)).all fun A => closure K.table A == A) = true := by
    rw [List.all_eq_true]; intro A hA
    obtain ⟨c, hc, rfl⟩ := List.mem_map.mp hA
    simp [(hsound c hc).2]
  have c3 : (out.map (·.1)).contains (List.range K.table.height) = true := by
    rw [List.contains_iff_mem, hys]; simp
  have hleast' : ((out.map (·.1)).all fun A => subset c₀.1 A) = true := by
    rw [List.all_eq_true]; intro A hA
    obtain ⟨c, hc, rfl⟩ := List.mem_map.mp hA
    simp only [subset, List.all_eq_true, List.contains_iff_mem]
    exact hleast c hc
  have c4 : ((out.map (·.1)).any fun A0 => (out.map (·.1)).all fun A => subset A0 A) = true := by
    rw [List.any_eq_true]
    exact ⟨c₀.1, List.mem_map.mpr ⟨c₀, by rw [hc₀]; exact List.mem_cons_self, rfl⟩, hleast'⟩
  have c5 : ((out.map (·.1)).all fun A => A == List.range K.table.height
      || ((out.map (·.1)).all fun A' => subset A A') || Spec.C15.meets ms K.table.height A) = true := by
    rw [List.all_eq_true]; intro A hA
    obtain ⟨c, hc, rfl⟩ := List.mem_map.mp hA
    rw [hc₀] at hc
    rcases List.mem_cons.mp hc with rfl | hc
    · simp [hleast']
    · have := hsupp c (by rw [hc₀]; exact hc)
      simp [Spec.C15.meets, this]
  have c7 : ((Spec.C15.meeting K.table ms).length + 1 ≤ lmax →
      ((Spec.C15.meeting K.table ms).all fun c => (out.map (·.1)).contains c.1) = true) := by
    intro hcnt
    have hnb := neverBinds_of_count (tie := tie) htie hcnt
    have hall := sofia_nonbinding_all K hwf tie htie meas ms lmax hnb out hout
    rw [List.all_eq_true]; intro c hc
    simp only [Spec.C15.meeting, List.mem_filter, Spec.C15.meets, Bool.not_eq_true'] at hc
    rw [List.contains_iff_mem]
    exact List.mem_map.mpr ⟨c, hall c hc.1 hc.2, rfl⟩
  unfold Spec.C15.failsC15 Spec.C15.failsPairs
  rw [if_pos c0, failsExt_eq_nil c1 hnd c3 c4 c5 (by simpa using hlen) c7]
  rfl

/-- For wide tables the driver enumerates the concepts through the transposed table; the verdict is the
    same as that of `failsC15`. -/
theorem checker_via_transpose (t : Table) (hwf : t.WF) (ms : MinSupp) (lmax : Nat)
    (out : List (List Nat × List Nat)) :
    Spec.C15.failsC15T t ms lmax out = Spec.C15.failsC15 t ms lmax out := by
  unfold Spec.C15.failsC15T Spec.C15.failsC15
  rw [failsExtT_eq hwf]

/-! ### decision trees and random forests -/

/-- `parse_decision_tree_to_extents` returns exactly the distinct sets of training rows reaching the
    nodes (the distinct column supports of the decision-path matrix), each once. -/
theorem tree_extents_distinct_columns (M : List (List Bool)) (w : Nat) :
    (treeExtents M w).Nodup ∧ ∀ A, A ∈ treeExtents M w ↔ ∃ j, j < w ∧ colSupport M j = A :=
  ⟨treeExtents_nodup M w, mem_treeExtents M w⟩

/-- The same miner on a `FormalContext` (and, generally, on any 0/1 context with any path matrix that has one row
    per object): the returned pairs are all formal concepts EXACTLY WHEN every node extent is closed.  Node extents of
    a tree fitted on a Boolean table are in general not closed — a left child collects the objects that do NOT have an
    attribute (`formal_path_not_genuine` below) — which is why the property speaks of many-valued contexts only. -/
theorem rf_formal_genuine_iff (K : Ctx) (hwf : K.table.WF) (M : List (List Bool)) (w : Nat)
    (hM : M.length = K.table.height) :
    (∀ c ∈ rfConcepts K M w, c ∈ allConcepts K.table) ↔
      ∀ j, j < w → closure K.table (colSupport M j) = colSupport M j := by
  have hint : ∀ A, (∀ g ∈ A, g < K.table.height) → K.intentionI A none = intAll K.table A := by
    intro A hA
    rw [C01.intention_i_exact K hwf A none hA (by intro bs h; cases h)]; rfl
  have hbot : K.extensionI (K.intentionI [] none) none = extAll K.table (intAll K.table []) := by
    rw [hint [] (by simp)]
    rw [C01.extension_i_exact K hwf _ none (intAll_lt K.table) (by intro bs h; cases h)]; rfl
  have hlt : ∀ j, ∀ g ∈ colSupport M j, g < K.table.height := by
    intro j g hg
    have := (List.mem_filter.mp hg).1
    rw [← hM]; exact List.mem_range.mp this
  constructor
  · intro h j hj
    have hmem : (colSupport M j, K.intentionI (colSupport M j) none) ∈ rfConcepts K M w := by
      simp only [rfConcepts, List.mem_map, List.mem_append, List.mem_singleton]
      exact ⟨_, Or.inl ((mem_treeExtents M w _).mpr ⟨j, hj, rfl⟩), rfl⟩
    have hc := h _ hmem
    rw [hint _ (hlt j), mem_allConcepts, isConcept_iff] at hc
    exact hc.1
  · intro hclosed c hc
    simp only [rfConcepts, List.mem_map, List.mem_append, List.mem_singleton] at hc
    obtain ⟨A, hA, rfl⟩ := hc
    rcases hA with hA | hA
    · obtain ⟨j, hj, rfl⟩ := (mem_treeExtents M w A).mp hA
      have hcl := hclosed j hj
      rw [hint _ (hlt j), mem_allConcepts]
      have := isConcept_of_objs K.table (hlt j)
      rw [hcl] at this; exact this
    · subst hA
      rw [hbot, hint _ (extAll_lt K.table), mem_allConcepts]
      have h0 : ∀ a ∈ intAll K.table [], a < K.table.width := intAll_lt K.table
      have := isConcept_of_attrs K.table h0
      simpa [closureAttr] using this

/-- What a node extent is: the rows reaching node `j` in the model's `decision_path` (per-row descent, compared with
    sklearn's matrix on every fitted tree) are exactly the rows of the matrix that pass every test `x[f] <= thr` (where the
    root-to-`j` path goes left) / `x[f] > thr` (where it goes right). -/
theorem tree_node_extent_is_path_tests (t : DL.Tree) (hok : RF.treeOK t t.n 0 = true) (X : DL.Rows) (j : Nat)
    (hj : j < t.n) :
    colSupport (RF.pathMatrix [t] X) j = (List.range X.length).filter fun g =>
      match RF.testsTo t j t.n 0 with
      | some ts => RF.passes (X.getD g []) ts
      | none => false :=
  RF.colSupport_eq_tests t hok X j hj

/-- Every node extent of a fitted forest — the rows of the context whose values pass every test `x[f] <= thr` /
    `x[f] > thr` on the way from the root to the node, i.e. a column support of `decision_path` — is closed in the
    interval pattern structure, when the cells are points: an object inside the coordinate-wise hull of the node's rows
    passes every half-space test that all of them pass. -/
theorem rf_node_extents_closed (D : RF.IRows) (k : Nat) (cast : Rat → Rat) (ts : List DL.Tree) (hk : 0 < k)
    (hrect : RF.rect D k = true) (hpt : RF.pointValued D = true) (hmono : RF.castMonoOn cast D = true)
    (hts : RF.forestOK ts = true) (j : Nat) :
    RF.closure D k (colSupport (RF.pathMatrix ts (RF.castRows cast (RF.toNumeric D))) j)
      = colSupport (RF.pathMatrix ts (RF.castRows cast (RF.toNumeric D))) j :=
  RF.colSupport_closed hk hrect hpt hmono hts j

/-- FULL for point-valued interval columns (numeric data; every float64 table, the trees being DATA of the model:
    any arrays `children_left/right, feature, threshold` in which the two subtrees of a node share no node, any
    number of trees, any monotone cast): every pair returned by `random_forest_concepts` is a genuine pattern concept
    of the context — `extension_i(intent) = extent` and `intent = intention_i(extent)` — and the concept of ALL objects
    is among them (the root of the first tree).  The extents are exactly the distinct node row sets plus
    `extension_i(intention_i([]))` (`tree_extents_distinct_columns`). -/
theorem rf_concepts_genuine (D : RF.IRows) (k : Nat) (cast : Rat → Rat) (ts : List DL.Tree) (hk : 0 < k)
    (hrect : RF.rect D k = true) (hpt : RF.pointValued D = true) (hmono : RF.castMonoOn cast D = true)
    (hts : RF.forestOK ts = true) :
    (∀ c ∈ RF.rfConceptsMV D k cast ts, RF.isPatternConcept D k c.1 c.2) ∧
    (∀ t rest, ts = t :: rest → 0 < t.n →
      (List.range D.length, RF.intentionI D k (List.range D.length)) ∈ RF.rfConceptsMV D k cast ts) := by
  constructor
  · intro c hc
    simp only [RF.rfConceptsMV, RF.rfExtents, List.mem_map, List.mem_append, List.mem_singleton] at hc
    obtain ⟨A, hA, rfl⟩ := hc
    refine ⟨?_, rfl⟩
    rcases hA with hA | hA
    · obtain ⟨j, _, rfl⟩ := (mem_treeExtents _ _ A).mp hA
      exact RF.colSupport_closed hk hrect hpt hmono hts j
    · subst hA
      have h0 : RF.extensionI D (RF.intentionI D k []) = [] := RF.closure_nil D k hk
      rw [h0]
      exact RF.closure_nil D k hk
  · intro t rest hts' hn
    simp only [RF.rfConceptsMV, RF.rfExtents, List.mem_map, List.mem_append, List.mem_singleton]
    refine ⟨_, Or.inl ((mem_treeExtents _ _ _).mpr ⟨0, ?_, ?_⟩), rfl⟩
    · rw [hts']; simp only [RF.nNodes, List.map_cons, List.sum_cons]; omega
    · have hlen := RF.pathMatrix_length D cast ts
      unfold colSupport
      rw [hlen]
      apply List.filter_eq_self.mpr
      intro g hg
      rw [RF.pathMatrix_entry D cast ts (List.mem_range.mp hg) 0, hts']
      simp only [RF.locate, hn, if_true]
      obtain ⟨tl, htl⟩ : ∃ tl, DL.pathFrom t (RF.numRow cast (D.getD g [])) t.n 0 = 0 :: tl := by
        cases hn' : t.n with
        | zero => omega
        | succ m =>
          unfold DL.pathFrom
          split
          · split
            · exact ⟨_, rfl⟩
            · split <;> exact ⟨_, rfl⟩
          · exact ⟨_, rfl⟩
      rw [htl]; simp

/-- What the driver evaluates on every case (`castTableOK`: the float32 table is listed with strictly increasing keys
    and non-decreasing images, and covers every number of the context) implies the monotonicity hypothesis of
    `rf_concepts_genuine`. -/
theorem rf_cast_table_mono (tbl : List (Rat × Rat)) (D : RF.IRows) (h : RF.castTableOK tbl D = true) :
    RF.castMonoOn (RF.castOfList tbl) D = true := RF.castMonoOn_of_table h

/-- The order in which scipy lists the rows of a node does not matter: the intent depends on the set of rows only. -/
theorem rf_intent_order_free (D : RF.IRows) (k : Nat) {A B : List Nat} (h : A.Perm B) :
    RF.intentionI D k A = RF.intentionI D k B := RF.intentionI_perm D k h

/-! ### the documented counterexamples -/

/-- D19 (known finding): with a PROPER interval cell the statement fails.  Context `[[(2,2)], [(1,2)]]`, one tree
    whose root tests `0_from <= 3/2`: the left child is reached by object 1 only, but the description of object 1 is
    `(1, 2)`, which also covers object 0 — the returned pair `([1], (1,2))` is not a pattern concept. -/
def d19Data : RF.IRows := [[(2, 2)], [(1, 2)]]
def d19Tree : DL.Tree := ⟨[1, -1, -1], [2, -1, -1], [0, -2, -2], [3 / 2, -2, -2], [0, 0, 0]⟩

theorem d19_proper_interval_not_genuine :
    RF.rect d19Data 1 = true ∧ RF.castMonoOn id d19Data = true ∧ RF.forestOK [d19Tree] = true ∧
    RF.pointValued d19Data = false ∧
    ([1], [some (1, 2)]) ∈ RF.rfConceptsMV d19Data 1 id [d19Tree] ∧
    RF.closure d19Data 1 [1] = [0, 1] := by decide +kernel

/-- The `FormalContext` path (outside the property): objects `{a}`, `{b}`, `{}` and a tree whose root tests
    `a <= 1/2`; the left child collects the objects WITHOUT attribute `a`, the returned pair `([1, 2], [])` is not a
    formal concept (the extent of `[]` is `[0, 1, 2]`). -/
def formalK : Ctx := ⟨.bitarray, Table.mk [[true, false], [false, true], [false, false]] 2, [], []⟩
def formalTree : DL.Tree := ⟨[1, -1, -1], [2, -1, -1], [0, -2, -2], [1 / 2, -2, -2], [0, 0, 0]⟩

theorem formal_path_not_genuine :
    ([1, 2], []) ∈ RF.rfConceptsFormal formalK [formalTree] ∧ ([1, 2], []) ∉ allConcepts formalK.table := by
  decide +kernel

/-! ### the hypotheses are satisfiable -/

example : TieOK (fun _ l => l) := fun _ _ => List.Perm.refl _
example : TieOK (fun i l => if i % 2 = 0 then l.reverse else l) := by
  intro i l
  by_cases h : i % 2 = 0
  · simp only [h, ↓reduceIte]; exact List.reverse_perm l
  · simp only [h, ↓reduceIte]; exact List.Perm.refl _
example : MeasLen boundLog := measLen_boundLog
example : (Table.mk [[true, false], [true, true], [false, true]] 2).WF := by decide
example : (Spec.C15.meeting (Table.mk [[true, false], [true, true], [false, true]] 2) ⟨0, 1⟩).length + 1 ≤ 5 := by
  decide
/-- a binding limit: 2×... context on which `L_max = 1` triggers the pruning block -/
example : neverBinds (fun _ l => l) ⟨0, 1⟩ 1 (Table.mk [[true, false], [true, true], [false, true]] 2) = false := by
  decide
example : neverBinds (fun _ l => l) ⟨0, 1⟩ 5 (Table.mk [[true, false], [true, true], [false, true]] 2) = true := by
  decide
example : (sofia (fun _ l => l) true ⟨0, 1⟩ 5
      ⟨.bitarray, Table.mk [[true, false], [true, true], [false, true]] 2, [], []⟩).toOption
    = some [([1], [0, 1]), ([0, 1], [0]), ([1, 2], [1]), ([0, 1, 2], [])] := by decide
/-- with a binding limit the middle concepts are pruned (both bounds) -/
example : (sofia (fun _ l => l) false ⟨0, 1⟩ 1
      ⟨.bitarray, Table.mk [[true, false], [true, true], [false, true]] 2, [], []⟩).toOption
    = some [([1], [0, 1]), ([0, 1, 2], [])] := by decide
/-- a point-valued context with two interval columns and a forest of two (identical) five-node trees meeting every
    hypothesis of `rf_concepts_genuine`, and what the model returns on it -/
def ptData : RF.IRows := [[(1, 1), (5, 5)], [(2, 2), (5, 5)], [(3, 3), (4, 4)]]
def ptTree : DL.Tree :=
  ⟨[1, -1, 3, -1, -1], [2, -1, 4, -1, -1], [0, -2, 3, -2, -2], [3 / 2, -2, 9 / 2, -2, -2], [0, 0, 0, 0, 0]⟩
example : RF.testsTo ptTree 3 ptTree.n 0 = some [(0, 3 / 2, false), (3, 9 / 2, true)] := by decide +kernel
example : RF.rect ptData 2 = true ∧ RF.pointValued ptData = true ∧ RF.castMonoOn id ptData = true ∧
    RF.forestOK [ptTree, ptTree] = true ∧
    RF.rfConceptsMV ptData 2 id [ptTree, ptTree] =
      [([0, 1, 2], [some (1, 3), some (4, 5)]), ([0], [some (1, 1), some (5, 5)]),
       ([1, 2], [some (2, 3), some (4, 5)]), ([2], [some (3, 3), some (4, 4)]),
       ([1], [some (2, 2), some (5, 5)]), ([], [none, none])] := by decide +kernel
/-- a cast that is monotone without being injective (two neighbouring values collapse, as in float32) -/
example : RF.castMonoOn (RF.castOfList [(2, 3)]) ptData = true := by decide +kernel
/-- a decision-path matrix whose node extents are closed in the 2-object nominal context -/
example : ∀ j, j < 3 → closure (Table.mk [[true, false], [false, true]] 2)
    (colSupport [[true, true, false], [true, false, true]] j) = colSupport [[true, true, false], [true, false, true]] j := by
  decide

end Fca.C15

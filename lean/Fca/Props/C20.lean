/-
  Props/C20 — a decision lattice converted from a regression tree predicts as the tree does;
  multiplying / dividing by a constant scales the predictions and leaves the original unchanged.

  Only property theorems live here; helper lemmas are in `Fca/Lemmas/DecisionLattice.lean`.
  Numbers are exact rationals; "up to floating-point rounding" of the property is the harness' tolerance.

  `nxt : Rat → Rat` is the map `thr ↦ right_from` of `_parse_dt_arrays_to_drules`, the left end of the right child's
  closed interval: `np.nextafter(thr, inf)` in the code's default mode (`eps=None`), `thr + eps` (`nxtEps eps`) for an
  explicit numeric `eps`.  The theorems hold for EVERY `nxt`; all they ask of it (inside the decidable `wellFormed`)
  is `thr < nxt thr` and that no row value of the split feature lies strictly between `thr` and `nxt thr` — which is
  true of every float64 value when `nxt` is the successor on the float64 grid.  There is no separation hypothesis.
-/
import Fca.Model.DecisionLattice
import Fca.Lemmas.DecisionLattice
import Fca.Lemmas.DecisionLatticeTrace
import Fca.Lemmas.DecisionLatticeTree
import Fca.Lemmas.DecisionLatticeConv
import Fca.Lemmas.DecisionLatticeConv2
import Fca.Lemmas.DecisionLatticeCtx
import Fca.Lemmas.DecisionLatticeScale
namespace Fca.C20
open Fca Fca.DL

/-! ### scaling -/

/-- `(DL * c).predict = c · DL.predict` and, for `c ≠ 0`, `(DL / c).predict = DL.predict / c`
    (errors, if any, are the same), for EVERY decision lattice, context and record order. -/
theorem dl_scale (L : DLat) (X : Rows) (m : Nat) (order : List GenRec → List GenRec) (c : Rat) :
    predict (mul L c).2 X m order = (predict L X m order).map (List.map (· * c)) ∧
    (c ≠ 0 → ∃ r, truediv L c = some r ∧
        predict r.2 X m order = (predict L X m order).map (List.map (· / c))) := by
  refine ⟨predict_imul L X m order c, ?_⟩
  intro hc
  refine ⟨mul L (1 / c), by simp [truediv, hc], ?_⟩
  have h := predict_imul L X m order (1 / c)
  have hfun : (fun v : Rat => v * (1 / c)) = (fun v : Rat => v / c) := by
    funext v
    rw [Rat.div_def, Rat.div_def, Rat.one_mul]
  rw [hfun] at h
  exact h

/-- `DL * c` and `DL / c` leave the original unchanged (first component = `self` after the call),
    and the result's lattice is the original's (only the decisions are scaled).
    The model is pure, so object identity does not exist in it: that the returned Python object is a fresh copy
    (not `self`, no shared `_decisions` / lattice / generator dictionary, also for the neutral constants `1`, `1.0`, `-1`)
    and that later in-place `*=` / `/=` on the result leave the original's decisions and predictions untouched is
    checked by the harness on every case (two-step histories `p = DL*c; p *= k1; p /= k2`, `q = DL/c; q /= k2; q *= k1`). -/
theorem dl_scale_pure (L : DLat) (c : Rat) :
    (mul L c).1 = L ∧ (mul L c).2.lat = L.lat ∧ (∀ r, truediv L c = some r → r.1 = L ∧ r.2.lat = L.lat) := by
  refine ⟨rfl, rfl, ?_⟩
  intro r h
  unfold truediv at h
  split at h
  · cases h
  · cases h; exact ⟨rfl, rfl⟩

/-! ### the tree side: telescoping and the one-step path characterisation -/

/-- Telescoping core: for every well-formed tree and every row, the node deltas (`dtargets`: root value,
    then child value − parent value) along the row's root-to-leaf path add up to the tree's prediction. -/
theorem telescoping_core (t : Tree) (X : Rows) (m : Nat) (nxt : Rat → Rat) (hwf : wellFormed t X m nxt = true)
    (x : List Rat) :
    sumR ((pathFrom t x t.n 0).map (delta t)) = treePredict t x := by
  obtain ⟨hlen, hnode⟩ := wf_parts hwf
  exact telescope t X m nxt hlen hnode x

/-- Path characterisation, one tracing step: at an internal node `i` of a well-formed tree, the extension of
    the left (right) child's generator `(-∞, thr]` (`[nxt thr, ∞)`) inside ANY base set of context rows is exactly
    the rows of the base whose descent step at `i` goes to that child. -/
theorem trace_step_exact (t : Tree) (X : Rows) (m : Nat) (nxt : Rat → Rat) (hwf : wellFormed t X m nxt = true)
    (i : Nat) (l r f : Int) (thr : Rat)
    (h1 : t.left[i]? = some l) (h2 : t.right[i]? = some r) (h3 : t.feature[i]? = some f)
    (h4 : t.threshold[i]? = some thr) (hl : ¬ l = -1)
    (base : List Nat) (hbase : ∀ g ∈ base, g < nObjects X) :
    extensionI X m [(f, directDescr t nxt l.toNat thr)] (some base)
        = .ok (base.filter fun g => descend t (X.getD g []) 1 i == l.toNat) ∧
    extensionI X m [(f, directDescr t nxt r.toNat thr)] (some base)
        = .ok (base.filter fun g => descend t (X.getD g []) 1 i == r.toNat) :=
  trace_step t X m nxt hwf i l r f thr h1 h2 h3 h4 hl base hbase

/-- The parser's `dtargets` are exactly the node deltas (root value, then child value − parent value, the parent
    being the one the left/right dictionaries recover) and `direct_parents` is `[None] + parents`. -/
theorem parse_deltas_exact (t : Tree) (m : Nat) (nxt : Rat → Rat) (r : Rules) (hn : 0 < t.n)
    (h : parse t m nxt = .ok r) :
    r.dtargets = (List.range t.n).map (delta t) ∧
    r.dparents = none :: ((List.range t.n).drop 1).map (parentOf t) :=
  parse_dtargets_eq t m nxt r hn h

/-! ### the composed statement -/

/-- FULL.  For every successor map `nxt`, every well-formed tree (`wellFormed`, decidable; its only demand on the
    numbers is the grid hypothesis `thr < nxt thr ∧ ∀ row value v of the split feature, v ≤ thr ∨ nxt thr ≤ v`, met
    by every float64 table when `nxt = nextafter`), every context, the decision lattice `L` the
    converter returns for it, and every iteration order of the set of generator records: `trace_context`
    terminates without error within `len(lattice)` iterations, its de-duplicated generator records are —
    for every row — exactly the nodes on the row's root-to-leaf path (`tracePathOK`), the decision stored under
    each record's key is that node's delta (`traceKeysOK`), and therefore `predict` returns for every object of
    the context exactly the value the tree predicts (standard descent `x[feature] ≤ threshold → left`).

    `hconv` names the converter's result; that the converter does not raise on a fitted tree (no
    `AssertionError` from `generators_to_description`, unique top/bottom of the lattice) is not part of this
    statement — the run observes it on every explored tree. -/
theorem dl_predict_eq_tree (t : Tree) (X : Rows) (m : Nat) (nxt : Rat → Rat)
    (hwf : wellFormed t X m nxt = true) (L : DLat) (hconv : fromDecisionTree t X m nxt = .ok L)
    (order : List GenRec → List GenRec) (horder : ∀ l, (order l).Perm l) :
    ∃ recs preds, traceContext L.lat X m order = .ok recs ∧
      tracePathOK t X recs = true ∧ traceKeysOK t L.decisions recs = true ∧
      predict L X m order = .ok preds ∧ preds.length = nObjects X ∧
      ∀ g < nObjects X, preds.getD g 0 = treePredict t (X.getD g []) := by
  obtain ⟨recs, htrace, hpath, hkeys⟩ := tracePathOK_of_conv t X m nxt L hwf hconv order horder
  obtain ⟨preds, h1, h2, h3⟩ := predict_of_trace t X m nxt hwf L order recs htrace hkeys hpath
  exact ⟨recs, preds, htrace, hpath, hkeys, h1, h2, h3⟩

/-- FULL, unconditional form.  For every well-formed tree that is *fitted* on the context (`fitted`, decidable:
    every node is reached by at least one row — true of any sklearn tree grown on rows of the context,
    bootstrapped or not): the converter does not raise (`parse` finds every parent, no `AssertionError` from
    `generators_to_description`, every accumulated premise describes exactly the rows passing its node, the
    bottom completion and its assert go through, the concept list has a unique top and bottom), and the
    resulting decision lattice predicts, for every object of the context, exactly the tree's value. -/
theorem dl_converted_predicts (t : Tree) (X : Rows) (m : Nat) (nxt : Rat → Rat)
    (hwf : wellFormed t X m nxt = true) (hfit : fitted t X = true)
    (order : List GenRec → List GenRec) (horder : ∀ l, (order l).Perm l) :
    ∃ L preds, fromDecisionTree t X m nxt = .ok L ∧ predict L X m order = .ok preds ∧
      preds.length = nObjects X ∧ ∀ g < nObjects X, preds.getD g 0 = treePredict t (X.getD g []) := by
  obtain ⟨L, hL⟩ := conversion_ok hwf hfit
  obtain ⟨_, preds, _, _, _, h1, h2, h3⟩ := dl_predict_eq_tree t X m nxt hwf L hL order horder
  exact ⟨L, preds, hL, h1, h2, h3⟩

/-- FULL, the explicit-`eps` mode (`_parse_dtsklearn_to_direct_drules(dt, context, eps=<number>)`, the only mode
    before the repair of D23): the instance `nxt thr = thr + eps` of `dl_predict_eq_tree`, under the former
    hypothesis `wellFormedEps` — `0 < eps` and every threshold separates the row values of its feature by at least
    `eps` (`v ≤ thr ∨ thr + eps ≤ v`).  Unlike the grid hypothesis of the default mode this one does restrict the
    data: it fails for an object with `thr < v < thr + eps` and, in float arithmetic, wherever `thr + eps == thr`. -/
theorem dl_predict_eq_tree_eps (t : Tree) (X : Rows) (m : Nat) (eps : Rat)
    (hwf : wellFormedEps t X m eps = true) (L : DLat) (hconv : fromDecisionTree t X m (nxtEps eps) = .ok L)
    (order : List GenRec → List GenRec) (horder : ∀ l, (order l).Perm l) :
    ∃ recs preds, traceContext L.lat X m order = .ok recs ∧
      tracePathOK t X recs = true ∧ traceKeysOK t L.decisions recs = true ∧
      predict L X m order = .ok preds ∧ preds.length = nObjects X ∧
      ∀ g < nObjects X, preds.getD g 0 = treePredict t (X.getD g []) :=
  dl_predict_eq_tree t X m (nxtEps eps) (wellFormed_of_eps hwf) L hconv order horder

/-! ### predicting a context other than the one the lattice was converted on -/

/-- FULL.  The decision lattice `L` converted on a context `X` predicts as the tree on EVERY context `X'` over the same
    columns — held-out objects, a test set, a context with more or fewer objects, the empty context — not only on `X`
    itself: `trace_context(X')` terminates without error, its records are per row of `X'` the nodes of the row's
    root-to-leaf path carrying the node deltas, and `predict(X')` is the tree's value for every object of `X'`.
    The only hypothesis about `X'` is `wellFormed t X' m nxt` (rows of width `m`; the number-grid condition, which every
    float64 table meets when `nxt = nextafter`); `X` needs no hypothesis beyond the conversion having succeeded.
    `dl_predict_eq_tree` is the instance `X' = X`.  (What is read again from the concepts of `X` during the trace is
    only their `support`, to order the worklist; the order does not change the records.) -/
theorem dl_predict_other_context (t : Tree) (X X' : Rows) (m : Nat) (nxt : Rat → Rat)
    (hwf' : wellFormed t X' m nxt = true) (L : DLat) (hconv : fromDecisionTree t X m nxt = .ok L)
    (order : List GenRec → List GenRec) (horder : ∀ l, (order l).Perm l) :
    ∃ recs preds, traceContext L.lat X' m order = .ok recs ∧
      tracePathOK t X' recs = true ∧ traceKeysOK t L.decisions recs = true ∧
      predict L X' m order = .ok preds ∧ preds.length = nObjects X' ∧
      ∀ g < nObjects X', preds.getD g 0 = treePredict t (X'.getD g []) := by
  obtain ⟨recs, htrace, hpath, hkeys⟩ := tracePathOK_of_conv_ctx t X X' m nxt L hwf' hconv order horder
  obtain ⟨preds, h1, h2, h3⟩ := predict_of_trace t X' m nxt hwf' L order recs htrace hkeys hpath
  exact ⟨recs, preds, htrace, hpath, hkeys, h1, h2, h3⟩

/-- FULL, unconditional form of the above: a tree fitted on (rows of) `X` is converted without an exception, and the
    result — and, by `dl_scale`, each of its multiples and quotients, scaled — predicts the tree's value for every
    object of every well-formed context `X'`. -/
theorem dl_converted_predicts_anywhere (t : Tree) (X X' : Rows) (m : Nat) (nxt : Rat → Rat)
    (hwf : wellFormed t X m nxt = true) (hfit : fitted t X = true) (hwf' : wellFormed t X' m nxt = true)
    (order : List GenRec → List GenRec) (horder : ∀ l, (order l).Perm l) (c : Rat) :
    ∃ L preds, fromDecisionTree t X m nxt = .ok L ∧ predict L X' m order = .ok preds ∧
      preds.length = nObjects X' ∧ (∀ g < nObjects X', preds.getD g 0 = treePredict t (X'.getD g [])) ∧
      predict (mul L c).2 X' m order = .ok (preds.map (· * c)) := by
  obtain ⟨L, hL⟩ := conversion_ok hwf hfit
  obtain ⟨_, preds, _, _, _, h1, h2, h3⟩ := dl_predict_other_context t X X' m nxt hwf' L hL order horder
  refine ⟨L, preds, hL, h1, h2, h3, ?_⟩
  rw [(dl_scale L X' m order c).1, h1]
  rfl

/-! ### homogeneity in the targets -/

/-- FULL.  The converter is homogeneous in the targets: for EVERY tree (no hypothesis), every context and every constant
    `c` — tiny, huge, zero or negative — converting the tree whose node values are all multiplied by `c`
    (`scaleTargets`) gives exactly `dl *= c` of the conversion of the original tree: the same lattice and generators,
    every decision (node delta) multiplied by `c`, none dropped, none rounded; the same exception if the original raises.
    Consequently its predictions on any context are `c` times the original's (errors the same), and the tree's own
    predictions scale the same way.  There is no scale of the targets below which a non-zero delta "does not count":
    a converter that drops or rounds small deltas contradicts this statement at `c = 2⁻³⁰`. -/
theorem dl_target_homogeneous (t : Tree) (c : Rat) (X X' : Rows) (m : Nat) (nxt : Rat → Rat)
    (order : List GenRec → List GenRec) :
    fromDecisionTree (scaleTargets t c) X m nxt = (fromDecisionTree t X m nxt).map (fun L => imul L c) ∧
    (∀ L, fromDecisionTree t X m nxt = .ok L →
        ∃ L', fromDecisionTree (scaleTargets t c) X m nxt = .ok L' ∧ L'.lat = L.lat ∧
          L'.decisions = L.decisions.map (fun kv => (kv.1, kv.2 * c)) ∧
          predict L' X' m order = (predict L X' m order).map (List.map (· * c))) ∧
    (∀ x, treePredict (scaleTargets t c) x = treePredict t x * c) := by
  refine ⟨fromDecisionTree_scale t c X m nxt, ?_, treePredict_scale t c⟩
  intro L hL
  refine ⟨imul L c, ?_, rfl, rfl, predict_imul L X' m order c⟩
  rw [fromDecisionTree_scale, hL]
  rfl

/-! ### non-vacuity: a concrete fitted tree (5 nodes, depth 2) meets every hypothesis — in both modes -/

private def exT : Tree :=
  { left := [1, 2, -1, -1, -1], right := [4, 3, -1, -1, -1], feature := [0, 0, -2, -2, -2],
    threshold := [5/2, 1/2, -2, -2, -2], value := [16/5, 2, 0, 8/3, 8] }
private def exX : Rows := [[0, 1], [1, 1], [2, 0], [3, 1/2], [1, 2]]

/-- default mode: the float64 successors of the two thresholds, `nextafter(2.5) = 2.5 + 2⁻⁵¹` and
    `nextafter(0.5) = 0.5 + 2⁻⁵³` -/
private def exNxt : Rat → Rat :=
  nxtOfList [(5/2, 5/2 + 1 / 2251799813685248), (1/2, 1/2 + 1 / 9007199254740992)]

/-- the rows of `exX` plus objects the tree was not grown on: one exactly on each threshold and one exactly one
    float64 ulp above each threshold -/
private def exXulp : Rows :=
  exX ++ [[5/2, 0], [5/2 + 1 / 2251799813685248, 0], [1/2, 7], [1/2 + 1 / 9007199254740992, 7]]

example : wellFormed exT exX 2 exNxt = true := by decide +kernel
example : wellFormed exT exXulp 2 exNxt = true := by decide +kernel
example : fitted exT exX = true := by decide +kernel
example : fitted exT exXulp = true := by decide +kernel

example : (match fromDecisionTree exT exXulp 2 exNxt with
    | .ok L =>
      (match traceContext L.lat exXulp 2 id with
       | .ok recs => traceKeysOK exT L.decisions recs && tracePathOK exT exXulp recs && decide (recs.length = 5)
       | .error _ => false)
    | .error _ => false) = true := by decide +kernel

/-- a context of held-out objects only (none of the rows the tree was grown on): on each threshold, one float64 ulp
    above each threshold, and far away -/
private def exXnew : Rows :=
  [[5/2, 0], [5/2 + 1 / 2251799813685248, 0], [1/2, 7], [1/2 + 1 / 9007199254740992, 7], [-100, 3], [100, 3]]

example : wellFormed exT exXnew 2 exNxt = true := by decide +kernel
example : wellFormed exT [] 2 exNxt = true := by decide +kernel

/-- converted on `exX`, traced on `exXnew`: all five nodes are reached, the trace is path-exact -/
example : (match fromDecisionTree exT exX 2 exNxt with
    | .ok L =>
      (match traceContext L.lat exXnew 2 id with
       | .ok recs => traceKeysOK exT L.decisions recs && tracePathOK exT exXnew recs && decide (recs.length = 5)
       | .error _ => false)
    | .error _ => false) = true := by decide +kernel

/-- explicit-`eps` mode with the code's former default `eps = 1e-9` -/
private def exEps : Rat := 1 / 1000000000

example : wellFormedEps exT exX 2 exEps = true := by decide +kernel
example : wellFormed exT exX 2 (nxtEps exEps) = true := by decide +kernel
/-- ... and the separation hypothesis of that mode really restricts the data: one ulp above a threshold fails it -/
example : wellFormedEps exT exXulp 2 exEps = false := by decide +kernel

example : (match fromDecisionTree exT exX 2 (nxtEps exEps) with
    | .ok L =>
      (match traceContext L.lat exX 2 id with
       | .ok recs => traceKeysOK exT L.decisions recs && tracePathOK exT exX recs && decide (recs.length = 5)
       | .error _ => false)
    | .error _ => false) = true := by decide +kernel

end Fca.C20

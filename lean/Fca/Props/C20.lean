/-
  Props/C20 — a decision lattice converted from a regression tree predicts as the tree does;
  multiplying / dividing by a constant scales the predictions and leaves the original unchanged.

  Only property theorems live here; helper lemmas are in `Fca/Lemmas/DecisionLattice.lean`.
  Numbers are exact rationals; "up to floating-point rounding" of the property is the harness' tolerance.
-/
import Fca.Model.DecisionLattice
import Fca.Lemmas.DecisionLattice
namespace Fca.C20
open Fca Fca.DL

/-! ### scaling -/

/-- `(DL * c).predict = c · DL.predict` and, for `c ≠ 0`, `(DL / c).predict = DL.predict / c`
    (errors, if any, are the same), for EVERY decision lattice, context and record order. -/
theorem dl_scale (L : DLat) (X : Rows) (m : Nat) (order : List GenRec → List GenRec) (c : Rat) :
    predict (mul L c).2 X m order = (predict L X m order).map (List.map (· * c)) ∧
    (c ≠ 0 → ∃ r, truediv L c = some r ∧
        predict r.2 X m order = (predict L X m order).map (List.map (· / c))) := by
  refine ⟨predict_imul L X m order c, ?_⟩
  intro hc
  refine ⟨mul L (1 / c), by simp [truediv, hc], ?_⟩
  have h := predict_imul L X m order (1 / c)
  have hfun : (fun v : Rat => v * (1 / c)) = (fun v : Rat => v / c) := by
    funext v
    rw [Rat.div_def, Rat.div_def, Rat.one_mul]
  rw [hfun] at h
  exact h

/-- `DL * c` and `DL / c` leave the original unchanged (first component = `self` after the call),
    and the result's lattice is the original's (only the decisions are scaled). -/
theorem dl_scale_pure (L : DLat) (c : Rat) :
    (mul L c).1 = L ∧ (mul L c).2.lat = L.lat ∧ (∀ r, truediv L c = some r → r.1 = L ∧ r.2.lat = L.lat) := by
  refine ⟨rfl, rfl, ?_⟩
  intro r h
  unfold truediv at h
  split at h
  · cases h
  · cases h; exact ⟨rfl, rfl⟩

/-! ### the tree side: telescoping and the one-step path characterisation -/

/-- Telescoping core: for every well-formed tree and every row, the node deltas (`dtargets`: root value,
    then child value − parent value) along the row's root-to-leaf path add up to the tree's prediction. -/
theorem telescoping_core (t : Tree) (X : Rows) (m : Nat) (eps : Rat) (hwf : wellFormed t X m eps = true)
    (x : List Rat) :
    sumR ((pathFrom t x t.n 0).map (delta t)) = treePredict t x := by
  obtain ⟨hlen, _, hnode⟩ := wf_parts hwf
  exact telescope t X m eps hlen hnode x

/-- Path characterisation, one tracing step: at an internal node `i` of a well-formed tree, the extension of
    the left (right) child's generator `(-∞, thr]` (`[thr+eps, ∞)`) inside ANY base set of context rows is exactly
    the rows of the base whose descent step at `i` goes to that child. -/
theorem trace_step_exact (t : Tree) (X : Rows) (m : Nat) (eps : Rat) (hwf : wellFormed t X m eps = true)
    (i : Nat) (l r f : Int) (thr : Rat)
    (h1 : t.left[i]? = some l) (h2 : t.right[i]? = some r) (h3 : t.feature[i]? = some f)
    (h4 : t.threshold[i]? = some thr) (hl : ¬ l = -1)
    (base : List Nat) (hbase : ∀ g ∈ base, g < nObjects X) :
    extensionI X m [(f, directDescr t eps l.toNat thr)] (some base)
        = .ok (base.filter fun g => descend t (X.getD g []) 1 i == l.toNat) ∧
    extensionI X m [(f, directDescr t eps r.toNat thr)] (some base)
        = .ok (base.filter fun g => descend t (X.getD g []) 1 i == r.toNat) := by
  obtain ⟨hlen, heps, hnode⟩ := wf_parts hwf
  have hi : i < t.n := by rw [← hlen]; exact (List.getElem?_eq_some_iff.mp h1).1
  obtain ⟨a1, a3, a6, a7, a8, _, a10, _, a12⟩ := wfNode_internal (hnode i hi) h1 h2 h3 h4 hl
  have hne : l.toNat ≠ r.toNat := by
    have := hnode i hi
    simp only [wfNode, h1, h2, h3, h4] at this
    simp only [Bool.or_eq_true, Bool.and_eq_true, beq_iff_eq, decide_eq_true_eq, bne_iff_ne, ne_eq] at this
    rcases this with hh | hh
    · exact absurd hh.1 hl
    · have hlr : l ≠ r := hh.1.1.1.1.1.1.1.2
      omega
  have hstep : ∀ g, descend t (X.getD g []) 1 i
      = if (X.getD g []).getD f.toNat 0 ≤ thr then l.toNat else r.toNat := by
    intro g
    simp only [descend, h1, h2, h3, h4, if_neg hl]
  constructor
  · rw [extensionI_single X m f _ base a6 a7]
    congr 1
    apply List.filter_congr
    intro g _
    simp only [directDescr, a10, if_true, sat_left, hstep, cell]
    by_cases hx : (X.getD g []).getD f.toNat 0 ≤ thr
    · rw [if_pos hx, decide_eq_true hx]; simp
    · rw [if_neg hx, decide_eq_false hx]; simp [Ne.symm hne]
  · rw [extensionI_single X m f _ base a6 a7]
    congr 1
    apply List.filter_congr
    intro g hg
    have hrow : X.getD g [] ∈ X := by
      have hlt : g < X.length := hbase g hg
      simp [List.getD_eq_getElem?_getD, List.getElem?_eq_getElem hlt]
    simp only [directDescr, a12, Bool.false_eq_true, if_false, hstep, cell]
    rw [sat_right thr eps _ heps (a8 _ hrow)]
    by_cases hx : (X.getD g []).getD f.toNat 0 ≤ thr
    · rw [if_pos hx, decide_eq_true hx]; simp [hne]
    · rw [if_neg hx, decide_eq_false hx]; simp

/-- The parser's `dtargets` are exactly the node deltas (root value, then child value − parent value, the parent
    being the one the left/right dictionaries recover) and `direct_parents` is `[None] + parents`. -/
theorem parse_deltas_exact (t : Tree) (m : Nat) (eps : Rat) (r : Rules) (hn : 0 < t.n)
    (h : parse t m eps = .ok r) :
    r.dtargets = (List.range t.n).map (delta t) ∧
    r.dparents = none :: ((List.range t.n).drop 1).map (parentOf t) :=
  parse_dtargets_eq t m eps r hn h

/-! ### the composed statement -/

/-- PARTIAL.  For every well-formed tree, every decision lattice `L` and every record order: if the model's
    `trace_context` run returns records `recs` such that
      (a) `traceKeysOK`: the decision stored under each traced record's key `(sup, concept, gen)` is the node
          delta `delta t concept`, and
      (b) `tracePathOK`: for every row the records containing it are exactly the nodes of its root-to-leaf path,
    then `predict` returns, for every object of the context, the value the tree predicts.

    Missing for the FULL `dl_predict_eq_tree` (no hypotheses (a), (b) for `L = fromDecisionTree t X m eps`):
    the loop invariant of the queue-driven `traceLoop`/`storedExt` (caches, visiting order) that lifts
    `trace_step_exact` to (b), and the inversion of `parse`/`mkDecisions` that gives (a).  Both hypotheses are
    decidable; the driver evaluates them on every explored case (`hyps` in the reply) and the run fails if one
    is false. -/
theorem dl_predict_eq_tree_partial (t : Tree) (X : Rows) (m : Nat) (eps : Rat)
    (hwf : wellFormed t X m eps = true) (L : DLat) (order : List GenRec → List GenRec)
    (recs : List GenRec) (htrace : traceContext L.lat X m order = .ok recs)
    (hkeys : traceKeysOK t L.decisions recs = true) (hpath : tracePathOK t X recs = true) :
    ∃ preds, predict L X m order = .ok preds ∧ preds.length = nObjects X ∧
      ∀ g < nObjects X, preds.getD g 0 = treePredict t (X.getD g []) := by
  have hk : ∀ r ∈ recs, alGet L.decisions ⟨r.sup, r.concept, r.gen⟩ = some (delta t r.concept) := by
    intro r hr
    have := List.all_eq_true.mp hkeys r hr
    simpa using this
  obtain ⟨res, h1, h2, h3⟩ := sumDiff_spec L.decisions (delta t) recs hk (List.replicate (nObjects X) 0)
  refine ⟨res, ?_, ?_, ?_⟩
  · simp only [predict, htrace]; exact h1
  · simpa using h2
  · intro g hg
    have hp := List.all_eq_true.mp hpath g (List.mem_range.mpr hg)
    have hperm := of_decide_eq_true hp
    rw [h3 g (by simpa using hg)]
    rw [sumR_perm (hperm.map (delta t)), telescoping_core t X m eps hwf]
    simp [List.getD_eq_getElem?_getD, hg, Rat.zero_add]

/-! ### non-vacuity: a concrete fitted tree (5 nodes, depth 2) meets every hypothesis -/

private def exT : Tree :=
  { left := [1, 2, -1, -1, -1], right := [4, 3, -1, -1, -1], feature := [0, 0, -2, -2, -2],
    threshold := [5/2, 1/2, -2, -2, -2], value := [16/5, 2, 0, 8/3, 8] }
private def exX : Rows := [[0, 1], [1, 1], [2, 0], [3, 1/2], [1, 2]]
private def exEps : Rat := 1 / 1000000000

example : wellFormed exT exX 2 exEps = true := by decide +kernel

example : (match fromDecisionTree exT exX 2 exEps with
    | .ok L =>
      (match traceContext L.lat exX 2 id with
       | .ok recs => traceKeysOK exT L.decisions recs && tracePathOK exT exX recs && decide (recs.length = 5)
       | .error _ => false)
    | .error _ => false) = true := by decide +kernel

end Fca.C20

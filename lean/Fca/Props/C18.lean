/-
  Props/C18 — the minimal-generator search returns exactly the minimum-size generators.

  Only property theorems live here; helper lemmas are in `Fca/Lemmas/MinGen.lean`, the meaning of
  "minimum generator" (`Spec.IsGen`, `Spec.IsMinGen`, `Spec.clBase`) in `Fca/Spec/MinGen.lean`.

  Class H7 ("length is not fullness"): `is_min_gen_args_as_sets`, `min_gens_args_as_sets`,
  `min_gens_full_base_objects`, `min_gens_names_args_as_sets` (formal routine) and
  `mv_same_extension_as_set`, `mv_gens_same_extension_as_set`, `mv_gens_same_extension_frozenset`
  (many-valued routine): every index / name argument is read as the SET of its members.
-/
import Fca.Model.MinGen
import Fca.Spec.MinGen
import Fca.Lemmas.MinGen
import Fca.Lemmas.MinGenMV
namespace Fca.C18
open Fca

/-- **C18, index version.**  For a well-formed table (any backend), ANY `intent`, an in-range
    duplicate-free base generator `bg` and in-range base objects `bo` (`None` = all objects),
    `get_minimal_generators_i(intent, bg, bo)` returns — each exactly once — the strictly ascending
    attribute tuples `S` with `bg ⊆ S`, `cl_bo S = intent` (as sets; extension inside `bo`, intention over
    all attributes) and `|S|` minimum among all such attribute sets; nothing else. -/
theorem min_gens_exact (K : Ctx) (hwf : K.table.WF) (intent bg : List Nat) (bo : Option (List Nat))
    (hbg : C01.InRange bg K.nAttributes) (hbgn : bg.Nodup) (hbo : C01.BaseInRange bo K.nObjects) :
    ∃ R, K.getMinimalGeneratorsI intent (some bg) bo = .ok R ∧ R.Nodup ∧
      ∀ S, S ∈ R ↔ Spec.IsMinGen K.table intent bg (bo.getD (List.range K.nObjects)) S := by
  have hdef : K.getMinimalGeneratorsI intent (some bg) bo
      = K.getMinimalGeneratorsI intent (some bg) (some (bo.getD (List.range K.nObjects))) := by
    cases bo <;> rfl
  have hbo' : ∀ g ∈ bo.getD (List.range K.nObjects), g < K.nObjects := by
    cases bo with
    | none => intro g hg; exact List.mem_range.mp hg
    | some bs => exact hbo bs rfl
  rw [hdef]
  generalize bo.getD (List.range K.nObjects) = bo at hbo'
  have hbo := hbo'
  refine ⟨K.minGenLoop intent bg bo (K.attrsToIterate bg)
    (List.range ((K.attrsToIterate bg).length + 1)) [], rfl, nodup_minGenLoop .., ?_⟩
  intro S
  rw [mem_minGenLoop_range]
  have hattr : ∀ D : List Nat, D.Sublist (K.attrsToIterate bg) → ∀ a ∈ D, a < K.nAttributes :=
    fun D hD a ha => (mem_attrsToIterate.mp (hD.subset ha)).1
  constructor
  · rintro ⟨D, hD, hT, hmin, rfl⟩
    have hcl := (genTest_iff K hwf intent bg bo D hbg (hattr D hD) hbo).mp hT
    obtain ⟨hgen, hlen⟩ := isGen_of_completion K intent bg bo D hbgn hbg hD hcl
    refine ⟨hgen, ?_⟩
    intro S' hS'
    obtain ⟨hD', _, hcl', hlen'⟩ := completion_of_isGen K intent bg bo S' hbgn hS'
    have := hmin _ hD' ((genTest_iff K hwf intent bg bo _ hbg (hattr _ hD') hbo).mpr hcl')
    omega
  · rintro ⟨hgen, hmin⟩
    obtain ⟨hD, hsorted, hcl, hlen⟩ := completion_of_isGen K intent bg bo S hbgn hgen
    refine ⟨_, hD, (genTest_iff K hwf intent bg bo _ hbg (hattr _ hD) hbo).mpr hcl, ?_, hsorted.symm⟩
    intro D' hD' hT'
    have hcl' := (genTest_iff K hwf intent bg bo D' hbg (hattr D' hD') hbo).mp hT'
    obtain ⟨hgen', hlen'⟩ := isGen_of_completion K intent bg bo D' hbgn hbg hD' hcl'
    have := hmin _ hgen'
    omega

/-- the default `base_objects_i=None` is the list of all objects, in context order -/
theorem min_gens_default_base_objects (K : Ctx) (intent : List Nat) (bg : Option (List Nat)) :
    K.getMinimalGeneratorsI intent bg none
      = K.getMinimalGeneratorsI intent bg (some (List.range K.nObjects)) := rfl

/-- the driver's executable oracle `Spec.minGensSpec` (brute force over all attribute subsets) lists
    exactly the minimum generators, each once — so "implementation = oracle as sets" in the
    correspondence check is the property itself, and the model equals the oracle as a set. -/
theorem min_gens_oracle_exact (K : Ctx) (hwf : K.table.WF) (intent bg : List Nat) (bo : Option (List Nat))
    (hbg : C01.InRange bg K.nAttributes) (hbgn : bg.Nodup) (hbo : C01.BaseInRange bo K.nObjects) :
    (Spec.minGensSpec K.table intent bg (bo.getD (List.range K.nObjects))).Nodup ∧
    (∀ S, S ∈ Spec.minGensSpec K.table intent bg (bo.getD (List.range K.nObjects))
        ↔ Spec.IsMinGen K.table intent bg (bo.getD (List.range K.nObjects)) S) ∧
    ∃ R, K.getMinimalGeneratorsI intent (some bg) bo = .ok R ∧
      ∀ S, S ∈ R ↔ S ∈ Spec.minGensSpec K.table intent bg (bo.getD (List.range K.nObjects)) := by
  obtain ⟨R, hR, _, hmem⟩ := min_gens_exact K hwf intent bg bo hbg hbgn hbo
  exact ⟨nodup_minGensSpec .., fun S => mem_minGensSpec, R, hR, fun S => (hmem S).trans mem_minGensSpec.symm⟩

/-- the default `base_generator=None` is the empty base generator -/
theorem min_gens_default_base_gen (K : Ctx) (intent : List Nat) (bo : Option (List Nat)) :
    K.getMinimalGeneratorsI intent none bo = K.getMinimalGeneratorsI intent (some []) bo := rfl

/-- the result is empty exactly when no attribute set containing `bg` generates `intent` inside `bo`
    (in particular for every `intent` that is not closed, and for every `bg ⊄ intent`). -/
theorem min_gens_empty_iff (K : Ctx) (hwf : K.table.WF) (intent bg : List Nat) (bo : Option (List Nat))
    (hbg : C01.InRange bg K.nAttributes) (hbgn : bg.Nodup) (hbo : C01.BaseInRange bo K.nObjects) :
    K.getMinimalGeneratorsI intent (some bg) bo = .ok [] ↔
      ¬ ∃ S, Spec.IsGen K.table intent bg (bo.getD (List.range K.nObjects)) S := by
  obtain ⟨R, hR, _, hmem⟩ := min_gens_exact K hwf intent bg bo hbg hbgn hbo
  rw [hR]
  constructor
  · intro h
    cases h
    rintro ⟨S, hS⟩
    -- a generator of least length exists
    obtain ⟨S0, hS0, hmin⟩ := exists_min_length (P := Spec.IsGen K.table intent bg (bo.getD (List.range K.nObjects))) hS
    exact absurd ((hmem S0).mpr ⟨hS0, hmin⟩) List.not_mem_nil
  · intro h
    congr 1
    apply List.eq_nil_iff_forall_not_mem.mpr
    intro S hS
    exact h ⟨S, ((hmem S).mp hS).1⟩

/-- a closed intent containing the base generator always has a generator (itself), so the search
    result is non-empty for every in-scope input of the property. -/
theorem min_gens_nonempty_of_closed (K : Ctx) (hwf : K.table.WF) (intent bg : List Nat) (bo : Option (List Nat))
    (hbg : C01.InRange bg K.nAttributes) (hbgn : bg.Nodup) (hbo : C01.BaseInRange bo K.nObjects)
    (hint : intent.Pairwise (· < ·)) (hir : C01.InRange intent K.nAttributes)
    (hsub : ∀ a ∈ bg, a ∈ intent)
    (hclosed : Spec.SameSet (Spec.clBase K.table (bo.getD (List.range K.nObjects)) intent) intent) :
    K.getMinimalGeneratorsI intent (some bg) bo ≠ .ok [] := by
  intro h
  exact (min_gens_empty_iff K hwf intent bg bo hbg hbgn hbo).mp h ⟨intent, hint, hir, hsub, hclosed⟩

/-- **C18, name version agrees with the index version.**  With pairwise distinct names, calling
    `get_minimal_generators` with the *names* of in-range index lists `I` (intent), `G` (base generator,
    duplicate-free) and `O` (base objects, or `None` = all objects) returns exactly the name images of what
    `get_minimal_generators_i` returns on `I`, `G`, `O` (same tuples, same order inside the tuples). -/
theorem min_gens_names_agree (K : Ctx) (hwf : K.table.WF)
    (hattr : K.attrNames.length = K.nAttributes) (hobj : K.objNames.length = K.nObjects)
    (hand : K.attrNames.Nodup) (hond : K.objNames.Nodup)
    (I G : List Nat) (O : Option (List Nat))
    (hI : C01.InRange I K.nAttributes) (hG : C01.InRange G K.nAttributes) (hGn : G.Nodup)
    (hO : C01.BaseInRange O K.nObjects) :
    K.getMinimalGenerators (I.map fun i => K.attrNames.getD i "")
        (some (G.map fun i => K.attrNames.getD i ""))
        (O.map fun os => os.map fun g => K.objNames.getD g "")
      = match K.getMinimalGeneratorsI I (some G) (some (O.getD (List.range K.nObjects))) with
        | .error e => .error e
        | .ok gens => .ok (gens.map fun mg => mg.map fun m => K.attrNames.getD m "") := by
  unfold Ctx.getMinimalGenerators
  simp only
  rw [idxOfNamesIn_map K.attrNames hand I (by rw [hattr]; exact hI),
    idxOfNamesIn_map K.attrNames hand G (by rw [hattr]; exact hG), hattr]
  cases O with
  | none =>
    simp only [Option.map_none, Option.getD_none]
    have := getMinimalGeneratorsI_norm K hwf I G (List.range K.nObjects) hI hG hGn
      (fun g hg => List.mem_range.mp hg)
    rw [normIdx_range] at this
    rw [this]
    cases K.getMinimalGeneratorsI I (some G) (some (List.range K.nObjects)) <;> rfl
  | some os =>
    simp only [Option.map_some, Option.getD_some]
    rw [idxOfNamesIn_map K.objNames hond os (by rw [hobj]; exact hO os rfl), hobj]
    rw [getMinimalGeneratorsI_norm K hwf I G os hI hG hGn (hO os rfl)]
    cases K.getMinimalGeneratorsI I (some G) (some os) <;> rfl

/-- `base_generator=None` by name is the empty base generator -/
theorem min_gens_names_default_base_gen (K : Ctx) (intent : List String) (bo : Option (List String)) :
    K.getMinimalGenerators intent none bo = K.getMinimalGenerators intent (some []) bo := rfl

/-- names that are not attribute / object names of the context are silently ignored by the by-name
    entry point (membership-test translation) -/
theorem min_gens_names_unknown_ignored (K : Ctx) (intent bg : List String) (bo : Option (List String))
    (x : String) (hx : x ∉ K.attrNames) :
    K.getMinimalGenerators (x :: intent) (some (x :: bg)) bo = K.getMinimalGenerators intent (some bg) bo := by
  have key : ∀ sel : List String, Ctx.idxOfNamesIn K.attrNames (x :: sel) = Ctx.idxOfNamesIn K.attrNames sel := by
    intro sel
    unfold Ctx.idxOfNamesIn
    apply List.filter_congr
    intro i hi
    have hil : i < K.attrNames.length := List.mem_range.mp hi
    have hne : K.attrNames.getD i "" ≠ x := by
      intro h
      apply hx
      rw [← h, List.getD_eq_getElem?_getD, List.getElem?_eq_getElem hil]
      exact List.getElem_mem hil
    rw [Bool.eq_iff_iff]
    simp only [List.contains_eq_mem, List.mem_cons, decide_eq_true_eq]
    exact ⟨fun h => h.resolve_left hne, Or.inr⟩
  unfold Ctx.getMinimalGenerators
  simp only [key]

/-- **C18, many-valued (interval) contexts — partial correctness.**  Whenever the modelled
    `MVContext.get_minimal_generators` returns (i.e. its `while` loop ends within the given fuel and no
    assertion fires), every returned generator `d` has, inside the base objects `bo` (default: all objects),
    the same extension as the intent — both for the library's own `extension_i` and for the plain
    conjunctive-filter reading of it.  For EVERY `ps_to_iterate` (`psIter`: any list of pattern-structure
    indexes — permuted, with repetitions, a proper subset; `none` = all) and every base object list (any
    order, repetitions allowed).  Termination is NOT claimed: the loop has no exit when the extension
    of the intent is not contained in `bo`, when `bo` is not listed in ascending order, or when the pattern
    structures of `psIter` do not suffice. -/
theorem mv_gens_same_extension (cols : List MGMV.Col) (n : Nat) (intent : List MGMV.Descr)
    (baseGen : List MGMV.PGen) (baseObjs : Option (List Nat)) (psIter : Option (List Nat)) (fuel : Nat)
    (R : List MGMV.DescrD) (hbo : C01.BaseInRange baseObjs n)
    (h : MGMV.getMinimalGeneratorsPs cols n intent baseGen baseObjs psIter fuel = .ok R) :
    ∀ d ∈ R,
      MGMV.extensionI cols n d (some (baseObjs.getD (List.range n)))
        = MGMV.extensionI cols n (MGMV.intentD intent) (some (baseObjs.getD (List.range n)))
      ∧ MGMV.sameExtension cols intent (baseObjs.getD (List.range n)) d = true := by
  intro d hd
  unfold MGMV.getMinimalGeneratorsPs at h
  simp only at h
  split at h
  · cases h
  have hgood := MGMV.whileLoop_good _ _ _ _ _ _ _ _ _ _ _ h (by intro d hd; cases hd) d hd
  have hbor : ∀ g ∈ baseObjs.getD (List.range n), g < n := by
    cases baseObjs with
    | none => intro g hg; exact List.mem_range.mp hg
    | some bs => exact hbo bs rfl
  generalize baseObjs.getD (List.range n) = bo at *
  rw [MGMV.extensionI_eq, MGMV.extensionI_eq] at hgood
  simp only [Option.getD_some, Option.getD_none] at hgood
  change MGMV.extSpec cols d bo = MGMV.extSpec cols (MGMV.intentD intent) (List.range n) at hgood
  have key : MGMV.extSpec cols d bo = MGMV.extSpec cols (MGMV.intentD intent) bo := by
    unfold MGMV.extSpec
    apply List.filter_congr
    intro g hg
    rw [Bool.eq_iff_iff]
    constructor
    · intro hP
      have : g ∈ MGMV.extSpec cols d bo := List.mem_filter.mpr ⟨hg, hP⟩
      rw [hgood] at this
      exact (List.mem_filter.mp this).2
    · intro hP
      have : g ∈ MGMV.extSpec cols (MGMV.intentD intent) (List.range n) :=
        List.mem_filter.mpr ⟨List.mem_range.mpr (hbor g hg), hP⟩
      rw [← hgood] at this
      exact (List.mem_filter.mp this).2
  refine ⟨?_, ?_⟩
  · rw [MGMV.extensionI_eq, MGMV.extensionI_eq]; exact key
  · unfold MGMV.sameExtension; rw [key]; exact beq_self_eq_true _

/-- the modelled `MVContext.extension_i` is the conjunctive filter of the base objects -/
theorem mv_extension_i_conjunctive (cols : List MGMV.Col) (n : Nat) (descr : MGMV.DescrD) (base : Option (List Nat)) :
    MGMV.extensionI cols n descr base = MGMV.extSpec cols descr (base.getD (List.range n)) :=
  MGMV.extensionI_eq cols n descr base

/-! ### class H7: index / name arguments are read as SETS (repetitions, order, length are irrelevant) -/

/-- **the specification reads `intent`, the base generator and the base objects as sets**: being a minimum
    generator does not change when any of the three lists is replaced by a list with the same members
    (repeated entries, another order, another length). -/
theorem is_min_gen_args_as_sets (t : Table) (intent intent' bg bg' bo bo' S : List Nat)
    (hI : ∀ a, a ∈ intent ↔ a ∈ intent') (hG : ∀ a, a ∈ bg ↔ a ∈ bg') (hO : ∀ g, g ∈ bo ↔ g ∈ bo') :
    Spec.IsMinGen t intent bg bo S ↔ Spec.IsMinGen t intent' bg' bo' S := by
  have key : ∀ S, Spec.IsGen t intent bg bo S ↔ Spec.IsGen t intent' bg' bo' S := by
    intro S
    unfold Spec.IsGen
    rw [clBase_congr2 t (bo := bo) (bo' := bo') (X := S) (Y := S) hO (fun _ => Iff.rfl)]
    unfold Spec.SameSet
    constructor
    · rintro ⟨h1, h2, h3, h4⟩
      exact ⟨h1, h2, fun a ha => h3 a ((hG a).mpr ha), fun x => (h4 x).trans (hI x)⟩
    · rintro ⟨h1, h2, h3, h4⟩
      exact ⟨h1, h2, fun a ha => h3 a ((hG a).mp ha), fun x => (h4 x).trans (hI x).symm⟩
  unfold Spec.IsMinGen
  rw [key S]
  exact and_congr_right fun _ => forall_congr' fun S' => by rw [key S']

/-- **`get_minimal_generators_i` reads its index arguments as sets** (well-formed table, in-range base
    generator and base objects): replacing `intent` / the base objects by ANY list with the same members
    (repetitions — in particular a list of length `n_objects` whose member set is a proper subset —, a
    permutation, an unsorted full range, one entry more or fewer) and the duplicate-free base generator by a
    permutation of it returns the very same list of generators. -/
theorem min_gens_args_as_sets (K : Ctx) (hwf : K.table.WF) (intent intent' bg bg' bo bo' : List Nat)
    (hbg : C01.InRange bg K.nAttributes) (hbgn : bg.Nodup) (hbgn' : bg'.Nodup)
    (hbo : C01.InRange bo K.nObjects)
    (hI : ∀ a, a ∈ intent ↔ a ∈ intent') (hG : ∀ a, a ∈ bg ↔ a ∈ bg') (hO : ∀ g, g ∈ bo ↔ g ∈ bo') :
    K.getMinimalGeneratorsI intent (some bg) (some bo) = K.getMinimalGeneratorsI intent' (some bg') (some bo') :=
  getMinimalGeneratorsI_congr K hwf intent intent' bg bg' bo bo' hbg hbgn hbgn' hbo hI hG hO

/-- only a base list that CONTAINS every object may stand for "no base objects given": then (and whatever its
    length, order and repetitions) the answer is the one of `base_objects_i=None`.  (A list of length
    `n_objects` with a repeated entry is not such a list — see the example below.) -/
theorem min_gens_full_base_objects (K : Ctx) (hwf : K.table.WF) (intent bg bo : List Nat)
    (hbg : C01.InRange bg K.nAttributes) (hbgn : bg.Nodup) (hbo : C01.InRange bo K.nObjects)
    (hfull : ∀ g, g < K.nObjects → g ∈ bo) :
    K.getMinimalGeneratorsI intent (some bg) (some bo) = K.getMinimalGeneratorsI intent (some bg) none := by
  rw [min_gens_default_base_objects]
  exact getMinimalGeneratorsI_congr K hwf intent intent bg bg bo _ hbg hbgn hbgn hbo (fun _ => Iff.rfl)
    (fun _ => Iff.rfl) (fun g => ⟨fun h => List.mem_range.mpr (hbo g h), fun h => hfull g (List.mem_range.mp h)⟩)

/-- **the by-name entry point reads its name arguments as sets** — unconditionally (any table, any names,
    duplicated or unknown names included): the translation is by membership tests. -/
theorem min_gens_names_args_as_sets (K : Ctx) (intent intent' bg bg' bo bo' : List String)
    (hI : ∀ x, x ∈ intent ↔ x ∈ intent') (hG : ∀ x, x ∈ bg ↔ x ∈ bg') (hO : ∀ x, x ∈ bo ↔ x ∈ bo') :
    K.getMinimalGenerators intent (some bg) (some bo) = K.getMinimalGenerators intent' (some bg') (some bo')
    ∧ K.getMinimalGenerators intent (some bg) none = K.getMinimalGenerators intent' (some bg') none := by
  unfold Ctx.getMinimalGenerators
  simp only
  rw [idxOfNamesIn_congr K.attrNames hI, idxOfNamesIn_congr K.attrNames hG, idxOfNamesIn_congr K.objNames hO]
  exact ⟨rfl, rfl⟩

/-- **the many-valued acceptance test reads the base objects as a set**: "generator `d` has the same
    extension as the intent inside the base objects" means that `d` and the intent agree on every base
    object, so the verdict is the same for every list with the same members. -/
theorem mv_same_extension_as_set (cols : List MGMV.Col) (intent : List MGMV.Descr) (bo bo' : List Nat)
    (d : MGMV.DescrD) (h : ∀ g, g ∈ bo ↔ g ∈ bo') :
    (MGMV.sameExtension cols intent bo d = true ↔
      ∀ g ∈ bo, MGMV.covers cols d g = MGMV.covers cols (MGMV.intentD intent) g)
    ∧ MGMV.sameExtension cols intent bo d = MGMV.sameExtension cols intent bo' d := by
  refine ⟨MGMV.sameExtension_iff cols intent bo d, ?_⟩
  rw [Bool.eq_iff_iff, MGMV.sameExtension_iff, MGMV.sameExtension_iff]
  exact ⟨fun H g hg => H g ((h g).mpr hg), fun H g hg => H g ((h g).mp hg)⟩

/-- **many-valued search, base objects as a set.**  If the search ran on the list `run` (what the routine
    makes of the caller's base objects: the list itself on the numpy branch, an iteration order of
    `frozenset(bo)` on the branch without numpy, the ascending duplicate-free index list on the by-name
    path) and `run` has the members of the caller's `bo`, then every returned generator has the same extension
    as the intent inside the caller's base object SET — whatever repetitions, order or length `bo` has. -/
theorem mv_gens_same_extension_as_set (cols : List MGMV.Col) (n : Nat) (intent : List MGMV.Descr)
    (baseGen : List MGMV.PGen) (bo run : List Nat) (psIter : Option (List Nat)) (fuel : Nat)
    (R : List MGMV.DescrD) (hrun : C01.InRange run n) (hmem : ∀ g, g ∈ run ↔ g ∈ bo)
    (h : MGMV.getMinimalGeneratorsPs cols n intent baseGen (some run) psIter fuel = .ok R) :
    ∀ d ∈ R, MGMV.sameExtension cols intent bo d = true := by
  intro d hd
  have h1 := (mv_gens_same_extension cols n intent baseGen (some run) psIter fuel R
    (by intro bs hbs; cases hbs; exact hrun) h d hd).2
  simp only [Option.getD_some] at h1
  rw [← (mv_same_extension_as_set cols intent run bo d hmem).2]
  exact h1

/-- an iteration order of `frozenset(bo)` (branch without numpy) has the members of `bo` -/
theorem mv_gens_same_extension_frozenset (cols : List MGMV.Col) (n : Nat) (intent : List MGMV.Descr)
    (baseGen : List MGMV.PGen) (bo ord : List Nat) (psIter : Option (List Nat)) (fuel : Nat)
    (R : List MGMV.DescrD) (hbo : C01.InRange bo n) (hord : MGMV.IsFrozensetOrder bo ord)
    (h : MGMV.getMinimalGeneratorsPs cols n intent baseGen (some ord) psIter fuel = .ok R) :
    ∀ d ∈ R, MGMV.sameExtension cols intent bo d = true :=
  mv_gens_same_extension_as_set cols n intent baseGen bo ord psIter fuel R
    (fun g hg => hbo g ((hord.2 g).mp hg)) hord.2 h

/-! ### non-vacuity: the hypotheses are met by a concrete, non-trivial context -/

private def exK : Ctx :=
  { backend := .bitarray, table := ⟨[[true, false, true], [true, true, false], [false, true, true]], 3⟩,
    objNames := ["g0", "g1", "g2"], attrNames := ["a", "b", "c"] }

example : exK.table.WF ∧ C01.InRange [1] exK.nAttributes ∧ [1].Nodup ∧ C01.InRange [2, 1] exK.nObjects
    ∧ exK.getMinimalGeneratorsI [0, 1] (some [1]) (some [0, 1, 2]) = .ok [[0, 1]]
    ∧ exK.getMinimalGeneratorsI [1] none (some [2, 1]) = .ok [[]]
    ∧ exK.getMinimalGeneratorsI [0, 1] (some [1]) none = .ok [[0, 1]]
    ∧ exK.getMinimalGeneratorsI [0, 1, 2] none (some [0, 1, 2]) = .ok [[0, 1, 2]]
    ∧ exK.getMinimalGeneratorsI [0, 2] (some [1]) (some [0, 1, 2]) = .ok []
    ∧ exK.getMinimalGenerators ["b", "a", "zz"] (some ["b"]) none = .ok [["a", "b"]] := by
  refine ⟨by decide, ?_, by decide, ?_, by rfl, by rfl, by rfl, by rfl, by rfl, by rfl⟩
  · intro x hx; simp at hx; subst hx; decide
  · intro x hx; simp at hx; rcases hx with rfl | rfl <;> decide

example : exK.attrNames.length = exK.nAttributes ∧ exK.objNames.length = exK.nObjects
    ∧ exK.attrNames.Nodup ∧ exK.objNames.Nodup := by decide

/-- a 3-object interval column `[1, 2, 3]`; intent = `[2, 3]` (extension `{1, 2}`); the search returns
    the projection-1 generator `[2, +inf)` -/
example : MGMV.getMinimalGenerators [[(1, 1), (2, 2), (3, 3)]] 3 [.iv (.fin 2) (.fin 3)] [] (some [0, 1, 2]) 3
    = .ok [[(0, .iv (.fin 2) .pinf)]] ∧ C01.BaseInRange (some [0, 1, 2]) 3 := by
  refine ⟨MGMV.mvIs_eq (by decide +kernel), ?_⟩
  intro bs h; cases h; intro g hg; simp at hg; rcases hg with rfl | rfl | rfl <;> decide

/-- non-termination witness of the model: base objects that miss an object of the intent's extension
    exhaust any fuel (here 5 rounds) -/
example : MGMV.getMinimalGenerators [[(1, 1), (2, 2), (3, 3)]] 3 [.iv (.fin 2) (.fin 3)] [] (some [0, 1]) 5
    = .error .OutOfFuel := MGMV.mvIs_eq (by decide +kernel)

/-- H7 non-vacuity: in the 3-object context `exK` the base list `[2, 2, 1]` has length `n_objects` but denotes
    `{1, 2}`; it is answered like `[1, 2]` (and like `[2, 1]`, `[1, 2, 2, 1]`) and NOT like `None` / `[0, 1, 2]`;
    a permuted / repeated intent and a permuted base generator change nothing. -/
example : [2, 2, 1].length = exK.nObjects
    ∧ exK.getMinimalGeneratorsI [1] (some []) (some [2, 2, 1]) = .ok [[]]
    ∧ exK.getMinimalGeneratorsI [1] (some []) (some [1, 2]) = .ok [[]]
    ∧ exK.getMinimalGeneratorsI [1] (some []) (some [1, 2, 2, 1]) = .ok [[]]
    ∧ exK.getMinimalGeneratorsI [1] (some []) none = .ok [[1]]
    ∧ exK.getMinimalGeneratorsI [1] (some []) (some [2, 0, 1]) = .ok [[1]]
    ∧ exK.getMinimalGeneratorsI [1, 0, 1] (some [1, 0]) (some [1, 1, 1]) = .ok [[0, 1]]
    ∧ exK.getMinimalGeneratorsI [0, 1] (some [0, 1]) (some [1]) = .ok [[0, 1]]
    ∧ exK.getMinimalGenerators ["b", "b", "b"] (some []) (some ["g2", "g2", "g1"]) = .ok [[]]
    ∧ exK.getMinimalGenerators ["b"] (some []) (some ["g1", "g2"]) = .ok [[]]
    ∧ exK.getMinimalGenerators ["b"] (some []) none = .ok [["b"]] := by
  refine ⟨rfl, by rfl, by rfl, by rfl, by rfl, by rfl, by rfl, by rfl, by rfl, by rfl, by rfl⟩

/-- H7 non-vacuity (many-valued): 3 objects `1, 2, 3`, intent `[2, 3]` (extension `{1, 2}`); the base list
    `[0, 1, 2, 0]` (one longer than the context, object 0 repeated) and `ps_to_iterate = [0, 0]` are answered;
    a base list that lists the extension out of order (`[2, 1]`) exhausts any fuel (the real loop does not end);
    a pattern-structure index outside the intent raises `KeyError`. -/
example : MGMV.getMinimalGeneratorsPs [[(1, 1), (2, 2), (3, 3)]] 3 [.iv (.fin 2) (.fin 3)] [] (some [0, 1, 2, 0])
      (some [0, 0]) 3 = .ok [[(0, .iv (.fin 2) .pinf)]]
    ∧ MGMV.getMinimalGeneratorsPs [[(1, 1), (2, 2), (3, 3)]] 3 [.iv (.fin 2) (.fin 3)] [] (some [2, 1]) none 4
      = .error .OutOfFuel
    ∧ MGMV.getMinimalGeneratorsPs [[(1, 1), (2, 2), (3, 3)]] 3 [.iv (.fin 2) (.fin 3)] [] none (some [1]) 4
      = .error .KeyError
    ∧ MGMV.IsFrozensetOrder [2, 1, 1, 2] [1, 2]
    ∧ MGMV.sameExtension [[(1, 1), (2, 2), (3, 3)]] [.iv (.fin 2) (.fin 3)] [2, 1, 1, 2] [(0, .iv (.fin 2) .pinf)] = true
    ∧ MGMV.sameExtension [[(1, 1), (2, 2), (3, 3)]] [.iv (.fin 2) (.fin 3)] [0, 0, 1] [(0, .iv .ninf (.fin 3))] = false := by
  refine ⟨MGMV.mvIs_eq (by decide +kernel), MGMV.mvIs_eq (by decide +kernel), MGMV.mvIs_eq (by decide +kernel),
    ⟨by decide, ?_⟩, by decide +kernel, by decide +kernel⟩
  intro g; simp only [List.mem_cons, List.not_mem_nil, or_false]; omega

end Fca.C18

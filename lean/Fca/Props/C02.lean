/-
  Props/C02 — exact lattice construction returns precisely the set of all formal concepts.

  `Spec.ExactConcepts t cs` : the keys `(sorted extent_i, sorted intent_i)` of the records `cs` are
  duplicate-free and are exactly the members of `Spec.allConcepts t` (= the pairs with `isConcept`, by
  `Spec.mem_allConcepts`; listed once each, `Spec.allConcepts_nodup`).
    Only property theorems live here; helper lemmas are in `Fca/Lemmas`.
-/
import Fca.Lemmas.Miners
import Fca.Lemmas.OracleFast
namespace Fca.C02
open Fca Fca.Spec

/-- the set of all formal concepts of a table -/
def Concepts (t : Table) : List (List Nat × List Nat) := allConcepts t

/-- an iteration-order parameter is a reordering of the set it enumerates -/
def IsOrder {α} (ord : List α → List α) : Prop := ∀ l, (ord l).Perm l

/-- `close_by_one_objectwise_fbarray`: with the closed-form fuel `cboFuel n = (n+1)^(n+1)+1` (or more) the
    loop terminates normally, and the emitted concepts are exactly the formal concepts, each once. -/
theorem cbo_fbarray_exact (K : Ctx) (hwf : K.table.WF) (fuel : Nat) (hf : cboFuel K.nObjects ≤ fuel) :
    ∃ cs, cboFbarray K fuel = .ok cs ∧ ExactConcepts K.table cs := by
  obtain ⟨tr, htr, hok⟩ := CbOM.fbarray_trace K hwf fuel hf
  refine ⟨_, ?_, CbOM.exact_of_trace K hwf hok false⟩
  unfold cboFbarray
  rw [htr]

/-- `close_by_one_objectwise` (every backend; `extents_i_found` is never filled, so "exactly once" rests on the
    canonicity test alone): terminates, and emits exactly the formal concepts, each once. -/
theorem cbo_objectwise_exact (K : Ctx) (hwf : K.table.WF) (fuel : Nat) (hf : cboFuel K.nObjects ≤ fuel) :
    ∃ cs, cboObjectwise K fuel = .ok cs ∧ ExactConcepts K.table cs := by
  obtain ⟨tr, htr, hok⟩ := CbOM.objectwise_trace K hwf fuel hf
  refine ⟨_, ?_, CbOM.exact_of_trace K hwf hok true⟩
  unfold cboObjectwise
  rw [htr]

/-- `close_by_one` on a formal context: both branches of the shape dispatch (wide: directly; otherwise on the
    transposed context, every concept rebuilt from the transposed concept's intent). -/
theorem close_by_one_dispatch_exact (K : Ctx) (hwf : K.table.WF) (fuel : Nat) (hf : closeByOneFuel K ≤ fuel) :
    ∃ cs, closeByOne K fuel = .ok cs ∧ ExactConcepts K.table cs := by
  unfold closeByOne
  unfold closeByOneFuel at hf
  split
  · rename_i h
    rw [if_pos h] at hf
    exact cbo_fbarray_exact K hwf fuel hf
  · rename_i h
    rw [if_neg h] at hf
    have hwfT : K.T.table.WF := transpose_wf K.table
    have hn : K.T.nObjects = K.nBinAttrs := transpose_height K.table
    obtain ⟨tr, htr, hok⟩ := CbOM.fbarray_trace K.T hwfT fuel (by rw [hn]; exact hf)
    refine ⟨_, ?_, CbOM.exact_of_trace_T K hwf hok⟩
    unfold cboFbarray
    rw [htr]

/-- `lindig_algorithm`, both iteration directions (and the `None` default), every iteration order of
    `for g in set(reps)` and every choice of `queue.pop()`: terminates within `2^n + 1` iterations and returns
    exactly the formal concepts, each once. -/
theorem lindig_exact (K : Ctx) (hwf : K.table.WF) (iter : Option Bool)
    (ord : List Nat → List Nat) (hord : IsOrder ord) (pick : List Nat → Nat)
    (fuel : Nat) (hf : lindigAlgorithmFuel K iter ≤ fuel) :
    ∃ r, lindigAlgorithm K iter ord pick fuel = .ok r ∧ ExactConcepts K.table r.concepts := by
  obtain ⟨r, hr, hnd, hsound⟩ := LindigL.lindig_sound_nodup K hwf iter ord hord pick fuel hf
  refine ⟨r, hr, hnd, fun A B => ⟨hsound A B, ?_⟩⟩
  exact LindigL.lindig_complete K hwf iter ord hord pick fuel hf r hr A B

/-- `sofia` with `min_supp = 0` and a size limit not below the number of concepts, every tie order of
    `sorted(set(…), key=count)`: exactly the formal concepts, each once (the pruning branch is not entered). -/
theorem sofia_nonbinding_exact (K : Ctx) (hwf : K.table.WF) (tie : List (List Bool) → List (List Bool))
    (htie : IsOrder tie) (lMax : Nat) (hL : (Concepts K.table).length ≤ lMax) :
    ExactConcepts K.table (sofia K tie lMax 0) :=
  SofiaL.sofia_exact K hwf tie htie lMax hL

/-- what `from_context_exact` claims per algorithm -/
def FromContextClaim (K : Ctx) (cs : List ConceptRec) : Algo → Prop
  | .cbo => ExactConcepts K.table cs
  | .sofia lMax minSupp => minSupp = 0 → (Concepts K.table).length ≤ lMax → ExactConcepts K.table cs
  | .default => ExactConcepts K.table cs
  | .lindig _ => ExactConcepts K.table cs
  | .other => False

/-- `ConceptLattice.from_context(K, algo)` (`is_monotone=False`): every supported algorithm (the default =
    `'Lindig'`, `'CbO'`, `'Lindig'` with any `iterate_extents`, `'Sofia'` with `min_supp = 0` and a non-binding
    `L_max`) returns normally and lists exactly the formal concepts, each once, for every iteration order;
    an unsupported name raises `ValueError`. -/
theorem from_context_exact (K : Ctx) (hwf : K.table.WF) (o : Orders)
    (hord : IsOrder o.ord) (htie : IsOrder o.tie) (algo : Algo) :
    match algo with
    | .other => fromContext K algo o = .error .ValueError
    | _ => ∃ cs, fromContext K algo o = .ok cs ∧ FromContextClaim K cs algo := by
  cases algo with
  | other => rfl
  | cbo =>
    obtain ⟨cs, h1, h2⟩ := close_by_one_dispatch_exact K hwf _ (Nat.le_refl _)
    refine ⟨sortConcepts cs, ?_, MinersL.exact_perm (MinersL.sortConcepts_perm cs) h2⟩
    simp only [fromContext, h1]
  | sofia lMax minSupp =>
    refine ⟨_, rfl, ?_⟩
    intro h0 hL
    subst h0
    exact MinersL.exact_perm (MinersL.sortConcepts_perm _) (sofia_nonbinding_exact K hwf o.tie htie lMax hL)
  | default =>
    obtain ⟨r, h1, h2⟩ := lindig_exact K hwf none o.ord hord o.pick _ (Nat.le_refl _)
    refine ⟨sortConcepts r.concepts, ?_, MinersL.exact_perm (MinersL.sortConcepts_perm _) h2⟩
    simp only [fromContext, h1]
  | lindig it =>
    obtain ⟨r, h1, h2⟩ := lindig_exact K hwf it o.ord hord o.pick _ (Nat.le_refl _)
    refine ⟨sortConcepts r.concepts, ?_, MinersL.exact_perm (MinersL.sortConcepts_perm _) h2⟩
    simp only [fromContext, h1]

/-- every concept any miner returns carries name views that are the name images of its index views
    (`extent = [object_names[i] for i in extent_i]`, `intent = [attribute_names[j] for j in intent_i]`). -/
theorem concept_views_agree (K : Ctx) :
    (∀ fuel cs, cboFbarray K fuel = .ok cs → ∀ c ∈ cs, ViewsAgree K.objNames K.attrNames c) ∧
    (∀ fuel cs, cboObjectwise K fuel = .ok cs → ∀ c ∈ cs, ViewsAgree K.objNames K.attrNames c) ∧
    (∀ fuel cs, closeByOne K fuel = .ok cs → ∀ c ∈ cs, ViewsAgree K.objNames K.attrNames c) ∧
    (∀ iter ord pick fuel r, lindigAlgorithm K iter ord pick fuel = .ok r →
        ∀ c ∈ r.concepts, ViewsAgree K.objNames K.attrNames c) ∧
    (∀ tie lMax minSupp, ∀ c ∈ sofia K tie lMax minSupp, ViewsAgree K.objNames K.attrNames c) ∧
    (∀ algo o cs, fromContext K algo o = .ok cs → ∀ c ∈ cs, ViewsAgree K.objNames K.attrNames c) :=
  ⟨MinersL.views_cboFbarray K, MinersL.views_cboObjectwise K, MinersL.views_closeByOne K,
   MinersL.views_lindig K, MinersL.views_sofia K, MinersL.views_fromContext K⟩

/-- the oracle the driver uses to judge the implementation's lists (`Spec.allConceptsFast`: brute force over the
    smaller side of the table, through the transposed table when it is wider than tall) lists exactly the
    formal concepts of the table, each once — the same set as `Concepts`. -/
theorem oracle_fast_exact (t : Table) (hwf : t.WF) :
    (allConceptsFast t).Nodup ∧ ∀ A B, (A, B) ∈ allConceptsFast t ↔ (A, B) ∈ Concepts t :=
  ⟨allConceptsFast_nodup t, fun A B => by
    rw [mem_allConceptsFast t hwf]; exact (mem_allConcepts t).symm⟩

/-! ### non-vacuity: the hypotheses are met by a concrete, non-trivial context -/

private def exK : Ctx :=
  { backend := .bitarray, table := ⟨[[true, false, true], [true, true, false]], 3⟩,
    objNames := ["g0", "g1"], attrNames := ["a", "b", "c"] }

example : exK.table.WF ∧ cboFuel exK.nObjects ≤ 28 ∧
    (match cboFbarray exK 28 with
      | .ok cs => cs.map fun c => (c.extentI, c.intentI)
      | .error _ => []) = [([], [0, 1, 2]), ([0], [0, 2]), ([0, 1], [0]), ([1], [0, 1])] := by
  refine ⟨by decide, by decide, by decide +kernel⟩

example : IsOrder (fun l : List Nat => l.reverse) ∧ IsOrder (fun l : List (List Bool) => l) :=
  ⟨fun l => List.reverse_perm l, fun l => List.Perm.refl l⟩

end Fca.C02

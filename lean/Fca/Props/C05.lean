/-
  Props/C05 — all binary-table backends are observationally interchangeable.

  `run b op t` is the code-shaped model of operation `op` on backend `b`
  (`Fca/Model/BinTable.lean`, `Fca/Model/BinTableOps.lean`); `Spec.Table.run op t` is what the
  operation means, said once in terms of the cells.  Scope (`Op.Valid`, `COp.Valid`): in-range
  integer indexes and index lists, slices with a non-zero step (negative start/stop/step allowed),
  duplicate-free column lists for `sum`, a well-formed second operand for `& | ==`.  No lower
  bound on the size: the 0×0 table (what an empty row selection returns) and h×0 tables are
  covered — every backend, numpy included (`np.zeros((0, 0))`), answers on them as on any other.

  Only property theorems live here; helper lemmas are in `Fca/Lemmas/BinTableOps.lean`.
-/
import Fca.Model.BinTableOps
import Fca.Spec.Table
import Fca.Lemmas.BinTableOps
import Fca.Gen.EquivOps
namespace Fca.C05
open Fca Fca.Spec.Table

/-- MASTER THEOREM.  On every well-formed table, every backend's result of every operation in
    scope — shape, `to_list`, every `table[item]` shape (integer, slice, index list, pairs of
    those), `all/any/sum` overall and per axis with optional row / column selections (and
    `UnknownAxisError` for any other axis), `all_i/any_i`, `T`, `&`, `|`, `~`, `==` (any pair of
    backends, any shapes), conversion to any backend — is the specification value. -/
theorem backend_run_eq_spec (b : Backend) (op : Op) (t : Table) (hwf : t.WF) (hv : op.Valid t) :
    run b op t = Spec.Table.run op t := by
  cases op with
  | shape => rfl
  | toList => simp only [run, Spec.Table.run, toList_spec t hwf b]
  | getitem it =>
    cases b
    · exact L.getitem_eq t hwf it hv
    · exact B.getitem_eq t hwf it hv
    · exact N.getitem_eq t hwf it hv
  | all ax rows cols => exact all_spec t hwf b rows cols hv.1 hv.2 ax
  | any ax rows cols => exact any_spec t hwf b rows cols hv.1 hv.2 ax
  | sum ax rows cols => exact sum_spec t hwf b rows cols hv.1 hv.2.1 ax hv.2.2
  | allI ax rows cols => exact allIRes_spec t hwf b rows cols hv.1 hv.2 ax
  | anyI ax rows cols => exact anyIRes_spec t hwf b rows cols hv.1 hv.2 ax
  | transpose =>
    cases b
    · rfl
    · rfl
    · simp only [run, Spec.Table.run, N.transpose_spec]
  | and o => exact and_spec t hwf b o hv
  | or o => exact or_spec t hwf b o hv
  | invert =>
    cases b
    · exact congrArg Res.table (invert_spec t hwf .lists)
    · exact congrArg Res.table (invert_spec t hwf .bitarray)
    · exact congrArg Res.table (invert_spec t hwf .numpy)
  | eq b' o => simp only [run, Spec.Table.run, tableEq_spec t hwf b b' o hv]
  | convert dst => simp only [run, Spec.Table.run, convert_spec t hwf b dst]

/-- any two backends give the same answer to every operation -/
theorem backends_agree (b b' : Backend) (op : Op) (t : Table) (hwf : t.WF) (hv : op.Valid t) :
    run b op t = run b' op t := by
  rw [backend_run_eq_spec b op t hwf hv, backend_run_eq_spec b' op t hwf hv]

/-- converting a table from one backend to another (`init_bintable`) preserves its content -/
theorem conversion_preserves (src dst : Backend) (t : Table) (hwf : t.WF) :
    toList dst (convert src dst t) = toList src t := by
  rw [convert_spec t hwf src dst, toList_spec t hwf src]

/-- ... and its shape (for a table with at least one row) and well-formedness -/
theorem conversion_preserves_shape (src dst : Backend) (t : Table) (hwf : t.WF) (hrow : t.height ≠ 0) :
    (convert src dst t).height = t.height ∧ (convert src dst t).width = t.width ∧ (convert src dst t).WF := by
  unfold convert
  split
  · exact ⟨rfl, rfl, hwf⟩
  · have h0 : ¬ t.data.length = 0 := hrow
    simp only [h0, if_false]
    have hw : (Table.ofRows t.data).width = t.width := by
      cases hd : t.data with
      | nil => simp [hd] at h0
      | cons r rs =>
        simp only [Table.ofRows, List.headD_cons]
        exact hwf r (by rw [hd]; exact List.mem_cons_self)
    refine ⟨?_, hw, ?_⟩
    · simp only [Table.height, toList_eq_data, Table.ofRows]
    · intro r hr
      simp only [toList_eq_data, Table.ofRows] at hr
      rw [hw]; exact hwf r hr

/-- an axis other than `None`, `0`, `1` raises `UnknownAxisError` on every backend,
    whatever the table and the selections -/
theorem unknown_axis_error (b : Backend) (t : Table) (a : Int) (rows cols : Option (List Nat))
    (ha0 : a ≠ 0) (ha1 : a ≠ 1) :
    run b (.all (some a) rows cols) t = .err .UnknownAxisError ∧
    run b (.any (some a) rows cols) t = .err .UnknownAxisError ∧
    run b (.sum (some a) rows cols) t = .err .UnknownAxisError ∧
    run b (.allI a rows cols) t = .err .UnknownAxisError ∧
    run b (.anyI a rows cols) t = .err .UnknownAxisError := by
  cases b <;>
    simp [run, L.all, L.any, L.sum, B.all, B.any, B.sum, N.all, N.any, N.sum, axisDispatch, allIRes, anyIRes,
      ha0, ha1]

/-- a slice always selects valid positions, so slice selections need no range hypothesis -/
theorem slice_selection_in_range (a b c : Option Int) (len : Nat) :
    ∀ x ∈ sliceIndices a b c len, x < len := sliceIndices_lt a b c len

/-- sub-tables keep every row at one width, so the operations can be iterated on their results -/
theorem subtable_wf (b : Backend) (t : Table) (hwf : t.WF) (it : Item) (hv : it.Valid t)
    (t' : Table) (hres : run b (.getitem it) t = .table t') : t'.WF := by
  rw [backend_run_eq_spec b (.getitem it) t hwf hv] at hres
  simp only [Spec.Table.run] at hres
  match it, hres with
  | .one (.sel s), hres =>
    simp only [Spec.Table.getitem, Res.table.injEq] at hres
    subst hres
    exact Table.ofRows_wf (w := (allCols t).length) (by
      intro r hr
      simp only [cells, List.mem_map] at hr
      obtain ⟨i, _, rfl⟩ := hr
      simp)
  | .two (.sel rs) (.sel cs), hres =>
    simp only [Spec.Table.getitem, Res.table.injEq] at hres
    subst hres
    exact Table.ofRows_wf (w := (cs.resolve t.width).length) (by
      intro r hr
      simp only [cells, List.mem_map] at hr
      obtain ⟨i, _, rfl⟩ := hr
      simp)

/-- CONTEXT LEVEL.  `FormalContext.__getitem__` (every item: two integers give the cell; one
    integer with a selection, a lone integer or selection, or two selections give the sub-context),
    `.T`, `~` (with the `'not '` name toggle) and `==` give the same backend-free observation
    whichever backend the context was created with, and a resulting context keeps that backend. -/
theorem context_ops_backend_independent (K : Ctx) (hwf : K.table.WF)
    (hobj : K.objNames.length = K.nObjects) (hattr : K.attrNames.length = K.nAttributes)
    (op : COp) (hv : op.Valid K.table) :
    obs (K.runC op) = Spec.Table.runC K.table K.objNames K.attrNames op ∧
    (∀ K', K.runC op = .ctx K' → K'.backend = K.backend) := by
  -- the sub-context case, for any two components not both integers
  have sub_case : ∀ (r c : Key), r.Valid K.table.height → c.Valid K.table.width →
      (r.isInt && c.isInt) = false →
      ∃ T', (if r.isInt != c.isInt then run K.backend (.getitem (.two r.wrapInt c.wrapInt)) K.table
             else run K.backend (.getitem (.two r c)) K.table) = .table T' ∧
        T' = sub K.table (keyIdx r K.table.height) (keyIdx c K.table.width) := by
    intro r c hr hc hnot
    obtain ⟨sr, hsr, hrr⟩ := Key.wrapInt_resolve r K.table.height
    obtain ⟨sc, hsc, hcc⟩ := Key.wrapInt_resolve c K.table.width
    have hl := backend_run_eq_spec K.backend (.getitem (.two r.wrapInt c.wrapInt)) K.table hwf
      ⟨Key.wrapInt_valid hr, Key.wrapInt_valid hc⟩
    rw [hsr, hsc] at hl
    simp only [Spec.Table.run, Spec.Table.getitem, hrr, hcc] at hl
    match r, c, hnot with
    | .int i, .sel cs, _ => exact ⟨_, by simpa [Key.isInt, hsr, hsc] using hl, rfl⟩
    | .sel rs, .int j, _ => exact ⟨_, by simpa [Key.isInt, hsr, hsc] using hl, rfl⟩
    | .sel rs, .sel cs, _ =>
      simp only [Key.wrapInt, Key.sel.injEq] at hsr hsc
      subst hsr hsc
      refine ⟨_, ?_, rfl⟩
      simp only [Key.isInt, bne_self_eq_false, Bool.false_eq_true, if_false]
      exact hl
  match op, hv with
  | .getitem (.two (.int i) (.int j)), hv =>
    have hr := backend_run_eq_spec K.backend (.getitem (.two (.int i) (.int j))) K.table hwf hv
    simp only [Spec.Table.run, Spec.Table.getitem] at hr
    simp only [Ctx.runC, Ctx.getitem, Key.isInt, bne_self_eq_false, Bool.false_eq_true, if_false, hr,
      Spec.Table.runC, obs]
    exact ⟨trivial, fun K' hk => by cases hk⟩
  | .getitem (.two (.int i) (.sel cs)), hv =>
    obtain ⟨T', h1, h2⟩ := sub_case (.int i) (.sel cs) hv.1 hv.2 rfl
    simp only [Ctx.runC, Ctx.getitem, h1, h2, Spec.Table.runC, obs_mkCtx,
      sliceList_key K.objNames _ K.table.height hobj, sliceList_key K.attrNames _ K.table.width hattr]
    exact ⟨trivial, fun K' hk => mkCtx_backend _ _ _ _ K' hk⟩
  | .getitem (.two (.sel rs) (.int j)), hv =>
    obtain ⟨T', h1, h2⟩ := sub_case (.sel rs) (.int j) hv.1 hv.2 rfl
    simp only [Ctx.runC, Ctx.getitem, h1, h2, Spec.Table.runC, obs_mkCtx,
      sliceList_key K.objNames _ K.table.height hobj, sliceList_key K.attrNames _ K.table.width hattr]
    exact ⟨trivial, fun K' hk => mkCtx_backend _ _ _ _ K' hk⟩
  | .getitem (.two (.sel rs) (.sel cs)), hv =>
    obtain ⟨T', h1, h2⟩ := sub_case (.sel rs) (.sel cs) hv.1 hv.2 rfl
    simp only [Ctx.runC, Ctx.getitem, h1, h2, Spec.Table.runC, obs_mkCtx,
      sliceList_key K.objNames _ K.table.height hobj, sliceList_key K.attrNames _ K.table.width hattr]
    exact ⟨trivial, fun K' hk => mkCtx_backend _ _ _ _ K' hk⟩
  | .getitem (.one r), hv =>
    have hfull : keyIdx (.sel (.slice (some 0) (some (K.nAttributes : Int)) none)) K.table.width = allCols K.table :=
      sliceIndices_full K.table.width
    obtain ⟨T', h1, h2⟩ := sub_case r (.sel (.slice (some 0) (some (K.nAttributes : Int)) none)) hv
      (by simp [Key.Valid, Sel.Valid]) (by simp [Key.isInt])
    simp only [Ctx.runC, Ctx.getitem, h1, h2, Spec.Table.runC, obs_mkCtx,
      sliceList_key K.objNames _ K.table.height hobj, sliceList_key K.attrNames _ K.table.width hattr, hfull]
    exact ⟨trivial, fun K' hk => mkCtx_backend _ _ _ _ K' hk⟩
  | .transpose, _ =>
    have hr := backend_run_eq_spec K.backend .transpose K.table hwf trivial
    simp only [Spec.Table.run] at hr
    simp only [Ctx.runC, Ctx.transposeC, hr, Spec.Table.runC, obs_mkCtx, Spec.Table.transpose, Table.ofRows_data]
    exact ⟨trivial, fun K' hk => mkCtx_backend _ _ _ _ K' hk⟩
  | .invert, _ =>
    have hr := backend_run_eq_spec K.backend .invert K.table hwf trivial
    simp only [Spec.Table.run] at hr
    simp only [Ctx.runC, Ctx.invertC, hr, Spec.Table.runC, obs_mkCtx]
    exact ⟨trivial, fun K' hk => mkCtx_backend _ _ _ _ K' hk⟩
  | .eq K2, hv =>
    simp only [Ctx.runC, Ctx.eqC, Spec.Table.runC, tableEq_spec K.table hwf K.backend K2.backend K2.table hv]
    refine ⟨?_, ?_⟩
    · split
      · rfl
      · split <;> rfl
    · intro K' hk
      split at hk
      · cases hk
      · split at hk <;> cases hk

/-- hence two contexts that differ only in the backend are observationally the same -/
theorem contexts_of_two_backends_agree (b b' : Backend) (t : Table) (objs attrs : List String) (hwf : t.WF)
    (hobj : objs.length = t.height) (hattr : attrs.length = t.width) (op : COp) (hv : op.Valid t) :
    obs ((⟨b, t, objs, attrs⟩ : Ctx).runC op) = obs ((⟨b', t, objs, attrs⟩ : Ctx).runC op) := by
  rw [(context_ops_backend_independent ⟨b, t, objs, attrs⟩ hwf hobj hattr op hv).1,
    (context_ops_backend_independent ⟨b', t, objs, attrs⟩ hwf hobj hattr op hv).1]

/-- `K[i, cols]`, `K[rows, j]`, `K[i]` (exactly one integer) are the one-row / one-column
    sub-contexts: the same as selecting with the one-element list, on every backend. -/
theorem context_getitem_one_integer (K : Ctx) (hwf : K.table.WF)
    (hobj : K.objNames.length = K.nObjects) (hattr : K.attrNames.length = K.nAttributes)
    (i : Nat) (s : Sel) :
    (i < K.table.height → s.Valid K.table.width →
      obs (K.runC (.getitem (.two (.int i) (.sel s))))
        = obs (K.runC (.getitem (.two (.sel (.idx [i])) (.sel s))))) ∧
    (i < K.table.width → s.Valid K.table.height →
      obs (K.runC (.getitem (.two (.sel s) (.int i))))
        = obs (K.runC (.getitem (.two (.sel s) (.sel (.idx [i])))))) ∧
    (i < K.table.height →
      obs (K.runC (.getitem (.one (.int i)))) = obs (K.runC (.getitem (.one (.sel (.idx [i])))))) := by
  have one : ∀ n, i < n → (Sel.idx [i]).Valid n := by
    intro n h x hx; simp at hx; subst hx; exact h
  refine ⟨fun hi hs => ?_, fun hi hs => ?_, fun hi => ?_⟩
  · have v1 : (COp.getitem (.two (.int i) (.sel s))).Valid K.table := ⟨hi, hs⟩
    have v2 : (COp.getitem (.two (.sel (.idx [i])) (.sel s))).Valid K.table := ⟨one _ hi, hs⟩
    rw [(context_ops_backend_independent K hwf hobj hattr _ v1).1,
      (context_ops_backend_independent K hwf hobj hattr _ v2).1]
    rfl
  · have v1 : (COp.getitem (.two (.sel s) (.int i))).Valid K.table := ⟨hs, hi⟩
    have v2 : (COp.getitem (.two (.sel s) (.sel (.idx [i])))).Valid K.table := ⟨hs, one _ hi⟩
    rw [(context_ops_backend_independent K hwf hobj hattr _ v1).1,
      (context_ops_backend_independent K hwf hobj hattr _ v2).1]
    rfl
  · have v1 : (COp.getitem (.one (.int i))).Valid K.table := hi
    have v2 : (COp.getitem (.one (.sel (.idx [i])))).Valid K.table := one _ hi
    rw [(context_ops_backend_independent K hwf hobj hattr _ v1).1,
      (context_ops_backend_independent K hwf hobj hattr _ v2).1]
    rfl

/-! ### non-vacuity: the hypotheses are met by concrete, non-trivial inputs -/

private def exT : Table := ⟨[[true, false, true], [false, true, true]], 3⟩

example : exT.WF ∧
    (Op.getitem (.two (.sel (.idx [1, 0])) (.sel (.slice none none (some (-1)))))).Valid exT ∧
    run .numpy (.getitem (.two (.sel (.idx [1, 0])) (.sel (.slice none none (some (-1)))))) exT
      = .table ⟨[[true, true, false], [true, false, true]], 3⟩ := by
  refine ⟨by decide, ⟨?_, by simp [Key.Valid, Sel.Valid]⟩, by decide⟩
  intro x hx; simp at hx; rcases hx with rfl | rfl <;> decide

example : (Op.sum (some 0) (some [1]) (some [2, 0])).Valid exT ∧
    run .bitarray (.sum (some 0) (some [1]) (some [2, 0])) exT = .nats [1, 0] := by
  refine ⟨⟨?_, ?_, ?_⟩, by decide⟩
  · intro xs h x hx; cases h; simp at hx; subst hx; decide
  · intro xs h x hx; cases h; simp at hx; rcases hx with rfl | rfl <;> decide
  · intro xs h; cases h; decide

example : (COp.getitem (.one (.sel (.slice (some 1) none none)))).Valid exT ∧
    obs ((⟨.lists, exT, ["g0", "g1"], ["a", "not b", "c"]⟩ : Ctx).runC (.getitem (.one (.sel (.slice (some 1) none none)))))
      = .ctx ⟨[[false, true, true]], 3⟩ ["g1"] ["a", "not b", "c"] := by
  refine ⟨by simp [COp.Valid, Item.Valid, Key.Valid, Sel.Valid], by decide⟩

/-- the 0×0 table is in scope -/
example : (⟨[], 0⟩ : Table).WF ∧ (Op.all none none none).Valid ⟨[], 0⟩ ∧
    run .numpy (.all none none none) ⟨[], 0⟩ = .bool true ∧ run .numpy .transpose ⟨[], 0⟩ = .table ⟨[], 0⟩ := by
  refine ⟨by decide, ⟨?_, ?_⟩, by decide, by decide⟩ <;> (intro xs h; cases h)

example : (COp.getitem (.two (.int 1) (.sel (.idx [2, 0])))).Valid exT ∧
    obs ((⟨.numpy, exT, ["g0", "g1"], ["a", "not b", "c"]⟩ : Ctx).runC (.getitem (.two (.int 1) (.sel (.idx [2, 0])))))
      = .ctx ⟨[[true, false]], 2⟩ ["g1"] ["c", "a"] := by
  refine ⟨⟨by show (1 : Nat) < 2; decide, ?_⟩, by decide⟩
  intro x hx; simp at hx; rcases hx with rfl | rfl <;> decide

/-! ### histories on one object -/

/-- HISTORIES.  A table object that lives through any sequence of operations and `bt.data = ...`
    assignments answers every operation with the specification value for the content it holds at
    that moment — on every backend: no answer depends on what was asked or held before. -/
theorem histories_backend_independent (b : Backend) (t : Table) (steps : List Step) (hwf : t.WF)
    (hv : HistValid t steps) :
    runHist b t steps = Spec.Table.runHist t steps := by
  induction steps generalizing t with
  | nil => rfl
  | cons st rest ih =>
    cases st with
    | query op =>
      simp only [runHist, Spec.Table.runHist]
      rw [backend_run_eq_spec b op t hwf hv.1, ih t hwf hv.2]
    | setData rows =>
      simp only [runHist, Spec.Table.runHist, setData_eq]
      exact ih _ (Table.ofRows_wf_of_rect hv.1) hv.2

/-- hence the same history gives the same answers on any two backends -/
theorem histories_agree (b b' : Backend) (t : Table) (steps : List Step) (hwf : t.WF) (hv : HistValid t steps) :
    runHist b t steps = runHist b' t steps := by
  rw [histories_backend_independent b t steps hwf hv, histories_backend_independent b' t steps hwf hv]

/-- the same for a context through `ctx.data.data = ...`, `ctx.object_names = ...`,
    `ctx.attribute_names = ...` -/
theorem context_histories_backend_independent (K : Ctx) (steps : List CStep) (hwf : K.table.WF)
    (hobj : K.objNames.length = K.nObjects) (hattr : K.attrNames.length = K.nAttributes)
    (hv : CHistValid K.table steps) :
    (K.runHist steps).map obs = Spec.Table.runHistC K.table K.objNames K.attrNames steps := by
  induction steps generalizing K with
  | nil => rfl
  | cons st rest ih =>
    cases st with
    | query op =>
      simp only [Ctx.runHist, Spec.Table.runHistC, List.map_cons]
      rw [(context_ops_backend_independent K hwf hobj hattr op hv.1).1, ih K hwf hobj hattr hv.2]
    | setData rows =>
      simp only [Ctx.runHist, Spec.Table.runHistC, setData_eq]
      obtain ⟨hrect, hh, hw, hrest⟩ := hv
      exact ih { K with table := Table.ofRows rows } (Table.ofRows_wf_of_rect hrect)
        (by simpa [Ctx.nObjects] using hobj.trans hh.symm) (by simpa [Ctx.nAttributes] using hattr.trans hw.symm) hrest
    | setObjNames ns =>
      simp only [Ctx.runHist, Spec.Table.runHistC]
      exact ih { K with objNames := ns } hwf hv.1 hattr hv.2
    | setAttrNames ns =>
      simp only [Ctx.runHist, Spec.Table.runHistC]
      exact ih { K with attrNames := ns } hwf hobj hv.1 hv.2

example : HistValid exT [.query .transpose, .setData [[false, true]], .query .transpose, .query (.getitem (.one (.int 0)))] ∧
    runHist .lists exT [.query .transpose, .setData [[false, true]], .query .transpose, .query (.getitem (.one (.int 0)))]
      = [.table ⟨[[true, false], [false, true], [true, true]], 2⟩, .table ⟨[[false], [true]], 1⟩, .bools [false, true]] := by
  refine ⟨⟨trivial, ?_, trivial, ?_, trivial⟩, by decide⟩
  · intro r hr; simp at hr; subst hr; rfl
  · show (0 : Nat) < 1; decide

end Fca.C05

/-! ### the same statements for the definitions GENERATED from the Python source

  `Fca.Gen.Lists.*` (`Fca/Gen/Generated.lean`) is what `harness/py2lean.py` makes of the current source of
  `BinTableLists`; `Fca/Gen/Equiv.lean` proves each of them equal to the hand-written model, so the specification
  value is reached by the source-derived definition itself (in `Except PyErr`: on in-range arguments no `IndexError`). -/
namespace Fca.C05
open Fca Fca.Spec.Table

section
variable (t : Table) (hwf : t.WF) (rows cols : Option (List Nat))
  (hr : OptIdx.Valid rows t.height) (hc : OptIdx.Valid cols t.width)
include hwf hr hc

theorem gen_lists_all_spec : Gen.Lists.allAll t rows cols
    = .ok (Spec.Table.all t (rows.getD (allRows t)) (cols.getD (allCols t))) := by
  rw [Gen.Lists.allAll_eq_model t hwf rows cols hr hc, L.allAll_spec t hwf rows cols hr]

theorem gen_lists_any_spec : Gen.Lists.anyAny t rows cols
    = .ok (Spec.Table.any t (rows.getD (allRows t)) (cols.getD (allCols t))) := by
  rw [Gen.Lists.anyAny_eq_model t hwf rows cols hr hc, L.anyAny_spec t hwf rows cols hr]

theorem gen_lists_all_per_row_spec : Gen.Lists.allPerRow t rows cols
    = .ok (Spec.Table.allPerRow t (rows.getD (allRows t)) (cols.getD (allCols t))) := by
  rw [Gen.Lists.allPerRow_eq_model t hwf rows cols hr hc, L.allPerRow_spec t hwf rows cols hr]

theorem gen_lists_any_per_row_spec : Gen.Lists.anyPerRow t rows cols
    = .ok (Spec.Table.anyPerRow t (rows.getD (allRows t)) (cols.getD (allCols t))) := by
  rw [Gen.Lists.anyPerRow_eq_model t hwf rows cols hr hc, L.anyPerRow_spec t hwf rows cols hr]

theorem gen_lists_all_per_column_spec : Gen.Lists.allPerColumn t rows cols
    = .ok (Spec.Table.allPerColumn t (rows.getD (allRows t)) (cols.getD (allCols t))) := by
  rw [Gen.Lists.allPerColumn_eq_model t hwf rows cols hr hc, L.allPerColumn_spec t rows cols]

theorem gen_lists_any_per_column_spec : Gen.Lists.anyPerColumn t rows cols
    = .ok (Spec.Table.anyPerColumn t (rows.getD (allRows t)) (cols.getD (allCols t))) := by
  rw [Gen.Lists.anyPerColumn_eq_model t hwf rows cols hr hc, L.anyPerColumn_spec t rows cols]

theorem gen_lists_sum_per_row_spec : Gen.Lists.sumPerRow t rows cols
    = .ok (Spec.Table.sumPerRow t (rows.getD (allRows t)) (cols.getD (allCols t))) := by
  rw [Gen.Lists.sumPerRow_eq_model t hwf rows cols hr hc, L.sumPerRow_spec t hwf rows cols hr]

theorem gen_lists_sum_per_column_spec : Gen.Lists.sumPerColumn t rows cols
    = .ok (Spec.Table.sumPerColumn t (rows.getD (allRows t)) (cols.getD (allCols t))) := by
  rw [Gen.Lists.sumPerColumn_eq_model t hwf rows cols hr hc, L.sumPerColumn_spec t rows cols]

theorem gen_lists_sum_spec : Gen.Lists.sumAll t rows cols
    = .ok (Spec.Table.sum t (rows.getD (allRows t)) (cols.getD (allCols t))) := by
  rw [Gen.Lists.sumAll_eq_model t hwf rows cols hr hc]
  simp only [L.sumAll, Spec.Table.sum, L.sumPerRow_spec t hwf rows cols hr]

end

/-- `all_i(axis, rows, cols)` / `any_i(...)` of the lists backend for `axis = 0, 1` (`AbstractBinTable.all_i / any_i`
    specialised to the axis and to a `BinTableLists` receiver): the specification value of `Op.allI / Op.anyI` -/
theorem gen_lists_all_i_spec (t : Table) (hwf : t.WF) (rows cols : Option (List Nat))
    (hr : OptIdx.Valid rows t.height) (hc : OptIdx.Valid cols t.width) :
    Res.nats <$> Gen.Lists.allI0 t rows cols = .ok (Spec.Table.run (.allI 0 rows cols) t) ∧
    Res.nats <$> Gen.Lists.allI1 t rows cols = .ok (Spec.Table.run (.allI 1 rows cols) t) := by
  rw [Gen.Lists.allI0_eq_model t hwf rows cols hr hc, Gen.Lists.allI1_eq_model t hwf rows cols hr hc]
  have h0 := allIRes_spec t hwf .lists rows cols hr hc 0
  have h1 := allIRes_spec t hwf .lists rows cols hr hc 1
  simp [allIRes] at h0 h1
  exact ⟨congrArg Except.ok h0, congrArg Except.ok h1⟩

theorem gen_lists_any_i_spec (t : Table) (hwf : t.WF) (rows cols : Option (List Nat))
    (hr : OptIdx.Valid rows t.height) (hc : OptIdx.Valid cols t.width) :
    Res.nats <$> Gen.Lists.anyI0 t rows cols = .ok (Spec.Table.run (.anyI 0 rows cols) t) ∧
    Res.nats <$> Gen.Lists.anyI1 t rows cols = .ok (Spec.Table.run (.anyI 1 rows cols) t) := by
  rw [Gen.Lists.anyI0_eq_model t hwf rows cols hr hc, Gen.Lists.anyI1_eq_model t hwf rows cols hr hc]
  have h0 := anyIRes_spec t hwf .lists rows cols hr hc 0
  have h1 := anyIRes_spec t hwf .lists rows cols hr hc 1
  simp [anyIRes] at h0 h1
  exact ⟨congrArg Except.ok h0, congrArg Except.ok h1⟩

/-- `_get_row(i, cols)` with `cols` an index list or `None` (slices are outside the translated subset) -/
theorem gen_lists_get_row_spec (t : Table) (hwf : t.WF) (i : Nat) (cols : Option (List Nat))
    (hi : i < t.height) (hc : OptIdx.Valid cols t.width) :
    Gen.Lists.getRow t i cols = .ok (rowSel t i (cols.getD (allCols t))) := by
  rw [Gen.Lists.getRow_eq_model t hwf i cols hi hc]
  cases cols with
  | none =>
    have h := L.getitem_eq t hwf (.one (.int i)) hi
    simp only [L.getitem, getitemDispatch, Spec.Table.getitem, Res.bools.injEq] at h
    rw [Option.map_none, h]; rfl
  | some cs =>
    have h := L.getitem_eq t hwf (.two (.int i) (.sel (.idx cs))) ⟨hi, hc cs rfl⟩
    simp only [L.getitem, getitemDispatch, Spec.Table.getitem, Res.bools.injEq] at h
    rw [Option.map_some, h]; rfl

/-- `_get_column(rows, j)` with `rows` an index list -/
theorem gen_lists_get_column_spec (t : Table) (hwf : t.WF) (rs : List Nat) (j : Nat)
    (hrs : ∀ i ∈ rs, i < t.height) (hj : j < t.width) :
    Gen.Lists.getColumn t rs j = .ok (colSel t rs j) := by
  rw [Gen.Lists.getColumn_eq_model t hwf rs j hrs hj]
  have h := L.getitem_eq t hwf (.two (.sel (.idx rs)) (.int j)) ⟨hrs, hj⟩
  simp only [L.getitem, getitemDispatch, Spec.Table.getitem, Res.bools.injEq] at h
  rw [h]; rfl

/-- `&`, with its shape assertion -/
theorem gen_lists_and_spec (t : Table) (hwf : t.WF) (o : Table) (ho : o.WF) :
    exceptRes (Gen.Lists.band t o) = Spec.Table.run (.and o) t := by
  rw [Gen.Lists.band_eq_model]; exact and_spec t hwf .lists o ho

/-- `|`, with its shape assertion -/
theorem gen_lists_or_spec (t : Table) (hwf : t.WF) (o : Table) (ho : o.WF) :
    exceptRes (Gen.Lists.bor t o) = Spec.Table.run (.or o) t := by
  rw [Gen.Lists.bor_eq_model]; exact or_spec t hwf .lists o ho

theorem gen_lists_invert_spec (t : Table) (hwf : t.WF) :
    Gen.Lists.invert t = .ok (Spec.Table.invert t) := by
  rw [Gen.Lists.invert_eq_model]; exact congrArg Except.ok (invert_spec t hwf .lists)

/-- the hypotheses are met, and the generated definition computes: a concrete run -/
example : Gen.Lists.allPerColumn ⟨[[true, false, true], [false, true, true]], 3⟩ (some [1, 0]) (some [2, 0])
    = .ok [true, false] := by rfl

end Fca.C05

/-! ### the rest of the lists backend's surface, for the definitions GENERATED from the Python source

  `_get_subtable`, `_get_item`, `T`, `to_list`, `==`, `len` and the `axis` dispatch of `all / any / sum` for
  `axis = None` (and of `sum` for `axis = 0, 1`), as `harness/py2lean.py` translates their current source for a
  `BinTableLists` receiver (index lists; slices are outside the translated subset); `Fca/Gen/EquivOps.lean` proves
  them equal to the hand-written model, so the specification value is reached by the source-derived definition. -/
namespace Fca.C05
open Fca Fca.Spec.Table

/-- `table[rows]` / `table[rows, cols]` with index lists: the sub-table of the selected cells -/
theorem gen_lists_get_subtable_spec (t : Table) (hwf : t.WF) (rs : List Nat) (cols : Option (List Nat))
    (hrs : ∀ i ∈ rs, i < t.height) (hc : OptIdx.Valid cols t.width) :
    Gen.Lists.getSubtable t rs cols = .ok (sub t rs (cols.getD (allCols t))) := by
  rw [Gen.Lists.getSubtable_eq_model t hwf rs cols hrs hc]
  cases cols with
  | none =>
    have h := L.getitem_eq t hwf (.one (.sel (.idx rs))) hrs
    simp only [L.getitem, getitemDispatch, Spec.Table.getitem, Res.table.injEq] at h
    rw [Option.map_none, h]; rfl
  | some cs =>
    have h := L.getitem_eq t hwf (.two (.sel (.idx rs)) (.sel (.idx cs))) ⟨hrs, hc cs rfl⟩
    simp only [L.getitem, getitemDispatch, Spec.Table.getitem, Res.table.injEq] at h
    rw [Option.map_some, h]; rfl

/-- `table[i, j]` -/
theorem gen_lists_get_item_spec (t : Table) (hwf : t.WF) (i j : Nat) (hi : i < t.height) (hj : j < t.width) :
    Gen.Lists.getItem t i j = .ok (t.get i j) := by
  rw [Gen.Lists.getItem_eq_model t hwf i j hi hj]
  have h := L.getitem_eq t hwf (.two (.int i) (.int j)) ⟨hi, hj⟩
  simp only [L.getitem, getitemDispatch, Spec.Table.getitem, Res.bool.injEq] at h
  rw [h]

/-- `T` -/
theorem gen_lists_transpose_spec (t : Table) (hwf : t.WF) :
    Gen.Lists.transpose t = .ok (Spec.Table.transpose t) := by
  rw [Gen.Lists.transpose_eq_model t hwf, (transpose_LB t).1]

/-- `to_list()` -/
theorem gen_lists_to_list_spec (t : Table) (hwf : t.WF) : Gen.Lists.toList t = .ok (Spec.Table.toList t) := by
  rw [Gen.Lists.toList_eq_model t]
  exact congrArg Except.ok (toList_spec t hwf .lists)

/-- `==` between two lists-backed tables: same shape and same cells -/
theorem gen_lists_eq_spec (t : Table) (hwf : t.WF) (o : Table) (ho : o.WF) :
    Gen.Lists.tableEq t o = .ok (Spec.Table.eq t o) := by
  rw [Gen.Lists.tableEq_eq_model t o, tableEq_spec t hwf .lists .lists o ho]

/-- `len(table)` -/
theorem gen_lists_len_spec (t : Table) : Gen.Lists.tableLen t = .ok t.height := Gen.Lists.tableLen_eq_model t

section
variable (t : Table) (hwf : t.WF) (rows cols : Option (List Nat))
  (hr : OptIdx.Valid rows t.height) (hc : OptIdx.Valid cols t.width)
include hwf hr hc

/-- `all(None, rows, cols)`, `any(None, …)`, `sum(None, …)`, `sum(0, …)`, `sum(1, …)` as dispatched by
    `AbstractBinTable.all / any / sum` on a `BinTableLists` -/
theorem gen_lists_axis_dispatch_spec :
    Gen.Lists.allAxisNone t rows cols = .ok (Spec.Table.all t (rows.getD (allRows t)) (cols.getD (allCols t))) ∧
    Gen.Lists.anyAxisNone t rows cols = .ok (Spec.Table.any t (rows.getD (allRows t)) (cols.getD (allCols t))) ∧
    Gen.Lists.sumAxisNone t rows cols = .ok (Spec.Table.sum t (rows.getD (allRows t)) (cols.getD (allCols t))) ∧
    Gen.Lists.sumAxis0 t rows cols = .ok (Spec.Table.sumPerColumn t (rows.getD (allRows t)) (cols.getD (allCols t))) ∧
    Gen.Lists.sumAxis1 t rows cols = .ok (Spec.Table.sumPerRow t (rows.getD (allRows t)) (cols.getD (allCols t))) := by
  refine ⟨?_, ?_, ?_, ?_, ?_⟩
  · rw [Gen.Lists.allAxisNone_eq_model t hwf rows cols hr hc, L.allAll_spec t hwf rows cols hr]
  · rw [Gen.Lists.anyAxisNone_eq_model t hwf rows cols hr hc, L.anyAny_spec t hwf rows cols hr]
  · rw [Gen.Lists.sumAxisNone_eq_model t hwf rows cols hr hc]
    simp only [L.sumAll, Spec.Table.sum, L.sumPerRow_spec t hwf rows cols hr]
  · rw [Gen.Lists.sumAxis0_eq_model t hwf rows cols hr hc, L.sumPerColumn_spec t rows cols]
  · rw [Gen.Lists.sumAxis1_eq_model t hwf rows cols hr hc, L.sumPerRow_spec t hwf rows cols hr]

end

/-- the generated definitions compute: -/
example : Gen.Lists.transpose ⟨[[true, false, true], [false, true, true]], 3⟩
    = .ok ⟨[[true, false], [false, true], [true, true]], 2⟩ := by rfl

end Fca.C05

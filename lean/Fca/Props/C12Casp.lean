/-
  C12 (addition) — `order_extents_comparison` with the third-party `caspailleur.order` routines MODELLED
  (code-shaped: `Fca.Model.Caspailleur`) instead of assumed.  To be appended to `Props/C12.lean`
  (needs `import Fca.Lemmas.CaspFinal`).

  `Casp.orderExtentsComparisonCode cs` is the whole Python function on the extents `c.extent_i`:
  `n_objects = max(len(extent))`, `isets2bas`, `topological_sorting` (stable sort by
  `(count, tuple(search(True)))` + the `{el: i}` dictionary), both `assert`s, `sort_intents_inclusion`
  (attrs_descendants / common_descendants / `find(True)` / children / trans_children loops),
  `inverse_order`, and the final dict comprehension through `topo_to_id_map`.
  Hypotheses (decidable, evaluated by the driver on every case): `Casp.distinctSetsB` — no extent listed
  twice (as a set); `Casp.interClosedB` — the intersection of any two listed extents is listed (what a
  complete concept set satisfies); `Casp.inRangeB` — every object index is below the largest extent length
  (`Casp.inRange_of_top`: true as soon as the full extent `0..G-1` is listed).
-/
import Fca.Lemmas.CaspFinal
namespace Fca.C12
open Fca Fca.Construct Fca.Spec

/-- `order_extents_comparison(concepts)` — code-shaped model incl. the caspailleur routines — returns a
    dictionary whose keys are all indexes (each once) and whose value at `i` is exactly the set of lower
    covers of `cs[i]` within `cs` under extent inclusion: the statement of `order_extents_covers` with the
    permutation and the cover function COMPUTED instead of taken by contract.  FULL on duplicate-free
    intersection-closed families whose indexes fit `n_objects`. -/
theorem order_extents_comparison_code_exact (cs : List Ext)
    (hr : Casp.inRangeB cs = true) (hd : Casp.distinctSetsB cs = true) (hc : Casp.interClosedB cs = true) :
    ∃ d, Casp.orderExtentsComparisonCode cs = .ok d ∧
      (d.map (·.1)).Perm (List.range cs.length) ∧
      ∀ i, i < cs.length → (dictGet d i).Nodup ∧ SameSetC (dictGet d i) (Spec.covers cs i) :=
  Casp.oe_code_exact cs hr hd hc

/-- the code-shaped model returns the very value the specification-level model is handed by contract -/
theorem order_extents_comparison_code_eq_contract (cs : List Ext)
    (hr : Casp.inRangeB cs = true) (hd : Casp.distinctSetsB cs = true) (hc : Casp.interClosedB cs = true) :
    ∃ idToTopo, idToTopo.Perm (List.range cs.length) ∧
      Casp.orderExtentsComparisonCode cs =
        .ok (orderExtentsComparison cs.length idToTopo (Spec.covers (topoList cs idToTopo))) := by
  obtain ⟨p, hp, e⟩ := Casp.oe_code_eq cs hr hd hc
  exact ⟨p, hp.perm, e⟩

/-- `sort_intents_inclusion(intents, return_transitive_order=True)` on a non-empty list of equal-length
    bitarrays that is duplicate-free, passes `check_topologically_sorted` and is closed under `&`:
    `lattice[i]` = the upper covers of `i` (smallest strict supersets), `trans_lattice[i]` = all strict
    supersets. -/
theorem sort_intents_inclusion_covers (intents : List Casp.Bits) (nA : Nat) (hne : intents ≠ [])
    (hu : Casp.Uniform intents nA) (hnd : intents.Nodup)
    (hs : Casp.checkTopologicallySorted true intents = true) (hc : Casp.Closed intents) :
    ∃ lattice trans, Casp.sortIntentsInclusion intents = .ok (lattice, trans) ∧
      lattice.length = intents.length ∧ trans.length = intents.length ∧
      ∀ i, i < intents.length → ∀ j,
        (Casp.bit (lattice.getD i []) j = true ↔
          (j < intents.length ∧ Casp.UpperCover intents.length (Casp.hasOf intents) i j)) ∧
        (Casp.bit (trans.getD i []) j = true ↔
          (j < intents.length ∧ Casp.SSub (Casp.hasOf intents) i j)) := by
  obtain ⟨st, e, inv⟩ := Casp.sortIntentsInclusion_spec hne hu hs (Casp.fam_of_list hu hnd hs hc)
  exact ⟨st.1, st.2, e, inv.shape1.1, inv.shape2.1, fun i hi j =>
    ⟨inv.lat i (Nat.zero_le _) hi j, inv.trans i (Nat.zero_le _) hi j⟩⟩

/-- `inverse_order` on an `n × n` table is the relation transpose: `new_order[j][i] = order[i][j]` -/
theorem inverse_order_transpose (order : List Casp.Bits) (n : Nat) (hs : Casp.Shape order n n) :
    ∃ inv, Casp.inverseOrder order = .ok inv ∧ Casp.Shape inv n n ∧
      ∀ i j, Casp.bit (inv.getD j []) i = true ↔ Casp.bit (order.getD i []) j = true :=
  Casp.inverseOrder_spec hs

/-- `topological_sorting(elements)`: the sorted list is a permutation of the input that passes
    `check_topologically_sorted`; on duplicate-free input the index map is a permutation of `range n`
    sending every position to the position of its element in the sorted list. -/
theorem topological_sorting_sorted (els : List Casp.Bits) (hnd : els.Nodup) :
    ∃ srt m, Casp.topologicalSorting els true = .ok (srt, m) ∧ srt.Perm els ∧
      Casp.checkTopologicallySorted true srt = true ∧ m.Perm (List.range els.length) ∧
      m = els.map srt.idxOf :=
  ⟨_, _, Casp.topologicalSorting_nodup hnd, Casp.stableSort_perm true els, Casp.stableSort_check els,
    Casp.idxMap_perm (Casp.stableSort_perm true els) hnd, rfl⟩

/-! non-vacuity: the hypotheses hold on the Boolean lattice `2^3` (8 extents, scrambled listing) and on an
    `N5`-shaped closed family; the model's value on them -/

example : Casp.inRangeB [[0], [0, 1, 2], [], [1, 2], [0, 1], [2], [1], [0, 2]] = true ∧
    Casp.distinctSetsB [[0], [0, 1, 2], [], [1, 2], [0, 1], [2], [1], [0, 2]] = true ∧
    Casp.interClosedB [[0], [0, 1, 2], [], [1, 2], [0, 1], [2], [1], [0, 2]] = true := by decide

example : Casp.orderExtentsComparisonCode [[0], [0, 1, 2], [], [1, 2], [0, 1], [2], [1], [0, 2]] =
    .ok [(2, []), (0, [2]), (6, [2]), (5, [2]), (4, [0, 6]), (7, [0, 5]), (3, [6, 5]), (1, [4, 7, 3])] := by
  decide

/-- `N5`: `∅ ⊂ {0} ⊂ {0,1} ⊂ {0,1,2}` and `∅ ⊂ {2} ⊂ {0,1,2}` -/
example : Casp.inRangeB [[0, 1, 2], [0, 1], [2], [0], []] = true ∧
    Casp.distinctSetsB [[0, 1, 2], [0, 1], [2], [0], []] = true ∧
    Casp.interClosedB [[0, 1, 2], [0, 1], [2], [0], []] = true := by decide

example : Casp.orderExtentsComparisonCode [[0, 1, 2], [0, 1], [2], [0], []] =
    .ok [(4, []), (3, [4]), (2, [4]), (1, [3]), (0, [2, 1])] := by decide

/-- **why the family must be intersection-closed**: `{0,1} ∩ {0,2} = {0}` is missing from this list; while
    `∅` (index 4) is processed, every element of `{1,2}` (index 3) is first found in an earlier-listed
    superset of `∅` (`1` in `{0,1}`, `2` in `{0,2}`), so `{1,2}` is never recorded as an upper neighbour of
    `∅`: the routine answers "`{1,2}` has no lower neighbour" although `∅` is one. -/
theorem not_closed_witness :
    Casp.interClosedB [[0, 1, 2], [0, 1], [0, 2], [1, 2], []] = false ∧
    Casp.inRangeB [[0, 1, 2], [0, 1], [0, 2], [1, 2], []] = true ∧
    Casp.distinctSetsB [[0, 1, 2], [0, 1], [0, 2], [1, 2], []] = true ∧
    Casp.orderExtentsComparisonCode [[0, 1, 2], [0, 1], [0, 2], [1, 2], []] =
      .ok [(4, []), (1, [4]), (2, [4]), (3, []), (0, [1, 2, 3])] ∧
    Spec.covers [[0, 1, 2], [0, 1], [0, 2], [1, 2], []] 3 = [4] := by decide

/-- the two other hypotheses are needed as well: a repeated extent ends in `KeyError` (the `{el: i}`
    dictionary of `topological_sorting` collapses the two copies, `topo_to_id_map` misses a position), an
    index `≥ max(len(extent))` in `IndexError` (`isets2bas`) -/
theorem duplicate_and_range_witness :
    Casp.orderExtentsComparisonCode [[0, 1], [0], [0], []] = .error .KeyError ∧
    Casp.orderExtentsComparisonCode [[2], []] = .error .IndexError ∧
    Casp.orderExtentsComparisonCode [] = .error .ValueError := by decide

end Fca.C12

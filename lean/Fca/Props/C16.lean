/-
  Props/C16 — stability equals its definition and is bracketed by its published bounds.

  Setting: `K` a formal context (any of the three backends) over a well-formed table `t = K.table`;
  `L` the lattice data the measure functions read (`lattice[i] = (extent_i, intent_i)`,
  `lattice.children(i)` in whatever order the frozenset is iterated) with
  `Spec.IsLatticeOf t L`: the concept list enumerates `Spec.allConcepts t` without repetition and
  `children(i)` lists exactly the lower covers of concept `i` (decidable; the driver re-checks it on
  every explored case).  No size bound anywhere.

  Only property theorems live here; helper lemmas are in `Fca/Lemmas/Measures*.lean`.
-/
import Fca.Lemmas.MeasuresEval
import Fca.Lemmas.MeasuresCalc
namespace Fca.C16
open Fca Fca.Measures Fca.Spec

/-- **stability = its definition.**  For every concept `(A, B)` of the table (only `isConcept` is needed, not
    the whole lattice) the powerset loop of `stability` returns
    `|{S ⊆ A | S' = B}| / 2^|A|` — the count taken over `Spec.sublists A` — on every backend,
    including the empty-extent branch. -/
theorem stability_def (K : Ctx) (hwf : K.table.WF) (L : Lattice) (i : Nat) (A B : List Nat)
    (hi : L.concepts[i]? = some (A, B)) (hc : isConcept K.table A B = true) :
    stability i L K = .ok (stabilityDef K.table A B) :=
  stability_eq_def K hwf L hi hc

/-- the same, for every index of a concept lattice -/
theorem stability_def_lattice (K : Ctx) (hwf : K.table.WF) (L : Lattice) (h : IsLatticeOf K.table L)
    (i : Nat) (hi : i < L.concepts.length) :
    stability i L K = .ok (stabilityDef K.table (L.concepts[i]).1 (L.concepts[i]).2) :=
  stability_eq_def K hwf L (List.getElem?_eq_getElem hi)
    (isConcept_of_get h (List.getElem?_eq_getElem hi))

/-- **LStab ≤ stability ≤ UStab** for every concept of every concept lattice, as inequalities of exact
    fractions; both functions return (no exception). -/
theorem stability_bracket (K : Ctx) (hwf : K.table.WF) (L : Lattice) (h : IsLatticeOf K.table L)
    (i : Nat) (hi : i < L.concepts.length) :
    ∃ lb ub s, stabilityBounds i L = .ok (lb, ub) ∧ stability i L K = .ok s ∧ lb ≤ s ∧ s ≤ ub := by
  obtain ⟨⟨A, B⟩, hc⟩ := get_of_lt L hi
  have hcon := isConcept_of_get h hc
  have hs := stability_eq_def K hwf L hc hcon
  have hGN := gen_add_nongen K.table A B
  by_cases hch : L.childrenOf i = []
  · refine ⟨1, 1, _, stabilityBounds_nil L hc hch, hs, ?_⟩
    have hN := nonGenCount_childless h hc hch
    have := bracket_arith (S := 0) (P := 0) hGN (by omega) (by omega)
    simpa [stabilityDef] using this
  · have hcs := children_lt h hc
    have hmap : ((L.childrenOf i).map fun j => pow2neg (setDiffLen A (extOf L j)))
        = (L.childrenOf i).map fun j => ((2 ^ kOf L A j : Nat) : Rat) / ((2 ^ A.length : Nat) : Rat) := by
      apply List.map_congr_left
      intro j _
      exact pow2neg_eq (delta_add_k h hc j)
    obtain ⟨m, hm⟩ := pyMax_ok_of_ne_nil (xs := (L.childrenOf i).map fun j =>
      pow2neg (setDiffLen A (extOf L j))) (by simpa using hch)
    refine ⟨_, _, _, stabilityBounds_cons L hc hcs hch hm, hs, ?_⟩
    have hmem := pyMax_mem hm
    rw [hmap] at hmem
    obtain ⟨j, hj, rfl⟩ := List.mem_map.mp hmem
    rw [hmap, pySum_map_div]
    exact bracket_arith hGN (nonGenCount_le_sum h hc) (pow_le_nonGenCount h hc hj)

/-- **the logarithmic lower bound never exceeds `−log2(1 − stability)`**, stated exponentiated
    (`Spec.LogLe`): the model returns the symbolic float `Δ_min − log2 |M|` (or `+inf − log2 |M|` for a
    childless concept) and `(1 − stability) · 2^{Δ_min} ≤ |M|` (resp. `1 − stability ≤ 0`). -/
theorem log_bound (K : Ctx) (hwf : K.table.WF) (L : Lattice) (h : IsLatticeOf K.table L)
    (hw : K.nAttributes ≠ 0) (i : Nat) (hi : i < L.concepts.length) :
    ∃ b s, logStabilityLbound i L K.nAttributes = .ok b ∧ b.nBin = K.nAttributes ∧
      stability i L K = .ok s ∧ LogLe b s := by
  obtain ⟨⟨A, B⟩, hc⟩ := get_of_lt L hi
  have hcon := isConcept_of_get h hc
  have hs := stability_eq_def K hwf L hc hcon
  have hGN := gen_add_nongen K.table A B
  by_cases hch : L.childrenOf i = []
  · refine ⟨_, _, logStabilityLbound_nil L hc hch hw, rfl, hs, ?_⟩
    have hN := nonGenCount_childless h hc hch
    have := log_arith (d := 0) (c := 0) (w := 0) hGN (by omega) (by omega)
    simpa [LogLe, stabilityDef] using this
  · have hcs := children_lt h hc
    obtain ⟨m, hm⟩ := pyMin_ok_of_ne_nil (xs := (L.childrenOf i).map fun j =>
      setDiffLen A (extOf L j)) (by simpa using hch)
    refine ⟨_, _, logStabilityLbound_cons L hc hcs hch hm hw, rfl, hs, ?_⟩
    obtain ⟨_, hmin⟩ := pyMin_spec hm
    have hk : ∀ j ∈ L.childrenOf i, kOf L A j + m ≤ A.length := by
      intro j hj
      have := hmin _ (List.mem_map.mpr ⟨j, hj, rfl⟩)
      have := delta_add_k h hc j
      omega
    have h1 := sum_pow_mul_le (L.childrenOf i) (kOf L A) m A.length hk
    have h2 : nonGenCount K.table A B * 2 ^ m ≤ (L.childrenOf i).length * 2 ^ A.length :=
      Nat.le_trans (Nat.mul_le_mul_right _ (nonGenCount_le_sum h hc)) h1
    have hcw : (L.childrenOf i).length ≤ K.nAttributes := children_length_le_width h hc
    exact log_arith hGN h2 hcw

/-- **one value per concept, equally long arrays.**  Starting from concepts without measures, after any
    non-empty sequence of `calc_concepts_measures(name, K)` calls with the C16 measure names, the `measures`
    property returns (its `assert` passes) at least one array; every array has exactly one entry per concept,
    none of them `None`, and entry `i` of the array `k` is the value of that measure for concept `i`. -/
theorem measures_arrays (K : Ctx) (hwf : K.table.WF) (L : Lattice) (h : IsLatticeOf K.table L)
    (hw : K.nAttributes ≠ 0) (names : List String) (hnames : ∀ m ∈ names, inScope m) (hne : names ≠ []) :
    ∃ st arrays, runCalls L K names (List.replicate L.concepts.length []) = .ok st ∧
      st.length = L.concepts.length ∧
      measures st = .ok arrays ∧ arrays ≠ [] ∧
      ∀ p ∈ arrays, p.2.length = L.concepts.length ∧
        ∀ i, i < L.concepts.length → ∃ v, p.2[i]? = some (some v) ∧ valueOf L K p.1 i = .ok v := by
  obtain ⟨st, keys, hrun, hlen, hnd, hu, hv, hk⟩ := runCalls_spec K hwf L h hw names hnames []
    (List.replicate L.concepts.length []) List.nodup_nil (by simp)
    (by intro d hd; rw [(List.mem_replicate.mp hd).2]; rfl) (ValOK_replicate_nil _ _ _)
  have hst : st ≠ [] := by
    intro hs
    have h0 : L.concepts.length = 0 := by rw [← hlen, hs]; rfl
    exact concepts_ne_nil h (List.length_eq_zero_iff.mp h0)
  refine ⟨st, _, hrun, hlen, measures_uniform keys hnd st hu hst, ?_, ?_⟩
  · have := hk hne
    simpa using this
  · intro p hp
    obtain ⟨k, hkk, rfl⟩ := List.mem_map.mp hp
    refine ⟨by simp [hlen], ?_⟩
    intro i hi
    have hi' : i < st.length := by omega
    have hd : st[i]? = some st[i] := List.getElem?_eq_getElem hi'
    have hkeys : keysOf st[i] = keys := hu _ (List.getElem_mem hi')
    obtain ⟨v, hv'⟩ := lookup_isSome_of_mem (d := st[i]) (k := k) (by rw [← hkeys] at hkk; exact hkk)
    refine ⟨v, ?_, ?_⟩
    · simp [List.getElem?_map, hd, hv']
    · have := ValOK_get 0 st hv i st[i] hd k v hv'
      simpa using this

/-! ### the hypotheses are satisfiable, and the statements are not vacuous

A 4 × 3 table with an empty row; its lattice has 8 concepts, the top one has three children, the bounds of
the top concept are strict (`1/4 < 9/16 < 3/4`) and the bottom concept has an empty extent. -/

def exT : Table :=
  ⟨[[true, false, true], [false, true, true], [true, true, false], [false, false, false]], 3⟩
def exK : Ctx := ⟨.bitarray, exT, [], []⟩
def exL : Lattice :=
  ⟨[([0, 1, 2, 3], []), ([0, 1], [2]), ([0, 2], [0]), ([1, 2], [1]), ([0], [0, 2]), ([1], [1, 2]),
    ([2], [0, 1]), ([], [0, 1, 2])],
   [[3, 1, 2], [4, 5], [4, 6], [5, 6], [7], [7], [7], []]⟩

example : exT.WF := by decide
example : IsLatticeOf exT exL := (isLatticeOfB_iff _ _).mp (by decide +kernel)
example : exK.nAttributes ≠ 0 := by decide
example : inScope "stability" ∧ inScope "LStab" ∧ inScope "log_stability_lbound" := by
  refine ⟨?_, ?_, ?_⟩ <;> simp [inScope]
/-- the three values of the top concept: `LStab = 1/4 < Stab = 9/16 < UStab = 3/4`, log bound `2 − log2 3` -/
example : stabilityBounds 0 exL = .ok (1 / 4, 3 / 4) ∧ stability 0 exL exK = .ok (9 / 16) ∧
    logStabilityLbound 0 exL 3 = .ok ⟨some 2, 3⟩ := by decide +kernel
/-- `LogLe` really is the exponentiated inequality: `(1 − 9/16)·2² = 7/4 ≤ 3`, and it fails for `Δ = 3` -/
example : LogLe ⟨some 2, 3⟩ (9 / 16) ∧ ¬ LogLe ⟨some 3, 3⟩ (9 / 16) := by decide +kernel

end Fca.C16

/-
  Props/C11 — semilattices and lattices keep a unique top/bottom; incremental equals batch.

  Model: `Fca.Model.SemiLattice` (state machine mirroring `fcapy/poset/lattice.py` on top of the `POSet` model;
  `ConceptLattice.add/remove` is the same machine with class tag `.lattice`).  Specification:
  `Fca.Spec.SemiLattice` (brute-force greatest / least element, the refusal table, the next element list).
  Only property theorems live here; helper lemmas are in `Fca/Lemmas/SemiLattice*.lean`.

  Environment of every theorem: `leq` is a partial order (`PO`) on the universe `U` of all elements ever present,
  the current elements are duplicate free and lie in `U`; `ord` (the order in which Python iterates a set inside
  `POSet`) is arbitrary.  `InvTop` (spelled out in `Lemmas/SemiLatticeStep`) is the invariant of the property: on
  every side the class guards there is a greatest / least element among the current elements and, on a caching
  instance, `_cache_top` / `_cache_bottom` is its index.  It does not mention the five `POSet` caches: the guard
  logic and the index bookkeeping are proved without assuming anything about them.
-/
import Fca.Lemmas.SemiLatticeOrder
import Fca.Props.C09
namespace Fca.C11
open Fca Fca.Poset Fca.Poset.Fresh Fca.SemiLattice Fca.SemiLattice.Spec

section
variable {α : Type} [DecidableEq α] {leq : α → α → Bool} {ord : List Nat → List Nat} {U : α → Prop}

/-- FULL.  The constructor of `UpperSemiLattice` / `LowerSemiLattice` / `Lattice` accepts a (duplicate-free)
    element list iff it is non-empty and has a greatest (resp. least, resp. both) element - equivalently: exactly
    one maximal (minimal) element, which is what the code counts (`len(tops) == 1`); a greatest element is unique.
    When it accepts, the elements are kept as given and the invariant `InvTop` holds (and the poset caches
    filled by the check are sound); otherwise it raises `ValueError`. -/
theorem ctor_iff_unique_extreme (hpoU : PO leq U) (cls : Cls) (E : List α) (c : Bool) (hnd : E.Nodup)
    (hU : ∀ a ∈ E, U a) :
    ((E ≠ [] ∧ HasExtremes leq cls E) ↔ ∃ s, ctor leq cls E c = .ok s) ∧
    (∀ s, ctor leq cls E c = .ok s →
      s.cls = cls ∧ s.p.elems = E ∧ s.p.useCache = c ∧ InvTop leq s ∧ C09.Inv leq s.p) ∧
    (¬ (E ≠ [] ∧ HasExtremes leq cls E) → ctor leq cls E c = .error .ValueError) ∧
    (HasExtremes leq cls E ↔ ∀ d, cls.has d = true → (extremes leq d E).length = 1) ∧
    (∀ d t t', isExt leq d E t = true → isExt leq d E t' = true → t = t') := by
  obtain ⟨hyes, hno⟩ := ctor_spec (leq := leq) hpoU cls E c hnd hU
  have hpo : IdxPO leq E := idxPO_of hpoU hnd hU
  refine ⟨⟨fun h => ?_, fun h => ?_⟩, fun s hs => ?_, hno, ?_, fun d t t' h h' => isExt_unique hpo h h'⟩
  · obtain ⟨s, hs, _⟩ := hyes h
    exact ⟨s, hs⟩
  · obtain ⟨s, hs⟩ := h
    apply Classical.byContradiction
    intro hn
    rw [hno hn] at hs
    cases hs
  · have hP : E ≠ [] ∧ HasExtremes leq cls E := by
      apply Classical.byContradiction
      intro hn
      rw [hno hn] at hs
      cases hs
    obtain ⟨s', hs', h1, h2, h3, h4, h5⟩ := hyes hP
    rw [hs] at hs'
    cases hs'
    refine ⟨h1, h2, h3, h4, by rw [h2]; exact hnd, ?_⟩
    rw [h2, h3]; exact h5
  · exact ⟨fun h d hd => (extremes_length_one_iff hpo).mpr (h d hd),
      fun h d hd => (extremes_length_one_iff hpo).mp (h d hd)⟩

/-- FULL.  Soundness of the executable check `Spec.invTopCheck` the driver runs on the model state after every step. -/
theorem invTop_of_check (hpoU : PO leq U) (s : SL α) (hnd : s.p.elems.Nodup) (hU : ∀ a ∈ s.p.elems, U a)
    (h : invTopCheck leq s = true) : InvTop leq s := by
  have hpo : IdxPO leq s.p.elems := idxPO_of hpoU hnd hU
  refine ⟨fun d hd => ?_⟩
  have hmem : d ∈ dirsOf s.cls := by
    cases hc : s.cls <;> cases d <;> simp [dirsOf, hc, Cls.has] at hd ⊢
  unfold invTopCheck at h
  rw [List.all_eq_true] at h
  have := h d hmem
  split at this
  · cases this
  · rename_i t hg
    refine ⟨t, (greatest_eq_some_iff hpo).mp hg, fun hu => ?_⟩
    simpa [hu] using this

/-- FULL.  `Spec.refusal` lists exactly which `add` / `del` / `remove` a semilattice refuses and with which
    exception (`add` of an element incomparable with the top (bottom) element: `ValueError`; `del` of the top
    (bottom) index: `KeyError`, out of range: `IndexError`; `remove` of the top (bottom) element: `ValueError`, of an
    absent element: `KeyError`).  Every refused operation raises exactly that exception and returns the state
    UNCHANGED - the whole state: elements, cached indexes and all poset caches. -/
theorem rejected_ops_noop (hpoU : PO leq U) (s : SL α) (hI : InvTop leq s) (hnd : s.p.elems.Nodup)
    (hU : ∀ a ∈ s.p.elems, U a) (o : Op α) (hin : OpIn U o) (e : PyErr)
    (h : refusal leq s.cls s.p.elems o = some e) :
    stepSL leq ord s (.op o) = (s, .err e) :=
  (stepSL_spec (ord := ord) hpoU hI hnd hU (.op o) hin).1 e h

/-- FULL.  (1) Under the invariant the properties `top` / `bottom` (and `tops` / `bottoms`) report the index of the
    actual greatest / least element of the current elements and change nothing.
    (2) Every step preserves the invariant: a query always; a mutation whenever it returns normally (an accepted
    step) - then the element list is the specified one (`add`: appended unless present; `del`/`remove`: that
    position erased) and the cached indexes have been moved accordingly; a refused mutation leaves the state
    equal (`rejected_ops_noop`).  No assumption on the `POSet` caches is needed. -/
theorem extreme_index_correct (hpoU : PO leq U) (s : SL α) (hI : InvTop leq s) (hnd : s.p.elems.Nodup)
    (hU : ∀ a ∈ s.p.elems, U a) :
    (∀ d, s.cls.has d = true → ∃ t, stepSL leq ord s (.extreme d) = (s, .nat t) ∧
      stepSL leq ord s (.op (.extremes d)) = (s, .list [t]) ∧ isExt leq d s.p.elems t = true ∧
      greatest leq d s.p.elems = some t) ∧
    (∀ op : OpSL α, OpInSL U op →
      (isMutationSL op = false ∨ ∀ e, (stepSL leq ord s op).2 ≠ .err e) →
      InvTop leq (stepSL leq ord s op).1 ∧ (stepSL leq ord s op).1.p.elems = nextSL leq s.cls s.p.elems op ∧
      (stepSL leq ord s op).1.cls = s.cls ∧ (stepSL leq ord s op).1.p.useCache = s.p.useCache) := by
  have hpo : IdxPO leq s.p.elems := idxPO_of hpoU hnd hU
  refine ⟨fun d hd => ?_, fun op hin hacc => (stepSL_spec (ord := ord) hpoU hI hnd hU op hin).2 hacc⟩
  obtain ⟨t, ht, hc⟩ := hI.ext d hd
  refine ⟨t, ?_, ?_, ht, (greatest_eq_some_iff hpo).mpr ht⟩
  · simp only [stepSL, hd, ↓reduceIte, extremeE_run hpo ht hc, outOf]
  · simp only [stepSL, extremesSL_run hpo hd ht hc, outOf]

/-- FULL (for the histories it speaks about).  After EVERY history in which no mutation dies of an exception other
    than the specified refusal (`NoInternalError`; queries may raise what they like), the invariant holds, the
    element list is the specified one, and therefore `top` / `bottom` report the actual greatest / least
    element.  (`all_histories` discharges `NoInternalError` for every history from a constructed semilattice.) -/
theorem extreme_index_correct_history (hpoU : PO leq U) (ops : List (OpSL α)) (s : SL α) (hI : InvTop leq s)
    (hnd : s.p.elems.Nodup) (hU : ∀ a ∈ s.p.elems, U a) (hin : ∀ op ∈ ops, OpInSL U op)
    (hclean : NoInternalError leq ord s ops) :
    InvTop leq (runSL leq ord s ops).1 ∧ (runSL leq ord s ops).1.p.elems = nextsSL leq s.cls s.p.elems ops ∧
      (runSL leq ord s ops).1.cls = s.cls ∧ (runSL leq ord s ops).1.p.useCache = s.p.useCache :=
  runSL_spec hpoU ops hI hnd hU hin hclean

/-- FULL (element set, extreme elements, batch constructor).  Take any two structures of the same class that
    satisfy the invariant and list the same element SET (in any two orders) - e.g. the results of adding, or of
    removing, the same elements one at a time in two different orders (`incremental_sets` below) - and any
    duplicate-free batch listing `Eb` of that set.  Then the batch constructor accepts `Eb`, the batch structure
    satisfies the complete invariant `InvAll` (so `incremental_eq_batch_order` applies to it), and the top /
    bottom of all three structures denote the same element. -/
theorem incremental_eq_batch (hpoU : PO leq U) (s1 s2 : SL α) (hI1 : InvTop leq s1) (_hI2 : InvTop leq s2)
    (_hc : s1.cls = s2.cls) (hnd1 : s1.p.elems.Nodup) (hnd2 : s2.p.elems.Nodup) (hU1 : ∀ a ∈ s1.p.elems, U a)
    (hsame : ∀ x, x ∈ s1.p.elems ↔ x ∈ s2.p.elems)
    (Eb : List α) (c : Bool) (hndb : Eb.Nodup) (hb : ∀ x, x ∈ s1.p.elems ↔ x ∈ Eb) :
    ∃ b, ctor leq s1.cls Eb c = .ok b ∧ InvAll leq b ∧ C09.Inv leq b.p ∧ b.p.elems = Eb ∧
      ∀ d, s1.cls.has d = true → ∃ x, greatestElem leq d s1.p.elems = some x ∧
        greatestElem leq d s2.p.elems = some x ∧ greatestElem leq d b.p.elems = some x := by
  have hU2 : ∀ a ∈ s2.p.elems, U a := fun a ha => hU1 a ((hsame a).mpr ha)
  have hUb : ∀ a ∈ Eb, U a := fun a ha => hU1 a ((hb a).mpr ha)
  have hH1 : HasExtremes leq s1.cls s1.p.elems := fun d hd => by
    obtain ⟨t, ht, _⟩ := hI1.ext d hd
    exact ⟨t, ht⟩
  have hne : Eb ≠ [] := by
    intro h
    cases hcl : s1.cls <;> rw [hcl] at hH1
    · obtain ⟨t, ht⟩ := hH1 .anc rfl
      have := List.getElem_mem (isExt_iff.mp ht).1
      rw [hb, h] at this; cases this
    · obtain ⟨t, ht⟩ := hH1 .desc rfl
      have := List.getElem_mem (isExt_iff.mp ht).1
      rw [hb, h] at this; cases this
    · obtain ⟨t, ht⟩ := hH1 .anc rfl
      have := List.getElem_mem (isExt_iff.mp ht).1
      rw [hb, h] at this; cases this
  obtain ⟨hiff, hok, _, _, _⟩ := ctor_iff_unique_extreme (leq := leq) hpoU s1.cls Eb c hndb hUb
  obtain ⟨b, hbok⟩ := hiff.mp ⟨hne, hasExtremes_congr hb hH1⟩
  obtain ⟨_, hbe, _, hbI, hbinv⟩ := hok b hbok
  refine ⟨b, hbok, ctor_invAll hpoU s1.cls Eb c hndb hUb hbok, hbinv, hbe, fun d hd => ?_⟩
  obtain ⟨t, ht, _⟩ := hI1.ext d hd
  obtain ⟨x, _, hx⟩ := isExt_iff_elem.mp ht
  refine ⟨x, (greatestElem_eq_some_iff hpoU hnd1 hU1).mpr hx,
    (greatestElem_eq_some_iff hpoU hnd2 hU2).mpr (isExtremeElem_congr hsame hx), ?_⟩
  rw [hbe]
  exact (greatestElem_eq_some_iff hpoU hndb hUb).mpr (isExtremeElem_congr hb hx)

/-- FULL.  The element sets of incremental construction: adding the elements of `l` one at a time (each step
    accepted) yields exactly `E ∪ l`, removing them yields exactly `E \ l` - whatever the order; so two orders (any
    two permutations) give the same set, which is the hypothesis `hsame` of `incremental_eq_batch`.  (By
    `extreme_index_correct_history` the model's element list after such a history is this specified list.) -/
theorem incremental_sets (E : List α) (hnd : E.Nodup) (l1 l2 : List α) (hperm : l1.Perm l2) (f : Bool) (x : α) :
    (x ∈ (l1.map fun e => Op.add e f).foldl next E ↔ x ∈ (l2.map fun e => Op.add e f).foldl next E) ∧
    (x ∈ (l1.map Op.remove).foldl next E ↔ x ∈ (l2.map Op.remove).foldl next E) ∧
    (x ∈ (l1.map fun e => Op.add e f).foldl next E ↔ x ∈ E ∨ x ∈ l1) ∧
    (x ∈ (l1.map Op.remove).foldl next E ↔ x ∈ E ∧ x ∉ l1) := by
  refine ⟨?_, ?_, mem_foldl_add l1 f E x, mem_foldl_remove l1 hnd x⟩
  · rw [mem_foldl_add, mem_foldl_add, hperm.mem_iff]
  · rw [mem_foldl_remove l1 hnd, mem_foldl_remove l2 hnd, hperm.mem_iff]

/-- FULL.  The constructors establish the complete invariant `InvAll` = `InvTop` + duplicate-free elements + C09's
    cache invariant + `DIC` (on a caching instance: wherever the direct relation of an element is cached -
    `_cache_children[k]` / `_cache_parents[k]` - its closed relation `_cache_descendants[k]` / `_cache_ancestors[k]`
    is cached too; `POSet.add`'s neighbour patching reads those entries, and on a semilattice `trace_element` does not
    scan because `self.tops` is `[self.top]`, so the entries must come from the trace itself). -/
theorem ctor_establishes_invariant (hpoU : PO leq U) (cls : Cls) (E : List α) (c : Bool) (hnd : E.Nodup)
    (hU : ∀ a ∈ E, U a) (s : SL α) (hs : ctor leq cls E c = .ok s) : InvAll leq s :=
  ctor_invAll hpoU cls E c hnd hU hs

/-- FULL.  ONE STEP under `InvAll`, any operation of the documented range (`opOkSL`: index arguments of queries in
    range, `fill_up_*` only on a caching instance, `top`/`bottom` only where the class has it) - every `add` (new or
    present element, `fill_up_cache` on or off, cached or not), `del`, `remove`, refused or not, every query: the
    step re-establishes `InvAll`; its output is the specified answer `Spec.answerSL` - the refusal's exception and
    nothing else for a refused mutation, `None` for an accepted one (a non-refused mutation NEVER raises), the `Fresh`
    answer for a query, the index of the actual greatest / least element for `top` / `bottom`; the element list is
    the specified one.  Uses C09's complete step theorems for everything but the cached `add(·, fill_up_cache=True)`,
    which is re-proved for the semilattice (`Lemmas/SemiLatticeAdd`, `SemiLatticePatch`, `SemiLatticeDic`) because
    there `trace_element` starts from the cached extreme index instead of scanning. -/
theorem step_full (henv : C09.Env leq ord U) (s : SL α) (hA : InvAll leq s) (hU : ∀ a ∈ s.p.elems, U a)
    (op : OpSL α) (hok : opOkSL s.cls s.p.elems s.p.useCache op = true) (hin : OpInSL U op) :
    InvAll leq (stepSL leq ord s op).1 ∧ (stepSL leq ord s op).2 = answerSL leq s.cls s.p.elems op ∧
      (stepSL leq ord s op).1.p.elems = nextSL leq s.cls s.p.elems op ∧
      (stepSL leq ord s op).1.cls = s.cls ∧ (stepSL leq ord s op).1.p.useCache = s.p.useCache :=
  stepSL_full henv.po henv.ord_perm hA hU op hok hin

/-- FULL.  For EVERY history in the documented range (`histOk`: each operation `opOkSL` when it is executed) from a
    state satisfying `InvAll` (every constructed semilattice, `ctor_establishes_invariant`): no mutation raises anything
    but its specified refusal (this discharges the hypothesis `NoInternalError` of `extreme_index_correct_history`),
    every output is the specified one (`runFreshSL`: in particular `top`/`bottom` always report the actual
    greatest/least element and refused operations raise exactly the listed exception), the element list is the
    specified one, and `InvAll` holds at the end. -/
theorem all_histories (henv : C09.Env leq ord U) (ops : List (OpSL α)) (s : SL α) (hA : InvAll leq s)
    (hU : ∀ a ∈ s.p.elems, U a) (hin : ∀ op ∈ ops, OpInSL U op)
    (hok : histOk leq s.cls s.p.useCache s.p.elems ops = true) :
    NoInternalError leq ord s ops ∧
    InvAll leq (runSL leq ord s ops).1 ∧ (runSL leq ord s ops).2 = runFreshSL leq s.cls s.p.elems ops ∧
      (runSL leq ord s ops).1.p.elems = nextsSL leq s.cls s.p.elems ops ∧
      (runSL leq ord s ops).1.cls = s.cls ∧ (runSL leq ord s ops).1.p.useCache = s.p.useCache :=
  ⟨noInternalError_of_histOk henv.po henv.ord_perm ops hA hU hin hok,
    runSL_full henv.po henv.ord_perm ops hA hU hin hok⟩

/-- FULL (`InvAll` holds after every history from a constructed semilattice: `all_histories`).  Order queries of incremental = batch, read through ELEMENTS: take two semilattice
    structures satisfying the invariant that list the same element SET in any two orders (e.g. two insertion /
    removal orders, or an incremental and a batch construction).  Then
    (1) comparing two elements through their indexes answers `leq x y` in both;
    (2) the descendants / ancestors (`closed`) and the children / parents (`direct`: the cover relation) of an
        element denote the same element sets in both - namely the elements strictly on that side of `x`, resp. the
        covers, which depend on the set only;
    (3) `POSet.__eq__` of the first with the second listing answers `True`.
    (Top / bottom denote the same elements: `incremental_eq_batch`.) -/
theorem incremental_eq_batch_order (henv : C09.Env leq ord U) (s1 s2 : SL α) (hA1 : InvAll leq s1)
    (hA2 : InvAll leq s2) (hU1 : ∀ a ∈ s1.p.elems, U a)
    (hsame : ∀ x, x ∈ s1.p.elems ↔ x ∈ s2.p.elems) :
    (∀ x y i1 j1 i2 j2, s1.p.elems[i1]? = some x → s1.p.elems[j1]? = some y →
        s2.p.elems[i2]? = some x → s2.p.elems[j2]? = some y →
        (stepSL leq ord s1 (.op (.leq i1 j1))).2 = .bool (leq x y) ∧
        (stepSL leq ord s2 (.op (.leq i2 j2))).2 = .bool (leq x y)) ∧
    (∀ d x i1 i2, s1.p.elems[i1]? = some x → s2.p.elems[i2]? = some x →
        ∃ l1 l2, (stepSL leq ord s1 (.op (.closed d i1))).2 = .set l1 ∧
          (stepSL leq ord s2 (.op (.closed d i2))).2 = .set l2 ∧
          ∀ y, (Denotes s1.p.elems l1 y ↔ Denotes s2.p.elems l2 y) ∧
            (Denotes s1.p.elems l1 y ↔ y ∈ s1.p.elems ∧ strictD leq d y x)) ∧
    (∀ d x i1 i2, s1.p.elems[i1]? = some x → s2.p.elems[i2]? = some x →
        ∃ l1 l2, (stepSL leq ord s1 (.op (.direct d i1))).2 = .set l1 ∧
          (stepSL leq ord s2 (.op (.direct d i2))).2 = .set l2 ∧
          ∀ y, Denotes s1.p.elems l1 y ↔ Denotes s2.p.elems l2 y) ∧
    (stepSL leq ord s1 (.op (.eqOther s2.p.elems))).2 = .bool true := by
  have hU2 : ∀ a ∈ s2.p.elems, U a := fun a ha => hU1 a ((hsame a).mpr ha)
  have lt : ∀ {E : List α} {i : Nat} {x : α}, E[i]? = some x → i < E.length :=
    fun h => (List.getElem?_eq_some_iff.mp h).1
  -- the output of a query step
  have out : ∀ (s : SL α), InvAll leq s → (∀ a ∈ s.p.elems, U a) → ∀ o : Op α, isMutation o = false →
      (∀ d, o ≠ .extremes d) → opOk s.p.elems s.p.useCache o = true →
      (stepSL leq ord s (.op o)).2 = answer leq s.p.elems o := by
    intro s hA hU o ho hne hok
    have h := (stepSL_full (ord := ord) henv.po henv.ord_perm hA hU (.op o) hok
      (by cases o <;> first | trivial | cases ho)).2.1
    rw [h]
    cases o <;> first | exact absurd rfl (hne _) | rfl | cases ho
  refine ⟨fun x y i1 j1 i2 j2 h1 h2 h3 h4 => ?_, fun d x i1 i2 h1 h2 => ?_, fun d x i1 i2 h1 h2 => ?_, ?_⟩
  · have e1 : s1.p.elems[i1]'(lt h1) = x := by
      have := List.getElem?_eq_getElem (lt h1); rw [h1] at this; exact (Option.some.inj this).symm
    have e2 : s1.p.elems[j1]'(lt h2) = y := by
      have := List.getElem?_eq_getElem (lt h2); rw [h2] at this; exact (Option.some.inj this).symm
    have e3 : s2.p.elems[i2]'(lt h3) = x := by
      have := List.getElem?_eq_getElem (lt h3); rw [h3] at this; exact (Option.some.inj this).symm
    have e4 : s2.p.elems[j2]'(lt h4) = y := by
      have := List.getElem?_eq_getElem (lt h4); rw [h4] at this; exact (Option.some.inj this).symm
    constructor
    · rw [out s1 hA1 hU1 (.leq i1 j1) rfl (fun d h => by cases h) (by simp [opOk, lt h1, lt h2])]
      simp [answer, lt h1, lt h2, rel_eq (lt h1) (lt h2), e1, e2]
    · rw [out s2 hA2 hU2 (.leq i2 j2) rfl (fun d h => by cases h) (by simp [opOk, lt h3, lt h4])]
      simp [answer, lt h3, lt h4, rel_eq (lt h3) (lt h4), e3, e4]
  · refine ⟨closed leq d s1.p.elems i1, closed leq d s2.p.elems i2, ?_, ?_, fun y => ?_⟩
    · rw [out s1 hA1 hU1 (.closed d i1) rfl (fun d h => by cases h) (by simp [opOk, lt h1])]
      simp [answer, lt h1]
    · rw [out s2 hA2 hU2 (.closed d i2) rfl (fun d h => by cases h) (by simp [opOk, lt h2])]
      simp [answer, lt h2]
    · have c1 := closed_denotes (leq := leq) hA1.nd (d := d) h1 y
      have c2 := closed_denotes (leq := leq) hA2.nd (d := d) h2 y
      exact ⟨by rw [c1, c2, hsame y], c1⟩
  · refine ⟨direct leq d s1.p.elems i1, direct leq d s2.p.elems i2, ?_, ?_, fun y => ?_⟩
    · rw [out s1 hA1 hU1 (.direct d i1) rfl (fun d h => by cases h) (by simp [opOk, lt h1])]
      simp [answer, lt h1]
    · rw [out s2 hA2 hU2 (.direct d i2) rfl (fun d h => by cases h) (by simp [opOk, lt h2])]
      simp [answer, lt h2]
    · rw [direct_denotes (leq := leq) hA1.nd h1 y, direct_denotes (leq := leq) hA2.nd h2 y, hsame y]
      constructor
      · rintro ⟨a, b, c⟩
        exact ⟨a, b, fun z hz => c z ((hsame z).mpr hz)⟩
      · rintro ⟨a, b, c⟩
        exact ⟨a, b, fun z hz => c z ((hsame z).mp hz)⟩
  · rw [out s1 hA1 hU1 (.eqOther s2.p.elems) rfl (fun d h => by cases h) rfl]
    simp [answer, eqOther_of_same_set (leq := leq) hA1.nd hA2.nd hsame]

end

/-! ### non-vacuity: the hypotheses are met by concrete, non-trivial instances -/

private def subLeq (a b : Nat) : Bool := (a &&& b) == a

/-- a `Lattice` over the bit masks `[0, 7]` (cache on): adding `1`, `6`, re-adding the top `7`, deleting index 2,
    reading `top` / `bottom`, and the refused `del` of the top index / `remove` of the bottom element -/
example : (match ctor subLeq .lattice [0, 7] true with
    | .ok s => Spec.invTopCheck subLeq s &&
        (runSL subLeq id s [.op (.add 1 true), .op (.add 6 true), .op (.add 7 true), .op (.del 2), .extreme .anc,
          .extreme .desc, .op (.del 1), .op (.remove 0)]).2
          == [.unit, .unit, .unit, .unit, .nat 1, .nat 0, .err .KeyError, .err .ValueError]
    | .error _ => false) = true := by decide +kernel

/-- an `UpperSemiLattice` over `[1, 3]`: `add 4` is refused (incomparable with the top `3`), `add 7` moves the top,
    deleting index 0 shifts it; the constructor refuses `[1, 2]` -/
example : (match ctor subLeq .upper [1, 3] true with
    | .ok s =>
        (runSL subLeq id s [.op (.add 4 true), .op (.add 7 true), .extreme .anc, .op (.del 0), .extreme .anc]).2
          == [.err .ValueError, .unit, .nat 2, .unit, .nat 1]
    | .error _ => false) = true
    ∧ (match ctor subLeq .upper [1, 2] true with
        | .ok _ => false
        | .error e => e == .ValueError) = true := by
  constructor <;> decide +kernel

/-- the hypothesis `histOk` of `all_histories` is met by a history with cached `add` (with and without cache filling)
    of new and present elements, refused operations, deletions and queries; and the model's outputs are the specified ones -/
example : (match ctor subLeq .lattice [0, 7] true with
    | .ok s =>
      let ops : List (OpSL Nat) := [.op (.add 1 true), .op (.add 3 true), .op (.add 7 true), .op (.add 7 false), .op (.add 5 false), .op (.add 4 true),
        .op (.direct .desc 3), .op (.del 2), .op (.del 1), .extreme .anc, .op (.remove 3), .op (.extremes .desc)]
      histOk subLeq .lattice true [0, 7] ops &&
        ((runSL subLeq id s ops).2 == runFreshSL subLeq .lattice [0, 7] ops)
    | .error _ => false) = true := by decide +kernel

end Fca.C11

/-
  Props/C10 — set algebra on posets yields correct posets whatever the operands have cached.

  Model: `Fca.Model.PosetAlgebra` (`combine` = `__and__ / __or__ / __xor__ / __sub__` with `_combine_caches` and
  `_combine_multiple_caches`, on the state type of `Fca.Model.Poset`), specification: `Fca.Spec.Poset` (`Fresh`),
  invariant: `Fca.C09.Inv` (every cached entry is the `Fresh` value for the current elements).
  Only property theorems live here; helper lemmas are in `Fca/Lemmas/PosetAlgebra*.lean`.

  `sameLeq` is the outcome of `self._leq_func == other.leq_func` (the operators assert it); the property speaks
  about posets "with the same comparison", i.e. `sameLeq = true`.
-/
import Fca.Lemmas.PosetAlgebraTotal
import Fca.Props.C09
import Fca.Lemmas.PosetAlgebraChain
namespace Fca.C10
open Fca Fca.Poset Fca.Poset.Fresh Fca.C09

section
variable {α : Type} [DecidableEq α] {leq : α → α → Bool} {ord : List Nat → List Nat} {U : α → Prop}

/-- FULL.  The elements of `a ⊕ b` are exactly the set-theoretic combination of the operands' elements
    (`SetOp.sem`: `&` ↦ in both, `|` ↦ in one of them, `^` ↦ in exactly one, `-` ↦ in the first only), each once,
    in first-operand-then-second order: the members that belong to the first operand in its order, followed by
    the members that belong to the second operand only, in its order.  (The three facts together determine the
    list uniquely.)  Holds for every cache content and cache flag of the operands. -/
theorem combine_elements (op : SetOp) (same : Bool) (a b r : St α) (hA : a.elems.Nodup) (hB : b.elems.Nodup)
    (h : combine leq op same a b = .ok r) :
    r.elems.Nodup ∧ (∀ x, x ∈ r.elems ↔ op.sem (x ∈ a.elems) (x ∈ b.elems)) ∧
      r.elems = a.elems.filter (fun x => decide (x ∈ r.elems)) ++
        (b.elems.filter fun x => decide (x ∉ a.elems)).filter (fun x => decide (x ∈ r.elems)) := by
  obtain ⟨he, _, _⟩ := combine_shape h
  rw [he]
  exact ⟨nodup_combineElems op hA hB, mem_combineElems op _ _, combineElems_order op _ _⟩

/-- FULL (in the model, where an operator is a function of the operand states; that the real operators do not
    write into their operands is checked on the real objects by the harness).  `combineP` threads the two operand
    states through the call and returns them together with the result: they come back unchanged. -/
theorem operands_unchanged (op : SetOp) (same : Bool) (a b : St α) :
    (combineP leq op same (a, b)).1 = (a, b) ∧ (combineP leq op same (a, b)).2 = combine leq op same a b :=
  ⟨rfl, rfl⟩

/-- FULL.  If both operands satisfy the C09 invariant (elements duplicate free; on a caching instance every
    cached comparison / descendants / ancestors / children / parents entry equals the `Fresh` value), then so
    does the result of each of the four operators - whatever subset of entries either operand has cached,
    for every combination of cache flags, and for any `leq` (no order axioms are needed for this step). -/
theorem combine_inv (op : SetOp) (same : Bool) (a b r : St α) (ha : Inv leq a) (hb : Inv leq b)
    (h : combine leq op same a b = .ok r) : Inv leq r := by
  obtain ⟨_, _, hs⟩ := combine_shape h
  by_cases hc : a.useCache = true
  · simp only [combine, hs, hc, ↓reduceIte] at h
    have ha' : CacheExact leq a := cacheExact_of_invB ha.1 (hc ▸ ha.2)
    have hb' : CacheExact leq b.cacheView := cacheExact_cacheView hb.1 hb.2
    obtain ⟨hex, _, hfl⟩ := combineMulti_exact ha' hb' op (by rw [cacheView_elems]) h
    exact ⟨hex.nodup, invB_of_cacheExact hex _ rfl⟩
  · simp only [combine, hs, hc, ↓reduceIte, Bool.false_eq_true, Except.ok.injEq] at h
    subst h
    exact inv_init _ false (nodup_combineElems op ha.1 hb.1)

/-- FULL.  On operands satisfying the invariant and sharing the comparison the operators return normally
    (no exception) - for all four cache-flag combinations (an uncached second operand has no cache dictionaries;
    they are read as empty). -/
theorem combine_returns (op : SetOp) (a b : St α) (ha : Inv leq a) (hb : Inv leq b) :
    ∃ r, combine leq op true a b = .ok r := by
  by_cases hc : a.useCache = true
  · simp only [combine, hc, ↓reduceIte]
    have ha' : CacheExact leq a := cacheExact_of_invB ha.1 (hc ▸ ha.2)
    have hb' : CacheExact leq b.cacheView := cacheExact_cacheView hb.1 hb.2
    exact combineMulti_total ha' hb' op (by rw [cacheView_elems])
  · simp only [combine, hc, ↓reduceIte, Bool.false_eq_true]
    exact ⟨_, rfl⟩

/-- posets with different comparison functions are refused (`AssertionError`), whatever else holds -/
theorem combine_different_leq (op : SetOp) (a b : St α) : combine leq op false a b = .error .AssertionError := rfl

/-- FULL.  Every later history of queries and mutations on the result of an operator - all interleavings of leq,
    descendants, ancestors, children, parents, tops, bottoms, join, meet, index, ==, fill_up_*, add (with and
    without cache filling), del, remove - is answered exactly as by a freshly built cache-free poset over the
    combined elements, regardless of what either operand had cached and of the operands' cache flags.
    (By `combine_inv` and `Fca.C09.history_independent`; `leq` a partial order on the universe `U` of all elements
    ever present, `ord` any set-iteration order, query indexes in range - `opsOk`.) -/
theorem combine_history_independent (henv : Env leq ord U) (op : SetOp) (same : Bool) (a b r : St α)
    (ha : Inv leq a) (hb : Inv leq b) (hUa : ∀ x ∈ a.elems, U x) (hUb : ∀ x ∈ b.elems, U x)
    (h : combine leq op same a b = .ok r)
    (ops : List (Op α)) (hin : OpsIn U ops) (hok : opsOk r.elems r.useCache ops = true) :
    (run leq ord r ops).2 = runFresh leq (combineElems op a.elems b.elems) ops := by
  obtain ⟨he, _, _⟩ := combine_shape h
  have hU : ∀ x ∈ r.elems, U x := by
    intro x hx
    rw [he] at hx
    rcases combineElems_sub op _ _ x hx with h' | h'
    · exact hUa x h'
    · exact hUb x h'
  rw [← he]
  exact history_independent henv ops r (combine_inv op same a b r ha hb h) hU hin hok

/-- FULL.  Operands with a history: whatever valid histories (queries, `fill_up_*`, `add` with or without cache
    filling, `del`, `remove`, in any order) the two operands went through - starting from any states satisfying the
    invariant, e.g. freshly constructed posets or results of earlier operators - the result of an operator on them
    satisfies the invariant and has the combination of the operands' *current* elements. -/
theorem combine_after_histories (henv : Env leq ord U) (op : SetOp) (same : Bool) (a0 b0 r : St α)
    (opsA opsB : List (Op α)) (ha : Inv leq a0) (hb : Inv leq b0)
    (hUa : ∀ x ∈ a0.elems, U x) (hUb : ∀ x ∈ b0.elems, U x) (hinA : OpsIn U opsA) (hinB : OpsIn U opsB)
    (hokA : opsOk a0.elems a0.useCache opsA = true) (hokB : opsOk b0.elems b0.useCache opsB = true)
    (h : combine leq op same (run leq ord a0 opsA).1 (run leq ord b0 opsB).1 = .ok r) :
    Inv leq r ∧ r.elems = combineElems op (nextAll a0.elems opsA) (nextAll b0.elems opsB) ∧
      (∀ x ∈ r.elems, U x) := by
  obtain ⟨ia, ea, _, ua⟩ := inv_run henv opsA a0 ha hUa hinA hokA
  obtain ⟨ib, eb, _, ub⟩ := inv_run henv opsB b0 hb hUb hinB hokB
  obtain ⟨he, _, _⟩ := combine_shape h
  refine ⟨combine_inv op same _ _ r ia ib h, by rw [he, ea, eb], ?_⟩
  intro x hx
  rw [he] at hx
  rcases combineElems_sub op _ _ x hx with h' | h'
  · exact ua x h'
  · exact ub x h'

/-- FULL.  Chained operations with anything in between: `(a ⊕₁ b)`, then any valid history on that result, then
    `⊕₂ c` (with `c` after a history of its own): the final result answers every later history as a freshly built
    poset over its elements. -/
theorem combine_chain (henv : Env leq ord U) (op1 op2 : SetOp) (a b c r1 r2 : St α)
    (mid opsC later : List (Op α)) (ha : Inv leq a) (hb : Inv leq b) (hc : Inv leq c)
    (hUa : ∀ x ∈ a.elems, U x) (hUb : ∀ x ∈ b.elems, U x) (hUc : ∀ x ∈ c.elems, U x)
    (h1 : combine leq op1 true a b = .ok r1)
    (hinM : OpsIn U mid) (hokM : opsOk r1.elems r1.useCache mid = true)
    (hinC : OpsIn U opsC) (hokC : opsOk c.elems c.useCache opsC = true)
    (h2 : combine leq op2 true (run leq ord r1 mid).1 (run leq ord c opsC).1 = .ok r2)
    (hinL : OpsIn U later) (hokL : opsOk r2.elems r2.useCache later = true) :
    (run leq ord r2 later).2 = runFresh leq r2.elems later := by
  have hr1 : Inv leq r1 := combine_inv op1 true a b r1 ha hb h1
  have hU1 : ∀ x ∈ r1.elems, U x := by
    obtain ⟨he, _, _⟩ := combine_shape h1
    intro x hx
    rw [he] at hx
    rcases combineElems_sub op1 _ _ x hx with h' | h'
    · exact hUa x h'
    · exact hUb x h'
  obtain ⟨hinv, _, hU2⟩ := combine_after_histories henv op2 true r1 c r2 mid opsC hr1 hc hU1 hUc hinM hinC hokM hokC h2
  exact history_independent henv later r2 hinv hU2 hinL hokL

/-- FULL.  After `r = a ⊕ b` the three posets are independent: any valid histories (queries and mutations) on the
    result and on the two operands - in the model three separate values, so every interleaving of the three
    histories is the same three runs - are each answered as by a freshly built poset over that object's own
    current elements.  (That the real result shares no mutable cache object with its operands is what the harness
    checks on the implementation.) -/
theorem combine_objects_independent (henv : Env leq ord U) (op : SetOp) (a b r : St α)
    (opsR opsA opsB : List (Op α)) (ha : Inv leq a) (hb : Inv leq b)
    (hUa : ∀ x ∈ a.elems, U x) (hUb : ∀ x ∈ b.elems, U x) (h : combine leq op true a b = .ok r)
    (hinR : OpsIn U opsR) (hinA : OpsIn U opsA) (hinB : OpsIn U opsB)
    (hokR : opsOk r.elems r.useCache opsR = true) (hokA : opsOk a.elems a.useCache opsA = true)
    (hokB : opsOk b.elems b.useCache opsB = true) :
    (run leq ord r opsR).2 = runFresh leq (combineElems op a.elems b.elems) opsR ∧
      (run leq ord a opsA).2 = runFresh leq a.elems opsA ∧ (run leq ord b opsB).2 = runFresh leq b.elems opsB :=
  ⟨combine_history_independent henv op true a b r ha hb hUa hUb h opsR hinR hokR,
   history_independent henv opsA a ha hUa hinA hokA, history_independent henv opsB b hb hUb hinB hokB⟩

end

/-! ### non-vacuity: the hypotheses are met by concrete, non-trivial instances -/

private def subLeq (a b : Nat) : Bool := (a &&& b) == a

/-- first operand `[∅, {0}, {0,1}]` completely filled, second operand `[{0,1}, ∅, {1}]` after `descendants(0)`
    and `parents(1)`: both satisfy the invariant (`invCheck` is sound by `Fca.C09.inv_of_check`) -/
private def exA : St Nat := (run subLeq id (init [0, 1, 3] true) [.fillUp .all]).1
private def exB : St Nat := (run subLeq id (init [3, 0, 2] true) [.closed .desc 0, .direct .anc 1]).1

example : invCheck subLeq exA = true ∧ invCheck subLeq exB = true := by
  constructor <;> decide +kernel

/-- the result of an operator passes the test `p` (and the operator returns normally) -/
private def okAnd (x : Except PyErr (St Nat)) (p : St Nat → Bool) : Bool :=
  match x with
  | .ok r => p r
  | .error _ => false

/-- the cache `c` holds the set `v` at key `k` -/
private def hasSet (c : Cache) (k : Nat) (v : List Nat) : Bool :=
  match alookup k c with
  | some w => setEq w v
  | none => false

/-- the union keeps the closed entries cached in both operands (descendants of `{0,1}`), recomputes its children
    (`{0}` and `{1}`), and its elements, caches and later answers are the `Fresh` ones -/
example : okAnd (combine subLeq .or true exA exB) (fun r =>
    r.elems == [0, 1, 3, 2] && invCheck subLeq r &&
    hasSet r.descC 2 [0, 1, 3] && hasSet r.chilC 2 [1, 3] && hasSet r.parC 0 [1, 3] &&
    (run subLeq id r [.leq 3 2, .extremes .anc, .bound .desc [1, 3], .extremes .desc]).2
      == runFresh subLeq [0, 1, 3, 2] [.leq 3 2, .extremes .anc, .bound .desc [1, 3], .extremes .desc]) = true := by
  decide +kernel

/-- the other three operators on the same operands; a cached first and an uncached second operand -/
example : okAnd (combine subLeq .and true exA exB) (fun r => r.elems == [0, 3] && invCheck subLeq r) = true ∧
    okAnd (combine subLeq .xor true exA exB) (fun r => r.elems == [1, 2] && invCheck subLeq r) = true ∧
    okAnd (combine subLeq .sub true exA exB) (fun r => r.elems == [1] && invCheck subLeq r) = true ∧
    okAnd (combine subLeq .or true exA (init [3, 0, 2] false))
      (fun r => r.elems == [0, 1, 3, 2] && r.useCache && invCheck subLeq r) = true := by
  refine ⟨?_, ?_, ?_, ?_⟩ <;> decide +kernel

end Fca.C10

/-
  Props/C10 — set algebra on posets yields correct posets whatever the operands have cached.

  Model: `Fca.Model.PosetAlgebra` (`combine` = `__and__ / __or__ / __xor__ / __sub__` with `_combine_caches` and
  `_combine_multiple_caches`, on the state type of `Fca.Model.Poset`), specification: `Fca.Spec.Poset` (`Fresh`),
  invariant: `Fca.C09.Inv` (every cached entry is the `Fresh` value for the current elements).
  Only property theorems live here; helper lemmas are in `Fca/Lemmas/PosetAlgebra*.lean`.

  `sameLeq` is the outcome of `self._leq_func == other.leq_func` (the operators assert it); the property speaks
  about posets "with the same comparison", i.e. `sameLeq = true`.
-/
import Fca.Lemmas.PosetAlgebraTotal
import Fca.Props.C09
namespace Fca.C10
open Fca Fca.Poset Fca.Poset.Fresh Fca.C09

section
variable {α : Type} [DecidableEq α] {leq : α → α → Bool} {ord : List Nat → List Nat} {U : α → Prop}

/-- FULL.  The elements of `a ⊕ b` are exactly the set-theoretic combination of the operands' elements
    (`SetOp.sem`: `&` ↦ in both, `|` ↦ in one of them, `^` ↦ in exactly one, `-` ↦ in the first only), each once,
    in first-operand-then-second order: the members that belong to the first operand in its order, followed by
    the members that belong to the second operand only, in its order.  (The three facts together determine the
    list uniquely.)  Holds for every cache content and cache flag of the operands. -/
theorem combine_elements (op : SetOp) (same : Bool) (a b r : St α) (hA : a.elems.Nodup) (hB : b.elems.Nodup)
    (h : combine leq op same a b = .ok r) :
    r.elems.Nodup ∧ (∀ x, x ∈ r.elems ↔ op.sem (x ∈ a.elems) (x ∈ b.elems)) ∧
      r.elems = a.elems.filter (fun x => decide (x ∈ r.elems)) ++
        (b.elems.filter fun x => decide (x ∉ a.elems)).filter (fun x => decide (x ∈ r.elems)) := by
  obtain ⟨he, _, _⟩ := combine_shape h
  rw [he]
  exact ⟨nodup_combineElems op hA hB, mem_combineElems op _ _, combineElems_order op _ _⟩

/-- FULL (in the model, where an operator is a function of the operand states; that the real operators do not
    write into their operands is checked on the real objects by the harness).  `combineP` threads the two operand
    states through the call and returns them together with the result: they come back unchanged. -/
theorem operands_unchanged (op : SetOp) (same : Bool) (a b : St α) :
    (combineP leq op same (a, b)).1 = (a, b) ∧ (combineP leq op same (a, b)).2 = combine leq op same a b :=
  ⟨rfl, rfl⟩

/-- FULL.  If both operands satisfy the C09 invariant (elements duplicate free; on a caching instance every
    cached comparison / descendants / ancestors / children / parents entry equals the `Fresh` value), then so
    does the result of each of the four operators - whatever subset of entries either operand has cached,
    for every combination of cache flags, and for any `leq` (no order axioms are needed for this step). -/
theorem combine_inv (op : SetOp) (same : Bool) (a b r : St α) (ha : Inv leq a) (hb : Inv leq b)
    (h : combine leq op same a b = .ok r) : Inv leq r := by
  obtain ⟨_, _, hs⟩ := combine_shape h
  by_cases hc : a.useCache = true
  · simp only [combine, hs, hc, ↓reduceIte] at h
    have ha' : CacheExact leq a := cacheExact_of_invB ha.1 (hc ▸ ha.2)
    have hb' : CacheExact leq b.cacheView := cacheExact_cacheView hb.1 hb.2
    obtain ⟨hex, _, hfl⟩ := combineMulti_exact ha' hb' op (by rw [cacheView_elems]) h
    exact ⟨hex.nodup, invB_of_cacheExact hex _ rfl⟩
  · simp only [combine, hs, hc, ↓reduceIte, Bool.false_eq_true, Except.ok.injEq] at h
    subst h
    exact inv_init _ false (nodup_combineElems op ha.1 hb.1)

/-- FULL.  On operands satisfying the invariant and sharing the comparison the operators return normally
    (no exception) - for all four cache-flag combinations (an uncached second operand has no cache dictionaries;
    they are read as empty). -/
theorem combine_returns (op : SetOp) (a b : St α) (ha : Inv leq a) (hb : Inv leq b) :
    ∃ r, combine leq op true a b = .ok r := by
  by_cases hc : a.useCache = true
  · simp only [combine, hc, ↓reduceIte]
    have ha' : CacheExact leq a := cacheExact_of_invB ha.1 (hc ▸ ha.2)
    have hb' : CacheExact leq b.cacheView := cacheExact_cacheView hb.1 hb.2
    exact combineMulti_total ha' hb' op (by rw [cacheView_elems])
  · simp only [combine, hc, ↓reduceIte, Bool.false_eq_true]
    exact ⟨_, rfl⟩

/-- posets with different comparison functions are refused (`AssertionError`), whatever else holds -/
theorem combine_different_leq (op : SetOp) (a b : St α) : combine leq op false a b = .error .AssertionError := rfl

/-- FULL.  Every later history of queries and mutations on the result of an operator - all interleavings of leq,
    descendants, ancestors, children, parents, tops, bottoms, join, meet, index, ==, fill_up_*, add (with and
    without cache filling), del, remove - is answered exactly as by a freshly built cache-free poset over the
    combined elements, regardless of what either operand had cached and of the operands' cache flags.
    (By `combine_inv` and `Fca.C09.history_independent`; `leq` a partial order on the universe `U` of all elements
    ever present, `ord` any set-iteration order, query indexes in range - `opsOk`.) -/
theorem combine_history_independent (henv : Env leq ord U) (op : SetOp) (same : Bool) (a b r : St α)
    (ha : Inv leq a) (hb : Inv leq b) (hUa : ∀ x ∈ a.elems, U x) (hUb : ∀ x ∈ b.elems, U x)
    (h : combine leq op same a b = .ok r)
    (ops : List (Op α)) (hin : OpsIn U ops) (hok : opsOk r.elems r.useCache ops = true) :
    (run leq ord r ops).2 = runFresh leq (combineElems op a.elems b.elems) ops := by
  obtain ⟨he, _, _⟩ := combine_shape h
  have hU : ∀ x ∈ r.elems, U x := by
    intro x hx
    rw [he] at hx
    rcases combineElems_sub op _ _ x hx with h' | h'
    · exact hUa x h'
    · exact hUb x h'
  rw [← he]
  exact history_independent henv ops r (combine_inv op same a b r ha hb h) hU hin hok

end

/-! ### non-vacuity: the hypotheses are met by concrete, non-trivial instances -/

private def subLeq (a b : Nat) : Bool := (a &&& b) == a

/-- first operand `[∅, {0}, {0,1}]` completely filled, second operand `[{0,1}, ∅, {1}]` after `descendants(0)`
    and `parents(1)`: both satisfy the invariant (`invCheck` is sound by `Fca.C09.inv_of_check`) -/
private def exA : St Nat := (run subLeq id (init [0, 1, 3] true) [.fillUp .all]).1
private def exB : St Nat := (run subLeq id (init [3, 0, 2] true) [.closed .desc 0, .direct .anc 1]).1

example : invCheck subLeq exA = true ∧ invCheck subLeq exB = true := by
  constructor <;> decide +kernel

/-- the result of an operator passes the test `p` (and the operator returns normally) -/
private def okAnd (x : Except PyErr (St Nat)) (p : St Nat → Bool) : Bool :=
  match x with
  | .ok r => p r
  | .error _ => false

/-- the cache `c` holds the set `v` at key `k` -/
private def hasSet (c : Cache) (k : Nat) (v : List Nat) : Bool :=
  match alookup k c with
  | some w => setEq w v
  | none => false

/-- the union keeps the closed entries cached in both operands (descendants of `{0,1}`), recomputes its children
    (`{0}` and `{1}`), and its elements, caches and later answers are the `Fresh` ones -/
example : okAnd (combine subLeq .or true exA exB) (fun r =>
    r.elems == [0, 1, 3, 2] && invCheck subLeq r &&
    hasSet r.descC 2 [0, 1, 3] && hasSet r.chilC 2 [1, 3] && hasSet r.parC 0 [1, 3] &&
    (run subLeq id r [.leq 3 2, .extremes .anc, .bound .desc [1, 3], .extremes .desc]).2
      == runFresh subLeq [0, 1, 3, 2] [.leq 3 2, .extremes .anc, .bound .desc [1, 3], .extremes .desc]) = true := by
  decide +kernel

/-- the other three operators on the same operands; a cached first and an uncached second operand -/
example : okAnd (combine subLeq .and true exA exB) (fun r => r.elems == [0, 3] && invCheck subLeq r) = true ∧
    okAnd (combine subLeq .xor true exA exB) (fun r => r.elems == [1, 2] && invCheck subLeq r) = true ∧
    okAnd (combine subLeq .sub true exA exB) (fun r => r.elems == [1] && invCheck subLeq r) = true ∧
    okAnd (combine subLeq .or true exA (init [3, 0, 2] false))
      (fun r => r.elems == [0, 1, 3, 2] && r.useCache && invCheck subLeq r) = true := by
  refine ⟨?_, ?_, ?_, ?_⟩ <;> decide +kernel

end Fca.C10

/-
  Props/C17 — tracing a context through a lattice finds exactly the describing concepts.

  `Trace.traceFormal L intents K useIdx` is the code-shaped model of
  `ConceptLattice.trace_context(K, use_object_indices=useIdx)` (memoised `stored_extension`, FIFO bounded
  by `len(self)` iterations, `stopped_objects`, child filter, sort by support, the two dictionaries).

  Hypothesis `Spec.IsTraceLatticeOf tTrain cs L`: the lattice is ANY list `cs` of genuine concepts of a training
  table (complete or pruned), with its true cover relation within that list (children in any iteration
  order) and `self.top` its greatest element.  The traced context `K` is any well-formed table with the
  same width (same attribute set) — its rows need not occur in the training table — on any backend.
  Supports are arbitrary (they only order the queue).

  Many-valued contexts (`Trace.traceMV`, interval pattern structures — `IntervalPS` / `IntervalNumpyPS`):
  hypothesis `Spec.IsMVTraceLatticeOf KTrain cs L`: the lattice is ANY list `cs` of genuine PATTERN concepts of
  a well-formed interval training context (description = `intention_i(extent)`: per-column interval hull, `None`
  for the empty extent, one entry per column in column order; extent = `extension_i(description)` as a set),
  with its true cover relation and top.  The traced context `K` is any well-formed interval context with as
  many columns (`Spec.IsTracedMVCtx`).  `SetPS` / `AttributePS` columns are NOT covered by the model `traceMV`.

  Only property theorems live here; helper lemmas are in `Fca/Lemmas/Trace.lean` and `Fca/Lemmas/TraceMV.lean`.
-/
import Fca.Lemmas.Trace
import Fca.Lemmas.TraceMV
namespace Fca.C17
open Fca Fca.Trace

/-- **trace_exact** — every object `g` of the traced context is mapped, under its key, to exactly the set
    of concepts whose intent `g` satisfies (`Spec.describing`). -/
theorem trace_exact (tTrain : Table) (cs : List (List Nat × List Nat)) (L : Lat)
    (hL : Spec.IsTraceLatticeOf tTrain cs L) (hmono : L.isMonotone = false)
    (K : Ctx) (hwf : K.table.WF) (hw : K.table.width = tTrain.width)
    (hnames : K.objNames.length = K.nObjects) (useIdx : Bool) :
    ∃ bottom traced, traceFormal L (cs.map Prod.snd) K useIdx = .ok (bottom, traced) ∧
      ∀ g, g < K.nObjects → ∃ T, traced[g]? = some (Spec.keyOf useIdx K.objNames g, T) ∧
        ∀ i, i ∈ T ↔ i ∈ Spec.describing K.table (cs.map Prod.snd) g := by
  have hO := IsTraceLatticeOf.orderData hL
  obtain ⟨b, t, hok, _, _, hget⟩ := traceContext_spec hO K.objNames useIdx hmono hnames
    (ext_lt_formal hL K hwf hw) (upward_formal hL K hwf hw)
  refine ⟨b, t, hok, ?_⟩
  intro g hg
  obtain ⟨S, T, _, hT, hTm, _⟩ := hget g hg
  refine ⟨T, hT, ?_⟩
  intro i
  rw [hTm i, mem_describing, mem_extensionI K hwf _ (intents_in_range hL K hw i) g]
  simp only [List.length_map]
  constructor
  · rintro ⟨h1, _, h3⟩; exact ⟨h1, h3⟩
  · rintro ⟨h1, h3⟩; exact ⟨h1, hg, h3⟩

/-- **trace_bottom_minimal** — the bottom concepts of `g` are exactly the minimal elements, w.r.t. the
    lattice order (strict inclusion of the training extents), of the set of concepts describing `g`. -/
theorem trace_bottom_minimal (tTrain : Table) (cs : List (List Nat × List Nat)) (L : Lat)
    (hL : Spec.IsTraceLatticeOf tTrain cs L) (hmono : L.isMonotone = false)
    (K : Ctx) (hwf : K.table.WF) (hw : K.table.width = tTrain.width)
    (hnames : K.objNames.length = K.nObjects) (useIdx : Bool) :
    ∃ bottom traced, traceFormal L (cs.map Prod.snd) K useIdx = .ok (bottom, traced) ∧
      ∀ g, g < K.nObjects → ∃ S, bottom[g]? = some (Spec.keyOf useIdx K.objNames g, S) ∧
        ∀ i, i ∈ S ↔ i ∈ Spec.minimalDescribing K.table (cs.map Prod.fst) (cs.map Prod.snd) g := by
  have hO := IsTraceLatticeOf.orderData hL
  obtain ⟨b, t, hok, _, _, hget⟩ := traceContext_spec hO K.objNames useIdx hmono hnames
    (ext_lt_formal hL K hwf hw) (upward_formal hL K hwf hw)
  refine ⟨b, t, hok, ?_⟩
  intro g hg
  obtain ⟨S, T, hS, _, _, hSm⟩ := hget g hg
  refine ⟨S, hS, ?_⟩
  have hdesc : ∀ i, (i < (cs.map Prod.fst).length ∧
      g ∈ K.extensionI ((cs.map Prod.snd).getD i []) none) ↔
      i ∈ Spec.describing K.table (cs.map Prod.snd) g := by
    intro i
    rw [mem_describing, mem_extensionI K hwf _ (intents_in_range hL K hw i) g]
    simp only [List.length_map]
    constructor
    · rintro ⟨h1, _, h3⟩; exact ⟨h1, h3⟩
    · rintro ⟨h1, h3⟩; exact ⟨h1, hg, h3⟩
  intro i
  rw [hSm i]
  unfold Spec.minimalDescribing
  rw [mem_minimalOf, hdesc i]
  constructor
  · rintro ⟨h1, h2⟩
    refine ⟨h1, ?_⟩
    intro d hd
    have := (hdesc d).mpr hd
    exact h2 d this.1 this.2
  · rintro ⟨h1, h2⟩
    refine ⟨h1, ?_⟩
    intro d hd hgd
    exact h2 d ((hdesc d).mp ⟨hd, hgd⟩)

/-- **trace_keys** — both dictionaries have exactly one entry per object of the traced context, in object
    order, keyed by object index when `use_object_indices` and by object name otherwise. -/
theorem trace_keys (tTrain : Table) (cs : List (List Nat × List Nat)) (L : Lat)
    (hL : Spec.IsTraceLatticeOf tTrain cs L) (hmono : L.isMonotone = false)
    (K : Ctx) (hwf : K.table.WF) (hw : K.table.width = tTrain.width)
    (hnames : K.objNames.length = K.nObjects) (useIdx : Bool) :
    ∃ bottom traced, traceFormal L (cs.map Prod.snd) K useIdx = .ok (bottom, traced) ∧
      (useIdx = true → bottom.map Prod.fst = (List.range K.nObjects).map Key.idx ∧
        traced.map Prod.fst = (List.range K.nObjects).map Key.idx) ∧
      (useIdx = false → bottom.map Prod.fst = K.objNames.map Key.name ∧
        traced.map Prod.fst = K.objNames.map Key.name) := by
  have hO := IsTraceLatticeOf.orderData hL
  obtain ⟨b, t, hok, hkb, hkt, _⟩ := traceContext_spec hO K.objNames useIdx hmono hnames
    (ext_lt_formal hL K hwf hw) (upward_formal hL K hwf hw)
  refine ⟨b, t, hok, ?_, ?_⟩
  · intro hu; subst hu
    rw [hkb, hkt]
    exact ⟨rfl, rfl⟩
  · intro hu; subst hu
    rw [hkb, hkt]
    have : (List.range K.nObjects).map (Spec.keyOf false K.objNames) = K.objNames.map Key.name := by
      apply List.ext_getElem?
      intro g
      rw [List.getElem?_map, List.getElem?_map]
      by_cases hg : g < K.nObjects
      · rw [List.getElem?_range hg, List.getElem?_eq_getElem (by omega)]
        simp [Spec.keyOf, List.getD_eq_getElem?_getD, hnames, hg]
      · rw [List.getElem?_eq_none (by simp; omega), List.getElem?_eq_none (by omega)]; rfl
    exact ⟨this, this⟩

/-- **trace_monotone_refused** — tracing a lattice of monotone concepts raises `NotImplementedError`,
    whatever the context, the key mode and the rest of the lattice. -/
theorem trace_monotone_refused (L : Lat) (hmono : L.isMonotone = true) (useIdx : Bool) :
    (∀ (intents : List (List Nat)) (K : Ctx), traceFormal L intents K useIdx = .error .NotImplementedError) ∧
    (∀ (intents : List (List (Nat × Option (Int × Int)))) (K : MVCtx),
      traceMV L intents K useIdx = .error .NotImplementedError) := by
  constructor
  · intro intents K; simp [traceFormal, traceContext, hmono]
  · intro intents K; simp [traceMV, traceContext, hmono]

/-- **trace_any_context** — the generic form: the same statements for ANY traced context given as its
    extension function `extOf c = context.extension_i(intent of c)`: order data with true covers over
    duplicate-free extents, and a context in which satisfaction is inherited upward (`Spec.Upward`).
    `Spec.Upward` is a hypothesis HERE, but it is discharged for both kinds of contexts the library ships
    tracing for: for `FormalContext`s by `upward_formal` (every list of genuine formal concepts; used by
    `trace_exact` / `trace_bottom_minimal` / `trace_keys`), and for many-valued contexts with interval pattern
    structures by `upward_mv` (every list of genuine pattern concepts, ANY traced interval context; used by
    `trace_mv_exact` / `trace_mv_bottom_minimal` / `trace_mv_keys` below).  Hence no `_partial` suffix: the
    theorem is kept as the reusable statement about the worklist (what a further pattern structure with an
    antitone `intention_i` would have to supply is exactly `Upward`), not as a substitute for a missing proof.
    (`SetPS` / `AttributePS` columns are outside the model `traceMV`, see the header.) -/
theorem trace_any_context (exts : List (List Nat)) (L : Lat) (hO : Spec.IsOrderData exts L)
    (hmono : L.isMonotone = false) (extOf : Nat → List Nat) (nObj : Nat) (names : List String)
    (hnames : names.length = nObj) (hext : ∀ i, ∀ g ∈ extOf i, g < nObj)
    (hup : Spec.Upward exts extOf) (useIdx : Bool) :
    ∃ bottom traced, traceContext L extOf nObj names useIdx = .ok (bottom, traced) ∧
      bottom.map Prod.fst = (List.range nObj).map (Spec.keyOf useIdx names) ∧
      traced.map Prod.fst = (List.range nObj).map (Spec.keyOf useIdx names) ∧
      ∀ g, g < nObj → ∃ S T,
        bottom[g]? = some (Spec.keyOf useIdx names g, S) ∧ traced[g]? = some (Spec.keyOf useIdx names g, T) ∧
        (∀ i, i ∈ T ↔ i < exts.length ∧ g ∈ extOf i) ∧
        (∀ i, i ∈ S ↔ i ∈ Spec.minimalOf exts ((List.range exts.length).filter fun i => (extOf i).contains g)) := by
  obtain ⟨b, t, hok, hkb, hkt, hget⟩ := traceContext_spec hO names useIdx hmono hnames hext hup
  refine ⟨b, t, hok, hkb, hkt, ?_⟩
  intro g hg
  obtain ⟨S, T, hS, hT, hTm, hSm⟩ := hget g hg
  refine ⟨S, T, hS, hT, hTm, ?_⟩
  intro i
  rw [hSm i, mem_minimalOf]
  simp only [List.mem_filter, List.mem_range, List.contains_eq_mem, decide_eq_true_eq, and_imp]

/-! ### many-valued contexts with interval pattern structures -/

/-- **trace_mv_exact** — many-valued twin of `trace_exact`: for every list of genuine pattern concepts of an
    interval training context (complete or pruned) with its true covers, and every well-formed interval context
    `K` with as many columns (seen or unseen objects), every object `g` of `K` is mapped, under its key, to
    exactly the set of pattern concepts whose description `g` satisfies (`Spec.mvDescribing`: `g` falls into
    every column's interval; `None` is satisfied by nothing). -/
theorem trace_mv_exact (KTrain : MVCtx) (cs : List (List Nat × Spec.MVDesc)) (L : Lat)
    (hL : Spec.IsMVTraceLatticeOf KTrain cs L) (hmono : L.isMonotone = false)
    (K : MVCtx) (hK : Spec.IsTracedMVCtx KTrain K) (useIdx : Bool) :
    ∃ bottom traced, traceMV L (cs.map Prod.snd) K useIdx = .ok (bottom, traced) ∧
      ∀ g, g < K.nObjects → ∃ T, traced[g]? = some (Spec.keyOf useIdx K.objNames g, T) ∧
        ∀ i, i ∈ T ↔ i ∈ Spec.mvDescribing K (cs.map Prod.snd) g := by
  have hO := IsMVTraceLatticeOf.orderData hL
  obtain ⟨b, t, hok, _, _, hget⟩ := traceContext_spec hO K.objNames useIdx hmono hK.names
    (ext_lt_mv (cs.map Prod.snd) K) (upward_mv hL K)
  refine ⟨b, t, hok, ?_⟩
  intro g hg
  obtain ⟨S, T, _, hT, hTm, _⟩ := hget g hg
  refine ⟨T, hT, ?_⟩
  intro i
  rw [hTm i, mem_mvDescribing]
  simp only [List.length_map]

/-- **trace_mv_bottom_minimal** — many-valued twin of `trace_bottom_minimal`: the bottom concepts of `g` are
    exactly the minimal elements, w.r.t. the lattice order (strict inclusion of the training extents), of the
    set of pattern concepts describing `g`. -/
theorem trace_mv_bottom_minimal (KTrain : MVCtx) (cs : List (List Nat × Spec.MVDesc)) (L : Lat)
    (hL : Spec.IsMVTraceLatticeOf KTrain cs L) (hmono : L.isMonotone = false)
    (K : MVCtx) (hK : Spec.IsTracedMVCtx KTrain K) (useIdx : Bool) :
    ∃ bottom traced, traceMV L (cs.map Prod.snd) K useIdx = .ok (bottom, traced) ∧
      ∀ g, g < K.nObjects → ∃ S, bottom[g]? = some (Spec.keyOf useIdx K.objNames g, S) ∧
        ∀ i, i ∈ S ↔ i ∈ Spec.mvMinimalDescribing K (cs.map Prod.fst) (cs.map Prod.snd) g := by
  have hO := IsMVTraceLatticeOf.orderData hL
  obtain ⟨b, t, hok, _, _, hget⟩ := traceContext_spec hO K.objNames useIdx hmono hK.names
    (ext_lt_mv (cs.map Prod.snd) K) (upward_mv hL K)
  refine ⟨b, t, hok, ?_⟩
  intro g hg
  obtain ⟨S, T, hS, _, _, hSm⟩ := hget g hg
  refine ⟨S, hS, ?_⟩
  have hdesc : ∀ i, (i < (cs.map Prod.fst).length ∧ g ∈ mvExtensionI K ((cs.map Prod.snd).getD i [])) ↔
      i ∈ Spec.mvDescribing K (cs.map Prod.snd) g := by
    intro i; rw [mem_mvDescribing]; simp only [List.length_map]
  intro i
  rw [hSm i]
  unfold Spec.mvMinimalDescribing
  rw [mem_minimalOf, hdesc i]
  constructor
  · rintro ⟨h1, h2⟩
    refine ⟨h1, ?_⟩
    intro d hd
    have := (hdesc d).mpr hd
    exact h2 d this.1 this.2
  · rintro ⟨h1, h2⟩
    refine ⟨h1, ?_⟩
    intro d hd hgd
    exact h2 d ((hdesc d).mp ⟨hd, hgd⟩)

/-- **trace_mv_keys** — many-valued twin of `trace_keys`: both dictionaries have exactly one entry per object of
    the traced context, in object order, keyed by object index when `use_object_indices` and by object name
    otherwise.  Moreover no lookup behind the result can fail: every entry of every description addresses an
    existing column of the traced context that has a cell for every object (so the model's total lookups never
    fall back to a default where the real code would raise `IndexError`). -/
theorem trace_mv_keys (KTrain : MVCtx) (cs : List (List Nat × Spec.MVDesc)) (L : Lat)
    (hL : Spec.IsMVTraceLatticeOf KTrain cs L) (hmono : L.isMonotone = false)
    (K : MVCtx) (hK : Spec.IsTracedMVCtx KTrain K) (useIdx : Bool) :
    (∃ bottom traced, traceMV L (cs.map Prod.snd) K useIdx = .ok (bottom, traced) ∧
      (useIdx = true → bottom.map Prod.fst = (List.range K.nObjects).map Key.idx ∧
        traced.map Prod.fst = (List.range K.nObjects).map Key.idx) ∧
      (useIdx = false → bottom.map Prod.fst = K.objNames.map Key.name ∧
        traced.map Prod.fst = K.objNames.map Key.name)) ∧
    (∀ i, i < cs.length → ∀ pd ∈ (cs.map Prod.snd).getD i [],
      ∃ col, K.cols[pd.1]? = some col ∧ ∀ g, g < K.nObjects → ∃ cell, col[g]? = some cell) := by
  have hO := IsMVTraceLatticeOf.orderData hL
  obtain ⟨b, t, hok, hkb, hkt, _⟩ := traceContext_spec hO K.objNames useIdx hmono hK.names
    (ext_lt_mv (cs.map Prod.snd) K) (upward_mv hL K)
  refine ⟨⟨b, t, hok, ?_, ?_⟩, mv_lookups_total hL hK⟩
  · intro hu; subst hu
    rw [hkb, hkt]
    exact ⟨rfl, rfl⟩
  · intro hu; subst hu
    rw [hkb, hkt, keys_names _ _ hK.names]
    exact ⟨rfl, rfl⟩

/-! ### non-vacuity: a pruned lattice of a concrete training table, traced on unseen rows -/

private def exTrain : Table := ⟨[[true, false, true], [true, true, false], [false, true, true]], 3⟩
/-- a pruned list of concepts of `exTrain`: top, ({0,1},{0}), ({0},{0,2}), bottom -/
private def exCs : List (List Nat × List Nat) :=
  [([0, 1, 2], []), ([0, 1], [0]), ([0], [0, 2]), ([], [0, 1, 2])]
private def exL : Lat := { children := [[1], [2], [3], []], supports := [3, 2, 1, 0], top := 0, isMonotone := false }
private def exK : Ctx :=
  { backend := .bitarray, table := ⟨[[true, true, true], [false, false, false], [true, false, false]], 3⟩,
    objNames := ["x", "y", "z"], attrNames := ["a", "b", "c"] }

example : Spec.IsTraceLatticeOf exTrain exCs exL ∧ exK.table.WF ∧ exK.table.width = exTrain.width ∧
    exK.objNames.length = exK.nObjects ∧
    traceFormal exL (exCs.map Prod.snd) exK false
      = .ok ([(Key.name "x", [3]), (Key.name "y", [0]), (Key.name "z", [1])],
             [(Key.name "x", [0, 1, 2, 3]), (Key.name "y", [0]), (Key.name "z", [0, 1])]) := by
  refine ⟨by decide, by decide, rfl, rfl, by rfl⟩

/-! ### non-vacuity, many-valued: a pruned lattice of pattern concepts of a 2-column interval table -/

/-- training objects: g0 = ([1,2],[0,0]), g1 = ([2,4],[1,1]), g2 = ([5,5],[0,3]) (columns listed) -/
private def exMVTrain : MVCtx :=
  { cols := [[(1, 2), (2, 4), (5, 5)], [(0, 0), (1, 1), (0, 3)]], nObjects := 3, objNames := ["a", "b", "c"] }
/-- a pruned list of its 8 pattern concepts (extents listed in non-ascending order on purpose):
    top {0,1,2}, {1,0}, {0}, bottom {} (description `None` in every column) -/
private def exMVCs : List (List Nat × Spec.MVDesc) :=
  [([0, 1, 2], [(0, some (1, 5)), (1, some (0, 3))]),
   ([1, 0], [(0, some (1, 4)), (1, some (0, 1))]),
   ([0], [(0, some (1, 2)), (1, some (0, 0))]),
   ([], [(0, none), (1, none)])]
private def exMVL : Lat :=
  { children := [[1], [2], [3], []], supports := [3, 2, 1, 0], top := 0, isMonotone := false }
/-- unseen rows: x inside the hull of {0,1} only, y equal to g0, z outside every hull, w inside the top only -/
private def exMVK : MVCtx :=
  { cols := [[(3, 3), (1, 2), (0, 9), (4, 5)], [(0, 1), (0, 0), (0, 0), (2, 2)]], nObjects := 4,
    objNames := ["x", "y", "z", "w"] }

example : Spec.IsMVTraceLatticeOf exMVTrain exMVCs exMVL ∧ exMVL.isMonotone = false ∧
    Spec.IsTracedMVCtx exMVTrain exMVK ∧
    traceMV exMVL (exMVCs.map Prod.snd) exMVK false
      = .ok ([(Key.name "x", [1]), (Key.name "y", [2]), (Key.name "z", []), (Key.name "w", [0])],
             [(Key.name "x", [0, 1]), (Key.name "y", [0, 1, 2]), (Key.name "z", []), (Key.name "w", [0])]) := by
  refine ⟨by decide +kernel, rfl, by decide +kernel, by decide +kernel⟩

end Fca.C17

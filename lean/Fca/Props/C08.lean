/-
  Props/C08 — concepts are ordered by extent inclusion, with consistent equality and hashing;
  cross-context / cross-monotonicity comparisons are refused; the defining fields are frozen;
  `from_objects` builds the closure of the given object set.

  Only property theorems live here (plus the small definitions needed to state them and the
  non-vacuity examples); helper lemmas are in `Fca/Lemmas/Concept.lean`.
-/
import Fca.Model.Concept
import Fca.Spec.Galois
import Fca.Lemmas.Concept
import Fca.Props.C01
namespace Fca.C08
open Fca

/-- "two concepts the library derived from one context": same context hash, same monotonicity,
    duplicate-free extents (every miner and `from_objects` produce duplicate-free extents;
    the order of the indexes inside an extent is arbitrary). -/
structure Comparable (a b : Concept) : Prop where
  hash : a.contextHash = b.contextHash
  mono : a.isMonotone = b.isMonotone
  nda : a.extentI.Nodup
  ndb : b.extentI.Nodup

/-- the order the property prescribes: extent inclusion, reversed for monotone concepts -/
def ExtLe (a b : Concept) : Prop :=
  if a.isMonotone then b.extentI ⊆ a.extentI else a.extentI ⊆ b.extentI

instance (a b : Concept) : Decidable (ExtLe a b) := by unfold ExtLe; infer_instance

/-- equal extents (as sets) -/
def ExtEq (a b : Concept) : Prop := a.extentI ⊆ b.extentI ∧ b.extentI ⊆ a.extentI

instance (a b : Concept) : Decidable (ExtEq a b) := by unfold ExtEq; infer_instance

/-! ## order, strict order, equality, hash -/

/-- `a <= b` ⇔ `a`'s extent is contained in `b`'s (reversed for monotone concepts). -/
theorem le_iff_extent_subset (a b : Concept) (h : Comparable a b) :
    Concept.le a b = .ok (decide (ExtLe a b)) := by
  obtain ⟨hh, hm, nda, ndb⟩ := h
  have hE : ExtLe a b ↔ (if b.isMonotone then b.extentI ⊆ a.extentI else a.extentI ⊆ b.extentI) := by
    unfold ExtLe; rw [hm]
  unfold Concept.le Concept.support
  simp only [hh, hm, bne_self_eq_false, Bool.false_eq_true, ↓reduceIte]
  cases hb : b.isMonotone <;>
    simp only [hb, Bool.not_false, Bool.not_true, Bool.false_eq_true, ↓reduceIte] at hE ⊢
  · split
    · rename_i hgt
      apply ok_false_decide
      intro hsub
      have := nda.length_le_of_subset (hE.mp hsub)
      omega
    · rw [memLoop_eq]; exact ok_decide_congr hE.symm
  · split
    · rename_i hgt
      apply ok_false_decide
      intro hsub
      have := ndb.length_le_of_subset (hE.mp hsub)
      omega
    · rw [memLoop_eq]; exact ok_decide_congr hE.symm

/-- `==` ⇔ equal extents (as sets, whatever the order of the indexes). -/
theorem eq_iff_extent_eq (a b : Concept) (h : Comparable a b) :
    Concept.eq a b = .ok (decide (ExtEq a b)) ∧
    (Concept.eq a b = .ok true ↔ ∀ g, g ∈ a.extentI ↔ g ∈ b.extentI) := by
  obtain ⟨hh, hm, nda, ndb⟩ := h
  have key : Concept.eq a b = .ok (decide (ExtEq a b)) := by
    unfold Concept.eq Concept.support
    simp only [hh, hm, bne_self_eq_false, Bool.false_eq_true, ↓reduceIte]
    split
    · rename_i hne
      apply ok_false_decide
      rintro ⟨h1, h2⟩
      have := length_eq_of_subset_subset nda ndb h1 h2
      simp [this] at hne
    · rw [setEq_eq]; exact ok_decide_congr Iff.rfl
  refine ⟨key, ?_⟩
  rw [key]
  simp only [Except.ok.injEq, decide_eq_true_eq, ExtEq, List.subset_def]
  exact ⟨fun ⟨h1, h2⟩ g => ⟨fun x => h1 x, fun x => h2 x⟩,
    fun H => ⟨fun hg => (H _).mp hg, fun hg => (H _).mpr hg⟩⟩

/-- `<` is the strict part of `<=`: `a <= b` and not `b <= a`; equivalently `a <= b` and not `a == b`. -/
theorem lt_strict_part (a b : Concept) (h : Comparable a b) :
    Concept.lt a b = .ok (decide (ExtLe a b ∧ ¬ ExtLe b a)) ∧
    Concept.lt a b = .ok (decide (ExtLe a b ∧ ¬ ExtEq a b)) := by
  have hle := le_iff_extent_subset a b h
  obtain ⟨hh, hm, nda, ndb⟩ := h
  have hiff : (ExtLe a b ∧ ¬ ExtLe b a) ↔ (ExtLe a b ∧ ¬ ExtEq a b) := by
    unfold ExtLe ExtEq
    rw [← hm]
    cases a.isMonotone <;> simp only [Bool.false_eq_true, ↓reduceIte] <;> constructor
    · exact fun ⟨h1, h2⟩ => ⟨h1, fun h3 => h2 h3.2⟩
    · exact fun ⟨h1, h2⟩ => ⟨h1, fun h3 => h2 ⟨h1, h3⟩⟩
    · exact fun ⟨h1, h2⟩ => ⟨h1, fun h3 => h2 h3.1⟩
    · exact fun ⟨h1, h2⟩ => ⟨h1, fun h3 => h2 ⟨h3, h1⟩⟩
  have key : Concept.lt a b = .ok (decide (ExtLe a b ∧ ¬ ExtLe b a)) := by
    unfold Concept.lt
    simp only [hh, hm, bne_self_eq_false, Bool.false_eq_true, ↓reduceIte]
    unfold Concept.support
    split
    · rename_i heq
      have heq : a.extentI.length = b.extentI.length := by simpa using heq
      apply ok_false_decide
      unfold ExtLe
      rw [← hm]
      cases a.isMonotone <;> simp only [Bool.false_eq_true, ↓reduceIte]
      · rintro ⟨h1, h2⟩
        exact h2 (subset_of_subset_of_length_le nda h1 (by omega))
      · rintro ⟨h1, h2⟩
        exact h2 (subset_of_subset_of_length_le ndb h1 (by omega))
    · rename_i hne
      have hne : a.extentI.length ≠ b.extentI.length := by simpa using hne
      rw [hle]
      apply ok_decide_congr
      refine ⟨fun h1 => ⟨h1, ?_⟩, fun h1 => h1.1⟩
      revert h1
      unfold ExtLe
      rw [← hm]
      cases a.isMonotone <;> simp only [Bool.false_eq_true, ↓reduceIte]
      · intro h1 h2
        exact hne (length_eq_of_subset_subset nda ndb h1 h2)
      · intro h1 h2
        exact hne (length_eq_of_subset_subset nda ndb h2 h1)
  refine ⟨key, ?_⟩
  rw [key]
  exact ok_decide_congr hiff

/-- equal concepts hand equal values to `hash` (so they hash equally). -/
theorem eq_hashkey (a b : Concept) (h : Comparable a b) (heq : Concept.eq a b = .ok true) :
    Concept.hashKey a = Concept.hashKey b :=
  sortedNats_eq_of_set_eq h.nda h.ndb ((eq_iff_extent_eq a b h).2.mp heq)

/-- (the hash key is as discriminating as equality allows: equal keys ⇒ equal concepts) -/
theorem hashkey_eq (a b : Concept) (h : Comparable a b) (hk : Concept.hashKey a = Concept.hashKey b) :
    Concept.eq a b = .ok true :=
  (eq_iff_extent_eq a b h).2.mpr (set_eq_of_sortedNats_eq hk)

/-- `<=` is a partial order on the concepts of one context: reflexive, antisymmetric up to `==`,
    transitive.  (No hypothesis is needed: an answer `True` already implies matching guards.) -/
theorem le_partial_order :
    (∀ a : Concept, Concept.le a a = .ok true) ∧
    (∀ a b : Concept, Concept.le a b = .ok true → Concept.le b a = .ok true → Concept.eq a b = .ok true) ∧
    (∀ a b c : Concept, Concept.le a b = .ok true → Concept.le b c = .ok true → Concept.le a c = .ok true) := by
  -- what an answer `True` of `le` means
  have unpack : ∀ a b : Concept, Concept.le a b = .ok true →
      a.contextHash = b.contextHash ∧ a.isMonotone = b.isMonotone ∧
      (if a.isMonotone then b.extentI.length ≤ a.extentI.length ∧ b.extentI ⊆ a.extentI
       else a.extentI.length ≤ b.extentI.length ∧ a.extentI ⊆ b.extentI) := by
    intro a b h
    unfold Concept.le Concept.support at h
    by_cases hh : a.contextHash = b.contextHash
    · by_cases hm : a.isMonotone = b.isMonotone
      · refine ⟨hh, hm, ?_⟩
        simp only [hh, hm, bne_self_eq_false, Bool.false_eq_true, ↓reduceIte] at h
        rw [hm]
        cases hb : b.isMonotone <;>
          simp only [hb, Bool.not_false, Bool.not_true, Bool.false_eq_true, ↓reduceIte] at h ⊢
        all_goals
          split at h
          · cases h
          · rename_i hle
            simp only [Except.ok.injEq, memLoop_iff] at h
            exact ⟨by omega, h⟩
      · simp [hh, hm] at h
    · simp [hh] at h
  have pack : ∀ a b : Concept, a.contextHash = b.contextHash → a.isMonotone = b.isMonotone →
      (if a.isMonotone then b.extentI.length ≤ a.extentI.length ∧ b.extentI ⊆ a.extentI
       else a.extentI.length ≤ b.extentI.length ∧ a.extentI ⊆ b.extentI) →
      Concept.le a b = .ok true := by
    intro a b hh hm h
    unfold Concept.le Concept.support
    simp only [hh, hm, bne_self_eq_false, Bool.false_eq_true, ↓reduceIte]
    rw [hm] at h
    cases hb : b.isMonotone <;>
      simp only [hb, Bool.not_false, Bool.not_true, Bool.false_eq_true, ↓reduceIte] at h ⊢
    all_goals
      rw [if_neg (by omega)]
      simp only [Except.ok.injEq, memLoop_iff]
      exact h.2
  refine ⟨?_, ?_, ?_⟩
  · intro a
    apply pack a a rfl rfl
    cases a.isMonotone <;> simp
  · intro a b hab hba
    obtain ⟨hh, hm, h1⟩ := unpack a b hab
    obtain ⟨_, _, h2⟩ := unpack b a hba
    rw [← hm] at h2
    unfold Concept.eq Concept.support
    simp only [hh, hm, bne_self_eq_false, Bool.false_eq_true, ↓reduceIte]
    rw [hm] at h1 h2
    cases hb : b.isMonotone <;> simp only [hb, Bool.false_eq_true, ↓reduceIte] at h1 h2
    all_goals
      rw [if_neg (by simp; omega)]
      simp only [Except.ok.injEq, setEq_iff]
    · exact ⟨h1.2, h2.2⟩
    · exact ⟨h2.2, h1.2⟩
  · intro a b c hab hbc
    obtain ⟨hh, hm, h1⟩ := unpack a b hab
    obtain ⟨hh', hm', h2⟩ := unpack b c hbc
    apply pack a c (hh.trans hh') (hm.trans hm')
    rw [← hm] at h2
    cases ha : a.isMonotone <;> simp only [ha, Bool.false_eq_true, ↓reduceIte] at h1 h2 ⊢
    · exact ⟨by omega, fun g hg => h2.2 (h1.2 hg)⟩
    · exact ⟨by omega, fun g hg => h1.2 (h2.2 hg)⟩

/-! ## the listing order of an extent never matters (any size) -/

/-- `a'` is `a` with its extent listed in another order: `extent_i` is a permutation (repetitions, if any, are
    kept), context hash and monotonicity are the same.  (Every derivation route lists the extent in its own order:
    `extension_i` ascending, object-wise CbO "generators first", `from_objects(…, is_extent=True)`, `read_json`
    and the constructor as given.) -/
structure Relisted (a a' : Concept) : Prop where
  perm : a.extentI.Perm a'.extentI
  hash : a.contextHash = a'.contextHash
  mono : a.isMonotone = a'.isMonotone

/-- `<=`, `<`, `==`, `!=` and the value handed to `hash` depend on the two extents only as SETS: re-listing either
    extent in any order — whatever its length, nothing else assumed — changes no answer (value or exception)
    and no hash.  So no threshold on the number of objects and no ratio of supports separates two regimes. -/
theorem listing_invariant (a a' b b' : Concept) (ha : Relisted a a') (hb : Relisted b b') :
    Concept.le a b = Concept.le a' b' ∧ Concept.lt a b = Concept.lt a' b' ∧
    Concept.eq a b = Concept.eq a' b' ∧ Concept.ne a b = Concept.ne a' b' ∧
    Concept.hashKey a = Concept.hashKey a' := by
  obtain ⟨pa, hha, hma⟩ := ha
  obtain ⟨pb, hhb, hmb⟩ := hb
  have la := pa.length_eq
  have lb := pb.length_eq
  have hle : Concept.le a b = Concept.le a' b' := by
    unfold Concept.le Concept.support
    rw [← hha, ← hhb, ← hma, ← hmb]
    cases a.isMonotone <;>
      simp only [Bool.not_false, Bool.not_true, Bool.false_eq_true, ↓reduceIte, ← la, ← lb,
        memLoop_perm pb pa, memLoop_perm pa pb]
  have heq : Concept.eq a b = Concept.eq a' b' := by
    unfold Concept.eq Concept.support
    rw [← hha, ← hhb, ← hma, ← hmb, ← la, ← lb, setEq_perm pa pb]
  refine ⟨hle, ?_, heq, ?_, sortedNats_eq_of_perm pa⟩
  · unfold Concept.lt Concept.support
    rw [← hha, ← hhb, ← hma, ← hmb, ← la, ← lb, hle]
  · unfold Concept.ne
    rw [heq]

/-- in particular a concept and any re-listing of it are equal, compare `<=` both ways, never `<`, and hash equally -/
theorem relisted_equal (a a' : Concept) (h : Relisted a a') :
    Concept.eq a a' = .ok true ∧ Concept.le a a' = .ok true ∧ Concept.le a' a = .ok true ∧
    Concept.lt a a' = .ok false ∧ Concept.hashKey a = Concept.hashKey a' := by
  have refl : Relisted a a := ⟨List.Perm.refl _, rfl, rfl⟩
  have h1 := listing_invariant a a a a' refl h
  have h2 := listing_invariant a a' a a h refl
  have hle : Concept.le a a = .ok true := le_partial_order.1 a
  have heq : Concept.eq a a = .ok true := le_partial_order.2.1 a a hle hle
  have hlt : Concept.lt a a = .ok false := by
    unfold Concept.lt; simp
  exact ⟨h1.2.2.1 ▸ heq, h1.1 ▸ hle, h2.1 ▸ hle, h1.2.1 ▸ hlt, (listing_invariant a a' a a h refl).2.2.2.2⟩

/-! ## refused comparisons -/

/-- concepts of different contexts: `==`, `!=`, `<=`, `<` all raise `UnmatchedContextError`
    (a `ValueError`).  "Different context" means "different context hash". -/
theorem cross_context_refused (a b : Concept) (h : a.contextHash ≠ b.contextHash) :
    Concept.eq a b = .error .UnmatchedContextError ∧ Concept.ne a b = .error .UnmatchedContextError ∧
    Concept.le a b = .error .UnmatchedContextError ∧ Concept.lt a b = .error .UnmatchedContextError ∧
    CErr.base .UnmatchedContextError = PyErr.ValueError := by
  have hb : (a.contextHash != b.contextHash) = true := by simpa using h
  simp [Concept.eq, Concept.ne, Concept.le, Concept.lt, hb, CErr.base]

/-- a monotone and an antimonotone concept: `==`, `!=`, `<=`, `<` all raise a `ValueError`, which is
    `UnmatchedMonotonicityError` when the contexts match (else the context guard fires first). -/
theorem cross_monotonicity_refused (a b : Concept) (h : a.isMonotone ≠ b.isMonotone) :
    ∃ e : CErr, e.base = PyErr.ValueError ∧
      (a.contextHash = b.contextHash → e = .UnmatchedMonotonicityError) ∧
      Concept.eq a b = .error e ∧ Concept.ne a b = .error e ∧
      Concept.le a b = .error e ∧ Concept.lt a b = .error e := by
  have hm : (a.isMonotone != b.isMonotone) = true := by simpa using h
  by_cases hh : a.contextHash = b.contextHash
  · refine ⟨.UnmatchedMonotonicityError, rfl, fun _ => rfl, ?_⟩
    simp [Concept.eq, Concept.ne, Concept.le, Concept.lt, hh, hm]
  · have := cross_context_refused a b hh
    exact ⟨.UnmatchedContextError, rfl, fun e => absurd e hh, this.1, this.2.1, this.2.2.1, this.2.2.2.1⟩

/-! ## frozen fields -/

/-- after construction, assigning any of the six defining fields raises `FrozenInstanceError`;
    every other name except the read-only `support` property is assignable (`measures` in particular);
    while `__init__` runs (empty `__dict__`) nothing is frozen. -/
theorem frozen_fields :
    (∀ key ∈ Concept.frozenNames, Concept.setattr Concept.dictAfterInit key = .error .FrozenInstanceError) ∧
    (∀ key, key ∉ Concept.frozenNames → key ≠ "support" → Concept.setattr Concept.dictAfterInit key = .ok ()) ∧
    Concept.setattr Concept.dictAfterInit "measures" = .ok () ∧
    Concept.setattr Concept.dictAfterInit "support" = .error .AttributeError ∧
    (∀ key ∈ Concept.frozenNames, Concept.setattr [] key = .ok ()) := by
  refine ⟨?_, ?_, by simp [Concept.setattr, Concept.dictAfterInit, Concept.frozenNames],
    by simp [Concept.setattr, Concept.dictAfterInit, Concept.frozenNames], ?_⟩
  · intro key hk
    simp only [Concept.frozenNames, List.mem_cons, List.not_mem_nil, or_false] at hk
    rcases hk with rfl | rfl | rfl | rfl | rfl | rfl <;>
      simp [Concept.setattr, Concept.dictAfterInit, Concept.frozenNames]
  · intro key hk hs
    unfold Concept.setattr
    have h1 : Concept.frozenNames.contains key = false := by simpa using hk
    have h2 : (key == "support") = false := by simpa using hs
    simp [h2, hk]
  · intro key hk
    simp only [Concept.frozenNames, List.mem_cons, List.not_mem_nil, or_false] at hk
    rcases hk with rfl | rfl | rfl | rfl | rfl | rfl <;> simp [Concept.setattr]

/-- deleting any of the six defining fields raises `FrozenInstanceError` whatever the state of the instance
    (so the concept is left unchanged); other instance attributes such as `measures` remain deletable and
    assignable; `support` (a property) can be neither deleted nor assigned. -/
theorem frozen_fields_delete :
    (∀ key ∈ Concept.frozenNames, ∀ dict, Concept.delattr dict key = .error .FrozenInstanceError) ∧
    (∀ key ∈ Concept.frozenNames, ∀ dict, (Concept.step dict (.del key)).1 = dict) ∧
    (∃ d, Concept.delattr Concept.dictAfterInit "measures" = .ok d ∧ "measures" ∉ d ∧
          (∀ key ∈ Concept.frozenNames, key ∈ d) ∧ Concept.setattr d "measures" = .ok ()) ∧
    Concept.delattr Concept.dictAfterInit "support" = .error .AttributeError := by
  have h1 : ∀ key ∈ Concept.frozenNames, ∀ dict, Concept.delattr dict key = .error .FrozenInstanceError := by
    intro key hk dict
    simp [Concept.delattr, hk]
  refine ⟨h1, ?_, ?_, by simp [Concept.delattr, Concept.dictAfterInit, Concept.frozenNames]⟩
  · intro key hk dict
    simp [Concept.step, h1 key hk dict]
  · refine ⟨_, by simp [Concept.delattr, Concept.dictAfterInit, Concept.frozenNames]; rfl, ?_, ?_, ?_⟩
    · simp
    · intro key hk
      simp only [Concept.frozenNames, List.mem_cons, List.not_mem_nil, or_false] at hk
      rcases hk with rfl | rfl | rfl | rfl | rfl | rfl <;> simp
    · simp [Concept.setattr, Concept.frozenNames]

/-- there is no route around the freeze: after ANY sequence of attribute assignments and deletions on a
    constructed concept (exceptions caught), every defining field is still present, assigning it still raises
    `FrozenInstanceError` and so does deleting it — in particular `del c.extent_i; c.extent_i = …` fails twice. -/
theorem frozen_fields_no_route (ops : List Concept.AttrOp) :
    ∀ key ∈ Concept.frozenNames,
      key ∈ Concept.runOps Concept.dictAfterInit ops ∧
      Concept.setattr (Concept.runOps Concept.dictAfterInit ops) key = .error .FrozenInstanceError ∧
      Concept.delattr (Concept.runOps Concept.dictAfterInit ops) key = .error .FrozenInstanceError := by
  have inv : ∀ (ops : List Concept.AttrOp) (dict : List String),
      (∀ key ∈ Concept.frozenNames, key ∈ dict) →
      ∀ key ∈ Concept.frozenNames, key ∈ Concept.runOps dict ops := by
    intro ops
    induction ops with
    | nil => intro dict h; exact h
    | cons op ops ih =>
      intro dict h
      apply ih
      intro key hk
      cases op with
      | set k =>
        simp only [Concept.step]
        split
        · split
          · exact h key hk
          · exact List.mem_cons_of_mem _ (h key hk)
        · exact h key hk
      | del k =>
        simp only [Concept.step]
        split
        · rename_i d hd
          unfold Concept.delattr at hd
          split at hd
          · cases hd
          · rename_i hnf
            split at hd
            · cases hd
              have hne : key ≠ k := by
                rintro rfl
                exact hnf (by simpa using hk)
              exact (List.mem_erase_of_ne hne).mpr (h key hk)
            · cases hd
        · exact h key hk
  intro key hk
  have hmem := inv ops Concept.dictAfterInit (by
    intro k hk'
    simp only [Concept.frozenNames, List.mem_cons, List.not_mem_nil, or_false] at hk'
    rcases hk' with rfl | rfl | rfl | rfl | rfl | rfl <;> simp [Concept.dictAfterInit]) key hk
  refine ⟨hmem, ?_, ?_⟩
  · simp [Concept.setattr, hmem, hk]
  · simp [Concept.delattr, hk]

/-! ## from_objects -/

/-- the index → name image `[names[i] for i in idxs]` -/
def namesOf (names : List String) (idxs : List Nat) : List String := idxs.map fun i => names.getD i ""

/-- `FormalConcept.from_objects(A, K)` (indexes given) is `(ext (int A), int A)` — the closure of `A` —
    with the name images, the context's hash and `is_monotone = False`; with `is_extent=True` the
    extent is `A` itself.  Every backend. -/
theorem from_objects_closure (K : Ctx) (hwf : K.table.WF)
    (hobj : K.objNames.length = K.nObjects) (hattr : K.attrNames.length = K.nAttributes)
    (A : List Nat) (hA : C01.InRange A K.nObjects) (h : Int) (isExtent : Bool) :
    let I := Spec.int K.table A (List.range K.nAttributes)
    let E := if isExtent then A else Spec.ext K.table I (List.range K.nObjects)
    Concept.fromObjects (.idx A) K h isExtent false
      = .ok ⟨E, namesOf K.objNames E, I, namesOf K.attrNames I, some h, false⟩ := by
  intro I E
  have hI : K.intentionI A none = I := by
    rw [C01.intention_i_exact K hwf A none hA (by intro bs hb; cases hb)]; rfl
  have hIr : C01.InRange I K.nAttributes := by
    intro x hx; exact List.mem_range.mp (List.mem_filter.mp hx).1
  have hE : (if !isExtent then K.extensionI I none else A) = E := by
    cases isExtent
    · simp only [Bool.not_false, ↓reduceIte, E, Bool.false_eq_true]
      rw [C01.extension_i_exact K hwf I none hIr (by intro bs hb; cases hb)]; rfl
    · simp [E]
  have hEr : ∀ i ∈ E, i < K.objNames.length := by
    intro i hi
    rw [hobj]
    cases isExtent
    · simp only [E, Bool.false_eq_true, ↓reduceIte] at hi
      exact List.mem_range.mp (List.mem_filter.mp hi).1
    · simp only [E, ↓reduceIte] at hi; exact hA i hi
  simp only [Concept.fromObjects, Bool.false_eq_true, ↓reduceIte, bind, Except.bind, pure, Except.pure,
    hI, hE, pickNames_ok K.attrNames I (by rw [hattr]; exact hIr), pickNames_ok K.objNames E hEr, namesOf]

/-- by name: each name is replaced by the index of its FIRST occurrence in `K.object_names`
    (a `ValueError` when one is unknown); then as with indexes.  An empty list is an empty index list. -/
theorem from_objects_by_name (K : Ctx) (xs : List String) (h : Int) (isExtent : Bool) :
    (xs = [] → Concept.fromObjects (.names xs) K h isExtent false
              = Concept.fromObjects (.idx []) K h isExtent false) ∧
    (∀ A, xs ≠ [] → namesIndex K.objNames xs = .ok A →
        (∀ i ∈ A, i < K.objNames.length) ∧ namesOf K.objNames A = xs ∧
        Concept.fromObjects (.names xs) K h isExtent false
          = Concept.fromObjects (.idx A) K h isExtent false) ∧
    (xs ≠ [] → (∃ x ∈ xs, x ∉ K.objNames) →
        Concept.fromObjects (.names xs) K h isExtent false = .error .ValueError) ∧
    ((∀ x ∈ xs, x ∈ K.objNames) → ∃ A, namesIndex K.objNames xs = .ok A) := by
  refine ⟨?_, ?_, ?_, namesIndex_isOk K.objNames xs⟩
  · rintro rfl; rfl
  · intro A hne hA
    obtain ⟨_, h2, h3⟩ := namesIndex_ok _ _ _ hA
    refine ⟨h2, h3, ?_⟩
    cases xs with
    | nil => exact absurd rfl hne
    | cons x xs =>
      simp only [Concept.fromObjects, Bool.false_eq_true, ↓reduceIte, bind, Except.bind, pure, Except.pure, hA]
  · intro hne hex
    cases xs with
    | nil => exact absurd rfl hne
    | cons x xs =>
      simp only [Concept.fromObjects, Bool.false_eq_true, ↓reduceIte, bind, Except.bind,
        (namesIndex_error _ _).mp hex]

/-- the pair built by `from_objects(A, K)` is a formal concept of `K`:
    its intent is the prime set of its extent and its extent the prime set of its intent;
    the extent is duplicate-free, sorted context order, and contains `A`. -/
theorem from_objects_is_concept (K : Ctx) (A : List Nat) (hA : C01.InRange A K.nObjects) :
    let I := Spec.int K.table A (List.range K.nAttributes)
    let E := Spec.ext K.table I (List.range K.nObjects)
    Spec.int K.table E (List.range K.nAttributes) = I ∧
    Spec.ext K.table I (List.range K.nObjects) = E ∧ E.Nodup ∧ A ⊆ E := by
  intro I E
  refine ⟨Spec.int_ext_int K.table A hA _, rfl, ?_, Spec.subset_ext_int K.table A hA _⟩
  exact (List.nodup_range).filter _

/-- the way the object set is written down does not matter: two argument lists with the same members
    (repetitions, any order — nothing but in-range indexes is assumed of them) give the very same concept,
    whose extent is duplicate-free. -/
theorem from_objects_repetition_invariant (K : Ctx) (hwf : K.table.WF)
    (hobj : K.objNames.length = K.nObjects) (hattr : K.attrNames.length = K.nAttributes)
    (A A' : List Nat) (hA : C01.InRange A K.nObjects) (hA' : C01.InRange A' K.nObjects)
    (hsame : ∀ g, g ∈ A ↔ g ∈ A') (h : Int) :
    Concept.fromObjects (.idx A) K h false false = Concept.fromObjects (.idx A') K h false false ∧
    ∃ c, Concept.fromObjects (.idx A) K h false false = .ok c ∧ c.extentI.Nodup := by
  have hint : Spec.int K.table A (List.range K.nAttributes) = Spec.int K.table A' (List.range K.nAttributes) := by
    unfold Spec.int
    apply List.filter_congr
    intro a _
    rw [Bool.eq_iff_iff]
    simp only [List.all_eq_true]
    exact ⟨fun H g hg => H g ((hsame g).mpr hg), fun H g hg => H g ((hsame g).mp hg)⟩
  have h1 := from_objects_closure K hwf hobj hattr A hA h false
  have h2 := from_objects_closure K hwf hobj hattr A' hA' h false
  simp only [Bool.false_eq_true, ↓reduceIte] at h1 h2
  refine ⟨by rw [h1, h2, hint], _, h1, ?_⟩
  exact (List.nodup_range).filter _

/-- (history) `from_objects` stamps the hash the context has AT THE TIME OF THE CALL (`h` = `K.hash_fixed()`
    then): two concepts derived while the context had different hashes — e.g. before and after an in-place
    change of the context object — are refused by `==`, `<=`, `<`; two concepts derived (with
    `is_extent=False`) while it had the same hash are comparable and ordered by extent inclusion. -/
theorem from_objects_context_identity (K K' : Ctx) (h h' : Int) (objs objs' : ObjArg) (ie ie' : Bool)
    (c c' : Concept) (hc : Concept.fromObjects objs K h ie false = .ok c)
    (hc' : Concept.fromObjects objs' K' h' ie' false = .ok c') :
    (h ≠ h' → Concept.eq c c' = .error .UnmatchedContextError ∧ Concept.le c c' = .error .UnmatchedContextError ∧
               Concept.lt c c' = .error .UnmatchedContextError) ∧
    (h = h' → c.extentI.Nodup → c'.extentI.Nodup → Concept.le c c' = .ok (decide (c.extentI ⊆ c'.extentI))) := by
  have fields : ∀ (o : ObjArg) (K : Ctx) (h : Int) (ie : Bool) (c : Concept),
      Concept.fromObjects o K h ie false = .ok c → c.contextHash = some h ∧ c.isMonotone = false := by
    intro o K h ie c hc
    simp only [Concept.fromObjects, Bool.false_eq_true, ↓reduceIte, bind, Except.bind, pure, Except.pure] at hc
    repeat' split at hc
    all_goals first | (cases hc; exact ⟨rfl, rfl⟩) | cases hc
  obtain ⟨e1, m1⟩ := fields _ _ _ _ _ hc
  obtain ⟨e2, m2⟩ := fields _ _ _ _ _ hc'
  constructor
  · intro hne
    have := cross_context_refused c c' (by rw [e1, e2]; intro e; exact hne (Option.some.inj e))
    exact ⟨this.1, this.2.2.1, this.2.2.2.1⟩
  · intro heq nd nd'
    have := le_iff_extent_subset c c' ⟨by rw [e1, e2, heq], by rw [m1, m2], nd, nd'⟩
    rw [this]
    simp [ExtLe, m1]

/-- `is_monotone=True` is refused by `from_objects` -/
theorem from_objects_monotone_refused (objects : ObjArg) (K : Ctx) (h : Int) (isExtent : Bool) :
    Concept.fromObjects objects K h isExtent true = .error .AssertionError := by
  simp [Concept.fromObjects, bind, Except.bind, throw, throwThe, MonadExceptOf.throw]

/-! ## PatternConcept twins -/
namespace Pattern
variable {D : Type}

/-- pattern concepts of one many-valued context with duplicate-free extents -/
structure Comparable (a b : PConcept D) : Prop where
  hash : a.contextHash = b.contextHash
  nda : a.extentI.Nodup
  ndb : b.extentI.Nodup

theorem le_iff_extent_subset (a b : PConcept D) (h : Comparable a b) :
    PConcept.le a b = .ok (decide (a.extentI ⊆ b.extentI)) := by
  obtain ⟨hh, nda, ndb⟩ := h
  unfold PConcept.le PConcept.support
  simp only [hh, bne_self_eq_false, Bool.false_eq_true, ↓reduceIte]
  split
  · apply ok_false_decide
    intro hsub
    have := nda.length_le_of_subset hsub
    omega
  · rw [memLoop_eq]

theorem eq_iff_extent_eq (a b : PConcept D) (h : Comparable a b) :
    PConcept.eq a b = .ok (decide (a.extentI ⊆ b.extentI ∧ b.extentI ⊆ a.extentI)) ∧
    (PConcept.eq a b = .ok true ↔ ∀ g, g ∈ a.extentI ↔ g ∈ b.extentI) := by
  have hle := le_iff_extent_subset a b h
  obtain ⟨hh, nda, ndb⟩ := h
  have key : PConcept.eq a b = .ok (decide (a.extentI ⊆ b.extentI ∧ b.extentI ⊆ a.extentI)) := by
    unfold PConcept.eq PConcept.support
    simp only [hh, bne_self_eq_false, Bool.false_eq_true, ↓reduceIte]
    split
    · rename_i hne
      apply ok_false_decide
      rintro ⟨h1, h2⟩
      have := length_eq_of_subset_subset nda ndb h1 h2
      simp [this] at hne
    · rename_i heq
      have heq : a.extentI.length = b.extentI.length := by simpa using heq
      rw [hle]
      apply ok_decide_congr
      exact ⟨fun h1 => ⟨h1, subset_of_subset_of_length_le nda h1 (by omega)⟩, fun h1 => h1.1⟩
  refine ⟨key, ?_⟩
  rw [key]
  simp only [Except.ok.injEq, decide_eq_true_eq, List.subset_def]
  exact ⟨fun ⟨h1, h2⟩ g => ⟨fun x => h1 x, fun x => h2 x⟩,
    fun H => ⟨fun hg => (H _).mp hg, fun hg => (H _).mpr hg⟩⟩

theorem lt_strict_part (a b : PConcept D) (h : Comparable a b) :
    PConcept.lt a b = .ok (decide (a.extentI ⊆ b.extentI ∧ ¬ b.extentI ⊆ a.extentI)) := by
  have hle := le_iff_extent_subset a b h
  obtain ⟨hh, nda, ndb⟩ := h
  unfold PConcept.lt PConcept.support
  simp only [hh, bne_self_eq_false, Bool.false_eq_true, ↓reduceIte]
  split
  · rename_i hge
    apply ok_false_decide
    rintro ⟨h1, h2⟩
    exact h2 (subset_of_subset_of_length_le nda h1 hge)
  · rename_i hlt
    rw [hle]
    apply ok_decide_congr
    refine ⟨fun h1 => ⟨h1, fun h2 => ?_⟩, fun h1 => h1.1⟩
    have := ndb.length_le_of_subset h2
    omega

theorem eq_hashkey (a b : PConcept D) (h : Comparable a b) (heq : PConcept.eq a b = .ok true) :
    PConcept.hashKey a = PConcept.hashKey b := by
  unfold PConcept.hashKey
  rw [sortedNats_eq_of_set_eq h.nda h.ndb ((eq_iff_extent_eq a b h).2.mp heq), h.hash]

theorem le_partial_order :
    (∀ a : PConcept D, PConcept.le a a = .ok true) ∧
    (∀ a b : PConcept D, PConcept.le a b = .ok true → PConcept.le b a = .ok true → PConcept.eq a b = .ok true) ∧
    (∀ a b c : PConcept D, PConcept.le a b = .ok true → PConcept.le b c = .ok true → PConcept.le a c = .ok true) := by
  have unpack : ∀ a b : PConcept D, PConcept.le a b = .ok true →
      a.contextHash = b.contextHash ∧ a.extentI.length ≤ b.extentI.length ∧ a.extentI ⊆ b.extentI := by
    intro a b h
    unfold PConcept.le PConcept.support at h
    by_cases hh : a.contextHash = b.contextHash
    · simp only [hh, bne_self_eq_false, Bool.false_eq_true, ↓reduceIte] at h
      split at h
      · cases h
      · simp only [Except.ok.injEq, memLoop_iff] at h
        exact ⟨hh, by omega, h⟩
    · simp [hh] at h
  have pack : ∀ a b : PConcept D, a.contextHash = b.contextHash →
      a.extentI.length ≤ b.extentI.length → a.extentI ⊆ b.extentI → PConcept.le a b = .ok true := by
    intro a b hh hl hs
    unfold PConcept.le PConcept.support
    simp only [hh, bne_self_eq_false, Bool.false_eq_true, ↓reduceIte]
    rw [if_neg (by omega)]
    simp only [Except.ok.injEq, memLoop_iff]
    exact hs
  refine ⟨fun a => pack a a rfl (Nat.le_refl _) (List.Subset.refl _), ?_, ?_⟩
  · intro a b hab hba
    obtain ⟨hh, hl, hs⟩ := unpack a b hab
    obtain ⟨_, hl', _⟩ := unpack b a hba
    unfold PConcept.eq PConcept.support
    simp only [hh, bne_self_eq_false, Bool.false_eq_true, ↓reduceIte]
    rw [if_neg (by simp; omega)]
    exact hab
  · intro a b c hab hbc
    obtain ⟨hh, hl, hs⟩ := unpack a b hab
    obtain ⟨hh', hl', hs'⟩ := unpack b c hbc
    exact pack a c (hh.trans hh') (by omega) (fun g hg => hs' (hs hg))

/-- pattern concepts of different contexts: `==`, `!=`, `<=`, `<` raise `NotImplementedError` -/
theorem cross_context_refused (a b : PConcept D) (h : a.contextHash ≠ b.contextHash) :
    PConcept.eq a b = .error .NotImplementedError ∧ PConcept.ne a b = .error .NotImplementedError ∧
    PConcept.le a b = .error .NotImplementedError ∧ PConcept.lt a b = .error .NotImplementedError := by
  have hb : (a.contextHash != b.contextHash) = true := by simpa using h
  simp [PConcept.eq, PConcept.ne, PConcept.le, PConcept.lt, hb]

/-- the public field names of a `PatternConcept` are read-only properties (`AttributeError`);
    any other name (`measures`, …) is assignable -/
theorem frozen_fields :
    (∀ key ∈ PConcept.propertyNames, PConcept.setattr key = .error .AttributeError) ∧
    (∀ key ∈ PConcept.propertyNames, ∀ present, PConcept.delattr present key = .error .AttributeError) ∧
    (∀ key, key ∉ PConcept.propertyNames → PConcept.setattr key = .ok ()) := by
  refine ⟨?_, ?_, ?_⟩
  · intro key hk
    simp [PConcept.setattr, hk]
  · intro key hk present
    simp [PConcept.delattr, hk]
  · intro key hk
    simp [PConcept.setattr, hk]

/-- `PatternConcept.from_objects(A, K)` is `(K.extension_i(K.intention_i(A)), K.intention_i(A))`
    (the closure of `A` under the context's own derivation pair — that this pair is a Galois
    connection for every pattern structure is property C13), or `(A, K.intention_i(A))` with
    `is_extent=True`; context hash attached. -/
theorem from_objects_closure (intentionI : List Nat → D) (extensionI : D → List Nat)
    (objNames : List String) (A : List Nat) (h : Int) (isExtent : Bool)
    (hA : ∀ g ∈ A, g < objNames.length) (hext : ∀ d, ∀ g ∈ extensionI d, g < objNames.length) :
    let I := intentionI A
    let E := if isExtent then A else extensionI I
    ∃ c, PConcept.fromObjects intentionI extensionI objNames (.idx A) h isExtent false = .ok c ∧
      c.extentI = E ∧ c.extent = namesOf objNames E ∧ c.intentI = I ∧ c.contextHash = some h := by
  intro I E
  have hE : (if !isExtent then extensionI (intentionI A) else A) = E := by cases isExtent <;> simp [E, I]
  have hEr : ∀ i ∈ E, i < objNames.length := by
    intro i hi
    cases isExtent
    · exact hext I i (by simpa [E] using hi)
    · exact hA i (by simpa [E] using hi)
  refine ⟨⟨E, namesOf objNames E, I, some h⟩, ?_, rfl, rfl, rfl, rfl⟩
  simp only [PConcept.fromObjects, Bool.false_eq_true, ↓reduceIte, bind, Except.bind, pure, Except.pure,
    hE, pickNames_ok objNames E hEr, namesOf, I]

/-- on a many-valued context whose columns are all `IntervalPS` (integer ends):
    `from_objects(A, K)` has, per column, the description `intention_i(A)` — for non-empty `A` the least
    interval containing the interval of every object of `A`, for empty `A` `None` — and as extent exactly the
    objects (context order) whose intervals fall into all these descriptions, which include `A` itself. -/
theorem interval_from_objects_closure (cols : List Interval.Col) (objNames : List String)
    (A : List Nat) (hA : ∀ g ∈ A, g < objNames.length) (h : Int) :
    let I := cols.map fun col => Interval.intentionI col A
    let E := (List.range objNames.length).filter fun g => cols.all fun col => Interval.inside col (Interval.intentionI col A) g
    (∃ c, PConcept.fromObjects (Interval.mvIntentionI cols) (Interval.mvExtensionI objNames.length cols) objNames
        (.idx A) h false false = .ok c ∧ c.extentI = E ∧ c.extent = namesOf objNames E ∧ c.intentI = I ∧
        c.contextHash = some h) ∧
    (A ≠ [] → A ⊆ E) ∧
    (∀ col ∈ cols, A ≠ [] → ∃ mn mx, Interval.intentionI col A = some (mn, mx) ∧
        (∀ g ∈ A, mn ≤ (col.getD g (0, 0)).1 ∧ (col.getD g (0, 0)).2 ≤ mx) ∧
        (∃ g ∈ A, mn = (col.getD g (0, 0)).1) ∧ (∃ g ∈ A, mx = (col.getD g (0, 0)).2)) ∧
    (A = [] → I = cols.map (fun _ => none) ∧ (cols ≠ [] → E = [])) := by
  intro I E
  have hE : Interval.mvExtensionI objNames.length cols (Interval.mvIntentionI cols A) = E := by
    rw [Interval.mvExtensionI_eq]
    apply List.filter_congr
    intro g _
    exact Interval.zip_map_all cols _ g
  refine ⟨?_, ?_, ?_, ?_⟩
  · obtain ⟨c, hc, h1, h2, h3, h4⟩ := from_objects_closure (Interval.mvIntentionI cols)
      (Interval.mvExtensionI objNames.length cols) objNames A h false hA (by
        intro d g hg
        rw [Interval.mvExtensionI_eq] at hg
        exact List.mem_range.mp (List.mem_filter.mp hg).1)
    simp only [Bool.false_eq_true, ↓reduceIte] at h1 h2
    rw [hE] at h1 h2
    exact ⟨c, hc, h1, h2, h3, h4⟩
  · intro hne g hg
    refine List.mem_filter.mpr ⟨List.mem_range.mpr (hA g hg), ?_⟩
    rw [List.all_eq_true]
    intro col _
    obtain ⟨mn, mx, hI, hall, _, _⟩ := Interval.intentionI_hull col A hne
    rw [hI]
    simp only [Interval.inside, Bool.and_eq_true, decide_eq_true_eq]
    exact hall g hg
  · intro col _ hne
    exact Interval.intentionI_hull col A hne
  · rintro rfl
    refine ⟨rfl, ?_⟩
    intro hc
    apply List.filter_eq_nil_iff.mpr
    intro g _
    cases cols with
    | nil => exact absurd rfl hc
    | cons c cs => simp [Interval.intentionI, Interval.inside]

/-- the listing order of an extent never matters for pattern concepts either (any size): `<=`, `<`, `==`, `!=` and the
    hash key are invariant under any permutation of either extent listing -/
theorem listing_invariant (a a' b b' : PConcept D)
    (pa : a.extentI.Perm a'.extentI) (ha : a.contextHash = a'.contextHash)
    (pb : b.extentI.Perm b'.extentI) (hb : b.contextHash = b'.contextHash) :
    PConcept.le a b = PConcept.le a' b' ∧ PConcept.lt a b = PConcept.lt a' b' ∧
    PConcept.eq a b = PConcept.eq a' b' ∧ PConcept.ne a b = PConcept.ne a' b' ∧
    PConcept.hashKey a = PConcept.hashKey a' := by
  have la := pa.length_eq
  have lb := pb.length_eq
  have hle : PConcept.le a b = PConcept.le a' b' := by
    unfold PConcept.le PConcept.support
    rw [← ha, ← hb, ← la, ← lb, memLoop_perm pb pa]
  have heq : PConcept.eq a b = PConcept.eq a' b' := by
    unfold PConcept.eq PConcept.support
    rw [← ha, ← hb, ← la, ← lb, hle]
  refine ⟨hle, ?_, heq, ?_, ?_⟩
  · unfold PConcept.lt PConcept.support
    rw [← ha, ← hb, ← la, ← lb, hle]
  · unfold PConcept.ne
    rw [heq]
  · unfold PConcept.hashKey
    rw [sortedNats_eq_of_perm pa, ha]

/-- (history) `PatternConcept.from_objects` stamps the hash the many-valued context has AT THE TIME OF THE CALL
    (`h` = `K.hash_fixed()` then, whatever route changed the content in between — a setter of the context, the `data`
    setter of a contained pattern structure, an edit of a list a getter handed out): concepts derived under
    different hashes refuse `==`, `<=`, `<`; concepts derived under the same hash are ordered by extent inclusion. -/
theorem from_objects_context_identity (int int' : List Nat → D) (ext ext' : D → List Nat)
    (names names' : List String) (h h' : Int) (objs objs' : ObjArg) (ie ie' : Bool) (c c' : PConcept D)
    (hc : PConcept.fromObjects int ext names objs h ie false = .ok c)
    (hc' : PConcept.fromObjects int' ext' names' objs' h' ie' false = .ok c') :
    (h ≠ h' → PConcept.eq c c' = .error .NotImplementedError ∧ PConcept.le c c' = .error .NotImplementedError ∧
               PConcept.lt c c' = .error .NotImplementedError) ∧
    (h = h' → c.extentI.Nodup → c'.extentI.Nodup →
      PConcept.le c c' = .ok (decide (c.extentI ⊆ c'.extentI))) := by
  have field : ∀ (int : List Nat → D) (ext : D → List Nat) (names : List String) (o : ObjArg) (h : Int) (ie : Bool)
      (c : PConcept D), PConcept.fromObjects int ext names o h ie false = .ok c → c.contextHash = some h := by
    intro int ext names o h ie c hc
    simp only [PConcept.fromObjects, Bool.false_eq_true, ↓reduceIte, bind, Except.bind, pure, Except.pure] at hc
    repeat' split at hc
    all_goals first | (cases hc; rfl) | cases hc
  have e1 := field _ _ _ _ _ _ _ hc
  have e2 := field _ _ _ _ _ _ _ hc'
  constructor
  · intro hne
    have := cross_context_refused c c' (by rw [e1, e2]; intro e; exact hne (Option.some.inj e))
    exact ⟨this.1, this.2.2.1, this.2.2.2⟩
  · intro heq nd nd'
    exact le_iff_extent_subset c c' ⟨by rw [e1, e2, heq], nd, nd'⟩

end Pattern

/-! ## non-vacuity: the hypotheses are met by concrete, non-trivial inputs -/

private instance {ε α : Type} [DecidableEq ε] [DecidableEq α] : DecidableEq (Except ε α)
  | .ok a, .ok b => if h : a = b then isTrue (by rw [h]) else isFalse (by intro e; cases e; exact h rfl)
  | .error a, .error b => if h : a = b then isTrue (by rw [h]) else isFalse (by intro e; cases e; exact h rfl)
  | .ok _, .error _ => isFalse (by intro e; cases e)
  | .error _, .ok _ => isFalse (by intro e; cases e)

private def exK : Ctx :=
  { backend := .numpy, table := ⟨[[true, false, true], [true, true, false], [false, true, true]], 3⟩,
    objNames := ["g0", "g1", "g2"], attrNames := ["a", "b", "c"] }

/-- two concepts of one context, the first with its extent listed out of order (as
    `close_by_one_objectwise` does), the second `from_objects([1], K)` -/
private def exA : Concept := ⟨[1, 0], ["g1", "g0"], [0], ["a"], some 7, false⟩
private def exB : Concept := ⟨[1], ["g1"], [0, 1], ["a", "b"], some 7, false⟩

example : Comparable exB exA ∧ Concept.le exB exA = .ok true ∧ Concept.lt exB exA = .ok true ∧
    Concept.le exA exB = .ok false ∧ Concept.eq exA ⟨[0, 1], ["g0", "g1"], [0], ["a"], some 7, false⟩ = .ok true := by
  refine ⟨⟨rfl, rfl, by decide, by decide⟩, by decide, by decide, by decide, by decide⟩

example : exK.table.WF ∧ exK.objNames.length = exK.nObjects ∧ exK.attrNames.length = exK.nAttributes ∧
    C01.InRange [1] exK.nObjects ∧
    Concept.fromObjects (.idx [1]) exK 7 false false = .ok exB ∧
    Concept.fromObjects (.names ["g1", "g0"]) exK 7 true false = .ok exA := by
  refine ⟨by decide, by decide, by decide, ?_, by decide, by decide⟩
  intro x hx; simp at hx; subst hx; decide

example : exA.contextHash ≠ ({ exA with contextHash := some 8 } : Concept).contextHash ∧
    exA.isMonotone ≠ ({ exA with isMonotone := true } : Concept).isMonotone := by decide

example : (∀ g ∈ [1, 0], g < ["x", "y", "z"].length) ∧
    (PConcept.fromObjects (Interval.mvIntentionI [[(1, 1), (2, 3), (0, 5)], [(0, 0), (1, 1), (0, 0)]])
      (Interval.mvExtensionI 3 [[(1, 1), (2, 3), (0, 5)], [(0, 0), (1, 1), (0, 0)]]) ["x", "y", "z"]
      (.idx [1, 0]) 9 false false).toOption.map (fun c => (c.extentI, c.intentI))
      = some ([0, 1], [some (1, 3), some (0, 1)]) := by
  refine ⟨?_, by decide⟩
  intro g hg; simp at hg; rcases hg with rfl | rfl <;> decide

example : Pattern.Comparable (⟨[2, 0], ["g2", "g0"], (), some 3⟩ : PConcept Unit) ⟨[0, 1, 2], ["g0", "g1", "g2"], (), some 3⟩
    ∧ PConcept.lt (⟨[2, 0], ["g2", "g0"], (), some 3⟩ : PConcept Unit) ⟨[0, 1, 2], ["g0", "g1", "g2"], (), some 3⟩ = .ok true := by
  refine ⟨⟨rfl, by decide, by decide⟩, by decide⟩

/-- a 65-object extent listed descending / rotated against the ascending listing, and a one-object concept below it:
    the hypotheses of `listing_invariant` are met well beyond any small scope, and the answers are the non-trivial ones -/
private def exBig : Concept := ⟨List.range 65, [], [], [], some 7, false⟩
private def exBigDesc : Concept := ⟨(List.range 65).reverse, [], [], [], some 7, false⟩
private def exBigRot : Concept := ⟨(List.range 65).rotateLeft 17, [], [], [], some 7, false⟩
private def exOne : Concept := ⟨[40], [], [], [], some 7, false⟩

example : Relisted exBig exBigDesc ∧ Relisted exBig exBigRot ∧ Relisted exOne exOne ∧
    Concept.le exOne exBigDesc = .ok true ∧ Concept.lt exOne exBigRot = .ok true ∧
    Concept.le exBigRot exOne = .ok false ∧ Concept.eq exBigDesc exBigRot = .ok true ∧
    Concept.hashKey exBigDesc = Concept.hashKey exBigRot := by
  refine ⟨⟨(List.reverse_perm _).symm, rfl, rfl⟩, ⟨by decide, rfl, rfl⟩,
    ⟨List.Perm.refl _, rfl, rfl⟩, by decide, by decide, by decide, by decide, by decide⟩

example : (⟨[2, 0, 1], [], (), some 3⟩ : PConcept Unit).extentI.Perm [0, 1, 2] ∧
    PConcept.eq (⟨[2, 0, 1], [], (), some 3⟩ : PConcept Unit) ⟨[0, 1, 2], [], (), some 3⟩ = .ok true := by
  refine ⟨by decide, by decide⟩

end Fca.C08

/-
  Props/C01 — derivation operators return exactly the prime sets of the incidence
  relation (all three backends, index and name versions, base sets, monotone variants).

  Only property theorems live here; helper lemmas are in `Fca/Lemmas`.
-/
import Fca.Model.Context
import Fca.Spec.Galois
import Fca.Lemmas.AllI
import Fca.Lemmas.Names
import Fca.Gen.Equiv
import Fca.Gen.EquivCtx
namespace Fca.C01
open Fca

/-- in-range index list -/
def InRange (xs : List Nat) (n : Nat) : Prop := ∀ x ∈ xs, x < n
/-- in-range optional base list -/
def BaseInRange (base : Option (List Nat)) (n : Nat) : Prop := ∀ bs, base = some bs → ∀ x ∈ bs, x < n

/-- `extension_i(B, base)` = the objects of the base (default: all objects, in context order)
    that have every attribute of `B`, in the order of the base.  Every backend. -/
theorem extension_i_exact (K : Ctx) (hwf : K.table.WF) (B : List Nat) (base : Option (List Nat))
    (hB : InRange B K.nAttributes) (hbase : BaseInRange base K.nObjects) :
    K.extensionI B base = Spec.ext K.table B (base.getD (List.range K.nObjects)) := by
  unfold Ctx.extensionI Spec.ext
  split
  · rename_i h0
    have : B = [] := List.eq_nil_of_length_eq_zero h0
    subst this
    cases base <;> simp only [Option.getD_none, Option.getD_some, List.all_nil] <;>
      exact (List.filter_eq_self.mpr (fun _ _ => rfl)).symm
  · rw [allI_axis1 K.table hwf K.backend base (some B) hbase (by intro cs h; cases h; exact hB)]
    rfl

/-- `intention_i(A, base)` = the attributes of the base (default: all attributes, in context
    order) shared by every object of `A`, in the order of the base.  Every backend. -/
theorem intention_i_exact (K : Ctx) (hwf : K.table.WF) (A : List Nat) (base : Option (List Nat))
    (hA : InRange A K.nObjects) (hbase : BaseInRange base K.nAttributes) :
    K.intentionI A base = Spec.int K.table A (base.getD (List.range K.nAttributes)) := by
  unfold Ctx.intentionI Spec.int
  split
  · rename_i h0
    have : A = [] := List.eq_nil_of_length_eq_zero h0
    subst this
    cases base <;> simp only [Option.getD_none, Option.getD_some, List.all_nil] <;>
      exact (List.filter_eq_self.mpr (fun _ _ => rfl)).symm
  · rw [allI_axis0 K.table hwf K.backend A base hA hbase]
    rfl

/-- monotone extension: objects of the base having at least one attribute of `B`
    (the full attribute set is excluded, as in the property). -/
theorem extension_monotone_i_exact (K : Ctx) (hwf : K.table.WF) (B : List Nat)
    (base : Option (List Nat)) (hB : InRange B K.nAttributes) (hbase : BaseInRange base K.nObjects)
    (hnotfull : B.length ≠ K.nAttributes) :
    K.extensionMonotoneI B base = Spec.extMono K.table B (base.getD (List.range K.nObjects)) := by
  unfold Ctx.extensionMonotoneI Spec.extMono
  rw [if_neg hnotfull]
  rw [anyI_axis1 K.table hwf K.backend base (some B) hbase (by intro cs h; cases h; exact hB)]
  rfl

/-- the excluded case is pinned by the suite to "the whole base" -/
theorem extension_monotone_i_full (K : Ctx) (B : List Nat) (base : Option (List Nat))
    (hfull : B.length = K.nAttributes) :
    K.extensionMonotoneI B base = base.getD (List.range K.nObjects) := by
  unfold Ctx.extensionMonotoneI
  rw [if_pos hfull]; cases base <;> rfl

/-- monotone intention: attributes of the base that no object outside `A` has. -/
theorem intention_monotone_i_exact (K : Ctx) (hwf : K.table.WF) (A : List Nat)
    (base : Option (List Nat)) (hA : InRange A K.nObjects) (hnd : A.Nodup)
    (hbase : BaseInRange base K.nAttributes) :
    K.intentionMonotoneI A base = Spec.intMono K.table A (base.getD (List.range K.nAttributes)) := by
  unfold Ctx.intentionMonotoneI Spec.intMono
  simp only
  split
  · rename_i hlen
    have hall := nodup_full hnd hA hlen
    symm
    apply List.filter_eq_self.mpr
    intro a _
    simp only [List.all_eq_true, List.mem_range, Bool.or_eq_true, List.contains_eq_mem,
      decide_eq_true_eq]
    intro g hg
    exact Or.inl (hall g hg)
  · have hinv : ∀ i ∈ (List.range K.nObjects).filter (fun g => !(A.contains g)), i < K.table.height := by
      intro i hi
      exact List.mem_range.mp (List.mem_filter.mp hi).1
    rw [anyI_axis0 K.table hwf K.backend _ base hinv hbase]
    apply List.filter_congr
    intro a ha
    rw [Bool.eq_iff_iff]
    simp only [Bool.not_eq_true', List.contains_eq_mem, decide_eq_false_iff_not, List.mem_filter,
      List.any_eq_true, List.mem_range, not_and, not_exists, List.all_eq_true, Bool.or_eq_true,
      decide_eq_true_eq, Bool.not_eq_true', decide_eq_false_iff_not, Ctx.nObjects]
    constructor
    · intro H g hg
      by_cases hgA : g ∈ A
      · exact Or.inl hgA
      · right
        have := H ha g ⟨hg, hgA⟩
        simpa using this
    · intro H _ g hg
      rcases H g hg.1 with h1 | h1
      · exact absurd h1 hg.2
      · simpa using h1

/-- by name, all names known: the result is the name image, in order, of the index result
    computed on the named attributes and the named base. -/
theorem extension_by_name (K : Ctx) (hwf : K.table.WF)
    (hobj : K.objNames.length = K.nObjects) (hattr : K.attrNames.length = K.nAttributes)
    (attrs : List String) (base : Option (List String))
    (hattrs : ∀ a ∈ attrs, a ∈ K.attrNames) (hbs : ∀ bs, base = some bs → ∀ g ∈ bs, g ∈ K.objNames) :
    ∃ ai bi, namesToIdx K.attrNames attrs = .ok ai ∧
      ai.map (fun i => K.attrNames.getD i "") = attrs ∧
      (match base with
        | none => bi = List.range K.nObjects
        | some bs => namesToIdx K.objNames bs = .ok bi ∧ bi.map (fun i => K.objNames.getD i "") = bs) ∧
      K.extension attrs base false
        = .ok ((Spec.ext K.table ai bi).map fun g => K.objNames.getD g "") := by
  cases ha : namesToIdx K.attrNames attrs with
  | error e =>
    have := (namesToIdx_error K.attrNames attrs).mpr (by
      cases e <;> first | exact ha | skip
      all_goals (exfalso; clear hbs; induction attrs with
        | nil => simp [namesToIdx] at ha
        | cons x xs ih =>
          simp only [namesToIdx] at ha
          split at ha
          · cases ha
          · split at ha
            · rename_i e' he'; cases ha
              exact ih (fun a h => hattrs a (List.mem_cons_of_mem _ h)) he'
            · cases ha))
    obtain ⟨x, hx, hx'⟩ := this
    exact absurd (hattrs x hx) hx'
  | ok ai =>
    obtain ⟨_, hai, hamap⟩ := namesToIdx_ok _ _ _ ha
    have haiR : InRange ai K.nAttributes := by intro i hi; rw [← hattr]; exact hai i hi
    cases base with
    | none =>
      refine ⟨ai, List.range K.nObjects, rfl, hamap, rfl, ?_⟩
      simp only [Ctx.extension, ha, bind, Except.bind, pure, Except.pure, Bool.not_false, ↓reduceIte]
      rw [extension_i_exact K hwf ai (some (List.range K.nObjects)) haiR
        (by intro bs h; cases h; intro x hx; exact List.mem_range.mp hx)]
      rfl
    | some bs =>
      cases hb : namesToIdx K.objNames bs with
      | error e =>
        have hall : ∀ g ∈ bs, g ∈ K.objNames := hbs bs rfl
        exfalso
        clear ha hamap
        induction bs generalizing e with
        | nil => simp [namesToIdx] at hb
        | cons x xs ih =>
          simp only [namesToIdx] at hb
          split at hb
          · rename_i hn
            exact (nameIdx_none.mp hn) (hall x List.mem_cons_self)
          · split at hb
            · rename_i e' he'
              exact ih (fun bs' h => by cases h; exact fun g hg => hall g (List.mem_cons_of_mem _ hg)) e' he'
                (fun g hg => hall g (List.mem_cons_of_mem _ hg))
            · cases hb
      | ok bi =>
        obtain ⟨_, hbi, hbmap⟩ := namesToIdx_ok _ _ _ hb
        have hbiR : BaseInRange (some bi) K.nObjects := by
          intro bs' h; cases h; intro i hi; rw [← hobj]; exact hbi i hi
        refine ⟨ai, bi, rfl, hamap, ⟨hb, hbmap⟩, ?_⟩
        simp only [Ctx.extension, ha, hb, bind, Except.bind, pure, Except.pure, Bool.not_false, ↓reduceIte]
        rw [extension_i_exact K hwf ai (some bi) haiR hbiR]
        rfl

/-- by name, all names known: intention is the name image of the index result. -/
theorem intention_by_name (K : Ctx) (hwf : K.table.WF)
    (hobj : K.objNames.length = K.nObjects)
    (objs : List String) (oi : List Nat) (hoi : namesToIdx K.objNames objs = .ok oi) :
    K.intention objs false
      = .ok ((Spec.int K.table oi (List.range K.nAttributes)).map fun m => K.attrNames.getD m "") := by
  obtain ⟨_, hlt, _⟩ := namesToIdx_ok _ _ _ hoi
  have hR : InRange oi K.nObjects := by intro i hi; rw [← hobj]; exact hlt i hi
  simp only [Ctx.intention, hoi, bind, Except.bind, pure, Except.pure, Bool.not_false, ↓reduceIte]
  rw [intention_i_exact K hwf oi none hR (by intro bs h; cases h)]
  rfl

/-- an unknown attribute, base-object or object name is rejected with `KeyError`
    (both derivation directions, monotone or not). -/
theorem unknown_name_keyerror (K : Ctx) (mono : Bool) :
    (∀ attrs base, (∃ a ∈ attrs, a ∉ K.attrNames) → K.extension attrs base mono = .error .KeyError) ∧
    (∀ attrs bs, (∀ a ∈ attrs, a ∈ K.attrNames) → (∃ g ∈ bs, g ∉ K.objNames) →
        K.extension attrs (some bs) mono = .error .KeyError) ∧
    (∀ objs, (∃ g ∈ objs, g ∉ K.objNames) → K.intention objs mono = .error .KeyError) := by
  refine ⟨?_, ?_, ?_⟩
  · intro attrs base h
    simp [Ctx.extension, (namesToIdx_error _ _).mp h, bind, Except.bind]
  · intro attrs bs hall h
    cases ha : namesToIdx K.attrNames attrs with
    | error e =>
      exfalso
      induction attrs generalizing e with
      | nil => simp [namesToIdx] at ha
      | cons x xs ih =>
        simp only [namesToIdx] at ha
        split at ha
        · rename_i hn
          exact (nameIdx_none.mp hn) (hall x List.mem_cons_self)
        · split at ha
          · rename_i e' he'
            exact ih (fun a h => hall a (List.mem_cons_of_mem _ h)) e' he'
          · cases ha
    | ok ai =>
      simp [Ctx.extension, ha, (namesToIdx_error _ _).mp h, bind, Except.bind]
  · intro objs h
    simp [Ctx.intention, (namesToIdx_error _ _).mp h, bind, Except.bind]

/-! ### the selection matters only as a set

  Repetitions and the order of the given indexes are irrelevant for all four prime sets, and hence for
  `extension_i` / `intention_i` on every backend.  (This is what entitles the correspondence check to hand the
  selection over as a set / frozenset / list with repeated indexes and to judge the answer by the prime set of
  the de-duplicated selection.  For the monotone *operators* the statement is false exactly on the `len()`-based
  shortcut — hypotheses `hnotfull` / `Nodup` above — which the check therefore excludes.) -/

theorem spec_ext_sel_as_set (t : Table) (B B' base : List Nat) (h : ∀ x, x ∈ B ↔ x ∈ B') :
    Spec.ext t B base = Spec.ext t B' base := by
  unfold Spec.ext
  apply List.filter_congr
  intro g _
  rw [Bool.eq_iff_iff]
  simp only [List.all_eq_true]
  exact ⟨fun H a ha => H a ((h a).mpr ha), fun H a ha => H a ((h a).mp ha)⟩

theorem spec_int_sel_as_set (t : Table) (A A' base : List Nat) (h : ∀ x, x ∈ A ↔ x ∈ A') :
    Spec.int t A base = Spec.int t A' base := by
  unfold Spec.int
  apply List.filter_congr
  intro a _
  rw [Bool.eq_iff_iff]
  simp only [List.all_eq_true]
  exact ⟨fun H g hg => H g ((h g).mpr hg), fun H g hg => H g ((h g).mp hg)⟩

theorem spec_extMono_sel_as_set (t : Table) (B B' base : List Nat) (h : ∀ x, x ∈ B ↔ x ∈ B') :
    Spec.extMono t B base = Spec.extMono t B' base := by
  unfold Spec.extMono
  apply List.filter_congr
  intro g _
  rw [Bool.eq_iff_iff]
  simp only [List.any_eq_true]
  exact ⟨fun ⟨a, ha, hv⟩ => ⟨a, (h a).mp ha, hv⟩, fun ⟨a, ha, hv⟩ => ⟨a, (h a).mpr ha, hv⟩⟩

theorem spec_intMono_sel_as_set (t : Table) (A A' base : List Nat) (h : ∀ x, x ∈ A ↔ x ∈ A') :
    Spec.intMono t A base = Spec.intMono t A' base := by
  unfold Spec.intMono
  apply List.filter_congr
  intro a _
  rw [Bool.eq_iff_iff]
  simp only [List.all_eq_true, Bool.or_eq_true, List.contains_eq_mem, decide_eq_true_eq]
  exact ⟨fun H g hg => (H g hg).imp (h g).mp id, fun H g hg => (H g hg).imp (h g).mpr id⟩

/-- `extension_i` answers the same for two selections with the same elements (any order, any repetitions). -/
theorem extension_i_sel_as_set (K : Ctx) (hwf : K.table.WF) (B B' : List Nat) (base : Option (List Nat))
    (hB : InRange B K.nAttributes) (hbase : BaseInRange base K.nObjects) (h : ∀ x, x ∈ B ↔ x ∈ B') :
    K.extensionI B base = K.extensionI B' base := by
  have hB' : InRange B' K.nAttributes := fun x hx => hB x ((h x).mpr hx)
  rw [extension_i_exact K hwf B base hB hbase, extension_i_exact K hwf B' base hB' hbase]
  exact spec_ext_sel_as_set _ _ _ _ h

/-- `intention_i` answers the same for two selections with the same elements (any order, any repetitions). -/
theorem intention_i_sel_as_set (K : Ctx) (hwf : K.table.WF) (A A' : List Nat) (base : Option (List Nat))
    (hA : InRange A K.nObjects) (hbase : BaseInRange base K.nAttributes) (h : ∀ x, x ∈ A ↔ x ∈ A') :
    K.intentionI A base = K.intentionI A' base := by
  have hA' : InRange A' K.nObjects := fun x hx => hA x ((h x).mpr hx)
  rw [intention_i_exact K hwf A base hA hbase, intention_i_exact K hwf A' base hA' hbase]
  exact spec_int_sel_as_set _ _ _ _ h

/-- the monotone operators away from the `len()` shortcut: same elements, same answer -/
theorem extension_monotone_i_sel_as_set (K : Ctx) (hwf : K.table.WF) (B B' : List Nat) (base : Option (List Nat))
    (hB : InRange B K.nAttributes) (hbase : BaseInRange base K.nObjects) (h : ∀ x, x ∈ B ↔ x ∈ B')
    (hn : B.length ≠ K.nAttributes) (hn' : B'.length ≠ K.nAttributes) :
    K.extensionMonotoneI B base = K.extensionMonotoneI B' base := by
  have hB' : InRange B' K.nAttributes := fun x hx => hB x ((h x).mpr hx)
  rw [extension_monotone_i_exact K hwf B base hB hbase hn, extension_monotone_i_exact K hwf B' base hB' hbase hn']
  exact spec_extMono_sel_as_set _ _ _ _ h

/-- the `len()` shortcut is the (only) place where a repeated index changes the answer of the monotone extension:
    a concrete witness (two attributes, the selection `[0, 0]` has the length of the attribute set). -/
example : (⟨.lists, ⟨[[true, false], [false, true]], 2⟩, [], []⟩ : Ctx).extensionMonotoneI [0, 0] none = [0, 1]
    ∧ (⟨.lists, ⟨[[true, false], [false, true]], 2⟩, [], []⟩ : Ctx).extensionMonotoneI [0] none = [0] := by
  decide

/-! ### non-vacuity: the hypotheses are met by a concrete, non-trivial context -/

private def exK : Ctx :=
  { backend := .bitarray, table := ⟨[[true, false, true], [true, true, false]], 3⟩,
    objNames := ["g0", "g1"], attrNames := ["a", "b", "c"] }

example : exK.table.WF ∧ InRange [2, 0] exK.nAttributes ∧ BaseInRange (some [1, 0]) exK.nObjects
    ∧ exK.extensionI [2, 0] (some [1, 0]) = [0] := by
  refine ⟨by decide, ?_, ?_, by decide⟩
  · intro x hx; simp at hx; rcases hx with rfl | rfl <;> decide
  · intro bs h; cases h; intro x hx; simp at hx; rcases hx with rfl | rfl <;> decide

end Fca.C01

/-! ### the flag vectors behind the derivation operators, for the definitions GENERATED from the Python source

  `extension_i` / `intention_i` filter a base by the flag vector `all(axis=1 / 0)`; for the lists backend these flag
  vectors are computed by `BinTableLists._all_per_row / _all_per_column / _any_per_row / _any_per_column`.
  `Fca.Gen.Lists.*` is the translation of their current Python source (`harness/py2lean.py`), proved equal to the model
  in `Fca/Gen/Equiv.lean`; here: each flag is exactly the quantifier over the incidence relation. -/
namespace Fca.C01
open Fca

section
variable (t : Table) (hwf : t.WF) (rows cols : Option (List Nat))
  (hr : BaseInRange rows t.height) (hc : BaseInRange cols t.width)
include hwf hr hc

/-- object `i` of the selection gets the flag "has every selected attribute" -/
theorem gen_lists_all_per_row_exact : Gen.Lists.allPerRow t rows cols
    = .ok ((rows.getD (List.range t.height)).map fun i => (cols.getD (List.range t.width)).all fun j => t.get i j) := by
  have e : L.allPerRow t rows cols = L.allPerRow t (some (rows.getD (List.range t.height))) cols := by cases rows <;> rfl
  rw [Gen.Lists.allPerRow_eq_model t hwf rows cols hr hc, e, L.allPerRow_eq t hwf _ (Gen.Lists.getD_lt hr)]

/-- attribute `j` of the selection gets the flag "shared by every selected object" -/
theorem gen_lists_all_per_column_exact : Gen.Lists.allPerColumn t rows cols
    = .ok ((cols.getD (List.range t.width)).map fun j => (rows.getD (List.range t.height)).all fun i => t.get i j) := by
  have e : L.allPerColumn t rows cols = L.allPerColumn t (some (rows.getD (List.range t.height))) cols := by
    cases rows <;> rfl
  rw [Gen.Lists.allPerColumn_eq_model t hwf rows cols hr hc, e, L.allPerColumn_eq]

theorem gen_lists_any_per_row_exact : Gen.Lists.anyPerRow t rows cols
    = .ok ((rows.getD (List.range t.height)).map fun i => (cols.getD (List.range t.width)).any fun j => t.get i j) := by
  have e : L.anyPerRow t rows cols = L.anyPerRow t (some (rows.getD (List.range t.height))) cols := by cases rows <;> rfl
  rw [Gen.Lists.anyPerRow_eq_model t hwf rows cols hr hc, e, L.anyPerRow_eq t hwf _ (Gen.Lists.getD_lt hr)]

theorem gen_lists_any_per_column_exact : Gen.Lists.anyPerColumn t rows cols
    = .ok ((cols.getD (List.range t.width)).map fun j => (rows.getD (List.range t.height)).any fun i => t.get i j) := by
  have e : L.anyPerColumn t rows cols = L.anyPerColumn t (some (rows.getD (List.range t.height))) cols := by
    cases rows <;> rfl
  rw [Gen.Lists.anyPerColumn_eq_model t hwf rows cols hr hc, e, L.anyPerColumn_eq]

end

/-! the derivation operators themselves: `AbstractBinTable.all_i / any_i` as run by a `BinTableLists` (generated from
    the Python source with `axis` specialised to `1` / `0`) return exactly the prime sets, in the order of the base -/

/-- `data.all_i(1, base, B)` — what `extension_i(B, base)` returns for a non-empty `B` — is the extent `B′` within the base -/
theorem gen_lists_all_i_axis1_is_extension (t : Table) (hwf : t.WF) (B : List Nat) (base : Option (List Nat))
    (hB : InRange B t.width) (hbase : BaseInRange base t.height) :
    Gen.Lists.allI1 t base (some B) = .ok (Spec.ext t B (base.getD (List.range t.height))) := by
  have hB' : BaseInRange (some B) t.width := by intro cs h; cases h; exact hB
  rw [Gen.Lists.allI1_eq_model t hwf base (some B) hbase hB']
  exact congrArg Except.ok (allI_axis1 t hwf .lists base (some B) hbase hB')

/-- `data.all_i(0, A, base)` — what `intention_i(A, base)` returns for a non-empty `A` — is the intent `A′` within the base -/
theorem gen_lists_all_i_axis0_is_intention (t : Table) (hwf : t.WF) (A : List Nat) (base : Option (List Nat))
    (hA : InRange A t.height) (hbase : BaseInRange base t.width) :
    Gen.Lists.allI0 t (some A) base = .ok (Spec.int t A (base.getD (List.range t.width))) := by
  have hA' : BaseInRange (some A) t.height := by intro rs h; cases h; exact hA
  rw [Gen.Lists.allI0_eq_model t hwf (some A) base hA' hbase]
  exact congrArg Except.ok (allI_axis0 t hwf .lists A base hA hbase)

/-- `data.any_i(1, base, B)` — the monotone extension away from its `len()` shortcut -/
theorem gen_lists_any_i_axis1_is_extension_monotone (t : Table) (hwf : t.WF) (B : List Nat) (base : Option (List Nat))
    (hB : InRange B t.width) (hbase : BaseInRange base t.height) :
    Gen.Lists.anyI1 t base (some B) = .ok (Spec.extMono t B (base.getD (List.range t.height))) := by
  have hB' : BaseInRange (some B) t.width := by intro cs h; cases h; exact hB
  rw [Gen.Lists.anyI1_eq_model t hwf base (some B) hbase hB']
  exact congrArg Except.ok (anyI_axis1 t hwf .lists base (some B) hbase hB')

/-- `data.any_i(0, A, base)`: attributes of the base that some object of `A` has (the building block of
    `intention_monotone_i`, which calls it on the complement of its argument) -/
theorem gen_lists_any_i_axis0_exact (t : Table) (hwf : t.WF) (A : List Nat) (base : Option (List Nat))
    (hA : InRange A t.height) (hbase : BaseInRange base t.width) :
    Gen.Lists.anyI0 t (some A) base
      = .ok ((base.getD (List.range t.width)).filter fun c => A.any fun i => t.get i c) := by
  have hA' : BaseInRange (some A) t.height := by intro rs h; cases h; exact hA
  rw [Gen.Lists.anyI0_eq_model t hwf (some A) base hA' hbase]
  exact congrArg Except.ok (anyI_axis0 t hwf .lists A base hA hbase)

/-- non-vacuity, and the generated definition computes: -/
example : Gen.Lists.allI1 ⟨[[true, false, true], [true, true, false]], 3⟩ (some [1, 0]) (some [2, 0]) = .ok [0] := by rfl

end Fca.C01

/-! ### the derivation operators of `FormalContext` themselves, for the definitions GENERATED from the Python source

  `Fca.Gen.Lists.ctx*` is the translation of the current source of `FormalContext.extension_i / intention_i /
  extension_monotone_i / intention_monotone_i / extension / intention` (and of the properties `data`, `n_objects`,
  `n_attributes` they read) for a context whose table is a `BinTableLists`; `Fca/Gen/EquivCtx.lean` proves them equal to
  the model `Ctx.*`, so the theorems above hold for what the code says now.  (Only `K.backend = .lists` is added to the
  hypotheses: the other two backends are not in the translated subset.) -/
namespace Fca.C01
open Fca

theorem gen_extension_i_exact (K : Ctx) (hb : K.backend = .lists) (hwf : K.table.WF) (B : List Nat)
    (base : Option (List Nat)) (hB : InRange B K.nAttributes) (hbase : BaseInRange base K.nObjects) :
    Gen.Lists.ctxExtensionI K B base = .ok (Spec.ext K.table B (base.getD (List.range K.nObjects))) := by
  rw [Gen.Lists.ctxExtensionI_eq_model K hb hwf B base hB hbase, extension_i_exact K hwf B base hB hbase]

theorem gen_intention_i_exact (K : Ctx) (hb : K.backend = .lists) (hwf : K.table.WF) (A : List Nat)
    (base : Option (List Nat)) (hA : InRange A K.nObjects) (hbase : BaseInRange base K.nAttributes) :
    Gen.Lists.ctxIntentionI K A base = .ok (Spec.int K.table A (base.getD (List.range K.nAttributes))) := by
  rw [Gen.Lists.ctxIntentionI_eq_model K hb hwf A base hA hbase, intention_i_exact K hwf A base hA hbase]

theorem gen_extension_monotone_i_exact (K : Ctx) (hb : K.backend = .lists) (hwf : K.table.WF) (B : List Nat)
    (base : Option (List Nat)) (hB : InRange B K.nAttributes) (hbase : BaseInRange base K.nObjects)
    (hnotfull : B.length ≠ K.nAttributes) :
    Gen.Lists.ctxExtensionMonotoneI K B base = .ok (Spec.extMono K.table B (base.getD (List.range K.nObjects))) := by
  rw [Gen.Lists.ctxExtensionMonotoneI_eq_model K hb hwf B base hB hbase,
    extension_monotone_i_exact K hwf B base hB hbase hnotfull]

theorem gen_extension_monotone_i_full (K : Ctx) (B : List Nat) (base : Option (List Nat))
    (hfull : B.length = K.nAttributes) :
    Gen.Lists.ctxExtensionMonotoneI K B base = .ok (base.getD (List.range K.nObjects)) := by
  rw [Gen.Lists.ctxExtensionMonotoneI_full_eq_model K B base hfull, extension_monotone_i_full K B base hfull]

theorem gen_intention_monotone_i_exact (K : Ctx) (hb : K.backend = .lists) (hwf : K.table.WF) (A : List Nat)
    (base : Option (List Nat)) (hA : InRange A K.nObjects) (hnd : A.Nodup) (hbase : BaseInRange base K.nAttributes) :
    Gen.Lists.ctxIntentionMonotoneI K A base
      = .ok (Spec.intMono K.table A (base.getD (List.range K.nAttributes))) := by
  rw [Gen.Lists.ctxIntentionMonotoneI_eq_model K hb hwf A base hbase,
    intention_monotone_i_exact K hwf A base hA hnd hbase]

/-- `extension(attributes, base_objects)` by name, all names known (the statement of `extension_by_name`) -/
theorem gen_extension_by_name (K : Ctx) (hb : K.backend = .lists) (hwf : K.table.WF)
    (hobj : K.objNames.length = K.nObjects) (hattr : K.attrNames.length = K.nAttributes)
    (attrs : List String) (base : Option (List String))
    (hattrs : ∀ a ∈ attrs, a ∈ K.attrNames) (hbs : ∀ bs, base = some bs → ∀ g ∈ bs, g ∈ K.objNames) :
    ∃ ai bi, namesToIdx K.attrNames attrs = .ok ai ∧
      ai.map (fun i => K.attrNames.getD i "") = attrs ∧
      (match base with
        | none => bi = List.range K.nObjects
        | some bs => namesToIdx K.objNames bs = .ok bi ∧ bi.map (fun i => K.objNames.getD i "") = bs) ∧
      Gen.Lists.ctxExtension K attrs base false
        = .ok ((Spec.ext K.table ai bi).map fun g => K.objNames.getD g "") := by
  rw [Gen.Lists.ctxExtension_eq_model K hb hwf hobj hattr attrs base false]
  exact extension_by_name K hwf hobj hattr attrs base hattrs hbs

theorem gen_intention_by_name (K : Ctx) (hb : K.backend = .lists) (hwf : K.table.WF)
    (hobj : K.objNames.length = K.nObjects) (hattr : K.attrNames.length = K.nAttributes)
    (objs : List String) (oi : List Nat) (hoi : namesToIdx K.objNames objs = .ok oi) :
    Gen.Lists.ctxIntention K objs false
      = .ok ((Spec.int K.table oi (List.range K.nAttributes)).map fun m => K.attrNames.getD m "") := by
  rw [Gen.Lists.ctxIntention_eq_model K hb hwf hobj hattr objs false]
  exact intention_by_name K hwf hobj objs oi hoi

/-- an unknown attribute / base-object / object name is a `KeyError` of the source-derived definitions as well —
    no hypothesis on the context (the `try … except KeyError: raise KeyError` of the source keeps the class) -/
theorem gen_unknown_name_keyerror (K : Ctx) (mono : Bool) :
    (∀ attrs base, (∃ a ∈ attrs, a ∉ K.attrNames) → Gen.Lists.ctxExtension K attrs base mono = .error .KeyError) ∧
    (∀ attrs bs, (∀ a ∈ attrs, a ∈ K.attrNames) → (∃ g ∈ bs, g ∉ K.objNames) →
        Gen.Lists.ctxExtension K attrs (some bs) mono = .error .KeyError) ∧
    (∀ objs, (∃ g ∈ objs, g ∉ K.objNames) → Gen.Lists.ctxIntention K objs mono = .error .KeyError) := by
  obtain ⟨h1, h2, h3⟩ := unknown_name_keyerror K mono
  exact ⟨fun attrs base h => Gen.Lists.ctxExtension_error_eq_model K attrs base mono _ (h1 attrs base h),
    fun attrs bs ha h => Gen.Lists.ctxExtension_error_eq_model K attrs (some bs) mono _ (h2 attrs bs ha h),
    fun objs h => Gen.Lists.ctxIntention_error_eq_model K objs mono _ (h3 objs h)⟩

/-- non-vacuity, and the generated definitions compute: -/
example : Gen.Lists.ctxExtension ⟨.lists, ⟨[[true, false, true], [true, true, false]], 3⟩, ["g0", "g1"], ["a", "b", "c"]⟩
    ["c", "a"] (some ["g1", "g0"]) false = .ok ["g0"] := by rfl

end Fca.C01

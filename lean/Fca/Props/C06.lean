/-
  Props/C06 — transposition, complement and relabelling act as dualities on contexts and lattices;
  the monotone lattice is exactly the set of monotone concepts with a consistent cover relation.

  Only property theorems live here; helper lemmas are in `Fca/Lemmas/Duality.lean`.
  Models: `Fca/Model/Duality.lean` (`ctxT`, `ctxNot`, `ctxGet`, `latT`, `fromContextMonotone`),
  specifications: `Fca/Spec/{Concepts,Duality}.lean`.
-/
import Fca.Model.Duality
import Fca.Spec.Duality
import Fca.Lemmas.Duality
import Fca.Model.DualityStore
import Fca.Spec.DualityBig
import Fca.Lemmas.DualityStore
import Fca.Lemmas.OracleFast
import Fca.Props.C01
namespace Fca.C06
open Fca Fca.Spec Fca.Dual

/-- a well-formed context: rectangular table, one name per row / column -/
structure CtxWF (K : Ctx) : Prop where
  wf : K.table.WF
  objs : K.objNames.length = K.nObjects
  attrs : K.attrNames.length = K.nAttributes

/-- `K.T` is constructed (`ctxT K = .ok KT`), its table is the transposed table, its names are
    swapped, and its derivation operators are the exchanged operators of `K` — for every backend,
    every in-range selection and every in-range base list (as *lists*, so also in the same order). -/
theorem transpose_swaps_derivations (K : Ctx) (h : CtxWF K) (hm : 1 ≤ K.nAttributes) :
    ∃ KT, ctxT K = .ok KT ∧ KT.table = transpose K.table ∧
      KT.objNames = K.attrNames ∧ KT.attrNames = K.objNames ∧ KT.backend = K.backend ∧
      (∀ A base, C01.InRange A K.nObjects → C01.BaseInRange base K.nAttributes →
        KT.extensionI A base = K.intentionI A base) ∧
      (∀ B base, C01.InRange B K.nAttributes → C01.BaseInRange base K.nObjects →
        KT.intentionI B base = K.extensionI B base) := by
  let KT : Ctx := ⟨K.backend, transpose K.table, K.attrNames, K.objNames⟩
  have hKn : KT.nObjects = K.nAttributes := by
    show (transpose K.table).height = K.table.width
    exact transpose_height K.table
  have hKm : KT.nAttributes = K.nObjects := rfl
  refine ⟨KT, ?_, rfl, rfl, rfl, rfl, ?_, ?_⟩
  · unfold ctxT
    rw [tableT_eq_transpose K.backend K.table hm]
    unfold mkCtx
    rw [transpose_height, transpose_width]
    have h1 := h.attrs; have h2 := h.objs
    simp only [Ctx.nAttributes, Ctx.nObjects] at h1 h2
    simp [h1, h2, KT]
  · intro A base hA hbase
    rw [C01.extension_i_exact KT (transpose_wf K.table) A base (by rw [hKm]; exact hA)
      (by rw [hKn]; exact hbase)]
    rw [C01.intention_i_exact K h.wf A base hA hbase, hKn]
    apply ext_transpose
    intro a ha
    cases base with
    | none => exact List.mem_range.mp ha
    | some bs => exact hbase bs rfl a ha
  · intro B base hB hbase
    rw [C01.intention_i_exact KT (transpose_wf K.table) B base (by rw [hKn]; exact hB)
      (by rw [hKm]; exact hbase)]
    rw [C01.extension_i_exact K h.wf B base hB hbase, hKm]
    apply int_transpose _ h.wf
    intro g hg
    cases base with
    | none => exact List.mem_range.mp hg
    | some bs => exact hbase bs rfl g hg

/-- base-list-free reading: the derivation operators of the transposed table are the exchanged
    operators (specification level, any well-formed table). -/
theorem transpose_swaps_derivations_spec (t : Table) (hwf : t.WF) (A B : List Nat) :
    extAll (transpose t) A = intAll t A ∧ intAll (transpose t) B = extAll t B :=
  ⟨extAll_transpose t A, intAll_transpose t hwf B⟩

/-- `K.T.T = K`: table, both name lists and the backend (every backend; `n, m ≥ 1`). -/
theorem transpose_involutive (K : Ctx) (h : CtxWF K) (hn : 1 ≤ K.nObjects) (hm : 1 ≤ K.nAttributes) :
    ∃ KT, ctxT K = .ok KT ∧ ctxT KT = .ok K := by
  obtain ⟨KT, h1, h2, h3, h4, h5, _, _⟩ := transpose_swaps_derivations K h hm
  refine ⟨KT, h1, ?_⟩
  unfold ctxT
  rw [h2, h3, h4, h5, tableT_eq_transpose K.backend _ (by rw [transpose_width]; exact hn),
    transpose_transpose K.table h.wf]
  unfold mkCtx
  simp [h.attrs, h.objs, Ctx.nAttributes, Ctx.nObjects] <;> first | exact h.objs | exact h.attrs

/-- the hypothesis on attribute names of `complement_involutive`: no name starts with `"not not "` -/
def NamesOK (names : List String) : Prop := ∀ s ∈ names, NameOK s

/-- `~~K = K`: table, names (the `'not '` prefix toggled twice) and backend — every backend,
    `n ≥ 1`, under the explicit hypothesis that no attribute name starts with `"not not "`. -/
theorem complement_involutive (K : Ctx) (h : CtxWF K) (hn : 1 ≤ K.nObjects)
    (hnames : NamesOK K.attrNames) :
    ∃ KN, ctxNot K = .ok KN ∧ KN.table = complement K.table ∧
      KN.attrNames = K.attrNames.map toggleNot ∧ ctxNot KN = .ok K := by
  refine ⟨⟨K.backend, complement K.table, K.objNames, K.attrNames.map toggleNot⟩, ?_, rfl, rfl, ?_⟩
  · unfold ctxNot
    rw [tableNot_eq_complement K.backend K.table h.wf hn]
    unfold mkCtx
    rw [complement_height, complement_width]
    simp [h.attrs, h.objs, Ctx.nAttributes, Ctx.nObjects] <;> first | exact h.objs | exact h.attrs
  · unfold ctxNot
    simp only
    rw [tableNot_eq_complement K.backend _ (complement_wf _ h.wf) (by rw [complement_height]; exact hn),
      complement_complement, map_toggleNot_toggleNot _ hnames]
    unfold mkCtx
    simp [h.attrs, h.objs, Ctx.nAttributes, Ctx.nObjects] <;> first | exact h.objs | exact h.attrs

/-- the name hypothesis is needed: the toggle is an involution on a name *iff* the name does not
    start with `"not not "` … -/
theorem complement_names_hypothesis_needed (s : String) :
    toggleNot (toggleNot s) = s ↔ NameOK s := toggleNot_toggleNot_iff s

/-- … and the excluded point really breaks `~~K = K` (`'not not a' ↦ 'not a' ↦ 'a'`). -/
example : toggleNot "not not a" = "not a" ∧ toggleNot "not a" = "a" ∧ ¬ NameOK "not not a" := by
  decide

private def exBad : Ctx :=
  { backend := .lists, table := ⟨[[true, false]], 2⟩, objNames := ["g0"], attrNames := ["not not a", "b"] }

private def attrNamesOf : Except PyErr Ctx → Option (List String)
  | .ok K => some K.attrNames
  | .error _ => none
private def isValueError : Except PyErr Bool → Bool
  | .error .ValueError => true
  | _ => false

/-- a concrete well-formed context outside `NamesOK` on which `~~K` has other attribute names than
    `K` (so `~~K == K` raises `ValueError` in the model as in the implementation). -/
example : attrNamesOf (ctxNot exBad >>= ctxNot) = some ["a", "b"] ∧
    isValueError ((ctxNot exBad >>= ctxNot) >>= fun K2 => ctxEq K2 exBad) = true := by decide

/-- the lattice of the transposed context is the transposed lattice, as sets of concepts:
    `(B, A)` is a concept of `tᵀ` iff `(A, B)` is a concept of `t`. -/
theorem lattice_of_transpose (t : Table) (hwf : t.WF) (A B : List Nat) :
    (B, A) ∈ allConcepts (transpose t) ↔ (A, B) ∈ allConcepts t := by
  rw [mem_allConcepts, mem_allConcepts, isConcept_transpose t hwf]

/-- … and the executable `ConceptLattice.T` (swap the fields, hand `parents_dict` over as
    `children_dict`) maps any lattice that lists exactly the concepts of `t` with the cover relation
    of extent inclusion to one that lists exactly the concepts of `tᵀ` with the cover relation of
    *its* extent inclusion — the order is reversed. -/
theorem lattice_of_transpose_exec (t : Table) (hwf : t.WF) (L : Lat) (h : IsLatticeOf t L) :
    IsLatticeOf (transpose t) (latT L) ∧ (latT L).exts = L.ints ∧ (latT L).ints = L.exts ∧
      ∀ i j, i < L.concepts.length → j < L.concepts.length →
        (j ∈ dget (latT L).children i ↔ i ∈ dget L.children j) := by
  refine ⟨isLatticeOf_latT t hwf L h, latT_exts L, ?_, ?_⟩
  · simp [latT, Lat.exts, Lat.ints, conceptT, Function.comp_def]
  · intro i j hi hj
    have h1 := mem_dget_children (isLatticeOf_latT t hwf L h).total (isLatticeOf_latT t hwf L h).covers
      (i := i) (by simpa [latT] using hi) j
    have h2 := mem_dget_children h.total h.covers hj i
    rw [h1, h2, latT_exts]
    have hdual : upperCovers L.exts i = lowerCovers L.ints i := by
      apply upperCovers_eq_lowerCovers_of_dual L.exts L.ints (by rw [exts_length, ints_length])
      · intro a b ha hb
        rw [exts_length] at ha hb
        exact ssubset_concept_dual t ((h.concepts _ _).mp (pair_mem L ha)) ((h.concepts _ _).mp (pair_mem L hb))
      · rw [exts_length]; exact hi
    rw [← hdual]
    exact (mem_lowerCovers_iff_mem_upperCovers L.exts (by rw [exts_length]; exact hi)
      (by rw [exts_length]; exact hj)).symm

/-- the hypothesis of `lattice_of_transpose_exec` is satisfiable for every table -/
theorem lattice_of_transpose_nonvacuous (t : Table) : IsLatticeOf t (specLat t) :=
  isLatticeOf_specLat t

/-- relabelling (set level): for permutations `π` of the rows and `σ` of the columns,
    `(A', B')` is a concept of the permuted table `K[π, σ]` iff its image `(π[A'], σ[B'])` is a
    concept of `t`. -/
theorem relabel_lattice (t : Table) (π σ : List Nat) (hπ : π.Perm (List.range t.height))
    (hσ : σ.Perm (List.range t.width)) (A' B' : List Nat) :
    SetConcept (permute t π σ) A' B' ↔
      (SetConcept t (A'.map (at_ π)) (B'.map (at_ σ)) ∧ (∀ r ∈ A', r < t.height) ∧ (∀ c ∈ B', c < t.width)) :=
  setConcept_permute t π σ hπ hσ A' B'

/-- relabelling (list level, the form the concept lists have): the canonical (ascending) image
    of a concept of the permuted table is a concept of `t` and conversely. -/
theorem relabel_lattice_lists (t : Table) (π σ : List Nat) (hπ : π.Perm (List.range t.height))
    (hσ : σ.Perm (List.range t.width)) (A' B' : List Nat)
    (hA' : ∀ r ∈ A', r < t.height) (hB' : ∀ c ∈ B', c < t.width) :
    isConcept (permute t π σ) (canon t.height A') (canon t.width B') =
      isConcept t (canon t.height (A'.map (at_ π))) (canon t.width (B'.map (at_ σ))) := by
  have hcA : ∀ g, g ∈ canon t.height A' ↔ g ∈ A' := fun g =>
    ⟨fun hg => (mem_canon.mp hg).2, fun hg => mem_canon.mpr ⟨hA' g hg, hg⟩⟩
  have hcB : ∀ a, a ∈ canon t.width B' ↔ a ∈ B' := fun a =>
    ⟨fun ha => (mem_canon.mp ha).2, fun ha => mem_canon.mpr ⟨hB' a ha, ha⟩⟩
  have hmA : ∀ g, g ∈ canon t.height (A'.map (at_ π)) ↔ g ∈ A'.map (at_ π) := fun g =>
    ⟨fun hg => (mem_canon.mp hg).2, fun hg => mem_canon.mpr ⟨by
      obtain ⟨r, hr, rfl⟩ := List.mem_map.mp hg
      exact perm_at_lt hπ (hA' r hr), hg⟩⟩
  have hmB : ∀ a, a ∈ canon t.width (B'.map (at_ σ)) ↔ a ∈ B'.map (at_ σ) := fun a =>
    ⟨fun ha => (mem_canon.mp ha).2, fun ha => mem_canon.mpr ⟨by
      obtain ⟨c, hc, rfl⟩ := List.mem_map.mp ha
      exact perm_at_lt hσ (hB' c hc), ha⟩⟩
  rw [Bool.eq_iff_iff, isConcept_iff_setConcept, isConcept_iff_setConcept,
    permute_height, permute_width, perm_length hπ, perm_length hσ]
  simp only [canon_canon, and_true]
  rw [setConcept_congr _ hcA hcB, setConcept_congr _ hmA hmB, setConcept_permute t π σ hπ hσ]
  exact ⟨fun h => h.1, fun h => ⟨h, hA', hB'⟩⟩

/-- relabelling, as a statement about the whole concept lists: the concepts of `t` are exactly the
    canonical images of the concepts of the permuted table (so every exact algorithm, run on
    `K[π, σ]`, returns the relabelled lattice). -/
theorem relabel_lattice_allConcepts (t : Table) (π σ : List Nat) (hπ : π.Perm (List.range t.height))
    (hσ : σ.Perm (List.range t.width)) (A B : List Nat) :
    (A, B) ∈ allConcepts t ↔
      ∃ A' B', (A', B') ∈ allConcepts (permute t π σ) ∧
        A = canon t.height (A'.map (at_ π)) ∧ B = canon t.width (B'.map (at_ σ)) := by
  constructor
  · intro h
    rw [mem_allConcepts] at h
    obtain ⟨_, cA, cB⟩ := (isConcept_iff_setConcept t).mp h
    refine ⟨preimage t.height π A, preimage t.width σ B, ?_, ?_, ?_⟩
    · rw [mem_allConcepts]
      have := relabel_lattice_lists t π σ hπ hσ _ _ (preimage_lt _ π A) (preimage_lt _ σ B)
      rw [canon_map_preimage hπ, canon_map_preimage hσ, cA, cB, h] at this
      unfold preimage at this
      rw [canon_filter, canon_filter] at this
      exact this
    · rw [canon_map_preimage hπ, cA]
    · rw [canon_map_preimage hσ, cB]
  · rintro ⟨A', B', h, rfl, rfl⟩
    rw [mem_allConcepts] at h ⊢
    obtain ⟨hs, cA, cB⟩ := (isConcept_iff_setConcept _).mp h
    rw [permute_height, perm_length hπ] at cA
    rw [permute_width, perm_length hσ] at cB
    obtain ⟨_, hA', hB'⟩ := (setConcept_permute t π σ hπ hσ A' B').mp hs
    rw [← relabel_lattice_lists t π σ hπ hσ A' B' hA' hB', cA, cB]
    exact h

/-- … and the relabelling preserves the order (extent inclusion), hence the cover relation. -/
theorem relabel_lattice_order (t : Table) (π : List Nat) (hπ : π.Perm (List.range t.height))
    (A₁ A₂ : List Nat) (h₁ : ∀ r ∈ A₁, r < t.height) (h₂ : ∀ r ∈ A₂, r < t.height) :
    Spec.subset (A₁.map (at_ π)) (A₂.map (at_ π)) = Spec.subset A₁ A₂ :=
  subset_map_perm hπ h₁ h₂

/-- the executable `K[π, σ]` (every backend) is the permuted table with the permuted names. -/
theorem getitem_is_permute (K : Ctx) (π σ : List Nat) (hn : 1 ≤ K.nObjects)
    (hπ : π.Perm (List.range K.nObjects)) (hσ : σ.Perm (List.range K.nAttributes)) :
    ctxGet K π σ = .ok ⟨K.backend, permute K.table π σ,
      π.map (fun i => K.objNames.getD i ""), σ.map (fun j => K.attrNames.getD j "")⟩ := by
  unfold ctxGet
  have h1 : (π.any fun i => decide (K.nObjects ≤ i)) = false := by
    rw [List.any_eq_false]
    intro i hi
    have := List.mem_range.mp (hπ.mem_iff.mp hi)
    simp; omega
  have h2 : (σ.any fun j => decide (K.nAttributes ≤ j)) = false := by
    rw [List.any_eq_false]
    intro j hj
    have := List.mem_range.mp (hσ.mem_iff.mp hj)
    simp; omega
  rw [h1, h2]
  have hl : 1 ≤ π.length := by rw [perm_length hπ]; exact hn
  rw [subtable_eq_permute K.backend K.table π σ hl]
  unfold mkCtx
  simp [permute_height, permute_width]

/-- the monotone lattice consists exactly of the monotone concepts: the result of the loop of
    `_from_context_monotone`, run on *any* lattice `L` that lists exactly the concepts of the
    complemented table, lists exactly the pairs `(A, B)` with `A = {g | ∃ b ∈ B, has g b}` and
    `B = {a | ∀ g ∉ A, ¬ has g a}`. -/
theorem monotone_lattice_exact (K : Ctx) (h : CtxWF K) (hash : Int) (L : Lat)
    (hL : ∀ C B, (C, B) ∈ L.pairs ↔ isConcept (complement K.table) C B = true) (A B : List Nat) :
    (A, B) ∈ (fromContextMonotone K hash L).pairs ↔
      (A = extMonoAll K.table B ∧ B = intMonoAll K.table A) := by
  rw [fcm_concepts K h.wf hash L hL, isMonoConcept_iff]
  exact ⟨fun ⟨a, b⟩ => ⟨a.symm, b.symm⟩, fun ⟨a, b⟩ => ⟨a.symm, b.symm⟩⟩

/-- the defining conditions of a monotone concept, read as sets -/
theorem monotone_concept_meaning (t : Table) (A B : List Nat) :
    (A = extMonoAll t B ∧ B = intMonoAll t A) →
      (∀ g, g ∈ A ↔ g < t.height ∧ ∃ b ∈ B, t.get g b = true) ∧
      (∀ a, a ∈ B ↔ a < t.width ∧ ∀ g, g < t.height → g ∉ A → t.get g a = false) := by
  rintro ⟨hA, hB⟩
  refine ⟨fun g => ?_, fun a => ?_⟩
  · rw [hA]; exact mem_extMonoAll t
  · conv => lhs; rw [hB]
    rw [mem_intMonoAll]
    constructor
    · rintro ⟨h1, h2⟩
      exact ⟨h1, fun g hg hgA => (h2 g hg).resolve_left hgA⟩
    · rintro ⟨h1, h2⟩
      refine ⟨h1, fun g hg => ?_⟩
      by_cases hgA : g ∈ A
      · exact Or.inl hgA
      · exact Or.inr (h2 g hg hgA)

/-- the brute-force oracle `monoConcepts` used by the driver lists exactly the monotone concepts -/
theorem monoConcepts_exact (t : Table) (A B : List Nat) :
    (A, B) ∈ monoConcepts t ↔ (A = extMonoAll t B ∧ B = intMonoAll t A) := by
  rw [mem_monoConcepts, isMonoConcept_iff]
  exact ⟨fun ⟨a, b⟩ => ⟨a.symm, b.symm⟩, fun ⟨a, b⟩ => ⟨a.symm, b.symm⟩⟩

/-- the children relation the monotone lattice inherits is the cover relation of the order monotone
    concepts compare by (`c ≤ d` iff `extent d ⊆ extent c`): `j ∈ children[i]` iff the new extent
    of `j` is a minimal strict superset of the new extent of `i`. -/
theorem monotone_cover_consistent (K : Ctx) (h : CtxWF K) (hash : Int) (L : Lat)
    (hL : IsLatticeOf (complement K.table) L) :
    IsMonoLatticeOf K.table (fromContextMonotone K hash L) ∧
    ∀ i, i < L.concepts.length → ∀ j,
      (j ∈ dget (fromContextMonotone K hash L).children i ↔ j ∈ dget L.children i) ∧
      (j ∈ dget (fromContextMonotone K hash L).children i ↔
        j ∈ monoLowerCovers (fromContextMonotone K hash L).exts i) := by
  have hR := isMonoLatticeOf_fcm K h.wf hash L hL
  refine ⟨hR, fun i hi j => ⟨?_, ?_⟩⟩
  · simp only [fromContextMonotone, Lat.childrenDict]
    rw [dget_map_range _ _ hi]
  · exact mem_dget_children hR.total hR.covers (by simpa [fromContextMonotone] using hi) j

/-- names of a monotone concept: the extent names are the object names of the new extent, and —
    under `NamesOK` — the intent names (toggled back from those of `~K`) are the attribute names of `K`. -/
theorem monotone_names (K : Ctx) (h : CtxWF K) (hnames : NamesOK K.attrNames) (hash : Int) (c : Concept)
    (hin : ∀ a ∈ c.intI, a < K.nAttributes)
    (hc : c.int = c.intI.map fun a => (K.attrNames.map toggleNot).getD a "") :
    (monoConcept K hash c).ext = (monoConcept K hash c).extI.map (fun g => K.objNames.getD g "") ∧
    (monoConcept K hash c).int = c.intI.map (fun a => K.attrNames.getD a "") := by
  refine ⟨rfl, ?_⟩
  simp only [monoConcept, hc, List.map_map]
  apply List.map_congr_left
  intro a ha
  have hlt : a < K.attrNames.length := by rw [h.attrs]; exact hin a ha
  simp only [Function.comp, List.getD_eq_getElem?_getD, List.getElem?_map,
    List.getElem?_eq_getElem hlt, Option.map_some, Option.getD_some]
  exact (toggleNot_toggleNot_iff _).mpr (hnames _ (List.getElem_mem hlt))

/-- the whole of `_from_context_monotone`, for *every exact algorithm* `algo` (one that returns the
    concept lattice of the context it is given) and every backend: the result is the monotone lattice. -/
theorem monotone_lattice_any_exact_algorithm (algo : Ctx → Lat) (hashFixed : Ctx → Int)
    (halgo : ∀ K', CtxWF K' → IsLatticeOf K'.table (algo K'))
    (K : Ctx) (h : CtxWF K) (hn : 1 ≤ K.nObjects) :
    ∃ R, fromContextMonotoneWith algo hashFixed K = .ok R ∧ IsMonoLatticeOf K.table R := by
  have hnot : ctxNot K = .ok ⟨K.backend, complement K.table, K.objNames, K.attrNames.map toggleNot⟩ := by
    unfold ctxNot
    rw [tableNot_eq_complement K.backend K.table h.wf hn]
    unfold mkCtx
    rw [complement_height, complement_width]
    simp [h.attrs, h.objs, Ctx.nAttributes, Ctx.nObjects] <;> first | exact h.objs | exact h.attrs
  refine ⟨_, by unfold fromContextMonotoneWith; rw [hnot]; rfl, ?_⟩
  apply isMonoLatticeOf_fcm K h.wf
  exact halgo ⟨K.backend, complement K.table, K.objNames, K.attrNames.map toggleNot⟩
    ⟨complement_wf _ h.wf, by simpa [Ctx.nObjects, complement_height] using h.objs,
     by simpa [Ctx.nAttributes, complement_width] using h.attrs⟩

/-- soundness of the two executable oracles the driver applies to the implementation's lattices:
    `sameSet` decides equality as sets, `coverOK` decides "children[i] = lower covers of i" for the
    (reversed, when `rev`) extent-inclusion order. -/
theorem oracles_sound (rev : Bool) (xs ys : List (List Nat × List Nat)) (exts children : List (List Nat)) :
    (sameSet xs ys = true ↔ ∀ p, p ∈ xs ↔ p ∈ ys) ∧
    (coverOK rev exts children = true ↔
      children.length = exts.length ∧ ∀ i, i < exts.length → ∀ j,
        (j ∈ children.getD i [] ↔
          j ∈ (if rev = true then monoLowerCovers exts i else lowerCovers exts i))) :=
  ⟨sameSet_iff xs ys, coverOK_iff rev exts children⟩

/-- soundness of the further oracles used on lattices after a history of queries / mutations and
    on large tables: `relOK strictDown` / `relOK strictUp` decide "rel[i] = all strictly smaller /
    larger elements", `relOK upperCovers` decides "rel[i] = upper covers of i", and the cheap
    enumeration `monoConceptsFast` lists exactly the monotone concepts. -/
theorem order_oracles_sound (f : List (List Nat) → Nat → List Nat) (exts rel : List (List Nat))
    (t : Table) (hwf : t.WF) (A B : List Nat) :
    (relOK f exts rel = true ↔
      rel.length = exts.length ∧ ∀ i, i < exts.length → ∀ j, (j ∈ rel.getD i [] ↔ j ∈ f exts i)) ∧
    (∀ i j, j ∈ strictDown exts i ↔ j < exts.length ∧ ssubset (exts.getD j []) (exts.getD i []) = true) ∧
    (∀ i j, j ∈ strictUp exts i ↔ j < exts.length ∧ ssubset (exts.getD i []) (exts.getD j []) = true) ∧
    ((A, B) ∈ monoConceptsFast t ↔ (A = extMonoAll t B ∧ B = intMonoAll t A)) := by
  refine ⟨relOK_iff f exts rel, mem_strictDown exts, mem_strictUp exts, ?_⟩
  rw [mem_monoConceptsFast t hwf, isMonoConcept_iff]
  exact ⟨fun ⟨a, b⟩ => ⟨a.symm, b.symm⟩, fun ⟨a, b⟩ => ⟨a.symm, b.symm⟩⟩


/-! ### class H6 (near-miss spellings): the name toggle looks at the exact prefix `'not '` and at nothing else -/

/-- `~K` is constructed on every well-formed context: complemented table, the object names of `K`,
    every attribute name toggled (no hypothesis on the names). -/
theorem complement_exec (K : Ctx) (h : CtxWF K) (hn : 1 ≤ K.nObjects) :
    ctxNot K = .ok ⟨K.backend, complement K.table, K.objNames, K.attrNames.map toggleNot⟩ := by
  unfold ctxNot
  rw [tableNot_eq_complement K.backend K.table h.wf hn]
  unfold mkCtx
  rw [complement_height, complement_width]
  simp [h.attrs, h.objs, Ctx.nAttributes, Ctx.nObjects] <;> first | exact h.objs | exact h.attrs

/-- the toggle, read without `drop`: a name that starts with exactly `n,o,t,blank` IS `'not '` + its toggle;
    the toggle of every other name is `'not '` + the name.  Nothing but the exact four-character prefix
    is looked at. -/
theorem toggle_exact_prefix (s : String) :
    (notPrefix <+: s.toList → notPrefix ++ (toggleNot s).toList = s.toList) ∧
    (¬ notPrefix <+: s.toList → (toggleNot s).toList = notPrefix ++ s.toList) := by
  rw [toggleNot_toList]
  exact ⟨toggleL_of_prefix, toggleL_of_not_prefix⟩

/-- near misses: a name whose first four characters are not exactly `'not '` — shorter than four characters
    (`'not'`, `''`), another capitalisation (`'Not x'`, `'NOT x'`), another separator (`'not_x'`, `'not-x'`,
    `'not\tx'`, `'notx'`) — gets the prefix, is a valid name (`NameOK`), and toggling twice returns it. -/
theorem toggle_near_miss (s : String) (h : s.toList.take 4 ≠ notPrefix) :
    (toggleNot s).toList = notPrefix ++ s.toList ∧ NameOK s ∧ toggleNot (toggleNot s) = s := by
  have hp : ¬ notPrefix <+: s.toList := by
    intro hp
    have := List.prefix_iff_eq_take.mp hp
    rw [notPrefix_length] at this
    exact h this.symm
  exact ⟨(toggle_exact_prefix s).2 hp, nameOK_of_not_prefix hp,
    (toggleNot_toggleNot_iff s).mpr (nameOK_of_not_prefix hp)⟩

/-- the attribute names of `~K`, position by position: the exact prefix is stripped where it is present and
    added everywhere else; the object names are those of `K`. -/
theorem complement_names_exact_prefix (K : Ctx) (h : CtxWF K) (hn : 1 ≤ K.nObjects) :
    ∃ KN, ctxNot K = .ok KN ∧ KN.objNames = K.objNames ∧ KN.attrNames.length = K.attrNames.length ∧
      ∀ j, j < K.attrNames.length →
        (notPrefix <+: (K.attrNames.getD j "").toList →
          notPrefix ++ (KN.attrNames.getD j "").toList = (K.attrNames.getD j "").toList) ∧
        (¬ notPrefix <+: (K.attrNames.getD j "").toList →
          (KN.attrNames.getD j "").toList = notPrefix ++ (K.attrNames.getD j "").toList) := by
  refine ⟨_, complement_exec K h hn, rfl, by simp, fun j hj => ?_⟩
  have hg : (K.attrNames.map toggleNot).getD j "" = toggleNot (K.attrNames.getD j "") := by
    simp [List.getD_eq_getElem?_getD, List.getElem?_map, List.getElem?_eq_getElem hj]
  show (_ → notPrefix ++ ((K.attrNames.map toggleNot).getD j "").toList = _) ∧
    (_ → ((K.attrNames.map toggleNot).getD j "").toList = _)
  rw [hg]
  exact toggle_exact_prefix _

/-- the near misses used by the harness are outside the prefix (and one exact form is inside) -/
example : (["Not x", "NOT x", "nOt x", "not_x", "not-x", "not\tx", "notx", "not", "no", "", "not.x", " not x",
    "not x", "Not not x", "notnot x"].all fun s => decide (s.toList.take 4 ≠ notPrefix)) = true ∧
    "not x".toList.take 4 = notPrefix ∧ "not ".toList.take 4 = notPrefix ∧ "not not".toList.take 4 = notPrefix := by
  decide

example : toggleNot "Not x" = "not Not x" ∧ toggleNot "not_x" = "not not_x" ∧ toggleNot "not" = "not not" ∧
    toggleNot "not not" = "not" ∧ toggleNot "not " = "" ∧ toggleNot "" = "not " ∧ toggleNot "not Not x" = "Not x" ∧
    NameOK "not not" ∧ NameOK "not  not x" ∧ ¬ NameOK "not not " := by
  decide

/-! ### class H5 (derived-object independence): context objects are values; a derived object and its source
    never influence each other after the derivation -/

/-- FRAME PROPERTY.  Whatever happens in a history over a store of context objects — deriving `K.T`, `~K`,
    `K[rows, cols]` from any object, creating new objects, calling the setters of any object — an object that
    existed at the start holds at the end exactly what its OWN setter calls (in their order) make of its
    initial content. -/
theorem store_independence (S S' : List Ctx) (ops : List HOp) (h : runStore S ops = .ok S')
    (j : Nat) (K : Ctx) (hK : S[j]? = some K) :
    ∃ K', applyMuts K (ownMuts j ops) = .ok K' ∧ S'[j]? = some K' :=
  runStore_frame ops S S' h j K hK

/-- … and an object derived in the middle of a history holds at the end what its own later setter calls make
    of the derivation of the source's content AT THE MOMENT of the derivation: later changes of the source
    (or of anything else) do not reach it. -/
theorem derived_object_independent (S S' : List Ctx) (pre post : List HOp) (src : Nat) (d : Derive)
    (h : runStore S (pre ++ HOp.derive src d :: post) = .ok S') :
    ∃ Smid K D D', runStore S pre = .ok Smid ∧ Smid[src]? = some K ∧ derive K d = .ok D ∧
      applyMuts D (ownMuts Smid.length post) = .ok D' ∧ S'[Smid.length]? = some D' := by
  rw [runStore_append] at h
  cases hpre : runStore S pre with
  | error e => rw [hpre] at h; cases h
  | ok Smid =>
    simp only [hpre, runStore, stepStore] at h
    cases hsrc : Smid[src]? with
    | none => simp only [hsrc] at h; cases h
    | some K =>
      simp only [hsrc] at h
      cases hd : derive K d with
      | error e => simp only [hd] at h; cases h
      | ok D =>
        simp only [hd] at h
        obtain ⟨D', h1, h2⟩ := runStore_frame post _ S' h Smid.length D (by simp)
        exact ⟨Smid, K, D, D', rfl, hsrc, hd, h1, h2⟩

/-- LAST WRITE WINS.  After any sequence of valid setter calls (names of the right length, a table of the same
    shape) a context holds, field by field, the value of the last assignment to that field (its original
    value if there was none), and is well-formed with the same shape. -/
theorem history_last_write_wins (K : Ctx) (h : CtxWF K) (hn : 1 ≤ K.nObjects) (muts : List Mut)
    (hv : ∀ x ∈ muts, MutValid K.nObjects K.nAttributes x) :
    applyMuts K muts = .ok (finalCtx K muts) ∧ CtxWF (finalCtx K muts) ∧
    (finalCtx K muts).nObjects = K.nObjects ∧ (finalCtx K muts).nAttributes = K.nAttributes := by
  obtain ⟨h1, h2⟩ := applyMuts_final hn muts K ⟨h.wf, rfl, rfl, h.objs, h.attrs⟩ hv
  exact ⟨h1, ⟨h2.wf, h2.objs.trans h2.h.symm, h2.attrs.trans h2.w.symm⟩, h2.h, h2.w⟩

/-- ASKING AGAIN.  `K.T`, `~K` and `K[π, σ]` are functions of the CURRENT content of `K` only: after any
    history of renamings / table replacements they are the transposed / complemented / permuted FINAL table
    with the FINAL names (exchanged / toggled / permuted) — whatever was derived, renamed or asked before. -/
theorem derive_after_history (K : Ctx) (h : CtxWF K) (hn : 1 ≤ K.nObjects) (hm : 1 ≤ K.nAttributes)
    (muts : List Mut) (hv : ∀ x ∈ muts, MutValid K.nObjects K.nAttributes x) :
    applyMuts K muts = .ok (finalCtx K muts) ∧
    ctxT (finalCtx K muts) = .ok ⟨K.backend, transpose (finalCtx K muts).table,
      (finalCtx K muts).attrNames, (finalCtx K muts).objNames⟩ ∧
    ctxNot (finalCtx K muts) = .ok ⟨K.backend, complement (finalCtx K muts).table,
      (finalCtx K muts).objNames, (finalCtx K muts).attrNames.map toggleNot⟩ ∧
    ∀ π σ, π.Perm (List.range K.nObjects) → σ.Perm (List.range K.nAttributes) →
      ctxGet (finalCtx K muts) π σ = .ok ⟨K.backend, permute (finalCtx K muts).table π σ,
        π.map (fun i => (finalCtx K muts).objNames.getD i ""),
        σ.map (fun j => (finalCtx K muts).attrNames.getD j "")⟩ := by
  obtain ⟨h1, hwf, hno, hna⟩ := history_last_write_wins K h hn muts hv
  refine ⟨h1, ?_, complement_exec _ hwf (by rw [hno]; exact hn), fun π σ hπ hσ => ?_⟩
  · obtain ⟨KT, e1, e2, e3, e4, e5, _, _⟩ := transpose_swaps_derivations _ hwf (by rw [hna]; exact hm)
    rw [e1]
    cases KT
    simp only at e2 e3 e4 e5
    subst e2 e3 e4 e5
    rfl
  · exact getitem_is_permute _ π σ (by rw [hno]; exact hn) (by rw [hno]; exact hπ) (by rw [hna]; exact hσ)

/-- the oracles used beyond the brute-force scope (64/65, 128/129 objects or attributes) are exact:
    `allConceptsFast` (enumeration over the smaller side) lists the formal concepts, `monoConceptsFast2`
    (through the complemented table) the monotone concepts. -/
theorem big_oracles_sound (t : Table) (hwf : t.WF) (A B : List Nat) :
    ((A, B) ∈ allConceptsFast t ↔ (A, B) ∈ allConcepts t) ∧
    ((A, B) ∈ monoConceptsFast2 t ↔ (A = extMonoAll t B ∧ B = intMonoAll t A)) := by
  refine ⟨by rw [mem_allConceptsFast t hwf, mem_allConcepts], ?_⟩
  unfold monoConceptsFast2
  rw [mem_monoConceptsFast2 t hwf allConceptsFast
    (fun C D => mem_allConceptsFast (complement t) (complement_wf t hwf)), isMonoConcept_iff]
  exact ⟨fun ⟨a, b⟩ => ⟨a.symm, b.symm⟩, fun ⟨a, b⟩ => ⟨a.symm, b.symm⟩⟩

/-! ### non-vacuity: the hypotheses are met by a concrete, non-trivial context -/

private def exK : Ctx :=
  { backend := .bitarray, table := ⟨[[true, false, true], [true, true, false]], 3⟩,
    objNames := ["g0", "g1"], attrNames := ["a", "not b", "c"] }

example : CtxWF exK ∧ 1 ≤ exK.nObjects ∧ 1 ≤ exK.nAttributes ∧ NamesOK exK.attrNames := by
  refine ⟨⟨by decide, by decide, by decide⟩, by decide, by decide, ?_⟩
  intro s hs
  simp only [exK, List.mem_cons, List.not_mem_nil, or_false] at hs
  rcases hs with rfl | rfl | rfl <;> decide

example : [1, 0].Perm (List.range exK.table.height) ∧ [2, 0, 1].Perm (List.range exK.table.width) := by
  decide

example : (fromContextMonotone exK 7 (specLat (complement exK.table))).pairs
    = [([], []), ([0], [2]), ([1], [1]), ([0, 1], [0, 1, 2])] := by decide

/-- a history over a store: `Kt = K.T`; rename `Kt`; rename `K`; replace `K`'s table; ask `K.T`, `~K` and `Kt.T`
    again — every object answers for its own current content. -/
private def exHist : List HOp :=
  [.derive 0 .T, .set 1 (.objs ["x", "Not y", "not_z"]), .set 0 (.attrs ["not a", "Not b", "not"]),
   .set 0 (.data [[false, false, true], [true, true, true]]), .derive 0 .T, .derive 0 .not, .derive 1 .T]

private def storeView : Except PyErr (List Ctx) → List (List Row × List String × List String)
  | .ok S => S.map fun K => (K.table.data, K.objNames, K.attrNames)
  | .error _ => []

example : storeView (runStore [exK] exHist) =
    [([[false, false, true], [true, true, true]], ["g0", "g1"], ["not a", "Not b", "not"]),
     ([[true, true], [false, true], [true, false]], ["x", "Not y", "not_z"], ["g0", "g1"]),
     ([[false, true], [false, true], [true, true]], ["not a", "Not b", "not"], ["g0", "g1"]),
     ([[true, true, false], [false, false, false]], ["g0", "g1"], ["a", "not Not b", "not not"]),
     ([[true, false, true], [true, true, false]], ["g0", "g1"], ["x", "Not y", "not_z"])] := by decide

example : ownMuts 0 exHist = [.attrs ["not a", "Not b", "not"], .data [[false, false, true], [true, true, true]]] ∧
    (∀ x ∈ ownMuts 0 exHist, MutValid exK.nObjects exK.nAttributes x) := by
  refine ⟨rfl, ?_⟩
  intro x hx
  simp only [exHist, ownMuts] at hx
  simp at hx
  rcases hx with rfl | rfl
  · show ["not a", "Not b", "not"].length = 3
    rfl
  · refine ⟨rfl, ?_⟩
    intro r hr
    simp at hr
    rcases hr with rfl | rfl <;> rfl

end Fca.C06

/-
  Props/C09 — poset answers never depend on the history of queries and mutations.

  Model: `Fca.Model.Poset` (state machine mirroring `fcapy/poset/poset.py`), specification: `Fca.Spec.Poset`
  (`Fresh`: the answers computed directly from `leq` on the current element list).
  Only property theorems live here; helper lemmas are in `Fca/Lemmas/Poset*.lean`.
-/
import Fca.Lemmas.PosetStep
namespace Fca.C09
open Fca Fca.Poset Fca.Poset.Fresh

section
variable {α : Type} [DecidableEq α] {leq : α → α → Bool} {ord : List Nat → List Nat} {U : α → Prop}

/-- The invariant: the elements are duplicate free and - on a caching instance - every cache key is a valid
    index and every cached entry equals the `Fresh` value for the current elements (for comparison entries:
    equals `leq` of the two elements).  (`InvB` is spelled out in `Lemmas/PosetQuery`.) -/
def Inv (leq : α → α → Bool) (s : St α) : Prop :=
  s.elems.Nodup ∧ InvB leq s.elems s.elems.length s.useCache s

/-- the hypotheses on the environment: `leq` is a partial order (reflexive, antisymmetric, transitive) on the
    universe `U` of all elements that are ever present, and `ord` (the order in which Python iterates a set)
    is any rearrangement -/
structure Env (leq : α → α → Bool) (ord : List Nat → List Nat) (U : α → Prop) : Prop where
  po : PO leq U
  ord_perm : ∀ l, (ord l).Perm l

/-- the elements an operation list brings in lie in `U` -/
def OpsIn (U : α → Prop) (ops : List (Op α)) : Prop := ∀ op ∈ ops, OpIn U op

/-- `add(e, fill_up_cache=True)` -/
def isAddFill : Op α → Bool
  | .add _ true => true
  | _ => false

/-- the restriction of the `_partial` theorems: on a caching instance (`c = true`) the history contains no
    `add(·, fill_up_cache=True)` of a new element.  (Uncached instances are not restricted.) -/
def NoCachedAddFill (c : Bool) (ops : List (Op α)) : Prop := c = true → ∀ op ∈ ops, isAddFill op = false

/-- an empty-cache poset (`POSet(elements, leq, use_cache)`) satisfies the invariant -/
theorem inv_init (E : List α) (c : Bool) (hnd : E.Nodup) : Inv leq (init E c) := by
  refine ⟨hnd, rfl, rfl, fun _ a b r h => ?_, fun _ d k v h => ?_, fun _ d k v h => ?_⟩
  · simp [init] at h
  · cases d <;> simp [init, St.closed] at h
  · cases d <;> simp [init, St.direct] at h

/-- soundness of the executable invariant check `Fresh.invCheck` -/
theorem inv_of_check (s : St α) (hnd : s.elems.Nodup) (hc : invCheck leq s = true) : Inv leq s := by
  unfold invCheck at hc
  simp only [Bool.and_eq_true, List.all_eq_true, decide_eq_true_eq, beq_iff_eq, List.mem_cons,
    List.not_mem_nil, or_false, forall_eq_or_imp, forall_eq] at hc
  obtain ⟨hl, ⟨hcd, hdd⟩, ⟨hca, hda⟩⟩ := hc
  have setEq_mem : ∀ a b : List Nat, setEq a b = true → ∀ x, x ∈ a ↔ x ∈ b := by
    intro a b h x
    simp only [setEq, Bool.and_eq_true, List.all_eq_true, decide_eq_true_eq] at h
    exact ⟨h.1 x, h.2 x⟩
  refine ⟨hnd, rfl, rfl, fun _ a b r h => ?_, fun _ d k v h => ?_, fun _ d k v h => ?_⟩
  · have := hl _ (alookup_mem h)
    exact ⟨this.1.1, this.1.2, fun _ _ => this.2⟩
  · cases d
    · have := hcd _ (alookup_mem h)
      exact ⟨this.1.1, this.1.2, fun _ x => by rw [setEq_mem _ _ this.2 x, mem_closed]⟩
    · have := hca _ (alookup_mem h)
      exact ⟨this.1.1, this.1.2, fun _ x => by rw [setEq_mem _ _ this.2 x, mem_closed]⟩
  · cases d
    · have := hdd _ (alookup_mem h)
      exact ⟨this.1.1, this.1.2, fun _ x => by rw [setEq_mem _ _ this.2 x, mem_direct]⟩
    · have := hda _ (alookup_mem h)
      exact ⟨this.1.1, this.1.2, fun _ x => by rw [setEq_mem _ _ this.2 x, mem_direct]⟩

/-- PARTIAL.  Full statement (not proved): `initCD fuel E cd = .ok s → cd is the cover relation of E → Inv leq s`,
    i.e. `_closed_relation_cache_by_direct_cache`, `_transpose_hierarchy` and the comparison-table fill compute
    exactly the descendants / parents / ancestors / comparisons.  What is proved: the poset built from a
    `children_dict` satisfies the invariant whenever the executable check `invCheck` (sound by `inv_of_check`)
    accepts the constructed state; the driver runs that check on every `children_dict` start it is given, so each
    explored start state is *certified*, and `history_independent_partial` then applies to it. -/
theorem inv_init_children_dict_partial (fuel : Nat) (E : List α) (cd : Cache) (s : St α)
    (hnd : E.Nodup) (hs : initCD fuel E cd = .ok s) (hc : invCheck leq s = true) : Inv leq s := by
  have he : s.elems = E := by
    unfold initCD at hs
    split at hs
    · cases hs
    · cases hs; rfl
  exact inv_of_check s (he ▸ hnd) hc

/-- PARTIAL (restriction: not `add(new element, fill_up_cache=True)` on a caching instance).  Full statement:
    the same without the hypothesis `hno`.  Every other operation - all queries, `add` without cache filling,
    `add` of a present element, `add` on an uncached instance, `del`, `remove`, `==`, `fill_up_*` - preserves
    the invariant. -/
theorem inv_step_partial (henv : Env leq ord U) (s : St α) (op : Op α) (hinv : Inv leq s)
    (hU : ∀ a ∈ s.elems, U a) (hok : opOk s.elems s.useCache op = true)
    (hno : s.useCache = true → isAddFill op = false) :
    Inv leq (step leq ord s op).1 ∧ (step leq ord s op).1.elems = next s.elems op ∧
      (step leq ord s op).1.useCache = s.useCache := by
  have h := step_spec henv.po henv.ord_perm hinv.1 hU hinv.2 op hok
    (fun e he hc _ => by rw [he] at hno; exact absurd (hno hc) (by simp [isAddFill]))
  have hel : (step leq ord s op).1.elems = next s.elems op := h.1.elems
  refine ⟨⟨by rw [hel]; exact next_nodup hinv.1 op, ?_⟩, hel, h.1.flag⟩
  rw [hel, h.1.flag]
  exact h.1

/-- PARTIAL (same restriction as `inv_step_partial`).  The output of every operation is the answer of a freshly
    built cache-free poset over the current elements. -/
theorem out_step_partial (henv : Env leq ord U) (s : St α) (op : Op α) (hinv : Inv leq s)
    (hU : ∀ a ∈ s.elems, U a) (hok : opOk s.elems s.useCache op = true)
    (hno : s.useCache = true → isAddFill op = false) :
    (step leq ord s op).2 = answer leq s.elems op :=
  (step_spec henv.po henv.ord_perm hinv.1 hU hinv.2 op hok
    (fun e he hc _ => by rw [he] at hno; exact absurd (hno hc) (by simp [isAddFill]))).2

/-- PARTIAL (restriction `NoCachedAddFill`: on a caching instance the history contains no
    `add(·, fill_up_cache=True)`).  Full statement: the same without `hno`:
    `∀ ops, (run leq ord s ops).2 = runFresh leq s.elems ops` for every state `s` satisfying `Inv`
    (in particular `init E c`), every partial order `leq` on the universe of elements ever present, every
    set-iteration order `ord`, and every history `ops` whose query indexes are in range (`opsOk`).
    Proved here for all interleavings of queries (leq, descendants, ancestors, children, parents, tops, bottoms,
    join, meet, index, ==), `fill_up_*`, `del`, `remove`, `add(·, fill_up_cache=False)`, duplicate `add`, and
    - on uncached instances - every `add`. -/
theorem history_independent_partial (henv : Env leq ord U) (ops : List (Op α)) (s : St α) (hinv : Inv leq s)
    (hU : ∀ a ∈ s.elems, U a) (hin : OpsIn U ops) (hok : opsOk s.elems s.useCache ops = true)
    (hno : NoCachedAddFill s.useCache ops) :
    (run leq ord s ops).2 = runFresh leq s.elems ops := by
  induction ops generalizing s with
  | nil => rfl
  | cons op ops ih =>
    simp only [opsOk, Bool.and_eq_true] at hok
    have hno1 : s.useCache = true → isAddFill op = false := fun hc => hno hc op List.mem_cons_self
    obtain ⟨hinv', hel, hfl⟩ := inv_step_partial henv s op hinv hU hok.1 hno1
    have hout := out_step_partial henv s op hinv hU hok.1 hno1
    simp only [run, runFresh]
    rw [hout]
    congr 1
    rw [← hel]
    apply ih _ hinv'
    · rw [hel]; exact next_U hU op (hin op List.mem_cons_self)
    · exact fun o ho => hin o (List.mem_cons_of_mem _ ho)
    · rw [hel, hfl]; exact hok.2
    · rw [hfl]; exact fun hc o ho => hno hc o (List.mem_cons_of_mem _ ho)

/-- PARTIAL (same restriction).  Caching is an optimisation only: a caching and a non-caching instance over the
    same elements give the same outputs on every history that is valid for both (`fill_up_*` asserts
    `use_cache`, so it is excluded by `opsOk … false`). -/
theorem cache_transparent_partial (henv : Env leq ord U) (E : List α) (hnd : E.Nodup) (hU : ∀ a ∈ E, U a)
    (ops : List (Op α)) (hin : OpsIn U ops) (hok : opsOk E false ops = true)
    (hno : ∀ op ∈ ops, isAddFill op = false) :
    (run leq ord (init E true) ops).2 = (run leq ord (init E false) ops).2 := by
  have hok' : ∀ (E : List α) (ops : List (Op α)), opsOk E false ops = true → opsOk E true ops = true := by
    intro E ops
    induction ops generalizing E with
    | nil => intro _; rfl
    | cons op ops ih =>
      simp only [opsOk, Bool.and_eq_true]
      rintro ⟨h1, h2⟩
      refine ⟨?_, ih _ h2⟩
      cases op <;> first | exact h1 | (simp [opOk] at h1)
  rw [history_independent_partial henv ops (init E true) (inv_init E true hnd) hU hin (hok' E ops hok)
      (fun _ => hno),
    history_independent_partial henv ops (init E false) (inv_init E false hnd) hU hin hok
      (fun h => by cases h)]
  rfl

end

/-! ### non-vacuity: the hypotheses are met by a concrete, non-trivial instance -/

private def subLeq (a b : Nat) : Bool := (a &&& b) == a

/-- bit masks below 8 under ⊆ form a partial order; a history with a query, a deletion and an insertion is
    valid, and the theorem's two sides are the same concrete outputs -/
example : opsOk [5, 0, 3, 7] true
      [Op.leq 1 3, .extremes .anc, .del 1, .add 1 false, .extremes .desc, .bound .anc [0, 1]] = true
    ∧ (run subLeq id (init [5, 0, 3, 7] true)
        [Op.leq 1 3, .extremes .anc, .del 1, .add 1 false, .extremes .desc, .bound .anc [0, 1]]).2
      = runFresh subLeq [5, 0, 3, 7]
        [Op.leq 1 3, .extremes .anc, .del 1, .add 1 false, .extremes .desc, .bound .anc [0, 1]] := by
  constructor <;> decide +kernel

example : PO subLeq (fun a => a < 8) := by
  refine ⟨?_, ?_, ?_⟩
  · intro a ha; revert a; decide
  · intro a b ha hb; revert b; revert a; decide
  · intro a b c ha hb hc
    have : ∀ a : Fin 8, ∀ b : Fin 8, ∀ c : Fin 8,
        subLeq a.1 b.1 = true → subLeq b.1 c.1 = true → subLeq a.1 c.1 = true := by decide
    exact this ⟨a, ha⟩ ⟨b, hb⟩ ⟨c, hc⟩

end Fca.C09

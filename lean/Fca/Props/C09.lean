/-
  Props/C09 — poset answers never depend on the history of queries and mutations.

  Model: `Fca.Model.Poset` (state machine mirroring `fcapy/poset/poset.py`), specification: `Fca.Spec.Poset`
  (`Fresh`: the answers computed directly from `leq` on the current element list).
  Only property theorems live here; helper lemmas are in `Fca/Lemmas/Poset*.lean`.
-/
import Fca.Lemmas.PosetStep2
import Fca.Lemmas.PosetInit3
import Fca.Lemmas.PosetInitTerm
import Fca.Gen.EquivPoset
namespace Fca.C09
open Fca Fca.Poset Fca.Poset.Fresh

section
variable {α : Type} [DecidableEq α] {leq : α → α → Bool} {ord : List Nat → List Nat} {U : α → Prop}

/-- The invariant: the elements are duplicate free and - on a caching instance - every cache key is a valid
    index and every cached entry equals the `Fresh` value for the current elements (for comparison entries:
    equals `leq` of the two elements).  (`InvB` is spelled out in `Lemmas/PosetQuery`.) -/
def Inv (leq : α → α → Bool) (s : St α) : Prop :=
  s.elems.Nodup ∧ InvB leq s.elems Ghost.none s.useCache s

/-- the hypotheses on the environment: `leq` is a partial order (reflexive, antisymmetric, transitive) on the
    universe `U` of all elements that are ever present, and `ord` (the order in which Python iterates a set)
    is any rearrangement -/
structure Env (leq : α → α → Bool) (ord : List Nat → List Nat) (U : α → Prop) : Prop where
  po : PO leq U
  ord_perm : ∀ l, (ord l).Perm l

/-- the elements an operation list brings in lie in `U` -/
def OpsIn (U : α → Prop) (ops : List (Op α)) : Prop := ∀ op ∈ ops, OpIn U op

/-- an empty-cache poset (`POSet(elements, leq, use_cache)`) satisfies the invariant -/
theorem inv_init (E : List α) (c : Bool) (hnd : E.Nodup) : Inv leq (init E c) := by
  refine ⟨hnd, InvB.ofOk rfl rfl (fun _ a b r h => ?_) (fun _ d k v h => ?_) (fun _ d k v h => ?_)⟩
  · simp [init] at h
  · cases d <;> simp [init, St.closed] at h
  · cases d <;> simp [init, St.direct] at h

/-- soundness of the executable invariant check `Fresh.invCheck` -/
theorem inv_of_check (s : St α) (hnd : s.elems.Nodup) (hc : invCheck leq s = true) : Inv leq s := by
  unfold invCheck at hc
  simp only [Bool.and_eq_true, List.all_eq_true, decide_eq_true_eq, beq_iff_eq, List.mem_cons,
    List.not_mem_nil, or_false, forall_eq_or_imp, forall_eq] at hc
  obtain ⟨hl, ⟨hcd, hdd⟩, ⟨hca, hda⟩⟩ := hc
  have setEq_mem : ∀ a b : List Nat, setEq a b = true → ∀ x, x ∈ a ↔ x ∈ b := by
    intro a b h x
    simp only [setEq, Bool.and_eq_true, List.all_eq_true, decide_eq_true_eq] at h
    exact ⟨h.1 x, h.2 x⟩
  refine ⟨hnd, InvB.ofOk rfl rfl (fun _ a b r h => ?_) (fun _ d k v h => ?_) (fun _ d k v h => ?_)⟩
  · have := hl _ (alookup_mem h)
    exact ⟨this.1.1, this.1.2, this.2⟩
  · cases d
    · have := hcd _ (alookup_mem h)
      exact ⟨this.1.1, this.1.2, fun x => by rw [setEq_mem _ _ this.2 x, mem_closed]⟩
    · have := hca _ (alookup_mem h)
      exact ⟨this.1.1, this.1.2, fun x => by rw [setEq_mem _ _ this.2 x, mem_closed]⟩
  · cases d
    · have := hdd _ (alookup_mem h)
      exact ⟨this.1.1, this.1.2, fun x => by rw [setEq_mem _ _ this.2 x, mem_direct]⟩
    · have := hda _ (alookup_mem h)
      exact ⟨this.1.1, this.1.2, fun x => by rw [setEq_mem _ _ this.2 x, mem_direct]⟩

/-- A poset built with a `children_dict` that is the true lower-cover relation of its elements
    (`CorrectCD`: every entry lists exactly the lower covers of its key, every element has an entry) satisfies
    the invariant: `_closed_relation_cache_by_direct_cache` computes exactly the strict down-sets (and an entry
    for every element), `_transpose_hierarchy` turns children into parents and descendants into ancestors, and
    the comparison table filled for fewer than 10 elements holds `leq`.
    (`hs`: the constructor returned; the model's work-list loop carries a fuel argument, the driver supplies
    200000.  That the loop cannot get stuck or fail on a correct `children_dict` is not part of this theorem;
    it is `inv_init_children_dict_total` below.) -/
theorem inv_init_children_dict (henv : Env leq ord U) (fuel : Nat) (E : List α) (cd : Cache) (s : St α)
    (hnd : E.Nodup) (hU : ∀ a ∈ E, U a) (hcd : CorrectCD leq E cd) (hs : initCD fuel E cd = .ok s) :
    Inv leq s := by
  have h := initCD_inv (idxPO_of henv.po hnd hU) hcd hs
  refine ⟨by rw [h.elems]; exact hnd, ?_⟩
  rw [h.elems, h.flag]
  exact h

/-- The constructor with `children_dict` RETURNS and establishes the invariant: for a partial order, duplicate-free
    elements, a `children_dict` that is the true lower-cover relation (`CorrectCD`) and whose keys are distinct
    (`hkeys`; a Python `dict` cannot repeat a key - the hypothesis only excludes association lists that are not
    dicts, and without it the statement is false: `[(0, []), (0, []), (0, [])]` over one element needs 4 units),
    the work-list loop of `_closed_relation_cache_by_direct_cache` terminates within
    `fuelBound E.length = 2 ^ E.length` units of fuel, never finds the work list without a ready element, and
    none of its dictionary lookups fails; so no error branch of the model is taken (`Lemmas/PosetInitTerm`).
    The bound is exponential because the loop really is: it re-visits an element once per upward cover-path
    from a minimal element (a performance observation on the real code, not a violation of this property). -/
theorem inv_init_children_dict_total (henv : Env leq ord U) (E : List α) (cd : Cache)
    (hnd : E.Nodup) (hU : ∀ a ∈ E, U a) (hcd : CorrectCD leq E cd) (hkeys : (cd.map Prod.fst).Nodup)
    (fuel : Nat) (hfuel : fuelBound E.length ≤ fuel) :
    ∃ s, initCD fuel E cd = .ok s ∧ Inv leq s := by
  obtain ⟨s, hs⟩ := initCD_returns (idxPO_of henv.po hnd hU) hcd hkeys hfuel
  exact ⟨s, hs, inv_init_children_dict henv fuel E cd s hnd hU hcd hs⟩

/-- the same with the fuel computed from the dictionary (`startWeight`: `Σ 2 ^ #ancestors` over the start
    list), for association lists with or without repeated keys -/
theorem inv_init_children_dict_total_exact (henv : Env leq ord U) (E : List α) (cd : Cache)
    (hnd : E.Nodup) (hU : ∀ a ∈ E, U a) (hcd : CorrectCD leq E cd)
    (fuel : Nat) (hfuel : startWeight leq E cd < fuel) :
    ∃ s, initCD fuel E cd = .ok s ∧ Inv leq s := by
  obtain ⟨s, hs⟩ := initCD_returns_exact (idxPO_of henv.po hnd hU) hcd hfuel
  exact ⟨s, hs, inv_init_children_dict henv fuel E cd s hnd hU hcd hs⟩

/-- Every operation - all queries, `add` with or without cache filling, `del`, `remove`, `==`, `fill_up_*` -
    preserves the invariant (and changes the element list as `Fresh.next` says, and never the cache flag).
    `hin`: an element being added belongs to the universe on which `leq` is a partial order. -/
theorem inv_step (henv : Env leq ord U) (s : St α) (op : Op α) (hinv : Inv leq s)
    (hU : ∀ a ∈ s.elems, U a) (hok : opOk s.elems s.useCache op = true) (hin : OpIn U op) :
    Inv leq (step leq ord s op).1 ∧ (step leq ord s op).1.elems = next s.elems op ∧
      (step leq ord s op).1.useCache = s.useCache := by
  have h := step_spec_full henv.po henv.ord_perm hinv.1 hU hinv.2 op hok hin
  have hel : (step leq ord s op).1.elems = next s.elems op := h.1.elems
  refine ⟨⟨by rw [hel]; exact next_nodup hinv.1 op, ?_⟩, hel, h.1.flag⟩
  rw [hel, h.1.flag]
  exact h.1

/-- The output of every operation is the answer of a freshly built cache-free poset over the current
    elements. -/
theorem out_step (henv : Env leq ord U) (s : St α) (op : Op α) (hinv : Inv leq s)
    (hU : ∀ a ∈ s.elems, U a) (hok : opOk s.elems s.useCache op = true) (hin : OpIn U op) :
    (step leq ord s op).2 = answer leq s.elems op :=
  (step_spec_full henv.po henv.ord_perm hinv.1 hU hinv.2 op hok hin).2

/-- Poset answers never depend on the history: for every state `s` satisfying `Inv` (in particular `init E c`,
    cache on or off), every partial order `leq` on the universe `U` of the elements that are ever present, every
    set-iteration order `ord`, and every history `ops` of queries (leq, descendants, ancestors, children,
    parents, tops, bottoms, join, meet, index, ==), `fill_up_*`, `add` (with or without cache filling), `del`,
    `remove` whose query indexes are in range (`opsOk`), the outputs are those of freshly built cache-free
    posets over the current elements. -/
theorem history_independent (henv : Env leq ord U) (ops : List (Op α)) (s : St α) (hinv : Inv leq s)
    (hU : ∀ a ∈ s.elems, U a) (hin : OpsIn U ops) (hok : opsOk s.elems s.useCache ops = true) :
    (run leq ord s ops).2 = runFresh leq s.elems ops := by
  induction ops generalizing s with
  | nil => rfl
  | cons op ops ih =>
    simp only [opsOk, Bool.and_eq_true] at hok
    have hin1 : OpIn U op := hin op List.mem_cons_self
    obtain ⟨hinv', hel, hfl⟩ := inv_step henv s op hinv hU hok.1 hin1
    have hout := out_step henv s op hinv hU hok.1 hin1
    simp only [run, runFresh]
    rw [hout]
    congr 1
    rw [← hel]
    apply ih _ hinv'
    · rw [hel]; exact next_U hU op hin1
    · exact fun o ho => hin o (List.mem_cons_of_mem _ ho)
    · rw [hel, hfl]; exact hok.2

/-- Caching is an optimisation only: a caching and a non-caching instance over the same elements give the same
    outputs on every history that is valid for both (`fill_up_*` asserts `use_cache`, so it is excluded by
    `opsOk … false`). -/
theorem cache_transparent (henv : Env leq ord U) (E : List α) (hnd : E.Nodup) (hU : ∀ a ∈ E, U a)
    (ops : List (Op α)) (hin : OpsIn U ops) (hok : opsOk E false ops = true) :
    (run leq ord (init E true) ops).2 = (run leq ord (init E false) ops).2 := by
  have hok' : ∀ (E : List α) (ops : List (Op α)), opsOk E false ops = true → opsOk E true ops = true := by
    intro E ops
    induction ops generalizing E with
    | nil => intro _; rfl
    | cons op ops ih =>
      simp only [opsOk, Bool.and_eq_true]
      rintro ⟨h1, h2⟩
      refine ⟨?_, ih _ h2⟩
      cases op <;> first | exact h1 | (simp [opOk] at h1)
  rw [history_independent henv ops (init E true) (inv_init E true hnd) hU hin (hok' E ops hok),
    history_independent henv ops (init E false) (inv_init E false hnd) hU hin hok]
  rfl

end

/-! ### non-vacuity: the hypotheses are met by a concrete, non-trivial instance -/

private def subLeq (a b : Nat) : Bool := (a &&& b) == a

/-- bit masks below 8 under ⊆ form a partial order; a history with a query, a deletion and an insertion is
    valid, and the theorem's two sides are the same concrete outputs -/
example : opsOk [5, 0, 3, 7] true
      [Op.leq 1 3, .extremes .anc, .del 1, .add 1 true, .extremes .desc, .bound .anc [0, 1]] = true
    ∧ (run subLeq id (init [5, 0, 3, 7] true)
        [Op.leq 1 3, .extremes .anc, .del 1, .add 1 true, .extremes .desc, .bound .anc [0, 1]]).2
      = runFresh subLeq [5, 0, 3, 7]
        [Op.leq 1 3, .extremes .anc, .del 1, .add 1 true, .extremes .desc, .bound .anc [0, 1]] := by
  constructor <;> decide +kernel

/-- the constructor returns on a concrete correct `children_dict` (chain ∅ ⊂ {0} ⊂ {0,1}) -/
example : (match initCD (α := Nat) 50 [0, 1, 3] [(0, []), (1, [0]), (2, [1])] with
    | .ok s => s.descC == [(2, [1, 0]), (1, [0]), (0, [])] && s.ancC.length == 3
    | .error _ => false) = true := by decide +kernel

example : PO subLeq (fun a => a < 8) := by
  refine ⟨?_, ?_, ?_⟩
  · intro a ha; revert a; decide
  · intro a b ha hb; revert b; revert a; decide
  · intro a b c ha hb hc
    have : ∀ a : Fin 8, ∀ b : Fin 8, ∀ c : Fin 8,
        subLeq a.1 b.1 = true → subLeq b.1 c.1 = true → subLeq a.1 c.1 = true := by decide
    exact this ⟨a, ha⟩ ⟨b, hb⟩ ⟨c, hc⟩

/-- the hypotheses of `inv_init_children_dict_total` are met by a non-chain instance (a diamond ∅, {a}, {b},
    {a,b} under a top {a,b,c}; the element {a,b} is popped twice, the top twice): the dictionary is the true
    cover relation with distinct keys, so the constructor returns within `fuelBound 5 = 32` units and the state
    satisfies the invariant; concretely it returns the full descendants table -/
example : CorrectCD subLeq [0, 1, 2, 3, 7] [(0, []), (1, [0]), (2, [0]), (3, [1, 2]), (4, [3])]
    ∧ (∃ s, initCD (fuelBound 5) [0, 1, 2, 3, 7] [(0, []), (1, [0]), (2, [0]), (3, [1, 2]), (4, [3])] = .ok s
        ∧ Inv subLeq s)
    ∧ (match initCD (α := Nat) (fuelBound 5) [0, 1, 2, 3, 7] [(0, []), (1, [0]), (2, [0]), (3, [1, 2]), (4, [3])] with
        | .ok s => s.descC == [(4, [3, 1, 2, 0]), (3, [1, 2, 0]), (2, [0]), (1, [0]), (0, [])]
        | .error _ => false) = true := by
  have hpo : PO subLeq (fun a => a < 8) := by
    refine ⟨?_, ?_, ?_⟩
    · intro a ha; revert a; decide
    · intro a b ha hb; revert b; revert a; decide
    · intro a b c ha hb hc
      have : ∀ a : Fin 8, ∀ b : Fin 8, ∀ c : Fin 8,
          subLeq a.1 b.1 = true → subLeq b.1 c.1 = true → subLeq a.1 c.1 = true := by decide
      exact this ⟨a, ha⟩ ⟨b, hb⟩ ⟨c, hc⟩
  have hcd : CorrectCD subLeq [0, 1, 2, 3, 7] [(0, []), (1, [0]), (2, [0]), (3, [1, 2]), (4, [3])] :=
    correctCD_of_check (by decide +kernel)
  refine ⟨hcd, ?_, by decide +kernel⟩
  exact inv_init_children_dict_total (ord := id) ⟨hpo, fun _ => List.Perm.refl _⟩ _ _ (by decide)
    (by decide) hcd (by decide) _ (Nat.le_refl _)

end Fca.C09

/-! ### the uncached queries, for the definitions GENERATED from the Python source

  `Fca.Gen.Lists.poset*` (`Fca/Gen/GeneratedPoset.lean`) is what `harness/py2lean.py` makes of the current source of
  `POSet.leq_elements / descendants / ancestors / children / parents / bottoms / tops` (and the `_nocache` bodies and
  `__len__` they call) for a poset built with `use_cache=False`; `Fca/Gen/EquivPoset.lean` proves that on a cache-less
  state the model answers exactly what they compute.  Hence the history-independent answer `Fresh.answer` is what the
  source-derived definitions return, on every state the invariant holds for. -/
namespace Fca.C09
open Fca Fca.Poset Fca.Poset.Fresh

section
variable {α : Type} [DecidableEq α] {leq : α → α → Bool} {ord : List Nat → List Nat} {U : α → Prop}

/-- `leq_elements(i, j)` -/
theorem gen_leq_answer (henv : Env leq ord U) (s : St α) (hinv : Inv leq s) (hU : ∀ a ∈ s.elems, U a)
    (hc : s.useCache = false) (i j : Nat) (hok : opOk s.elems s.useCache (.leq i j) = true) :
    outOf .bool (Gen.Lists.posetLeq ord ⟨s.elems, leq⟩ i j) = answer leq s.elems (.leq i j) := by
  have h := out_step henv s (.leq i j) hinv hU hok trivial
  simp only [step, Gen.Lists.posetLeq_eq_model leq ord s hc i j] at h
  exact h

/-- `descendants(i)` / `ancestors(i)` (as sets: compared after sorting) -/
theorem gen_closed_answer (henv : Env leq ord U) (s : St α) (hinv : Inv leq s) (hU : ∀ a ∈ s.elems, U a)
    (hc : s.useCache = false) (i : Nat) (hok : decide (i < s.elems.length) = true) :
    outOf (fun l => .set (sortSet l)) (Gen.Lists.posetDescendants ord ⟨s.elems, leq⟩ i)
        = answer leq s.elems (.closed .desc i) ∧
    outOf (fun l => .set (sortSet l)) (Gen.Lists.posetAncestors ord ⟨s.elems, leq⟩ i)
        = answer leq s.elems (.closed .anc i) := by
  have h1 := out_step henv s (.closed .desc i) hinv hU hok trivial
  have h2 := out_step henv s (.closed .anc i) hinv hU hok trivial
  simp only [step, Gen.Lists.posetDescendants_eq_model leq ord s hc i] at h1
  simp only [step, Gen.Lists.posetAncestors_eq_model leq ord s hc i] at h2
  exact ⟨h1, h2⟩

/-- `children(i)` / `parents(i)`, whatever order `ord` Python walks the sets in -/
theorem gen_direct_answer (henv : Env leq ord U) (s : St α) (hinv : Inv leq s) (hU : ∀ a ∈ s.elems, U a)
    (hc : s.useCache = false) (i : Nat) (hok : decide (i < s.elems.length) = true) :
    outOf (fun l => .set (sortSet l)) (Gen.Lists.posetChildren ord ⟨s.elems, leq⟩ i)
        = answer leq s.elems (.direct .desc i) ∧
    outOf (fun l => .set (sortSet l)) (Gen.Lists.posetParents ord ⟨s.elems, leq⟩ i)
        = answer leq s.elems (.direct .anc i) := by
  have h1 := out_step henv s (.direct .desc i) hinv hU hok trivial
  have h2 := out_step henv s (.direct .anc i) hinv hU hok trivial
  simp only [step, Gen.Lists.posetChildren_eq_model leq ord s hc i] at h1
  simp only [step, Gen.Lists.posetParents_eq_model leq ord s hc i] at h2
  exact ⟨h1, h2⟩

/-- `bottoms` / `tops` -/
theorem gen_extremes_answer (henv : Env leq ord U) (s : St α) (hinv : Inv leq s) (hU : ∀ a ∈ s.elems, U a)
    (hc : s.useCache = false) :
    outOf .list (Gen.Lists.posetBottoms ord ⟨s.elems, leq⟩) = answer leq s.elems (.extremes .desc) ∧
    outOf .list (Gen.Lists.posetTops ord ⟨s.elems, leq⟩) = answer leq s.elems (.extremes .anc) := by
  have h1 := out_step henv s (.extremes .desc) hinv hU rfl trivial
  have h2 := out_step henv s (.extremes .anc) hinv hU rfl trivial
  simp only [step, Gen.Lists.posetBottoms_eq_model leq ord s hc] at h1
  simp only [step, Gen.Lists.posetTops_eq_model leq ord s hc] at h2
  exact ⟨h1, h2⟩

/-- `join(S)` / `meet(S)` (`None` and `[]` both mean "all elements"), whatever order `ord` Python walks the sets in -/
theorem gen_bound_answer (henv : Env leq ord U) (s : St α) (hinv : Inv leq s) (hU : ∀ a ∈ s.elems, U a)
    (hc : s.useCache = false) (S : Option (List Nat))
    (hok : ((S.getD []).all fun i => decide (i < s.elems.length)) = true) :
    outOf .optNat (Gen.Lists.posetJoin ord ⟨s.elems, leq⟩ S) = answer leq s.elems (.bound .anc (S.getD [])) ∧
    outOf .optNat (Gen.Lists.posetMeet ord ⟨s.elems, leq⟩ S) = answer leq s.elems (.bound .desc (S.getD [])) := by
  have h1 := out_step henv s (.bound .anc (S.getD [])) hinv hU hok trivial
  have h2 := out_step henv s (.bound .desc (S.getD [])) hinv hU hok trivial
  simp only [step, Gen.Lists.posetJoin_eq_model leq ord s hc henv.ord_perm S] at h1
  simp only [step, Gen.Lists.posetMeet_eq_model leq ord s hc henv.ord_perm S] at h2
  exact ⟨h1, h2⟩

end

/-- the generated definitions compute (divisibility order on `[1, 2, 3, 6]`): -/
example : Gen.Lists.posetChildren id ⟨[1, 2, 3, 6], fun a b => decide (a ∣ b)⟩ 3 = .ok [1, 2]
    ∧ Gen.Lists.posetTops id ⟨[1, 2, 3, 6], fun a b => decide (a ∣ b)⟩ = .ok [3]
    ∧ Gen.Lists.posetMeet id ⟨[1, 2, 3, 6], fun a b => decide (a ∣ b)⟩ (some [1, 2]) = .ok (some 0)
    ∧ Gen.Lists.posetJoin id ⟨[1, 2, 3], fun a b => decide (a ∣ b)⟩ none = .ok none := by
  exact ⟨by rfl, by rfl, by rfl, by rfl⟩

end Fca.C09

/-
  Props/C13 — each shipped pattern structure is a Galois connection, and the two interval
  engines agree.

  Per structure (`interval_…` = IntervalPS, `intervalnp_…` = IntervalNumpyPS, `set_…` = SetPS,
  `attr_…` = AttributePS):
    * `…_ext_exact`             extension_i d base = the base objects (all objects when no base is
                                given) whose value `d` covers — a list of ORIGINAL indexes, in base order
    * `…_int_extensive`         for a non-empty in-range `A`: every object of `A` (that is in the base)
                                lies in extension_i (intention_i A)
    * `…_int_most_specific`     … and extension_i (intention_i A) ⊆ extension_i d for every `d` covering
                                all of `A`
    * `…_n_bin_attrs_eq_length` n_bin_attrs = number of pairs to_bin_attr_extents yields
  and `numpy_eq_python`.  `covers` is defined once per structure in `Fca.Spec.PS`.

  Scope convention (DESIGN §6): a column has at least one row.  The theorems about `IntervalNumpyPS`
  that do not already force this through a non-empty in-range `A` carry the hypothesis `data ≠ []`;
  `numpy_zero_rows_differ` shows that it cannot be dropped (a 0-row numpy column is a 1-dimensional
  array and every 2-d access raises `IndexError`, where the pure-python class answers `[]`).

  Only property theorems live here; helper lemmas are in `Fca/Lemmas/PS`.
-/
import Fca.Model.PS
import Fca.Spec.PS
import Fca.Lemmas.PS
import Fca.Gen.EquivPS
namespace Fca.C13
open Fca Fca.PS Fca.Spec.PS

/-- in-range index list -/
def InRange (xs : List Nat) (n : Nat) : Prop := ∀ x ∈ xs, x < n
/-- in-range optional base list -/
def BaseInRange (base : Option (List Nat)) (n : Nat) : Prop := ∀ bs, base = some bs → ∀ x ∈ bs, x < n

/-! ## IntervalPS -/

/-- `IntervalPS.extension_i(d, base)` for a description `d` (`None`, a number, a pair) = the objects
    of the base (default: all objects) whose interval `d` covers, by original index, in base order. -/
theorem interval_ext_exact (data : List Iv) (d : IvDesc) (s : Option Iv) (hd : ivDescSem d = some s)
    (base : Option (List Nat)) (hb : BaseInRange base data.length) :
    pyExtensionI data d base = .ok (ext ivCovers data s (base.getD (List.range data.length))) := by
  apply pyExtensionI_exact data d s _ base hb
  cases d with
  | none => simp only [ivDescSem, Option.some.injEq] at hd; subst hd; rfl
  | num x => simp only [ivDescSem, Option.some.injEq] at hd; subst hd; rfl
  | seq xs =>
    match xs, hd with
    | [a, b], hd => simp only [ivDescSem, Option.some.injEq] at hd; subst hd; rfl

/-- an argument that is not a description (a sequence not of length 2) is rejected with `ValueError`
    by both engines -/
theorem interval_ext_rejects (data : List Iv) (d : IvDesc) (hd : ivDescSem d = none)
    (base : Option (List Nat)) :
    pyExtensionI data d base = .error .ValueError ∧ npExtensionI data d base = .error .ValueError := by
  have : ivUnpack d = .error .ValueError := by
    cases d with
    | none => simp [ivDescSem] at hd
    | num x => simp [ivDescSem] at hd
    | seq xs =>
      match xs, hd with
      | [], _ => rfl
      | [_], _ => rfl
      | _ :: _ :: _ :: _, _ => rfl
  simp only [pyExtensionI, npExtensionI, this, and_self]

/-- `A ⊆ extension_i(intention_i(A))` (restricted to the base when one is given). -/
theorem interval_int_extensive (data : List Iv) (A : List Nat) (hne : A ≠ [])
    (hA : InRange A data.length) :
    ∃ dA, pyIntentionI data A = .ok (some dA) ∧
      ∀ base, BaseInRange base data.length →
        ∃ E, pyExtensionI data (IvDesc.ofOpt (some dA)) base = .ok E ∧
          ∀ g ∈ A, g ∈ base.getD (List.range data.length) → g ∈ E := by
  obtain ⟨h, hint, hh⟩ := pyIntentionI_hull data A hne hA
  refine ⟨h, hint, fun base hb => ⟨_, pyExtensionI_exact data _ (some h) (ivUnpack_ofOpt _) base hb, ?_⟩⟩
  exact hull_extensive data A h hh hA _

/-- `intention_i(A)` is the most specific description of `A`: its extension lies in the extension of
    every description that covers all of `A`. -/
theorem interval_int_most_specific (data : List Iv) (A : List Nat) (hne : A ≠ [])
    (hA : InRange A data.length) (d : IvDesc) (s : Option Iv) (hd : ivDescSem d = some s)
    (hcov : coversAll ivCovers data s A = true)
    (base : Option (List Nat)) (hb : BaseInRange base data.length) :
    ∃ dA E E', pyIntentionI data A = .ok (some dA) ∧
      pyExtensionI data (IvDesc.ofOpt (some dA)) base = .ok E ∧
      pyExtensionI data d base = .ok E' ∧ ∀ g ∈ E, g ∈ E' := by
  obtain ⟨h, hint, hh⟩ := pyIntentionI_hull data A hne hA
  refine ⟨h, _, _, hint, pyExtensionI_exact data _ (some h) (ivUnpack_ofOpt _) base hb,
    interval_ext_exact data d s hd base hb, ?_⟩
  exact hull_most_specific data A h hh hA s hcov _ (baseInRange_getD hb)

/-- `n_bin_attrs` = the number of binary attributes `to_bin_attr_extents` yields. -/
theorem interval_n_bin_attrs_eq_length (data : List Iv) (hne : data ≠ []) :
    ∃ bins, pyBinExtents data = .ok bins ∧ pyNBinAttrs data = .ok bins.length :=
  pyBinExtents_length data hne

/-- each yielded binary attribute is the extension (flag vector over all objects) of the description
    printed in its name -/
theorem interval_bin_attr_is_extension (data : List Iv) (bins : List IvBinAttr)
    (h : pyBinExtents data = .ok bins) : ∀ b ∈ bins, b.2 = data.map (ivCovers b.1) :=
  pyBinExtents_sem data bins h

/-! ## IntervalNumpyPS = IntervalPS -/

/-- The numpy interval structure returns the same results as the pure-python one:
    `intention_i` on every input (results and the `IndexError` for an out-of-range object), and on
    every column with at least one row `extension_i` (any description argument, any base list — also
    unsorted, non-prefix and out-of-range ones), `to_bin_attr_extents` and `n_bin_attrs`. -/
theorem numpy_eq_python (data : List Iv) :
    (∀ objs, npIntentionI data objs = pyIntentionI data objs) ∧
    (data ≠ [] →
      (∀ d base, npExtensionI data d base = pyExtensionI data d base) ∧
      npBinExtents data = pyBinExtents data ∧
      npNBinAttrs data = pyNBinAttrs data) :=
  ⟨npIntentionI_eq_py data, fun hne =>
    ⟨npExtensionI_eq_py data hne, npBinExtents_eq_py data hne, npNBinAttrs_eq_py data hne⟩⟩

/-- the hypothesis `data ≠ []` of `numpy_eq_python` cannot be dropped -/
theorem numpy_zero_rows_differ :
    npExtensionI [] (.seq [0, 1]) none = .error .IndexError ∧ pyExtensionI [] (.seq [0, 1]) none = .ok [] ∧
    npBinExtents [] = .error .IndexError ∧ pyBinExtents [] = .error .ValueError := by
  decide

theorem intervalnp_ext_exact (data : List Iv) (hne : data ≠ []) (d : IvDesc) (s : Option Iv)
    (hd : ivDescSem d = some s) (base : Option (List Nat)) (hb : BaseInRange base data.length) :
    npExtensionI data d base = .ok (ext ivCovers data s (base.getD (List.range data.length))) := by
  rw [npExtensionI_eq_py data hne]; exact interval_ext_exact data d s hd base hb

theorem intervalnp_int_extensive (data : List Iv) (A : List Nat) (hne : A ≠ [])
    (hA : InRange A data.length) :
    ∃ dA, npIntentionI data A = .ok (some dA) ∧
      ∀ base, BaseInRange base data.length →
        ∃ E, npExtensionI data (IvDesc.ofOpt (some dA)) base = .ok E ∧
          ∀ g ∈ A, g ∈ base.getD (List.range data.length) → g ∈ E := by
  have hd := data_ne_nil_of_inRange hne hA
  simp only [npIntentionI_eq_py, npExtensionI_eq_py data hd]
  exact interval_int_extensive data A hne hA

theorem intervalnp_int_most_specific (data : List Iv) (A : List Nat) (hne : A ≠ [])
    (hA : InRange A data.length) (d : IvDesc) (s : Option Iv) (hd : ivDescSem d = some s)
    (hcov : coversAll ivCovers data s A = true)
    (base : Option (List Nat)) (hb : BaseInRange base data.length) :
    ∃ dA E E', npIntentionI data A = .ok (some dA) ∧
      npExtensionI data (IvDesc.ofOpt (some dA)) base = .ok E ∧
      npExtensionI data d base = .ok E' ∧ ∀ g ∈ E, g ∈ E' := by
  have hdn := data_ne_nil_of_inRange hne hA
  simp only [npIntentionI_eq_py, npExtensionI_eq_py data hdn]
  exact interval_int_most_specific data A hne hA d s hd hcov base hb

theorem intervalnp_n_bin_attrs_eq_length (data : List Iv) (hne : data ≠ []) :
    ∃ bins, npBinExtents data = .ok bins ∧ npNBinAttrs data = .ok bins.length := by
  rw [npBinExtents_eq_py data hne, npNBinAttrs_eq_py data hne]
  exact pyBinExtents_length data hne

/-! ## SetPS -/

/-- `SetPS.extension_i(d, base)`: `None ↦ []`; a set `d` selects the base objects whose value set is
    contained in `d`, by original index, in base order. -/
theorem set_ext_exact (data : List VSet) (d : Option VSet) (base : Option (List Nat))
    (hb : BaseInRange base data.length) :
    setExtensionI data d base = .ok (ext setCovers data d (base.getD (List.range data.length))) :=
  setExtensionI_exact data d base hb

theorem set_int_extensive (data : List VSet) (A : List Nat) (hA : InRange A data.length) :
    ∃ dA, setIntentionI data A = .ok dA ∧
      ∀ base, BaseInRange base data.length →
        ∃ E, setExtensionI data (some dA) base = .ok E ∧
          ∀ g ∈ A, g ∈ base.getD (List.range data.length) → g ∈ E := by
  obtain ⟨r, hr1, hr2⟩ := setIntLoop_mem data A hA []
  refine ⟨r, hr1, fun base hb => ⟨_, setExtensionI_exact data (some r) base hb, ?_⟩⟩
  intro g hgA hgb
  rw [mem_ext, setCovers_getElem? (hA g hgA)]
  refine ⟨hgb, fun x hx => (hr2 x).mpr (Or.inr ⟨g, hgA, _, List.getElem?_eq_getElem (hA g hgA), hx⟩)⟩

theorem set_int_most_specific (data : List VSet) (A : List Nat) (hne : A ≠ [])
    (hA : InRange A data.length) (d : Option VSet)
    (hcov : coversAll setCovers data d A = true)
    (base : Option (List Nat)) (hb : BaseInRange base data.length) :
    ∃ dA E E', setIntentionI data A = .ok dA ∧
      setExtensionI data (some dA) base = .ok E ∧
      setExtensionI data d base = .ok E' ∧ ∀ g ∈ E, g ∈ E' := by
  obtain ⟨r, hr1, hr2⟩ := setIntLoop_mem data A hA []
  refine ⟨r, _, _, hr1, setExtensionI_exact data (some r) base hb, setExtensionI_exact data d base hb, ?_⟩
  simp only [coversAll, List.all_eq_true] at hcov
  cases d with
  | none =>
    cases A with
    | nil => exact absurd rfl hne
    | cons g0 _ =>
      have := hcov g0 List.mem_cons_self
      rw [List.getElem?_eq_getElem (hA g0 List.mem_cons_self)] at this
      simp [setCovers] at this
  | some s =>
    have hrs : ∀ x ∈ r, x ∈ s := by
      intro x hx
      rcases (hr2 x).mp hx with h | ⟨g, hgA, row, hrow, hxr⟩
      · cases h
      · have := (setCovers_getElem? (hA g hgA) s).mp (hcov g hgA)
        rw [List.getElem?_eq_getElem (hA g hgA)] at hrow
        cases hrow
        exact this x hxr
    intro g hg
    rw [mem_ext] at hg ⊢
    have hgb := baseInRange_getD hb g hg.1
    rw [setCovers_getElem? hgb] at hg ⊢
    exact ⟨hg.1, fun x hx => hrs x (hg.2 x hx)⟩

/-- `SetPS.n_bin_attrs` (`2 ** n_uniq`) = the number of binary attributes `to_bin_attr_extents` yields. -/
theorem set_n_bin_attrs_eq_length (data : List VSet) :
    setNBinAttrs data = (setBinExtents data).length :=
  (setBinExtents_length data).symm

theorem set_bin_attr_is_extension (data : List VSet) :
    ∀ b ∈ setBinExtents data, b.2 = data.map (setCovers (some b.1)) :=
  setBinExtents_sem data

/-! ## AttributePS -/

/-- `AttributePS.extension_i(d, base)`: a `False` description means "anything" (the whole base),
    `True` selects the base objects having the attribute; original indexes, base order. -/
theorem attr_ext_exact (data : List Bool) (d : Bool) (base : Option (List Nat))
    (hb : BaseInRange base data.length) :
    attrExtensionI data d base = .ok (ext attrCovers data d (base.getD (List.range data.length))) :=
  attrExtensionI_exact data d base hb

theorem attr_intention_nonempty (data : List Bool) (A : List Nat) (hne : A ≠ [])
    (hA : InRange A data.length) :
    attrIntentionI data A = .ok (A.all fun g => (data[g]?).any id) := by
  unfold attrIntentionI
  cases A with
  | nil => exact absurd rfl hne
  | cons g gs => exact attrAllLoop_eq data _ hA

theorem attr_int_extensive (data : List Bool) (A : List Nat) (hne : A ≠ [])
    (hA : InRange A data.length) :
    ∃ dA, attrIntentionI data A = .ok dA ∧
      ∀ base, BaseInRange base data.length →
        ∃ E, attrExtensionI data dA base = .ok E ∧
          ∀ g ∈ A, g ∈ base.getD (List.range data.length) → g ∈ E := by
  refine ⟨_, attr_intention_nonempty data A hne hA, fun base hb =>
    ⟨_, attrExtensionI_exact data _ base hb, ?_⟩⟩
  intro g hgA hgb
  rw [mem_ext, attrCovers_getElem? (hA g hgA)]
  refine ⟨hgb, fun hall => ?_⟩
  have := List.all_eq_true.mp hall g hgA
  rw [List.getElem?_eq_getElem (hA g hgA)] at this
  simpa using this

theorem attr_int_most_specific (data : List Bool) (A : List Nat) (hne : A ≠ [])
    (hA : InRange A data.length) (d : Bool)
    (hcov : coversAll attrCovers data d A = true)
    (base : Option (List Nat)) (hb : BaseInRange base data.length) :
    ∃ dA E E', attrIntentionI data A = .ok dA ∧
      attrExtensionI data dA base = .ok E ∧
      attrExtensionI data d base = .ok E' ∧ ∀ g ∈ E, g ∈ E' := by
  refine ⟨_, _, _, attr_intention_nonempty data A hne hA, attrExtensionI_exact data _ base hb,
    attrExtensionI_exact data d base hb, ?_⟩
  simp only [coversAll, List.all_eq_true] at hcov
  intro g hg
  rw [mem_ext] at hg ⊢
  have hgb := baseInRange_getD hb g hg.1
  rw [attrCovers_getElem? hgb] at hg ⊢
  refine ⟨hg.1, fun hd => hg.2 ?_⟩
  apply List.all_eq_true.mpr
  intro a haA
  have := (attrCovers_getElem? (hA a haA) d).mp (hcov a haA) hd
  rw [List.getElem?_eq_getElem (hA a haA)]
  simpa using this

/-- `AttributePS.n_bin_attrs` (the constant 1) = the number of binary attributes yielded, and the one
    yielded attribute is the extension of the description `True`. -/
theorem attr_n_bin_attrs_eq_length (data : List Bool) :
    attrNBinAttrs data = (attrBinExtents data).length ∧
    ∀ b ∈ attrBinExtents data, b.2 = data.map (attrCovers b.1) := by
  refine ⟨rfl, ?_⟩
  intro b hb
  simp only [attrBinExtents, List.mem_singleton] at hb
  subst hb
  have : attrCovers true = id := by funext v; simp [attrCovers]
  simp [this]

/-! ### non-vacuity: the hypotheses are met by concrete, non-trivial inputs -/

private def exIv : List Iv := [(1, 1), (1, 3), (2, 2), (0, 2)]

example : exIv ≠ [] ∧ InRange [2, 0] exIv.length ∧ BaseInRange (some [3, 1, 0]) exIv.length ∧
    ivDescSem (.seq [1, 2]) = some (some (1, 2)) ∧ coversAll ivCovers exIv (some (1, 2)) [2, 0] = true ∧
    pyIntentionI exIv [2, 0] = .ok (some (1, 2)) ∧
    pyExtensionI exIv (.seq [1, 2]) (some [3, 1, 0]) = .ok [0] ∧
    npExtensionI exIv (.seq [0, 2]) (some [3, 1, 0]) = .ok [3, 0] ∧
    pyNBinAttrs exIv = .ok 6 := by
  refine ⟨by decide, ?_, ?_, rfl, by decide, by decide, by decide, by decide, by decide⟩
  · intro x hx; simp at hx; rcases hx with rfl | rfl <;> decide
  · intro bs h; cases h; intro x hx; simp at hx; rcases hx with rfl | rfl | rfl <;> decide

example : InRange [1, 0] 3 ∧ coversAll setCovers [[0], [1, 2], []] (some [2, 1, 0]) [1, 0] = true ∧
    setIntentionI [[0], [1, 2], []] [1, 0] = .ok [1, 2, 0] ∧
    setExtensionI [[0], [1, 2], []] (some [1, 2]) (some [2, 1]) = .ok [2, 1] ∧
    setNBinAttrs [[0], [1, 2], []] = 8 := by
  refine ⟨?_, by decide, by decide, by decide, by decide⟩
  intro x hx; simp at hx; rcases hx with rfl | rfl <;> decide

example : InRange [2, 0] 3 ∧ coversAll attrCovers [true, false, true] true [2, 0] = true ∧
    attrIntentionI [true, false, true] [2, 0] = .ok true ∧
    attrExtensionI [true, false, true] true (some [2, 1, 0]) = .ok [2, 0] := by
  refine ⟨?_, by decide, by decide, by decide⟩
  intro x hx; simp at hx; rcases hx with rfl | rfl <;> decide

end Fca.C13

/-! ### `intention_i` / `extension_i` of `IntervalPS`, `SetPS`, `AttributePS`, for the definitions GENERATED from the
  Python source

  `Fca.Gen.Lists.iv* / set* / attr*` (`Fca/Gen/GeneratedPS.lean`) is what `harness/py2lean.py` makes of the current
  source of the three pure-Python pattern structures; `Fca/Gen/EquivPS.lean` proves them EQUAL to the hand-written
  models (no hypothesis: `IndexError` included), so the theorems above hold verbatim for what the code says now.
  (`IntervalPS.extension_i` is translated for a description that is `None` or a pair.) -/
namespace Fca.C13
open Fca Fca.PS Fca.Spec.PS

theorem ivDescSem_ofOpt (d : Option Iv) : ivDescSem (IvDesc.ofOpt d) = some d := by
  cases d with
  | none => rfl
  | some v => cases v; rfl

theorem gen_interval_ext_exact (P : Gen.IvPS) (d : Option Iv) (base : Option (List Nat))
    (hb : BaseInRange base P.data.length) :
    Gen.Lists.ivExtensionI P d base = .ok (ext ivCovers P.data d (base.getD (List.range P.data.length))) := by
  rw [Gen.Lists.ivExtensionI_eq_model]
  exact interval_ext_exact P.data (IvDesc.ofOpt d) d (ivDescSem_ofOpt d) base hb

theorem gen_interval_int_extensive (P : Gen.IvPS) (A : List Nat) (hne : A ≠ []) (hA : InRange A P.data.length) :
    ∃ dA, Gen.Lists.ivIntentionI P A = .ok (some dA) ∧
      ∀ base, BaseInRange base P.data.length →
        ∃ E, Gen.Lists.ivExtensionI P (some dA) base = .ok E ∧
          ∀ g ∈ A, g ∈ base.getD (List.range P.data.length) → g ∈ E := by
  simp only [Gen.Lists.ivIntentionI_eq_model, Gen.Lists.ivExtensionI_eq_model]
  exact interval_int_extensive P.data A hne hA

theorem gen_interval_int_most_specific (P : Gen.IvPS) (A : List Nat) (hne : A ≠ []) (hA : InRange A P.data.length)
    (d : Option Iv) (hcov : coversAll ivCovers P.data d A = true)
    (base : Option (List Nat)) (hb : BaseInRange base P.data.length) :
    ∃ dA E E', Gen.Lists.ivIntentionI P A = .ok (some dA) ∧
      Gen.Lists.ivExtensionI P (some dA) base = .ok E ∧
      Gen.Lists.ivExtensionI P d base = .ok E' ∧ ∀ g ∈ E, g ∈ E' := by
  simp only [Gen.Lists.ivIntentionI_eq_model, Gen.Lists.ivExtensionI_eq_model]
  exact interval_int_most_specific P.data A hne hA (IvDesc.ofOpt d) d (ivDescSem_ofOpt d) hcov base hb

theorem gen_set_ext_exact (P : Gen.SetPS) (d : Option VSet) (base : Option (List Nat))
    (hb : BaseInRange base P.data.length) :
    Gen.Lists.setExtensionI P d base = .ok (ext setCovers P.data d (base.getD (List.range P.data.length))) := by
  rw [Gen.Lists.setExtensionI_eq_model]; exact set_ext_exact P.data d base hb

theorem gen_set_int_extensive (P : Gen.SetPS) (A : List Nat) (hA : InRange A P.data.length) :
    ∃ dA, Gen.Lists.setIntentionI P A = .ok dA ∧
      ∀ base, BaseInRange base P.data.length →
        ∃ E, Gen.Lists.setExtensionI P (some dA) base = .ok E ∧
          ∀ g ∈ A, g ∈ base.getD (List.range P.data.length) → g ∈ E := by
  simp only [Gen.Lists.setIntentionI_eq_model, Gen.Lists.setExtensionI_eq_model]
  exact set_int_extensive P.data A hA

theorem gen_set_int_most_specific (P : Gen.SetPS) (A : List Nat) (hne : A ≠ []) (hA : InRange A P.data.length)
    (d : Option VSet) (hcov : coversAll setCovers P.data d A = true)
    (base : Option (List Nat)) (hb : BaseInRange base P.data.length) :
    ∃ dA E E', Gen.Lists.setIntentionI P A = .ok dA ∧
      Gen.Lists.setExtensionI P (some dA) base = .ok E ∧
      Gen.Lists.setExtensionI P d base = .ok E' ∧ ∀ g ∈ E, g ∈ E' := by
  simp only [Gen.Lists.setIntentionI_eq_model, Gen.Lists.setExtensionI_eq_model]
  exact set_int_most_specific P.data A hne hA d hcov base hb

theorem gen_attr_ext_exact (P : Gen.AttrPS) (d : Bool) (base : Option (List Nat))
    (hb : BaseInRange base P.data.length) :
    Gen.Lists.attrExtensionI P d base = .ok (ext attrCovers P.data d (base.getD (List.range P.data.length))) := by
  rw [Gen.Lists.attrExtensionI_eq_model]; exact attr_ext_exact P.data d base hb

theorem gen_attr_intention_nonempty (P : Gen.AttrPS) (A : List Nat) (hne : A ≠ []) (hA : InRange A P.data.length) :
    Gen.Lists.attrIntentionI P A = .ok (A.all fun g => (P.data[g]?).any id) := by
  rw [Gen.Lists.attrIntentionI_eq_model]; exact attr_intention_nonempty P.data A hne hA

theorem gen_attr_int_extensive (P : Gen.AttrPS) (A : List Nat) (hne : A ≠ []) (hA : InRange A P.data.length) :
    ∃ dA, Gen.Lists.attrIntentionI P A = .ok dA ∧
      ∀ base, BaseInRange base P.data.length →
        ∃ E, Gen.Lists.attrExtensionI P dA base = .ok E ∧
          ∀ g ∈ A, g ∈ base.getD (List.range P.data.length) → g ∈ E := by
  simp only [Gen.Lists.attrIntentionI_eq_model, Gen.Lists.attrExtensionI_eq_model]
  exact attr_int_extensive P.data A hne hA

theorem gen_attr_int_most_specific (P : Gen.AttrPS) (A : List Nat) (hne : A ≠ []) (hA : InRange A P.data.length)
    (d : Bool) (hcov : coversAll attrCovers P.data d A = true)
    (base : Option (List Nat)) (hb : BaseInRange base P.data.length) :
    ∃ dA E E', Gen.Lists.attrIntentionI P A = .ok dA ∧
      Gen.Lists.attrExtensionI P dA base = .ok E ∧
      Gen.Lists.attrExtensionI P d base = .ok E' ∧ ∀ g ∈ E, g ∈ E' := by
  simp only [Gen.Lists.attrIntentionI_eq_model, Gen.Lists.attrExtensionI_eq_model]
  exact attr_int_most_specific P.data A hne hA d hcov base hb

/-- the generated definitions compute: -/
example : Gen.Lists.ivIntentionI ⟨[(1, 1), (1, 3), (2, 2), (0, 2)]⟩ [2, 0] = .ok (some (1, 2)) ∧
    Gen.Lists.ivExtensionI ⟨[(1, 1), (1, 3), (2, 2), (0, 2)]⟩ (some (1, 2)) (some [3, 1, 0]) = .ok [0] := by
  exact ⟨by rfl, by rfl⟩

end Fca.C13

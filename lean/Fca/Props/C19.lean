/-
  Props/C19 — line-diagram layouts respect the order; node moving preserves levels.

  Only property theorems live here; helper lemmas are in `Fca/Lemmas/{Layout,Mover}`.
  Observables: `calc_levels` (model `Layout.calcLevels`), the layouts' coordinates (model
  `Layout.fcartLayout`, `Layout.mpLayout` = fcapy's `multipartite_layout` including networkx's
  `multipartite_layout`/`rescale_layout`; verified checker `Layout.holdsLayout` for any layout),
  and `Mover.pos` after each operation (model `Mover.getPos`, which is `peerCoord`/`levelCoord`
  per node placed on the x/y axes according to the orientation: `mover_pos_of_coords`).
-/
import Fca.Model.Layout
import Fca.Model.LayoutMP
import Fca.Model.Mover
import Fca.Lemmas.Mover
import Fca.Lemmas.MoverShift
import Fca.Lemmas.MoverSortedOps
import Fca.Lemmas.Layout
import Fca.Lemmas.Fcart
import Fca.Lemmas.LevelsTotal
import Fca.Lemmas.LayoutMP
namespace Fca.C19
open Fca.Layout Fca.Mover

/-! ## Layouts -/

/-- the layout part of the property as a `Prop`, for a poset given by its cover relation
    (`parents[i]` = upper covers of `i`), a level vector and a position list -/
structure LayoutOK (parents : List (List Nat)) (lv : List Nat) (pos : List (Rat × Rat)) : Prop where
  /-- every element has a position (and a level) -/
  total : pos.length = parents.length ∧ lv.length = parents.length
  /-- no two elements share a position -/
  injective : pos.Nodup
  /-- every element is drawn strictly lower than each of its ancestors -/
  order : ∀ i j, i < parents.length → Anc parents i j → yOf pos i < yOf pos j
  /-- an element's level is the length of the longest chain from a maximal element down to it -/
  levels : ∀ i, i < parents.length → IsLevel parents i (lv.getD i 0)

/-- The decidable checker is sound: whatever coordinates and levels it accepts satisfy the property.
    The harness feeds it the IMPLEMENTATION's `calc_levels` and layout output (fcart and multipartite). -/
theorem holdsLayout_sound (parents : List (List Nat)) (lv : List Nat) (pos : List (Rat × Rat))
    (h : holdsLayout parents lv pos = true) : LayoutOK parents lv pos := by
  obtain ⟨h1, h2, h3, h4, h5⟩ := holdsLayout_parts h
  exact ⟨⟨h1, h2⟩, h3, fun i j hi ha => (anc_lower h4 ha hi).2,
    isLevel_of_good (fun i hi p hp => (h4 i hi p hp).1) h5⟩

/-- Any layout (this is what judges the IMPLEMENTATION's actual multipartite output on every run): every
    output the run accepts through the checker is total, injective and order-respecting.
    PARTIAL as a statement about `multipartite_layout`: it does not say that the function always produces an
    accepted output — that is `multipartite_layout_exact` below, for the code-shaped model of the function
    (fcapy's wrapper + networkx 3.6.x `multipartite_layout`/`rescale_layout`). -/
theorem multipartite_layout_partial (parents : List (List Nat)) (lv : List Nat) (pos : List (Rat × Rat))
    (h : holdsLayout parents lv pos = true) :
    pos.length = parents.length ∧
    (∀ i j, i < parents.length → j < parents.length → i ≠ j → pos.getD i (0, 0) ≠ pos.getD j (0, 0)) ∧
    (∀ i j, i < parents.length → Anc parents i j → yOf pos i < yOf pos j) := by
  obtain ⟨⟨h1, _⟩, h3, h4, _⟩ := holdsLayout_sound parents lv pos h
  refine ⟨h1, ?_, h4⟩
  intro i j hi hj hij he
  rw [← h1] at hi hj
  simp only [List.getD_eq_getElem?_getD, List.getElem?_eq_getElem hi, List.getElem?_eq_getElem hj,
    Option.getD_some] at he
  exact hij ((List.getElem_inj h3).mp he)

/-- `calc_levels` is sound for every listing order of `tops` and of the children sets and every amount
    of fuel: whenever it returns, the level of every element is the length of the longest chain from a
    maximal element down to it, and `levels_dict` groups the elements by level in index order. -/
theorem calc_levels_sound (P : PosetData) (hP : WFP P) (fuel : Nat)
    (l : List Nat) (ld : List (List Nat)) (h : calcLevels P fuel = .ok (l, ld)) :
    l.length = P.n ∧ ld = levelsDict l ∧ ∀ i, i < P.n → IsLevel P.parents i (l.getD i 0) := by
  obtain ⟨h1, h2, h3⟩ := calcLevels_good hP h
  exact ⟨h1, h2, isLevel_of_good hP.par_lt h3⟩

/-- For every non-empty finite poset given by an acyclic cover relation (`WFP2`: valid indexes, `tops` =
    the elements without parents, `children` = transpose of `parents`, a rank function witnessing
    acyclicity) `calc_levels` returns, and the level of every element is the length of the longest chain
    from a maximal element down to it. -/
theorem levels_longest_chain (P : PosetData) (hP : WFP2 P) (hn : P.n ≠ 0) :
    ∃ l ld, calcLevels P (defaultFuel P) = .ok (l, ld) ∧ l.length = P.n ∧ ld = levelsDict l ∧
      ∀ i, i < P.n → IsLevel P.parents i (l.getD i 0) := by
  obtain ⟨l, ld, h⟩ := calcLevels_total hP hn
  exact ⟨l, ld, h, calc_levels_sound P hP.toWFP _ l ld h⟩

/-- `fcart_layout` (model) satisfies the whole layout property on every non-empty finite poset, for all
    parameters `c`, `dpth`: it returns; every element gets a position; positions are pairwise distinct
    (different levels differ in `y`; within a level the ranks `id_on_lvl` enumerate a permutation of the
    level and `x = 2(id+1)/(cnt+1) − 1` is injective in the rank); every element is strictly lower than
    each of its ancestors (`y = −2·level/L + 1` is strictly antitone in the level); levels are
    longest-chain lengths. -/
theorem fcart_layout_ok (P : PosetData) (hP : WFP2 P) (hn : P.n ≠ 0) (c : Rat) (dpth : Int) :
    ∃ pos cl ld, fcartLayout P (defaultFuel P) c dpth = .ok pos ∧
      calcLevels P (defaultFuel P) = .ok (cl, ld) ∧ LayoutOK P.parents cl pos := by
  obtain ⟨pos, h⟩ := fcartLayout_total hP hn c dpth
  obtain ⟨cl, ld, idOn, hc, hi, rfl⟩ := fcartLayout_ok h
  obtain ⟨h1, h2, h3⟩ := calcLevels_good hP.toWFP hc
  have hnn : P.n = P.parents.length := rfl
  refine ⟨_, cl, ld, h, hc, ⟨by simp only [List.length_map, List.length_range, h1, hnn], by rw [h1, hnn]⟩, ?_, ?_,
    isLevel_of_good hP.par_lt h3⟩
  · rw [List.Nodup, List.pairwise_map]
    refine List.Pairwise.imp_of_mem ?_ (List.nodup_range (n := cl.length))
    intro a b ha hb hab
    exact fcart_distinct h2 h1 hi a b (List.mem_range.mp ha) (List.mem_range.mp hb) hab
  · intro i j hi' ha
    obtain ⟨hj, hlt⟩ := level_lt_of_anc hP.par_lt h3 ha hi'
    rw [yOf_fcart cl ld idOn i (by rw [h1, hnn]; exact hi'), yOf_fcart cl ld idOn j (by rw [h1, hnn]; exact hj)]
    exact fcartY_lt cl ld i j (by rw [h2]; exact levelsDict_length_pos cl) hlt

/-- fcart: every element has a position and no two elements share one -/
theorem layout_total_injective (P : PosetData) (hP : WFP2 P) (hn : P.n ≠ 0) (c : Rat) (dpth : Int) :
    ∃ pos, fcartLayout P (defaultFuel P) c dpth = .ok pos ∧ pos.length = P.n ∧
      ∀ i j, i < P.n → j < P.n → i ≠ j → pos.getD i (0, 0) ≠ pos.getD j (0, 0) := by
  obtain ⟨pos, cl, ld, h, _, ⟨h1, _⟩, h3, _, _⟩ := fcart_layout_ok P hP hn c dpth
  refine ⟨pos, h, h1, ?_⟩
  intro i j hi hj hij he
  have hnn : P.n = P.parents.length := rfl
  rw [hnn, ← h1] at hi hj
  simp only [List.getD_eq_getElem?_getD, List.getElem?_eq_getElem hi, List.getElem?_eq_getElem hj,
    Option.getD_some] at he
  exact hij ((List.getElem_inj h3).mp he)

/-- fcart: `i` strictly below `j` in the order ⇒ `y_i < y_j` -/
theorem layout_order_respecting (P : PosetData) (hP : WFP2 P) (hn : P.n ≠ 0) (c : Rat) (dpth : Int) :
    ∃ pos, fcartLayout P (defaultFuel P) c dpth = .ok pos ∧
      ∀ i j, i < P.n → Anc P.parents i j → yOf pos i < yOf pos j := by
  obtain ⟨pos, cl, ld, h, _, _, _, h4, _⟩ := fcart_layout_ok P hP hn c dpth
  exact ⟨pos, h, h4⟩

/-- `multipartite_layout` (model `mpLayout`: `calc_levels` → node attribute `level` → networkx
    `multipartite_layout(G, subset_key='level', align='horizontal')` with `rescale_layout` → `[p[0], -p[1]]`)
    satisfies the whole layout property on every non-empty finite poset, for EVERY iteration order `ord`
    of the Python sets holding the members of a layer: every element gets a position; positions are pairwise
    distinct (members of different layers differ in `y`, members of one layer in `x`: both coordinates are
    affine in (slot, layer index) with the positive factor `1/lim`, or `1` when `lim = 0`, i.e. a single
    node at `(0, 0)`); every element is strictly lower than each of its ancestors (`y = −(i − c)/lim` is
    strictly decreasing in the layer index `i`, layers are sorted by level, an ancestor has a strictly
    smaller level); levels are longest-chain lengths. -/
theorem multipartite_layout_exact (P : PosetData) (hP : WFP2 P) (hn : P.n ≠ 0)
    (ord : List Nat → List Nat) (hord : ∀ g, (ord g).Perm g) :
    ∃ l ld, calcLevels P (defaultFuel P) = .ok (l, ld) ∧ LayoutOK P.parents l (mpLayout P l ord) := by
  obtain ⟨l, ld, hc⟩ := calcLevels_total hP hn
  obtain ⟨h1, _, h3⟩ := calcLevels_good hP.toWFP hc
  obtain ⟨hinj, hlt⟩ := mpNode_facts l ord hord
  have hnn : P.n = P.parents.length := rfl
  refine ⟨l, ld, hc, ⟨by simp only [mpLayout, List.length_map, List.length_range, hnn], by rw [h1, hnn]⟩, ?_, ?_,
    isLevel_of_good hP.par_lt h3⟩
  · rw [mpLayout, List.Nodup, List.pairwise_map]
    refine List.Pairwise.imp_of_mem ?_ (List.nodup_range (n := P.n))
    intro a b ha hb hab
    exact hinj a b (by rw [h1]; exact List.mem_range.mp ha) (by rw [h1]; exact List.mem_range.mp hb) hab
  · intro i j hi ha
    obtain ⟨hj, hl⟩ := level_lt_of_anc hP.par_lt h3 ha hi
    rw [yOf_mpLayout P l ord i hi, yOf_mpLayout P l ord j hj]
    exact hlt i j (by rw [h1]; exact hi) (by rw [h1]; exact hj) hl

/-- the same for the whole function (`calc_levels` included), in the shape of `fcart_layout_ok` -/
theorem multipartite_layout_ok (P : PosetData) (hP : WFP2 P) (hn : P.n ≠ 0)
    (ord : List Nat → List Nat) (hord : ∀ g, (ord g).Perm g) :
    ∃ pos cl ld, multipartiteLayout P (defaultFuel P) ord = .ok pos ∧
      calcLevels P (defaultFuel P) = .ok (cl, ld) ∧ LayoutOK P.parents cl pos := by
  obtain ⟨l, ld, hc, hok⟩ := multipartite_layout_exact P hP hn ord hord
  exact ⟨_, l, ld, by simp only [multipartiteLayout, hc], hc, hok⟩

private def exP : PosetData := ⟨[[], [0], [0], [1, 2], [0]], [[1, 2, 4], [3], [3], [], []], [0]⟩

/-- the diamond with a pendant meets all hypotheses; the models return the expected values on it and the
    fcart output is accepted by the checker -/
example : WFP2 exP ∧ exP.n ≠ 0 ∧
    (match calcLevels exP (defaultFuel exP) with
     | .ok r => r == ([0, 1, 1, 2, 1], [[0], [1, 2, 4], [3]])
     | .error _ => false) = true ∧
    (match fcartLayout exP (defaultFuel exP) (1/2) 1, calcLevels exP (defaultFuel exP) with
     | .ok pos, .ok (cl, _) => holdsLayout exP.parents cl pos
     | _, _ => false) = true := by
  refine ⟨⟨⟨by decide, by decide, by decide⟩, by decide, by decide, by decide, by decide, by decide,
    ⟨fun i => [0, 1, 1, 2, 1].getD i 0, by decide⟩⟩, by decide, by decide +kernel, by decide +kernel⟩

/-- on the same poset the multipartite model, with the layer `{1, 2, 4}` iterated as `4, 1, 2`, returns the
    expected coordinates (raw grid `(level − 1, slot − (h−1)/2)`, level mean `1`, `lim = 1`), which the checker
    accepts; the order parameter used is a permutation of every argument -/
example :
    let ord : List Nat → List Nat := fun g => if g = [1, 2, 4] then [4, 1, 2] else g
    (∀ g, (ord g).Perm g) ∧
    mpLayout exP [0, 1, 1, 2, 1] ord = [(0, 1), (0, 0), (1, 0), (0, -1), (-1, 0)] ∧
    holdsLayout exP.parents [0, 1, 1, 2, 1] (mpLayout exP [0, 1, 1, 2, 1] ord) = true := by
  refine ⟨?_, by decide +kernel, by decide +kernel⟩
  intro g
  by_cases h : g = [1, 2, 4]
  · subst h; decide
  · simp only [h, ↓reduceIte]; exact List.Perm.refl _

/-! ## Mover -/

/-- `Mover.pos` is the per-node peer / level coordinate laid on the axes of the orientation -/
theorem mover_pos_of_coords (m : St) : getPos m = (List.range m.n).map fun el =>
    match m.dir with
    | .v => (m.peerCoord el, m.levelCoord el)
    | .h => (-(m.levelCoord el), m.peerCoord el) := getPos_eq m

/-- Loading a position dictionary and reading it back is the identity, in both orientations
    (for every non-empty dictionary — distinctness of the positions is not even needed), and the
    loaded state satisfies the invariants all later theorems assume: `WF` (every list read is in
    range) and `Bij` (the ranks of each level are a bijection onto the level's coordinate slots). -/
theorem mover_roundtrip (d : Dir) (value : List (Rat × Rat)) (hne : value ≠ []) :
    ∃ m, setPos d value = .ok m ∧ WF m ∧ Bij m ∧ m.dir = d ∧ getPos m = value := by
  have hE : value.isEmpty = false := by cases value <;> simp_all
  refine ⟨loadState d (value.map (orient d)), by simp only [setPos, hE]; rfl, ?_, loadState_bij d _, rfl, ?_⟩
  · exact (loadState_spec d _).1
  · rw [getPos_eq, loadState_n, loadState_dir, List.length_map]
    have hs := (loadState_spec d (value.map (orient d))).2
    conv => rhs; rw [← range_map_getD value (0, 0)]
    apply List.map_congr_left
    intro el hel
    have hel' : el < value.length := List.mem_range.mp hel
    obtain ⟨h1, h2⟩ := hs el (by rw [List.length_map]; exact hel')
    rw [h1, h2, getD_map (orient d) value el (0, 0) (0, 0) hel']
    exact orient_back d _

/-- `swap_nodes(a, b)` succeeds exactly for valid nodes of one level, and then exchanges exactly the two
    peer coordinates: nothing else moves and no level coordinate changes. -/
theorem mover_swap (m : St) (hw : WF m) (a b : Nat) :
    (a < m.n → b < m.n → m.lvl a = m.lvl b → ∃ m', swapNodes m a b = .ok m') ∧
    ∀ m', swapNodes m a b = .ok m' →
      m.lvl a = m.lvl b ∧ m'.n = m.n ∧
      m'.peerCoord a = m.peerCoord b ∧ m'.peerCoord b = m.peerCoord a ∧
      (∀ j, j ≠ a → j ≠ b → m'.peerCoord j = m.peerCoord j) ∧
      (∀ j, m'.levelCoord j = m.levelCoord j) := by
  constructor
  · intro ha hb hl
    simp only [swapNodes, ha, hb, and_self, ↓reduceIte, hl, ne_eq, not_true_eq_false]
    exact ⟨_, rfl⟩
  · intro m' h
    obtain ⟨hd, hl, hpl, hpp⟩ := swap_frame h
    obtain ⟨ha, hb, hlab, _⟩ := swapNodes_ok h
    have hlvl : ∀ el, m'.lvl el = m.lvl el := by intro el; simp only [St.lvl, hl]
    have hrow : ∀ l, m'.row l = m.row l := by intro l; simp only [St.row, hpp]
    refine ⟨hlab, by simp only [St.n, hl], ?_, ?_, ?_, fun j => levelCoord_congr hl hpl j⟩
    · simp only [St.peerCoord, hlvl, hrow, swap_ord_a hw.len_ord h, hlab]
    · simp only [St.peerCoord, hlvl, hrow, swap_ord_b hw.len_ord h, hlab]
    · intro j hja hjb
      exact peerCoord_congr hl (swap_ord_other h hja hjb) (hrow _)

/-- `shift_node(i, k)` on a valid node always succeeds and moves `i` exactly `k` places among its peers
    (clamped at the ends of the level), the bypassed peers moving one place the other way, every other
    node keeping its rank; the coordinate lists are not touched at all — the level's coordinates are
    reused (`peerCoord m' j` is slot `m'.ord j` of the unchanged row) — and both invariants are kept. -/
theorem mover_shift (m : St) (hw : WF m) (hb : Bij m) (i : Nat) (k : Int) (hi : i < m.n) :
    ∃ m', shiftNode m i k = .ok m' ∧ WF m' ∧ Bij m' ∧
      m'.n = m.n ∧ m'.posPeers = m.posPeers ∧ m'.posLevels = m.posLevels ∧ m'.levels = m.levels ∧
      (∀ j, m'.peerCoord j = (m.row (m.lvl j)).getD (m'.ord j) 0) ∧
      (∀ j, m'.levelCoord j = m.levelCoord j) ∧
      (∀ j, m.lvl j ≠ m.lvl i → m'.ord j = m.ord j ∧ m'.peerCoord j = m.peerCoord j) ∧
      (0 ≤ k →
        let t := min k.natAbs ((m.row (m.lvl i)).length - (m.ord i + 1))
        m'.ord i = m.ord i + t ∧
        ∀ j, j < m.n → m.lvl j = m.lvl i →
          (m.ord i < m.ord j → m.ord j ≤ m.ord i + t → m'.ord j = m.ord j - 1) ∧
          (m.ord j < m.ord i ∨ m.ord i + t < m.ord j → m'.ord j = m.ord j)) ∧
      (k < 0 →
        let t := min k.natAbs (m.ord i)
        m'.ord i = m.ord i - t ∧
        ∀ j, j < m.n → m.lvl j = m.lvl i →
          (m.ord i - t ≤ m.ord j → m.ord j < m.ord i → m'.ord j = m.ord j + 1) ∧
          (m.ord j < m.ord i - t ∨ m.ord i < m.ord j → m'.ord j = m.ord j)) := by
  have hex : ∃ m', shiftNode m i k = .ok m' := by
    simp only [shiftNode, hi, ↓reduceIte]
    have hs := @nodesToSwap_peers m i k
    generalize nodesToSwap m i k = ns at hs
    clear hb
    induction ns generalizing m with
    | nil => exact ⟨_, rfl⟩
    | cons s ss ih =>
      obtain ⟨hs1, hs2⟩ := hs s List.mem_cons_self
      have hsw : swapNodes m i s = .ok { m with peersOrder := (m.peersOrder.set i (m.ord s)).set s (m.ord i) } := by
        simp only [swapNodes, hi, hs1, and_self, ↓reduceIte, hs2, ne_eq, not_true_eq_false]
      simp only [swapLoop, hsw]
      exact ih _ (swap_wf hw hsw) hi (fun s' hs' => hs s' (List.mem_cons_of_mem _ hs'))
  obtain ⟨m', h⟩ := hex
  obtain ⟨hd, hl, hpl, hpp⟩ := shift_frame h
  refine ⟨m', h, shift_wf hw h, shift_bij hw hb h, by simp only [St.n, hl], hpp, hpl, hl, ?_,
    fun j => levelCoord_congr hl hpl j, ?_, fun hk => shift_right hw hb hk h, fun hk => shift_left hw hb hk h⟩
  · intro j
    simp only [St.peerCoord, St.row, St.lvl, hl, hpp]
  · intro j hj
    exact ⟨swapLoop_other (shiftNode_ok h).2 j hj, shift_other h j hj⟩

/-- `jitter_node(i, dx)`: whenever it returns, node `i` sits exactly `dx` further along the peer axis
    (border, order-preserving and overtaking branch alike); no level coordinate changes and no node
    of another level moves.  (A bypassed peer of the same level may be displaced: by design.) -/
theorem mover_jitter (m : St) (hw : WF m) (i : Nat) (dx : Rat) (m' : St)
    (h : jitterNode m i dx = .ok m') :
    m'.peerCoord i = m.peerCoord i + dx ∧ WF m' ∧ (Bij m → Bij m') ∧ m'.n = m.n ∧
    (∀ j, m'.levelCoord j = m.levelCoord j) ∧
    (∀ j, m.lvl j ≠ m.lvl i → m'.peerCoord j = m.peerCoord j) := by
  obtain ⟨hd, hl, hpl, _⟩ := jitter_frame h
  refine ⟨?_, jitter_wf hw h, fun hb => jitter_bij hw hb h, by simp only [St.n, hl],
    fun j => levelCoord_congr hl hpl j, fun j hj => jitter_other h j hj⟩
  obtain ⟨hi, h1 | ⟨k, m1, hs, h1⟩⟩ := jitterNode_ok h
  · subst h1
    show ((setRow m _ _ _).row (m.lvl i)).getD (m.ord i) 0 = _
    rw [setRow_row_same _ _ _ _ (hw.lvl_lt i hi)]
    exact getD_set_eq _ _ _ _ (hw.ord_lt i hi)
  · subst h1
    have hw1 := shift_wf hw hs
    obtain ⟨_, hl1, _, hpp1⟩ := shift_frame hs
    have hlv : m1.lvl i = m.lvl i := by simp only [St.lvl, hl1]
    have hi1 : i < m1.n := by simp only [St.n, hl1]; exact hi
    show ((setRow m1 _ _ _).row (m1.lvl i)).getD (m1.ord i) 0 = _
    rw [hlv, setRow_row_same _ _ _ _ (by rw [hpp1]; exact hw.lvl_lt i hi)]
    have := hw1.ord_lt i hi1
    rw [hlv] at this
    exact getD_set_eq _ _ _ _ this

/-- `jitter_node` on a valid node refuses only in the documented case: the new coordinate coincides
    with a coordinate of the level (`AssertionError`, state unchanged); in every other case it returns. -/
theorem mover_jitter_refusal (m : St) (hw : WF m) (hb : Bij m) (i : Nat) (dx : Rat) (hi : i < m.n)
    (e : VErr) (h : jitterNode m i dx = .error e) :
    e = .AssertionError ∧ (m.peerCoord i + dx) ∈ m.row (m.lvl i) := by
  have hshift : ∀ k e', shiftNode m i k ≠ .error e' := by
    intro k e' he
    obtain ⟨m', hm', _⟩ := mover_shift m hw hb i k hi
    rw [hm'] at he; cases he
  unfold jitterNode at h
  simp only [hi, ↓reduceIte] at h
  by_cases hdx : 0 ≤ dx
  · simp only [hdx, ↓reduceIte] at h
    split at h
    · cases h
    · split at h
      · cases h
      · split at h
        · rename_i hany
          cases h
          refine ⟨rfl, ?_⟩
          simp only [List.any_eq_true, beq_iff_eq] at hany
          obtain ⟨x, hx, rfl⟩ := hany
          exact hx
        · split at h
          · rename_i e' he'
            exact absurd he' (hshift _ _)
          · cases h
  · simp only [hdx, ↓reduceIte] at h
    split at h
    · cases h
    · split at h
      · cases h
      · split at h
        · rename_i hany
          cases h
          refine ⟨rfl, ?_⟩
          simp only [List.any_eq_true, beq_iff_eq] at hany
          obtain ⟨x, hx, rfl⟩ := hany
          exact hx
        · split at h
          · rename_i e' he'
            exact absurd he' (hshift _ _)
          · cases h

/-- `place_node(i, x)` in the vertical orientation puts node `i` at peer coordinate `x` (exactly, in
    rational arithmetic; the implementation computes `p + (x - p)` in floats), with the same frame
    conditions as jitter. -/
theorem mover_place (m : St) (hw : WF m) (hv : m.dir = .v) (i : Nat) (x : Rat) (m' : St)
    (h : placeNode m i x = .ok m') :
    m'.peerCoord i = x ∧ WF m' ∧ (Bij m → Bij m') ∧
    (∀ j, m'.levelCoord j = m.levelCoord j) ∧
    (∀ j, m.lvl j ≠ m.lvl i → m'.peerCoord j = m.peerCoord j) := by
  obtain ⟨hi, hj⟩ := placeNode_ok h
  obtain ⟨h1, h2, hb', _, h3, h4⟩ := mover_jitter m hw i _ m' hj
  refine ⟨?_, h2, hb', h3, h4⟩
  rw [h1]
  have : (posx m).getD i 0 = m.peerCoord i := by
    simp only [posx, hv]
    exact getD_map_range _ _ _ _ hi
  rw [this]
  grind

/-- No history of operations (failed ones are caught and leave the state unchanged) changes the
    orientation, any node's level or level coordinate, or the peer coordinate of a node whose level
    none of the operations addressed; both state invariants are kept.  By induction over the history. -/
theorem mover_levels_invariant (m : St) (hw : WF m) (hb : Bij m) (ops : List Op) :
    WF (run m ops) ∧ Bij (run m ops) ∧ (run m ops).dir = m.dir ∧ (run m ops).n = m.n ∧
    (run m ops).levels = m.levels ∧ (run m ops).posLevels = m.posLevels ∧
    (∀ j, (run m ops).levelCoord j = m.levelCoord j) ∧
    (∀ j, (∀ o ∈ ops, m.lvl j ≠ m.lvl o.node) → (run m ops).peerCoord j = m.peerCoord j) := by
  obtain ⟨hd, hl, hpl⟩ := run_frame ops m
  exact ⟨run_wf ops m hw, run_bij ops m hw hb, hd, by simp only [St.n, hl], hl, hpl, fun j => levelCoord_congr hl hpl j,
    fun j hj => run_other ops m j hj⟩

/-- `Sorted`: within every level the peer coordinates strictly increase along the rank order.  It is
    established by loading pairwise distinct positions (both orientations) and preserved by every
    operation — swap, shift, jitter in all three branches (border, order-preserving, overtaking),
    place — hence by every history (failed operations leave the state unchanged). -/
theorem mover_sorted_invariant :
    (∀ (d : Dir) (value : List (Rat × Rat)), value ≠ [] → value.Nodup →
      ∃ m, setPos d value = .ok m ∧ WF m ∧ Bij m ∧ Sorted m ∧ getPos m = value) ∧
    (∀ (m m' : St) (o : Op), WF m → Bij m → Sorted m → step m o = .ok m' → WF m' ∧ Bij m' ∧ Sorted m') ∧
    (∀ (m : St) (ops : List Op), WF m → Bij m → Sorted m →
      WF (run m ops) ∧ Bij (run m ops) ∧ Sorted (run m ops)) := by
  refine ⟨?_, ?_, ?_⟩
  · intro d value hne hnd
    obtain ⟨m, hm, hw, hb, _, hg⟩ := mover_roundtrip d value hne
    refine ⟨m, hm, hw, hb, ?_, hg⟩
    have hE : value.isEmpty = false := by cases value <;> simp_all
    simp only [setPos, hE] at hm
    cases hm
    exact loadState_sorted d _ (nodup_map_orient d hnd)
  · intro m m' o hw hb hs h
    exact ⟨step_wf hw h, step_bij hw hb h, step_sorted hw hb hs h⟩
  · intro m ops hw hb hs
    exact ⟨run_wf ops m hw, run_bij ops m hw hb, run_sorted ops m hw hb hs⟩

/-- In a `Sorted` state ranks are geometric: among the peers of a level, smaller rank ⇔ smaller peer
    coordinate, and a node's coordinate is slot `rank` of the ascending coordinate list of its level
    (each slot being taken by exactly one peer, `Bij`). -/
theorem mover_rank_geometric (m : St) (hw : WF m) (hb : Bij m) (hs : Sorted m) :
    (∀ l, (m.row l).Pairwise (· < ·)) ∧
    (∀ j, m.peerCoord j = (m.row (m.lvl j)).getD (m.ord j) 0) ∧
    (∀ a b, a < m.n → b < m.n → m.lvl a = m.lvl b → (m.ord a < m.ord b ↔ m.peerCoord a < m.peerCoord b)) ∧
    (∀ l r, l < m.posPeers.length → r < (m.row l).length → ∃ el, el < m.n ∧ m.lvl el = l ∧ m.ord el = r ∧
      ∀ el', el' < m.n → m.lvl el' = l → m.ord el' = r → el' = el) := by
  refine ⟨hs, fun _ => rfl, fun a b ha hb' hl => rank_geometric hw hs ha hb' hl, ?_⟩
  intro l r hl hr
  obtain ⟨el, h1, h2, h3⟩ := hb.surj l r hl hr
  exact ⟨el, h1, h2, h3, fun el' h1' h2' h3' => hb.inj el' el h1' h1 (h2'.trans h2.symm) (h3'.trans h3.symm)⟩

/-- `shift_node(i, k)` read geometrically: in a `Sorted` state (before and after — the level's ascending
    coordinate list `row` is not touched) node `i`, which sits at slot `p` of `row`, ends exactly `k`
    places further right among its peers ordered by their actual coordinates (clamped at the ends of the
    row): at `row[p + min(k, len-1-p)]` resp. `row[p - min(|k|, p)]`; every peer lying strictly between
    the old and the new place of `i` (new place included) moves to the neighbouring slot on the other
    side, every other node keeps its coordinate; the level's coordinates are reused. -/
theorem mover_shift_geometric (m : St) (hw : WF m) (hb : Bij m) (hs : Sorted m) (i : Nat) (k : Int) (hi : i < m.n) :
    ∃ m', shiftNode m i k = .ok m' ∧ WF m' ∧ Bij m' ∧ Sorted m' ∧ (∀ l, m'.row l = m.row l) ∧
      (∀ a b, a < m.n → b < m.n → m.lvl a = m.lvl b →
        ((m.ord a < m.ord b ↔ m.peerCoord a < m.peerCoord b) ∧
         (m'.ord a < m'.ord b ↔ m'.peerCoord a < m'.peerCoord b))) ∧
      (0 ≤ k →
        let row := m.row (m.lvl i)
        let t := min k.natAbs (row.length - (m.ord i + 1))
        m'.peerCoord i = row.getD (m.ord i + t) 0 ∧
        ∀ j, j < m.n → m.lvl j = m.lvl i →
          (m.peerCoord i < m.peerCoord j → m.peerCoord j ≤ row.getD (m.ord i + t) 0 →
              m'.peerCoord j = row.getD (m.ord j - 1) 0) ∧
          (m.peerCoord j < m.peerCoord i ∨ row.getD (m.ord i + t) 0 < m.peerCoord j →
              m'.peerCoord j = m.peerCoord j)) ∧
      (k < 0 →
        let row := m.row (m.lvl i)
        let t := min k.natAbs (m.ord i)
        m'.peerCoord i = row.getD (m.ord i - t) 0 ∧
        ∀ j, j < m.n → m.lvl j = m.lvl i →
          (row.getD (m.ord i - t) 0 ≤ m.peerCoord j → m.peerCoord j < m.peerCoord i →
              m'.peerCoord j = row.getD (m.ord j + 1) 0) ∧
          (m.peerCoord j < row.getD (m.ord i - t) 0 ∨ m.peerCoord i < m.peerCoord j →
              m'.peerCoord j = m.peerCoord j)) := by
  obtain ⟨m', h, hw', hb', hn, hpp, _, hl, hpc, _, _, hR, hL⟩ := mover_shift m hw hb i k hi
  have hs' : Sorted m' := shift_sorted hs h
  have hlvl : ∀ el, m'.lvl el = m.lvl el := by intro el; simp only [St.lvl, hl]
  have hrow : ∀ l, m'.row l = m.row l := by intro l; simp only [St.row, hpp]
  have hp := hw.ord_lt i hi
  -- comparing a peer coordinate with a slot of the row = comparing ranks
  have hcmp : ∀ j, j < m.n → m.lvl j = m.lvl i → ∀ q, q < (m.row (m.lvl i)).length →
      ((m.peerCoord j < (m.row (m.lvl i)).getD q 0 ↔ m.ord j < q) ∧
       ((m.row (m.lvl i)).getD q 0 < m.peerCoord j ↔ q < m.ord j) ∧
       (m.peerCoord j ≤ (m.row (m.lvl i)).getD q 0 ↔ m.ord j ≤ q) ∧
       ((m.row (m.lvl i)).getD q 0 ≤ m.peerCoord j ↔ q ≤ m.ord j)) := by
    intro j hj hjl q hq
    have hpj := hw.ord_lt j hj
    rw [hjl] at hpj
    simp only [St.peerCoord, hjl]
    rw [getD_eq_get _ _ hpj, getD_eq_get _ _ hq]
    have hlt : ∀ a b (ha : a < (m.row (m.lvl i)).length) (hb : b < (m.row (m.lvl i)).length),
        ((m.row (m.lvl i))[a] < (m.row (m.lvl i))[b] ↔ a < b) := by
      intro a b ha hb
      constructor
      · intro h'
        apply Classical.byContradiction
        intro hn'
        exact absurd h' (Rat.not_lt.mpr (pairwise_le_get (hs _) hb ha (by omega)))
      · exact pairwise_lt_get (hs _) ha hb
    refine ⟨hlt _ _ hpj hq, hlt _ _ hq hpj, ?_, ?_⟩
    · rw [← Rat.not_lt, hlt _ _ hq hpj]; omega
    · rw [← Rat.not_lt, hlt _ _ hpj hq]; omega
  have hci : m.peerCoord i = (m.row (m.lvl i)).getD (m.ord i) 0 := rfl
  refine ⟨m', h, hw', hb', hs', hrow, ?_, ?_, ?_⟩
  · intro a b ha hb'' hab
    exact ⟨rank_geometric hw hs ha hb'' hab,
      rank_geometric hw' hs' (hn ▸ ha) (hn ▸ hb'') (by rw [hlvl, hlvl]; exact hab)⟩
  · intro hk
    obtain ⟨h1, h2⟩ := hR hk
    have htq : m.ord i + min k.natAbs ((m.row (m.lvl i)).length - (m.ord i + 1)) < (m.row (m.lvl i)).length := by
      omega
    refine ⟨by rw [hpc, h1], ?_⟩
    intro j hj hjl
    obtain ⟨c1, c2, c3, c4⟩ := hcmp j hj hjl _ htq
    obtain ⟨d1, d2, _, _⟩ := hcmp j hj hjl _ hp
    obtain ⟨g1, g2⟩ := h2 j hj hjl
    constructor
    · intro ha hb''
      rw [hci] at ha
      rw [hpc, g1 (d2.mp ha) (c3.mp hb''), hjl]
    · intro hor
      rw [hpc, g2 (hor.imp (fun ha => by rw [hci] at ha; exact d1.mp ha) (fun hb'' => c2.mp hb'')), hjl]
      simp only [St.peerCoord, hjl]
  · intro hk
    obtain ⟨h1, h2⟩ := hL hk
    have htq : m.ord i - min k.natAbs (m.ord i) < (m.row (m.lvl i)).length := by omega
    refine ⟨by rw [hpc, h1], ?_⟩
    intro j hj hjl
    obtain ⟨c1, c2, c3, c4⟩ := hcmp j hj hjl _ htq
    obtain ⟨d1, d2, _, _⟩ := hcmp j hj hjl _ hp
    obtain ⟨g1, g2⟩ := h2 j hj hjl
    constructor
    · intro ha hb''
      rw [hci] at hb''
      rw [hpc, g1 (c4.mp ha) (d1.mp hb''), hjl]
    · intro hor
      rw [hpc, g2 (hor.imp (fun ha => c1.mp ha) (fun hb'' => by rw [hci] at hb''; exact d2.mp hb'')), hjl]
      simp only [St.peerCoord, hjl]

/-! ### non-vacuity -/

private def exPos : List (Rat × Rat) := [(0, 1), (1/2, 0), (-1/2, 0), (3/2, 0), (0, -1)]

/-- a loaded 5-node diagram; an overtaking jitter (displacing the bypassed peer 1), a place, a shift by
    two and a swap all succeed on it with the stated results -/
example :
    (match setPos .v exPos with
     | .error _ => false
     | .ok m =>
       getPos m == exPos
       && (match jitterNode m 2 (3/2) with
           | .ok m' => getPos m' == [(0, 1), (-1/2, 0), (1, 0), (3/2, 0), (0, -1)]
           | .error _ => false)
       && (match placeNode m 3 (-1) with
           | .ok m' => m'.peerCoord 3 == -1
           | .error _ => false)
       && (match shiftNode m 2 2 with
           | .ok m' => getPos m' == [(0, 1), (-1/2, 0), (3/2, 0), (1/2, 0), (0, -1)]
           | .error _ => false)
       && (match swapNodes m 1 3 with
           | .ok _ => true
           | .error _ => false)) = true := by decide +kernel

/-- the 5-node diagram has pairwise distinct positions, so `mover_sorted_invariant` applies to it -/
example : exPos ≠ [] ∧ exPos.Nodup ∧ ∃ m, setPos .v exPos = .ok m ∧ WF m ∧ Bij m ∧ Sorted m := by
  have h1 : exPos ≠ [] := by decide
  have h2 : exPos.Nodup := by decide +kernel
  obtain ⟨m, hm, hw, hb, hs, _⟩ := mover_sorted_invariant.1 .v exPos h1 h2
  exact ⟨h1, h2, m, hm, hw, hb, hs⟩

end Fca.C19

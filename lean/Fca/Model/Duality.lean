/-
  Fca.Model.Duality — the context/lattice transformations of property C06, written the way the
  Python is written:

  * `AbstractBinTable.T` (lists / bitarray: `[self._get_column(range(height), j) for j in range(width)]`),
    `BinTableNumpy.T` (`self.data.T`), and `FormalContext.T` (swaps the name tuples);
  * `__invert__` of the three backends and `FormalContext.__invert__` with the `'not '` prefix toggle;
  * `K[rows, cols]` (`_get_subtable` of the three backends, `slice_list` on the names);
  * `FormalContext.__eq__` (raises `ValueError` on different names);
  * `POSet._transpose_hierarchy`, the `children_dict` / `parents_dict` properties,
    `ConceptLattice.T`, `ConceptLattice._from_context_monotone`.

  The concept-construction algorithm itself (`from_context`, Lindig / CbO) is a *parameter* here
  (property C02 is about it); C06 quantifies over "all exact algorithms".

  No Mathlib import (the driver is linked natively).
-/
import Fca.Model.Context
namespace Fca.Dual
open Fca

/-! ## tables -/

/-- `self.__class__(rows)`: `_transform_data` gives `([], 0, 0)` for empty data and otherwise
    `(data, len(data), len(data[0]))` (`_transform_data_inherent`, every backend). -/
def mkTable (rows : List Row) : Table := Table.ofRows rows

/-- `_get_column(row_slicer, j)` of the lists/bitarray backends:
    `[self.data[row_i][column_idx] for row_i in row_slicer]` -/
def getColumn (t : Table) (rows : List Nat) (j : Nat) : Row := rows.map fun i => t.get i j

/-- `ndarray.T` of a `height × width` array: row `j` of the result is `data[:, j]`. -/
def npT (t : Table) : List Row :=
  (List.range t.width).map fun j => t.data.map fun r => r.getD j false

/-- `AbstractBinTable.T` / `BinTableNumpy.T` -/
def tableT : Backend → Table → Table
  | .lists, t => mkTable ((List.range t.width).map fun j => getColumn t (List.range t.height) j)
  | .bitarray, t => mkTable ((List.range t.width).map fun j => getColumn t (List.range t.height) j)
  | .numpy, t => mkTable (npT t)

/-- `~row` on a frozenbitarray -/
def bitInvert (r : Row) : Row := r.map fun v => !v

/-- `__invert__` of the three backends -/
def tableNot : Backend → Table → Table
  | .lists, t => mkTable (t.data.map fun row => row.map fun v => !v)      -- [[not v for v in row] for row in data]
  | .bitarray, t => mkTable (t.data.map fun row => bitInvert row)           -- [~row for row in data]
  | .numpy, t => mkTable (t.data.map fun row => row.map fun v => !v)      -- ~self.data

/-- `_get_subtable(rows, cols)` with two index lists -/
def subtable : Backend → Table → List Nat → List Nat → Table
  | .lists, t, rows, cols => mkTable (rows.map fun i => cols.map fun j => t.get i j)
  | .bitarray, t, rows, cols => mkTable (rows.map fun i => cols.map fun j => t.get i j)
  | .numpy, t, rows, cols =>   -- data[np.ix_(rows, cols)]
    mkTable ((rows.map t.row).map fun r => cols.map fun j => r.getD j false)

/-- `AbstractBinTable.__eq__` (same backend on both sides) -/
def tableEq (a b : Table) : Bool :=
  if a.height ≠ b.height then false
  else if a.width ≠ b.width then false
  else a.data == b.data

/-! ## contexts -/

/-- `FormalContext.__init__`: the two name setters assert the lengths. -/
def mkCtx (be : Backend) (t : Table) (objs attrs : List String) : Except PyErr Ctx :=
  if objs.length ≠ t.height then .error .AssertionError
  else if attrs.length ≠ t.width then .error .AssertionError
  else .ok ⟨be, t, objs, attrs⟩

/-- `FormalContext.T`:
    `self.__class__(self.data.T.data, self.attribute_names, self.object_names, backend=self.backend)` -/
def ctxT (K : Ctx) : Except PyErr Ctx :=
  mkCtx K.backend (tableT K.backend K.table) K.attrNames K.objNames

def notPrefix : List Char := ['n', 'o', 't', ' ']

/-- `m[4:] if m.startswith('not ') else 'not ' + m` -/
def toggleNot (m : String) : String :=
  let cs := m.toList
  if notPrefix.isPrefixOf cs then String.ofList (cs.drop 4) else String.ofList (notPrefix ++ cs)

/-- `FormalContext.__invert__` -/
def ctxNot (K : Ctx) : Except PyErr Ctx :=
  mkCtx K.backend (tableNot K.backend K.table) K.objNames (K.attrNames.map toggleNot)

/-- `K[rows, cols]` with two index lists (`IndexError` for an index beyond the table;
    negative indexes are outside the modelled API). -/
def ctxGet (K : Ctx) (rows cols : List Nat) : Except PyErr Ctx :=
  if rows.any (fun i => K.nObjects ≤ i) || cols.any (fun j => K.nAttributes ≤ j) then .error .IndexError
  else mkCtx K.backend (subtable K.backend K.table rows cols)
    (rows.map fun i => K.objNames.getD i "") (cols.map fun j => K.attrNames.getD j "")

/-- `FormalContext.__eq__` (no targets) -/
def ctxEq (K K' : Ctx) : Except PyErr Bool :=
  if K.objNames ≠ K'.objNames then .error .ValueError
  else if K.attrNames ≠ K'.attrNames then .error .ValueError
  else .ok (tableEq K.table K'.table)

/-! ## lattices -/

/-- the fields of a `FormalConcept` -/
structure Concept where
  extI : List Nat
  ext  : List String
  intI : List Nat
  int  : List String
  hash : Option Int
  mono : Bool
  deriving Repr, Inhabited, DecidableEq

/-- `{key: set of indexes}`, newest binding first -/
abbrev Dict := List (Nat × List Nat)

def dget (d : Dict) (k : Nat) : List Nat := (d.lookup k).getD []
def dhas (d : Dict) (k : Nat) : Bool := (d.lookup k).isSome
def dset (d : Dict) (k : Nat) (v : List Nat) : Dict := (k, v) :: d
/-- `s | {x}` -/
def setAdd (s : List Nat) (x : Nat) : List Nat := if s.contains x then s else s ++ [x]

/-- `for v in vs: new_dict[v] = new_dict.get(v, set()) | {k}` -/
def thInner (k : Nat) : List Nat → Dict → Dict
  | [], d => d
  | v :: vs, d => thInner k vs (dset d v (setAdd (dget d v) k))

/-- the outer loop of `_transpose_hierarchy` over `hierarchy_dict.items()` -/
def thLoop : Dict → Dict → Dict
  | [], d => d
  | (k, vs) :: rest, d =>
    let d1 := if dhas d k then d else dset d k []
    thLoop rest (thInner k vs d1)

/-- `POSet._transpose_hierarchy` -/
def transposeHierarchy (h : Dict) : Dict := thLoop h []

/-- a `ConceptLattice`: its concepts, the `children_dict` it was built with, the monotonicity flag -/
structure Lat where
  concepts : List Concept
  children : Dict
  mono : Bool
  deriving Repr, Inhabited

/-- the `children_dict` property: `{i: self.children(i) for i in range(len(self))}` -/
def Lat.childrenDict (L : Lat) : Dict :=
  (List.range L.concepts.length).map fun i => (i, dget L.children i)

/-- the `parents_dict` property; `POSet.__init__` fills `_cache_parents` with
    `_transpose_hierarchy(children_dict)` -/
def Lat.parentsDict (L : Lat) : Dict :=
  let p := transposeHierarchy L.children
  (List.range L.concepts.length).map fun i => (i, dget p i)

/-- `-c.context_hash if c.context_hash else None` -/
def negHash : Option Int → Option Int
  | some h => if h ≠ 0 then some (-h) else none
  | none => none

/-- `FormalConcept(c.intent_i, c.intent, c.extent_i, c.extent, context_hash=…)` -/
def conceptT (c : Concept) : Concept := ⟨c.intI, c.int, c.extI, c.ext, negHash c.hash, false⟩

/-- `ConceptLattice.T`: `ConceptLattice(concepts_t, children_dict=self.parents_dict)` -/
def latT (L : Lat) : Lat := ⟨L.concepts.map conceptT, L.parentsDict, false⟩

/-- one iteration of the loop of `_from_context_monotone` -/
def monoConcept (K : Ctx) (ctxHash : Int) (c : Concept) : Concept :=
  let newExtI := (List.range K.nObjects).filter fun g => !(c.extI.contains g)  -- sorted(obj_idxs - set(c.extent_i))
  { extI := newExtI,
    ext := newExtI.map fun g => K.objNames.getD g "",
    intI := c.intI,
    int := c.int.map toggleNot,
    hash := some ctxHash,
    mono := true }

/-- the part of `_from_context_monotone` after `L = from_context(~context, …)` -/
def fromContextMonotone (K : Ctx) (ctxHash : Int) (L : Lat) : Lat :=
  ⟨L.concepts.map (monoConcept K ctxHash), L.childrenDict, true⟩

/-- `_from_context_monotone`, the lattice-construction algorithm and the hash being parameters -/
def fromContextMonotoneWith (algo : Ctx → Lat) (hashFixed : Ctx → Int) (K : Ctx) : Except PyErr Lat := do
  let Kn ← ctxNot K
  pure (fromContextMonotone K (hashFixed K) (algo Kn))

/-- (extent, intent) index pairs of a lattice -/
def Lat.pairs (L : Lat) : List (List Nat × List Nat) := L.concepts.map fun c => (c.extI, c.intI)
def Lat.exts (L : Lat) : List (List Nat) := L.concepts.map (·.extI)
def Lat.ints (L : Lat) : List (List Nat) := L.concepts.map (·.intI)

end Fca.Dual

/-
  Fca.Model.ConstructFast — the construction models of `Fca/Model/Construct.lean` evaluated at a tabulated
  concept comparison.

  The generic models (`completeComparison`, `constructSpanningTree`, `bySpanningTree`) take the comparison
  `lt i j` (= `concepts[i] < concepts[j]`) as a parameter; the entry points `…C` instantiate it with `ltAt cs`,
  which walks the list to both indexes and compares the extents by `List.contains` — quadratic in the extent
  size for every single comparison.  `ltAtFast cs` answers the same question from two arrays built once (the
  supports and the extents packed into unbounded bit sets).  `Fca/Lemmas/ConstructFast.lean` proves
  `ltAtFast cs = ltAt cs` for EVERY list (no hypothesis), hence `…F = …C`; the driver runs the `…F` forms.
  Nothing about the modelled algorithms changes.  No Mathlib import.
-/
import Fca.Model.Construct
import Fca.Spec.CoversFast
namespace Fca.Construct
open Fca.Spec.Fast

/-- `concepts[i] < concepts[j]` from the tabulated supports `ls` and packed extents `ms`: equal supports → `False`,
    larger support → `False` (the shortcut of `__le__`), else inclusion -/
def ltTab (ms ls : Array Nat) (i j : Nat) : Bool :=
  let a := ls.getD i 0
  let b := ls.getD j 0
  if a == b then false else if a > b then false else subM (ms.getD i 0) (ms.getD j 0)

def lensOf (cs : List Ext) : Array Nat := (cs.map List.length).toArray

/-- the comparison of the list `cs` (the two tables are arguments of `ltTab`, so a partial application
    `ltTab ms ls` built once holds them; the entry points below bind them with `let` for that reason) -/
def ltAtFast (cs : List Ext) : Nat → Nat → Bool := ltTab (masksOf cs) (lensOf cs)

def completeComparisonF (cs : List Ext) (isSorted : Bool) (nJobs : Nat) (ord : List Nat → List Nat) :=
  let ms := masksOf cs
  let ls := lensOf cs
  completeComparison cs.length (ltTab ms ls) isSorted nJobs ord

def spanningTreeF (cs : List Ext) (isSorted : Bool) (ord : List Nat → List Nat) :=
  let ms := masksOf cs
  let ls := lensOf cs
  constructSpanningTree cs.length (ltTab ms ls) (sortView cs isSorted) ord (walkFuel cs)

def bySpanningTreeF (cs : List Ext) (isSorted : Bool) (nJobs : Nat) (ord : List Nat → List Nat)
    (sched : Nat → Nat → List Nat → List Nat) :=
  let ms := masksOf cs
  let ls := lensOf cs
  bySpanningTree cs.length (ltTab ms ls) (sortView cs isSorted) ord (walkFuel cs) nJobs sched

end Fca.Construct

/-
  Fca.Model.Poset — executable model of `fcapy.poset.POSet` (file `fcapy/poset/poset.py`) as it is on the
  tree now (after the `fix:` commits 45383fc, b14f783).

  Shape of the model
  * generic in the element type `α` (`DecidableEq`), the comparison `leq : α → α → Bool` (`leq_func`) and
    `ord : List Nat → List Nat`, the order in which Python iterates over a `set`/`frozenset` of indexes
    (`list(s)`, `for x in s`): unspecified in Python, hence an explicit parameter; the theorems quantify over it.
  * state `St = ⟨elems, useCache, leqC, descC, ancC, chilC, parC⟩`; the five `_cache_*` dictionaries are
    association lists (`alookup/ainsert/aerase`), sets of indexes are duplicate-free `List Nat`.
  * every method that may touch a cache is a state-passing function `M α β := St α → St α × Except PyErr β`
    (the state survives an exception, as in Python).
  * `descendants/ancestors`, `children/parents`, `bottoms/tops`, `meet/join`, the two `trace_element` directions
    and the two halves of `reconnect_relatives` / of the patching loop of `add` are textually symmetric in the
    Python; the model writes each of them once with a direction parameter `Dir` (`.desc` = the
    descendants/children side, `.anc` = the ancestors/parents side).
  * with `use_cache=False` the instance attributes `leq_elements, descendants, …` are the class's `_nocache`
    methods; with `use_cache=True` `__init__` rebinds them to the `_cache` variants, so the `_nocache` bodies
    call the *cached* accessors.  The model has one accessor per method that branches on `useCache`.
-/
import Fca.Model.Basic
namespace Fca.Poset
open Fca

/-! ### association lists (Python dicts) -/

def alookup {κ β : Type} [DecidableEq κ] (k : κ) : List (κ × β) → Option β
  | [] => none
  | (k', v) :: l => if k = k' then some v else alookup k l

/-- `d.pop(k, None)` / `del d[k]` -/
def aerase {κ β : Type} [DecidableEq κ] (k : κ) (l : List (κ × β)) : List (κ × β) :=
  l.filter fun p => p.1 ≠ k

/-- `d[k] = v` -/
def ainsert {κ β : Type} [DecidableEq κ] (k : κ) (v : β) (l : List (κ × β)) : List (κ × β) :=
  (k, v) :: aerase k l

/-- `list(d)`: the keys of a dict, each once -/
def dedupKeys {κ β : Type} [DecidableEq κ] : List (κ × β) → List κ
  | [] => []
  | p :: l => p.1 :: (dedupKeys l).filter (fun k => k ≠ p.1)

/-- `s | {x}` on duplicate-free lists -/
def setInsert (x : Nat) (l : List Nat) : List Nat := if x ∈ l then l else l ++ [x]

/-- `a | b` -/
def setUnion (a b : List Nat) : List Nat := a ++ b.filter (fun x => x ∉ a)

/-- `a - b` -/
def setDiff (a b : List Nat) : List Nat := a.filter (fun x => x ∉ b)

/-- `a & b` -/
def setInter (a b : List Nat) : List Nat := a.filter (fun x => x ∈ b)

/-! ### state and the state+exception monad -/

abbrev Cache := List (Nat × List Nat)

structure St (α : Type) where
  elems    : List α
  useCache : Bool
  leqC     : List ((Nat × Nat) × Bool)
  descC    : Cache
  ancC     : Cache
  chilC    : Cache
  parC     : Cache
  deriving Repr

/-- direction: `.desc` = descendants / children / bottoms / meet side, `.anc` = ancestors / parents / tops / join -/
inductive Dir where
  | desc | anc
  deriving DecidableEq, Repr

def Dir.flip : Dir → Dir
  | .desc => .anc
  | .anc => .desc

namespace St
variable {α : Type}
def closed (s : St α) : Dir → Cache
  | .desc => s.descC
  | .anc => s.ancC
def direct (s : St α) : Dir → Cache
  | .desc => s.chilC
  | .anc => s.parC
def setClosed (s : St α) (d : Dir) (c : Cache) : St α :=
  match d with
  | .desc => { s with descC := c }
  | .anc => { s with ancC := c }
def setDirect (s : St α) (d : Dir) (c : Cache) : St α :=
  match d with
  | .desc => { s with chilC := c }
  | .anc => { s with parC := c }
end St

/-- state-passing computation that may raise; the state is kept when it raises -/
def M (α β : Type) := St α → St α × Except PyErr β

namespace M
variable {α β γ : Type}
@[inline] def run (m : M α β) (s : St α) : St α × Except PyErr β := m s
@[inline] protected def pure (b : β) : M α β := fun s => (s, .ok b)
@[inline] protected def bind (m : M α β) (f : β → M α γ) : M α γ := fun s =>
  match m s with
  | (s', .ok b) => f b s'
  | (s', .error e) => (s', .error e)
instance : Monad (M α) where
  pure := M.pure
  bind := M.bind
@[inline] def throw (e : PyErr) : M α β := fun s => (s, .error e)
@[inline] def get : M α (St α) := fun s => (s, .ok s)
@[inline] def modify (f : St α → St α) : M α Unit := fun s => (f s, .ok ())
@[inline] def ofExcept : Except PyErr β → M α β
  | .ok b => M.pure b
  | .error e => throw e

/-- `[i for i in l if p(i)]` where `p` may touch the caches -/
def filterM (p : Nat → M α Bool) : List Nat → M α (List Nat)
  | [] => pure []
  | i :: is => do
    let b ← p i
    let r ← filterM p is
    pure (if b then i :: r else r)

/-- `for x in l: acc = f(acc, x)` -/
def foldM {β : Type} (f : β → Nat → M α β) : β → List Nat → M α β
  | acc, [] => pure acc
  | acc, x :: xs => do
    let acc' ← f acc x
    foldM f acc' xs

/-- `for x in l: f(x)` -/
def forM (f : Nat → M α Unit) : List Nat → M α Unit
  | [] => pure ()
  | x :: xs => do
    f x
    forM f xs
end M

section Model
variable {α : Type} [DecidableEq α] (leq : α → α → Bool) (ord : List Nat → List Nat)

/-! ### comparisons -/

/-- `_leq_elements_nocache`: `self._leq_func(self._elements[a], self._elements[b])` -/
def leqNocache (E : List α) (a b : Nat) : Except PyErr Bool :=
  match E[a]?, E[b]? with
  | some x, some y => .ok (leq x y)
  | _, _ => .error .IndexError

/-- `self.leq_elements(a, b)`: `_leq_elements_cache` when the cache is on (leq cache → descendants cache of `b`
    → ancestors cache of `a` → compute and store), `_leq_elements_nocache` otherwise -/
def leqE (a b : Nat) : M α Bool := fun s =>
  if s.useCache then
    match alookup (a, b) s.leqC with
    | some r => (s, .ok r)
    | none =>
      match alookup b s.descC with
      | some d => (s, .ok (a == b || d.contains a))
      | none =>
        match alookup a s.ancC with
        | some an => (s, .ok (a == b || an.contains b))
        | none =>
          match leqNocache leq s.elems a b with
          | .error e => (s, .error e)
          | .ok r => ({ s with leqC := ainsert (a, b) r s.leqC }, .ok r)
  else (s, leqNocache leq s.elems a b)

/-- the comparison the closed relation of direction `d` asks for: `i` strictly on the `d` side of `e` -/
def leqDir (d : Dir) (i e : Nat) : M α Bool :=
  match d with
  | .desc => leqE leq i e
  | .anc => leqE leq e i

/-! ### closed relations: descendants / ancestors -/

/-- `_descendants_nocache` / `_ancestors_nocache`:
    `{i for i in range(len(self)) if self.leq_elements(i, e) and i != e}` (resp. `(e, i)`) -/
def closedNocache (d : Dir) (e : Nat) : M α (List Nat) := do
  let s ← M.get
  M.filterM (fun i => do
    let r ← leqDir leq d i e
    pure (r && i != e)) (List.range s.elems.length)

/-- `self.descendants(e)` / `self.ancestors(e)` -/
def closedE (d : Dir) (e : Nat) : M α (List Nat) := do
  let s ← M.get
  if s.useCache then
    match alookup e (s.closed d) with
    | some r => pure r
    | none => do
      let r ← closedNocache leq d e
      M.modify fun s => s.setClosed d (ainsert e r (s.closed d))
      pure r
  else closedNocache leq d e

/-! ### direct relations: children / parents -/

/-- `_children_nocache` / `_parents_nocache`:
    `xs = self.descendants(e); for x in list(xs): if x in xs: xs -= self.descendants(x)` -/
def directNocache (d : Dir) (e : Nat) : M α (List Nat) := do
  let xs ← closedE leq d e
  M.foldM (fun acc x =>
    if x ∈ acc then do
      let a ← closedE leq d x
      pure (setDiff acc a)
    else pure acc) xs (ord xs)

/-- `self.children(e)` / `self.parents(e)` -/
def directE (d : Dir) (e : Nat) : M α (List Nat) := do
  let s ← M.get
  if s.useCache then
    match alookup e (s.direct d) with
    | some r => pure r
    | none => do
      let r ← directNocache leq ord d e
      M.modify fun s => s.setDirect d (ainsert e r (s.direct d))
      pure r
  else directNocache leq ord d e

/-! ### bottoms / tops, meet / join -/

/-- `bottoms` (`d = .desc`) / `tops` (`d = .anc`): `[i for i in range(len(self)) if len(self.descendants(i)) == 0]` -/
def extremesE (d : Dir) : M α (List Nat) := do
  let s ← M.get
  M.filterM (fun i => do
    let a ← closedE leq d i
    pure a.isEmpty) (List.range s.elems.length)

/-- `meet` (`d = .desc`) / `join` (`d = .anc`) -/
def boundE (d : Dir) (S : List Nat) : M α (Option Nat) := do
  let s ← M.get
  let S' := if S.isEmpty then List.range s.elems.length else S
  match S' with
  | [] => M.throw .IndexError                      -- `element_indexes[0]` on an empty list
  | x :: xs => do
    let a0 ← closedE leq d x
    let j0 := setInsert x a0
    let j1 ← M.foldM (fun acc y => do
      let a ← closedE leq d y
      pure (setInter acc (setInsert y a))) j0 xs
    let j2 ← M.foldM (fun acc y => do
      let a ← closedE leq d y
      pure (setDiff acc a)) j1 (ord j1)
    pure (if j2.length == 1 then j2.head? else none)

/-! ### index / membership -/

def indexOf? (e : α) : List α → Option Nat
  | [] => none
  | x :: xs => if e = x then some 0 else (indexOf? e xs).map (· + 1)

/-- `self.index(element)`: `self._elements_to_index_map[element]` -/
def indexE (e : α) : M α Nat := do
  let s ← M.get
  match indexOf? e s.elems with
  | some i => pure i
  | none => M.throw .KeyError

/-! ### `add` -/

/-- `compare_func(element, self._elements[i])` of `trace_element`:
    'up' (`d = .desc`): `leq(elements[i], element)`;  'down' (`d = .anc`): `leq(element, elements[i])` -/
def cmpElem (d : Dir) (e : α) (E : List α) (i : Nat) : Except PyErr Bool :=
  match E[i]? with
  | none => .error .IndexError
  | some x => .ok (match d with
    | .desc => leq x e
    | .anc => leq e x)

def filterCmp (d : Dir) (e : α) (E : List α) : List Nat → Except PyErr (List Nat)
  | [] => .ok []
  | i :: is =>
    match cmpElem leq d e E i with
    | .error err => .error err
    | .ok b =>
      match filterCmp d e E is with
      | .error err => .error err
      | .ok r => .ok (if b then i :: r else r)

/-- the `while len(elements_to_visit) > 0` loop of `_trace_elements_both_directions`;
    returns `(final_elements, traced_elements)` -/
def traceLoop (d : Dir) (e : α) : Nat → List Nat → List Nat → List Nat → M α (List Nat × List Nat)
  | 0, _, _, _ => M.throw .OutOfFuel
  | fuel + 1, toVisit, traced, final =>
    match toVisit with
    | [] => pure (final, traced)
    | el :: rest => do
      let traced := setInsert el traced
      let nx ← directE leq ord d.flip el
      let s ← M.get
      let nxt ← M.ofExcept (filterCmp leq d e s.elems nx)
      if nxt.isEmpty then
        traceLoop d e fuel rest traced (setInsert el final)
      else
        traceLoop d e fuel (rest ++ ord (setDiff (setDiff nxt traced) rest)) traced final

/-- `trace_element(element, 'up')` (`d = .desc`: start from the bottoms, climb through parents, returns
    (children, descendants) of the element) / `'down'` (`d = .anc`) -/
def traceElement (d : Dir) (e : α) : M α (List Nat × List Nat) := do
  let start ← extremesE leq d
  let s ← M.get
  let tv ← M.ofExcept (filterCmp leq d e s.elems start)
  traceLoop leq ord d e (s.elems.length + 1) tv [] []

def lookupOrKeyError (k : Nat) (c : Cache) : M α (List Nat) :=
  match alookup k c with
  | some v => pure v
  | none => M.throw .KeyError

/-- one half of the body of `for el_i in range(el_i_new)` in `add`, entered when `i ∈ closed d [n]` -/
def addPatchSide (d : Dir) (n i : Nat) : M α Unit := do
  let s ← M.get
  let cur ← lookupOrKeyError i (s.closed d.flip)
  M.modify fun s => s.setClosed d.flip (ainsert i (setUnion cur [n]) (s.closed d.flip))
  M.modify fun s => { s with leqC := ainsert (i, n) (d == .desc) s.leqC }
  M.modify fun s => { s with leqC := ainsert (n, i) (d == .anc) s.leqC }
  let s ← M.get
  let dirNew ← lookupOrKeyError n (s.direct d)
  if i ∈ dirNew then do
    let curDir ← lookupOrKeyError i (s.direct d.flip)
    let cloNew ← lookupOrKeyError n (s.closed d.flip)
    M.modify fun s => s.setDirect d.flip (ainsert i (setUnion [n] (setDiff curDir cloNew)) (s.direct d.flip))
  else pure ()

def addPatch (n i : Nat) : M α Unit := do
  let s ← M.get
  let dn ← lookupOrKeyError n s.descC
  if i ∈ dn then addPatchSide .desc n i
  else do
    let an ← lookupOrKeyError n s.ancC
    if i ∈ an then addPatchSide .anc n i
    else do
      M.modify fun s => { s with leqC := ainsert (i, n) false s.leqC }
      M.modify fun s => { s with leqC := ainsert (n, i) false s.leqC }

/-- `add(element, fill_up_cache)` -/
def addE (e : α) (fill : Bool) : M α Unit := do
  let s ← M.get
  if e ∈ s.elems then pure ()
  else do
    let n := s.elems.length
    if s.useCache then
      if fill then do
        M.modify fun s => { s with leqC := ainsert (n, n) true s.leqC }
        let (ch, de) ← traceElement leq ord .desc e
        M.modify fun s => { s with chilC := ainsert n ch s.chilC }
        M.modify fun s => { s with descC := ainsert n de s.descC }
        let (pa, an) ← traceElement leq ord .anc e
        M.modify fun s => { s with parC := ainsert n pa s.parC }
        M.modify fun s => { s with ancC := ainsert n an s.ancC }
        M.forM (addPatch n) (List.range n)
      else
        M.modify fun s => { s with descC := [], ancC := [], chilC := [], parC := [] }
    else pure ()
    M.modify fun s => { s with elems := s.elems ++ [e] }

/-! ### `__delitem__`, `remove` -/

def decrIdx (idx threshold : Nat) : Nat := if idx > threshold then idx - 1 else idx

/-- one of the two direct-relation loops of `reconnect_relatives`: `own` is the popped
    `children` (`d = .desc`) / `parents` (`d = .anc`) entry of `item` (or `None`) -/
def reconnectDirect (d : Dir) (item : Nat) (own : Option (List Nat)) : M α Unit := do
  let s ← M.get
  -- `[p for p, chs in self._cache_children.items() if item in chs]`
  let keys := (dedupKeys (s.direct d)).filter fun p =>
    match alookup p (s.direct d) with
    | some chs => decide (item ∈ chs)
    | none => false
  M.forM (fun p => do
    let s ← M.get
    let cur ← lookupOrKeyError p (s.direct d)
    match own with
    | none => M.modify fun s => s.setDirect d (aerase p (s.direct d))
    | some ch =>
      let nc := setDiff (setUnion cur ch) [item]
      if nc.all (fun c => (alookup c (s.closed d)).isSome) then do
        let nc' ← M.foldM (fun acc c => do
          let s ← M.get
          let dc ← lookupOrKeyError c (s.closed d)
          pure (setDiff acc dc)) nc (ord nc)
        M.modify fun s => s.setDirect d (ainsert p nc' (s.direct d))
      else
        M.modify fun s => s.setDirect d (aerase p (s.direct d))) keys

/-- `for ancestor in (ancestors or ()): if ancestor in descC: descC[ancestor] -= {item}` (and its mirror) -/
def reconnectClosed (d : Dir) (item : Nat) (own : Option (List Nat)) : M α Unit :=
  M.forM (fun a => do
    let s ← M.get
    match alookup a (s.closed d) with
    | none => pure ()
    | some v => M.modify fun s => s.setClosed d (ainsert a (setDiff v [item]) (s.closed d)))
    (ord (own.getD []))

def reconnectRelatives (item : Nat) : M α Unit := do
  let s ← M.get
  let anc := alookup item s.ancC
  M.modify fun s => { s with ancC := aerase item s.ancC }
  let desc := alookup item s.descC
  M.modify fun s => { s with descC := aerase item s.descC }
  let par := alookup item s.parC
  M.modify fun s => { s with parC := aerase item s.parC }
  let chi := alookup item s.chilC
  M.modify fun s => { s with chilC := aerase item s.chilC }
  reconnectDirect ord .desc item chi
  reconnectDirect ord .anc item par
  reconnectClosed ord .desc item anc
  reconnectClosed ord .anc item desc

/-- `decrement_dict` on an int-keyed, set-valued cache.  (The type sniffing on one popped item always finds
    `int` keys and set values here, so neither `ValueError` branch is reachable.) -/
def decrementCache (c : Cache) (k : Nat) : Cache :=
  c.filterMap fun p =>
    if p.1 = k then none
    else some (decrIdx p.1 k, (p.2.filter (fun i => i ≠ k)).map (fun i => decrIdx i k))

/-- `decrement_dict` on the leq cache (tuple keys, bool values) -/
def decrementLeq (c : List ((Nat × Nat) × Bool)) (k : Nat) : List ((Nat × Nat) × Bool) :=
  c.filterMap fun p =>
    if p.1.1 = k ∨ p.1.2 = k then none
    else some ((decrIdx p.1.1 k, decrIdx p.1.2 k), p.2)

/-- `__delitem__(key)` -/
def delE (k : Nat) : M α Unit := do
  let s ← M.get
  if k < s.elems.length then do
    M.modify fun s => { s with elems := s.elems.eraseIdx k }
    if s.useCache then do
      reconnectRelatives ord k
      M.modify fun s => { s with
        leqC := decrementLeq s.leqC k, descC := decrementCache s.descC k, ancC := decrementCache s.ancC k,
        chilC := decrementCache s.chilC k, parC := decrementCache s.parC k }
    else pure ()
  else M.throw .IndexError

/-- `remove(element)` -/
def removeE (e : α) : M α Unit := do
  let i ← indexE e
  delE ord i

/-! ### `__eq__` with another poset over `O` (same `leq_func`) -/

/-- the other poset's `descendants(j)`, computed directly (the other operand is a poset of its own) -/
def otherDesc (O : List α) (j : Nat) : List Nat :=
  (List.range O.length).filter fun i =>
    (match O[i]?, O[j]? with
      | some x, some y => leq x y
      | _, _ => false) && i != j

/-- `{other_i_self_i_map[j] for j in other.descendants(oi)}`: the other poset's answer in our indexes -/
def otherDescMapped (O E : List α) (oi : Nat) : List Nat :=
  (otherDesc leq O oi).filterMap fun j =>
    match O[j]? with
    | none => none
    | some x => indexOf? x E

def setEq (a b : List Nat) : Bool := a.all (fun x => x ∈ b) && b.all (fun x => x ∈ a)

def eqLoop (O : List α) : List Nat → M α Bool
  | [] => pure true
  | i :: is => do
    let s ← M.get
    let mine ← closedE leq .desc i
    match s.elems[i]? with
    | none => M.throw .IndexError
    | some el =>
      match indexOf? el O with
      | none => M.throw .KeyError
      | some oi =>
        if setEq mine (otherDescMapped leq O s.elems oi) then eqLoop O is else pure false

def eqE (O : List α) : M α Bool := do
  let s ← M.get
  if s.elems.all (fun x => x ∈ O) && O.all (fun x => x ∈ s.elems) then
    eqLoop leq O (List.range s.elems.length)
  else pure false

/-! ### `fill_up_*` -/

inductive FillKind where
  | leq | desc | anc | chil | par | all
  deriving DecidableEq, Repr

def fillLeq : M α Unit := do
  let s ← M.get
  let n := s.elems.length
  M.forM (fun i => M.forM (fun j => do
    let s ← M.get
    if (alookup (i, j) s.leqC).isSome then pure ()
    else do
      let _ ← leqE leq i j
      pure ()) (List.range n)) (List.range n)

def fillClosed (d : Dir) : M α Unit := do
  let s ← M.get
  M.forM (fun i => do
    let _ ← closedE leq d i
    pure ()) (List.range s.elems.length)

def fillDirect (d : Dir) : M α Unit := do
  let s ← M.get
  M.forM (fun i => do
    let _ ← directE leq ord d i
    pure ()) (List.range s.elems.length)

/-- every `fill_up_*` starts with `assert self._use_cache` -/
def fillE (k : FillKind) : M α Unit := do
  let s ← M.get
  if s.useCache then
    match k with
    | .leq => fillLeq leq
    | .desc => fillClosed leq .desc
    | .anc => fillClosed leq .anc
    | .chil => fillDirect leq ord .desc
    | .par => fillDirect leq ord .anc
    | .all => do
      fillLeq leq
      fillClosed leq .desc
      fillClosed leq .anc
      fillDirect leq ord .desc
      fillDirect leq ord .anc
  else M.throw .AssertionError

/-! ### operations and the step function -/

inductive Op (α : Type) where
  | leq (i j : Nat) | closed (d : Dir) (i : Nat) | direct (d : Dir) (i : Nat)
  | extremes (d : Dir) | bound (d : Dir) (S : List Nat) | index (e : α)
  | add (e : α) (fill : Bool) | del (i : Nat) | remove (e : α)
  | eqOther (O : List α) | fillUp (k : FillKind)
  deriving Repr

inductive Out where
  | bool (b : Bool) | set (l : List Nat) | list (l : List Nat) | optNat (o : Option Nat) | nat (n : Nat)
  | unit | err (e : PyErr)
  deriving DecidableEq, Repr

/-- canonical representative of a set of indexes: ascending -/
def sortSet (l : List Nat) : List Nat := l.mergeSort (fun a b => a ≤ b)

def outOf {β : Type} (f : β → Out) : Except PyErr β → Out
  | .ok b => f b
  | .error e => .err e

def step (s : St α) (op : Op α) : St α × Out :=
  match op with
  | .leq i j => let r := (leqE leq i j).run s; (r.1, outOf .bool r.2)
  | .closed d i => let r := (closedE leq d i).run s; (r.1, outOf (fun l => .set (sortSet l)) r.2)
  | .direct d i => let r := (directE leq ord d i).run s; (r.1, outOf (fun l => .set (sortSet l)) r.2)
  | .extremes d => let r := (extremesE leq d).run s; (r.1, outOf .list r.2)
  | .bound d S => let r := (boundE leq ord d S).run s; (r.1, outOf .optNat r.2)
  | .index e => let r := (indexE e).run s; (r.1, outOf .nat r.2)
  | .add e fill => let r := (addE leq ord e fill).run s; (r.1, outOf (fun _ => .unit) r.2)
  | .del i => let r := (delE ord i).run s; (r.1, outOf (fun _ => .unit) r.2)
  | .remove e => let r := (removeE ord e).run s; (r.1, outOf (fun _ => .unit) r.2)
  | .eqOther O => let r := (eqE leq O).run s; (r.1, outOf .bool r.2)
  | .fillUp k => let r := (fillE leq ord k).run s; (r.1, outOf (fun _ => .unit) r.2)

/-- run a history; returns the final state and the outputs -/
def run (s : St α) : List (Op α) → St α × List Out
  | [] => (s, [])
  | op :: ops =>
    let r := step leq ord s op
    let rest := run r.1 ops
    (rest.1, r.2 :: rest.2)

/-! ### construction -/

/-- `POSet(elements, leq, use_cache)` without `children_dict` -/
def init (E : List α) (useCache : Bool) : St α := ⟨E, useCache, [], [], [], [], []⟩

/-- `_transpose_hierarchy` -/
def transposeHierarchy (h : Cache) : Cache :=
  h.foldl (fun nd kv =>
    let nd := if (alookup kv.1 nd).isSome then nd else ainsert kv.1 [] nd
    kv.2.foldl (fun nd v => ainsert v (setUnion ((alookup v nd).getD []) [kv.1]) nd) nd) []

/-- position of the first element of `tv` all of whose direct relatives are visited -/
def findReady (direct : Cache) (visited : List Nat) : List Nat → Nat → Option Nat
  | [], _ => none
  | x :: xs, i =>
    match alookup x direct with
    | none => none   -- KeyError in Python; reported by the caller
    | some dr => if dr.all (fun y => y ∈ visited) then some i else findReady direct visited xs (i + 1)

/-- the `while` loop of `_closed_relation_cache_by_direct_cache`.  (When no element of the work list is ready
    Python uses an unbound or stale `idx`; that cannot happen for the children relation of a partial order and
    is reported as `KeyError` here.) -/
def closedByDirectLoop (direct trans : Cache) : Nat → List Nat → List Nat → Cache → Except PyErr Cache
  | 0, _, _, _ => .error .OutOfFuel
  | fuel + 1, toVisit, visited, closed =>
    match toVisit with
    | [] => .ok closed
    | _ =>
      match findReady direct visited toVisit 0 with
      | none => .error .KeyError
      | some idx =>
        match toVisit[idx]?, toVisit.eraseIdx idx with
        | none, _ => .error .IndexError
        | some el, rest =>
          match alookup el direct, alookup el trans with
          | some dr, some tr =>
            -- closed_cache[el] = direct_rels | ⋃ closed_cache[rel]
            match dr.foldl (fun acc r => match acc, alookup r closed with
                | some a, some c => some (setUnion a c)
                | _, _ => none) (some dr) with
            | none => .error .KeyError
            | some cl =>
              closedByDirectLoop direct trans fuel (rest ++ tr) (setInsert el visited) (ainsert el cl closed)
          | _, _ => .error .KeyError

def closedByDirect (fuel : Nat) (direct : Cache) : Except PyErr Cache :=
  let trans := transposeHierarchy direct
  let start := direct.filterMap fun kv => if kv.2.isEmpty then some kv.1 else none
  closedByDirectLoop direct trans fuel start [] []

/-- `POSet(elements, leq, use_cache=True, children_dict=cd)` -/
def initCD (fuel : Nat) (E : List α) (cd : Cache) : Except PyErr (St α) :=
  match closedByDirect fuel cd with
  | .error e => .error e
  | .ok dd =>
    let pd := transposeHierarchy cd
    let ad := transposeHierarchy dd
    let lq : List ((Nat × Nat) × Bool) :=
      if E.length < 10 then
        dd.foldl (fun acc kv =>
          (List.range E.length).foldl (fun acc i => ainsert (i, kv.1) (i == kv.1 || kv.2.contains i) acc) acc) []
      else []
    .ok ⟨E, true, lq, dd, ad, cd, pd⟩

end Model
end Fca.Poset

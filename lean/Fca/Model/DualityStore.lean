/-
  Fca.Model.DualityStore — several `FormalContext` objects living side by side (class H5 of
  tools/CLASSES.md: derived-object independence).

  The operations of property C06 return NEW context objects:

  * `FormalContext.T`        : `self.__class__(self.data.T.data, self.attribute_names, self.object_names, backend=…)`
  * `FormalContext.__invert__`: `self.__class__(~self.data, self.object_names, attrs_inv, …)`
  * `FormalContext.__getitem__`: `self.__class__(self.data[rows, cols], slice_list(names, rows), slice_list(names, cols), …)`

  Each result owns a new table object and new name tuples (tuples are immutable, so handing
  `self.object_names` to the constructor shares nothing that can change), and the only fields a context
  keeps are `_data`, `_object_names` (+ its index map), `_attribute_names` (+ its index map) — there is
  no memo of a derived object and no link from a derived object back to its source.  So a *store* of
  context objects is a list of values, the public setters

  * `K.object_names = ns`      (asserts `len(ns) == len(self._data)`)
  * `K.attribute_names = ns`   (asserts `len(ns) == self._data.shape[1]`)
  * `K.data.data = rows`       (the `data` setter of the table: `_transform_data`, `_validate_data`, then
                                `_data, _height, _width` are replaced; nothing is checked against the names)

  replace fields of ONE slot, and deriving appends a slot.  (Value semantics is exact for these setters.
  Writing single cells into the array handed out by `K.data.data` is outside the modelled API: on the numpy
  backend `K.T` keeps a transposed *view* of that array.)

  No Mathlib import (the driver is linked natively).
-/
import Fca.Model.Duality
namespace Fca.Dual
open Fca

/-- a mutation of one context object through its public setters -/
inductive Mut where
  /-- `K.object_names = ns` -/
  | objs (ns : List String)
  /-- `K.attribute_names = ns` -/
  | attrs (ns : List String)
  /-- `K.data.data = rows` (rectangular lists of `bool`; ragged rows raise a backend-specific error and are
      outside the modelled API) -/
  | data (rows : List Row)
  deriving Repr, Inhabited

/-- the three setters -/
def applyMut (K : Ctx) : Mut → Except PyErr Ctx
  | .objs ns =>
    if ns.length ≠ K.table.height then .error .AssertionError else .ok { K with objNames := ns }
  | .attrs ns =>
    if ns.length ≠ K.table.width then .error .AssertionError else .ok { K with attrNames := ns }
  | .data rows => .ok { K with table := mkTable rows }

/-- a sequence of setter calls on one object; the first failing assertion ends it -/
def applyMuts : Ctx → List Mut → Except PyErr Ctx
  | K, [] => .ok K
  | K, m :: ms =>
    match applyMut K m with
    | .error e => .error e
    | .ok K' => applyMuts K' ms

/-- how a new context object is obtained from an existing one -/
inductive Derive where
  /-- `K.T` -/
  | T
  /-- `~K` -/
  | not
  /-- `K[rows, cols]` with two index lists -/
  | get (rows cols : List Nat)
  deriving Repr, Inhabited

def derive (K : Ctx) : Derive → Except PyErr Ctx
  | .T => ctxT K
  | .not => ctxNot K
  | .get rows cols => ctxGet K rows cols

/-- one step of a history over a store of context objects -/
inductive HOp where
  /-- `slots.append(<derived from slots[src]>)` -/
  | derive (src : Nat) (d : Derive)
  /-- a setter call on `slots[i]` -/
  | set (i : Nat) (m : Mut)
  /-- `slots.append(FormalContext(...))`: a new, unrelated object -/
  | fresh (K : Ctx)
  deriving Repr, Inhabited

/-- (`IndexError` for a slot that does not exist is the harness's own list access, not FCApy's) -/
def stepStore (S : List Ctx) : HOp → Except PyErr (List Ctx)
  | .derive src d =>
    match S[src]? with
    | none => .error .IndexError
    | some K =>
      match derive K d with
      | .error e => .error e
      | .ok D => .ok (S ++ [D])
  | .set i m =>
    match S[i]? with
    | none => .error .IndexError
    | some K =>
      match applyMut K m with
      | .error e => .error e
      | .ok K' => .ok (S.set i K')
  | .fresh K => .ok (S ++ [K])

def runStore : List Ctx → List HOp → Except PyErr (List Ctx)
  | S, [] => .ok S
  | S, op :: ops =>
    match stepStore S op with
    | .error e => .error e
    | .ok S' => runStore S' ops

/-- the setter calls of a history that are addressed to slot `j` -/
def ownMuts (j : Nat) : List HOp → List Mut
  | [] => []
  | .set i m :: ops => if i = j then m :: ownMuts j ops else ownMuts j ops
  | _ :: ops => ownMuts j ops

/-! ### "last write wins": what an object holds after a sequence of setter calls -/

def lastOr {α} (d : α) (l : List α) : α := l.getLast?.getD d

def Mut.objs? : Mut → Option (List String)
  | .objs ns => some ns
  | _ => none
def Mut.attrs? : Mut → Option (List String)
  | .attrs ns => some ns
  | _ => none
def Mut.table? : Mut → Option Table
  | .data rows => some (mkTable rows)
  | _ => none

/-- the content after the calls, field by field: the value of the last assignment to the field,
    the original value if there was none -/
def finalCtx (K : Ctx) (muts : List Mut) : Ctx :=
  { backend := K.backend,
    table := lastOr K.table (muts.filterMap Mut.table?),
    objNames := lastOr K.objNames (muts.filterMap Mut.objs?),
    attrNames := lastOr K.attrNames (muts.filterMap Mut.attrs?) }

end Fca.Dual

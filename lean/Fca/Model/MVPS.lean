/-
  Fca.Model.MVPS — a minimal, self-contained model of the four shipped pattern structures
  (`fcapy/mvcontext/pattern_structure.py`), as far as `MVContext` uses them (property C14).

  * numbers are `Int`s on a grid (the correspondence check stays on integral floats);
  * `SetPS` values are duplicate-free `List Nat` (symbols numbered in their sorted order);
  * `IntervalNumpyPS` is run through the same model as `IntervalPS` (that the two engines agree is
    property C13; here the agreement is only exercised by the correspondence check).
  No Mathlib (the driver is linked natively).
-/
import Fca.Model.Basic
namespace Fca.MV

/-- one column of a many-valued context: the `_data` of its pattern structure -/
inductive Col where
  | interval (data : List (Int × Int))   -- IntervalPS / IntervalNumpyPS: `(left, right)` per object
  | set (data : List (List Nat))         -- SetPS: a set per object
  | attr (data : List Bool)              -- AttributePS: a flag per object
  deriving Repr, DecidableEq, Inhabited

/-- a description of one column -/
inductive DVal where
  | ival (d : Option (Int × Int))        -- `(min, max)` or `None`
  | sval (d : Option (List Nat))         -- a set or `None`
  | bval (b : Bool)                      -- `True` / `False` (= "anything")
  deriving Repr, DecidableEq, Inhabited

namespace Col

def len : Col → Nat
  | interval d => d.length
  | set d => d.length
  | attr d => d.length

/-! ### intention_i -/

/-- the running min/max loop of `IntervalPS.intention_i` over `object_indexes[1:]` -/
def ivLoop (data : List (Int × Int)) : List Nat → Int × Int → Int × Int
  | [], acc => acc
  | g :: gs, acc =>
    let v := data.getD g (0, 0)
    ivLoop data gs (if v.1 < acc.1 then v.1 else acc.1, if v.2 > acc.2 then v.2 else acc.2)

def ivIntention (data : List (Int × Int)) : List Nat → Option (Int × Int)
  | [] => none
  | g0 :: rest => some (ivLoop data rest (data.getD g0 (0, 0)))

/-- Python `a |= b` on sets kept as duplicate-free lists -/
def unionL (a b : List Nat) : List Nat := a ++ b.filter fun x => !a.contains x

/-- `intent = set(); for g_i in object_indexes: intent |= data[g_i]` -/
def setIntention (data : List (List Nat)) (objs : List Nat) : List Nat :=
  objs.foldl (fun acc g => unionL acc (data.getD g [])) []

/-- `AttributePS.intention_i`: `False` for the empty list (pinned by the test-suite) -/
def attrIntention (data : List Bool) (objs : List Nat) : Bool :=
  if objs.isEmpty then false else objs.all fun g => data.getD g false

def intentionI : Col → List Nat → DVal
  | interval d, objs => .ival (ivIntention d objs)
  | set d, objs => .sval (some (setIntention d objs))
  | attr d, objs => .bval (attrIntention d objs)

/-! ### extension_i (always called with an explicit base list by `MVContext`) -/

/-- `data[g] & description == data[g]` -/
def setLeq (row s : List Nat) : Bool := (row.filter fun x => s.contains x) == row

def ivIn (v : Int × Int) (lo hi : Int) : Bool := decide (lo ≤ v.1) && decide (v.2 ≤ hi)

/-- a description of the wrong shape for the column is outside the documented API; the model
    reports `TypeError` for it and no theorem maps that to an answer -/
def extensionI : Col → DVal → List Nat → Except PyErr (List Nat)
  | interval _, .ival none, _ => .ok []
  | interval d, .ival (some (lo, hi)), base => .ok (base.filter fun g => ivIn (d.getD g (0, 0)) lo hi)
  | set _, .sval none, _ => .ok []
  | set d, .sval (some s), base => .ok (base.filter fun g => setLeq (d.getD g []) s)
  | attr d, .bval b, base => .ok (if !b then base else base.filter fun g => d.getD g false)
  | _, _, _ => .error .TypeError

/-! ### to_bin_attr_extents / n_bin_attrs -/

/-- insertion sort (`sorted(..)` on a set: no ties) -/
def insertBy {α} (le : α → α → Bool) (x : α) : List α → List α
  | [] => [x]
  | y :: ys => if le x y then x :: y :: ys else y :: insertBy le x ys

def isort {α} (le : α → α → Bool) : List α → List α
  | [] => []
  | x :: xs => insertBy le x (isort le xs)

/-- `itertools.combinations(xs, k)` in its documented (position-lexicographic) order -/
def combs : List Nat → Nat → List (List Nat)
  | _, 0 => [[]]
  | [], _ + 1 => []
  | x :: xs, k + 1 => (combs xs k).map (x :: ·) ++ combs xs (k + 1)

/-- `uniq_vals = set(); for row in data: uniq_vals |= row` -/
def uniqVals (data : List (List Nat)) : List Nat := data.foldl unionL []

def setBinExtents (data : List (List Nat)) : List (List Bool) :=
  let uniq := isort (fun a b => decide (a ≤ b)) (uniqVals data)
  (List.range (uniq.length + 1)).reverse.flatMap fun k =>
    (combs uniq k).map fun comb => data.map fun row => setLeq row comb

def ivBinExtents (data : List (Int × Int)) : List (List Bool) :=
  let ul := (data.map (·.1)).eraseDups
  let ur := (data.map (·.2)).eraseDups
  [data.map fun _ => true]
    ++ (isort (fun a b => decide (a ≤ b)) ul).tail.map (fun lb => data.map fun v => decide (lb ≤ v.1))
    ++ (isort (fun a b => decide (b ≤ a)) ur).tail.map (fun rb => data.map fun v => decide (v.2 ≤ rb))
    ++ [data.map fun _ => false]

/-- the extents (one flag per object) of the binary attributes a column produces, in order -/
def binAttrExtents : Col → List (List Bool)
  | interval d => ivBinExtents d
  | set d => setBinExtents d
  | attr d => [d]

/-- the declared number of binary attributes (`n_bin_attrs` property of each structure) -/
def nBinAttrs : Col → Nat
  | interval d => (d.map (·.1)).eraseDups.length + (d.map (·.2)).eraseDups.length
  | set d => 2 ^ (uniqVals d).length
  | attr _ => 1

/-- the most specific description of the column's structure (what `intention_i([])` would be in a
    pattern structure whose empty-set description is the bottom): `None`, `∅`, `True` -/
def bottom : Col → DVal
  | interval _ => .ival none
  | set _ => .sval (some [])
  | attr _ => .bval true

end Col
end Fca.MV

/-
  Fca.Model.RFTree — the random-forest miner of `fcapy/algorithms/concept_construction.py` with the fitted
  trees INSIDE the model (property C15).

  Mirrors, in /repo:
    fcapy/algorithms/concept_construction.py
      `random_forest_concepts`             → `rfExtents`, `rfConceptsMV`
      `parse_decision_tree_to_extents`     → `SofiaApprox.treeExtents` of `pathMatrix` (distinct columns)
    fcapy/mvcontext/mvcontext.py            `to_numeric` (np.hstack of the per-structure blocks) → `toNumeric`
                                            `intention_i`, `extension_i` → `intentionI`, `extLoop`, `extensionI`
    fcapy/mvcontext/pattern_structure.py    `IntervalPS.to_numeric` (the two columns `_from`, `_to`),
                                            `IntervalPS.intention_i`, `IntervalPS.extension_i` → `intPS`, `extPS`
    fcapy/lattice/pattern_concept.py        `PatternConcept.from_objects(extent_i, K, is_extent=True)` → the pair
                                            `(extent, intentionI extent)`
    sklearn                                 `decision_path` of a fitted tree / forest → `pathRow`, `pathMatrix`:
      the fitted tree is DATA (the arrays `children_left`, `children_right`, `feature`, `threshold` — the structure
      `DL.Tree` of the C20 model is reused, and so is its per-sample descent `DL.pathFrom`, which is what sklearn's
      `decision_path` does: it walks every sample from the root, `X[i, feature] <= threshold → left, else right`,
      and records the visited nodes).  sklearn casts the data to float32 before the descent; the cast is the
      parameter `cast : Rat → Rat` (theorems need it only to be monotone on the values of the table).

  Numbers are exact rationals.  No Mathlib import (the driver is linked natively).
-/
import Fca.Model.DecisionLattice
import Fca.Model.SofiaApprox
namespace Fca.RF
open Fca Fca.DL Fca.SofiaApprox

/-! ### the many-valued context with interval columns -/

/-- a cell of an interval column: the tuple `(from, to)` (`IntervalPS._transform_data` turns a number `x`
    into `(x, x)`) -/
abbrev ICell := Rat × Rat

/-- `MVContext` data with interval columns: one list of cells per object -/
abbrev IRows := List (List ICell)

/-- `ps._data[g]` of column `c` -/
def icell (D : IRows) (g c : Nat) : ICell := (D.getD g []).getD c (0, 0)

/-- an interval description: `None` or the tuple `(min_, max_)` -/
abbrev IDescr := Option (Rat × Rat)

/-- the loop of `IntervalPS.intention_i` over `object_indexes[1:]` -/
def intStep (D : IRows) (c : Nat) (acc : Rat × Rat) (g : Nat) : Rat × Rat :=
  let v := icell D g c
  ((if v.1 < acc.1 then v.1 else acc.1), (if v.2 > acc.2 then v.2 else acc.2))

/-- `IntervalPS.intention_i(object_indexes)` of column `c`: `None` for no objects, else `(min of the left ends,
    max of the right ends)` -/
def intPS (D : IRows) (c : Nat) : List Nat → IDescr
  | [] => none
  | g :: gs => some (gs.foldl (intStep D c) (icell D g c))

/-- `MVContext.intention_i(object_indexes)`: `{ps_i: ps.intention_i(object_indexes)}` in column order
    (`k` = number of pattern structures) -/
def intentionI (D : IRows) (k : Nat) (A : List Nat) : List IDescr :=
  (List.range k).map fun c => intPS D c A

/-- the test of `IntervalPS.extension_i`: `min_ <= data[g][0] and data[g][1] <= max_`; `None` describes no object -/
def sat (D : IRows) (c : Nat) (d : IDescr) (g : Nat) : Bool :=
  match d with
  | none => false
  | some (lo, hi) => decide (lo ≤ (icell D g c).1) && decide ((icell D g c).2 ≤ hi)

/-- `IntervalPS.extension_i(description, base_objects_i)` of column `c` -/
def extPS (D : IRows) (c : Nat) (d : IDescr) (base : List Nat) : List Nat := base.filter (sat D c d)

/-- the loop of `MVContext.extension_i` over `descriptions_i.items()` (here: columns `c, c+1, …`) with its early
    `break` on an empty extent -/
def extLoop (D : IRows) : Nat → List IDescr → List Nat → List Nat
  | _, [], e => e
  | c, d :: rest, e =>
    let e' := extPS D c d e
    if e'.isEmpty then e' else extLoop D (c + 1) rest e'

/-- `MVContext.extension_i(descriptions_i)` (no base objects: all objects) -/
def extensionI (D : IRows) (descr : List IDescr) : List Nat := extLoop D 0 descr (List.range D.length)

/-- `extension_i(intention_i(A))` -/
def closure (D : IRows) (k : Nat) (A : List Nat) : List Nat := extensionI D (intentionI D k A)

/-- a genuine pattern concept of the context: `extension_i(d) = A` and `intention_i(A) = d` -/
def isPatternConcept (D : IRows) (k : Nat) (A : List Nat) (d : List IDescr) : Prop :=
  extensionI D d = A ∧ intentionI D k A = d

/-! ### `to_numeric` and sklearn's view of the data -/

/-- `MVContext.to_numeric()[0]`: `np.hstack` of the blocks of the pattern structures; the block of an interval
    column is its `_data`, i.e. the two numeric columns `<name>_from`, `<name>_to` -/
def toNumeric (D : IRows) : Rows := D.map fun row => row.flatMap fun c => [c.1, c.2]

/-- the matrix the tree sees: sklearn converts `X` to float32 (`cast`) before every descent -/
def castRows (cast : Rat → Rat) (X : Rows) : Rows := X.map fun row => row.map cast

/-- a cast given as a finite table `value ↦ float32(value)` (what the driver receives); a value missing from the
    table is left unchanged -/
def castOfList (tbl : List (Rat × Rat)) : Rat → Rat := fun v => (tbl.lookup v).getD v

/-- all numbers of the table -/
def values (D : IRows) : List Rat := D.flatMap fun row => row.flatMap fun c => [c.1, c.2]

/-- decidable hypothesis on the cast: it is monotone on the numbers of the table (rounding to float32 is) -/
def castMonoOn (cast : Rat → Rat) (D : IRows) : Bool :=
  (values D).all fun u => (values D).all fun v => !(decide (u ≤ v)) || decide (cast u ≤ cast v)

/-- a cheap sufficient condition for `castMonoOn (castOfList tbl) D` (`Fca.RF.castMonoOn_of_table`), evaluated by the
    driver: the table lists its keys in strictly increasing order with non-decreasing images, and every number of the
    context is a key -/
def monoTable : List (Rat × Rat) → Bool
  | [] => true
  | p :: rest => (rest.all fun q => decide (p.1 < q.1) && decide (p.2 ≤ q.2)) && monoTable rest

def castTableOK (tbl : List (Rat × Rat)) (D : IRows) : Bool :=
  monoTable tbl && (values D).all fun v => tbl.any fun p => p.1 == v

/-- every object has `k` cells -/
def rect (D : IRows) (k : Nat) : Bool := D.all fun row => row.length == k

/-- every cell is a point `(x, x)` (numeric data, as `random_forest_concepts` is used) -/
def pointValued (D : IRows) : Bool := D.all fun row => row.all fun c => c.1 == c.2

/-! ### `decision_path` -/

/-- the row of one sample in `tree.decision_path(X)`: 1 at the nodes of its root-to-leaf descent -/
def pathRow (t : Tree) (x : List Rat) : List Bool :=
  (List.range t.n).map fun j => (pathFrom t x t.n 0).contains j

/-- `decision_path` of a forest: the indicator blocks of the trees side by side (a single tree is the forest `[t]`) -/
def pathMatrix (ts : List Tree) (X : Rows) : List (List Bool) :=
  X.map fun x => ts.flatMap fun t => pathRow t x

/-- total number of nodes = number of columns of the path matrix -/
def nNodes (ts : List Tree) : Nat := (ts.map Tree.n).sum

/-- the nodes reachable from node `i` through the child arrays -/
def subtree (t : Tree) : Nat → Nat → List Nat
  | 0, i => [i]
  | fuel + 1, i =>
    match t.left[i]?, t.right[i]?, t.feature[i]?, t.threshold[i]? with
    | some l, some r, some _, some _ =>
      if l = -1 then [i] else i :: (subtree t fuel l.toNat ++ subtree t fuel r.toNat)
    | _, _, _, _ => [i]

/-- decidable shape hypothesis on the arrays: below every internal node the two child subtrees share no node
    (true of every sklearn tree: each node has one parent) -/
def treeOK (t : Tree) : Nat → Nat → Bool
  | 0, _ => true
  | fuel + 1, i =>
    match t.left[i]?, t.right[i]?, t.feature[i]?, t.threshold[i]? with
    | some l, some r, some _, some _ =>
      if l = -1 then true
      else ((subtree t fuel l.toNat).all fun y => !(subtree t fuel r.toNat).contains y)
        && treeOK t fuel l.toNat && treeOK t fuel r.toNat
    | _, _, _, _ => true

/-- the shape hypothesis for all trees of the forest -/
def forestOK (ts : List Tree) : Bool := ts.all fun t => treeOK t t.n 0

/-! ### what a node extent MEANS: the tests on the root-to-node path -/

/-- the tests on the way from node `i` down to node `j`, as `(feature, threshold, goes left)`; `none` when `j` is
    not below `i` -/
def testsTo (t : Tree) (j : Nat) : Nat → Nat → Option (List (Nat × Rat × Bool))
  | 0, i => if i = j then some [] else none
  | fuel + 1, i =>
    if i = j then some []
    else
      match t.left[i]?, t.right[i]?, t.feature[i]?, t.threshold[i]? with
      | some l, some r, some f, some thr =>
        if l = -1 then none
        else
          match testsTo t j fuel l.toNat with
          | some ts => some ((f.toNat, thr, true) :: ts)
          | none =>
            match testsTo t j fuel r.toNat with
            | some ts => some ((f.toNat, thr, false) :: ts)
            | none => none
      | _, _, _, _ => none

/-- row `x` passes every test: `x[f] <= thr` where the path goes left, `x[f] > thr` where it goes right -/
def passes (x : List Rat) (ts : List (Nat × Rat × Bool)) : Bool :=
  ts.all fun p => decide (x.getD p.1 0 ≤ p.2.1) == p.2.2

/-! ### `random_forest_concepts` -/

/-- `extents_i = parse_decision_tree_to_extents(rf, X)` followed by
    `extents_i.append(context.extension_i(context.intention_i([])))`; extents as ascending index lists
    (`intPS` does not depend on the order: `Fca.RF.intPS_perm`) -/
def rfExtents (D : IRows) (k : Nat) (cast : Rat → Rat) (ts : List Tree) : List (List Nat) :=
  let X := castRows cast (toNumeric D)
  treeExtents (pathMatrix ts X) (nNodes ts) ++ [extensionI D (intentionI D k [])]

/-- `[PatternConcept.from_objects(extent_i, context, is_extent=True) for extent_i in extents_i]` -/
def rfConceptsMV (D : IRows) (k : Nat) (cast : Rat → Rat) (ts : List Tree) : List (List Nat × List IDescr) :=
  (rfExtents D k cast ts).map fun A => (A, intentionI D k A)

/-! ### the same miner fed with a `FormalContext` (outside the property: the docstring asks for an `MVContext`) -/

/-- `FormalContext.to_numeric()[0]`: the Boolean table (sklearn reads `True` / `False` as 1 / 0) -/
def boolNumeric (t : Table) : Rows :=
  (List.range t.height).map fun g => (List.range t.width).map fun a => if t.get g a then 1 else 0

/-- `random_forest_concepts(K)` for a `FormalContext` `K`: node extents of the forest fitted on the 0/1 table, then
    `K.extension_i(K.intention_i([]))`, each turned into `FormalConcept.from_objects(extent_i, K, is_extent=True)` -/
def rfConceptsFormal (K : Ctx) (ts : List Tree) : List (List Nat × List Nat) :=
  rfConcepts K (pathMatrix ts (boolNumeric K.table)) (nNodes ts)

end Fca.RF

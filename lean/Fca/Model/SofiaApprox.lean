/-
  Fca.Model.SofiaApprox — the approximate miners of
  `fcapy/algorithms/concept_construction.py`:

  * `sofia` (both `stability_lbounds` variants), written the way the Python is written:
    extents are bit masks (`fbarray`), the projection loop runs over the binary attribute
    extents, `sorted(set(..) | new, key=count)` with the set-iteration order as a PARAMETER
    (`tie`), the support filter that keeps the first element, the pruning step
    `thold = sorted(measures)[::-1][L_max]`, final `from_objects(extent.search(True), K, is_extent=True)`;
  * `parse_decision_tree_to_extents` as "distinct columns of the 0/1 decision-path matrix"
    (the sparse numeric trick of `utils.sparse_unique_columns` is trusted);
  * `random_forest_concepts` from a given decision-path matrix (sklearn is data to the model).

  No Mathlib import (the driver is linked natively).  `sorted` is modelled by a stable insertion
  sort (`isort`; structural, so closed instances reduce in the kernel).
-/
import Fca.Model.Context
namespace Fca.SofiaApprox
open Fca

/-- an extent as a bit mask over the objects (`frozenbitarray` of length `n_objects`) -/
abbrev Mask := List Bool

/-- `extent.count()` -/
def count (e : Mask) : Nat := (e.filter id).length

/-- `a & b` on bit masks -/
def band (a b : Mask) : Mask := List.zipWith (· && ·) a b

/-- `~a` on bit masks -/
def bnot (a : Mask) : Mask := a.map (!·)

/-- `self.data[:, j]` turned into an `fbarray`: the extent of binary attribute `j`
    (`FormalContext.to_bin_attr_extents`; for an `MVContext` the table is the one whose columns are
    the extents yielded by the pattern structures' `to_bin_attr_extents`). -/
def attrExtent (t : Table) (j : Nat) : Mask := (List.range t.height).map fun g => t.get g j

/-- the `min_supp` argument as an exact non-negative rational `p / q` (an `int` count is `p / 1`) -/
structure MinSupp where
  p : Nat
  q : Nat
  deriving Repr, DecidableEq, Inhabited

/-- numerator (over `q`) of `min_supp * len(K) if min_supp < 1 else min_supp` -/
def MinSupp.thrNum (ms : MinSupp) (n : Nat) : Nat := if ms.p < ms.q then ms.p * n else ms.p

/-- `c < min_supp` for the converted threshold (exact: `c < thrNum / q ⇔ c * q < thrNum`) -/
def MinSupp.below (ms : MinSupp) (n : Nat) (c : Nat) : Bool := decide (c * ms.q < ms.thrNum n)

/-- the order in which Python iterates over the set `set(extents_proj) | new_extents` at projection
    `proj_i`; unspecified, hence a parameter.  Theorems assume only that it permutes its argument. -/
abbrev Tie := Nat → List Mask → List Mask

/-- insert `x` before the first element `y` with `le x y` -/
def insertKey {α} (le : α → α → Bool) (x : α) : List α → List α
  | [] => [x]
  | y :: ys => if le x y then x :: y :: ys else y :: insertKey le x ys

/-- Python's `sorted`: stable (an element stays before the later elements it is `le` to) -/
def isort {α} (le : α → α → Bool) : List α → List α
  | [] => []
  | x :: xs => insertKey le x (isort le xs)

/-- `sorted(xs, key=lambda extent: extent.count())` (stable) -/
def sortByCount (xs : List Mask) : List Mask := isort (fun a b => decide (count a ≤ count b)) xs

/-- `extents_proj[:1] + [extent for extent in extents_proj[1:] if extent.count() >= min_supp]` -/
def supportFilter (ms : MinSupp) (n : Nat) : List Mask → List Mask
  | [] => []
  | x :: xs => x :: xs.filter fun e => !(ms.below n (count e))

/-! ### the two `stability_lbounds` -/

/-- `potent_child & extent == potent_child` -/
def isSub (c e : Mask) : Bool := band c e == c

/-- `extents[i-1::-1]` — for `i = 0` Python's slice `[-1::-1]` is the WHOLE list reversed -/
def predsRev (exts : List Mask) (i : Nat) : List Mask :=
  if i = 0 then exts.reverse else (exts.take i).reverse

/-- `use_log_stability_bound=True`: Δ to the nearest preceding extent contained in the extent -/
def boundLog (exts : List Mask) : List Int :=
  exts.zipIdx.map fun (e, i) =>
    match (predsRev exts i).find? (fun c => isSub c e) with
    | some c => (count e : Int) - (count c : Int)
    | none => (count e : Int)

/-- strict inclusion of masks -/
def isSSub (c e : Mask) : Bool := isSub c e && c != e

/-- `inverse_order(sort_intents_inclusion(extents))[i]` by its SPECIFICATION: the indexes of the lower
    covers of `extents[i]` in the inclusion order of the listed masks (caspailleur is trusted to compute
    the cover relation; on families that are not closed under intersection it may not — the property
    theorems therefore hold for EVERY measure function, see `sofiaWith`). -/
def children (exts : List Mask) (i : Nat) : List Nat :=
  let ei := exts.getD i []
  (List.range exts.length).filter fun j =>
    let ej := exts.getD j []
    isSSub ej ei && !(exts.any fun ek => isSSub ej ek && isSSub ek ei)

/-- `use_log_stability_bound=False`: `1 - Σ_{children} 2^{-|extent \ child|}` (or `1 - 2^{-|extent|}`
    when there is no child), represented EXACTLY as the integer `2^n · value` (dyadic with the common
    denominator `2^n`, `n` = number of objects ≥ every Δ). -/
def boundStab (n : Nat) (exts : List Mask) : List Int :=
  exts.zipIdx.map fun (e, i) =>
    let ch := children exts i
    let deltas := if ch.isEmpty then [count e]
                  else ch.map fun c => count (band e (bnot (exts.getD c [])))
    (2 ^ n : Int) - (deltas.map fun v => (2 ^ (n - v) : Int)).sum

/-- a stability bound: list of extents ↦ list of measure values -/
abbrev Measure := List Mask → List Int

def measureOf (useLog : Bool) (n : Nat) : Measure := if useLog then boundLog else boundStab n

/-! ### pruning -/

/-- `[extent for extent_i, (extent, measure) in enumerate(zip(extents, measures))
      if measure > thold or extent_i in {0, len(extents)-1}]` as the explicit loop -/
def pruneGo (thold : Int) (last : Nat) : Nat → List Mask → List Int → List Mask
  | _, [], _ => []
  | _, _, [] => []
  | i, e :: es, m :: ms =>
    if decide (m > thold) || i == 0 || i == last then e :: pruneGo thold last (i + 1) es ms
    else pruneGo thold last (i + 1) es ms

/-- `thold = sorted(measure_values)[::-1][L_max]` (IndexError when there are too few values) and the
    filter above -/
def prune (lmax : Nat) (exts : List Mask) (meas : List Int) : Except PyErr (List Mask) :=
  let desc := (isort (fun a b => decide (a ≤ b)) meas).reverse
  match desc[lmax]? with
  | none => .error .IndexError
  | some thold => .ok (pruneGo thold (exts.length - 1) 0 exts meas)

/-! ### the projection loop -/

/-- the loop body up to (excluding) the `if len(extents_proj) > L_max` block -/
def stepPre (tie : Tie) (ms : MinSupp) (n : Nat) (projI : Nat) (exts : List Mask) (a : Mask) : List Mask :=
  let new := exts.map fun e => band e a                 -- {extent & attr_extent_ba for extent in extents_proj}
  let u := sortByCount (tie projI (exts ++ new).eraseDups)  -- sorted(set(extents_proj) | new_extents, key=count)
  supportFilter ms n u

/-- `attr_extent_ba.all()` or `attr_extent_ba.count() < min_supp`: the projection is skipped -/
def skips (ms : MinSupp) (n : Nat) (a : Mask) : Bool := pyAll a || ms.below n (count a)

def step (tie : Tie) (meas : Measure) (ms : MinSupp) (n lmax : Nat) (projI : Nat) (exts : List Mask)
    (a : Mask) : Except PyErr (List Mask) :=
  if pyAll a then .ok exts
  else if ms.below n (count a) then .ok exts
  else
    let u := stepPre tie ms n projI exts a
    if u.length > lmax then prune lmax u (meas u) else .ok u

/-- `for proj_i, (_, attr_extent_ba) in enumerate(K.to_bin_attr_extents())` over the attribute indexes -/
def loop (tie : Tie) (meas : Measure) (ms : MinSupp) (lmax : Nat) (t : Table) :
    List Mask → List Nat → Except PyErr (List Mask)
  | exts, [] => .ok exts
  | exts, j :: rest =>
    match step tie meas ms t.height lmax j exts (attrExtent t j) with
    | .error e => .error e
    | .ok exts' => loop tie meas ms lmax t exts' rest

/-- the final `extents_proj` of `sofia` (as masks), for an arbitrary measure function -/
def sofiaMasks (tie : Tie) (meas : Measure) (ms : MinSupp) (lmax : Nat) (t : Table) :
    Except PyErr (List Mask) :=
  loop tie meas ms lmax t [List.replicate t.height true] (List.range t.width)

/-- `[concept_cls.from_objects(extent.search(True), K, is_extent=True) for extent in extents_proj]`:
    the pair (extent indexes, `K.intention_i(extent)`) -/
def conceptOf (K : Ctx) (e : Mask) : List Nat × List Nat :=
  let objs := search1 e
  (objs, K.intentionI objs none)

/-- `sofia` for an arbitrary measure function -/
def sofiaWith (tie : Tie) (meas : Measure) (ms : MinSupp) (lmax : Nat) (K : Ctx) :
    Except PyErr (List (List Nat × List Nat)) :=
  match sofiaMasks tie meas ms lmax K.table with
  | .error e => .error e
  | .ok es => .ok (es.map (conceptOf K))

/-- `sofia(K, L_max, min_supp, use_log_stability_bound)` -/
def sofia (tie : Tie) (useLog : Bool) (ms : MinSupp) (lmax : Nat) (K : Ctx) :
    Except PyErr (List (List Nat × List Nat)) :=
  sofiaWith tie (measureOf useLog K.table.height) ms lmax K

/-- did the `len(extents_proj) > L_max` block ever run?  (`true` = the limit never bound) -/
def neverBindsLoop (tie : Tie) (ms : MinSupp) (lmax : Nat) (t : Table) : List Mask → List Nat → Bool
  | _, [] => true
  | exts, j :: rest =>
    let a := attrExtent t j
    if skips ms t.height a then neverBindsLoop tie ms lmax t exts rest
    else
      let u := stepPre tie ms t.height j exts a
      decide (u.length ≤ lmax) && neverBindsLoop tie ms lmax t u rest

def neverBinds (tie : Tie) (ms : MinSupp) (lmax : Nat) (t : Table) : Bool :=
  neverBindsLoop tie ms lmax t [List.replicate t.height true] (List.range t.width)

/-! ### decision trees / random forests -/

/-- rows of the 0/1 decision-path matrix `M` (samples × nodes) having a 1 in column `j`:
    the training rows reaching node `j` -/
def colSupport (M : List (List Bool)) (j : Nat) : List Nat :=
  (List.range M.length).filter fun i => (M.getD i []).getD j false

/-- `parse_decision_tree_to_extents`: the distinct columns of the path matrix, as row-index tuples -/
def treeExtents (M : List (List Bool)) (w : Nat) : List (List Nat) :=
  ((List.range w).map (colSupport M)).eraseDups

/-- `random_forest_concepts` after fitting: node extents, then
    `extents_i.append(context.extension_i(context.intention_i([])))`, each turned into
    `from_objects(extent_i, context, is_extent=True)` -/
def rfConcepts (K : Ctx) (M : List (List Bool)) (w : Nat) : List (List Nat × List Nat) :=
  let extentsI := treeExtents M w ++ [K.extensionI (K.intentionI [] none) none]
  extentsI.map fun A => (A, K.intentionI A none)

end Fca.SofiaApprox

/-
  Fca.Model.Layout — executable model of `fcapy/visualizer/line_layouts.py`
  (`calc_levels`, `fcart_layout`) plus the decidable layout checker `holdsLayout`
  that judges *implementation* coordinates (both `fcart` and `multipartite`).

  Coordinates are exact rationals (core `Rat`); no `Float`, no Mathlib.
  The poset is seen through exactly the interface the Python uses:
  `poset.parents_dict` / `poset.parents(i)`, `poset.children(i)`, `poset.tops`, `len(poset)`.
-/
namespace Fca.Layout

/-- exception classes the visualizer models can raise -/
inductive VErr where
  | ValueError | KeyError | IndexError | AssertionError | ZeroDivisionError
  | DifferentHierarchyLevelsError | UnknownDirectionError | OutOfFuel
  deriving DecidableEq, Repr, Inhabited

def VErr.name : VErr → String
  | .ValueError => "ValueError" | .KeyError => "KeyError" | .IndexError => "IndexError"
  | .AssertionError => "AssertionError" | .ZeroDivisionError => "ZeroDivisionError"
  | .DifferentHierarchyLevelsError => "DifferentHierarchyLevelsError"
  | .UnknownDirectionError => "UnknownDirectionError" | .OutOfFuel => "OutOfFuel"

/-- What the layouts read from a `POSet`: `parents[i]` = upper covers of `i`,
    `children[i]` = lower covers of `i` (any listing order: Python iterates frozensets),
    `tops` = `poset.tops` in the order `list(set(tops))` produced. -/
structure PosetData where
  parents  : List (List Nat)
  children : List (List Nat)
  tops     : List Nat
  deriving Repr, Inhabited

namespace PosetData
def n (P : PosetData) : Nat := P.parents.length
def par (P : PosetData) (i : Nat) : List Nat := P.parents.getD i []
def chi (P : PosetData) (i : Nat) : List Nat := P.children.getD i []
end PosetData

/-- Python `max(xs)` (`none` = `ValueError` on the empty list) -/
def maxL : List Int → Option Int
  | [] => none
  | x :: xs =>
    match maxL xs with
    | none => some x
    | some m => some (if x ≤ m then m else x)

/-- `levels[i]` of the work list (`-1` = not placed yet) -/
def lvAt (lv : List Int) (i : Nat) : Int := lv.getD i (-1)

/-- the value `calc_levels` assigns to the popped node -/
def newLevel (P : PosetData) (lv : List Int) (q : Nat) : Option Int :=
  if q ∈ P.tops then some 0
  else (maxL ((P.par q).map (lvAt lv))).map (· + 1)

/-- children appended to the FIFO after `q` was placed -/
def toVisit (P : PosetData) (lv : List Int) (q : Nat) : List Nat :=
  (P.chi q).filter fun c => lvAt lv c == -1 && (P.par c).all fun p => decide (0 ≤ lvAt lv p)

/-- the `while len(nodes_to_visit) > 0` loop (one unit of fuel per `pop(0)`) -/
def levelsLoop (P : PosetData) : Nat → List Nat → List Int → Except VErr (List Int)
  | _, [], lv => .ok lv
  | 0, _ :: _, _ => .error .OutOfFuel
  | fuel + 1, q :: rest, lv =>
    match newLevel P lv q with
    | none => .error .ValueError
    | some v =>
      let lv' := lv.set q v
      levelsLoop P fuel (rest ++ toVisit P lv' q) lv'

/-- `levels_dict`: level ↦ elements of that level in index order -/
def levelsDict (lv : List Nat) : List (List Nat) :=
  (List.range (lv.foldl max 0 + 1)).map fun l => (List.range lv.length).filter fun i => lv.getD i 0 == l

/-- `calc_levels(poset)`.  `max([])` on the empty poset is a `ValueError`; a node that was never
    placed keeps `-1` and `levels_dict[-1]` is a `KeyError`. -/
def calcLevels (P : PosetData) (fuel : Nat) : Except VErr (List Nat × List (List Nat)) :=
  match levelsLoop P fuel P.tops (List.replicate P.n (-1)) with
  | .error e => .error e
  | .ok lv =>
    if P.n = 0 then .error .ValueError
    else if lv.any (· < 0) then .error .KeyError
    else
      let l := lv.map Int.toNat
      .ok (l, levelsDict l)

/-- enough fuel for every input on which each node is queued at most once per parent -/
def defaultFuel (P : PosetData) : Nat := P.n * P.n + P.n + 1

/-! ### fcart -/

/-- lexicographic `(priority, elem) <= (priority', elem')` — Python tuple comparison -/
def pairLe (a b : Rat × Nat) : Bool := decide (a.1 < b.1) || (a.1 == b.1 && decide (a.2 ≤ b.2))

def insertPair (a : Rat × Nat) : List (Rat × Nat) → List (Rat × Nat)
  | [] => [a]
  | b :: bs => if pairLe a b then a :: b :: bs else b :: insertPair a bs

/-- `sorted(zip(priority, elems))` -/
def sortPairs : List (Rat × Nat) → List (Rat × Nat)
  | [] => []
  | a :: as => insertPair a (sortPairs as)

/-- one summand of `mp` -/
def prioTerm (c : Rat) (dpth : Int) (cl : List Nat) (ld : List (List Nat)) (idOn : List Nat)
    (elem par : Nat) : Rat :=
  let d : Int := (cl.getD elem 0 : Int) - (cl.getD par 0 : Int)
  if d ≤ dpth then
    c ^ (d - 1).toNat * (idOn.getD par 0 : Rat) / ((ld.getD (cl.getD par 0) []).length : Rat)
  else 0

/-- `mp / len(poset.parents(elem))` (`ZeroDivisionError` when an element below level 0 has no parent) -/
def priority (P : PosetData) (c : Rat) (dpth : Int) (cl : List Nat) (ld : List (List Nat))
    (idOn : List Nat) (elem : Nat) : Except VErr Rat :=
  let pars := P.par elem
  let mp := pars.foldl (fun acc p => acc + prioTerm c dpth cl ld idOn elem p) 0
  if pars.length = 0 then .error .ZeroDivisionError else .ok (mp / (pars.length : Rat))

/-- `for i, elem in enumerate(elems): id_on_lvl[elem] = i` -/
def assignIds : List Nat → Nat → List Nat → List Nat
  | [], _, idOn => idOn
  | e :: es, i, idOn => assignIds es (i + 1) (idOn.set e i)

/-- body of `for lvl, elems in levels_dict.items()` -/
def fcartLevel (P : PosetData) (c : Rat) (dpth : Int) (cl : List Nat) (ld : List (List Nat))
    (idOn : List Nat) (lvl : Nat) (elems : List Nat) : Except VErr (List Nat) :=
  if lvl ≠ 0 then
    match elems.mapM (priority P c dpth cl ld idOn) with
    | .error e => .error e
    | .ok prios => .ok (assignIds ((sortPairs (prios.zip elems)).map (·.2)) 0 idOn)
  else .ok (assignIds elems 0 idOn)

def fcartLevels (P : PosetData) (c : Rat) (dpth : Int) (cl : List Nat) (ld : List (List Nat)) :
    List (List Nat) → Nat → List Nat → Except VErr (List Nat)
  | [], _, idOn => .ok idOn
  | elems :: rest, lvl, idOn =>
    match fcartLevel P c dpth cl ld idOn lvl elems with
    | .error e => .error e
    | .ok idOn' => fcartLevels P c dpth cl ld rest (lvl + 1) idOn'

def fcartX (cl : List Nat) (ld : List (List Nat)) (idOn : List Nat) (i : Nat) : Rat :=
  2 * ((idOn.getD i 0 : Rat) + 1) / (((ld.getD (cl.getD i 0) []).length : Rat) + 1) - 1

def fcartY (cl : List Nat) (ld : List (List Nat)) (i : Nat) : Rat :=
  -2 * (cl.getD i 0 : Rat) / (ld.length : Rat) + 1

/-- `fcart_layout(poset, c, dpth)`: position `i` of the result is `pos[i] = [x, y]` -/
def fcartLayout (P : PosetData) (fuel : Nat) (c : Rat) (dpth : Int) : Except VErr (List (Rat × Rat)) :=
  match calcLevels P fuel with
  | .error e => .error e
  | .ok (cl, ld) =>
    match fcartLevels P c dpth cl ld ld 0 (List.replicate P.n 0) with
    | .error e => .error e
    | .ok idOn => .ok ((List.range cl.length).map fun i => (fcartX cl ld idOn i, fcartY cl ld i))

/-! ### the decidable layout checker (judges implementation output) -/

/-- the local equation of levels: tops are on level 0, every other element is one below its lowest parent -/
def goodLevel (parents : List (List Nat)) (lv : List Nat) (i : Nat) : Bool :=
  match parents.getD i [] with
  | [] => lv.getD i 0 == 0
  | p :: ps => (p :: ps).any (fun q => lv.getD q 0 + 1 == lv.getD i 0)
               && (p :: ps).all (fun q => decide (lv.getD q 0 + 1 ≤ lv.getD i 0))

def yOf (pos : List (Rat × Rat)) (i : Nat) : Rat := (pos.getD i (0, 0)).2

/-- pairwise distinct -/
def distinctB : List (Rat × Rat) → Bool
  | [] => true
  | p :: ps => !ps.contains p && distinctB ps

/-- `holdsLayout parents levels pos`: every element has a position, positions are pairwise
    distinct, every element is strictly below each of its parents (hence, by transitivity, each
    ancestor), and the levels satisfy the longest-chain recursion. -/
def holdsLayout (parents : List (List Nat)) (lv : List Nat) (pos : List (Rat × Rat)) : Bool :=
  pos.length == parents.length && lv.length == parents.length
  && distinctB pos
  && (List.range parents.length).all (fun i =>
        (parents.getD i []).all fun p => decide (p < parents.length) && decide (yOf pos i < yOf pos p))
  && (List.range parents.length).all (goodLevel parents lv)

end Fca.Layout

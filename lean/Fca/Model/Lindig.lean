/-
  Fca.Model.Lindig — `lindig_algorithm` of `fcapy/algorithms/concept_construction.py`.

  Python iterates two `set`s in unspecified order: `for g in set(reps)` (a snapshot of `reps`) and
  `queue.pop()`.  Both orders are parameters:
    `ord  : List Nat → List Nat`  — the order in which the snapshot of `reps` (given ascending) is visited;
    `pick : List Nat → Nat`       — which concept id `queue.pop()` returns (ids listed in insertion order;
                                     a value that is not in the queue falls back to the first id).
  With `iterate_extents = False` the algorithm runs with the roles of objects and attributes swapped
  (`intention_i, extension_i = extension_i, intention_i`, …) and swaps every concept back at the end.
-/
import Fca.Model.CbO
namespace Fca

/-- `sorted(xs)` on indexes -/
def sortIdx (xs : List Nat) : List Nat := xs.mergeSort (fun a b => decide (a ≤ b))

/-- loop state of `lindig_algorithm`; a concept is `(G, M)` in the roles of the run.
    `index[c]` is the position of `c` in `concepts` (ids are handed out as `len(concepts)`). -/
structure LindigSt where
  concepts     : List (List Nat × List Nat)
  queue        : List Nat
  childrenDict : List (Nat × List Nat)
  parentsDict  : List (Nat × List Nat)
  deriving Repr

/-- `index` lookup: `FormalConcept.__hash__/__eq__` identify concepts by `tuple(sorted(extent_i))` -/
def lindigIndex (concepts : List (List Nat × List Nat)) (G : List Nat) : Option Nat :=
  let k := sortIdx G
  let i := concepts.findIdx fun c => sortIdx c.1 == k
  if i < concepts.length then some i else none

/-- `d.setdefault(k, []).append(v)` on an association list (insertion order of keys kept) -/
def dictAppend (d : List (Nat × List Nat)) (k v : Nat) : List (Nat × List Nat) :=
  if d.any (fun p => p.1 == k) then d.map fun p => if p.1 == k then (p.1, p.2 ++ [v]) else p
  else d ++ [(k, [v])]

/-- `d[k] = []` -/
def dictSetEmpty (d : List (Nat × List Nat)) (k : Nat) : List (Nat × List Nat) :=
  if d.any (fun p => p.1 == k) then d.map fun p => if p.1 == k then (p.1, []) else p
  else d ++ [(k, [])]

/-- the `for g in set(reps)` loop of `direct_super_concepts`; `reps` shrinks while the snapshot is visited -/
def dsupLoop (intention extension : List Nat → List Nat) (extent : List Nat) :
    List Nat → List Nat → List (List Nat × List Nat) → List (List Nat × List Nat)
  | [], _, nb => nb
  | g :: gs, reps, nb =>
    -- `extent.add(g); M = intention_i(list(extent)); G = extension_i(M); extent.remove(g)`
    let M := intention (extent ++ [g])
    let G := extension M
    -- `if len(reps & set(G)) == 1`
    if (reps.filter fun r => G.contains r).length == 1 then
      dsupLoop intention extension extent gs reps (nb ++ [(G, M)])
    else
      dsupLoop intention extension extent gs (reps.erase g) nb

/-- `direct_super_concepts(concept)` -/
def directSuperConcepts (n : Nat) (intention extension : List Nat → List Nat) (ord : List Nat → List Nat)
    (extentI : List Nat) : List (List Nat × List Nat) :=
  let reps := (List.range n).filter fun g => !extentI.contains g
  dsupLoop intention extension extentI (ord reps) reps []

/-- `for x in dsups:` body of the main loop -/
def lindigAddSups (cId : Nat) : List (List Nat × List Nat) → LindigSt → LindigSt
  | [], s => s
  | x :: xs, s =>
    let s1 := match lindigIndex s.concepts x.1 with
      | some _ => s
      | none => { s with queue := s.queue ++ [s.concepts.length], concepts := s.concepts ++ [x] }
    let xId := (lindigIndex s1.concepts x.1).getD 0
    lindigAddSups cId xs
      { s1 with childrenDict := dictAppend s1.childrenDict xId cId
                parentsDict := dictAppend s1.parentsDict cId xId }

/-- the `while len(queue) != 0` loop with fuel -/
def lindigLoop (n : Nat) (intention extension : List Nat → List Nat) (ord : List Nat → List Nat)
    (pick : List Nat → Nat) : Nat → LindigSt → Except PyErr LindigSt
  | 0, _ => .error .OutOfFuel
  | f + 1, s =>
    match s.queue with
    | [] => .ok s
    | q0 :: _ =>
      let cId := if s.queue.contains (pick s.queue) then pick s.queue else q0
      let s := { s with queue := s.queue.erase cId }
      let c := s.concepts.getD cId ([], [])
      let dsups := directSuperConcepts n intention extension ord c.1
      if dsups.isEmpty then
        lindigLoop n intention extension ord pick f { s with parentsDict := dictSetEmpty s.parentsDict cId }
      else
        lindigLoop n intention extension ord pick f (lindigAddSups cId dsups s)

/-- a sufficient fuel when the run iterates over `n` (role-)objects: every concept is queued once -/
def lindigFuel (n : Nat) : Nat := 2 ^ n + 1

/-- the result of `lindig_algorithm` before it is wrapped into a `ConceptLattice` -/
structure LindigOut where
  concepts     : List ConceptRec
  childrenDict : List (Nat × List Nat)
  deriving Repr

/-- `lindig_algorithm(context, iterate_extents)` for a formal context.
    `iterate_extents = None` ↦ `n_objects < n_attributes`. -/
def lindigAlgorithm (K : Ctx) (iterateExtents : Option Bool) (ord : List Nat → List Nat)
    (pick : List Nat → Nat) (fuel : Nat) : Except PyErr LindigOut :=
  let iter := iterateExtents.getD (decide (K.nObjects < K.nAttributes))
  let nObj := if iter then K.nObjects else K.nAttributes
  let nAttr := if iter then K.nAttributes else K.nObjects
  let intention : List Nat → List Nat :=
    if iter then fun A => K.intentionI A none else fun A => K.extensionI A none
  let extension : List Nat → List Nat :=
    if iter then fun B => K.extensionI B none else fun B => K.intentionI B none
  let objNames := if iter then K.objNames else K.attrNames
  let attrNames := if iter then K.attrNames else K.objNames
  let M := List.range nAttr
  let G := extension M
  let init : LindigSt := ⟨[(G, M)], [0], [(0, [])], []⟩
  match lindigLoop nObj intention extension ord pick fuel init with
  | .error e => .error e
  | .ok s =>
    let mk (c : List Nat × List Nat) : ConceptRec :=
      ⟨c.1, c.1.map fun i => objNames.getD i "", c.2, c.2.map fun i => attrNames.getD i ""⟩
    let cs := s.concepts.map mk
    if iter then .ok ⟨cs, s.childrenDict⟩
    else .ok ⟨cs.map fun c => ⟨c.intentI, c.intent, c.extentI, c.extent⟩, s.parentsDict⟩

/-- the fuel `lindig_algorithm` needs -/
def lindigAlgorithmFuel (K : Ctx) (iterateExtents : Option Bool) : Nat :=
  if iterateExtents.getD (decide (K.nObjects < K.nAttributes)) then lindigFuel K.nObjects
  else lindigFuel K.nAttributes

end Fca

/-
  Fca.Model.CbO — the Close-by-One miners of `fcapy/algorithms/concept_construction.py`
  (`close_by_one_objectwise_fbarray`, `close_by_one_objectwise`, `close_by_one`) and
  `FormalConcept.from_objects`, written the way the Python is written.

  The `while combinations_to_check:` loop is a worklist machine.  The deque is a `List` whose
  head is the deque's right end (`pop()` takes the head, `extend(xs)` puts `xs.reverse` in front).
  The two local closures of the Python (`intention_ba` / `extension_iter`, resp. the context's
  `intention_i` / `extension_i(…, base_objects_i=…)`) are the two function parameters of the machine.
-/
import Fca.Model.Context
namespace Fca

/-- What a `FormalConcept` carries: index and name views of extent and intent. -/
structure ConceptRec where
  extentI : List Nat
  extent  : List String
  intentI : List Nat
  intent  : List String
  deriving DecidableEq, Repr, Inhabited

/-- `BinTable.T` : the transposed table (`width` of the result = old height). -/
def Table.transposeT (t : Table) : Table :=
  ⟨(List.range t.width).map fun a => (List.range t.height).map fun g => t.get g a, t.height⟩

namespace Ctx

/-- `FormalContext.T` -/
def T (K : Ctx) : Ctx := ⟨K.backend, K.table.transposeT, K.attrNames, K.objNames⟩

/-- `FormalContext.n_bin_attrs` (`self.data.width`) -/
def nBinAttrs (K : Ctx) : Nat := K.table.width

/-- `FormalConcept.from_objects(objects_i, K, is_extent)` for index input:
    `intent_i = K.intention_i(objects_i)`; the objects are re-closed unless `is_extent`. -/
def fromObjects (K : Ctx) (objs : List Nat) (isExtent : Bool) : ConceptRec :=
  let intentI := K.intentionI objs none
  let intent := intentI.map fun m => K.attrNames.getD m ""
  let objsI := if !isExtent then K.extensionI intentI none else objs
  ⟨objsI, objsI.map fun g => K.objNames.getD g "", intentI, intent⟩

end Ctx

/-! ## the worklist machine -/

/-- which of the two object-wise loops -/
inductive CboVariant where
  | fbarray     -- `close_by_one_objectwise_fbarray`: `intents_found` checked first, filled on emission
  | objectwise  -- `close_by_one_objectwise`: `extents_i_found` checked after the completion, never filled
  deriving DecidableEq, Repr

/-- loop state.  `out` holds `(comb_i, extent_i)` of every emission, newest first. -/
structure CboSt (ι : Type) where
  stack        : List (List Nat)
  intentsFound : List ι
  extentsFound : List (List Nat)
  out          : List (List Nat × List Nat)

/-- `comb_i[-1]` (`none` for the empty tuple) -/
def combLast (comb : List Nat) : Option Nat := comb.getLast?

/-- one iteration of the `while` body for the popped combination `comb` (`s.stack` is already popped). -/
def cboStep {ι : Type} [BEq ι] (v : CboVariant) (n : Nat) (intention : List Nat → ι)
    (extIter : ι → List Nat → List Nat) (comb : List Nat) (s : CboSt ι) : CboSt ι :=
  let intent := intention comb
  -- `if intent_ba in intents_found: continue`
  if v == .fbarray && s.intentsFound.contains intent then s else
  -- canonicity: an object below `comb_i[-1]`, not in the combination, has the intent
  let lex := match combLast comb with
    | none => false
    | some l => !(extIter intent ((List.range l).filter fun g => !comb.contains g)).isEmpty
  if lex then s else
  let lo := match combLast comb with
    | none => 0
    | some l => l + 1
  let base := (List.range' lo (n - lo)).filter fun g => !comb.contains g
  let extent := comb ++ extIter intent base
  -- `if extent_i in extents_i_found: continue`
  if v == .objectwise && s.extentsFound.contains extent then s else
  let lo2 := match combLast comb with
    | none => 0
    | some l => l
  -- `range(n_objs - 1, lo2 - 1, -1)` filtered, each appended to the extent
  let newCombs := ((List.range' lo2 (n - lo2)).reverse.filter fun g => !extent.contains g).map
    fun g => extent ++ [g]
  { stack := newCombs.reverse ++ s.stack
    intentsFound := if v == .fbarray then intent :: s.intentsFound else s.intentsFound
    extentsFound := s.extentsFound
    out := (comb, extent) :: s.out }

/-- the `while` loop with fuel -/
def cboLoop {ι : Type} [BEq ι] (v : CboVariant) (n : Nat) (intention : List Nat → ι)
    (extIter : ι → List Nat → List Nat) : Nat → CboSt ι → Except PyErr (List (List Nat × List Nat))
  | 0, _ => .error .OutOfFuel
  | f + 1, s =>
    match s.stack with
    | [] => .ok s.out.reverse
    | comb :: rest => cboLoop v n intention extIter f (cboStep v n intention extIter comb { s with stack := rest })

/-- `combinations_to_check = deque([tuple()])`, empty found-sets -/
def cboInit (ι : Type) : CboSt ι := ⟨[[]], [], [], []⟩

/-- a sufficient fuel for `n` objects (proved in `Lemmas/CbOFuel`) -/
def cboFuel (n : Nat) : Nat := (n + 1) ^ (n + 1) + 1

/-! ## `close_by_one_objectwise_fbarray` -/

/-- `intention_ba`: `intent = all_attrs; for g in objs: intent &= objs_descriptions[g]` -/
def intentionBa (t : Table) (objs : List Nat) : List Bool :=
  objs.foldl (fun intent g => B.band intent (t.row g)) (List.replicate t.width true)

/-- `extension_iter`: the `base_objects` whose description contains the intent
    (`intent_ba & objs_descriptions[g_i] == intent_ba`) -/
def extensionIter (t : Table) (intentBa : List Bool) (base : List Nat) : List Nat :=
  base.filter fun g => B.band intentBa (t.row g) == intentBa

/-- the emission trace `(comb_i, extent_i)` of `close_by_one_objectwise_fbarray` -/
def cboFbarrayTrace (K : Ctx) (fuel : Nat) : Except PyErr (List (List Nat × List Nat)) :=
  cboLoop .fbarray K.nObjects (intentionBa K.table) (extensionIter K.table) fuel (cboInit _)

/-- `close_by_one_objectwise_fbarray(context)` as a list (each emission goes through `from_objects`) -/
def cboFbarray (K : Ctx) (fuel : Nat) : Except PyErr (List ConceptRec) :=
  match cboFbarrayTrace K fuel with
  | .error e => .error e
  | .ok tr => .ok (tr.map fun p => K.fromObjects p.2 false)

/-! ## `close_by_one_objectwise` -/

def cboObjectwiseTrace (K : Ctx) (fuel : Nat) : Except PyErr (List (List Nat × List Nat)) :=
  cboLoop .objectwise K.nObjects (fun comb => K.intentionI comb none)
    (fun intent base => K.extensionI intent (some base)) fuel (cboInit _)

/-- `close_by_one_objectwise(context)` (emissions `from_objects(extent_i, context, is_extent=True)`) -/
def cboObjectwise (K : Ctx) (fuel : Nat) : Except PyErr (List ConceptRec) :=
  match cboObjectwiseTrace K fuel with
  | .error e => .error e
  | .ok tr => .ok (tr.map fun p => K.fromObjects p.2 true)

/-! ## `close_by_one` (formal contexts) -/

/-- shape dispatch: wide tables directly, the others on the transposed context, rebuilding each
    concept from the transposed concept's intent (= an extent of the original context). -/
def closeByOne (K : Ctx) (fuel : Nat) : Except PyErr (List ConceptRec) :=
  if K.nObjects < K.nBinAttrs then cboFbarray K fuel
  else
    match cboFbarray K.T fuel with
    | .error e => .error e
    | .ok cs => .ok (cs.map fun c => K.fromObjects c.intentI true)

/-- the fuel `close_by_one` needs: the machine runs over the objects of the table it is given -/
def closeByOneFuel (K : Ctx) : Nat :=
  if K.nObjects < K.nBinAttrs then cboFuel K.nObjects else cboFuel K.nBinAttrs

end Fca

/-
  Fca.Model.BinTableOps — the rest of the public surface of `AbstractBinTable`
  (`fcapy/context/bintable.py`) for the three shipped backends, written the way the
  Python is written, and `FormalContext.__getitem__ / T / __invert__ / __eq__` on top.

  `Fca.Model.BinTable` already has all/any per row / per column and `all_i`/`any_i`
  (all backends) and `_all/_any/_sum*` of `BinTableLists`.  Here:

  * Python slices (`sliceIndices` = `range(*slice(start, stop, step).indices(len))`);
  * `_all/_any` overall and `_sum*` for bitarray and numpy, the `axis` dispatch
    (`UnknownAxisError`), `shape`, the `__getitem__` dispatch, `_get_item/_get_row/
    _get_column/_get_subtable`, `T`, `&`, `|`, `~`, `==`, `to_list`, `init_bintable`.

  A bitarray row, a numpy row and a list row are all modelled as `List Bool`; a 2-D
  `ndarray` as its list of rows plus its second dimension.  What `bitarray`/`numpy`
  primitives do (`|`, `&`, `~`, `.all()`, `.count()`, `.search(1)`, native slicing, fancy
  indexing, `np.ix_`, `.T`, `sum(axis)`) is written out here and is part of the trusted base.
-/
import Fca.Model.BinTable
import Fca.Model.Context
namespace Fca

/-! ## Python slices and index lists -/

/-- `range(*slice(start, stop, step).indices(len))` as a list (CPython's
    `PySlice_AdjustIndices` + `range`).  `step = 0` raises `ValueError` in Python; here it
    yields `[]` and every theorem excludes it explicitly (`Sel.Valid`). -/
def sliceIndices (start stop step : Option Int) (len : Nat) : List Nat :=
  let n : Int := len
  let st : Int := step.getD 1
  if st = 0 then [] else
  let lower : Int := if st < 0 then -1 else 0
  let upper : Int := if st < 0 then n - 1 else n
  let clamp : Int → Int := fun v =>
    if v < 0 then (if v + n < lower then lower else v + n) else (if v > upper then upper else v)
  let s : Int := match start with
    | none => if st < 0 then upper else lower
    | some v => clamp v
  let e : Int := match stop with
    | none => if st < 0 then lower else upper
    | some v => clamp v
  let cnt : Nat :=
    if st > 0 then (if s < e then ((e - s + st - 1) / st).toNat else 0)
    else (if e < s then ((s - e + (-st) - 1) / (-st)).toNat else 0)
  (List.range cnt).map fun (k : Nat) => (s + (k : Int) * st).toNat

/-- what may stand at one position of `table[...]` besides an integer:
    an index list or a slice. -/
inductive Sel where
  | idx (xs : List Nat)
  | slice (start stop step : Option Int)
  deriving DecidableEq, Repr, Inhabited

/-- `range(*s.indices(len))` if `s` is a slice, else the list itself
    (`if isinstance(slicer, slice): slicer = range(*slicer.indices(len))`). -/
def Sel.resolve (s : Sel) (len : Nat) : List Nat :=
  match s with
  | .idx xs => xs
  | .slice a b c => sliceIndices a b c len

/-- native `seq[s]` of a bitarray / 1-D ndarray (`s` a slice), numpy fancy indexing (`s` a list) -/
def takeSel {α} (xs : List α) (dflt : α) (s : Sel) : List α :=
  (s.resolve xs.length).map fun k => xs.getD k dflt

/-- one component of the `item` in `table[item]` -/
inductive Key where
  | int (i : Nat)
  | sel (s : Sel)
  deriving DecidableEq, Repr, Inhabited

/-- `table[k]` or `table[r, c]` -/
inductive Item where
  | one (k : Key)
  | two (r c : Key)
  deriving DecidableEq, Repr, Inhabited

/-- canonical observable results of a table operation -/
inductive Res where
  | bool (b : Bool)
  | nat (n : Nat)
  | bools (xs : List Bool)
  | nats (xs : List Nat)
  | shape (h w : Nat)
  | rows (d : List Row)
  | table (t : Table)
  | err (e : PyErr)
  deriving DecidableEq, Repr, Inhabited

/-- `AbstractBinTable.__getitem__`: the dispatch on the kind of `item`, shared by all backends.
    `gi/gr/gc/gs` are the backend's `_get_item/_get_row/_get_column/_get_subtable`. -/
def getitemDispatch (gi : Nat → Nat → Bool) (gr : Nat → Option Sel → Row) (gc : Sel → Nat → Row)
    (gs : Sel → Option Sel → Table) : Item → Res
  | .one (.int i) => .bools (gr i none)
  | .one (.sel s) => .table (gs s none)
  | .two (.int i) (.int j) => .bool (gi i j)
  | .two (.int i) (.sel cs) => .bools (gr i (some cs))
  | .two (.sel rs) (.int j) => .bools (gc rs j)
  | .two (.sel rs) (.sel cs) => .table (gs rs (some cs))

/-- the `axis` dispatch of `AbstractBinTable.all/any/sum`:
    `if axis not in {None, 0, 1}: raise UnknownAxisError`. -/
def axisDispatch (axis : Option Int) (whole perColumn perRow : Res) : Res :=
  match axis with
  | none => whole
  | some a => if a = 0 then perColumn else if a = 1 then perRow else .err .UnknownAxisError

/-! ## BinTableLists -/
namespace L

/-- `_get_item` (abstract): `bool(self.data[i][j])` -/
def getItem (t : Table) (i j : Nat) : Bool := (t.row i).getD j false

def getRow (t : Table) (i : Nat) (cs : Option Sel) : Row :=
  let row := t.row i
  match cs with
  | none => row
  | some s => (s.resolve t.width).map fun c => row.getD c false

def getColumn (t : Table) (rs : Sel) (j : Nat) : Row :=
  (rs.resolve t.height).map fun r => (t.row r).getD j false

def getSubtable (t : Table) (rs : Sel) (cs : Option Sel) : Table :=
  let rows := rs.resolve t.height
  match cs with
  | none => Table.ofRows (rows.map fun r => t.row r)
  | some s =>
    let cols := s.resolve t.width
    Table.ofRows (rows.map fun r => cols.map fun c => (t.row r).getD c false)

def getitem (t : Table) : Item → Res :=
  getitemDispatch (getItem t) (getRow t) (getColumn t) (getSubtable t)

/-- `AbstractBinTable.T`: `[self._get_column(range(self.height), j) for j in range(self.width)]` -/
def transpose (t : Table) : Table :=
  Table.ofRows ((List.range t.width).map fun j => getColumn t (.idx (List.range t.height)) j)

def band (t o : Table) : Except PyErr Table :=
  if t.height = o.height ∧ t.width = o.width then
    .ok (Table.ofRows (List.zipWith (fun ra rb => List.zipWith (fun a b => a && b) ra rb) t.data o.data))
  else .error .AssertionError

def bor (t o : Table) : Except PyErr Table :=
  if t.height = o.height ∧ t.width = o.width then
    .ok (Table.ofRows (List.zipWith (fun ra rb => List.zipWith (fun a b => a || b) ra rb) t.data o.data))
  else .error .AssertionError

def invert (t : Table) : Table := Table.ofRows (t.data.map fun row => row.map fun v => !v)

/-- `BinTableLists.to_list`: `self.data` -/
def toList (t : Table) : List Row := t.data

def all (t : Table) (axis : Option Int) (rows cols : Option (List Nat)) : Res :=
  axisDispatch axis (.bool (allAll t rows cols)) (.bools (allPerColumn t rows cols))
    (.bools (allPerRow t rows cols))
def any (t : Table) (axis : Option Int) (rows cols : Option (List Nat)) : Res :=
  axisDispatch axis (.bool (anyAny t rows cols)) (.bools (anyPerColumn t rows cols))
    (.bools (anyPerRow t rows cols))
def sum (t : Table) (axis : Option Int) (rows cols : Option (List Nat)) : Res :=
  axisDispatch axis (.nat (sumAll t rows cols)) (.nats (sumPerColumn t rows cols))
    (.nats (sumPerRow t rows cols))

end L

/-! ## BinTableBitarray -/
namespace B

def getItem (t : Table) (i j : Nat) : Bool := (t.row i).getD j false

def getRow (t : Table) (i : Nat) (cs : Option Sel) : Row :=
  let row := t.row i
  match cs with
  | none => row
  | some (.slice a b c) => takeSel row false (.slice a b c)          -- `row[column_slicer]`
  | some (.idx xs) => xs.map fun c => row.getD c false               -- `fbarray([row[c] for c in ..])`

def getColumn (t : Table) (rs : Sel) (j : Nat) : Row :=
  (rs.resolve t.height).map fun r => (t.row r).getD j false

def getSubtable (t : Table) (rs : Sel) (cs : Option Sel) : Table :=
  let rows := rs.resolve t.height
  match cs with
  | none => Table.ofRows (rows.map fun r => t.row r)
  | some (.slice a b c) => Table.ofRows (rows.map fun r => takeSel (t.row r) false (.slice a b c))
  | some (.idx xs) => Table.ofRows (rows.map fun r => xs.map fun c => (t.row r).getD c false)

def getitem (t : Table) : Item → Res :=
  getitemDispatch (getItem t) (getRow t) (getColumn t) (getSubtable t)

def transpose (t : Table) : Table :=
  Table.ofRows ((List.range t.width).map fun j => getColumn t (.idx (List.range t.height)) j)

def tand (t o : Table) : Except PyErr Table :=
  if t.height = o.height ∧ t.width = o.width then
    .ok (Table.ofRows (List.zipWith (fun ra rb => band ra rb) t.data o.data))
  else .error .AssertionError

def tor (t o : Table) : Except PyErr Table :=
  if t.height = o.height ∧ t.width = o.width then
    .ok (Table.ofRows (List.zipWith (fun ra rb => bor ra rb) t.data o.data))
  else .error .AssertionError

/-- `~row` -/
def bnot (r : Row) : Row := r.map fun v => !v
def invert (t : Table) : Table := Table.ofRows (t.data.map bnot)

/-- `AbstractBinTable.to_list`: `[[bool(v) for v in row] for row in self.data]` -/
def toList (t : Table) : List Row := t.data.map fun row => row.map fun v => v

/-- `_all`: the row loop with `return False` on the first failing row -/
def allAll (t : Table) (rows cols : Option (List Nat)) : Bool :=
  match cols with
  | none => (rowsOf t rows).all fun i => pyAll (t.row i)
  | some cs =>
    let mask := maskNotIn t cs
    (rowsOf t rows).all fun i => pyAll (bor (t.row i) mask)

def anyAny (t : Table) (rows cols : Option (List Nat)) : Bool :=
  match cols with
  | none => (rowsOf t rows).any fun i => pyAny (t.row i)
  | some cs =>
    let mask := maskIn t cs
    (rowsOf t rows).any fun i => pyAny (band (t.row i) mask)

/-- `bitarray.count()` -/
def count (r : Row) : Nat := (r.filter id).length

def sumPerRow (t : Table) (rows cols : Option (List Nat)) : List Nat :=
  match cols with
  | none => (rowsOf t rows).map fun i => count (t.row i)
  | some cs =>
    let mask := maskIn t cs
    (rowsOf t rows).map fun i => count (band (t.row i) mask)

/-- `for j in bits.search(1): vals[j] += 1` -/
def bump (vals : List Nat) (bits : Row) : List Nat :=
  (search1 bits).foldl (fun v j => v.modify j (· + 1)) vals

/-- `_sum_per_column` (current code): without `columns` the counters are bumped at the set bits
    of each row; with `columns` a full-width counter vector is bumped at the set bits of
    `row & mask` and then read at the requested columns, in their order. -/
def sumPerColumn (t : Table) (rows cols : Option (List Nat)) : List Nat :=
  match cols with
  | none => (rowsOf t rows).foldl (fun vals i => bump vals (t.row i)) (List.replicate t.width 0)
  | some cs =>
    let mask := maskIn t cs
    let valsFull := (rowsOf t rows).foldl (fun vals i => bump vals (band (t.row i) mask))
      (List.replicate t.width 0)
    cs.map fun j => valsFull.getD j 0

def sumAll (t : Table) (rows cols : Option (List Nat)) : Nat := (sumPerRow t rows cols).sum

def all (t : Table) (axis : Option Int) (rows cols : Option (List Nat)) : Res :=
  axisDispatch axis (.bool (allAll t rows cols)) (.bools (allPerColumn t rows cols))
    (.bools (allPerRow t rows cols))
def any (t : Table) (axis : Option Int) (rows cols : Option (List Nat)) : Res :=
  axisDispatch axis (.bool (anyAny t rows cols)) (.bools (anyPerColumn t rows cols))
    (.bools (anyPerRow t rows cols))
def sum (t : Table) (axis : Option Int) (rows cols : Option (List Nat)) : Res :=
  axisDispatch axis (.nat (sumAll t rows cols)) (.nats (sumPerColumn t rows cols))
    (.nats (sumPerRow t rows cols))

end B

/-! ## BinTableNumpy  (a 2-D array = its rows + its second dimension)

  A table built from zero rows holds `np.zeros((0, 0), dtype=bool)` (`BinTableNumpy._transform_data`),
  i.e. the array with no rows and second dimension 0 — `⟨[], 0⟩` here — so every function below
  is also the model of the 0×0 table. -/
namespace N

/-- `a[s]` on the first axis -/
def takeRows (d : List Row) (s : Sel) : List Row := takeSel d [] s
/-- `a[:, s]` on an array whose second dimension is `w` -/
def takeCols (d : List Row) (w : Nat) (s : Sel) : List Row :=
  d.map fun r => (s.resolve w).map fun c => r.getD c false
/-- `a[:, j]` -/
def col (d : List Row) (j : Nat) : Row := d.map fun r => r.getD j false
/-- `a[np.ix_(rs, cs)]` -/
def ix (d : List Row) (rs cs : List Nat) : List Row :=
  rs.map fun i => cs.map fun j => (d.getD i []).getD j false
/-- `a.T` of an array with second dimension `w` -/
def transposeArr (d : List Row) (w : Nat) : List Row :=
  (List.range w).map fun j => d.map fun r => r.getD j false

def getItem (t : Table) (i j : Nat) : Bool := (t.row i).getD j false

/-- abstract `_get_row`: `self.data[i]` / `self.data[i][column_slicer]` -/
def getRow (t : Table) (i : Nat) (cs : Option Sel) : Row :=
  match cs with
  | none => t.row i
  | some s => takeSel (t.row i) false s

/-- abstract `_get_column`: `self.data[row_slicer][:, j]` -/
def getColumn (t : Table) (rs : Sel) (j : Nat) : Row := col (takeRows t.data rs) j

/-- `BinTableNumpy._get_subtable`: `np.ix_` for two lists, else the abstract
    `self.data[rs]` / `self.data[rs, cs]`. -/
def getSubtable (t : Table) (rs : Sel) (cs : Option Sel) : Table :=
  match rs, cs with
  | .idx rows, some (.idx cols) => Table.ofRows (ix t.data rows cols)
  | _, none => Table.ofRows (takeRows t.data rs)
  | _, some s => Table.ofRows (takeCols (takeRows t.data rs) t.width s)

def getitem (t : Table) : Item → Res :=
  getitemDispatch (getItem t) (getRow t) (getColumn t) (getSubtable t)

def transpose (t : Table) : Table := Table.ofRows (transposeArr t.data t.width)

/-- abstract `__and__`: `self.__class__(self.data & other.data)` -/
def tand (t o : Table) : Except PyErr Table :=
  if t.height = o.height ∧ t.width = o.width then
    .ok (Table.ofRows (List.zipWith (fun ra rb => List.zipWith (fun a b => a && b) ra rb) t.data o.data))
  else .error .AssertionError

def tor (t o : Table) : Except PyErr Table :=
  if t.height = o.height ∧ t.width = o.width then
    .ok (Table.ofRows (List.zipWith (fun ra rb => List.zipWith (fun a b => a || b) ra rb) t.data o.data))
  else .error .AssertionError

def invert (t : Table) : Table := Table.ofRows (t.data.map fun r => r.map fun v => !v)

/-- `np.asarray(self.data).tolist()` -/
def toList (t : Table) : List Row := t.data

def countTrue (xs : List Bool) : Nat := (xs.filter id).length

/-- `data_slice.all()` -/
def allAll (t : Table) (rows cols : Option (List Nat)) : Bool := pyAll (slice t rows cols).1.flatten
def anyAny (t : Table) (rows cols : Option (List Nat)) : Bool := pyAny (slice t rows cols).1.flatten
/-- `data_slice.sum()` -/
def sumAll (t : Table) (rows cols : Option (List Nat)) : Nat := countTrue (slice t rows cols).1.flatten
/-- `data_slice.sum(axis)` -/
def sumAxis (t : Table) (axis : Nat) (rows cols : Option (List Nat)) : List Nat :=
  let (d, w) := slice t rows cols
  if axis = 0 then (List.range w).map fun j => countTrue (d.map fun r => r.getD j false)
  else d.map countTrue

def all (t : Table) (axis : Option Int) (rows cols : Option (List Nat)) : Res :=
  axisDispatch axis (.bool (allAll t rows cols)) (.bools (allAxis t 0 rows cols))
    (.bools (allAxis t 1 rows cols))
def any (t : Table) (axis : Option Int) (rows cols : Option (List Nat)) : Res :=
  axisDispatch axis (.bool (anyAny t rows cols)) (.bools (anyAxis t 0 rows cols))
    (.bools (anyAxis t 1 rows cols))
def sum (t : Table) (axis : Option Int) (rows cols : Option (List Nat)) : Res :=
  axisDispatch axis (.nat (sumAll t rows cols)) (.nats (sumAxis t 0 rows cols))
    (.nats (sumAxis t 1 rows cols))

end N

/-! ## dispatch on the backend -/

def toList (b : Backend) (t : Table) : List Row :=
  match b with
  | .lists => L.toList t | .bitarray => B.toList t | .numpy => N.toList t

/-- `__eq__` (the three copies of the same code): heights, widths, then — for different
    classes — `to_list()` of both, else the native data comparison. -/
def tableEq (b : Backend) (t : Table) (b' : Backend) (o : Table) : Bool :=
  if t.height ≠ o.height then false
  else if t.width ≠ o.width then false
  else if b ≠ b' then toList b t == toList b' o
  else t.data == o.data

/-- `init_bintable(table_of_backend_src, dst)`: the same object when the class already
    matches, else `dst(table.data)`, whose `_transform_data` goes through
    `src(data).to_list()` (and `[] , 0, 0` for empty data). -/
def convert (src dst : Backend) (t : Table) : Table :=
  if src = dst then t
  else if t.data.length = 0 then ⟨[], 0⟩
  else
    let bt := Table.ofRows t.data          -- `BINTABLE_CLASSES[dclass](data)`
    ⟨toList src bt, bt.width⟩              -- `fromlists(bt.to_list()), bt.height, bt.width`

/-- `all_i` / `any_i` with the axis as Python passes it (`UnknownAxisError` is raised by the
    inner `all/any` call for an axis outside `{0, 1}`; `axis=None` is outside the signature). -/
def allIRes (b : Backend) (t : Table) (axis : Int) (rows cols : Option (List Nat)) : Res :=
  if axis = 0 then .nats (allI b t 0 rows cols)
  else if axis = 1 then .nats (allI b t 1 rows cols)
  else .err .UnknownAxisError

def anyIRes (b : Backend) (t : Table) (axis : Int) (rows cols : Option (List Nat)) : Res :=
  if axis = 0 then .nats (anyI b t 0 rows cols)
  else if axis = 1 then .nats (anyI b t 1 rows cols)
  else .err .UnknownAxisError

/-- the table operations of property C05 -/
inductive Op where
  | shape
  | toList
  | getitem (it : Item)
  | all (axis : Option Int) (rows cols : Option (List Nat))
  | any (axis : Option Int) (rows cols : Option (List Nat))
  | sum (axis : Option Int) (rows cols : Option (List Nat))
  | allI (axis : Int) (rows cols : Option (List Nat))
  | anyI (axis : Int) (rows cols : Option (List Nat))
  | transpose
  | and (other : Table)
  | or (other : Table)
  | invert
  | eq (otherBackend : Backend) (other : Table)
  | convert (dst : Backend)
  deriving Repr, Inhabited

def exceptRes : Except PyErr Table → Res
  | .ok t => .table t
  | .error e => .err e

/-- run one operation on a table held by backend `b` -/
def run (b : Backend) (op : Op) (t : Table) : Res :=
  match op with
  | .shape => .shape t.height t.width
  | .toList => .rows (toList b t)
  | .getitem it =>
    (match b with | .lists => L.getitem t it | .bitarray => B.getitem t it | .numpy => N.getitem t it)
  | .all ax rows cols =>
    (match b with | .lists => L.all t ax rows cols | .bitarray => B.all t ax rows cols | .numpy => N.all t ax rows cols)
  | .any ax rows cols =>
    (match b with | .lists => L.any t ax rows cols | .bitarray => B.any t ax rows cols | .numpy => N.any t ax rows cols)
  | .sum ax rows cols =>
    (match b with | .lists => L.sum t ax rows cols | .bitarray => B.sum t ax rows cols | .numpy => N.sum t ax rows cols)
  | .allI ax rows cols => allIRes b t ax rows cols
  | .anyI ax rows cols => anyIRes b t ax rows cols
  | .transpose =>
    .table (match b with | .lists => L.transpose t | .bitarray => B.transpose t | .numpy => N.transpose t)
  | .and o =>
    exceptRes (match b with | .lists => L.band t o | .bitarray => B.tand t o | .numpy => N.tand t o)
  | .or o =>
    exceptRes (match b with | .lists => L.bor t o | .bitarray => B.tor t o | .numpy => N.tor t o)
  | .invert =>
    .table (match b with | .lists => L.invert t | .bitarray => B.invert t | .numpy => N.invert t)
  | .eq b' o => .bool (tableEq b t b' o)
  | .convert dst => .rows (toList dst (convert b dst t))

/-! ## FormalContext on top -/

/-- exception classes at the context level -/
inductive TErr where
  | py (e : PyErr)
  deriving DecidableEq, Repr, Inhabited

def TErr.name : TErr → String
  | .py e => e.name

/-- result of a context-level operation -/
inductive CRes where
  | bool (b : Bool)
  | ctx (K : Ctx)
  | err (e : TErr)
  deriving Repr, Inhabited

/-- `slice_list(lst, slicer)` of `fcapy/utils/utils.py` -/
def sliceList (lst : List String) (k : Key) : List String :=
  match k with
  | .sel (.slice a b c) => takeSel lst "" (.slice a b c)      -- `lst[slicer]`
  | .sel (.idx xs) => xs.map fun x => lst.getD x ""            -- `[lst[x] for x in slicer]`
  | .int i => [lst.getD i ""]                                  -- `[lst[slicer]]`

/-- `FormalContext(data_table, object_names, attribute_names, backend=same)`: the two name
    setters assert the lengths. -/
def mkCtx (b : Backend) (t : Table) (objs attrs : List String) : CRes :=
  if objs.length ≠ t.height then .err (.py .AssertionError)
  else if attrs.length ≠ t.width then .err (.py .AssertionError)
  else .ctx ⟨b, t, objs, attrs⟩

/-- `isinstance(k, Integral)` -/
def Key.isInt : Key → Bool
  | .int _ => true
  | .sel _ => false

/-- `[k] if isinstance(k, Integral) else k` -/
def Key.wrapInt : Key → Key
  | .int i => .sel (.idx [i])
  | .sel s => .sel s

namespace Ctx

/-- `FormalContext.__getitem__`: when exactly one of the two components is an integer the table is
    indexed with that integer wrapped in a one-element list (so a one-row / one-column sub-table
    comes back, matching the single name `slice_list` keeps); two integers give the cell. -/
def getitem (K : Ctx) (it : Item) : CRes :=
  let (r, c) : Key × Key := match it with
    | .one k => (k, .sel (.slice (some 0) (some (K.nAttributes : Int)) none))
    | .two r c => (r, c)
  let data :=
    if r.isInt != c.isInt then run K.backend (.getitem (.two r.wrapInt c.wrapInt)) K.table
    else run K.backend (.getitem (.two r c)) K.table
  match data with
  | .bool v => .bool v
  | .table t => mkCtx K.backend t (sliceList K.objNames r) (sliceList K.attrNames c)
  | _ => .err (.py .NotImplementedError)

/-- `FormalContext.T`: `FormalContext(self.data.T.data, attribute_names, object_names, backend)` -/
def transposeC (K : Ctx) : CRes :=
  match run K.backend .transpose K.table with
  | .table t => mkCtx K.backend (Table.ofRows t.data) K.attrNames K.objNames
  | _ => .err (.py .NotImplementedError)

/-- `m[4:] if m.startswith('not ') else 'not ' + m` -/
def toggleNot (m : String) : String :=
  let cs := m.toList
  if "not ".toList.isPrefixOf cs then String.ofList (cs.drop 4) else "not " ++ m

/-- `FormalContext.__invert__` -/
def invertC (K : Ctx) : CRes :=
  match run K.backend .invert K.table with
  | .table t => mkCtx K.backend t K.objNames (K.attrNames.map toggleNot)
  | _ => .err (.py .NotImplementedError)

/-- `FormalContext.__eq__` (targets are `None` on both sides) -/
def eqC (K K' : Ctx) : CRes :=
  if K.objNames ≠ K'.objNames then .err (.py .ValueError)
  else if K.attrNames ≠ K'.attrNames then .err (.py .ValueError)
  else .bool (tableEq K.backend K.table K'.backend K'.table)

end Ctx

/-- the context-level operations of property C05 -/
inductive COp where
  | getitem (it : Item)
  | transpose
  | invert
  | eq (other : Ctx)
  deriving Repr, Inhabited

def Ctx.runC (K : Ctx) : COp → CRes
  | .getitem it => K.getitem it
  | .transpose => K.transposeC
  | .invert => K.invertC
  | .eq K' => K.eqC K'

/-! ## histories on one table object

  `AbstractBinTable.data` is a public read/write property: the setter runs `_transform_data` and
  `_validate_data` on the new value and replaces `_data, _height, _width`; no other attribute of a
  table exists, so the table afterwards is exactly the table built from the new value.
  For a context, `ctx.data.data = ...`, `ctx.object_names = ...`, `ctx.attribute_names = ...`. -/

/-- one step in the life of a table object -/
inductive Step where
  | query (op : Op)                 -- any operation; its answer is observed
  | setData (rows : List Row)       -- `bt.data = rows` (a list of lists of bools)
  deriving Repr, Inhabited

/-- `bt.data = rows` on backend `b`: `_transform_data` sees list-of-lists data, i.e. the data class
    `BinTableLists`; for another backend it goes through `BinTableLists(rows).to_list()` -/
def setData (b : Backend) (rows : List Row) : Table := convert .lists b (Table.ofRows rows)

/-- the observed answers of a history started on table `t` held by backend `b` -/
def runHist (b : Backend) : Table → List Step → List Res
  | _, [] => []
  | t, .query op :: rest => run b op t :: runHist b t rest
  | _, .setData rows :: rest => runHist b (setData b rows) rest

/-- one step in the life of a context -/
inductive CStep where
  | query (op : COp)
  | setData (rows : List Row)            -- `ctx.data.data = rows`
  | setObjNames (names : List String)    -- `ctx.object_names = names`
  | setAttrNames (names : List String)   -- `ctx.attribute_names = names`
  deriving Repr, Inhabited

def Ctx.runHist : Ctx → List CStep → List CRes
  | _, [] => []
  | K, .query op :: rest => K.runC op :: Ctx.runHist K rest
  | K, .setData rows :: rest => Ctx.runHist { K with table := setData K.backend rows } rest
  | K, .setObjNames ns :: rest => Ctx.runHist { K with objNames := ns } rest
  | K, .setAttrNames ns :: rest => Ctx.runHist { K with attrNames := ns } rest

end Fca

/-
  Fca.Model.LatticeQuery — the order queries of a `ConceptLattice`, written the way the Python is
  written (`fcapy/poset/poset.py`, `fcapy/poset/lattice.py`, `fcapy/lattice/concept_lattice.py`,
  `fcapy/lattice/formal_concept.py`).

  * `PQ.*`  : the *uncached* `POSet` queries, generic in the comparison `leq : Nat → Nat → Bool` on the
              element indexes `0 … n-1` (`_descendants_nocache`, `_ancestors_nocache`, `_children_nocache`,
              `_parents_nocache`, `join`, `meet`, `tops`, `bottoms`, `Lattice.top/bottom`).
  * `LQ.*`  : the instantiation with the concept order (`FormalConcept.__le__`: support shortcut, then the
              membership loop), `sort_concepts`, `_get_chains`, `get_concept_new_extent(_i)`,
              `get_concept_new_intent(_i)`.
  * `LC.*`  : what `POSet.__init__` does with a `children_dict` (Lindig path): `_transpose_hierarchy`,
              `_closed_relation_cache_by_direct_cache`, and `from_context`'s re-indexing of the caches and of
              top/bottom by the sorting permutation.

  Sets of indexes are duplicate-free `List Nat`.  A Python `for x in <set>` whose order is unspecified takes the
  order as the parameter `ord : List Nat → List Nat` (the list of the set's members → the order of iteration).
-/
import Fca.Model.Basic
namespace Fca

/-! ## uncached POSet queries -/
namespace PQ

variable (leq : Nat → Nat → Bool) (n : Nat)

/-- `{i for i in range(len(self)) if self.leq_elements(i, element_index) and i != element_index}` -/
def descendants (i : Nat) : List Nat := (List.range n).filter fun j => leq j i && j != i

/-- `{i for i in range(len(self)) if self.leq_elements(element_index, i) and i != element_index}` -/
def ancestors (i : Nat) : List Nat := (List.range n).filter fun j => leq i j && j != i

/-- set difference `cur - sub` -/
def removeAll (cur sub : List Nat) : List Nat := cur.filter fun x => !(sub.contains x)

/-- `for el_idx in list(idxs): if el_idx in idxs: idxs -= rel(el_idx)` -/
def guardedSubtractLoop (rel : Nat → List Nat) : List Nat → List Nat → List Nat
  | [], cur => cur
  | el :: rest, cur =>
    if cur.contains el then guardedSubtractLoop rel rest (removeAll cur (rel el))
    else guardedSubtractLoop rel rest cur

/-- `_children_nocache`: subtract the descendants of the still-present descendants -/
def children (ord : List Nat → List Nat) (i : Nat) : List Nat :=
  let d := descendants leq n i
  guardedSubtractLoop (descendants leq n) (ord d) d

/-- `_parents_nocache` -/
def parents (ord : List Nat → List Nat) (i : Nat) : List Nat :=
  let a := ancestors leq n i
  guardedSubtractLoop (ancestors leq n) (ord a) a

/-- `s | {i}` -/
def withSelf (s : List Nat) (i : Nat) : List Nat := if s.contains i then s else i :: s

/-- `a &= b` -/
def interSets (a b : List Nat) : List Nat := a.filter fun x => b.contains x

/-- `x = rel(S[0]) | {S[0]}; for el in S[1:]: x &= rel(el) | {el}` -/
def boundsLoop (rel : Nat → List Nat) : List Nat → List Nat → List Nat
  | [], acc => acc
  | el :: rest, acc => boundsLoop rel rest (interSets acc (withSelf (rel el) el))

/-- `for el_idx in copy(idxs): idxs -= rel(el_idx)` (no membership guard here) -/
def subtractLoop (rel : Nat → List Nat) : List Nat → List Nat → List Nat
  | [], cur => cur
  | el :: rest, cur => subtractLoop rel rest (removeAll cur (rel el))

/-- `list(idxs)[0] if len(idxs) == 1 else None` -/
def single : List Nat → Option Nat
  | [k] => some k
  | _ => none

/-- common body of `join` (rel = ancestors) and `meet` (rel = descendants) -/
def extremum (rel : Nat → List Nat) (ord : List Nat → List Nat) (S : List Nat) : Except PyErr (Option Nat) :=
  let S' := if S.length = 0 then List.range n else S
  match S' with
  | [] => .error .IndexError            -- `element_indexes[0]` of an empty poset
  | s0 :: rest =>
    let cand := boundsLoop rel rest (withSelf (rel s0) s0)
    .ok (single (subtractLoop rel (ord cand) cand))

/-- `POSet.join` -/
def join (ord : List Nat → List Nat) (S : List Nat) : Except PyErr (Option Nat) :=
  extremum n (ancestors leq n) ord S

/-- `POSet.meet` -/
def meet (ord : List Nat → List Nat) (S : List Nat) : Except PyErr (Option Nat) :=
  extremum n (descendants leq n) ord S

/-- `[el_i for el_i in range(len(self)) if len(self.ancestors(el_i)) == 0]` -/
def tops : List Nat := (List.range n).filter fun i => (ancestors leq n i).length == 0

/-- `[el_i for el_i in range(len(self)) if len(self.descendants(el_i)) == 0]` -/
def bottoms : List Nat := (List.range n).filter fun i => (descendants leq n i).length == 0

/-- `UpperSemiLattice.__init__`: `ValueError` unless exactly one top; `_cache_top = top_elements[0]` -/
def top : Except PyErr Nat :=
  match tops leq n with
  | [k] => .ok k
  | _ => .error .ValueError

/-- `LowerSemiLattice.__init__` -/
def bottom : Except PyErr Nat :=
  match bottoms leq n with
  | [k] => .ok k
  | _ => .error .ValueError

end PQ

/-! ## the concept lattice -/
namespace LQ

/-- a formal concept: `(extent_i, intent_i)` -/
abbrev Concept := List Nat × List Nat
/-- the lattice's element list, in listing order -/
abbrev Lat := List Concept

def conc (cs : Lat) (i : Nat) : Concept := cs.getD i ([], [])
def extOf (cs : Lat) (i : Nat) : List Nat := (conc cs i).1
def intOf (cs : Lat) (i : Nat) : List Nat := (conc cs i).2

/-- `for g_i in lesser.extent_i: if g_i not in greater_ext_i: return False` / `return True` -/
def leLoop (greaterExt : List Nat) : List Nat → Bool
  | [] => true
  | g :: rest => if !(greaterExt.contains g) then false else leLoop greaterExt rest

/-- `FormalConcept.__le__` (same context, antimonotone): support shortcut, then the membership loop -/
def conceptLe (a b : Concept) : Bool :=
  if a.1.length > b.1.length then false else leLoop b.1 a.1

/-- `self._leq_func(self._elements[a_index], self._elements[b_index])` -/
def leq (cs : Lat) (i j : Nat) : Bool := conceptLe (conc cs i) (conc cs j)

def descendants (cs : Lat) (i : Nat) : List Nat := PQ.descendants (leq cs) cs.length i
def ancestors (cs : Lat) (i : Nat) : List Nat := PQ.ancestors (leq cs) cs.length i
def children (cs : Lat) (ord : List Nat → List Nat) (i : Nat) : List Nat := PQ.children (leq cs) cs.length ord i
def parents (cs : Lat) (ord : List Nat → List Nat) (i : Nat) : List Nat := PQ.parents (leq cs) cs.length ord i
def join (cs : Lat) (ord : List Nat → List Nat) (S : List Nat) : Except PyErr (Option Nat) :=
  PQ.join (leq cs) cs.length ord S
def meet (cs : Lat) (ord : List Nat → List Nat) (S : List Nat) : Except PyErr (Option Nat) :=
  PQ.meet (leq cs) cs.length ord S
def top (cs : Lat) : Except PyErr Nat := PQ.top (leq cs) cs.length
def bottom (cs : Lat) : Except PyErr Nat := PQ.bottom (leq cs) cs.length

/-! ### `sort_concepts` -/

/-- `','.join([str(g) for g in c.extent_i])` -/
def extKey (e : List Nat) : String := ",".intercalate (e.map fun g => toString g)

/-- `(-len(a.extent_i), key a) <= (-len(b.extent_i), key b)` as Python compares tuples
    (strings by code points, which is Lean's `String` order) -/
def keyLe (a b : Concept) : Bool :=
  decide (a.1.length > b.1.length) ||
    (a.1.length == b.1.length && decide (extKey a.1 ≤ extKey b.1))

/-- `sorted(concepts, key=lambda c: (-len(c.extent_i), ','.join(...)))` (a stable sort) -/
def sortConcepts (cs : Lat) : Lat := cs.mergeSort keyLe

/-! ### `get_concept_new_extent(_i)` / `get_concept_new_intent(_i)` -/

/-- `{g_i for sbc_i in sbc_is for g_i in self[sbc_i].extent_i}` (as a list; only membership is used) -/
def unionOf (f : Nat → List Nat) (idxs : List Nat) : List Nat := idxs.flatMap f

/-- `set(self[concept_i].extent_i) - sbc_extents_i` -/
def newExtentI (cs : Lat) (ord : List Nat → List Nat) (i : Nat) : List Nat :=
  PQ.removeAll (extOf cs i) (unionOf (extOf cs) (children cs ord i))

/-- `set(self[concept_i].intent_i) - spc_intent_i` -/
def newIntentI (cs : Lat) (ord : List Nat → List Nat) (i : Nat) : List Nat :=
  PQ.removeAll (intOf cs i) (unionOf (intOf cs) (parents cs ord i))

/-- the concept's `extent` field: `[object_names[g_i] for g_i in extent_i]` -/
def namesOf (names : List String) (idxs : List Nat) : List String := idxs.map fun g => names.getD g ""

/-- `set(self[concept_i].extent) - {g for sbc_i in sbc_is for g in self[sbc_i].extent}` -/
def newExtent (objNames : List String) (cs : Lat) (ord : List Nat → List Nat) (i : Nat) : List String :=
  let sub := (children cs ord i).flatMap fun j => namesOf objNames (extOf cs j)
  (namesOf objNames (extOf cs i)).filter fun g => !(sub.contains g)

/-- `set(self[concept_i].intent) - {m for spc_i in spc_is for m in self[spc_i].intent}` -/
def newIntent (attrNames : List String) (cs : Lat) (ord : List Nat → List Nat) (i : Nat) : List String :=
  let sup := (parents cs ord i).flatMap fun j => namesOf attrNames (intOf cs j)
  (namesOf attrNames (intOf cs i)).filter fun m => !(sup.contains m)

/-! ### `_get_chains` -/

/-- `FormalConcept.__eq__` (same context): equal support and equal extent sets -/
def conceptEq (a b : Concept) : Bool :=
  if a.1.length != b.1.length then false else a.1.all fun g => b.1.contains g

/-- `{c: idx for idx, c in enumerate(l)}[c]`: the last position holding a concept equal to `c` -/
def dictIdxFrom : Lat → Nat → Concept → Option Nat
  | [], _, _ => none
  | y :: ys, k, c =>
    match dictIdxFrom ys (k + 1) c with
    | some r => some r
    | none => if conceptEq y c then some k else none

def dictIdx (l : Lat) (c : Concept) : Option Nat := dictIdxFrom l 0 c

/-- `sorted(s)[0]` -/
def minOf : List Nat → Option Nat
  | [] => none
  | x :: xs => match minOf xs with
    | none => some x
    | some m => some (if x ≤ m then x else m)

/-- the two index maps `map_isort_i`, `map_i_isort` of `_get_chains` (lists of length `n`) -/
def chainMaps (cs : Lat) : Except PyErr (List Nat × List Nat) :=
  let sorted := sortConcepts cs
  let isortI := sorted.mapM fun c => dictIdx cs c
  let iIsort := cs.mapM fun c => dictIdx sorted c
  match isortI, iIsort with
  | some a, some b => .ok (a, b)
  | _, _ => .error .KeyError

/-- `c_sort_i = n-1; while map_isort_i[c_sort_i] in visited: c_sort_i -= 1` (fuel = `c_sort_i + 1`;
    running below 0 is an `IndexError`-free wrap-around in Python that cannot occur while an unvisited
    concept exists: reported as `OutOfFuel`) -/
def chainStart (isortI : List Nat) (visited : List Nat) : Nat → Except PyErr (Nat × Nat)
  | 0 => .error .OutOfFuel
  | k + 1 =>
    let ci := isortI.getD k 0
    if visited.contains ci then chainStart isortI visited k else .ok (ci, k)

/-- the inner `while True:` climb to the first sorted concept through the smallest parent index -/
def chainClimb (parentsOf : Nat → List Nat) (iIsort : List Nat) :
    Nat → Nat → Nat → List Nat → Except PyErr (List Nat)
  | 0, _, _, _ => .error .OutOfFuel
  | fuel + 1, ci, csi, chain =>
    let chain' := chain ++ [ci]
    if csi == 0 then .ok chain'
    else match minOf (parentsOf ci) with
      | none => .error .IndexError        -- `sorted(superconcepts_dict[c_i])[0]` of an empty set
      | some p => chainClimb parentsOf iIsort fuel p (iIsort.getD p 0) chain'

/-- the outer `while len(visited_concepts) < n_concepts:` loop -/
def chainsLoop (parentsOf : Nat → List Nat) (isortI iIsort : List Nat) (n : Nat) :
    Nat → List Nat → List (List Nat) → Except PyErr (List (List Nat))
  | 0, _, _ => .error .OutOfFuel
  | fuel + 1, visited, chains =>
    if visited.length < n then
      match chainStart isortI visited n with
      | .error e => .error e
      | .ok (ci, csi) =>
        match chainClimb parentsOf iIsort (n + 1) ci csi [] with
        | .error e => .error e
        | .ok chain =>
          let visited' := chain.foldl (fun v x => if v.contains x then v else x :: v) visited
          chainsLoop parentsOf isortI iIsort n fuel visited' (chains ++ [chain.reverse])
    else .ok chains

/-- `ConceptLattice._get_chains(concepts, parents_dict, is_concepts_sorted=False)` -/
def getChains (cs : Lat) (parentsOf : Nat → List Nat) : Except PyErr (List (List Nat)) :=
  match chainMaps cs with
  | .error e => .error e
  | .ok (isortI, iIsort) => chainsLoop parentsOf isortI iIsort cs.length (cs.length + 1) [] []

/-- `ConceptLattice.get_chains()` -/
def chains (cs : Lat) (ord : List Nat → List Nat) : Except PyErr (List (List Nat)) :=
  getChains cs (parents cs ord)

end LQ

/-! ## POSet initialisation from a `children_dict` and the Lindig re-indexing -/
namespace LC

/-- a Python dict `{int: set[int]}` in insertion order -/
abbrev Dict := List (Nat × List Nat)

def dget (d : Dict) (k : Nat) : Option (List Nat) := d.lookup k

/-- `d[k] = v` : overwrite in place, or append a new key -/
def dset : Dict → Nat → List Nat → Dict
  | [], k, v => [(k, v)]
  | (k', v') :: rest, k, v => if k' == k then (k', v) :: rest else (k', v') :: dset rest k v

def addElem (s : List Nat) (x : Nat) : List Nat := if s.contains x then s else s ++ [x]

/-- inner loop of `_transpose_hierarchy`: `for v in vs: new_dict[v] = new_dict.get(v, set()) | {k}` -/
def transposeInner (k : Nat) : List Nat → Dict → Dict
  | [], d => d
  | v :: vs, d => transposeInner k vs (dset d v (addElem ((dget d v).getD []) k))

/-- `_transpose_hierarchy` -/
def transposeLoop : Dict → Dict → Dict
  | [], d => d
  | (k, vs) :: rest, d =>
    let d1 := if (dget d k).isNone then dset d k [] else d
    transposeLoop rest (transposeInner k vs d1)

def transposeHierarchy (h : Dict) : Dict := transposeLoop h []

def unionInto (a b : List Nat) : List Nat := b.foldl addElem a

/-- first position of the worklist whose direct relatives are all visited
    (`direct[el] & visited == direct[el]`); `none` when there is none (the Python then reuses a stale `idx`) -/
def findReady (direct : Dict) (visited : List Nat) : List Nat → Nat → Option Nat
  | [], _ => none
  | el :: rest, i =>
    if ((dget direct el).getD []).all (visited.contains ·) then some i else findReady direct visited rest (i + 1)

/-- the `while len(elements_to_visit) > 0` worklist of `_closed_relation_cache_by_direct_cache` -/
def closedLoop (direct trans : Dict) (ord : List Nat → List Nat) :
    Nat → List Nat → List Nat → Dict → Except PyErr Dict
  | 0, _, _, _ => .error .OutOfFuel
  | fuel + 1, toVisit, visited, closed =>
    match toVisit with
    | [] => .ok closed
    | _ =>
      match findReady direct visited toVisit 0 with
      | none => .error .OutOfFuel      -- stale/unbound `idx`: outside the model
      | some idx =>
        let el := toVisit.getD idx 0
        let toVisit' := toVisit.eraseIdx idx
        match dget direct el with
        | none => .error .KeyError
        | some rels =>
          let cl := rels.foldl (fun acc r => unionInto acc ((dget closed r).getD [])) rels
          closedLoop direct trans ord fuel (toVisit' ++ ord ((dget trans el).getD []))
            (addElem visited el) (dset closed el cl)

/-- a fuel that always suffices for the worklist on `n` elements (each pop lowers the potential
    `Σ (n+1)^|ancestors|` of the worklist; lemma `closedByDirect_ok`) -/
def closedFuel (n : Nat) : Nat := (n + 1) ^ (n + 1)

/-- `_closed_relation_cache_by_direct_cache` -/
def closedByDirect (direct : Dict) (ord : List Nat → List Nat) (fuel : Nat) : Except PyErr Dict :=
  let trans := transposeHierarchy direct
  let start := (direct.filter fun p => p.2.length == 0).map (·.1)
  closedLoop direct trans ord fuel start [] []

/-- the caches of a `Lattice` built with a `children_dict` -/
structure Caches where
  children : Dict
  descendants : Dict
  parents : Dict
  ancestors : Dict
  top : Option Nat
  bottom : Option Nat
  deriving Repr, Inhabited

/-- `[i for i in range(n) if len(cache[i]) == 0]` answered from the cache (`_ancestors_cache` hit) -/
def cachedExtremes (cache : Dict) (n : Nat) : List Nat :=
  (List.range n).filter fun i => ((dget cache i).getD []).length == 0

/-- `POSet.__init__` with a `children_dict`, then the semilattice constructors' top/bottom.
    (all keys `0 … n-1` are present in a Lindig `children_dict`, so every query is a cache hit) -/
def initFromChildren (childrenDict : Dict) (n : Nat) (ord : List Nat → List Nat) (fuel : Nat) :
    Except PyErr Caches :=
  match closedByDirect childrenDict ord fuel with
  | .error e => .error e
  | .ok desc =>
    let par := transposeHierarchy childrenDict
    let anc := transposeHierarchy desc
    match cachedExtremes desc n, cachedExtremes anc n with
    | [b], [t] => .ok ⟨childrenDict, desc, par, anc, some t, some b⟩
    | _, _ => .error .ValueError

/-- `{map_i_isort[i]: {map_i_isort[rel] for rel in relatives} for i, relatives in cache.items()}` -/
def reindexDict (m : List Nat) (d : Dict) : Dict :=
  d.foldl (fun acc p => dset acc (m.getD p.1 0) (p.2.foldl (fun s r => addElem s (m.getD r 0)) [])) []

/-- `from_context` (Lindig branch): `map_i_isort` and the re-indexing of the four caches and top/bottom -/
def reindex (cs0 : LQ.Lat) (c : Caches) : Except PyErr (LQ.Lat × List Nat × Caches) :=
  let sorted := LQ.sortConcepts cs0
  match cs0.mapM fun x => LQ.dictIdx sorted x with
  | none => .error .KeyError
  | some m =>
    .ok (sorted, m,
      ⟨reindexDict m c.children, reindexDict m c.descendants, reindexDict m c.parents,
       reindexDict m c.ancestors, c.top.map (m.getD · 0), c.bottom.map (m.getD · 0)⟩)

end LC
end Fca

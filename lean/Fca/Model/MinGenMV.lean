/-
  Fca.Model.MinGenMV — `MVContext.get_minimal_generators` (`fcapy/mvcontext/mvcontext.py:389-495`)
  restricted to interval columns (`IntervalPS`), `use_indexes=True`, `projection_to_start=1`
  (`ps_to_iterate` is a parameter: `getMinimalGeneratorsPs`; the branch without numpy, which wraps the base
  objects into a `frozenset`, is the same routine run on an iteration order of that set: `IsFrozensetOrder`),
  together with the `IntervalPS` methods it calls
  (`extension_i`, `description_to_generators`, `generators_to_description`) and `MVContext.extension_i`.

  Numbers: interval ends are Python floats; the model uses integers extended by ±inf (`EInt`), the
  correspondence check stays on integer-valued data.

  Termination: the Python `while len(min_gens) == 0` has no exit when no combination of generators
  reproduces `ext_true` inside the base objects (e.g. the extension of the intent is not contained in the
  base objects, or the base objects are not ascending: `ext_ == ext_true` compares *lists*).  The model
  takes a fuel argument (number of `while` iterations) and returns `OutOfFuel` when it is used up.
-/
import Fca.Model.MinGen
namespace Fca.MGMV

/-- a float restricted to integers and the two infinities -/
inductive EInt where
  | ninf | fin (v : Int) | pinf
  deriving DecidableEq, Repr, Inhabited

namespace EInt
def le : EInt → EInt → Bool
  | .ninf, _ => true
  | _, .pinf => true
  | .fin a, .fin b => decide (a ≤ b)
  | _, _ => false
/-- Python `max(a, b)` (first argument kept on ties) -/
def max (a b : EInt) : EInt := if a.le b && !(b.le a) then b else a
/-- Python `min(a, b)` -/
def min (a b : EInt) : EInt := if b.le a && !(a.le b) then b else a
end EInt

/-- a generator of an interval description: `None` or a tuple `(lo, hi)` -/
abbrev Gen := Option (EInt × EInt)

/-- an interval description: `None`, a tuple `(lo, hi)`, or a single number -/
inductive Descr where
  | none | iv (lo hi : EInt) | num (x : EInt)
  deriving DecidableEq, Repr, Inhabited

/-- `min_, max_ = description if not isinstance(description, Number) else (description, description)` -/
def Descr.bounds : Descr → Option (EInt × EInt)
  | .none => Option.none
  | .iv lo hi => some (lo, hi)
  | .num x => some (x, x)

/-- an interval column: `self._data[g] = (lo, hi)` -/
abbrev Col := List (Int × Int)

/-- `min_ <= self._data[g_i][0] and self._data[g_i][1] <= max_` (an out-of-range `g_i` raises
    `IndexError` in Python; the model's theorems assume in-range base objects) -/
def sat (col : Col) (d : Descr) (g : Nat) : Bool :=
  match d.bounds with
  | Option.none => false
  | some (lo, hi) =>
    match col[g]? with
    | some (a, b) => lo.le (.fin a) && (EInt.fin b).le hi
    | Option.none => false

/-- `IntervalPS.extension_i(description, base_objects_i)` for a given base list -/
def psExtensionI (col : Col) (d : Descr) (base : List Nat) : List Nat :=
  match d with
  | .none => []
  | _ => base.filter fun g => sat col d g

/-- the `for ps_i, description in descriptions_i.items()` loop of `MVContext.extension_i`, with its `break` -/
def extLoop (cols : List Col) : List (Nat × Descr) → List Nat → List Nat
  | [], extent => extent
  | (ps, d) :: rest, extent =>
    let extent' := psExtensionI (cols.getD ps []) d extent
    if extent'.length = 0 then extent' else extLoop cols rest extent'

/-- `MVContext.extension_i(descriptions_i, base_objects_i)`; `n` = number of objects -/
def extensionI (cols : List Col) (n : Nat) (descr : List (Nat × Descr)) (base : Option (List Nat)) : List Nat :=
  match base with
  | some b => if b.length = 0 then [] else extLoop cols descr b
  | Option.none => extLoop cols descr (List.range n)

/-- `IntervalPS.description_to_generators(description, projection_num)` -/
def descriptionToGenerators (d : Descr) (proj : Nat) : List Gen :=
  match d.bounds with
  | Option.none => [Option.none]
  | some (lo, hi) =>
    if proj = 0 then [some (.ninf, .pinf)]
    else if proj = 1 then [some (.ninf, hi), some (lo, .pinf)]
    else [some (lo, hi)]

/-- `get_generators(ps_i, descr, max_projection_num)` with `projection_to_start = 1` -/
def getGenerators (d : Descr) (maxProj : Nat) : List Gen :=
  (List.range' 1 maxProj).flatMap fun p => descriptionToGenerators d p

/-- `IntervalPS.generators_to_description(generators)` -/
def generatorsToDescription (gens : List Gen) : Except PyErr Descr :=
  if gens.any (·.isNone) then .ok .none
  else
    match gens.filterMap id with
    | [] => .error .IndexError                      -- `generators[0]` of an empty zip
    | (l0, r0) :: rest =>
      let lo := rest.foldl (fun acc p => EInt.max acc p.1) l0
      let hi := rest.foldl (fun acc p => EInt.min acc p.2) r0
      if !(lo.le hi) then .error .AssertionError
      else if lo = hi then .ok (.num lo) else .ok (.iv lo hi)

abbrev PGen := Nat × Gen                      -- `(ps_i, gen)`
abbrev DescrD := List (Nat × Descr)           -- a description dict, keys ascending

/-- `set.add` of a frozendict (kept with ascending keys, so list equality is dict equality) -/
def setAddD (s : List DescrD) (x : DescrD) : List DescrD := if s.contains x then s else s ++ [x]

/-- ascending duplicate-free list of the pattern-structure indexes occurring in `comb` -/
def pssOf (comb : List PGen) : List Nat := pySorted ((comb.map (·.1)).eraseDups)

/-- `descr = {ps_i: generators_to_description([gen[1] for gen in comb if gen[0] == ps_i]) for ps_i in pss_i}` -/
def combDescr (comb : List PGen) : List Nat → Except PyErr DescrD
  | [] => .ok []
  | ps :: rest =>
    match generatorsToDescription ((comb.filter (·.1 == ps)).map (·.2)) with
    | .error e => .error e
    | .ok d =>
      match combDescr comb rest with
      | .error e => .error e
      | .ok ds => .ok ((ps, d) :: ds)

/-- dictionary update `generator_volumes[key] = v` -/
def volSet (vols : List (PGen × Nat)) (k : PGen) (v : Nat) : List (PGen × Nat) :=
  (k, v) :: vols.filter (fun p => !(p.1 == k))

def volGet (vols : List (PGen × Nat)) (k : PGen) : Option Nat := (vols.find? (·.1 == k)).map (·.2)

structure St where
  vols : List (PGen × Nat)
  minGens : List DescrD
  deriving Inhabited

/-- body of `for comb in combinations(generators_to_iterate, comb_size)` folded over the combinations -/
def combLoop (cols : List Col) (n : Nat) (baseGen : List PGen) (bo : List Nat) (extTrue : List Nat)
    (combSize : Nat) : List (List PGen) → St → Except PyErr St
  | [], st => .ok st
  | c :: rest, st =>
    let comb := baseGen ++ c
    match combDescr comb (pssOf comb) with
    | .error e => .error e
    | .ok descr =>
      let ext := extensionI cols n descr (some bo)
      let vols' := if combSize = 1 then
          match comb.getLast? with
          | some k => volSet st.vols k ext.length
          | Option.none => st.vols
        else st.vols
      let minGens' := if ext = extTrue then setAddD st.minGens descr else st.minGens
      combLoop cols n baseGen bo extTrue combSize rest ⟨vols', minGens'⟩

/-- stable insertion by volume (Python `sorted(..., key=volume)`) -/
def insertByVol (x : PGen × Nat) : List (PGen × Nat) → List (PGen × Nat)
  | [] => [x]
  | y :: ys => if x.2 ≤ y.2 then x :: y :: ys else y :: insertByVol x ys

def sortByVol (xs : List (PGen × Nat)) : List (PGen × Nat) := xs.foldr insertByVol []

/-- `[gen for gen in gens if vol[gen] < size]` then sorted by volume; `KeyError` for a missing volume -/
def filterSortGens (vols : List (PGen × Nat)) (size : Nat) : List PGen → Except PyErr (List (PGen × Nat))
  | [] => .ok []
  | g :: rest =>
    match volGet vols g with
    | Option.none => .error .KeyError
    | some v =>
      match filterSortGens vols size rest with
      | .error e => .error e
      | .ok r => .ok (if v < size then (g, v) :: r else r)

/-- positions-based `itertools.combinations(items, k)` -/
def combinationsOf (items : List PGen) (k : Nat) : List (List PGen) :=
  (combinations (List.range items.length) k).map fun idx => idx.filterMap fun i => items[i]?

/-- `for comb_size in range(1, len(generators_to_iterate))` (the range is fixed before the loop;
    `generators_to_iterate` is re-assigned after `comb_size == 1`), with the `break` -/
def sizeLoop (cols : List Col) (n : Nat) (baseGen : List PGen) (bo : List Nat) (extTrue : List Nat) :
    List Nat → List PGen → St → Except PyErr St
  | [], _, st => .ok st
  | combSize :: sizes, gens, st =>
    match combLoop cols n baseGen bo extTrue combSize (combinationsOf gens combSize) st with
    | .error e => .error e
    | .ok st' =>
      let gens'E : Except PyErr (List PGen) :=
        if combSize = 1 then
          match filterSortGens st'.vols bo.length gens with
          | .error e => .error e
          | .ok gv => .ok ((sortByVol gv).map (·.1))
        else .ok gens
      match gens'E with
      | .error e => .error e
      | .ok gens' =>
        if st'.minGens.length > 0 then .ok st'
        else sizeLoop cols n baseGen bo extTrue sizes gens' st'

/-- one pass of the body of the `while` loop for a given `max_projection_num`;
    `psIter` = `ps_to_iterate` (a list of pattern-structure indexes, in the caller's order, repetitions kept):
    `generators_to_iterate = [(ps_i, gen) for ps_i in ps_to_iterate for gen in get_generators(ps_i, ...)]` -/
def whileBody (cols : List Col) (n : Nat) (intent : List Descr) (psIter : List Nat) (baseGen : List PGen)
    (bo : List Nat) (extTrue : List Nat) (maxProj : Nat) (minGens : List DescrD) : Except PyErr St :=
  let gens : List PGen := psIter.flatMap fun ps =>
    (getGenerators (intent.getD ps .none) maxProj).map fun g => (ps, g)
  sizeLoop cols n baseGen bo extTrue (List.range' 1 (gens.length - 1)) gens ⟨[], minGens⟩

/-- the `while len(min_gens) == 0` loop; `fuel` bounds the number of iterations -/
def whileLoop (cols : List Col) (n : Nat) (intent : List Descr) (psIter : List Nat) (baseGen : List PGen)
    (bo : List Nat) (extTrue : List Nat) : Nat → Nat → List DescrD → Except PyErr (List DescrD)
  | fuel, maxProj, minGens =>
    if minGens.length ≠ 0 then .ok minGens
    else
      match fuel with
      | 0 => .error .OutOfFuel
      | fuel' + 1 =>
        match whileBody cols n intent psIter baseGen bo extTrue maxProj minGens with
        | .error e => .error e
        | .ok st => whileLoop cols n intent psIter baseGen bo extTrue fuel' (maxProj + 1) st.minGens

/-- `MVContext.get_minimal_generators(intent, base_generator, base_objects, use_indexes=True, ps_to_iterate=...)`:
    `intent` lists the description of every pattern structure (`intent[ps_i]`), `baseGen` the items of
    the base-generator dict, `baseObjs = none` is all objects, `psIter = none` is
    `range(len(self._pattern_structures))`.  A pattern-structure index outside the intent raises `KeyError`
    (`intent_i[ps_i]`) in the first pass of the `while` loop. -/
def getMinimalGeneratorsPs (cols : List Col) (n : Nat) (intent : List Descr) (baseGen : List PGen)
    (baseObjs : Option (List Nat)) (psIter : Option (List Nat)) (fuel : Nat) : Except PyErr (List DescrD) :=
  let bo := baseObjs.getD (List.range n)
  let ps := psIter.getD (List.range intent.length)
  let extTrue := extensionI cols n ((List.range intent.length).zip intent) Option.none
  if ps.any (fun j => decide (intent.length ≤ j)) then .error .KeyError
  else whileLoop cols n intent ps baseGen bo extTrue fuel 1 []

/-- the routine with `ps_to_iterate=None` -/
def getMinimalGenerators (cols : List Col) (n : Nat) (intent : List Descr) (baseGen : List PGen)
    (baseObjs : Option (List Nat)) (fuel : Nat) : Except PyErr (List DescrD) :=
  getMinimalGeneratorsPs cols n intent baseGen baseObjs Option.none fuel

/-- the branch `not LIB_INSTALLED['numpy']` wraps the base objects into a `frozenset` before the search:
    repetitions disappear and the iteration order is the (unspecified) order of that set.  `ord` is an
    admissible iteration order of `frozenset(bo)`. -/
def IsFrozensetOrder (bo ord : List Nat) : Prop := ord.Nodup ∧ ∀ g, g ∈ ord ↔ g ∈ bo

end Fca.MGMV

/-
  Fca.Model.SemiLattice — executable model of `fcapy/poset/lattice.py`
  (`UpperSemiLattice`, `LowerSemiLattice`, `Lattice(UpperSemiLattice, LowerSemiLattice)`) on top of the model of
  `POSet` in `Fca.Model.Poset`.  `ConceptLattice` (fcapy/lattice/concept_lattice.py) overrides none of
  `add / remove / __delitem__ / top / bottom`, so `ConceptLattice.add/remove` is this machine with class tag
  `.lattice`, `use_cache=True`, on concepts compared by `FormalConcept.__le__` (extent inclusion).

  Shape of the model
  * state `SL = ⟨cls, p, cacheTop, cacheBottom⟩`: the class tag (which methods the MRO finds), the `POSet` state and
    the two instance attributes `_cache_top` / `_cache_bottom` (`none` = the attribute holds `None` or - with
    `use_cache=False` / for a class that has no such extreme - was never set; it is read only behind
    `if self._use_cache`).
  * `Dir` as in the poset model: `.anc` = the top side (`top`, `tops`, `UpperSemiLattice`), `.desc` = the bottom side.
    `UpperSemiLattice` and `LowerSemiLattice` are textually symmetric; each method is written once with a `Dir`.
  * Python's MRO for `Lattice` is `Lattice, UpperSemiLattice, LowerSemiLattice, POSet`; every method of the two
    semilattices finishes with `super(X, self).method(...)`, so for a `Lattice`
      `__init__`     = Upper's length check; Lower's length check; `POSet.__init__`; Lower's bottoms check + cache;
                       Upper's tops check + cache,
      `add`          = upper guard; lower guard; `POSet.add`; lower index update; upper index update,
      `__delitem__`  = upper guard; lower guard; `POSet.__delitem__`; lower decrement; upper decrement,
      `remove`       = upper guard; lower guard; `POSet.remove`, whose `del self[idx]` dispatches to the most derived
                       `__delitem__` again.
    `super(UpperSemiLattice, self).tops` is `POSet.tops` in every class (LowerSemiLattice defines no `tops`).
  * `POSet.add` calls `self.trace_element`, which reads `self.tops` / `self.bottoms`: on a semilattice these are the
    overridden properties (`[self.top]`), so the trace starts from the cached extreme index, not from a scan.
    `posetAddSL` is `POSet.add` (`Fca.Poset.addE`) with that dispatch made explicit.
-/
import Fca.Model.Poset
namespace Fca.SemiLattice
open Fca Fca.Poset

/-- which class the instance has -/
inductive Cls where
  | upper | lower | lattice
  deriving DecidableEq, Repr

/-- does the class define the `d`-side extreme (`top/tops` for `.anc`, `bottom/bottoms` for `.desc`)? -/
def Cls.has : Cls → Dir → Bool
  | .upper, .anc => true
  | .upper, .desc => false
  | .lower, .anc => false
  | .lower, .desc => true
  | .lattice, _ => true

structure SL (α : Type) where
  cls         : Cls
  p           : St α
  cacheTop    : Option Nat
  cacheBottom : Option Nat
  deriving Repr

namespace SL
variable {α : Type}
/-- `_cache_top` (`.anc`) / `_cache_bottom` (`.desc`) -/
def cache (s : SL α) : Dir → Option Nat
  | .anc => s.cacheTop
  | .desc => s.cacheBottom
def setCache (s : SL α) (d : Dir) (v : Option Nat) : SL α :=
  match d with
  | .anc => { s with cacheTop := v }
  | .desc => { s with cacheBottom := v }
end SL

/-- state-passing computation on a semilattice that may raise; the state is kept when it raises -/
def ML (α β : Type) := SL α → SL α × Except PyErr β

namespace ML
variable {α β γ : Type}
@[inline] protected def pure (b : β) : ML α β := fun s => (s, .ok b)
@[inline] protected def bind (m : ML α β) (f : β → ML α γ) : ML α γ := fun s =>
  match m s with
  | (s', .ok b) => f b s'
  | (s', .error e) => (s', .error e)
instance : Monad (ML α) where
  pure := ML.pure
  bind := ML.bind
@[inline] def throw (e : PyErr) : ML α β := fun s => (s, .error e)
@[inline] def get : ML α (SL α) := fun s => (s, .ok s)
@[inline] def modify (f : SL α → SL α) : ML α Unit := fun s => (f s, .ok ())
/-- run a `POSet` method (`super().method(...)` that needs nothing of the subclass) -/
@[inline] def lift (m : M α β) : ML α β := fun s => ({ s with p := (m s.p).1 }, (m s.p).2)
end ML

section Model
variable {α : Type} [DecidableEq α] (leq : α → α → Bool) (ord : List Nat → List Nat)

/-! ### `top` / `bottom`, `tops` / `bottoms` -/

/-- the property `top` (`d = .anc`) / `bottom` (`d = .desc`):
    `if self._use_cache: (if self._cache_top is None: self._cache_top = super().tops[0]); return self._cache_top`
    `else: return super().tops[0]` -/
def extremeE (d : Dir) : ML α Nat := do
  let s ← ML.get
  if s.p.useCache then
    match s.cache d with
    | some t => pure t
    | none => do
      let xs ← ML.lift (extremesE leq d)
      match xs with
      | [] => ML.throw .IndexError
      | t :: _ => do
        ML.modify fun s => s.setCache d (some t)
        pure t
  else do
    let xs ← ML.lift (extremesE leq d)
    match xs with
    | [] => ML.throw .IndexError
    | t :: _ => pure t

/-- `self.tops` / `self.bottoms` as the instance dispatches it: `[self.top]` where the class overrides it,
    `POSet.tops` otherwise -/
def extremesSL (d : Dir) : ML α (List Nat) := do
  let s ← ML.get
  if s.cls.has d then do
    let t ← extremeE leq d
    pure [t]
  else ML.lift (extremesE leq d)

/-! ### `add` -/

/-- `trace_element` after `start_elements` has been read -/
def traceFrom (d : Dir) (e : α) (start : List Nat) : M α (List Nat × List Nat) := do
  let s ← M.get
  let tv ← M.ofExcept (filterCmp leq d e s.elems start)
  traceLoop leq ord d e (s.elems.length + 1) tv [] []

/-- `self.trace_element(element, 'up' | 'down')` on a semilattice: `start_elements = self.bottoms | self.tops`
    is the overridden property -/
def traceElementSL (d : Dir) (e : α) : ML α (List Nat × List Nat) := do
  let start ← extremesSL leq d
  ML.lift (traceFrom leq ord d e start)

/-- the `if fill_up_cache:` block of `POSet.add` (`n = len(self._elements)`, the index of the new element) -/
def posetAddFillSL (e : α) (n : Nat) : ML α Unit := do
  ML.lift (M.modify fun p => { p with leqC := ainsert (n, n) true p.leqC })
  let (ch, de) ← traceElementSL leq ord .desc e
  ML.lift (M.modify fun p => { p with chilC := ainsert n ch p.chilC })
  ML.lift (M.modify fun p => { p with descC := ainsert n de p.descC })
  let (pa, an) ← traceElementSL leq ord .anc e
  ML.lift (M.modify fun p => { p with parC := ainsert n pa p.parC })
  ML.lift (M.modify fun p => { p with ancC := ainsert n an p.ancC })
  ML.lift (M.forM (addPatch n) (List.range n))

/-- the `if self._use_cache:` block of `POSet.add` -/
def posetAddCacheSL (e : α) (fill : Bool) : ML α Unit := do
  let s ← ML.get
  if s.p.useCache then
    if fill then posetAddFillSL leq ord e s.p.elems.length
    else ML.lift (M.modify fun p => { p with descC := [], ancC := [], chilC := [], parC := [] })
  else pure ()

/-- `POSet.add(element, fill_up_cache)` executed on a semilattice instance (the body of `Fca.Poset.addE`, with
    `trace_element` dispatching `self.tops/self.bottoms` to the subclass) -/
def posetAddSL (e : α) (fill : Bool) : ML α Unit := do
  let s ← ML.get
  if e ∈ s.p.elems then pure ()
  else do
    posetAddCacheSL leq ord e fill
    ML.lift (M.modify fun p => { p with elems := p.elems ++ [e] })

/-- the comparability guard of `add` on the `d` side:
    `is_smaller = leq_func(element, self._elements[self.top])`, `is_bigger = leq_func(self._elements[self.top], element)`,
    `if not (is_smaller or is_bigger): raise ValueError`.
    Returns the flag the index update needs: `is_bigger_than_top` (`.anc`) / `is_smaller_than_bottom` (`.desc`). -/
def guardAdd (d : Dir) (e : α) : ML α Bool := do
  let t1 ← extremeE leq d
  let s ← ML.get
  match s.p.elems[t1]? with
  | none => ML.throw .IndexError
  | some x1 => do
    let smaller := leq e x1
    let t2 ← extremeE leq d
    let s ← ML.get
    match s.p.elems[t2]? with
    | none => ML.throw .IndexError
    | some x2 =>
      let bigger := leq x2 e
      if !(smaller || bigger) then ML.throw .ValueError
      else pure (match d with
        | .anc => bigger
        | .desc => smaller)

/-- `if self._use_cache: if is_bigger_than_top: self._cache_top = self._elements_to_index_map[element]` -/
def updateAfterAdd (d : Dir) (beyond : Bool) (e : α) : ML α Unit := do
  let s ← ML.get
  if s.p.useCache then
    if beyond then
      match indexOf? e s.p.elems with
      | some i => ML.modify fun s => s.setCache d (some i)
      | none => ML.throw .KeyError
    else pure ()
  else pure ()

/-- `add(element, fill_up_cache)` of the instance's class -/
def addSL (e : α) (fill : Bool) : ML α Unit := do
  let s ← ML.get
  match s.cls with
  | .upper => do
    let bt ← guardAdd leq .anc e
    posetAddSL leq ord e fill
    updateAfterAdd .anc bt e
  | .lower => do
    let bb ← guardAdd leq .desc e
    posetAddSL leq ord e fill
    updateAfterAdd .desc bb e
  | .lattice => do
    let bt ← guardAdd leq .anc e
    let bb ← guardAdd leq .desc e
    posetAddSL leq ord e fill
    updateAfterAdd .desc bb e
    updateAfterAdd .anc bt e

/-! ### `__delitem__`, `remove` -/

/-- `if self.top == key: raise KeyError` -/
def guardDel (d : Dir) (k : Nat) : ML α Unit := do
  let t ← extremeE leq d
  if t = k then ML.throw .KeyError else pure ()

/-- `if self._use_cache: self._cache_top -= int(self._cache_top > key)` -/
def updateAfterDel (d : Dir) (k : Nat) : ML α Unit := do
  let s ← ML.get
  if s.p.useCache then
    match s.cache d with
    | none => ML.throw .TypeError            -- `None > key`
    | some t => ML.modify fun s => s.setCache d (some (t - (if t > k then 1 else 0)))
  else pure ()

/-- `del self[key]` of the instance's class -/
def delSL (k : Nat) : ML α Unit := do
  let s ← ML.get
  match s.cls with
  | .upper => do
    guardDel leq .anc k
    ML.lift (delE ord k)
    updateAfterDel .anc k
  | .lower => do
    guardDel leq .desc k
    ML.lift (delE ord k)
    updateAfterDel .desc k
  | .lattice => do
    guardDel leq .anc k
    guardDel leq .desc k
    ML.lift (delE ord k)
    updateAfterDel .desc k
    updateAfterDel .anc k

/-- `if self._elements[self.top] == element: raise ValueError` -/
def guardRemove (d : Dir) (e : α) : ML α Unit := do
  let t ← extremeE leq d
  let s ← ML.get
  match s.p.elems[t]? with
  | none => ML.throw .IndexError
  | some x => if x = e then ML.throw .ValueError else pure ()

/-- `POSet.remove`: `idx = self.index(element); del self[idx]` - the `del` is dispatched on the instance -/
def posetRemoveSL (e : α) : ML α Unit := do
  let i ← ML.lift (indexE e)
  delSL leq ord i

/-- `remove(element)` of the instance's class -/
def removeSL (e : α) : ML α Unit := do
  let s ← ML.get
  match s.cls with
  | .upper => do
    guardRemove leq .anc e
    posetRemoveSL leq ord e
  | .lower => do
    guardRemove leq .desc e
    posetRemoveSL leq ord e
  | .lattice => do
    guardRemove leq .anc e
    guardRemove leq .desc e
    posetRemoveSL leq ord e

/-! ### construction -/

/-- the part of `UpperSemiLattice.__init__` / `LowerSemiLattice.__init__` after `super().__init__(...)`:
    `xs = super().tops; if len(xs) != 1: raise ValueError; if use_cache: self._cache_top = xs[0]` -/
def ctorSide (d : Dir) (useCache : Bool) : ML α Unit := do
  let xs ← ML.lift (extremesE leq d)
  if xs.length != 1 then ML.throw .ValueError
  else if useCache then ML.modify fun s => s.setCache d xs.head?
  else pure ()

/-- `UpperSemiLattice(E, leq, use_cache)` / `LowerSemiLattice(…)` / `Lattice(…)` (no `children_dict`) -/
def ctor (cls : Cls) (E : List α) (useCache : Bool) : Except PyErr (SL α) :=
  if E.length = 0 then .error .ValueError          -- `if len(elements) == 0: raise ValueError`
  else
    let s0 : SL α := ⟨cls, init E useCache, none, none⟩
    let m : ML α Unit :=
      match cls with
      | .upper => ctorSide leq .anc useCache
      | .lower => ctorSide leq .desc useCache
      | .lattice => do
        ctorSide leq .desc useCache      -- body of `LowerSemiLattice.__init__`, run by Upper's `super().__init__`
        ctorSide leq .anc useCache
    match m s0 with
    | (s, .ok ()) => .ok s
    | (_, .error e) => .error e

/-! ### operations and the step function -/

inductive OpSL (α : Type) where
  /-- the property `top` (`.anc`) / `bottom` (`.desc`) -/
  | extreme (d : Dir)
  /-- any `POSet` operation, dispatched on the instance (`tops/bottoms`, `add`, `del`, `remove` are overridden) -/
  | op (o : Op α)
  deriving Repr

def stepSL (s : SL α) : OpSL α → SL α × Out
  | .extreme d =>
    -- a class without that property raises `AttributeError`, which `PyErr` does not have; it is reported as
    -- `NotImplementedError`, is outside `opOkSL`, and the harness never issues it
    if s.cls.has d then
      let r := extremeE leq d s
      (r.1, outOf .nat r.2)
    else (s, .err .NotImplementedError)
  | .op (.extremes d) => let r := extremesSL leq d s; (r.1, outOf .list r.2)
  | .op (.add e fill) => let r := addSL leq ord e fill s; (r.1, outOf (fun _ => .unit) r.2)
  | .op (.del i) => let r := delSL leq ord i s; (r.1, outOf (fun _ => .unit) r.2)
  | .op (.remove e) => let r := removeSL leq ord e s; (r.1, outOf (fun _ => .unit) r.2)
  | .op o => let r := step leq ord s.p o; ({ s with p := r.1 }, r.2)

/-- run a history; returns the final state and the outputs -/
def runSL (s : SL α) : List (OpSL α) → SL α × List Out
  | [] => (s, [])
  | op :: ops =>
    let r := stepSL leq ord s op
    let rest := runSL r.1 ops
    (rest.1, r.2 :: rest.2)

end Model
end Fca.SemiLattice

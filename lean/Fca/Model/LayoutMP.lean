/-
  Fca.Model.LayoutMP — executable model of `fcapy.visualizer.line_layouts.multipartite_layout`:

      c_levels, levels_dict = calc_levels(poset)
      G = poset.to_networkx('down')                       # nodes 0..n-1 (keys of `children_dict`)
      nx.set_node_attributes(G, dict(enumerate(c_levels)), 'level')
      pos = nx.multipartite_layout(G, subset_key='level', align='horizontal')
      pos = {c_i: [p[0], -p[1]] for c_i, p in pos.items()}

  `nx.multipartite_layout` and `nx.rescale_layout` are modelled from the source of networkx 3.6.x
  (`networkx/drawing/layout.py`), in exact rationals (core `Rat`); no `Float`, no Mathlib.
  The only unspecified ingredient is the iteration order of the Python `set` of the members of a layer
  (`nx.utils.groups` builds `level ↦ set(nodes)`; `nodes.extend(layer)` iterates it): it is the explicit
  parameter `ord : List Nat → List Nat` (applied to the ascending listing of the set) and the theorems
  quantify over every `ord` that permutes its argument.
-/
import Fca.Model.Layout
namespace Fca.Layout

/-- keys of `nx.utils.groups(node_to_subset)` after `dict(sorted(subset_key.items()))`: the distinct
    levels that occur, ascending (the keys are distinct, so the sets are never compared by `sorted`) -/
def mpKeys (l : List Nat) : List Nat :=
  (List.range (l.foldl max 0 + 1)).filter fun k => l.contains k

/-- the set `groups(node_to_subset)[k]` = nodes whose attribute `level` is `k`, listed ascending
    (`node_to_subset = {i: c_levels[i]}`: every node of `G` gets the attribute because
    `len(c_levels) = len(poset)`; otherwise networkx raises `NetworkXError`) -/
def mpGroup (l : List Nat) (k : Nat) : List Nat :=
  (List.range l.length).filter fun i => l.getD i 0 == k

/-- `layers.values()` with every set in its iteration order -/
def mpLayers (l : List Nat) (ord : List Nat → List Nat) : List (List Nat) :=
  (mpKeys l).map fun k => ord (mpGroup l k)

/-- `np.column_stack([np.repeat(i, height), np.arange(0, height)]) - ((width-1)/2, (height-1)/2)` -/
def mpLayerPos (width i height : Nat) : List (Rat × Rat) :=
  (List.range height).map fun (k : Nat) =>
    ((i : Rat) - ((width : Rat) - 1) / 2, (k : Rat) - ((height : Rat) - 1) / 2)

/-- `for i, layer in enumerate(layers.values())`: `nodes.extend(layer)` and
    `pos = np.concatenate([pos, layer_pos])`; result `(nodes, pos)` -/
def mpLoop (width : Nat) : Nat → List (List Nat) → List Nat × List (Rat × Rat)
  | _, [] => ([], [])
  | i, layer :: rest =>
    let r := mpLoop width (i + 1) rest
    (layer ++ r.1, mpLayerPos width i layer.length ++ r.2)

def sumQ (xs : List Rat) : Rat := xs.foldl (· + ·) 0

/-- `column.mean()` -/
def meanQ (xs : List Rat) : Rat := sumQ xs / (xs.length : Rat)

def absQ (x : Rat) : Rat := if x < 0 then -x else x

/-- `np.abs(pos).max()` over all entries of a non-empty array (absolute values are `≥ 0`, so folding from
    `0` gives the same value) -/
def maxAbs (ps : List (Rat × Rat)) : Rat :=
  ps.foldl (fun m p =>
    let m1 := if m < absQ p.1 then absQ p.1 else m
    if m1 < absQ p.2 then absQ p.2 else m1) 0

/-- `nx.rescale_layout(pos, scale=1)`: `pos -= pos.mean(axis=0)`; `lim = np.abs(pos).max()`;
    `if lim > 0: pos *= scale / lim` -/
def rescaleLayout (ps : List (Rat × Rat)) : List (Rat × Rat) :=
  let mx := meanQ (ps.map (·.1))
  let my := meanQ (ps.map (·.2))
  let qs := ps.map fun p => (p.1 - mx, p.2 - my)
  let lim := maxAbs qs
  if 0 < lim then qs.map fun p => (p.1 * (1 / lim), p.2 * (1 / lim)) else qs

/-- `dict(zip(nodes, pos))` of `nx.multipartite_layout(G, subset_key='level', align='horizontal')`
    (`+ center` adds the zero vector; `pos[:, ::-1]` swaps the coordinates).  A key occurring twice would
    keep its last value in Python and its first in `List.lookup`; the layers are disjoint, so no key does
    (`mpDict_keys_nodup`). -/
def mpDict (l : List Nat) (ord : List Nat → List Nat) : List (Nat × (Rat × Rat)) :=
  let layers := mpLayers l ord
  let r := mpLoop layers.length 0 layers
  let pos := (rescaleLayout r.2).map fun p => (p.2, p.1)
  r.1.zip pos

/-- `pos[c]` of fcapy's result `{c_i: [p[0], -p[1]] for c_i, p in pos.items()}` (a node without a
    position would be a missing key; `mpNode_affine` shows that every node `< len(c_levels)` has one) -/
def mpNode (l : List Nat) (ord : List Nat → List Nat) (c : Nat) : Rat × Rat :=
  match (mpDict l ord).lookup c with
  | some p => (p.1, -p.2)
  | none => (0, 0)

/-- `multipartite_layout(poset)` given `c_levels = l`: position `i` of the result is `pos[i] = [x, y]`.
    (`len(G) == 0` returns `{}`.) -/
def mpLayout (P : PosetData) (l : List Nat) (ord : List Nat → List Nat) : List (Rat × Rat) :=
  (List.range P.n).map (mpNode l ord)

/-- the whole function: `calc_levels` first (its exceptions propagate) -/
def multipartiteLayout (P : PosetData) (fuel : Nat) (ord : List Nat → List Nat) :
    Except VErr (List (Rat × Rat)) :=
  match calcLevels P fuel with
  | .error e => .error e
  | .ok (cl, _) => .ok (mpLayout P cl ord)

end Fca.Layout

/-
  Fca.Model.MVContext — `MVContext` (`fcapy/mvcontext/mvcontext.py`), the many-valued branch of
  `close_by_one`, `close_by_one_objectwise`, `close_by_one_objectwise_fbarray` as used on the binarised
  context (`fcapy/algorithms/concept_construction.py`) and `PatternConcept.from_objects`
  (`fcapy/lattice/pattern_concept.py`).  Property C14.
-/
import Fca.Model.MVPS
import Fca.Model.Context
namespace Fca.MV

/-- a many-valued context: its pattern structures (one per attribute, in attribute order), the number of
    objects and the object names -/
structure MVCtx where
  cols : List Col
  nObjects : Nat
  objNames : List String
  deriving Repr, Inhabited

/-- `descriptions_i`: a dict `{ps_i: description}` in its iteration order (keys pairwise distinct) -/
abbrev Desc := List (Nat × DVal)

namespace MVCtx

/-- every column has one value per object -/
def WF (K : MVCtx) : Prop := ∀ c ∈ K.cols, c.len = K.nObjects

instance (K : MVCtx) : Decidable K.WF := by unfold WF; infer_instance

/-- `for ps_i, description in descriptions_i.items(): extent_i = ps.extension_i(description,
    base_objects_i=extent_i); if len(extent_i) == 0: break` -/
def extLoop (cols : List Col) : Desc → List Nat → Except PyErr (List Nat)
  | [], ext => .ok ext
  | (i, d) :: rest, ext =>
    match cols[i]? with
    | none => .error .IndexError
    | some c =>
      match c.extensionI d ext with
      | .error e => .error e
      | .ok ext' => if ext'.length = 0 then .ok ext' else extLoop cols rest ext'

/-- `MVContext.extension_i(descriptions_i, base_objects_i)` -/
def extensionI (K : MVCtx) (desc : Desc) (base : Option (List Nat)) : Except PyErr (List Nat) :=
  match base with
  | some [] => .ok []
  | some bs => extLoop K.cols desc bs
  | none => extLoop K.cols desc (List.range K.nObjects)

/-- `MVContext.intention_i(object_indexes)`: `{ps_i: ps.intention_i(object_indexes)}` in column order -/
def intentionI (K : MVCtx) (objs : List Nat) : Desc :=
  K.cols.zipIdx.map fun ci => (ci.2, ci.1.intentionI objs)

/-- `MVContext.to_bin_attr_extents()` (extents only; attribute names are not part of the property) -/
def binAttrExtents (K : MVCtx) : List (List Bool) := K.cols.flatMap Col.binAttrExtents

/-- `MVContext.n_bin_attrs` -/
def nBinAttrs (K : MVCtx) : Nat := (K.cols.map Col.nBinAttrs).sum

/-- `AbstractBinTable.T`: `[column j for j in range(width)]` -/
def tr (t : Table) : Table :=
  ⟨(List.range t.width).map fun a => (List.range t.height).map fun g => t.get g a, t.height⟩

/-- the binarised formal context: table + object names -/
structure BinCtx where
  table : Table
  objNames : List String
  deriving Repr, Inhabited

/-- `MVContext.binarize()`: `FormalContext(list(attr_extents)).T` with the object names copied.
    (No pattern structure at all → `zip(*[])` cannot be unpacked: `ValueError`.) -/
def binarize (K : MVCtx) : Except PyErr BinCtx :=
  let exts := K.binAttrExtents
  if exts.isEmpty then .error .ValueError
  else .ok ⟨tr (Table.ofRows exts), K.objNames⟩

/-- a pattern concept as far as the property looks at it: `extent_i`, `intent_i` -/
structure PC where
  extent : List Nat
  intent : Desc
  deriving Repr, Inhabited, DecidableEq

/-- `PatternConcept.from_objects(objects_i, K, is_extent)` -/
def fromObjects (K : MVCtx) (objs : List Nat) (isExtent : Bool) : Except PyErr PC :=
  let intent := K.intentionI objs
  if isExtent then .ok ⟨objs, intent⟩
  else
    match K.extensionI intent none with
    | .error e => .error e
    | .ok e => .ok ⟨e, intent⟩

/-- `range(lo, hi)` -/
def rangeFrom (lo hi : Nat) : List Nat := (List.range (hi - lo)).map (· + lo)

/-! ### close_by_one_objectwise (on descriptions) -/

/-- one iteration of the `while combinations_to_check:` loop for the popped combination:
    `(concept yielded or none, new combinations in the order they are appended)` -/
def cboObjStep (K : MVCtx) (comb : List Nat) : Except PyErr (Option PC × List (List Nat)) :=
  let intent := K.intentionI comb
  let canon : Except PyErr Bool :=
    match comb.getLast? with
    | none => .ok true
    | some last =>
      -- objects_lexicographic = [g_i for g_i in range(comb_i[-1]) if g_i not in comb_i_set]
      match K.extensionI intent (some ((List.range last).filter fun g => !comb.contains g)) with
      | .error e => .error e
      | .ok el => .ok el.isEmpty
  match canon with
  | .error e => .error e
  | .ok false => .ok (none, [])
  | .ok true =>
    let lo := match comb.getLast? with | none => 0 | some l => l + 1
    let base := (rangeFrom lo K.nObjects).filter fun g => !comb.contains g
    match K.extensionI intent (some base) with
    | .error e => .error e
    | .ok rest =>
      let extent := comb ++ rest
      -- `if extent_i in extents_i_found: continue`: the set is never added to in the code, so the
      -- test never fires; kept out of the model for that reason.
      match K.fromObjects extent true with
      | .error e => .error e
      | .ok pc =>
        -- possible_new_objects = range(n_objs - 1, (comb_i[-1] if comb_i else 0) - 1, -1)
        let start := match comb.getLast? with | none => 0 | some l => l
        let news := ((rangeFrom start K.nObjects).reverse.filter fun g => !extent.contains g).map
          fun g => extent ++ [g]
        .ok (some pc, news)

/-- the worklist: `stack` has the right end of the deque first (`pop()` takes the head,
    `extend(new)` puts `new` reversed in front) -/
def cboObjLoop (K : MVCtx) : Nat → List (List Nat) → List PC → Except PyErr (List PC)
  | _, [], acc => .ok acc.reverse
  | 0, _ :: _, _ => .error .OutOfFuel
  | fuel + 1, comb :: rest, acc =>
    match cboObjStep K comb with
    | .error e => .error e
    | .ok (none, _) => cboObjLoop K fuel rest acc
    | .ok (some pc, news) => cboObjLoop K fuel (news.reverse ++ rest) (pc :: acc)

/-- `close_by_one_objectwise(context)` for an `MVContext` -/
def cboObjectwise (K : MVCtx) (fuel : Nat) : Except PyErr (List PC) := cboObjLoop K fuel [[]] []

/-! ### close_by_one_objectwise_fbarray on a formal context (the binarised one) -/

def band (a b : List Bool) : List Bool := List.zipWith (· && ·) a b

/-- `intention_ba`: `intent = all_attrs.copy(); for g_i in objs: intent &= objs_descriptions[g_i]` -/
def fbIntent (t : Table) (objs : List Nat) : List Bool :=
  objs.foldl (fun acc g => band acc (t.row g)) (List.replicate t.width true)

/-- `extension_iter`: `g_i for g_i in base if intent_ba & objs_descriptions[g_i] == intent_ba` -/
def fbExt (t : Table) (intent : List Bool) (base : List Nat) : List Nat :=
  base.filter fun g => band intent (t.row g) == intent

/-- `FormalConcept.from_objects(extent_i, context)` (default backend): `(extent_i, intent_i)` -/
def fcFromObjects (t : Table) (objs : List Nat) : List Nat × List Nat :=
  let K : Ctx := ⟨.bitarray, t, [], []⟩
  let intent := K.intentionI objs none
  (K.extensionI intent none, intent)

def cboFbStep (t : Table) (found : List (List Bool)) (comb : List Nat) :
    Option ((List Nat × List Nat) × List Bool) × List (List Nat) :=
  let intent := fbIntent t comb
  if found.contains intent then (none, [])
  else
    let canon : Bool :=
      match comb.getLast? with
      | none => true
      | some last => (fbExt t intent ((List.range last).filter fun g => !comb.contains g)).isEmpty
    if !canon then (none, [])
    else
      let lo := match comb.getLast? with | none => 0 | some l => l + 1
      let base := (rangeFrom lo t.height).filter fun g => !comb.contains g
      let extent := comb ++ fbExt t intent base
      let start := match comb.getLast? with | none => 0 | some l => l
      let news := ((rangeFrom start t.height).reverse.filter fun g => !extent.contains g).map
        fun g => extent ++ [g]
      (some (fcFromObjects t extent, intent), news)

def cboFbLoop (t : Table) : Nat → List (List Nat) → List (List Bool) → List (List Nat × List Nat) →
    Except PyErr (List (List Nat × List Nat))
  | _, [], _, acc => .ok acc.reverse
  | 0, _ :: _, _, _ => .error .OutOfFuel
  | fuel + 1, comb :: rest, found, acc =>
    match cboFbStep t found comb with
    | (none, _) => cboFbLoop t fuel rest found acc
    | (some (c, intent), news) => cboFbLoop t fuel (news.reverse ++ rest) (intent :: found) (c :: acc)

/-- `close_by_one_objectwise_fbarray(context)` for a `FormalContext`: the `(extent_i, intent_i)` pairs -/
def cboFb (t : Table) (fuel : Nat) : Except PyErr (List (List Nat × List Nat)) :=
  cboFbLoop t fuel [[]] [] []

/-! ### close_by_one, many-valued branch -/

def mapFromObjects (K : MVCtx) : List (List Nat) → Except PyErr (List PC)
  | [] => .ok []
  | e :: es =>
    match K.fromObjects e false with
    | .error err => .error err
    | .ok pc =>
      match mapFromObjects K es with
      | .error err => .error err
      | .ok pcs => .ok (pc :: pcs)

/-- which path `close_by_one` takes on a many-valued context -/
inductive Path where
  | objectwise | binDirect | binTransposed
  deriving Repr, DecidableEq

def choosePath (K : MVCtx) (thr : Nat) : Path :=
  let np := K.nBinAttrs
  if np > thr then .objectwise
  else if K.nObjects ≤ np then .binDirect
  else .binTransposed

/-- `close_by_one(context, n_projections_to_binarize)` for an `MVContext`, consumed as a list -/
def closeByOne (K : MVCtx) (thr : Nat) (fuel : Nat) : Except PyErr (List PC) :=
  match choosePath K thr with
  | .objectwise => cboObjectwise K fuel
  | .binDirect =>
    match K.binarize with
    | .error e => .error e
    | .ok Kb =>
      match cboFb Kb.table fuel with
      | .error e => .error e
      | .ok cs => mapFromObjects K (cs.map (·.1))     -- c.extent_i
  | .binTransposed =>
    match K.binarize with
    | .error e => .error e
    | .ok Kb =>
      match cboFb (tr Kb.table) fuel with
      | .error e => .error e
      | .ok cs => mapFromObjects K (cs.map (·.2))     -- c.intent_i of the transposed context

/-! ### ConceptLattice.from_context(K, algo='CbO') -/

def subsetL (a b : List Nat) : Bool := a.all fun x => b.contains x
def sameSet (a b : List Nat) : Bool := subsetL a b && subsetL b a

/-- does some extent occur twice (as a set)? -/
def hasDupExtent : List PC → Bool
  | [] => false
  | c :: cs => cs.any (fun c' => sameSet c.extent c'.extent) || hasDupExtent cs

/-- `ConceptLattice.from_context`: the concepts as mined (their listing order is not part of the
    property) — `order_extents_comparison` (caspailleur, trusted) is modelled by its contract: it
    needs pairwise different extents and fails with `KeyError` otherwise. -/
def latticeConcepts (K : MVCtx) (thr : Nat) (fuel : Nat) : Except PyErr (List PC) :=
  match closeByOne K thr fuel with
  | .error e => .error e
  | .ok cs => if hasDupExtent cs then .error .KeyError else .ok cs

/-! ### the closure operator and the specification-level closed sets -/

/-- `extension_i(intention_i(A))` as the code computes it -/
def cl (K : MVCtx) (A : List Nat) : Except PyErr (List Nat) := K.extensionI (K.intentionI A) none

/-- the bottom description: every column's most specific description -/
def bottomDesc (K : MVCtx) : Desc := K.cols.zipIdx.map fun ci => (ci.2, ci.1.bottom)

end MVCtx
end Fca.MV

/-
  Fca.Model.MVContext — `MVContext` (`fcapy/mvcontext/mvcontext.py`), the many-valued branch of
  `close_by_one`, `close_by_one_objectwise` (both run the worklist machine of `Model/CbO`; the binarised
  context is mined by `cboFbarray`, property C02) (`fcapy/algorithms/concept_construction.py`) and `PatternConcept.from_objects`
  (`fcapy/lattice/pattern_concept.py`).  Property C14.
-/
import Fca.Model.MVPS
import Fca.Model.CbO
namespace Fca.MV

/-- a many-valued context: its pattern structures (one per attribute, in attribute order), the number of
    objects and the object names -/
structure MVCtx where
  cols : List Col
  nObjects : Nat
  objNames : List String
  deriving Repr, Inhabited

/-- `descriptions_i`: a dict `{ps_i: description}` in its iteration order (keys pairwise distinct) -/
abbrev Desc := List (Nat × DVal)

namespace MVCtx

/-- every column has one value per object -/
def WF (K : MVCtx) : Prop := ∀ c ∈ K.cols, c.len = K.nObjects

instance (K : MVCtx) : Decidable K.WF := by unfold WF; infer_instance

/-- `for ps_i, description in descriptions_i.items(): extent_i = ps.extension_i(description,
    base_objects_i=extent_i); if len(extent_i) == 0: break` -/
def extLoop (cols : List Col) : Desc → List Nat → Except PyErr (List Nat)
  | [], ext => .ok ext
  | (i, d) :: rest, ext =>
    match cols[i]? with
    | none => .error .IndexError
    | some c =>
      match c.extensionI d ext with
      | .error e => .error e
      | .ok ext' => if ext'.length = 0 then .ok ext' else extLoop cols rest ext'

/-- `MVContext.extension_i(descriptions_i, base_objects_i)` -/
def extensionI (K : MVCtx) (desc : Desc) (base : Option (List Nat)) : Except PyErr (List Nat) :=
  match base with
  | some [] => .ok []
  | some bs => extLoop K.cols desc bs
  | none => extLoop K.cols desc (List.range K.nObjects)

/-- `MVContext.intention_i(object_indexes)`: `{ps_i: ps.intention_i(object_indexes)}` in column order -/
def intentionI (K : MVCtx) (objs : List Nat) : Desc :=
  K.cols.zipIdx.map fun ci => (ci.2, ci.1.intentionI objs)

/-- `MVContext.to_bin_attr_extents()` (extents only; attribute names are not part of the property) -/
def binAttrExtents (K : MVCtx) : List (List Bool) := K.cols.flatMap Col.binAttrExtents

/-- `MVContext.n_bin_attrs` -/
def nBinAttrs (K : MVCtx) : Nat := (K.cols.map Col.nBinAttrs).sum

/-- `AbstractBinTable.T`: `[column j for j in range(width)]` -/
def tr (t : Table) : Table :=
  ⟨(List.range t.width).map fun a => (List.range t.height).map fun g => t.get g a, t.height⟩

/-- the binarised formal context: table + object names -/
structure BinCtx where
  table : Table
  objNames : List String
  deriving Repr, Inhabited

/-- `MVContext.binarize()`: `FormalContext(list(attr_extents)).T` with the object names copied.
    (No pattern structure at all → `zip(*[])` cannot be unpacked: `ValueError`.) -/
def binarize (K : MVCtx) : Except PyErr BinCtx :=
  let exts := K.binAttrExtents
  if exts.isEmpty then .error .ValueError
  else .ok ⟨tr (Table.ofRows exts), K.objNames⟩

/-- a pattern concept as far as the property looks at it: `extent_i`, `intent_i` -/
structure PC where
  extent : List Nat
  intent : Desc
  deriving Repr, Inhabited, DecidableEq

/-- `PatternConcept.from_objects(objects_i, K, is_extent)` -/
def fromObjects (K : MVCtx) (objs : List Nat) (isExtent : Bool) : Except PyErr PC :=
  let intent := K.intentionI objs
  if isExtent then .ok ⟨objs, intent⟩
  else
    match K.extensionI intent none with
    | .error e => .error e
    | .ok e => .ok ⟨e, intent⟩

/-! ### close_by_one_objectwise (on descriptions)

  The `while combinations_to_check:` loop is the worklist machine `cboLoop` of `Model/CbO` (variant
  `.objectwise`: `extents_i_found` is tested after the completion and never filled), run with the context's
  own `intention_i` and `extension_i(…, base_objects_i=…)`. -/

/-- `context.extension_i(intent_i, base_objects_i=base)` as the total function the machine takes.
    `extension_i` cannot raise on a description produced by `intention_i` (it is well-typed:
    `Lemmas/MVContext.wellTyped_intentionI`, `extensionI_eq`), so the error branch is never taken by the loop. -/
def extIter (K : MVCtx) (d : Desc) (base : List Nat) : List Nat :=
  match K.extensionI d (some base) with
  | .ok e => e
  | .error _ => []

/-- the emission trace `(comb_i, extent_i)` of `close_by_one_objectwise` on a many-valued context -/
def cboObjectwiseTrace (K : MVCtx) (fuel : Nat) : Except PyErr (List (List Nat × List Nat)) :=
  cboLoop .objectwise K.nObjects K.intentionI K.extIter fuel (cboInit _)

/-- `[PatternConcept.from_objects(e, K, is_extent) for e in exts]` -/
def mapFromObjects (K : MVCtx) (isExtent : Bool) : List (List Nat) → Except PyErr (List PC)
  | [] => .ok []
  | e :: es =>
    match K.fromObjects e isExtent with
    | .error err => .error err
    | .ok pc =>
      match mapFromObjects K isExtent es with
      | .error err => .error err
      | .ok pcs => .ok (pc :: pcs)

/-- `close_by_one_objectwise(context)` for an `MVContext`
    (every emission is `from_objects(extent_i, context, is_extent=True)`) -/
def cboObjectwise (K : MVCtx) (fuel : Nat) : Except PyErr (List PC) :=
  match K.cboObjectwiseTrace fuel with
  | .error e => .error e
  | .ok tr => mapFromObjects K true (tr.map (·.2))

/-! ### close_by_one, many-valued branch

  On the binarised context the miner is `close_by_one_objectwise_fbarray` for a `FormalContext`: the
  model `cboFbarray` of `Model/CbO` (property C02). -/

/-- the binarised `FormalContext` (default backend; attribute names are not part of the property) -/
def BinCtx.toCtx (Kb : BinCtx) : Ctx := ⟨.bitarray, Kb.table, Kb.objNames, []⟩

/-- which path `close_by_one` takes on a many-valued context -/
inductive Path where
  | objectwise | binDirect | binTransposed
  deriving Repr, DecidableEq

def choosePath (K : MVCtx) (thr : Nat) : Path :=
  let np := K.nBinAttrs
  if np > thr then .objectwise
  else if K.nObjects ≤ np then .binDirect
  else .binTransposed

/-- `close_by_one(context, n_projections_to_binarize)` for an `MVContext`, consumed as a list -/
def closeByOne (K : MVCtx) (thr : Nat) (fuel : Nat) : Except PyErr (List PC) :=
  match choosePath K thr with
  | .objectwise => cboObjectwise K fuel
  | .binDirect =>
    match K.binarize with
    | .error e => .error e
    | .ok Kb =>
      match cboFbarray Kb.toCtx fuel with
      | .error e => .error e
      | .ok cs => mapFromObjects K false (cs.map (·.extentI))     -- c.extent_i
  | .binTransposed =>
    match K.binarize with
    | .error e => .error e
    | .ok Kb =>
      match cboFbarray Kb.toCtx.T fuel with
      | .error e => .error e
      | .ok cs => mapFromObjects K false (cs.map (·.intentI))     -- c.intent_i of the transposed context

/-- a fuel that suffices for `close_by_one` (proved in `Lemmas/MVLattice`): the worklist machine runs over the
    objects of the context it is given — the objects, or the binary attributes in the transposed shape -/
def closeByOneFuel (K : MVCtx) (thr : Nat) : Nat :=
  match choosePath K thr with
  | .objectwise => cboFuel K.nObjects
  | .binDirect => cboFuel K.nObjects
  | .binTransposed => cboFuel K.nBinAttrs

/-! ### ConceptLattice.from_context(K, algo='CbO') -/

def subsetL (a b : List Nat) : Bool := a.all fun x => b.contains x
def sameSet (a b : List Nat) : Bool := subsetL a b && subsetL b a

/-- does some extent occur twice (as a set)? -/
def hasDupExtent : List PC → Bool
  | [] => false
  | c :: cs => cs.any (fun c' => sameSet c.extent c'.extent) || hasDupExtent cs

/-- `ConceptLattice.from_context`: the concepts as mined (their listing order is not part of the
    property) — `order_extents_comparison` (caspailleur, trusted) is modelled by its contract: it
    needs pairwise different extents and fails with `KeyError` otherwise. -/
def latticeConcepts (K : MVCtx) (thr : Nat) (fuel : Nat) : Except PyErr (List PC) :=
  match closeByOne K thr fuel with
  | .error e => .error e
  | .ok cs => if hasDupExtent cs then .error .KeyError else .ok cs

/-! ### the closure operator and the specification-level closed sets -/

/-- `extension_i(intention_i(A))` as the code computes it -/
def cl (K : MVCtx) (A : List Nat) : Except PyErr (List Nat) := K.extensionI (K.intentionI A) none

/-- the bottom description: every column's most specific description -/
def bottomDesc (K : MVCtx) : Desc := K.cols.zipIdx.map fun ci => (ci.2, ci.1.bottom)

end MVCtx
end Fca.MV

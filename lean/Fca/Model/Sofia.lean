/-
  Fca.Model.Sofia — `sofia` of `fcapy/algorithms/concept_construction.py` (formal contexts, the default
  `use_log_stability_bound=True`), and `ConceptLattice.from_context`'s algorithm selection with
  `ConceptLattice.sort_concepts`.

  `sorted(set(extents_proj) | new_extents, key=count)` sorts a *set*: the order of equal-count extents is the
  set's iteration order, which Python leaves unspecified.  It is the parameter
    `tie : List (List Bool) → List (List Bool)`  (applied to the duplicate-free union; a permutation),
  followed by the stable sort on the bit count.
  `min_supp` is taken already scaled and rounded up to a natural number (`count < x ⇔ count < ⌈x⌉`).
-/
import Fca.Model.Lindig
namespace Fca

/-- `fbarray.count()` -/
def baCount (b : List Bool) : Nat := (b.filter id).length

/-- `K.to_bin_attr_extents()`: the column of attribute `a` as a bit vector over the objects -/
def attrExtentBa (t : Table) (a : Nat) : List Bool := (List.range t.height).map fun g => t.get g a

/-- `extents[i-1::-1]` (for `i = 0` the slice starts at index `-1`: the whole list reversed) -/
def sliceBackFrom (extents : List (List Bool)) (i : Nat) : List (List Bool) :=
  if i = 0 then extents.reverse else (extents.take i).reverse

/-- `stability_lbounds` (log-stability lower bound variant) -/
def stabilityLBounds (extents : List (List Bool)) : List Int :=
  (List.range extents.length).map fun i =>
    let extent := extents.getD i []
    match (sliceBackFrom extents i).find? (fun child => B.band child extent == child) with
    | some child => (baCount extent : Int) - (baCount child : Int)
    | none => (baCount extent : Int)

/-- `sorted(xs)[::-1]` on integers -/
def sortDescInt (xs : List Int) : List Int := (xs.mergeSort fun a b => decide (a ≤ b)).reverse

/-- the pruning branch: keep the extents whose bound exceeds the `L_max`-th largest, plus first and last -/
def sofiaPrune (extents : List (List Bool)) (lMax : Nat) : List (List Bool) :=
  let measures := stabilityLBounds extents
  let thold := (sortDescInt measures).getD lMax 0
  ((List.range extents.length).filter fun i =>
      decide (measures.getD i 0 > thold) || i == 0 || i == extents.length - 1).map
    fun i => extents.getD i []

/-- one pass of the projection loop for the attribute extent `col` -/
def sofiaStep (tie : List (List Bool) → List (List Bool)) (lMax minSupp : Nat)
    (extentsProj : List (List Bool)) (col : List Bool) : List (List Bool) :=
  if pyAll col then extentsProj else
  if baCount col < minSupp then extentsProj else
  let newExtents := extentsProj.map fun e => B.band e col
  let union := (extentsProj ++ newExtents).eraseDups
  let sorted := (tie union).mergeSort fun a b => decide (baCount a ≤ baCount b)
  let kept := sorted.take 1 ++ (sorted.drop 1).filter fun e => decide (baCount e ≥ minSupp)
  if kept.length > lMax then sofiaPrune kept lMax else kept

/-- the extents (bit vectors) after all projections -/
def sofiaExtents (t : Table) (tie : List (List Bool) → List (List Bool)) (lMax minSupp : Nat) : List (List Bool) :=
  (List.range t.width).foldl (fun ep a => sofiaStep tie lMax minSupp ep (attrExtentBa t a))
    [List.replicate t.height true]

/-- `sofia(K, L_max, min_supp)`: every final extent goes through `from_objects(extent.search(True), K, is_extent=True)` -/
def sofia (K : Ctx) (tie : List (List Bool) → List (List Bool)) (lMax minSupp : Nat) : List ConceptRec :=
  (sofiaExtents K.table tie lMax minSupp).map fun e => K.fromObjects (search1 e) true

/-! ## `ConceptLattice.from_context` -/

/-- `','.join(str(g) for g in extent_i)` -/
def joinIdx (xs : List Nat) : String := ",".intercalate (xs.map toString)

/-- `key=lambda c: (-len(c.extent_i), ','.join(...))` compared as Python compares tuples -/
def sortKeyLe (a b : ConceptRec) : Bool :=
  decide (a.extentI.length > b.extentI.length) ||
    (a.extentI.length == b.extentI.length && !(decide (joinIdx b.extentI < joinIdx a.extentI)))

/-- `ConceptLattice.sort_concepts` (`sorted` is stable) -/
def sortConcepts (cs : List ConceptRec) : List ConceptRec := cs.mergeSort sortKeyLe

/-- the `algo` argument -/
inductive Algo where
  | default                 -- `None` ↦ `'Lindig'` for a `FormalContext`
  | cbo
  | lindig (iterateExtents : Option Bool)
  | sofia (lMax minSupp : Nat)
  | other                   -- any unsupported name ↦ `ValueError`
  deriving Repr

/-- unspecified iteration orders used by the miners -/
structure Orders where
  ord  : List Nat → List Nat
  pick : List Nat → Nat
  tie  : List (List Bool) → List (List Bool)

/-- the concepts (in lattice order) of `ConceptLattice.from_context(K, algo=…)`, `is_monotone=False` -/
def fromContext (K : Ctx) (algo : Algo) (o : Orders) : Except PyErr (List ConceptRec) :=
  match algo with
  | .cbo =>
    match closeByOne K (closeByOneFuel K) with
    | .error e => .error e
    | .ok cs => .ok (sortConcepts cs)
  | .sofia lMax minSupp => .ok (sortConcepts (sofia K o.tie lMax minSupp))
  | .default =>
    match lindigAlgorithm K none o.ord o.pick (lindigAlgorithmFuel K none) with
    | .error e => .error e
    | .ok r => .ok (sortConcepts r.concepts)
  | .lindig it =>
    match lindigAlgorithm K it o.ord o.pick (lindigAlgorithmFuel K it) with
    | .error e => .error e
    | .ok r => .ok (sortConcepts r.concepts)
  | .other => .error .ValueError

end Fca

/-
  Fca.Model.Codec — executable model of the text codecs of `fcapy/context/converters.py`
  (`write_cxt/read_cxt`, `write_csv/read_csv`, `to_pandas/from_pandas`) and of the Python string
  primitives they use (`str.join`, `str.split(sep)`, `str.strip('\n')`, `int(x)`, text-mode file
  round trip).  Strings are `List Char` (converted at the driver boundary).  No Mathlib.
-/
import Fca.Model.Basic
namespace Fca.Codec
open Fca

abbrev Str := List Char

/-- exception classes of the codecs: the shared `PyErr` plus the `bintable_errors` classes -/
inductive CErr where
  | py (e : PyErr)
  | UnmatchedLengthError
  | UnmatchedTypeError
  | NotBooleanValueError
  deriving DecidableEq, Repr, Inhabited

def CErr.name : CErr → String
  | .py e => e.name
  | .UnmatchedLengthError => "UnmatchedLengthError"
  | .UnmatchedTypeError => "UnmatchedTypeError"
  | .NotBooleanValueError => "NotBooleanValueError"

abbrev valueError : CErr := .py .ValueError
abbrev assertionError : CErr := .py .AssertionError
abbrev keyError : CErr := .py .KeyError
abbrev typeError : CErr := .py .TypeError
abbrev indexError : CErr := .py .IndexError

/-! ### Python string primitives -/

def nl : Char := '\n'
def cr : Char := '\r'

/-- `sep.join(xs)` -/
def pyJoin (sep : Str) : List Str → Str
  | [] => []
  | [x] => x
  | x :: y :: r => x ++ sep ++ pyJoin sep (y :: r)

/-- put `c` in front of the first piece -/
def consHead (c : Char) : List Str → List Str
  | [] => [[c]]
  | h :: t => (c :: h) :: t

/-- `s.split(sep)` for a non-empty `sep`: leftmost, non-overlapping occurrences.
    `skip` counts the characters of a matched separator that are still to be dropped. -/
def splitGo (sep : Str) : Nat → Str → List Str
  | _, [] => [[]]
  | k + 1, _ :: cs => splitGo sep k cs
  | 0, c :: cs =>
    if sep.isPrefixOf (c :: cs) then [] :: splitGo sep (sep.length - 1) cs
    else consHead c (splitGo sep 0 cs)

/-- `s.split(sep)` with `sep` non-empty (Python raises `ValueError` for the empty separator,
    see `pySplit`). -/
def splitOn (sep : Str) (s : Str) : List Str := splitGo sep 0 s

/-- `s.split(sep)` -/
def pySplit (sep : Str) (s : Str) : Except CErr (List Str) :=
  if sep.isEmpty then .error valueError else .ok (splitOn sep s)

/-- `s.lstrip('\n')` -/
def lstripNl : Str → Str
  | [] => []
  | c :: cs => if c == nl then lstripNl cs else c :: cs

/-- `s.rstrip('\n')` -/
def rstripNl : Str → Str
  | [] => []
  | c :: cs =>
    match rstripNl cs with
    | [] => if c == nl then [] else [c]
    | r => c :: r

/-- `s.strip('\n')` -/
def stripNl (s : Str) : Str := rstripNl (lstripNl s)

/-- `str(n)` for a non-negative integer -/
def natRepr (n : Nat) : Str := Nat.toDigits 10 n

/-- `int(x)` restricted to what the writers emit: a non-empty string of ASCII digits
    (anything else is `ValueError`; CPython also accepts blanks, a sign and `_`, which never
    occur in writer output — see the trusted-base note of C07). -/
def pyInt (s : Str) : Except CErr Nat :=
  if !s.isEmpty && s.all Char.isDigit then .ok (Nat.ofDigitChars 10 s 0) else .error valueError

/-- what `open(path,'w').write(s)` followed by `open(path,'r').read()` returns on this platform:
    universal-newline translation (`\r\n` and a lone `\r` both become `\n`). -/
def fileRoundTripGo : Bool → Str → Str
  | _, [] => []
  | afterCr, c :: cs =>
    if c == cr then nl :: fileRoundTripGo true cs
    else if c == nl && afterCr then fileRoundTripGo false cs
    else c :: fileRoundTripGo false cs

@[inherit_doc fileRoundTripGo]
def fileRoundTrip (s : Str) : Str := fileRoundTripGo false s

/-- `Except.mapM` written out (keeps the first error, like a list comprehension that raises) -/
def mapME {α β : Type} (f : α → Except CErr β) : List α → Except CErr (List β)
  | [] => .ok []
  | x :: xs =>
    match f x with
    | .error e => .error e
    | .ok y =>
      match mapME f xs with
      | .error e => .error e
      | .ok ys => .ok (y :: ys)

/-! ### formal contexts as the codecs see them -/

/-- `object_names`, `attribute_names`, `data.to_list()`, `description` -/
structure Cxt where
  objs : List Str
  attrs : List Str
  rows : List (List Bool)
  descr : Option Str := none
  deriving DecidableEq, Repr, Inhabited

namespace Cxt
/-- `n_objects = data.height` -/
def nObjs (K : Cxt) : Nat := K.rows.length
/-- `data.width`: length of the first row (0 for the empty table) -/
def widthOf : List (List Bool) → Nat
  | [] => 0
  | r :: _ => r.length
/-- `n_attributes = data.width` -/
def nAttrs (K : Cxt) : Nat := widthOf K.rows

/-- what the constructor guarantees: one name per row, every row as long as the attribute list -/
def WF (K : Cxt) : Prop := K.objs.length = K.rows.length ∧ ∀ r ∈ K.rows, r.length = K.attrs.length
instance (K : Cxt) : Decidable K.WF := by unfold WF; infer_instance
end Cxt

/-- default names `'0','1',…` -/
def defaultNames (n : Nat) : List Str := (List.range n).map natRepr

/-- `FormalContext(data=rows, object_names=objs, attribute_names=attrs, description=descr)`:
    `_validate_data` (rows of one length, else `UnmatchedLengthError`), then the two name setters
    (`AssertionError` on a length mismatch); `None` names become `'0','1',…`. -/
def mkCxt (rows : List (List Bool)) (objs attrs : Option (List Str)) (descr : Option Str) :
    Except CErr Cxt :=
  let w := Cxt.widthOf rows
  if !(rows.all fun r => r.length == w) then .error .UnmatchedLengthError
  else
    let objs' := objs.getD (defaultNames rows.length)
    let attrs' := attrs.getD (defaultNames w)
    if objs'.length != rows.length then .error assertionError
    else if attrs'.length != w then .error assertionError
    else .ok ⟨objs', attrs', rows, descr⟩

/-! ### cxt -/

def rowStr (r : List Bool) : Str := r.map fun b => if b then 'X' else '.'

/-- `write_cxt(context)` -/
def writeCxt (K : Cxt) : Str :=
  ['B', nl, nl]
    ++ (natRepr K.nObjs ++ [nl] ++ natRepr K.nAttrs ++ [nl])
    ++ [nl]
    ++ (pyJoin [nl] K.objs ++ [nl])
    ++ (pyJoin [nl] K.attrs ++ [nl])
    ++ (pyJoin [nl] (K.rows.map rowStr) ++ [nl])

/-- `read_cxt(data=s)` -/
def readCxt (s : Str) : Except CErr Cxt :=
  match splitOn [nl, nl] s with
  | [_, ns, data] =>
    match mapME pyInt (splitOn [nl] ns) with
    | .error e => .error e
    | .ok [nObjs, nAttrs] =>
      let lines := splitOn [nl] (stripNl data)
      let objNames := lines.take nObjs
      let rest := lines.drop nObjs
      let attrNames := rest.take nAttrs
      let rest := rest.drop nAttrs
      let rows := rest.map fun line => line.map fun c => c == 'X'
      mkCxt rows (some objNames) (some attrNames) none
    | .ok _ => .error valueError
  | _ => .error valueError

/-! ### csv -/

/-- `write_csv(context, sep=…, word_true=…, word_false=…)` (returned text) -/
def writeCsv (K : Cxt) (sep wt wf : Str) : Str :=
  (sep ++ pyJoin sep K.attrs ++ [nl])
    ++ ((K.objs.zip K.rows).map fun (p : Str × List Bool) =>
          p.1 ++ sep ++ pyJoin sep (p.2.map fun v => if v then wt else wf) ++ [nl]).flatten

/-- the inner loop of `read_csv` over the values of one line -/
def csvVals (wt wf : Str) : List Str → Except CErr (List Bool)
  | [] => .ok []
  | v :: vs =>
    if v == wt || v == wf then
      match csvVals wt wf vs with
      | .error e => .error e
      | .ok bs => .ok ((v == wt) :: bs)
    else .error valueError

/-- the loop of `read_csv` over the data lines: `(obj_names, data)` -/
def csvLines (sep wt wf : Str) : List Str → Except CErr (List Str × List (List Bool))
  | [] => .ok ([], [])
  | line :: rest =>
    match splitOn sep line with
    | [] => .error indexError
    | name :: vals =>
      match csvVals wt wf vals with
      | .error e => .error e
      | .ok bs =>
        match csvLines sep wt wf rest with
        | .error e => .error e
        | .ok (ns, ds) => .ok (name :: ns, bs :: ds)

/-- `read_csv(path, sep, word_true, word_false)` applied to the text `file` that `f.read()` returns -/
def readCsvText (file : Str) (sep wt wf : Str) : Except CErr Cxt :=
  match splitOn [nl] (stripNl file) with
  | [] => .error indexError
  | header :: fileData =>
    if sep.isEmpty then .error valueError
    else
      let attrNames := (splitOn sep header).drop 1
      match csvLines sep wt wf fileData with
      | .error e => .error e
      | .ok (objNames, data) => mkCxt data (some objNames) (some attrNames) none

/-- `write_csv(K, path, …)` then `read_csv(path, …)`: the text goes through a text-mode file -/
def csvViaFile (K : Cxt) (sep wt wf : Str) : Except CErr Cxt :=
  readCsvText (fileRoundTrip (writeCsv K sep wt wf)) sep wt wf

/-! ### pandas -/

/-- the part of a `DataFrame` the converters touch: `.values.tolist()`, `.index.tolist()`,
    `.columns.tolist()` -/
structure Frame where
  values : List (List Bool)
  index : List Str
  columns : List Str
  deriving DecidableEq, Repr, Inhabited

/-- `to_pandas(context)` -/
def toPandas (K : Cxt) : Frame := ⟨K.rows, K.objs, K.attrs⟩
/-- `from_pandas(df)` -/
def fromPandas (f : Frame) : Except CErr Cxt := mkCxt f.values (some f.index) (some f.columns) none

end Fca.Codec

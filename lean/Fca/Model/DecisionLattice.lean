/-
  Fca.Model.DecisionLattice — executable model of the regression-tree → decision-lattice
  converter and of its prediction (property C20).

  Mirrors, in /repo:
    fcapy/ml/decision_lattice.py
      `_parse_dt_arrays_to_drules`          → `parentOf`, `isLeftChild`, `directDescr`, `accumulate`, `parseLoop`, `parse`
                                               (`right_from` = the parameter `nxt`; `nxtEps`, `nxtOfList`)
      `DecisionLatticeRegressor.from_decision_tree` → `conceptFromDescr`, `fromDecisionTree`
      `predict` (SUMDIFF) / `_sum_difference_predictions` → `predict`, `sumDiff`
      `__imul__`, `__mul__`, `__itruediv__`, `__truediv__` → `imul`, `mul`, `truediv`
    fcapy/lattice/concept_lattice.py
      `trace_context(use_generators=True, return_generators_extents=True)` and its inner
      `stored_extension`               → `storedExtNone`, `genLoop`, `storedExt`, `traceLoop`, `traceContext`
    fcapy/mvcontext/mvcontext.py        `extension_i`, `intention_i` → `extensionI`, `intentionI`
    fcapy/mvcontext/pattern_structure.py `IntervalPS.extension_i`, `generators_to_description`
                                        → `extPS`, `gtd`

  Numbers are exact rationals (core `Rat`), interval ends are rationals extended by ±∞.
  The fitted tree is input data: the five sklearn arrays.  No Mathlib import.
-/
import Fca.Model.Basic
namespace Fca.DL
open Fca

/-! ### numbers -/

/-- a Python float that may be `±inf` -/
inductive Ext where
  | ninf | fin (q : Rat) | pinf
  deriving DecidableEq, Repr, Inhabited

/-- `a <= b` on floats with infinities -/
def Ext.le : Ext → Ext → Bool
  | .ninf, _ => true
  | _, .pinf => true
  | .fin a, .fin b => decide (a ≤ b)
  | _, _ => false

/-- Python `max([a, b])`: the first maximal element -/
def Ext.max2 (a b : Ext) : Ext := if Ext.le b a then a else b
/-- Python `min([a, b])`: the first minimal element -/
def Ext.min2 (a b : Ext) : Ext := if Ext.le a b then a else b

/-- an `IntervalPS` description as it occurs in premises: a tuple `(lo, hi)` or a single number
    (what `generators_to_description` returns when both ends coincide) -/
inductive Descr where
  | none                      -- Python `None`: the description of no object
  | num (x : Ext)
  | ivl (lo hi : Ext)
  deriving DecidableEq, Repr, Inhabited

/-- `tuple(gen) if isinstance(gen, Iterable) else (gen, gen)` (not used for `None`) -/
def Descr.ends : Descr → Ext × Ext
  | .none => (.pinf, .ninf)
  | .num x => (x, x)
  | .ivl lo hi => (lo, hi)

/-- the test of `IntervalPS.extension_i` on a numeric cell `x` (stored as `(x, x)`):
    `if description is None: return []`, else `min_ <= data[g][0] and data[g][1] <= max_` -/
def Descr.sat (d : Descr) (x : Rat) : Bool :=
  match d with
  | .none => false
  | d => Ext.le d.ends.1 (.fin x) && Ext.le (.fin x) d.ends.2

/-- `IntervalPS.generators_to_description([a, b])` -/
def gtd (a b : Descr) : Except PyErr Descr :=
  match a, b with
  | .none, _ => .ok .none
  | _, .none => .ok .none
  | a, b =>
    let lo := Ext.max2 a.ends.1 b.ends.1
    let hi := Ext.min2 a.ends.2 b.ends.2
    if Ext.le lo hi then
      (if lo = hi then .ok (.num lo) else .ok (.ivl lo hi))
    else .error .AssertionError

/-- a premise / generator: `frozendict {ps_i: description}` in insertion order -/
abbrev Prem := List (Int × Descr)

/-- numeric data of the many-valued context, one row per object (cells `x` stand for `(x, x)`) -/
abbrev Rows := List (List Rat)

def nObjects (X : Rows) : Nat := X.length
def cell (X : Rows) (g j : Nat) : Rat := (X.getD g []).getD j 0

/-- Python list indexing `xs[j]` for an `int` `j`: negative indexes wrap, out of range raises -/
def pyIdx (m : Nat) (j : Int) : Except PyErr Nat :=
  if 0 ≤ j then (if j.toNat < m then .ok j.toNat else .error .IndexError)
  else (if (-j).toNat ≤ m then .ok (m - (-j).toNat) else .error .IndexError)

/-! ### MVContext.extension_i / intention_i on numeric columns -/

/-- `IntervalPS.extension_i(description, base_objects_i)` of column `j` -/
def extPS (X : Rows) (j : Nat) (d : Descr) (base : List Nat) : List Nat :=
  base.filter fun g => d.sat (cell X g j)

/-- the loop of `MVContext.extension_i` over `descriptions_i.items()` with its early `break` -/
def extLoop (X : Rows) (m : Nat) : Prem → List Nat → Except PyErr (List Nat)
  | [], e => .ok e
  | (j, d) :: rest, e =>
    match pyIdx m j with
    | .error err => .error err
    | .ok jj =>
      let e' := extPS X jj d e
      if e'.isEmpty then .ok e' else extLoop X m rest e'

/-- `MVContext.extension_i(descriptions_i, base_objects_i)`; `m` = number of pattern structures -/
def extensionI (X : Rows) (m : Nat) (descr : Prem) (base : Option (List Nat)) : Except PyErr (List Nat) :=
  match base with
  | some [] => .ok []
  | some b => extLoop X m descr b
  | none => extLoop X m descr (List.range (nObjects X))

/-- `IntervalPS.intention_i(object_indexes)` of column `j`: `None` for no objects, else `(min, max)` -/
def intPS (X : Rows) (j : Nat) : List Nat → Option (Rat × Rat)
  | [] => none
  | g :: gs =>
    some (gs.foldl (fun (acc : Rat × Rat) g' =>
      let v := cell X g' j
      ((if v < acc.1 then v else acc.1), (if v > acc.2 then v else acc.2))) (cell X g j, cell X g j))

/-- `MVContext.intention_i(object_indexes)` -/
def intentionI (X : Rows) (m : Nat) (objs : List Nat) : List (Option (Rat × Rat)) :=
  (List.range m).map fun j => intPS X j objs

/-! ### the tree arrays and `_parse_dt_arrays_to_drules` -/

/-- the fitted sklearn tree: `children_left`, `children_right`, `feature`, `threshold`, `value.flatten()` -/
structure Tree where
  left : List Int
  right : List Int
  feature : List Int
  threshold : List Rat
  value : List Rat
  deriving DecidableEq, Repr, Inhabited

def Tree.n (t : Tree) : Nat := t.value.length

/-- `{child_i: parent_i for parent_i, child_i in enumerate(children) if child_i != -1}[k]` for a key `k ≥ 0`:
    the last parent index wins -/
def dictLast (children : List Int) (k : Nat) : Option Nat :=
  ((List.range children.length).filter fun p => children[p]? == some (k : Int)).getLast?

/-- `parents_dict = {**parents_dict_left, **parents_dict_right}` -/
def parentOf (t : Tree) (k : Nat) : Option Nat :=
  match dictLast t.right k with
  | some p => some p
  | none => dictLast t.left k

/-- `node_i in parents_dict_left` -/
def isLeftChild (t : Tree) (k : Nat) : Bool := (dictLast t.left k).isSome

/-- `right_from = np.nextafter(threshold[parent_i], np.inf) if eps is None else threshold[parent_i] + eps`:
    the model takes the map `thr ↦ right_from` as a parameter `nxt : Rat → Rat`.  In the default mode of the code
    (`eps=None`) it is the successor on the float64 grid; `nxtEps eps` is the explicit-`eps` mode. -/
def nxtEps (eps : Rat) : Rat → Rat := fun thr => thr + eps

/-- a successor map given as a finite table `thr ↦ nxt thr` (what the driver receives: the harness evaluates
    `np.nextafter(thr, inf)` — or `thr + eps` in float arithmetic — for every threshold of the tree and sends both
    numbers as exact rationals); a threshold missing from the table is mapped to itself, which `wellFormed` rejects -/
def nxtOfList (tbl : List (Rat × Rat)) : Rat → Rat := fun thr => (tbl.lookup thr).getD thr

/-- the new condition a node adds to its parent's premise:
    `descr = (-np.inf, threshold[parent_i]) if is_left_child else (right_from, np.inf)` -/
def directDescr (t : Tree) (nxt : Rat → Rat) (k : Nat) (thr : Rat) : Descr :=
  if isLeftChild t k then .ivl .ninf (.fin thr) else .ivl (.fin (nxt thr)) .pinf

/-- `premise[ps_i] = v` on an insertion-ordered dict -/
def premSet : Prem → Int → Descr → Prem
  | [], j, v => [(j, v)]
  | (j', v') :: rest, j, v => if j' = j then (j', v) :: rest else (j', v') :: premSet rest j v

def premGet (p : Prem) (j : Int) : Option Descr := p.lookup j

/-- `for ps_i, parent_descr in premises[parent_i].items(): premise[ps_i] = gtd([parent_descr, descr]) if ps_i in premise else parent_descr`
    (`m` = number of pattern structures, for `context.pattern_structures[ps_i]`) -/
def accumulate (m : Nat) (descr : Descr) : (parentItems : Prem) → (premise : Prem) → Except PyErr Prem
  | [], premise => .ok premise
  | (j, pd) :: rest, premise =>
    match premGet premise j with
    | some _ =>
      match pyIdx m j with
      | .error e => .error e
      | .ok _ =>
        match gtd pd descr with
        | .error e => .error e
        | .ok v => accumulate m descr rest (premSet premise j v)
    | none => accumulate m descr rest (premSet premise j pd)

/-- body of `for node_i in range(1, n_rules)`; `dps`/`ps` are `direct_premises`/`premises` so far -/
def parseLoop (t : Tree) (m : Nat) (nxt : Rat → Rat) :
    List Nat → List Prem → List Prem → Except PyErr (List Prem × List Prem)
  | [], dps, ps => .ok (dps, ps)
  | k :: rest, dps, ps =>
    match parentOf t k with
    | none => .error .KeyError
    | some p =>
      match t.threshold[p]?, t.feature[p]?, ps[p]? with
      | some thr, some f, some ppre =>
        let descr := directDescr t nxt k thr
        match accumulate m descr ppre [(f, descr)] with
        | .error e => .error e
        | .ok premise => parseLoop t m nxt rest (dps ++ [[(f, descr)]]) (ps ++ [premise])
      | _, _, _ => .error .IndexError

/-- `[parents_dict[node_i] for node_i in range(1, n_rules)]` -/
def parentsList (t : Tree) : List Nat → Except PyErr (List (Option Nat))
  | [] => .ok []
  | k :: rest =>
    match parentOf t k with
    | none => .error .KeyError
    | some p =>
      match parentsList t rest with
      | .error e => .error e
      | .ok ps => .ok (some p :: ps)

/-- `target[1:] - target[direct_parents[1:]]` -/
def deltas (value : List Rat) : List Nat → List (Option Nat) → Except PyErr (List Rat)
  | k :: ks, some p :: ps =>
    match value[k]?, value[p]? with
    | some vk, some vp =>
      match deltas value ks ps with
      | .error e => .error e
      | .ok ds => .ok ((vk - vp) :: ds)
    | _, _ => .error .IndexError
  | _, _ => .ok []

/-- what `_parse_dt_arrays_to_drules` returns (without `direct_children = range(n)`) -/
structure Rules where
  dparents : List (Option Nat)
  dprems : List Prem
  dtargets : List Rat
  premises : List Prem
  deriving DecidableEq, Repr, Inhabited

def nodes1 (t : Tree) : List Nat := (List.range t.n).drop 1

def parse (t : Tree) (m : Nat) (nxt : Rat → Rat) : Except PyErr Rules :=
  match parentsList t (nodes1 t) with
  | .error e => .error e
  | .ok pl =>
    match parseLoop t m nxt (nodes1 t) [[]] [[]] with
    | .error e => .error e
    | .ok (dps, ps) =>
      match deltas t.value (nodes1 t) pl with
      | .error e => .error e
      | .ok ds => .ok ⟨none :: pl, dps, t.value.take 1 ++ ds, ps⟩

/-! ### concepts, lattice, `from_decision_tree` -/

/-- a `PatternConcept`, reduced to what the pipeline reads: extent indexes and interval intent -/
structure Concept where
  extent : List Nat
  intent : List (Option (Rat × Rat))
  deriving DecidableEq, Repr, Inhabited

def Concept.support (c : Concept) : Nat := c.extent.length

/-- `PatternConcept.__le__`: extent inclusion -/
def Concept.le (a b : Concept) : Bool :=
  !(decide (a.support > b.support)) && a.extent.all fun g => b.extent.contains g

/-- `concept_from_descr_i(descr_i, context)` -/
def conceptFromDescr (X : Rows) (m : Nat) (descr : Prem) : Except PyErr Concept :=
  match extensionI X m descr none with
  | .error e => .error e
  | .ok ext => .ok ⟨ext, intentionI X m ext⟩

def conceptsFrom (X : Rows) (m : Nat) : List Prem → Except PyErr (List Concept)
  | [] => .ok []
  | p :: ps =>
    match conceptFromDescr X m p with
    | .error e => .error e
    | .ok c =>
      match conceptsFrom X m ps with
      | .error e => .error e
      | .ok cs => .ok (c :: cs)

/-- an entry of `L._generators_dict`: the premise itself for the root (`parent is None`),
    `{parent: [generators]}` otherwise -/
inductive GenEntry where
  | flat (g : Prem)
  | cond (d : List (Nat × List Prem))
  deriving DecidableEq, Repr, Inhabited

/-- `c_i in gens_dict` (key membership of a dict / frozendict) -/
def GenEntry.hasKey : GenEntry → Nat → Bool
  | .flat g, c => g.any fun kv => kv.1 == (c : Int)
  | .cond d, c => d.any fun kv => kv.1 == c

/-- key of `DL._decisions`: `(parent_i, child_i, dpremise)` -/
structure DKey where
  sup : Option Nat
  concept : Nat
  gen : Prem
  deriving DecidableEq, Repr, Inhabited

/-- `DL._lattice`: the concepts, the lattice's top element and `_generators_dict` (indexed by concept) -/
structure Lat where
  concepts : List Concept
  top : Nat
  gens : List GenEntry
  deriving DecidableEq, Repr, Inhabited

/-- a converted decision lattice: `_lattice` and `_decisions` -/
structure DLat where
  lat : Lat
  decisions : List (DKey × Rat)
  deriving DecidableEq, Repr, Inhabited

/-- `POSet(concepts, children_dict=direct_subelements_dict).bottoms`: nodes without sub-elements -/
def bottomsByChildren (dparents : List (Option Nat)) (nConcepts : Nat) : List Nat :=
  (List.range nConcepts).filter fun i => !(dparents.contains (some i))

/-- `POSet.tops` computed from `leq` (the `ConceptLattice` is built WITHOUT a children dictionary:
    the keyword passed is `subconcepts_dict`, which the constructor ignores) -/
def topsByLeq (cs : List Concept) : List Nat :=
  (List.range cs.length).filter fun i =>
    (List.range cs.length).all fun j => j == i || !((cs.getD i default).le (cs.getD j default))

def bottomsByLeq (cs : List Concept) : List Nat :=
  (List.range cs.length).filter fun i =>
    (List.range cs.length).all fun j => j == i || !((cs.getD j default).le (cs.getD i default))

def mkGens : List (Option Nat) → List Prem → List GenEntry
  | some p :: ps, dp :: dps => .cond [(p, [dp])] :: mkGens ps dps
  | none :: ps, dp :: dps => .flat dp :: mkGens ps dps
  | _, _ => []

def mkDecisions : Nat → List (Option Nat) → List Prem → List Rat → List (DKey × Rat)
  | i, p :: ps, dp :: dps, dy :: dys => (⟨p, i, dp⟩, dy) :: mkDecisions (i + 1) ps dps dys
  | _, _, _, _ => []

/-- `DecisionLatticeRegressor.from_decision_tree(dtree, context)`; the code calls the parser with its default
    `eps=None`, i.e. `nxt` = successor on the float64 grid -/
def fromDecisionTree (t : Tree) (X : Rows) (m : Nat) (nxt : Rat → Rat) : Except PyErr DLat :=
  match parse t m nxt with
  | .error e => .error e
  | .ok r =>
    match conceptsFrom X m r.premises with
    | .error e => .error e
    | .ok concepts =>
      let bottoms := bottomsByChildren r.dparents concepts.length
      -- `if len(bottom_elements) > 1:` add the bottom concept of `context.intention_i([])`
      let completed : Except PyErr (List Concept × List Nat) :=
        if bottoms.length > 1 then
          match conceptFromDescr X m ((List.range m).map fun (j : Nat) => ((j : Int), Descr.none)) with
          | .error e => .error e
          | .ok b => .ok (concepts ++ [b], [concepts.length])
        else .ok (concepts, bottoms)
      match completed with
      | .error e => .error e
      | .ok (concepts, bottoms2) =>
        if bottoms2.length ≠ 1 then .error .AssertionError else
        -- `ConceptLattice(concepts, subconcepts_dict=...)`: a `Lattice` needs one top and one bottom
        match topsByLeq concepts, bottomsByLeq concepts with
        | [top], [_] =>
          .ok ⟨⟨concepts, top, mkGens r.dparents r.dprems⟩, mkDecisions 0 r.dparents r.dprems r.dtargets⟩
        | _, _ => .error .ValueError

/-! ### `trace_context(use_generators=True, return_generators_extents=True)` -/

/-- one entry of `generators_extents` -/
structure GenRec where
  sup : Option Nat
  concept : Nat
  ext : List Nat
  gen : Prem
  deriving DecidableEq, Repr, Inhabited

/-- a value of `concept_extents`: a plain set (the top) or `{superconcept_i | None: extent}` -/
inductive CE where
  | flat (s : List Nat)
  | nested (d : List (Option Nat × List Nat))
  deriving DecidableEq, Repr, Inhabited

/-- insertion-ordered dict update -/
def alSet {α β} [DecidableEq α] : List (α × β) → α → β → List (α × β)
  | [], k, v => [(k, v)]
  | (k', v') :: rest, k, v => if k' = k then (k', v) :: rest else (k', v') :: alSet rest k v

def alGet {α β} [DecidableEq α] : List (α × β) → α → Option β
  | [], _ => none
  | (k', v') :: rest, k => if k' = k then some v' else alGet rest k

structure TrSt where
  ce : List (Nat × CE)
  recs : List GenRec
  deriving DecidableEq, Repr, Inhabited

/-- `if concept_i not in concept_extents: concept_extents[concept_i] = {}` -/
def ensure (s : TrSt) (c : Nat) : TrSt :=
  match alGet s.ce c with
  | some _ => s
  | none => { s with ce := alSet s.ce c (.nested []) }

/-- the `concept_i == self.top` branch of `stored_extension` -/
def storedTop (L : Lat) (X : Rows) (m : Nat) (s : TrSt) (c : Nat) : Except PyErr (TrSt × List Nat) :=
  match L.gens[c]? with
  | none => .error .KeyError
  | some (.cond _) => .error .TypeError      -- never produced by the converter (class not pinned)
  | some (.flat g) =>
    match extensionI X m g none with
    | .error e => .error e
    | .ok ext =>
      .ok ({ ce := alSet s.ce c (.flat ext), recs := s.recs ++ [⟨none, c, ext, g⟩] }, ext)

/-- `stored_extension(concept_i, use_generators=True, superconcept_i=None)` -/
def storedExtNone (L : Lat) (X : Rows) (m : Nat) (s : TrSt) (c : Nat) : Except PyErr (TrSt × List Nat) :=
  let s := ensure s c
  if c = L.top then storedTop L X m s c
  else
    match alGet s.ce c with
    | some (.nested d) =>
      match alGet d none with
      | some e => .ok (s, e)
      | none => .error .KeyError
    | _ => .error .TypeError

/-- set union / difference on duplicate-free lists -/
def setUnion (a b : List Nat) : List Nat := a ++ b.filter fun x => !a.contains x
def setDiff (a b : List Nat) : List Nat := a.filter fun x => !b.contains x

/-- `for gen in condgens:` with its early `break` -/
def genLoop (X : Rows) (m : Nat) (p c : Nat) :
    List Prem → (extSup ext_ : List Nat) → List GenRec → Except PyErr (List Nat × List GenRec)
  | [], _, e, r => .ok (e, r)
  | g :: gs, sup, e, r =>
    match extensionI X m g (some sup) with
    | .error err => .error err
    | .ok newExt =>
      let e := setUnion e newExt
      let sup := setDiff sup newExt
      let r := r ++ [⟨some p, c, newExt, g⟩]
      if sup.isEmpty then .ok (e, r) else genLoop X m p c gs sup e r

/-- `stored_extension(concept_i, use_generators=True, superconcept_i=p)` -/
def storedExt (L : Lat) (X : Rows) (m : Nat) (s : TrSt) (c p : Nat) : Except PyErr (TrSt × List Nat) :=
  let s := ensure s c
  if c = L.top then storedTop L X m s c
  else
    match alGet s.ce c with
    | some (.nested d) =>
      match alGet d (some p) with
      | some e => .ok (s, e)
      | none =>
        match L.gens[c]? with
        | some (.cond gd) =>
          match alGet gd p with
          | none => .error .KeyError
          | some condgens =>
            match storedExtNone L X m s p with
            | .error e => .error e
            | .ok (s, extSup) =>
              match genLoop X m p c condgens extSup [] s.recs with
              | .error e => .error e
              | .ok (ext_, recs) =>
                -- `concept_extents` is re-read here: the call above may have touched it
                let d := match alGet s.ce c with
                  | some (.nested d) => d
                  | _ => []
                let d := alSet d (some p) ext_
                let d := alSet d none (setUnion ((alGet d none).getD []) ext_)
                .ok ({ ce := alSet s.ce c (.nested d), recs := recs }, ext_)
        | some (.flat g) =>                        -- never produced for a non-top node
          if g.any (fun kv => kv.1 == (p : Int)) then .error .TypeError else .error .KeyError
        | none => .error .KeyError
    | _ => .error .TypeError

/-- `[k for k, gens_dict in self._generators_dict.items() if c_i in gens_dict]` -/
def subconceptsOf (L : Lat) (c : Nat) : List Nat :=
  (List.range L.gens.length).filter fun k => (L.gens.getD k (.flat [])).hasKey c

/-- first pass over the sub-concepts: `subconcept_extents |= stored_extension(subconcept_i, True, c_i)` -/
def passOne (L : Lat) (X : Rows) (m : Nat) (c : Nat) : List Nat → TrSt → Except PyErr TrSt
  | [], s => .ok s
  | k :: ks, s =>
    match storedExt L X m s k c with
    | .error e => .error e
    | .ok (s, _) => passOne L X m c ks s

/-- the comprehension building `new_concepts` (it calls `stored_extension` again) -/
def passTwo (L : Lat) (X : Rows) (m : Nat) (c : Nat) (visited queue : List Nat) :
    List Nat → TrSt → Except PyErr (TrSt × List Nat)
  | [], s => .ok (s, [])
  | k :: ks, s =>
    match storedExt L X m s k c with
    | .error e => .error e
    | .ok (s, e) =>
      match passTwo L X m c visited queue ks s with
      | .error err => .error err
      | .ok (s, news) =>
        if e.length > 0 && !visited.contains k && !queue.contains k then .ok (s, k :: news) else .ok (s, news)

/-- stable insertion used by `sorted(new_concepts, key=lambda c_i: -self[c_i].support)` -/
def insBySupport (sup : Nat → Nat) (x : Nat) : List Nat → List Nat
  | [] => [x]
  | y :: ys => if sup y > sup x then y :: insBySupport sup x ys else x :: y :: ys

def sortBySupport (sup : Nat → Nat) : List Nat → List Nat
  | [] => []
  | x :: xs => insBySupport sup x (sortBySupport sup xs)

/-- `for i in range(len(self)): ...` of `trace_context` (only what feeds `generators_extents`) -/
def traceLoop (L : Lat) (X : Rows) (m : Nat) :
    (fuel : Nat) → (queue visited : List Nat) → TrSt → Except PyErr TrSt
  | 0, _, _, s => .ok s
  | _ + 1, [], _, s => .ok s
  | fuel + 1, c :: queue, visited, s =>
    match storedExtNone L X m s c with
    | .error e => .error e
    | .ok (s, _) =>
      let visited := c :: visited
      let subs := subconceptsOf L c
      match passOne L X m c subs s with
      | .error e => .error e
      | .ok s =>
        match passTwo L X m c visited queue subs s with
        | .error e => .error e
        | .ok (s, news) =>
          let news := sortBySupport (fun k => (L.concepts.getD k default).support) news
          traceLoop L X m fuel (queue ++ news) visited s

/-- the third output of `trace_context`: `list(set(frozendict(ge) for ge in generators_extents))`;
    `order` is the unspecified iteration order of that set -/
def traceContext (L : Lat) (X : Rows) (m : Nat) (order : List GenRec → List GenRec) :
    Except PyErr (List GenRec) :=
  match traceLoop L X m L.concepts.length [L.top] [] ⟨[], []⟩ with
  | .error e => .error e
  | .ok s => .ok (order s.recs.eraseDups)

/-! ### prediction and scaling -/

/-- `predictions[list(ge['ext_'])] += d` -/
def addAt (acc : List Rat) (ext : List Nat) (d : Rat) : List Rat :=
  (List.range acc.length).map fun g => if ext.contains g then acc.getD g 0 + d else acc.getD g 0

/-- `_sum_difference_predictions` -/
def sumDiff (dec : List (DKey × Rat)) : List GenRec → List Rat → Except PyErr (List Rat)
  | [], acc => .ok acc
  | r :: rs, acc =>
    match alGet dec ⟨r.sup, r.concept, r.gen⟩ with
    | none => .error .KeyError
    | some d => sumDiff dec rs (addAt acc r.ext d)

/-- `DecisionLatticePredictor.predict(context)` with `PredictFunctions.SUMDIFF`, `use_generators=True` -/
def predict (L : DLat) (X : Rows) (m : Nat) (order : List GenRec → List GenRec) : Except PyErr (List Rat) :=
  match traceContext L.lat X m order with
  | .error e => .error e
  | .ok recs => sumDiff L.decisions recs (List.replicate (nObjects X) 0)

/-- `__imul__`: `self._decisions = {k: v * other ...}` -/
def imul (L : DLat) (c : Rat) : DLat :=
  { L with decisions := L.decisions.map fun kv => (kv.1, kv.2 * c) }

/-- `__mul__`: `dl_mul = deepcopy(self); dl_mul *= other; return dl_mul`.
    Returns `(self afterwards, result)`. -/
def mul (L : DLat) (c : Rat) : DLat × DLat :=
  let copy := L          -- deepcopy
  (L, imul copy c)

/-- `__truediv__`: `self.__mul__(1/other)`; `none` stands for Python's `ZeroDivisionError` -/
def truediv (L : DLat) (c : Rat) : Option (DLat × DLat) :=
  if c = 0 then none else some (mul L (1 / c))

/-! ### the tree's own prediction (sklearn's `predict`: standard descent) -/

/-- `x[feature] <= threshold → left, else right`, until a leaf (`children_left == -1`) -/
def descend (t : Tree) (x : List Rat) : Nat → Nat → Nat
  | 0, i => i
  | fuel + 1, i =>
    match t.left[i]?, t.right[i]?, t.feature[i]?, t.threshold[i]? with
    | some l, some r, some f, some thr =>
      if l = -1 then i
      else if x.getD f.toNat 0 ≤ thr then descend t x fuel l.toNat else descend t x fuel r.toNat
    | _, _, _, _ => i

/-- the nodes of the root-to-leaf path of a row -/
def pathFrom (t : Tree) (x : List Rat) : Nat → Nat → List Nat
  | 0, i => [i]
  | fuel + 1, i =>
    match t.left[i]?, t.right[i]?, t.feature[i]?, t.threshold[i]? with
    | some l, some r, some f, some thr =>
      if l = -1 then [i]
      else if x.getD f.toNat 0 ≤ thr then i :: pathFrom t x fuel l.toNat else i :: pathFrom t x fuel r.toNat
    | _, _, _, _ => [i]

def treePredict (t : Tree) (x : List Rat) : Rat := t.value.getD (descend t x t.n 0) 0

/-! ### the decidable well-formedness predicate on the input arrays -/

def isLeaf (t : Tree) (i : Nat) : Bool := t.left[i]? == some (-1)

/-- one node of the arrays: a leaf (both children `-1`) or an internal node whose children come later, differ, whose
    feature is a column, whose threshold `thr` lies strictly below its successor `nxt thr`, with no row value of the
    split feature strictly between the two (`v ≤ thr ∨ nxt thr ≤ v`), and whose children are recovered by the
    parent dictionaries as (this node, left) and (this node, right) -/
def wfNode (t : Tree) (X : Rows) (m : Nat) (nxt : Rat → Rat) (i : Nat) : Bool :=
  match t.left[i]?, t.right[i]?, t.feature[i]?, t.threshold[i]? with
  | some l, some r, some f, some thr =>
    (l == -1 && r == -1) ||
    (decide ((i : Int) < l) && decide (l < (t.n : Int)) && decide ((i : Int) < r) && decide (r < (t.n : Int))
      && l != r && decide (0 ≤ f) && decide (f < (m : Int))
      && (decide (thr < nxt thr)
          && X.all (fun row => decide (row.getD f.toNat 0 ≤ thr) || decide (nxt thr ≤ row.getD f.toNat 0)))
      && parentOf t l.toNat == some i && isLeftChild t l.toNat
      && parentOf t r.toNat == some i && !isLeftChild t r.toNat)
  | _, _, _, _ => false

/-- Binary tree in sklearn's array form, children after parents, every non-root node the child of
    exactly one (parent, side); features in range; and the hypothesis about the number grid: for every threshold
    `thr` used by an internal node, `thr < nxt thr` and every row value `v` of the split feature has
    `v ≤ thr ∨ nxt thr ≤ v` (the two child premises `(-∞, thr]`, `[nxt thr, ∞)` are complementary on the data).

    For IEEE doubles and `nxt = np.nextafter(·, inf)` (the code's default mode) this holds for EVERY finite
    float64 value `v` and every finite threshold below the largest double: there is no double strictly between `thr`
    and `nextafter(thr)`.  So the hypothesis is met by all float64 tables — including objects the tree never saw
    (out-of-bag objects of forest members) and data one ulp away from a threshold — not just by data that is
    separated from the thresholds by some margin.  In the explicit-`eps` mode (`nxt = nxtEps eps`) it is the old
    hypothesis "`0 < eps` and the thresholds separate the data by at least `eps`". -/
def wellFormed (t : Tree) (X : Rows) (m : Nat) (nxt : Rat → Rat) : Bool :=
  decide (0 < t.n) && decide (t.left.length = t.n) && decide (t.right.length = t.n)
  && decide (t.feature.length = t.n) && decide (t.threshold.length = t.n)
  && X.all (fun r => decide (r.length = m))
  && (List.range t.n).all (fun i => wfNode t X m nxt i)
  && ((List.range t.n).drop 1).all (fun k =>
      ((t.left ++ t.right).filter (fun c => c == (k : Int))).length == 1)

/-! ### decidable hypotheses of the `_partial` prediction theorem (evaluated by the driver on every case) -/

/-- the node delta: `dtargets[k]` as `_parse_dt_arrays_to_drules` defines it -/
def delta (t : Tree) (k : Nat) : Rat :=
  if k = 0 then t.value.getD 0 0
  else match parentOf t k with
    | some p => t.value.getD k 0 - t.value.getD p 0
    | none => 0

/-- every traced record's decision is the delta of the record's node -/
def traceKeysOK (t : Tree) (dec : List (DKey × Rat)) (recs : List GenRec) : Bool :=
  recs.all fun r => alGet dec ⟨r.sup, r.concept, r.gen⟩ == some (delta t r.concept)

/-- the records whose extent contains row `g` are, in some order, the nodes of `g`'s root-to-leaf path -/
def tracePathOK (t : Tree) (X : Rows) (recs : List GenRec) : Bool :=
  (List.range (nObjects X)).all fun g =>
    decide (((recs.filter fun r => r.ext.contains g).map (·.concept)).Perm (pathFrom t (X.getD g []) t.n 0))

/-- every node is reached by at least one row of the context (true of any tree fitted on rows of the
    context, bootstrapped or not: each node holds at least one training sample) -/
def fitted (t : Tree) (X : Rows) : Bool :=
  (List.range t.n).all fun k =>
    (List.range (nObjects X)).any fun g => (pathFrom t (X.getD g []) t.n 0).contains k

end Fca.DL

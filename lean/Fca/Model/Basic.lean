/-
  Fca.Model.Basic — shared vocabulary of the executable models.

  No Mathlib import here (the driver is linked as a native executable).
  A boolean table is a list of rows plus its declared width, exactly the
  `(data, height, width)` triple every `AbstractBinTable` carries.
-/
namespace Fca

/-- The exception classes the models can raise (mirrors the Python classes
    the correspondence check maps exceptions to). -/
inductive PyErr where
  | KeyError | ValueError | IndexError | TypeError | AssertionError
  | NotImplementedError | FrozenInstanceError | UnknownAxisError | OutOfFuel
  deriving DecidableEq, Repr, Inhabited

def PyErr.name : PyErr → String
  | .KeyError => "KeyError" | .ValueError => "ValueError" | .IndexError => "IndexError"
  | .TypeError => "TypeError" | .AssertionError => "AssertionError"
  | .NotImplementedError => "NotImplementedError"
  | .FrozenInstanceError => "FrozenInstanceError"
  | .UnknownAxisError => "UnknownAxisError" | .OutOfFuel => "OutOfFuel"

abbrev Row := List Bool

/-- A boolean table: `data` has `height = data.length` rows; `width` is the stored width. -/
structure Table where
  data  : List Row
  width : Nat
  deriving DecidableEq, Repr, Inhabited

namespace Table

def height (t : Table) : Nat := t.data.length

/-- Every row has the declared width (what `_validate_data` enforces). -/
def WF (t : Table) : Prop := ∀ r ∈ t.data, r.length = t.width

instance (t : Table) : Decidable t.WF := by unfold WF; infer_instance

/-- `self.data[i]` for an in-range `i` (total: the empty row otherwise). -/
def row (t : Table) (i : Nat) : Row := t.data.getD i []

/-- `self.data[i][j]` for in-range `i`, `j` (total: `false` otherwise). -/
def get (t : Table) (i j : Nat) : Bool := (t.row i).getD j false

/-- Build a table from rows the way the constructors do: width of the first row. -/
def ofRows (rows : List Row) : Table := ⟨rows, (rows.headD []).length⟩

end Table

/-- The three shipped table backends. -/
inductive Backend where
  | lists | bitarray | numpy
  deriving DecidableEq, Repr, Inhabited

/-- Python `all(xs)` / `bitarray.all()` / `ndarray.all()` on a flag vector. -/
def pyAll (xs : List Bool) : Bool := xs.all id
/-- Python `any(xs)` / `bitarray.any()` / `ndarray.any()` on a flag vector. -/
def pyAny (xs : List Bool) : Bool := xs.any id

/-- `bitarray.search(1)`: positions of the set bits, ascending. -/
def search1 (xs : List Bool) : List Nat :=
  (List.range xs.length).filter fun i => xs.getD i false

/-- `[i for i, flg in zip(idx, flags) if flg]` (also numpy's `idx[flags]`). -/
def zipFilter (idx : List Nat) (flags : List Bool) : List Nat :=
  (idx.zip flags).filterMap fun p => if p.2 then some p.1 else none

/-- Name → index dictionary built by `{name: idx for idx, name in enumerate(names)}`
    (a later duplicate overwrites an earlier one). -/
def nameIdxFrom : List String → Nat → String → Option Nat
  | [], _, _ => none
  | y :: ys, i, x =>
    match nameIdxFrom ys (i + 1) x with
    | some k => some k
    | none => if y = x then some i else none

def nameIdx (names : List String) (x : String) : Option Nat := nameIdxFrom names 0 x

/-- `[d[x] for x in xs]` with `KeyError` on the first unknown key. -/
def namesToIdx (names : List String) : List String → Except PyErr (List Nat)
  | [] => .ok []
  | x :: xs =>
    match nameIdx names x with
    | none => .error .KeyError
    | some i =>
      match namesToIdx names xs with
      | .error e => .error e
      | .ok is => .ok (i :: is)

end Fca

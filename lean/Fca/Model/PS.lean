/-
  Fca.Model.PS — the four shipped pattern structures of
  `fcapy/mvcontext/pattern_structure.py`, code-shaped:

    * `IntervalPS`       (`py…`):  `_transform_data`, `intention_i` (running min/max loop),
                                   `extension_i` (list comprehension, `None` / single-number description),
                                   `to_bin_attr_extents` (`set` + `sorted`), `n_bin_attrs`
    * `IntervalNumpyPS`  (`np…`):  vectorised `min()/max()`, boolean mask + `nonzero` /
                                   `base_objects_i[flg]`, `np.unique`-based `to_bin_attr_extents`
    * `SetPS`            (`set…`): union loop, `row & d == row` filter, all subsets of the value universe
    * `AttributePS`      (`attr…`)

  Numbers are `Int` (only `<`, `<=`, `min`, `max`, `sorted`, `unique` are applied to them by the
  code, so the correspondence check runs on an integer / scaled dyadic grid where floats are exact).
  No Mathlib import (the driver is linked natively).
-/
import Fca.Model.Basic
namespace Fca.PS

/-! ## Python / numpy primitives used by the four classes -/

/-- insertion of `x` into an ascending list -/
def orderedInsert (x : Int) : List Int → List Int
  | [] => [x]
  | y :: ys => if x ≤ y then x :: y :: ys else y :: orderedInsert x ys

/-- `sorted(xs)` / `np.sort(xs)` on numbers (the ascending rearrangement; stability is unobservable
    on numbers). -/
def pySorted (xs : List Int) : List Int := xs.foldr orderedInsert []

/-- `set(xs)` as a duplicate-free list (first occurrences kept).  The iteration order of a Python
    set is unspecified; every use below goes through `sorted`, `min`, `max` or `len`, none of which
    depends on it (see `Lemmas/PS`: they only depend on membership / are permutation invariant). -/
def pySet : List Int → List Int
  | [] => []
  | x :: xs => x :: (pySet xs).filter (fun y => y != x)

/-- drop repeated neighbours (second half of `np.unique`) -/
def dedupAdj : List Int → List Int
  | [] => []
  | [x] => [x]
  | x :: y :: rest => if x = y then dedupAdj (y :: rest) else x :: dedupAdj (y :: rest)

/-- `np.unique(xs)`: sort, then drop repeated neighbours -/
def npUnique (xs : List Int) : List Int := dedupAdj (pySorted xs)

/-- builtin `min(xs)` (first minimal element; `ValueError` on an empty argument) -/
def pyMin : List Int → Except PyErr Int
  | [] => .error .ValueError
  | x :: xs => .ok (xs.foldl (fun m v => if v < m then v else m) x)

/-- builtin `max(xs)` -/
def pyMax : List Int → Except PyErr Int
  | [] => .error .ValueError
  | x :: xs => .ok (xs.foldl (fun m v => if v > m then v else m) x)

/-- `ndarray.min()` / `np.min` (`ValueError` on a zero-size array) -/
def npMin : List Int → Except PyErr Int
  | [] => .error .ValueError
  | x :: xs => .ok (xs.foldl min x)

/-- `ndarray.max()` / `np.max` -/
def npMax : List Int → Except PyErr Int
  | [] => .error .ValueError
  | x :: xs => .ok (xs.foldl max x)

/-- numpy fancy indexing `col[idx]` with a list of non-negative indexes (`IndexError` when one is out
    of bounds) -/
def npTake {α} (col : List α) : List Nat → Except PyErr (List α)
  | [] => .ok []
  | i :: is =>
    match col[i]? with
    | none => .error .IndexError
    | some v =>
      match npTake col is with
      | .error e => .error e
      | .ok vs => .ok (v :: vs)

/-- the comprehension `[g_i for g_i in base if cond(self._data[g_i])]`
    (`IndexError` at the first out-of-range `g_i`) shared by `IntervalPS`, `SetPS`, `AttributePS` -/
def filterLoop {α} (data : List α) (p : α → Bool) : List Nat → Except PyErr (List Nat)
  | [] => .ok []
  | g :: gs =>
    match data[g]? with
    | none => .error .IndexError
    | some v =>
      match filterLoop data p gs with
      | .error e => .error e
      | .ok r => .ok (if p v then g :: r else r)

/-! ## IntervalPS -/

/-- a closed interval `(left, right)` as stored in `_data` -/
abbrev Iv := Int × Int

/-- one raw cell handed to the constructor: a `Number`, or a `Sequence` of numbers -/
inductive RawIv where
  | num (x : Int)
  | seq (xs : List Int)
  deriving DecidableEq, Repr, Inhabited

/-- body of the `for x in values` loop of `IntervalPS._transform_data` -/
def ivTransformOne (x : RawIv) : Except PyErr Iv :=
  let newX : Option Iv := none
  -- if isinstance(x, Sequence) and len(x) == 2: new_x = x
  let newX := match x with | .seq [a, b] => some (a, b) | _ => newX
  -- if isinstance(x, Sequence) and len(x) == 1: new_x = (x[0], x[0])
  let newX := match x with | .seq [a] => some (a, a) | _ => newX
  -- if isinstance(x, Number): new_x = (x, x)
  let newX := match x with | .num a => some (a, a) | _ => newX
  match newX with
  | none => .error .TypeError
  | some v => .ok v

/-- `IntervalPS._transform_data` (also the numpy class: `np.array(super()._transform_data(values))`) -/
def ivTransform : List RawIv → Except PyErr (List Iv)
  | [] => .ok []
  | x :: xs =>
    match ivTransformOne x with
    | .error e => .error e
    | .ok v =>
      match ivTransform xs with
      | .error e => .error e
      | .ok vs => .ok (v :: vs)

/-- the `for g_i in object_indexes[1:]` loop of `IntervalPS.intention_i` -/
def pyIntLoop (data : List Iv) : Iv → List Nat → Except PyErr Iv
  | acc, [] => .ok acc
  | (mn, mx), g :: gs =>
    match data[g]? with
    | none => .error .IndexError
    | some (vmin, vmax) =>
      pyIntLoop data (if vmin < mn then vmin else mn, if vmax > mx then vmax else mx) gs

/-- `IntervalPS.intention_i` (`None` for the empty object list) -/
def pyIntentionI (data : List Iv) (objs : List Nat) : Except PyErr (Option Iv) :=
  if objs.length = 0 then .ok none
  else
    match objs with
    | [] => .ok none
    | g0 :: rest =>
      match data[g0]? with
      | none => .error .IndexError
      | some v0 =>
        match pyIntLoop data v0 rest with
        | .error e => .error e
        | .ok r => .ok (some r)

/-- a description argument of `extension_i`: `None`, a `Number`, or a sequence of numbers -/
inductive IvDesc where
  | none
  | num (x : Int)
  | seq (xs : List Int)
  deriving DecidableEq, Repr, Inhabited

/-- the value `intention_i` returns, handed back as a description (`None` or the 2-tuple) -/
def IvDesc.ofOpt : Option Iv → IvDesc
  | Option.none => .none
  | some (a, b) => .seq [a, b]

/-- the two opening statements shared by both `extension_i`s:
    `if description is None: return []` (here: `none`) and
    `min_, max_ = description if not isinstance(description, Number) else (description, description)`
    (`ValueError` when a sequence does not have exactly two items) -/
def ivUnpack : IvDesc → Except PyErr (Option Iv)
  | .none => .ok none
  | .num x => .ok (some (x, x))
  | .seq [a, b] => .ok (some (a, b))
  | .seq _ => .error .ValueError

/-- `IntervalPS.extension_i` -/
def pyExtensionI (data : List Iv) (d : IvDesc) (base : Option (List Nat)) : Except PyErr (List Nat) :=
  match ivUnpack d with
  | .error e => .error e
  | .ok none => .ok []
  | .ok (some (mn, mx)) =>
    let baseObjs := match base with
      | none => List.range data.length
      | some bs => bs
    filterLoop data (fun v => decide (mn ≤ v.1) && decide (v.2 ≤ mx)) baseObjs

/-- one yielded pair of `to_bin_attr_extents`: the description that is printed into the attribute
    name (`describe_pattern`), and the flag vector -/
abbrev IvBinAttr := Option Iv × List Bool

/-- `IntervalPS.to_bin_attr_extents` (`zip(*self.data)` of an empty column: `ValueError`) -/
def pyBinExtents (data : List Iv) : Except PyErr (List IvBinAttr) :=
  if data.isEmpty then .error .ValueError
  else
    let uniqLeft := pySet (data.map (·.1))
    let uniqRight := pySet (data.map (·.2))
    match pyMin uniqLeft, pyMax uniqRight with
    | .error e, _ => .error e
    | _, .error e => .error e
    | .ok minLeft, .ok maxRight =>
      .ok ([(some (minLeft, maxRight), List.replicate data.length true)]
        ++ ((pySorted uniqLeft).drop 1).map
            (fun lb => (some (lb, maxRight), data.map fun v => decide (lb ≤ v.1)))
        ++ ((pySorted uniqRight).reverse.drop 1).map
            (fun rb => (some (minLeft, rb), data.map fun v => decide (v.2 ≤ rb)))
        ++ [(none, List.replicate data.length false)])

/-- `IntervalPS.n_bin_attrs` -/
def pyNBinAttrs (data : List Iv) : Except PyErr Nat :=
  if data.isEmpty then .error .ValueError
  else .ok ((pySet (data.map (·.1))).length + (pySet (data.map (·.2))).length)

/-! ## IntervalNumpyPS (`_data` is an `n × 2` array; a 0-row column becomes a 1-dimensional empty
    array, on which every `self._data[.., 0]` raises `IndexError: too many indices`) -/

/-- `IntervalNumpyPS.intention_i` -/
def npIntentionI (data : List Iv) (objs : List Nat) : Except PyErr (Option Iv) :=
  if objs.length = 0 then .ok none
  else if data.isEmpty then .error .IndexError
  else
    match npTake (data.map (·.1)) objs with
    | .error e => .error e
    | .ok ls =>
      match npMin ls with
      | .error e => .error e
      | .ok mn =>
        match npTake (data.map (·.2)) objs with
        | .error e => .error e
        | .ok rs =>
          match npMax rs with
          | .error e => .error e
          | .ok mx => .ok (some (mn, mx))

/-- `IntervalNumpyPS.extension_i` -/
def npExtensionI (data : List Iv) (d : IvDesc) (base : Option (List Nat)) : Except PyErr (List Nat) :=
  match ivUnpack d with
  | .error e => .error e
  | .ok none => .ok []
  | .ok (some (mn, mx)) =>
    if data.isEmpty then .error .IndexError
    else
      match base with
      | none =>
        -- flg = (min_ <= self._data[:,0]) & (self._data[:, 1] <= max_); flg.nonzero()[0].tolist()
        let flg := List.zipWith (· && ·) ((data.map (·.1)).map fun l => decide (mn ≤ l))
                                          ((data.map (·.2)).map fun r => decide (r ≤ mx))
        .ok (search1 flg)
      | some bs =>
        -- base_objects_i = np.asarray(list(base_objects_i), dtype=int)
        -- flg = (min_ <= self._data[base_objects_i, 0]) & (self._data[base_objects_i, 1] <= max_)
        -- base_objects_i[flg].tolist()
        match npTake (data.map (·.1)) bs with
        | .error e => .error e
        | .ok ls =>
          match npTake (data.map (·.2)) bs with
          | .error e => .error e
          | .ok rs =>
            let flg := List.zipWith (· && ·) (ls.map fun l => decide (mn ≤ l)) (rs.map fun r => decide (r ≤ mx))
            .ok (zipFilter bs flg)

/-- `IntervalNumpyPS.to_bin_attr_extents` -/
def npBinExtents (data : List Iv) : Except PyErr (List IvBinAttr) :=
  if data.isEmpty then .error .IndexError
  else
    let uniqLeft := npUnique (data.map (·.1))
    let uniqRight := npUnique (data.map (·.2))
    match npMin uniqLeft, npMax uniqRight with
    | .error e, _ => .error e
    | _, .error e => .error e
    | .ok minLeft, .ok maxRight =>
      .ok ([(some (minLeft, maxRight), List.replicate data.length true)]
        ++ ((pySorted uniqLeft).drop 1).map
            (fun lb => (some (lb, maxRight), (data.map (·.1)).map fun l => decide (lb ≤ l)))
        ++ ((pySorted uniqRight).reverse.drop 1).map
            (fun rb => (some (minLeft, rb), (data.map (·.2)).map fun r => decide (r ≤ rb)))
        ++ [(none, List.replicate data.length false)])

/-- `IntervalNumpyPS.n_bin_attrs` -/
def npNBinAttrs (data : List Iv) : Except PyErr Nat :=
  if data.isEmpty then .error .IndexError
  else .ok ((npUnique (data.map (·.1))).length + (npUnique (data.map (·.2))).length)

/-! ## SetPS — a value is a Python `set`, modelled as a duplicate-free list of (codes of) values -/

abbrev VSet := List Int

/-- a raw cell: a scalar / string (`{v}`) or an iterable (`set(v)`) -/
inductive RawSet where
  | atom (x : Int)
  | coll (xs : List Int)
  deriving DecidableEq, Repr, Inhabited

/-- `SetPS._transform_data` -/
def setTransform (values : List RawSet) : List VSet :=
  values.map fun
    | .atom x => [x]
    | .coll xs => pySet xs

/-- `a | b` -/
def setUnion (a b : VSet) : VSet := a ++ b.filter fun x => !a.contains x
/-- `a & b` -/
def setInter (a b : VSet) : VSet := a.filter fun x => b.contains x
/-- `a == b` on sets -/
def setEq (a b : VSet) : Bool := (a.all fun x => b.contains x) && (b.all fun x => a.contains x)

/-- the loop of `SetPS.intention_i` -/
def setIntLoop (data : List VSet) : VSet → List Nat → Except PyErr VSet
  | acc, [] => .ok acc
  | acc, g :: gs =>
    match data[g]? with
    | none => .error .IndexError
    | some row => setIntLoop data (setUnion acc row) gs

/-- `SetPS.intention_i` -/
def setIntentionI (data : List VSet) (objs : List Nat) : Except PyErr VSet :=
  setIntLoop data [] objs

/-- `SetPS.extension_i` -/
def setExtensionI (data : List VSet) (d : Option VSet) (base : Option (List Nat)) :
    Except PyErr (List Nat) :=
  match d with
  | none => .ok []
  | some ds =>
    let baseObjs := match base with
      | none => List.range data.length
      | some bs => bs
    filterLoop data (fun row => setEq (setInter row ds) row) baseObjs

/-- `uniq_vals = set(); for row in self.data: uniq_vals |= row` -/
def setUniq (data : List VSet) : VSet := data.foldl setUnion []

/-- `itertools.combinations(xs, k)` (lexicographic in positions) -/
def combs : List Int → Nat → List (List Int)
  | _, 0 => [[]]
  | [], _ + 1 => []
  | x :: xs, k + 1 => (combs xs k).map (x :: ·) ++ combs (xs) (k + 1)

/-- `SetPS.to_bin_attr_extents`: the description (the combination, in sorted order) and the flags -/
def setBinExtents (data : List VSet) : List (VSet × List Bool) :=
  let uniqVals := pySorted (setUniq data)
  -- for comb_size in range(len(uniq_vals), -1, -1): for comb in combinations(uniq_vals, comb_size)
  (List.range (uniqVals.length + 1)).reverse.flatMap fun combSize =>
    (combs uniqVals combSize).map fun comb =>
      (comb, data.map fun row => setEq (setInter row comb) row)

/-- `SetPS.n_bin_attrs` -/
def setNBinAttrs (data : List VSet) : Nat := 2 ^ (setUniq data).length

/-! ## AttributePS -/

/-- `AttributePS._transform_data`: `[bool(v) for v in values]` on numbers / booleans -/
def attrTransform (values : List Int) : List Bool := values.map fun v => v != 0

/-- `all(self._data[g_i] for g_i in object_indexes)` (stops at the first `False`) -/
def attrAllLoop (data : List Bool) : List Nat → Except PyErr Bool
  | [] => .ok true
  | g :: gs =>
    match data[g]? with
    | none => .error .IndexError
    | some false => .ok false
    | some true => attrAllLoop data gs

/-- `AttributePS.intention_i` (`[] ↦ False`) -/
def attrIntentionI (data : List Bool) (objs : List Nat) : Except PyErr Bool :=
  if objs.isEmpty then .ok false else attrAllLoop data objs

/-- `AttributePS.extension_i` (a `False` description means "anything") -/
def attrExtensionI (data : List Bool) (d : Bool) (base : Option (List Nat)) : Except PyErr (List Nat) :=
  let baseObjs := match base with
    | none => List.range data.length
    | some bs => bs
  if !d then .ok baseObjs
  else filterLoop data (fun v => v) baseObjs

/-- `AttributePS.to_bin_attr_extents`: one attribute, `describe_pattern(True)`, `fbarray(self.data)` -/
def attrBinExtents (data : List Bool) : List (Bool × List Bool) := [(true, data)]

/-- `AttributePS.n_bin_attrs` -/
def attrNBinAttrs (_data : List Bool) : Nat := 1

end Fca.PS

/-
  Fca.Model.Mover — executable model of `fcapy/visualizer/mover.py` (`class Mover`):
  the state (`levels`, `peers_order`, `pos_levels`, `pos_peers`), the `pos` setter / getter in both
  orientations, `swap_nodes`, `shift_node`, `jitter_node`, `place_node`.

  Coordinates are core `Rat`.  A failing operation raises before it mutates anything, so
  `step` returns either the new state or the exception class (state unchanged).
  Out-of-range list reads use `getD` defaults; `Mover.WF` (Lemmas/Mover) is the invariant under which
  no default is ever read, and it is proved for `setPos` and preserved by every operation.
-/
import Fca.Model.Layout
namespace Fca.Mover
open Fca.Layout (VErr)

inductive Dir where
  | v | h
  deriving DecidableEq, Repr, Inhabited

structure St where
  dir        : Dir
  levels     : List Nat          -- level index of every node (0 = top line)
  peersOrder : List Nat          -- rank of every node among the nodes of its level
  posLevels  : List Rat          -- coordinate of every level
  posPeers   : List (List Rat)   -- per level: the coordinates of its slots
  deriving DecidableEq, Repr, Inhabited

namespace St
def n (m : St) : Nat := m.levels.length
def lvl (m : St) (el : Nat) : Nat := m.levels.getD el 0
def ord (m : St) (el : Nat) : Nat := m.peersOrder.getD el 0
def row (m : St) (l : Nat) : List Rat := m.posPeers.getD l []
/-- `self.pos_peers[lvl][peer]` of node `el` -/
def peerCoord (m : St) (el : Nat) : Rat := (m.row (m.lvl el)).getD (m.ord el) 0
/-- `self.pos_levels[lvl]` of node `el` -/
def levelCoord (m : St) (el : Nat) : Rat := m.posLevels.getD (m.lvl el) 0
end St

/-! ### sorting helpers (Python `sorted` is stable) -/

/-- insert into a descending duplicate-free list, dropping a value already present -/
def insertDesc (x : Rat) : List Rat → List Rat
  | [] => [x]
  | y :: ys => if x == y then y :: ys else if y < x then x :: y :: ys else y :: insertDesc x ys

/-- `sorted(set(xs), reverse=True)` -/
def sortedSetDesc : List Rat → List Rat
  | [] => []
  | x :: xs => insertDesc x (sortedSetDesc xs)

def insertByKey (key : Nat → Rat) (x : Nat) : List Nat → List Nat
  | [] => [x]
  | y :: ys => if key x ≤ key y then x :: y :: ys else y :: insertByKey key x ys

/-- `sorted(xs, key=key)` with rational keys (stable) -/
def sortByKey (key : Nat → Rat) : List Nat → List Nat
  | [] => []
  | x :: xs => insertByKey key x (sortByKey key xs)

def insertByNat (key : Nat → Nat) (x : Nat) : List Nat → List Nat
  | [] => [x]
  | y :: ys => if key x ≤ key y then x :: y :: ys else y :: insertByNat key x ys

/-- `sorted(xs, key=key)` with integer keys (stable) -/
def sortByNat (key : Nat → Nat) : List Nat → List Nat
  | [] => []
  | x :: xs => insertByNat key x (sortByNat key xs)

/-! ### `pos` setter -/

/-- the `(peer coordinate, level coordinate)` view the setter works with:
    `value = {el_i: (y, -x)}` in the horizontal orientation -/
def orient (d : Dir) (p : Rat × Rat) : Rat × Rat :=
  match d with
  | .v => p
  | .h => (p.2, -p.1)

/-- sort key of a node among its peers: `value[el_i][0]` -/
def keyOf (val : List (Rat × Rat)) (el : Nat) : Rat := (val.getD el (0, 0)).1

/-- `levels = [lvl_coords_inv_dct[value[el_i][1]] for el_i in range(max_el_i + 1)]`
    (`lvl_coords` is duplicate-free, so the dictionary lookup is the index of the coordinate) -/
def levelsOf (lvlCoords : List Rat) (val : List (Rat × Rat)) : List Nat :=
  val.map fun p => lvlCoords.idxOf p.2

/-- `sorted(peers, key=lambda el_i: value[el_i][0])` for the peers of level `l` -/
def peersOf (val : List (Rat × Rat)) (levels : List Nat) (l : Nat) : List Nat :=
  sortByKey (keyOf val) ((List.range val.length).filter fun el => levels.getD el 0 == l)

/-- the final assignment of the `pos` setter, on the oriented value -/
def loadState (d : Dir) (val : List (Rat × Rat)) : St :=
  let lvlCoords := sortedSetDesc (val.map (·.2))
  let levels := levelsOf lvlCoords val
  let peersOrder : List (List Nat) := (List.range lvlCoords.length).map (peersOf val levels)
  { dir := d, levels := levels,
    peersOrder := (List.range val.length).map fun el => (peersOrder.getD (levels.getD el 0) []).idxOf el,
    posLevels := lvlCoords,
    posPeers := peersOrder.map fun peers => peers.map (keyOf val) }

/-- `Mover.pos = value` (value as the list `[value[0], …, value[n-1]]`; `max({})` is a `ValueError`).
    The setter first runs the `posx`/`posy` setters and then recomputes and overwrites all four state
    fields from `value`; the model is that final assignment. -/
def setPos (d : Dir) (value : List (Rat × Rat)) : Except VErr St :=
  if value.isEmpty then .error .ValueError
  else .ok (loadState d (value.map (orient d)))

/-! ### `pos` getter -/

def posx (m : St) : List Rat :=
  match m.dir with
  | .v => (List.range m.n).map m.peerCoord
  | .h => (List.range m.n).map fun el => -(m.levelCoord el)

def posy (m : St) : List Rat :=
  match m.dir with
  | .v => (List.range m.n).map m.levelCoord
  | .h => (List.range m.n).map m.peerCoord

/-- `Mover.pos` as the list `[pos[0], …, pos[n-1]]` -/
def getPos (m : St) : List (Rat × Rat) := (posx m).zip (posy m)

/-! ### operations -/

/-- `swap_nodes(el_a, el_b)` -/
def swapNodes (m : St) (a b : Nat) : Except VErr St :=
  if a < m.n ∧ b < m.n then
    if m.lvl a ≠ m.lvl b then .error .DifferentHierarchyLevelsError
    else .ok { m with peersOrder := (m.peersOrder.set a (m.ord b)).set b (m.ord a) }
  else .error .IndexError

/-- `for node_swap in nodes_to_swap: self.swap_nodes(node_i, node_swap)` -/
def swapLoop (m : St) (i : Nat) : List Nat → Except VErr St
  | [] => .ok m
  | s :: ss =>
    match swapNodes m i s with
    | .error e => .error e
    | .ok m' => swapLoop m' i ss

/-- the peers of `node_i`'s level, ordered by their rank -/
def peersIds (m : St) (lvl : Nat) : List Nat :=
  sortByNat m.ord ((List.range m.n).filter fun i => m.lvl i == lvl)

def nodesToSwap (m : St) (i : Nat) (k : Int) : List Nat :=
  let ids := peersIds m (m.lvl i)
  let cand := if 0 ≤ k then ids.drop (m.ord i + 1) else (ids.take (m.ord i)).reverse
  cand.take k.natAbs

/-- `shift_node(node_i, n_nodes_right)` -/
def shiftNode (m : St) (i : Nat) (k : Int) : Except VErr St :=
  if i < m.n then swapLoop m i (nodesToSwap m i k) else .error .IndexError

def setRow (m : St) (l p : Nat) (x : Rat) : St :=
  { m with posPeers := m.posPeers.set l ((m.row l).set p x) }

/-- `jitter_node(node_i, dx)` -/
def jitterNode (m : St) (i : Nat) (dx : Rat) : Except VErr St :=
  if i < m.n then
    let l := m.lvl i
    let p := m.ord i
    let pp := m.row l
    let newX := pp.getD p 0 + dx
    let onBorder := if 0 ≤ dx then p + 1 == pp.length else p == 0
    if onBorder then .ok (setRow m l p newX)
    else
      let preserving := if 0 ≤ dx then decide (newX < pp.getD (p + 1) 0) else decide (pp.getD (p - 1) 0 < newX)
      if preserving then .ok (setRow m l p newX)
      else if pp.any (· == newX) then .error .AssertionError
      else
        let k : Int :=
          if 0 ≤ dx then (((pp.drop (p + 1)).filter fun x => x < newX).length : Int)
          else -((((pp.take p).filter fun x => newX < x).length : Nat) : Int)
        match shiftNode m i k with
        | .error e => .error e
        | .ok m' => .ok (setRow m' l (m'.ord i) newX)
  else .error .IndexError

/-- `place_node(node_i, x)`: `jitter_node(node_i, x - self.pos[node_i][0])` -/
def placeNode (m : St) (i : Nat) (x : Rat) : Except VErr St :=
  if i < m.n then jitterNode m i (x - ((posx m).getD i 0)) else .error .KeyError

inductive Op where
  | swap (a b : Nat)
  | shift (i : Nat) (k : Int)
  | jitter (i : Nat) (dx : Rat)
  | place (i : Nat) (x : Rat)
  deriving Repr, Inhabited

def step (m : St) : Op → Except VErr St
  | .swap a b => swapNodes m a b
  | .shift i k => shiftNode m i k
  | .jitter i dx => jitterNode m i dx
  | .place i x => placeNode m i x

/-- run a history; an operation that raises leaves the state unchanged (the caller catches it) -/
def run (m : St) : List Op → St
  | [] => m
  | o :: os =>
    match step m o with
    | .ok m' => run m' os
    | .error _ => run m os

end Fca.Mover

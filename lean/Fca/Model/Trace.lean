/-
  Fca.Model.Trace — `ConceptLattice.trace_context(context, use_object_indices, use_generators=False)`
  (`fcapy/lattice/concept_lattice.py`), written the way the Python is written:

  * the memoised inner function `stored_extension` (the `concept_extents` dictionary),
  * `for i in range(len(self))` around the FIFO `concepts_to_visit` with its `break` on an empty queue
    (the loop bound *is* the fuel: when it is used up the code simply leaves the loop — no error),
  * `stopped_objects = extent - subconcept_extents`,
  * the child filter `len(stored_extension(sub)) > 0 and sub not in visited and sub not in concepts_to_visit`,
  * `sorted(new_concepts, key=lambda c_i: -self[c_i].support)` (stable),
  * the two dictionaries keyed by object index or object name,
  * `NotImplementedError` for a lattice of monotone concepts.

  The lattice is data (`Lat`): `self.children_dict[i]` as a list in the (unspecified) iteration order of
  the frozenset, `self[i].support`, `self.top`, `self.is_monotone`.  What the traced context contributes is
  `extOf c = context.extension_i(self[c].intent_i)`; it is instantiated below for `FormalContext`
  (`Ctx.extensionI`, all three backends) and for an `MVContext` of interval pattern structures.

  No Mathlib (the driver links this file).
-/
import Fca.Model.Context
namespace Fca.Trace
open Fca

/-- what `trace_context` reads from `self` -/
structure Lat where
  /-- `self.children_dict[i]`, each in the iteration order of the frozenset -/
  children : List (List Nat)
  /-- `self[i].support` -/
  supports : List Nat
  /-- `self.top` -/
  top : Nat
  /-- `self.is_monotone` -/
  isMonotone : Bool
  deriving Repr, Inhabited

/-- `len(self)` -/
def Lat.size (L : Lat) : Nat := L.children.length

/-- the dictionary `concept_extents` (newest first) -/
abbrev Cache := List (Nat × List Nat)

/-- `stored_extension(concept_i, use_generators=False)`:
    `if concept_i not in concept_extents: concept_extents[concept_i] = set(context.extension_i(intent_i))` -/
def storedExtension (extOf : Nat → List Nat) (ca : Cache) (c : Nat) : Cache × List Nat :=
  match ca.lookup c with
  | some e => (ca, e)
  | none => let e := (extOf c).eraseDups; ((c, e) :: ca, e)

/-- `set.add` on a duplicate-free list -/
def setAdd (s : List Nat) (c : Nat) : List Nat := if s.contains c then s else s ++ [c]

/-- `a |= b` -/
def setUnion (a b : List Nat) : List Nat := a ++ b.filter fun x => !a.contains x

/-- `d[g].add(c)` on the dictionaries `{idx: set() for idx in range(n_objects)}`
    (a key `g ≥ n_objects` would be a `KeyError`; `extension_i` only returns object indexes, and the
    theorems carry the corresponding hypothesis, so that branch is never taken) -/
def addAt (tbl : List (List Nat)) (g c : Nat) : List (List Nat) := tbl.modify g (setAdd · c)

/-- `for g_i in gs: d[g_i].add(c_i)` -/
def addAll (tbl : List (List Nat)) (gs : List Nat) (c : Nat) : List (List Nat) :=
  gs.foldl (fun t g => addAt t g c) tbl

/-- `for subconcept_i in subconcepts_i: subconcept_extents |= stored_extension(subconcept_i, ..)` -/
def unionExts (extOf : Nat → List Nat) : List Nat → Cache → List Nat → Cache × List Nat
  | [], ca, acc => (ca, acc)
  | k :: ks, ca, acc =>
    let r := storedExtension extOf ca k
    unionExts extOf ks r.1 (setUnion acc r.2)

/-- `[sub for sub in subconcepts_i if len(stored_extension(sub, ..)) > 0
       and sub not in visited_concepts and sub not in concepts_to_visit]` -/
def newConcepts (extOf : Nat → List Nat) (visited queue : List Nat) : List Nat → Cache → Cache × List Nat
  | [], ca => (ca, [])
  | k :: ks, ca =>
    let r := storedExtension extOf ca k
    let rest := newConcepts extOf visited queue ks r.1
    if decide (r.2.length > 0) && !visited.contains k && !queue.contains k then (rest.1, k :: rest.2)
    else rest

/-- insert `x` before the first element with a strictly smaller support -/
def insertBySupport (L : Lat) (x : Nat) : List Nat → List Nat
  | [] => [x]
  | y :: ys =>
    if L.supports.getD y 0 ≤ L.supports.getD x 0 then x :: y :: ys else y :: insertBySupport L x ys

/-- `sorted(new_concepts, key=lambda c_i: -self[c_i].support)`: descending support, ties keep their
    original order (Python's sort is stable; so is this insertion sort, which inserts from the right) -/
def sortBySupport (L : Lat) : List Nat → List Nat
  | [] => []
  | x :: xs => insertBySupport L x (sortBySupport L xs)

structure St where
  cache   : Cache            -- concept_extents
  queue   : List Nat         -- concepts_to_visit
  visited : List Nat         -- visited_concepts
  bottom  : List (List Nat)  -- object_bottom_concepts (position = object index)
  traced  : List (List Nat)  -- object_traced_concepts
  deriving Repr, Inhabited

/-- one pass of the loop body after `c_i = concepts_to_visit.pop(0)` (`rest` = the remaining queue) -/
def step (L : Lat) (extOf : Nat → List Nat) (s : St) (c : Nat) (rest : List Nat) : St :=
  let r1 := storedExtension extOf s.cache c              -- extent = stored_extension(c_i, ..)
  let extent := r1.2
  let visited := setAdd s.visited c                      -- visited_concepts.add(c_i)
  let subs := L.children.getD c []                       -- subconcepts_i = self.children_dict[c_i]
  let r2 := unionExts extOf subs r1.1 []                 -- subconcept_extents
  let stopped := extent.filter fun g => !r2.2.contains g -- extent - subconcept_extents
  let bottom := addAll s.bottom stopped c
  let traced := addAll s.traced extent c
  let r3 := newConcepts extOf visited rest subs r2.1
  { cache := r3.1, queue := rest ++ sortBySupport L r3.2, visited := visited, bottom := bottom, traced := traced }

/-- `for i in range(len(self)): if len(concepts_to_visit) == 0: break; ...` -/
def loop (L : Lat) (extOf : Nat → List Nat) : Nat → St → St
  | 0, s => s
  | k + 1, s =>
    match s.queue with
    | [] => s
    | c :: rest => loop L extOf k (step L extOf s c rest)

def initSt (L : Lat) (nObj : Nat) : St :=
  { cache := [], queue := [L.top], visited := [],
    bottom := List.replicate nObj [], traced := List.replicate nObj [] }

/-- the state after the main loop -/
def traceCore (L : Lat) (extOf : Nat → List Nat) (nObj : Nat) : St :=
  loop L extOf L.size (initSt L nObj)

/-- a dictionary key of the result: object index or object name -/
inductive Key where
  | idx (i : Nat)
  | name (s : String)
  deriving DecidableEq, Repr, Inhabited

/-- a returned dictionary, in insertion order -/
abbrev Dict := List (Key × List Nat)

/-- the dictionaries as built (`use_object_indices=True` returns them unchanged) -/
def idxKeys : List (List Nat) → Nat → Dict
  | [], _ => []
  | s :: ss, g => (Key.idx g, s) :: idxKeys ss (g + 1)

/-- `{context.object_names[g_i]: concepts_i for g_i, concepts_i in d.items()}` -/
def nameKeys (names : List String) : List (List Nat) → Nat → Except PyErr Dict
  | [], _ => .ok []
  | s :: ss, g =>
    match names[g]? with
    | none => .error .IndexError
    | some nm =>
      match nameKeys names ss (g + 1) with
      | .error e => .error e
      | .ok r => .ok ((Key.name nm, s) :: r)

/-- `trace_context(context, use_object_indices, use_generators=False)`
    → `(object_bottom_concepts, object_traced_concepts)` -/
def traceContext (L : Lat) (extOf : Nat → List Nat) (nObj : Nat) (names : List String) (useIdx : Bool) :
    Except PyErr (Dict × Dict) :=
  if L.isMonotone then .error .NotImplementedError
  else
    let s := traceCore L extOf nObj
    if useIdx then .ok (idxKeys s.bottom 0, idxKeys s.traced 0)
    else
      match nameKeys names s.bottom 0 with
      | .error e => .error e
      | .ok b =>
        match nameKeys names s.traced 0 with
        | .error e => .error e
        | .ok t => .ok (b, t)

/-! ### `context` a `FormalContext` -/

/-- tracing a `FormalContext` `K`: `extOf c = K.extension_i(self[c].intent_i)` -/
def traceFormal (L : Lat) (intents : List (List Nat)) (K : Ctx) (useIdx : Bool) : Except PyErr (Dict × Dict) :=
  traceContext L (fun c => K.extensionI (intents.getD c []) none) K.nObjects K.objNames useIdx

/-! ### `context` an `MVContext` of interval pattern structures -/

/-- an `MVContext` whose pattern structures are all `IntervalPS`: `cols[p][g] = (lo, hi)` -/
structure MVCtx where
  cols : List (List (Int × Int))
  nObjects : Nat
  objNames : List String
  deriving Repr, Inhabited

/-- `IntervalPS.extension_i(description, base_objects_i)` -/
def ipsExtensionI (data : List (Int × Int)) (d : Option (Int × Int)) (base : List Nat) : List Nat :=
  match d with
  | none => []
  | some (lo, hi) =>
    base.filter fun g =>
      match data[g]? with
      | some (a, b) => decide (lo ≤ a) && decide (b ≤ hi)
      | none => false

/-- the loop `for ps_i, description in descriptions_i.items(): extent_i = ps.extension_i(..); if empty: break` -/
def mvExtLoop (K : MVCtx) : List (Nat × Option (Int × Int)) → List Nat → List Nat
  | [], ext => ext
  | (p, d) :: rest, ext =>
    let ext' := ipsExtensionI (K.cols.getD p []) d ext
    if ext'.length = 0 then ext' else mvExtLoop K rest ext'

/-- `MVContext.extension_i(descriptions_i)` (no base objects) -/
def mvExtensionI (K : MVCtx) (desc : List (Nat × Option (Int × Int))) : List Nat :=
  mvExtLoop K desc (List.range K.nObjects)

def traceMV (L : Lat) (intents : List (List (Nat × Option (Int × Int)))) (K : MVCtx) (useIdx : Bool) :
    Except PyErr (Dict × Dict) :=
  traceContext L (fun c => mvExtensionI K (intents.getD c [])) K.nObjects K.objNames useIdx

end Fca.Trace

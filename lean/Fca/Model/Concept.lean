/-
  Fca.Model.Concept — `AbstractConcept` / `FormalConcept` (`fcapy/lattice/formal_concept.py`)
  and `PatternConcept` (`fcapy/lattice/pattern_concept.py`): comparison, equality, the value handed
  to `hash`, the attribute-assignment rule and `from_objects`, written the way the Python is written
  (guards in the order of the code, support shortcut, membership loop with its early `return False`).

  No Mathlib import (the driver is linked natively).
-/
import Fca.Model.Context
namespace Fca

/-- The exception classes the concept classes raise.  Finer than `PyErr` (which has neither
    `AttributeError` nor the two `ValueError` subclasses of `formal_concept.py`);
    `CErr.base` gives the `PyErr` class each one is (a subclass of). -/
inductive CErr where
  | UnmatchedContextError | UnmatchedMonotonicityError   -- both `class …(ValueError)`
  | NotImplementedError                                   -- PatternConcept's cross-context refusal
  | FrozenInstanceError                                   -- `dataclasses.FrozenInstanceError(AttributeError)`
  | AttributeError                                        -- property without a setter
  | AssertionError | ValueError | IndexError
  deriving DecidableEq, Repr, Inhabited

def CErr.name : CErr → String
  | .UnmatchedContextError => "UnmatchedContextError"
  | .UnmatchedMonotonicityError => "UnmatchedMonotonicityError"
  | .NotImplementedError => "NotImplementedError"
  | .FrozenInstanceError => "FrozenInstanceError"
  | .AttributeError => "AttributeError"
  | .AssertionError => "AssertionError"
  | .ValueError => "ValueError"
  | .IndexError => "IndexError"

/-- the `PyErr` class of the shared vocabulary that the exception is an instance of
    (`AttributeError` is absent from `PyErr`; its only subclass there is used for both). -/
def CErr.base : CErr → PyErr
  | .UnmatchedContextError | .UnmatchedMonotonicityError | .ValueError => .ValueError
  | .NotImplementedError => .NotImplementedError
  | .FrozenInstanceError | .AttributeError => .FrozenInstanceError
  | .AssertionError => .AssertionError
  | .IndexError => .IndexError

/-- insertion of one key into an ascending list (`sorted` on ints: any correct sort gives this list) -/
def insertSorted (x : Nat) : List Nat → List Nat
  | [] => [x]
  | y :: ys => if x ≤ y then x :: y :: ys else y :: insertSorted x ys

/-- `sorted(xs)` for a list of ints -/
def sortedNats : List Nat → List Nat
  | [] => []
  | x :: xs => insertSorted x (sortedNats xs)

/-- `for g_i in small: if g_i not in set(big): return False` … `return True` -/
def memLoop (big : List Nat) : List Nat → Bool
  | [] => true
  | g :: gs => if !(big.contains g) then false else memLoop big gs

/-- `set(xs) == set(ys)` (CPython set equality: mutual inclusion) -/
def setEq (xs ys : List Nat) : Bool :=
  xs.all (fun g => ys.contains g) && ys.all (fun g => xs.contains g)

/-- The fields of a `FormalConcept` (`measures` plays no role in any modelled method). -/
structure Concept where
  extentI : List Nat
  extent : List String
  intentI : List Nat
  intent : List String
  contextHash : Option Int
  isMonotone : Bool
  deriving DecidableEq, Repr, Inhabited

namespace Concept

/-- `support` property -/
def support (c : Concept) : Nat := c.extentI.length

/-- `AbstractConcept.__eq__` -/
def eq (a b : Concept) : Except CErr Bool :=
  if a.contextHash != b.contextHash then .error .UnmatchedContextError
  else if a.isMonotone != b.isMonotone then .error .UnmatchedMonotonicityError
  else if a.support != b.support then .ok false
  else .ok (setEq a.extentI b.extentI)

/-- `!=` is Python's default: `not (a == b)`, propagating the exception -/
def ne (a b : Concept) : Except CErr Bool :=
  match eq a b with
  | .ok v => .ok (!v)
  | .error e => .error e

/-- the value handed to `hash` by `AbstractConcept.__hash__`: `tuple(sorted(self.extent_i))` -/
def hashKey (a : Concept) : List Nat := sortedNats a.extentI

/-- `AbstractConcept.__le__` -/
def le (a b : Concept) : Except CErr Bool :=
  if a.contextHash != b.contextHash then .error .UnmatchedContextError
  else if a.isMonotone != b.isMonotone then .error .UnmatchedMonotonicityError
  else
    let (lesser, greater) := if !a.isMonotone then (a, b) else (b, a)
    if lesser.support > greater.support then .ok false
    else .ok (memLoop greater.extentI lesser.extentI)

/-- `AbstractConcept.__lt__` -/
def lt (a b : Concept) : Except CErr Bool :=
  if a.contextHash != b.contextHash then .error .UnmatchedContextError
  else if a.isMonotone != b.isMonotone then .error .UnmatchedMonotonicityError
  else if a.support == b.support then .ok false
  else le a b

/-- the six names `__setattr__` protects -/
def frozenNames : List String := ["extent_i", "extent", "intent_i", "intent", "context_hash", "is_monotone"]

/-- `self.__dict__` keys once the (pydantic) dataclass `__init__` has run: the seven fields -/
def dictAfterInit : List String :=
  ["extent_i", "extent", "intent_i", "intent", "measures", "context_hash", "is_monotone"]

/-- `AbstractConcept.__setattr__(key, value)` on an instance whose `__dict__` has the keys `dict`:
    the freeze test, then `object.__setattr__` (which refuses `support`, a property without setter). -/
def setattr (dict : List String) (key : String) : Except CErr Unit :=
  if dict.contains key && frozenNames.contains key then .error .FrozenInstanceError
  else if key == "support" then .error .AttributeError
  else .ok ()

/-- `AbstractConcept.__delattr__(key)`: the six defining fields are refused outright; everything else goes to
    `object.__delattr__`, which removes an instance attribute from `__dict__` (`AttributeError` when there is
    none, e.g. for the `support` property) -/
def delattr (dict : List String) (key : String) : Except CErr (List String) :=
  if frozenNames.contains key then .error .FrozenInstanceError
  else if dict.contains key then .ok (dict.erase key) else .error .AttributeError

/-- one attribute statement on a concept: `c.key = value` or `del c.key` -/
inductive AttrOp where
  | set (key : String)
  | del (key : String)
  deriving Repr, Inhabited

/-- effect of one statement on the set of `__dict__` keys, and what it raised (a raising statement
    leaves the instance untouched) -/
def step (dict : List String) : AttrOp → List String × Except CErr Unit
  | .set k =>
    match setattr dict k with
    | .ok () => (if dict.contains k then dict else k :: dict, .ok ())
    | .error e => (dict, .error e)
  | .del k =>
    match delattr dict k with
    | .ok d => (d, .ok ())
    | .error e => (dict, .error e)

/-- `__dict__` keys after a whole sequence of attribute statements (exceptions caught by the caller) -/
def runOps (dict : List String) : List AttrOp → List String
  | [] => dict
  | op :: ops => runOps (step dict op).1 ops

end Concept

/-- the `objects` argument of `from_objects`: names or indexes -/
inductive ObjArg where
  | names (xs : List String)
  | idx (xs : List Nat)
  deriving Repr, Inhabited

/-- `list.index(x)` starting the count at `i`: FIRST occurrence -/
def firstIndexFrom : List String → Nat → String → Option Nat
  | [], _, _ => none
  | y :: ys, i, x => if y = x then some i else firstIndexFrom ys (i + 1) x

def firstIndex (names : List String) (x : String) : Option Nat := firstIndexFrom names 0 x

/-- `[K.object_names.index(g) for g in objects]` (`ValueError` on the first unknown name) -/
def namesIndex (names : List String) : List String → Except CErr (List Nat)
  | [] => .ok []
  | x :: xs =>
    match firstIndex names x with
    | none => .error .ValueError
    | some i =>
      match namesIndex names xs with
      | .error e => .error e
      | .ok is => .ok (i :: is)

/-- `[names[i] for i in idxs]` (`IndexError` when out of range) -/
def pickNames (names : List String) : List Nat → Except CErr (List String)
  | [] => .ok []
  | i :: is =>
    match names[i]? with
    | none => .error .IndexError
    | some s =>
      match pickNames names is with
      | .error e => .error e
      | .ok ss => .ok (s :: ss)

namespace Concept

/-- `FormalConcept.from_objects(objects, K, is_extent, is_monotone)`;
    `h` is the value of `K.hash_fixed()` (zlib.adler32 of a rendering of the context: trusted). -/
def fromObjects (objects : ObjArg) (K : Ctx) (h : Int) (isExtent isMonotone : Bool) :
    Except CErr Concept := do
  if isMonotone then throw .AssertionError
  let objectsI ← match objects with
    | .names [] => pure []                       -- `if objects and isinstance(objects[0], str)`
    | .names (x :: xs) => namesIndex K.objNames (x :: xs)
    | .idx xs => pure xs
  let intentI := K.intentionI objectsI none
  let intent ← pickNames K.attrNames intentI
  let objectsI' := if !isExtent then K.extensionI intentI none else objectsI
  let objects' ← pickNames K.objNames objectsI'
  pure ⟨objectsI', objects', intentI, intent, some h, isMonotone⟩

end Concept

/-! ## PatternConcept -/

/-- The fields of a `PatternConcept`; `D` is the type of the description dictionary `intent_i`. -/
structure PConcept (D : Type) where
  extentI : List Nat
  extent : List String
  intentI : D
  contextHash : Option Int

namespace PConcept
variable {D : Type}

def support (c : PConcept D) : Nat := c.extentI.length

/-- `PatternConcept.__le__` -/
def le (a b : PConcept D) : Except CErr Bool :=
  if a.contextHash != b.contextHash then .error .NotImplementedError
  else if a.support > b.support then .ok false
  else .ok (memLoop b.extentI a.extentI)

/-- `PatternConcept.__eq__` -/
def eq (a b : PConcept D) : Except CErr Bool :=
  if a.contextHash != b.contextHash then .error .NotImplementedError
  else if a.support != b.support then .ok false
  else le a b

def ne (a b : PConcept D) : Except CErr Bool :=
  match eq a b with
  | .ok v => .ok (!v)
  | .error e => .error e

/-- `PatternConcept.__lt__` -/
def lt (a b : PConcept D) : Except CErr Bool :=
  if a.contextHash != b.contextHash then .error .NotImplementedError
  else if a.support ≥ b.support then .ok false
  else le a b

/-- the value handed to `hash`: `(tuple(sorted(self._extent_i)), self._context_hash)` -/
def hashKey (a : PConcept D) : List Nat × Option Int := (sortedNats a.extentI, a.contextHash)

/-- the public names that are read-only `property` objects of the class -/
def propertyNames : List String :=
  ["extent_i", "extent", "intent_i", "intent", "pattern_types", "support", "context_hash"]

/-- `setattr(c, key, value)` on a `PatternConcept` (plain class: a property without setter
    raises `AttributeError`, everything else is stored in `__dict__`) -/
def setattr (key : String) : Except CErr Unit :=
  if propertyNames.contains key then .error .AttributeError else .ok ()

/-- `del obj.key` on a `PatternConcept`: a property without deleter refuses; other names are instance
    attributes (`present` = the name is in `__dict__`) -/
def delattr (present : Bool) (key : String) : Except CErr Unit :=
  if propertyNames.contains key then .error .AttributeError
  else if present then .ok () else .error .AttributeError

/-- `PatternConcept.from_objects`, abstract in the many-valued context: `intentionI` / `extensionI`
    are `K.intention_i` / `K.extension_i`, `objNames` is `K.object_names`, `h` is `K.hash_fixed()`. -/
def fromObjects (intentionI : List Nat → D) (extensionI : D → List Nat) (objNames : List String)
    (objects : ObjArg) (h : Int) (isExtent isMonotone : Bool) : Except CErr (PConcept D) := do
  if isMonotone then throw .AssertionError
  let objectsI ← match objects with
    | .names [] => pure []
    | .names (x :: xs) => namesIndex objNames (x :: xs)
    | .idx xs => pure xs
  let intentI := intentionI objectsI
  let objectsI' := if !isExtent then extensionI intentI else objectsI
  let objects' ← pickNames objNames objectsI'
  pure ⟨objectsI', objects', intentI, some h⟩

end PConcept

/-! ## a many-valued context whose columns are all `IntervalPS` (integer ends: exact as floats) -/
namespace Interval

abbrev Iv := Int × Int
/-- one `IntervalPS`: the `(min, max)` pair of every object -/
abbrev Col := List Iv

/-- the `for g_i in object_indexes[1:]` loop of `IntervalPS.intention_i` -/
def hullLoop (col : Col) : List Nat → Iv → Iv
  | [], acc => acc
  | g :: gs, (mn, mx) =>
    let (vmin, vmax) := col.getD g (0, 0)
    hullLoop col gs (if vmin < mn then vmin else mn, if vmax > mx then vmax else mx)

/-- `IntervalPS.intention_i` -/
def intentionI (col : Col) : List Nat → Option Iv
  | [] => none
  | g :: gs => some (hullLoop col gs (col.getD g (0, 0)))

/-- `IntervalPS.extension_i(description, base_objects_i)` -/
def extensionI (col : Col) (d : Option Iv) (base : List Nat) : List Nat :=
  match d with
  | none => []
  | some (mn, mx) => base.filter fun g => let v := col.getD g (0, 0); decide (mn ≤ v.1) && decide (v.2 ≤ mx)

/-- `MVContext.intention_i`: `{ps_i: ps.intention_i(objs)}` in column order -/
def mvIntentionI (cols : List Col) (objs : List Nat) : List (Option Iv) := cols.map fun c => intentionI c objs

/-- the `for ps_i, description in descriptions_i.items()` loop of `MVContext.extension_i`
    with its `if len(extent_i) == 0: break` -/
def mvExtLoop : List (Col × Option Iv) → List Nat → List Nat
  | [], ext => ext
  | (c, d) :: rest, ext =>
    let ext' := extensionI c d ext
    if ext'.length = 0 then ext' else mvExtLoop rest ext'

/-- `MVContext.extension_i(descriptions_i)` with `base_objects_i = None` -/
def mvExtensionI (n : Nat) (cols : List Col) (ds : List (Option Iv)) : List Nat :=
  mvExtLoop (cols.zip ds) (List.range n)

end Interval
end Fca

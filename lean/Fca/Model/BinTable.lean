/-
  Fca.Model.BinTable — the three `AbstractBinTable` backends of
  `fcapy/context/bintable.py`, written the way the Python is written
  (same loops, same early `break`s, same masks, same index pairing).

  `rows` / `columns` are `Option (List Nat)` : `none` = Python `None`.
-/
import Fca.Model.Basic
namespace Fca

/-! ## BinTableLists -/
namespace L

/-- `rows = range(self.height) if rows is None else rows` -/
def rowsOf (t : Table) (rows : Option (List Nat)) : List Nat := rows.getD (List.range t.height)

def allPerRow (t : Table) (rows cols : Option (List Nat)) : List Bool :=
  match cols with
  | none => (rowsOf t rows).map fun i => pyAll (t.row i)
  | some cs => (rowsOf t rows).map fun i => pyAll (cs.map fun j => t.get i j)

/-- the accumulator loop of `_all_per_column`, with its early `break`. -/
def allPerColumnLoop (t : Table) (cols : List Nat) : List Nat → List Bool → List Bool
  | [], vals => vals
  | i :: rest, vals =>
    let vals' := List.zipWith (fun v c => v && t.get i c) vals cols
    if !(pyAny vals') then vals' else allPerColumnLoop t cols rest vals'

def allPerColumn (t : Table) (rows cols : Option (List Nat)) : List Bool :=
  let cs := cols.getD (List.range t.width)
  allPerColumnLoop t cs (rowsOf t rows) (List.replicate cs.length true)

def anyPerRow (t : Table) (rows cols : Option (List Nat)) : List Bool :=
  match cols with
  | none => (rowsOf t rows).map fun i => pyAny (t.row i)
  | some cs => (rowsOf t rows).map fun i => pyAny (cs.map fun j => t.get i j)

def anyPerColumnLoop (t : Table) (cols : List Nat) : List Nat → List Bool → List Bool
  | [], vals => vals
  | i :: rest, vals =>
    let vals' := List.zipWith (fun v c => v || t.get i c) vals cols
    if pyAll vals' then vals' else anyPerColumnLoop t cols rest vals'

def anyPerColumn (t : Table) (rows cols : Option (List Nat)) : List Bool :=
  let cs := cols.getD (List.range t.width)
  anyPerColumnLoop t cs (rowsOf t rows) (List.replicate cs.length false)

def allAll (t : Table) (rows cols : Option (List Nat)) : Bool :=
  match cols with
  | none => (rowsOf t rows).all fun i => pyAll (t.row i)
  | some cs => (rowsOf t rows).all fun i => cs.all fun j => t.get i j

def anyAny (t : Table) (rows cols : Option (List Nat)) : Bool :=
  match cols with
  | none => (rowsOf t rows).any fun i => pyAny (t.row i)
  | some cs => (rowsOf t rows).any fun i => cs.any fun j => t.get i j

def countTrue (xs : List Bool) : Nat := (xs.filter id).length

def sumPerRow (t : Table) (rows cols : Option (List Nat)) : List Nat :=
  match cols with
  | none => (rowsOf t rows).map fun i => countTrue (t.row i)
  | some cs => (rowsOf t rows).map fun i => countTrue (cs.map fun j => t.get i j)

def sumPerColumnLoop (t : Table) (cols : List Nat) : List Nat → List Nat → List Nat
  | [], vals => vals
  | i :: rest, vals =>
    sumPerColumnLoop t cols rest (List.zipWith (fun v c => v + (if t.get i c then 1 else 0)) vals cols)

def sumPerColumn (t : Table) (rows cols : Option (List Nat)) : List Nat :=
  let cs := cols.getD (List.range t.width)
  sumPerColumnLoop t cs (rowsOf t rows) (List.replicate cs.length 0)

def sumAll (t : Table) (rows cols : Option (List Nat)) : Nat := (sumPerRow t rows cols).sum

/-- `AbstractBinTable.all_i`: `zip(idx, flags)` when a selection is given, else `enumerate`. -/
def pairFilter (sel : Option (List Nat)) (flags : List Bool) : List Nat :=
  match sel with
  | some idx => zipFilter idx flags
  | none => zipFilter (List.range flags.length) flags

def allI (t : Table) (axis : Nat) (rows cols : Option (List Nat)) : List Nat :=
  if axis = 0 then pairFilter cols (allPerColumn t rows cols)
  else pairFilter rows (allPerRow t rows cols)

def anyI (t : Table) (axis : Nat) (rows cols : Option (List Nat)) : List Nat :=
  if axis = 0 then pairFilter cols (anyPerColumn t rows cols)
  else pairFilter rows (anyPerRow t rows cols)

end L

/-! ## BinTableBitarray -/
namespace B

def rowsOf (t : Table) (rows : Option (List Nat)) : List Nat := rows.getD (List.range t.height)

/-- `fbarray([j in columns for j in range(self.width)])` -/
def maskIn (t : Table) (cs : List Nat) : List Bool := (List.range t.width).map fun j => cs.contains j
/-- `fbarray([j not in columns for j in range(self.width)])` -/
def maskNotIn (t : Table) (cs : List Nat) : List Bool := (List.range t.width).map fun j => !(cs.contains j)

def bor (a b : List Bool) : List Bool := List.zipWith (· || ·) a b
def band (a b : List Bool) : List Bool := List.zipWith (· && ·) a b

def allPerRow (t : Table) (rows cols : Option (List Nat)) : List Bool :=
  match cols with
  | none => (rowsOf t rows).map fun i => pyAll (t.row i)
  | some cs =>
    let mask := maskNotIn t cs
    (rowsOf t rows).map fun i => pyAll (bor (t.row i) mask)

/-- `if not vals.any(): break` / `if not (vals & mask).any(): break` -/
def stopAll (mask : Option (List Bool)) (vals : List Bool) : Bool :=
  match mask with
  | none => !(pyAny vals)
  | some m => !(pyAny (band vals m))

def allPerColumnLoop (t : Table) (mask : Option (List Bool)) : List Nat → List Bool → List Bool
  | [], vals => vals
  | i :: rest, vals =>
    let vals' := band vals (t.row i)
    if stopAll mask vals' then vals' else allPerColumnLoop t mask rest vals'

def allPerColumn (t : Table) (rows cols : Option (List Nat)) : List Bool :=
  let init := List.replicate t.width true
  match cols with
  | none => allPerColumnLoop t none (rowsOf t rows) init
  | some cs =>
    let vals := allPerColumnLoop t (some (maskIn t cs)) (rowsOf t rows) init
    cs.map fun i => vals.getD i false

def anyPerRow (t : Table) (rows cols : Option (List Nat)) : List Bool :=
  match cols with
  | none => (rowsOf t rows).map fun i => pyAny (t.row i)
  | some cs =>
    let mask := maskIn t cs
    (rowsOf t rows).map fun i => pyAny (band (t.row i) mask)

/-- `if vals.all(): break` / `if (vals | mask).all(): break` -/
def stopAny (mask : Option (List Bool)) (vals : List Bool) : Bool :=
  match mask with
  | none => pyAll vals
  | some m => pyAll (bor vals m)

def anyPerColumnLoop (t : Table) (mask : Option (List Bool)) : List Nat → List Bool → List Bool
  | [], vals => vals
  | i :: rest, vals =>
    let vals' := bor vals (t.row i)
    if stopAny mask vals' then vals' else anyPerColumnLoop t mask rest vals'

def anyPerColumn (t : Table) (rows cols : Option (List Nat)) : List Bool :=
  let init := List.replicate t.width false
  match cols with
  | none => anyPerColumnLoop t none (rowsOf t rows) init
  | some cs =>
    let vals := anyPerColumnLoop t (some (maskNotIn t cs)) (rowsOf t rows) init
    cs.map fun i => vals.getD i false

/-- `BinTableBitarray.all_i`: `idxs = flags.search(1)`; `[sel[i] for i in idxs]` or `list(idxs)`. -/
def pickI (sel : Option (List Nat)) (flags : List Bool) : List Nat :=
  match sel with
  | some idx => (search1 flags).map fun i => idx.getD i 0
  | none => search1 flags

def allI (t : Table) (axis : Nat) (rows cols : Option (List Nat)) : List Nat :=
  if axis = 0 then pickI cols (allPerColumn t rows cols)
  else pickI rows (allPerRow t rows cols)

def anyI (t : Table) (axis : Nat) (rows cols : Option (List Nat)) : List Nat :=
  if axis = 0 then pickI cols (anyPerColumn t rows cols)
  else pickI rows (anyPerRow t rows cols)

end B

/-! ## BinTableNumpy -/
namespace N

/-- `data_slice = self.data[rows][:, columns]` (each step only when given);
    returns the sliced rows and the resulting width. -/
def slice (t : Table) (rows cols : Option (List Nat)) : List Row × Nat :=
  let d := match rows with
    | none => t.data
    | some rs => rs.map t.row
  match cols with
  | none => (d, t.width)
  | some cs => (d.map fun r => cs.map fun j => r.getD j false, cs.length)

/-- `ndarray.all(axis=1)` -/
def allAxis1 (d : List Row) : List Bool := d.map pyAll
/-- `ndarray.all(axis=0)` on a `(len d) × w` array -/
def allAxis0 (d : List Row) (w : Nat) : List Bool :=
  (List.range w).map fun j => d.all fun r => r.getD j false
def anyAxis1 (d : List Row) : List Bool := d.map pyAny
def anyAxis0 (d : List Row) (w : Nat) : List Bool :=
  (List.range w).map fun j => d.any fun r => r.getD j false

def allAxis (t : Table) (axis : Nat) (rows cols : Option (List Nat)) : List Bool :=
  let (d, w) := slice t rows cols
  if axis = 0 then allAxis0 d w else allAxis1 d

def anyAxis (t : Table) (axis : Nat) (rows cols : Option (List Nat)) : List Bool :=
  let (d, w) := slice t rows cols
  if axis = 0 then anyAxis0 d w else anyAxis1 d

/-- `full_ar[flags]` with `full_ar = arange(k)` or the given selection. -/
def maskI (sel : Option (List Nat)) (k : Nat) (flags : List Bool) : List Nat :=
  zipFilter (sel.getD (List.range k)) flags

def allI (t : Table) (axis : Nat) (rows cols : Option (List Nat)) : List Nat :=
  if axis = 0 then maskI cols t.width (allAxis t 0 rows cols)
  else maskI rows t.height (allAxis t 1 rows cols)

def anyI (t : Table) (axis : Nat) (rows cols : Option (List Nat)) : List Nat :=
  if axis = 0 then maskI cols t.width (anyAxis t 0 rows cols)
  else maskI rows t.height (anyAxis t 1 rows cols)

end N

/-- `self.data.all_i(axis, rows, columns)` dispatched on the backend. -/
def allI (b : Backend) (t : Table) (axis : Nat) (rows cols : Option (List Nat)) : List Nat :=
  match b with
  | .lists => L.allI t axis rows cols
  | .bitarray => B.allI t axis rows cols
  | .numpy => N.allI t axis rows cols

def anyI (b : Backend) (t : Table) (axis : Nat) (rows cols : Option (List Nat)) : List Nat :=
  match b with
  | .lists => L.anyI t axis rows cols
  | .bitarray => B.anyI t axis rows cols
  | .numpy => N.anyI t axis rows cols

end Fca

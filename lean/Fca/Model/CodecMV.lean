/-
  Fca.Model.CodecMV — many-valued contexts, formal/pattern concepts and concept lattices as the
  JSON codecs of FCApy see them (`MVContext.write_json/read_json`, the pattern structures'
  `to_json/from_json`, `FormalConcept.to_dict/from_dict`, `PatternConcept.to_dict/from_dict`
  with `json_ready=True`, `ConceptLattice.write_json/read_json`).  No Mathlib.
-/
import Fca.Model.CodecJson
namespace Fca.Codec

/-! ### generic insertion-ordered dicts and Python `sorted` -/

/-- `d[k] = v` -/
def dset {α : Type} (k : Str) (v : α) : List (Str × α) → List (Str × α)
  | [] => [(k, v)]
  | (k', v') :: r => if k' = k then (k', v) :: r else (k', v') :: dset k v r

def dget {α : Type} (k : Str) : List (Str × α) → Option α
  | [] => none
  | (k', v) :: r => if k' = k then some v else dget k r

/-- `{name: idx for idx, name in enumerate(names)}[x]` (a later duplicate wins) -/
def idxFrom : List Str → Nat → Str → Option Nat
  | [], _, _ => none
  | y :: ys, i, x =>
    match idxFrom ys (i + 1) x with
    | some k => some k
    | none => if y = x then some i else none

def idxOf (names : List Str) (x : Str) : Option Nat := idxFrom names 0 x

/-- stable insertion into a list sorted by `le` -/
def insertBy {α : Type} (le : α → α → Bool) (x : α) : List α → List α
  | [] => [x]
  | y :: ys => if le x y then x :: y :: ys else y :: insertBy le x ys

/-- `sorted(xs)` with the order `le` (stable) -/
def sortedBy {α : Type} (le : α → α → Bool) (xs : List α) : List α := xs.foldr (insertBy le) []

/-! ### pattern structures -/

inductive PType where
  | IntervalPS | SetPS | AttributePS | IntervalNumpyPS
  deriving DecidableEq, Repr, Inhabited

def PType.name : PType → Str
  | .IntervalPS => "IntervalPS".toList
  | .SetPS => "SetPS".toList
  | .AttributePS => "AttributePS".toList
  | .IntervalNumpyPS => "IntervalNumpyPS".toList

/-- `getattr(PS, v) if v in dir(PS) else pattern_types[v]` with no extra pattern types given
    (`pattern_types=None` makes the fallback a `TypeError`) -/
def PType.ofName (s : Str) : Except CErr PType :=
  if s = PType.IntervalPS.name then .ok .IntervalPS
  else if s = PType.SetPS.name then .ok .SetPS
  else if s = PType.AttributePS.name then .ok .AttributePS
  else if s = PType.IntervalNumpyPS.name then .ok .IntervalNumpyPS
  else .error typeError

def PType.isInterval : PType → Bool
  | .IntervalPS | .IntervalNumpyPS => true
  | _ => false

/-- elements of `SetPS` values -/
inductive Atom where
  | int (i : Int)
  | str (s : Str)
  deriving DecidableEq, Repr, Inhabited

/-- Python's `<` on code points -/
def strLt : Str → Str → Bool
  | [], [] => false
  | [], _ :: _ => true
  | _ :: _, [] => false
  | a :: as, b :: bs => a.toNat < b.toNat || (a == b && strLt as bs)

/-- `a < b` for atoms of the same kind (mixed kinds raise `TypeError` in Python: out of scope;
    the model orders ints before strings) -/
def Atom.lt : Atom → Atom → Bool
  | .int a, .int b => a < b
  | .str a, .str b => strLt a b
  | .int _, .str _ => true
  | .str _, .int _ => false

def Atom.le (a b : Atom) : Bool := !(Atom.lt b a)

/-- insertion into a strictly sorted duplicate-free list (a `set`) -/
def setInsert (x : Atom) : List Atom → List Atom
  | [] => [x]
  | y :: ys => if Atom.lt x y then x :: y :: ys else if x = y then y :: ys else y :: setInsert x ys

/-- `set(xs)`: sets are represented by their strictly sorted element list -/
def pySet (xs : List Atom) : List Atom := xs.foldr setInsert []

/-- a description of one pattern structure -/
inductive PVal where
  | interval (a b : Str)   -- a pair of numbers, each kept as its literal text
  | none_                  -- `None` (empty interval description)
  | set (xs : List Atom)   -- strictly sorted
  | attr (b : Bool)
  deriving DecidableEq, Repr, Inhabited

def Atom.toJV : Atom → JV
  | .int i => .int i
  | .str s => .str s

/-- the value each `to_json` hands to `json.dumps` -/
def toJsonVal (t : PType) (v : PVal) : Except CErr JV :=
  match t, v with
  | .AttributePS, .attr b => .ok (.bool b)
  | .AttributePS, .none_ => .ok .null
  | .AttributePS, .interval a b => .ok (.arr [.flt a, .flt b])
  | .AttributePS, .set _ => .error typeError
  | .SetPS, .set xs => .ok (.arr ((sortedBy Atom.le xs).map Atom.toJV))
  | .SetPS, _ => .error typeError
  | _, .interval a b => .ok (.arr [.flt a, .flt b])     -- `[float(x[0]), float(x[1])]`
  | _, .none_ => .ok .null
  | _, _ => .error typeError

/-- `ps.to_json(v)` — a JSON *text* -/
def toJsonText (t : PType) (v : PVal) : Except CErr Str :=
  match toJsonVal t v with
  | .ok j => .ok (dumps j)
  | .error e => .error e

def numLit : JV → Option Str
  | .flt l => some l
  | .int i => some (intRepr i)
  | _ => none

/-- an element of a loaded list that can go into a `set` of ints / strings -/
def asAtom : JV → Except CErr Atom
  | .int i => .ok (.int i)
  | .str s => .ok (.str s)
  | _ => .error typeError

/-- what each `from_json` makes of the loaded value -/
def fromJsonVal (t : PType) (j : JV) : Except CErr PVal :=
  match t with
  | .AttributePS =>
    match j with
    | .bool b => .ok (.attr b)
    | .null => .ok .none_
    | _ => .error typeError
  | .SetPS =>
    match j with
    | .arr xs =>
      match mapME asAtom xs with
      | .ok as => .ok (.set (pySet as))
      | .error e => .error e
    | _ => .error typeError
  | _ =>
    match j with
    | .null => .ok .none_
    | .arr [x, y] =>
      match numLit x, numLit y with
      | some a, some b => .ok (.interval a b)
      | _, _ => .error typeError
    | _ => .error typeError

/-- `ps.from_json(text)` -/
def fromJsonText (t : PType) (j : JV) : Except CErr PVal :=
  match j with
  | .str s =>
    match loads s with
    | none => .error valueError
    | some v => fromJsonVal t v
  | _ => .error typeError

/-- `float(x)` on a number literal, as literal text again (integers get `.0`; the JSON tokens of the
    non-finite floats `Infinity`, `-Infinity`, `NaN` — and `repr`'s `inf`, `nan` — are floats already) -/
def floatLit (l : Str) : Str :=
  if l.any fun c => c == '.' || c == 'e' || c == 'E' || c == 'n' || c == 'N' then l else l ++ ['.', '0']

/-- `_transform_data` of one value when a pattern structure is constructed -/
def transformVal (t : PType) (v : PVal) : Except CErr PVal :=
  match t, v with
  | .AttributePS, .attr b => .ok (.attr b)
  | .AttributePS, .none_ => .ok (.attr false)
  | .AttributePS, .set xs => .ok (.attr (!xs.isEmpty))
  | .AttributePS, .interval _ _ => .ok (.attr true)
  | .SetPS, .set xs => .ok (.set xs)
  | .SetPS, _ => .error typeError
  | _, .interval a b => .ok (.interval (floatLit a) (floatLit b))
  | _, _ => .error typeError

/-! ### many-valued contexts -/

/-- one pattern structure: name, class, data column -/
structure PCol where
  name : Str
  ptype : PType
  data : List PVal
  deriving DecidableEq, Repr, Inhabited

/-- `object_names`, `attribute_names`, `pattern_structures` (in attribute order since the repair of
    `assemble_pattern_structures`), `description` -/
structure MVCxt where
  objs : List Str
  attrs : List Str
  cols : List PCol
  descr : Option Str := none
  deriving DecidableEq, Repr, Inhabited

/-- `min(len(c) for c in cols)` starting from the first column -/
def minLen (cols : List (List PVal)) : Nat := (cols.map List.length).foldl min (cols.headD []).length

/-- `MVContext.data`: `[list(row) for row in zip(*[ps.data for ps in pattern_structures])]` -/
def zipStar : List (List PVal) → List (List PVal)
  | [] => []
  | cols@(_ :: _) => (List.range (minLen cols)).map fun i => cols.map fun c => c.getD i .none_

def MVCxt.dataRows (K : MVCxt) : List (List PVal) := zipStar (K.cols.map (·.data))

/-- `ps.to_json(row[ps_i])` for one cell -/
def encCell (p : PType × PVal) : Except CErr Str := toJsonText p.1 p.2

/-- `[ps.to_json(row[ps_i]) for ps_i, ps in enumerate(self.pattern_structures)]` -/
def encRow (types : List PType) (row : List PVal) : Except CErr (List Str) := mapME encCell (types.zip row)

/-- `{'PValues': [...]}` -/
def pvaluesJ (ts : List Str) : JV := .obj [("PValues".toList, .arr (ts.map jStr))]

/-- the two dicts of the file, given the encoded cells -/
def mvTreeOf (K : MVCxt) (texts : List (List Str)) : JV :=
  .arr [.obj ((match K.descr with | some d => [("Description".toList, jStr d)] | none => [])
          ++ [("ObjNames".toList, .arr (K.objs.map jStr)),
              ("Params".toList, .obj [("AttrNames".toList, .arr (K.attrs.map jStr)),
                                      ("PTypes".toList, .arr (K.cols.map fun c => jStr c.ptype.name))])]),
        .obj [("Count".toList, jNat K.objs.length), ("Data".toList, .arr (texts.map pvaluesJ))]]

/-- the tree `MVContext.write_json` hands to `json.dumps(.., separators=(',', ':'))` -/
def writeMVTree (K : MVCxt) : Except CErr JV :=
  (mapME (encRow (K.cols.map (·.ptype))) K.dataRows).bind fun texts => .ok (mvTreeOf K texts)

def dictOfZipAux {α : Type} (acc : List (Str × α)) : List Str → List α → List (Str × α)
  | k :: ks, v :: vs => dictOfZipAux (dset k v acc) ks vs
  | _, _ => acc

/-- `{k: v for k, v in zip(ks, vs)}` -/
def dictOfZip {α : Type} (ks : List Str) (vs : List α) : List (Str × α) := dictOfZipAux [] ks vs

/-- `names_to_indexes_map[name]` for one `pattern_types` item (`KeyError` for a key that is no attribute) -/
def ptypeIndexed (attrs : List Str) (p : Str × PType) : Except CErr (Nat × Str × PType) :=
  match idxOf attrs p.1 with
  | none => .error keyError
  | some mi => .ok (mi, p.1, p.2)

def leIdx (a b : Nat × Str × PType) : Bool := decide (a.1 ≤ b.1)

/-- `row[m_i]`, then the class's `_transform_data` on it -/
def cellAt (t : PType) (i : Nat) (row : List PVal) : Except CErr PVal :=
  match row[i]? with
  | some v => transformVal t v
  | none => .error indexError

/-- `ps_type([row[m_i] for row in data], name=name)` -/
def mkPCol (data : List (List PVal)) (q : Nat × Str × PType) : Except CErr PCol :=
  (mapME (cellAt q.2.2 q.1) data).bind fun col => .ok (PCol.mk q.2.1 q.2.2 col)

/-- `MVContext(data, pattern_types, object_names=…, attribute_names=…, description=…)`.
    `assemble_pattern_structures` walks `sorted(pattern_types.items(), key=index of the name in
    attribute_names)`: the pattern structures are always in attribute order, whatever the order of the
    dict (repaired in commit 2a13fe5; before, the dict order was used). -/
def mkMVCxt (data : List (List PVal)) (ptypes : List (Str × PType)) (objs : Option (List Str))
    (attrs : Option (List Str)) (descr : Option Str) : Except CErr MVCxt :=
  match data with
  | [] => .error indexError                        -- len(data[0])
  | row0 :: _ =>
    let objs' := objs.getD (defaultNames data.length)
    let attrs' := attrs.getD (defaultNames row0.length)
    if objs'.length != data.length then .error assertionError
    else if attrs'.length != row0.length then .error assertionError
    else if !(attrs'.all fun a => (dget a ptypes).isSome) then .error assertionError
    else
      (mapME (ptypeIndexed attrs') ptypes).bind fun keyed =>
      (mapME (mkPCol data) (sortedBy leIdx keyed)).bind fun cols =>
      .ok ⟨objs', attrs', cols, descr⟩

/-- `getattr(PS, v)` for one entry of `Params['PTypes']` -/
def decPType (x : JV) : Except CErr PType :=
  match x with
  | .str s => PType.ofName s
  | _ => .error typeError

/-- `Params['PTypes']` as classes -/
def ptypesOfJ (x : JV) : Except CErr (List PType) :=
  match x with
  | .arr xs => mapME decPType xs
  | _ => .error typeError

/-- `pattern_types[m]` -/
def lookupP (ptypes : List (Str × PType)) (m : Str) : Except CErr PType :=
  match dget m ptypes with
  | some p => .ok p
  | none => .error keyError

/-- `p.from_json(v)` for one cell -/
def decCell (p : PType × JV) : Except CErr PVal := fromJsonText p.1 p.2

/-- `[p.from_json(v) for p, v in zip(patterns_list, g_data['PValues'])]` -/
def decRow (plist : List PType) (g : JV) : Except CErr (List PVal) :=
  match g.getKey "PValues".toList with
  | .ok (.arr vs) => mapME decCell (plist.zip vs)
  | .ok _ => .error typeError
  | .error e => .error e

/-- the part of `MVContext.read_json` below the `Params` lookup -/
def readMVBody (descr on : Option JV) (params oi : JV) : Except CErr MVCxt :=
  (params.getOpt "AttrNames".toList).bind fun an =>
  (params.getKey "PTypes".toList).bind fun ptn =>
  (namesOf an).bind fun an' =>
    match an' with
    | none => .error typeError                      -- zip(None, …)
    | some attrNames =>
      (namesOf on).bind fun objNames =>
      (ptypesOfJ ptn).bind fun types =>
      (mapME (lookupP (dictOfZip attrNames types)) attrNames).bind fun plist =>
      (dataLines oi).bind fun gs =>
      (mapME (decRow plist) gs).bind fun data =>
      (descrOf descr).bind fun d =>
      mkMVCxt data (dictOfZip attrNames types) objNames (some attrNames) d

/-- `MVContext.read_json` after `json.loads` -/
def readMVTree (t : JV) : Except CErr MVCxt :=
  match t with
  | .arr [md, oi] =>
    (md.getOpt "Description".toList).bind fun descr =>
    (md.getOpt "ObjNames".toList).bind fun on =>
    (md.getOpt "Params".toList).bind fun params =>
      match params with
      | none => .error typeError                    -- zip(None, None)
      | some ps => readMVBody descr on ps oi
  | .arr _ => .error valueError
  | _ => .error typeError

/-- `MVContext.write_json()`: the text -/
def writeMVText (K : MVCxt) : Except CErr Str :=
  (writeMVTree K).bind fun t => .ok (dumpsCompact t)

/-- `MVContext.read_json(json_data=s)` (`JSONDecodeError` is a `ValueError`) -/
def readMVText (s : Str) : Except CErr MVCxt :=
  match loads s with
  | none => .error valueError
  | some t => readMVTree t

/-- `K1 == K2` for many-valued contexts: `ValueError` on different names, else the pattern
    structures are compared by data and name -/
def mvEq (a b : MVCxt) : Except CErr Bool :=
  if a.objs ≠ b.objs then .error valueError
  else if a.attrs ≠ b.attrs then .error valueError
  else .ok (a.cols.map (fun c => (c.name, c.data)) == b.cols.map (fun c => (c.name, c.data)))

/-! ### formal concepts -/

structure FConcept where
  extentI : List Int
  extent : List Str
  intentI : List Int
  intent : List Str
  measures : List (Str × JV)
  contextHash : Option Int
  monotone : Bool
  deriving Repr, Inhabited

def jOptInt : Option Int → JV
  | none => .null
  | some i => .int i

/-- `sorted(names, key=lambda g: idx_map[g])` (`KeyError` for a name outside the order) -/
def keyed (order : List Str) (g : Str) : Except CErr (Nat × Str) :=
  match idxOf order g with
  | some k => .ok (k, g)
  | none => .error keyError

def leKey (a b : Nat × Str) : Bool := decide (a.1 ≤ b.1)

def sortNamesBy (order : List Str) (names : List Str) : Except CErr (List Str) :=
  match mapME (keyed order) names with
  | .error e => .error e
  | .ok ps => .ok ((sortedBy leKey ps).map (·.2))

def leInt (a b : Int) : Bool := decide (a ≤ b)
def sortedInts (xs : List Int) : List Int := sortedBy leInt xs

/-- the `Ext` / `Int` entry of a concept dict -/
def extIntEntry (inds : List Int) (names : List Str) : JV :=
  .obj [("Inds".toList, .arr ((sortedInts inds).map .int)),
        ("Names".toList, .arr (names.map jStr)),
        ("Count".toList, jNat inds.length)]

/-- `for k, v in self.measures.items(): concept_info[k] = v` -/
def addMeasures (ms : List (Str × JV)) (d : List (Str × JV)) : List (Str × JV) :=
  ms.foldl (fun d (kv : Str × JV) => JV.dictSet kv.1 kv.2 d) d

/-- `FormalConcept.to_dict(objs_order, attrs_order)` -/
def FConcept.toDict (c : FConcept) (objsOrder attrsOrder : List Str) : Except CErr JV :=
  (sortNamesBy objsOrder c.extent).bind fun en =>
  (sortNamesBy attrsOrder c.intent).bind fun inn =>
    .ok (.obj (JV.dictSet "Monotone".toList (.bool c.monotone)
          (JV.dictSet "Context_Hash".toList (jOptInt c.contextHash)
            (addMeasures c.measures
              [("Ext".toList, extIntEntry c.extentI en),
               ("Int".toList, extIntEntry c.intentI inn),
               ("Supp".toList, jNat c.extentI.length)]))))

/-- `JSON_BOTTOM_PLACEHOLDER` -/
def bottomPlaceholder : JV :=
  .obj [("Inds".toList, .arr [.int (-2)]), ("Names".toList, .arr [jStr "BOTTOM_PLACEHOLDER".toList])]

def isBottomStr : JV → Bool
  | .str s => s = "BOTTOM".toList
  | _ => false

def asInt : JV → Except CErr Int
  | .int i => .ok i
  | .bool b => .ok (if b then 1 else 0)
  | _ => .error valueError

def asStr : JV → Except CErr Str
  | .str s => .ok s
  | _ => .error valueError

/-- pydantic's `Tuple[int, ...]` (bools are ints; anything else is a `ValidationError`, a `ValueError`) -/
def intsOf (x : JV) : Except CErr (List Int) :=
  match x with
  | .arr xs => mapME asInt xs
  | _ => .error valueError

/-- pydantic's `Tuple[str, ...]` -/
def strsOf (x : JV) : Except CErr (List Str) :=
  match x with
  | .arr xs => mapME asStr xs
  | _ => .error valueError

/-- the keys of `data` other than `Int`/`Ext` become measures -/
def measuresOf (kvs : List (Str × JV)) : List (Str × JV) :=
  (kvs.filter fun kv => !(kv.1 = "Int".toList || kv.1 = "Ext".toList)).foldl
    (fun d kv => JV.dictSet kv.1 kv.2 d) []

/-- `x['Inds']`, `x.get('Names', [])` of an `Ext`/`Int` entry, validated by pydantic -/
def extIntFields (x : JV) : Except CErr (List Int × List Str) :=
  (x.getKey "Inds".toList).bind fun inds =>
  (x.getOpt "Names".toList).bind fun names =>
  (intsOf inds).bind fun is =>
  (strsOf (names.getD (.arr []))).bind fun ns => .ok (is, ns)

/-- `context_hash: Optional[int]` -/
def hashOf : Option JV → Except CErr (Option Int)
  | none => .ok none
  | some .null => .ok none
  | some (.int h) => .ok (some h)
  | some _ => .error valueError

/-- `is_monotone: bool = data.get('Monotone', False)` -/
def monoOf : Option JV → Except CErr Bool
  | none => .ok false
  | some (.bool b) => .ok b
  | some _ => .error valueError

/-- `FormalConcept.from_dict(data)` -/
def FConcept.fromDict (data : JV) : Except CErr FConcept :=
  match data with
  | .obj kvs =>
    match JV.lookup "Int".toList kvs with
    | none => .error keyError
    | some int0 =>
      match JV.lookup "Ext".toList kvs with
      | none => .error keyError
      | some ext =>
        (extIntFields ext).bind fun e =>
        (extIntFields (if isBottomStr int0 then bottomPlaceholder else int0)).bind fun i =>
        (hashOf (JV.lookup "Context_Hash".toList kvs)).bind fun h =>
        (monoOf (JV.lookup "Monotone".toList kvs)).bind fun b =>
        .ok ⟨e.1, e.2, i.1, i.2, measuresOf kvs, h, b⟩
  | _ => .error typeError

/-! ### pattern concepts -/

structure PConcept where
  extentI : List Int
  extent : List Str
  intentI : List (Nat × PVal)        -- `{ps_i: description}`
  intent : List (Str × PVal)         -- `{name: description}`
  ptypes : List (Str × PType)        -- `pattern_types`
  attrNames : List Str
  measures : List (Str × JV)
  contextHash : Option Int
  deriving Repr, Inhabited

/-- `PTypes[k]` (`KeyError` for an unknown name) -/
def typeOfName (ptypes : List (Str × PType)) (nm : Str) : Except CErr PType :=
  match dget nm ptypes with
  | some t => .ok t
  | none => .error keyError

/-- `PTypes[AttrNames[k]]` -/
def typeOfInd (ptypes : List (Str × PType)) (attrNames : List Str) (k : Nat) : Except CErr PType :=
  match attrNames[k]? with
  | some nm => typeOfName ptypes nm
  | none => .error indexError

/-- one item of `Int.Inds`: `str(k): PTypes[AttrNames[k]].to_json(v)` (the key as `json.dumps` writes it) -/
def encInd (ptypes : List (Str × PType)) (attrNames : List Str) (kv : Nat × PVal) : Except CErr (Str × JV) :=
  (typeOfInd ptypes attrNames kv.1).bind fun t =>
  (toJsonText t kv.2).bind fun s => .ok (natRepr kv.1, jStr s)

/-- one item of `Int.Names`: `k: PTypes[k].to_json(v)` -/
def encName (ptypes : List (Str × PType)) (kv : Str × PVal) : Except CErr (Str × JV) :=
  (typeOfName ptypes kv.1).bind fun t =>
  (toJsonText t kv.2).bind fun s => .ok (kv.1, jStr s)

/-- the `Ext` entry of a pattern concept dict (indexes as stored, not sorted) -/
def pExtEntry (inds : List Int) (names : List Str) : JV :=
  .obj [("Inds".toList, .arr (inds.map .int)),
        ("Names".toList, .arr (names.map jStr)),
        ("Count".toList, jNat inds.length)]

/-- the `Int` entry of a pattern concept dict after the `json_ready` rewriting -/
def pIntEntry (inds names : List (Str × JV)) (count : Nat) (ptypes : List (Str × PType))
    (attrNames : List Str) : JV :=
  .obj [("Inds".toList, .obj inds),
        ("Names".toList, .obj names),
        ("Count".toList, jNat count),
        ("PTypes".toList, .obj (ptypes.map fun p => (p.1, jStr p.2.name))),
        ("AttrNames".toList, .arr (attrNames.map jStr))]

/-- `PatternConcept.to_dict(json_ready=True)` (the dict keys of `Int.Inds` are what `json.dumps`
    makes of the integer keys: their decimal text) -/
def PConcept.toDict (c : PConcept) : Except CErr JV :=
  (mapME (encInd c.ptypes c.attrNames) c.intentI).bind fun inds =>
  (mapME (encName c.ptypes) c.intent).bind fun names =>
    .ok (.obj (JV.dictSet "Context_Hash".toList (jOptInt c.contextHash)
          (addMeasures c.measures
            [("Ext".toList, pExtEntry c.extentI c.extent),
             ("Int".toList, pIntEntry inds names c.intentI.length c.ptypes c.attrNames),
             ("Supp".toList, jNat c.extentI.length)])))

def asObj : JV → Except CErr (List (Str × JV))
  | .obj kvs => .ok kvs
  | _ => .error typeError

/-- one item of `Int.PTypes`: class name → class -/
def decPTypeEntry (kv : Str × JV) : Except CErr (Str × PType) :=
  (decPType kv.2).bind fun t => .ok (kv.1, t)

/-- one item of `Int.Inds`: `int(k): PTypes[AttrNames[int(k)]].from_json(v)` -/
def decInd (ptypes : List (Str × PType)) (attrNames : List Str) (kv : Str × JV) : Except CErr (Nat × PVal) :=
  (pyInt kv.1).bind fun k =>
  (typeOfInd ptypes attrNames k).bind fun t =>
  (fromJsonText t kv.2).bind fun v => .ok (k, v)

/-- one item of `Int.Names` -/
def decName (ptypes : List (Str × PType)) (kv : Str × JV) : Except CErr (Str × PVal) :=
  (typeOfName ptypes kv.1).bind fun t =>
  (fromJsonText t kv.2).bind fun v => .ok (kv.1, v)

def asStrT : JV → Except CErr Str
  | .str s => .ok s
  | _ => .error typeError

/-- `Int['AttrNames']` as a list of names -/
def attrNamesOf (x : JV) : Except CErr (List Str) :=
  match x with
  | .arr xs => mapME asStrT xs
  | _ => .error typeError

/-- the `json_ready` rewriting of the `Int` entry in `from_dict`: `PTypes`, then `Inds`, then `Names` -/
def pIntFields (int : JV) :
    Except CErr (List (Nat × PVal) × List (Str × PVal) × List (Str × PType) × List Str) :=
  (int.getKey "PTypes".toList).bind fun ptj => (asObj ptj).bind fun pt =>
  (mapME decPTypeEntry pt).bind fun ptypes =>
  (int.getKey "Inds".toList).bind fun ij => (asObj ij).bind fun inds =>
  (int.getKey "AttrNames".toList).bind fun anj => (attrNamesOf anj).bind fun attrNames =>
  (mapME (decInd ptypes attrNames) inds).bind fun ii =>
  (int.getKey "Names".toList).bind fun nj => (asObj nj).bind fun names =>
  (mapME (decName ptypes) names).bind fun inn =>
  .ok (ii, inn, ptypes, attrNames)

def asIntA : JV → Except CErr Int
  | .int i => .ok i
  | .bool b => .ok (if b then 1 else 0)
  | _ => .error assertionError

def asStrA : JV → Except CErr Str
  | .str s => .ok s
  | _ => .error assertionError

/-- `unify_iterable_type(…, numbers.Integral)` / `(…, str)` on `Ext.Inds`, `Ext.get('Names', [])` -/
def pExtFields (ext : JV) : Except CErr (List Int × List Str) :=
  (ext.getKey "Inds".toList).bind fun ij =>
  (ext.getOpt "Names".toList).bind fun nj =>
    match ij, nj.getD (.arr []) with
    | .arr is, .arr ns =>
      (mapME asIntA is).bind fun is' => (mapME asStrA ns).bind fun ns' => .ok (is', ns')
    | _, _ => .error assertionError

/-- `PatternConcept.from_dict(data, json_ready=True)` -/
def PConcept.fromDict (data : JV) : Except CErr PConcept :=
  match data with
  | .obj kvs =>
    match JV.lookup "Int".toList kvs with
    | none => .error keyError
    | some int0 =>
      (pIntFields (if isBottomStr int0 then bottomPlaceholder else int0)).bind fun i =>
        match JV.lookup "Ext".toList kvs with
        | none => .error keyError
        | some ext =>
          (pExtFields ext).bind fun e =>
            if e.1.length != e.2.length then .error assertionError
            else if i.1.length != i.2.1.length then .error assertionError
            else
              (hashOf (JV.lookup "Context_Hash".toList kvs)).bind fun h =>
              .ok ⟨e.1, e.2, i.1, i.2.1, i.2.2.1, i.2.2.2, measuresOf kvs, h⟩
  | _ => .error typeError

/-! ### concept lattices -/

/-- what the order of a lattice depends on: extent indexes, context hash, monotonicity flag
    (`none` for pattern concepts, which have no such flag) -/
structure CKey where
  extentI : List Int
  hash : Option Int
  mono : Option Bool
  deriving DecidableEq, Repr, Inhabited

def FConcept.key (c : FConcept) : CKey := ⟨c.extentI, c.contextHash, some c.monotone⟩
def PConcept.key (c : PConcept) : CKey := ⟨c.extentI, c.contextHash, none⟩

/-- `a <= b` once context hash and monotonicity agree: extent inclusion (reversed for monotone
    concepts) -/
def CKey.leq (a b : CKey) : Bool :=
  let (lesser, greater) := if a.mono = some true then (b, a) else (a, b)
  if lesser.extentI.length > greater.extentI.length then false
  else lesser.extentI.all fun g => greater.extentI.contains g

structure Lat (C : Type) where
  concepts : List C
  children : List (List Nat)     -- `children_dict[i]`, ascending, for `i = 0 … n-1`
  top : Nat
  bottom : Nat
  deriving Repr, Inhabited

/-- `descendants(i)`: `{j | j != i and leq(j, i)}` -/
def descendantsOf (ks : List CKey) (i : Nat) : List Nat :=
  match ks[i]? with
  | none => []
  | some ki => (List.range ks.length).filter fun j => j != i && (ks.getD j ki).leq ki

/-- `ancestors(i)`: `{j | j != i and leq(i, j)}` -/
def ancestorsOf (ks : List CKey) (i : Nat) : List Nat :=
  match ks[i]? with
  | none => []
  | some ki => (List.range ks.length).filter fun j => j != i && ki.leq (ks.getD j ki)

/-- `_children_nocache`: drop from the descendants whatever lies below another descendant -/
def childrenOf (ks : List CKey) (i : Nat) : List Nat :=
  let sub := descendantsOf ks i
  sub.foldl (fun cur el => if cur.contains el then cur.filter fun x => !(descendantsOf ks el).contains x
                           else cur) sub

/-- what `ConceptLattice(concepts)` computes when no `children_dict` is passed: the comparisons raise
    on mixed context hashes / monotonicity; exactly one top and one bottom are required -/
def rebuild (ks : List CKey) : Except CErr (List (List Nat) × Nat × Nat) :=
  match ks with
  | [] => .error valueError
  | k0 :: _ =>
    if !(ks.all fun k => k.hash == k0.hash) then
      .error (if k0.mono.isSome then valueError else .py .NotImplementedError)
    else if !(ks.all fun k => k.mono == k0.mono) then .error valueError
    else
      let idx := List.range ks.length
      match idx.filter (fun i => (ancestorsOf ks i).isEmpty), idx.filter (fun i => (descendantsOf ks i).isEmpty) with
      | [t], [b] => .ok (idx.map (childrenOf ks), t, b)
      | _, _ => .error valueError

def arcJ (s d : Nat) : JV := .obj [("S".toList, jNat s), ("D".toList, jNat d)]

/-- `[{"S": s_i, "D": d_i} for s_i, d_is in children_dict.items() for d_i in d_is]` -/
def arcsTree (children : List (List Nat)) : List JV :=
  ((List.range children.length).zip children).flatMap fun (p : Nat × List Nat) => p.2.map (arcJ p.1)

/-- `ConceptLattice.write_json` given the node dicts -/
def writeLatTree {C : Type} (L : Lat C) (nodes : List JV) : Except CErr JV :=
  if L.concepts.length < 3 then .error assertionError
  else
    let arcs : List JV := arcsTree L.children
    .ok (.arr [
      .obj [("Top".toList, .arr [jNat L.top]), ("Bottom".toList, .arr [jNat L.bottom]),
            ("NodesCount".toList, jNat L.concepts.length), ("ArcsCount".toList, jNat arcs.length)],
      .obj [("Nodes".toList, .arr nodes)],
      .obj [("Arcs".toList, .arr arcs)]])

def writeFLat (L : Lat FConcept) (objsOrder attrsOrder : List Str) : Except CErr JV :=
  if L.concepts.length < 3 then .error assertionError
  else match mapME (fun c => FConcept.toDict c objsOrder attrsOrder) L.concepts with
    | .error e => .error e
    | .ok nodes => writeLatTree L nodes

def writePLat (L : Lat PConcept) : Except CErr JV :=
  if L.concepts.length < 3 then .error assertionError
  else match mapME PConcept.toDict L.concepts with
    | .error e => .error e
    | .ok nodes => writeLatTree L nodes

/-- `'PTypes' in nodes_data['Nodes'][0]['Int']` -/
def isPatternNode (n0 : JV) : Except CErr Bool :=
  match n0.getKey "Int".toList with
  | .error e => .error e
  | .ok (.obj kvs) => .ok (JV.lookup "PTypes".toList kvs).isSome
  | .ok (.str _) => .ok false
  | .ok (.arr _) => .ok false
  | .ok _ => .error typeError

/-- `x[0]` -/
def firstOf (x : JV) : Except CErr JV :=
  match x with
  | .arr (v :: _) => .ok v
  | .arr [] => .error indexError
  | _ => .error typeError

/-- `arc['S']`, `arc['D']` -/
def arcCheck (a : JV) : Except CErr Unit :=
  (a.getKey "S".toList).bind fun _ => (a.getKey "D".toList).bind fun _ => .ok ()

def arcsOf (ad : JV) : Except CErr (List JV) :=
  match ad.getKey "Arcs".toList with
  | .ok (.arr as) => .ok as
  | .ok _ => .error typeError
  | .error e => .error e

/-- the header and arc accesses of `read_json` (their values are not used: the constructor
    ignores `subconcepts_dict`, `top_concept_i`, `bottom_concept_i`) -/
def readLatHeader (md ad : JV) : Except CErr Unit :=
  (md.getKey "Top".toList).bind fun t => (firstOf t).bind fun _ =>
  (md.getKey "Bottom".toList).bind fun b => (firstOf b).bind fun _ =>
  (arcsOf ad).bind fun as => (mapME arcCheck as).bind fun _ => .ok ()

def nodesOf (nd : JV) : Except CErr (List JV) :=
  match nd.getKey "Nodes".toList with
  | .ok (.arr ns) => .ok ns
  | .ok _ => .error typeError
  | .error e => .error e

/-- `ConceptLattice(concepts=[FormalConcept.from_dict(d) for d in nodes], …)` -/
def buildFLat (ns : List JV) : Except CErr (Lat FConcept ⊕ Lat PConcept) :=
  (mapME FConcept.fromDict ns).bind fun cs =>
  (rebuild (cs.map FConcept.key)).bind fun r => .ok (.inl ⟨cs, r.1, r.2.1, r.2.2⟩)

/-- `ConceptLattice(concepts=[PatternConcept.from_dict(d, json_ready=True) for d in nodes], …)` -/
def buildPLat (ns : List JV) : Except CErr (Lat FConcept ⊕ Lat PConcept) :=
  (mapME PConcept.fromDict ns).bind fun cs =>
  (rebuild (cs.map PConcept.key)).bind fun r => .ok (.inr ⟨cs, r.1, r.2.1, r.2.2⟩)

/-- `ConceptLattice.read_json` after `json.loads`: formal or pattern lattice -/
def readLatTree (t : JV) : Except CErr (Lat FConcept ⊕ Lat PConcept) :=
  match t with
  | .arr [md, nd, ad] =>
    (nodesOf nd).bind fun ns =>
      match ns with
      | [] => .error indexError
      | n0 :: _ =>
        (readLatHeader md ad).bind fun _ =>
        (isPatternNode n0).bind fun p => if p then buildPLat ns else buildFLat ns
  | .arr _ => .error valueError
  | _ => .error typeError

end Fca.Codec

/-
  Fca.Model.CodecMV — many-valued contexts, formal/pattern concepts and concept lattices as the
  JSON codecs of FCApy see them (`MVContext.write_json/read_json`, the pattern structures'
  `to_json/from_json`, `FormalConcept.to_dict/from_dict`, `PatternConcept.to_dict/from_dict`
  with `json_ready=True`, `ConceptLattice.write_json/read_json`).  No Mathlib.
-/
import Fca.Model.CodecJson
namespace Fca.Codec

/-! ### generic insertion-ordered dicts and Python `sorted` -/

/-- `d[k] = v` -/
def dset {α : Type} (k : Str) (v : α) : List (Str × α) → List (Str × α)
  | [] => [(k, v)]
  | (k', v') :: r => if k' = k then (k', v) :: r else (k', v') :: dset k v r

def dget {α : Type} (k : Str) : List (Str × α) → Option α
  | [] => none
  | (k', v) :: r => if k' = k then some v else dget k r

/-- `{name: idx for idx, name in enumerate(names)}[x]` (a later duplicate wins) -/
def idxFrom : List Str → Nat → Str → Option Nat
  | [], _, _ => none
  | y :: ys, i, x =>
    match idxFrom ys (i + 1) x with
    | some k => some k
    | none => if y = x then some i else none

def idxOf (names : List Str) (x : Str) : Option Nat := idxFrom names 0 x

/-- stable insertion into a list sorted by `le` -/
def insertBy {α : Type} (le : α → α → Bool) (x : α) : List α → List α
  | [] => [x]
  | y :: ys => if le x y then x :: y :: ys else y :: insertBy le x ys

/-- `sorted(xs)` with the order `le` (stable) -/
def sortedBy {α : Type} (le : α → α → Bool) (xs : List α) : List α := xs.foldr (insertBy le) []

/-! ### pattern structures -/

inductive PType where
  | IntervalPS | SetPS | AttributePS | IntervalNumpyPS
  deriving DecidableEq, Repr, Inhabited

def PType.name : PType → Str
  | .IntervalPS => "IntervalPS".toList
  | .SetPS => "SetPS".toList
  | .AttributePS => "AttributePS".toList
  | .IntervalNumpyPS => "IntervalNumpyPS".toList

/-- `getattr(PS, v) if v in dir(PS) else pattern_types[v]` with no extra pattern types given
    (`pattern_types=None` makes the fallback a `TypeError`) -/
def PType.ofName (s : Str) : Except CErr PType :=
  if s = PType.IntervalPS.name then .ok .IntervalPS
  else if s = PType.SetPS.name then .ok .SetPS
  else if s = PType.AttributePS.name then .ok .AttributePS
  else if s = PType.IntervalNumpyPS.name then .ok .IntervalNumpyPS
  else .error typeError

def PType.isInterval : PType → Bool
  | .IntervalPS | .IntervalNumpyPS => true
  | _ => false

/-- elements of `SetPS` values -/
inductive Atom where
  | int (i : Int)
  | str (s : Str)
  deriving DecidableEq, Repr, Inhabited

/-- Python's `<` on code points -/
def strLt : Str → Str → Bool
  | [], [] => false
  | [], _ :: _ => true
  | _ :: _, [] => false
  | a :: as, b :: bs => a.toNat < b.toNat || (a == b && strLt as bs)

/-- `a < b` for atoms of the same kind (mixed kinds raise `TypeError` in Python: out of scope;
    the model orders ints before strings) -/
def Atom.lt : Atom → Atom → Bool
  | .int a, .int b => a < b
  | .str a, .str b => strLt a b
  | .int _, .str _ => true
  | .str _, .int _ => false

def Atom.le (a b : Atom) : Bool := !(Atom.lt b a)

/-- insertion into a strictly sorted duplicate-free list (a `set`) -/
def setInsert (x : Atom) : List Atom → List Atom
  | [] => [x]
  | y :: ys => if Atom.lt x y then x :: y :: ys else if x = y then y :: ys else y :: setInsert x ys

/-- `set(xs)`: sets are represented by their strictly sorted element list -/
def pySet (xs : List Atom) : List Atom := xs.foldr setInsert []

/-- a description of one pattern structure -/
inductive PVal where
  | interval (a b : Str)   -- a pair of numbers, each kept as its literal text
  | none_                  -- `None` (empty interval description)
  | set (xs : List Atom)   -- strictly sorted
  | attr (b : Bool)
  deriving DecidableEq, Repr, Inhabited

def Atom.toJV : Atom → JV
  | .int i => .int i
  | .str s => .str s

/-- the value each `to_json` hands to `json.dumps` -/
def toJsonVal (t : PType) (v : PVal) : Except CErr JV :=
  match t, v with
  | .AttributePS, .attr b => .ok (.bool b)
  | .AttributePS, .none_ => .ok .null
  | .AttributePS, .interval a b => .ok (.arr [.flt a, .flt b])
  | .AttributePS, .set _ => .error typeError
  | .SetPS, .set xs => .ok (.arr ((sortedBy Atom.le xs).map Atom.toJV))
  | .SetPS, _ => .error typeError
  | _, .interval a b => .ok (.arr [.flt a, .flt b])     -- `[float(x[0]), float(x[1])]`
  | _, .none_ => .ok .null
  | _, _ => .error typeError

/-- `ps.to_json(v)` — a JSON *text* -/
def toJsonText (t : PType) (v : PVal) : Except CErr Str :=
  match toJsonVal t v with
  | .ok j => .ok (dumps j)
  | .error e => .error e

def numLit : JV → Option Str
  | .flt l => some l
  | .int i => some (intRepr i)
  | _ => none

/-- an element of a loaded list that can go into a `set` of ints / strings -/
def asAtom : JV → Except CErr Atom
  | .int i => .ok (.int i)
  | .str s => .ok (.str s)
  | _ => .error typeError

/-- what each `from_json` makes of the loaded value -/
def fromJsonVal (t : PType) (j : JV) : Except CErr PVal :=
  match t with
  | .AttributePS =>
    match j with
    | .bool b => .ok (.attr b)
    | .null => .ok .none_
    | _ => .error typeError
  | .SetPS =>
    match j with
    | .arr xs =>
      match mapME asAtom xs with
      | .ok as => .ok (.set (pySet as))
      | .error e => .error e
    | _ => .error typeError
  | _ =>
    match j with
    | .null => .ok .none_
    | .arr [x, y] =>
      match numLit x, numLit y with
      | some a, some b => .ok (.interval a b)
      | _, _ => .error typeError
    | _ => .error typeError

/-- `ps.from_json(text)` -/
def fromJsonText (t : PType) (j : JV) : Except CErr PVal :=
  match j with
  | .str s =>
    match loads s with
    | none => .error valueError
    | some v => fromJsonVal t v
  | _ => .error typeError

/-- `float(x)` on a number literal, as literal text again (integers get `.0`) -/
def floatLit (l : Str) : Str :=
  if l.any fun c => c == '.' || c == 'e' || c == 'E' || c == 'n' then l else l ++ ['.', '0']

/-- `_transform_data` of one value when a pattern structure is constructed -/
def transformVal (t : PType) (v : PVal) : Except CErr PVal :=
  match t, v with
  | .AttributePS, .attr b => .ok (.attr b)
  | .AttributePS, .none_ => .ok (.attr false)
  | .AttributePS, .set xs => .ok (.attr (!xs.isEmpty))
  | .AttributePS, .interval _ _ => .ok (.attr true)
  | .SetPS, .set xs => .ok (.set xs)
  | .SetPS, _ => .error typeError
  | _, .interval a b => .ok (.interval (floatLit a) (floatLit b))
  | _, _ => .error typeError

/-! ### many-valued contexts -/

/-- one pattern structure: name, class, data column -/
structure PCol where
  name : Str
  ptype : PType
  data : List PVal
  deriving DecidableEq, Repr, Inhabited

/-- `object_names`, `attribute_names`, `pattern_structures` (in attribute order since the repair of
    `assemble_pattern_structures`), `description` -/
structure MVCxt where
  objs : List Str
  attrs : List Str
  cols : List PCol
  descr : Option Str := none
  deriving DecidableEq, Repr, Inhabited

/-- `MVContext.data`: `[list(row) for row in zip(*[ps.data for ps in pattern_structures])]` -/
def zipStar : List (List PVal) → List (List PVal)
  | [] => []
  | cols@(_ :: _) =>
    let n := (cols.map List.length).foldl min (cols.headD []).length
    (List.range n).map fun i => cols.map fun c => c.getD i .none_

def MVCxt.dataRows (K : MVCxt) : List (List PVal) := zipStar (K.cols.map (·.data))

/-- the tree `MVContext.write_json` hands to `json.dumps(.., separators=(',', ':'))` -/
def writeMVTree (K : MVCxt) : Except CErr JV :=
  let types := K.cols.map (·.ptype)
  match mapME (fun row => mapME (fun (p : PType × PVal) => toJsonText p.1 p.2) (types.zip row)) K.dataRows with
  | .error e => .error e
  | .ok texts =>
    let md : List (Str × JV) :=
      (match K.descr with | some d => [("Description".toList, jStr d)] | none => [])
      ++ [("ObjNames".toList, .arr (K.objs.map jStr)),
          ("Params".toList, .obj [("AttrNames".toList, .arr (K.attrs.map jStr)),
                                  ("PTypes".toList, .arr (types.map fun t => jStr t.name))])]
    let oi : List (Str × JV) :=
      [("Count".toList, jNat K.objs.length),
       ("Data".toList, .arr (texts.map fun ts => .obj [("PValues".toList, .arr (ts.map jStr))]))]
    .ok (.arr [.obj md, .obj oi])

def dictOfZipAux {α : Type} (acc : List (Str × α)) : List Str → List α → List (Str × α)
  | k :: ks, v :: vs => dictOfZipAux (dset k v acc) ks vs
  | _, _ => acc

/-- `{k: v for k, v in zip(ks, vs)}` -/
def dictOfZip {α : Type} (ks : List Str) (vs : List α) : List (Str × α) := dictOfZipAux [] ks vs

/-- `names_to_indexes_map[name]` for one `pattern_types` item (`KeyError` for a key that is no attribute) -/
def ptypeIndexed (attrs : List Str) (p : Str × PType) : Except CErr (Nat × Str × PType) :=
  match idxOf attrs p.1 with
  | none => .error keyError
  | some mi => .ok (mi, p.1, p.2)

def leIdx (a b : Nat × Str × PType) : Bool := decide (a.1 ≤ b.1)

/-- `ps_type([row[m_i] for row in data], name=name)` -/
def mkPCol (data : List (List PVal)) (q : Nat × Str × PType) : Except CErr PCol :=
  match mapME (fun (row : List PVal) => match row[q.1]? with
                                         | some v => transformVal q.2.2 v
                                         | none => .error indexError) data with
  | .error e => .error e
  | .ok col => .ok (PCol.mk q.2.1 q.2.2 col)

/-- `MVContext(data, pattern_types, object_names=…, attribute_names=…, description=…)`.
    `assemble_pattern_structures` walks `sorted(pattern_types.items(), key=index of the name in
    attribute_names)`: the pattern structures are always in attribute order, whatever the order of the
    dict (repaired in commit 2a13fe5; before, the dict order was used). -/
def mkMVCxt (data : List (List PVal)) (ptypes : List (Str × PType)) (objs : Option (List Str))
    (attrs : Option (List Str)) (descr : Option Str) : Except CErr MVCxt :=
  match data with
  | [] => .error indexError                        -- len(data[0])
  | row0 :: _ =>
    let n := data.length
    let m := row0.length
    let objs' := objs.getD (defaultNames n)
    let attrs' := attrs.getD (defaultNames m)
    if objs'.length != n then .error assertionError
    else if attrs'.length != m then .error assertionError
    else if !(attrs'.all fun a => (dget a ptypes).isSome) then .error assertionError
    else
      match mapME (ptypeIndexed attrs') ptypes with
      | .error e => .error e
      | .ok keyed =>
        match mapME (mkPCol data) (sortedBy leIdx keyed) with
        | .error e => .error e
        | .ok cols => .ok ⟨objs', attrs', cols, descr⟩

/-- `MVContext.read_json` after `json.loads` -/
def readMVTree (t : JV) : Except CErr MVCxt :=
  match t with
  | .arr [md, oi] =>
    match md.getOpt "Description".toList, md.getOpt "ObjNames".toList, md.getOpt "Params".toList with
    | .ok descr, .ok on, .ok (some params) =>
      match params.getOpt "AttrNames".toList, params.getKey "PTypes".toList with
      | .ok an, .ok (.arr ptn) =>
        match namesOf an, namesOf on with
        | .ok (some attrNames), .ok objNames =>
          match mapME (fun x => match x with
                                | JV.str s => PType.ofName s
                                | _ => .error typeError) ptn with
          | .error e => .error e
          | .ok types =>
            let ptypes := dictOfZip attrNames types
            match mapME (fun m => match dget m ptypes with
                                  | some p => Except.ok p
                                  | none => .error keyError) attrNames with
            | .error e => .error e
            | .ok plist =>
              match oi.getKey "Data".toList with
              | .ok (.arr gs) =>
                match mapME (fun g => match JV.getKey g "PValues".toList with
                                      | .ok (.arr vs) =>
                                        mapME (fun (p : PType × JV) => fromJsonText p.1 p.2) (plist.zip vs)
                                      | .ok _ => .error typeError
                                      | .error e => .error e) gs with
                | .error e => .error e
                | .ok data =>
                  match descr with
                  | none | some .null => mkMVCxt data ptypes objNames (some attrNames) none
                  | some (.str d) => mkMVCxt data ptypes objNames (some attrNames) (some d)
                  | some _ => .error assertionError
              | .ok _ => .error typeError
              | .error e => .error e
        | .ok none, _ => .error typeError
        | .error e, _ => .error e
        | _, .error e => .error e
      | .error e, _ => .error e
      | _, .error e => .error e
      | _, .ok _ => .error typeError
    | .ok _, .ok _, .ok none => .error typeError     -- zip(None, None)
    | .error e, _, _ => .error e
    | _, .error e, _ => .error e
    | _, _, .error e => .error e
  | .arr _ => .error valueError
  | _ => .error typeError

/-- `K1 == K2` for many-valued contexts: `ValueError` on different names, else the pattern
    structures are compared by data and name -/
def mvEq (a b : MVCxt) : Except CErr Bool :=
  if a.objs ≠ b.objs then .error valueError
  else if a.attrs ≠ b.attrs then .error valueError
  else .ok (a.cols.map (fun c => (c.name, c.data)) == b.cols.map (fun c => (c.name, c.data)))

/-! ### formal concepts -/

structure FConcept where
  extentI : List Int
  extent : List Str
  intentI : List Int
  intent : List Str
  measures : List (Str × JV)
  contextHash : Option Int
  monotone : Bool
  deriving Repr, Inhabited

def jOptInt : Option Int → JV
  | none => .null
  | some i => .int i

/-- `sorted(names, key=lambda g: idx_map[g])` (`KeyError` for a name outside the order) -/
def keyed (order : List Str) (g : Str) : Except CErr (Nat × Str) :=
  match idxOf order g with
  | some k => .ok (k, g)
  | none => .error keyError

def leKey (a b : Nat × Str) : Bool := decide (a.1 ≤ b.1)

def sortNamesBy (order : List Str) (names : List Str) : Except CErr (List Str) :=
  match mapME (keyed order) names with
  | .error e => .error e
  | .ok ps => .ok ((sortedBy leKey ps).map (·.2))

def leInt (a b : Int) : Bool := decide (a ≤ b)
def sortedInts (xs : List Int) : List Int := sortedBy leInt xs

/-- the `Ext` / `Int` entry of a concept dict -/
def extIntEntry (inds : List Int) (names : List Str) : JV :=
  .obj [("Inds".toList, .arr ((sortedInts inds).map .int)),
        ("Names".toList, .arr (names.map jStr)),
        ("Count".toList, jNat inds.length)]

/-- `for k, v in self.measures.items(): concept_info[k] = v` -/
def addMeasures (ms : List (Str × JV)) (d : List (Str × JV)) : List (Str × JV) :=
  ms.foldl (fun d (kv : Str × JV) => JV.dictSet kv.1 kv.2 d) d

/-- `FormalConcept.to_dict(objs_order, attrs_order)` -/
def FConcept.toDict (c : FConcept) (objsOrder attrsOrder : List Str) : Except CErr JV :=
  (sortNamesBy objsOrder c.extent).bind fun en =>
  (sortNamesBy attrsOrder c.intent).bind fun inn =>
    .ok (.obj (JV.dictSet "Monotone".toList (.bool c.monotone)
          (JV.dictSet "Context_Hash".toList (jOptInt c.contextHash)
            (addMeasures c.measures
              [("Ext".toList, extIntEntry c.extentI en),
               ("Int".toList, extIntEntry c.intentI inn),
               ("Supp".toList, jNat c.extentI.length)]))))

/-- `JSON_BOTTOM_PLACEHOLDER` -/
def bottomPlaceholder : JV :=
  .obj [("Inds".toList, .arr [.int (-2)]), ("Names".toList, .arr [jStr "BOTTOM_PLACEHOLDER".toList])]

def isBottomStr : JV → Bool
  | .str s => s = "BOTTOM".toList
  | _ => false

def asInt : JV → Except CErr Int
  | .int i => .ok i
  | .bool b => .ok (if b then 1 else 0)
  | _ => .error valueError

def asStr : JV → Except CErr Str
  | .str s => .ok s
  | _ => .error valueError

/-- pydantic's `Tuple[int, ...]` (bools are ints; anything else is a `ValidationError`, a `ValueError`) -/
def intsOf (x : JV) : Except CErr (List Int) :=
  match x with
  | .arr xs => mapME asInt xs
  | _ => .error valueError

/-- pydantic's `Tuple[str, ...]` -/
def strsOf (x : JV) : Except CErr (List Str) :=
  match x with
  | .arr xs => mapME asStr xs
  | _ => .error valueError

/-- the keys of `data` other than `Int`/`Ext` become measures -/
def measuresOf (kvs : List (Str × JV)) : List (Str × JV) :=
  (kvs.filter fun kv => !(kv.1 = "Int".toList || kv.1 = "Ext".toList)).foldl
    (fun d kv => JV.dictSet kv.1 kv.2 d) []

/-- `x['Inds']`, `x.get('Names', [])` of an `Ext`/`Int` entry, validated by pydantic -/
def extIntFields (x : JV) : Except CErr (List Int × List Str) :=
  (x.getKey "Inds".toList).bind fun inds =>
  (x.getOpt "Names".toList).bind fun names =>
  (intsOf inds).bind fun is =>
  (strsOf (names.getD (.arr []))).bind fun ns => .ok (is, ns)

/-- `context_hash: Optional[int]` -/
def hashOf : Option JV → Except CErr (Option Int)
  | none => .ok none
  | some .null => .ok none
  | some (.int h) => .ok (some h)
  | some _ => .error valueError

/-- `is_monotone: bool = data.get('Monotone', False)` -/
def monoOf : Option JV → Except CErr Bool
  | none => .ok false
  | some (.bool b) => .ok b
  | some _ => .error valueError

/-- `FormalConcept.from_dict(data)` -/
def FConcept.fromDict (data : JV) : Except CErr FConcept :=
  match data with
  | .obj kvs =>
    match JV.lookup "Int".toList kvs with
    | none => .error keyError
    | some int0 =>
      match JV.lookup "Ext".toList kvs with
      | none => .error keyError
      | some ext =>
        (extIntFields ext).bind fun e =>
        (extIntFields (if isBottomStr int0 then bottomPlaceholder else int0)).bind fun i =>
        (hashOf (JV.lookup "Context_Hash".toList kvs)).bind fun h =>
        (monoOf (JV.lookup "Monotone".toList kvs)).bind fun b =>
        .ok ⟨e.1, e.2, i.1, i.2, measuresOf kvs, h, b⟩
  | _ => .error typeError

/-! ### pattern concepts -/

structure PConcept where
  extentI : List Int
  extent : List Str
  intentI : List (Nat × PVal)        -- `{ps_i: description}`
  intent : List (Str × PVal)         -- `{name: description}`
  ptypes : List (Str × PType)        -- `pattern_types`
  attrNames : List Str
  measures : List (Str × JV)
  contextHash : Option Int
  deriving Repr, Inhabited

/-- `PatternConcept.to_dict(json_ready=True)` (the dict keys of `Int.Inds` are what `json.dumps`
    makes of the integer keys: their decimal text) -/
def PConcept.toDict (c : PConcept) : Except CErr JV :=
  let inds := mapME (fun (kv : Nat × PVal) =>
      match c.attrNames[kv.1]? with
      | none => Except.error indexError
      | some nm =>
        match dget nm c.ptypes with
        | none => .error keyError
        | some t => match toJsonText t kv.2 with
                    | .ok s => .ok (natRepr kv.1, jStr s)
                    | .error e => .error e) c.intentI
  let names := mapME (fun (kv : Str × PVal) =>
      match dget kv.1 c.ptypes with
      | none => Except.error keyError
      | some t => match toJsonText t kv.2 with
                  | .ok s => .ok (kv.1, jStr s)
                  | .error e => .error e) c.intent
  match inds, names with
  | .error e, _ => .error e
  | _, .error e => .error e
  | .ok inds', .ok names' =>
    let base : List (Str × JV) :=
      [("Ext".toList, .obj [("Inds".toList, .arr (c.extentI.map .int)),
                            ("Names".toList, .arr (c.extent.map jStr)),
                            ("Count".toList, jNat c.extentI.length)]),
       ("Int".toList, .obj [("Inds".toList, .obj inds'),
                            ("Names".toList, .obj names'),
                            ("Count".toList, jNat c.intentI.length),
                            ("PTypes".toList, .obj (c.ptypes.map fun p => (p.1, jStr p.2.name))),
                            ("AttrNames".toList, .arr (c.attrNames.map jStr))]),
       ("Supp".toList, jNat c.extentI.length)]
    let withMeasures := c.measures.foldl (fun d (kv : Str × JV) => JV.dictSet kv.1 kv.2 d) base
    .ok (.obj (JV.dictSet "Context_Hash".toList (jOptInt c.contextHash) withMeasures))

/-- `PatternConcept.from_dict(data, json_ready=True)` -/
def PConcept.fromDict (data : JV) : Except CErr PConcept :=
  match data with
  | .obj kvs =>
    match JV.lookup "Int".toList kvs, JV.lookup "Ext".toList kvs with
    | none, _ => .error keyError
    | some int0, ext? =>
      let int := if isBottomStr int0 then bottomPlaceholder else int0
      match int.getKey "PTypes".toList, int.getKey "AttrNames".toList,
            int.getKey "Inds".toList, int.getKey "Names".toList with
      | .ok (.obj pt), .ok an, .ok (.obj inds), .ok (.obj names) =>
        match mapME (fun (kv : Str × JV) => match kv.2 with
                       | JV.str s => match PType.ofName s with
                                     | .ok t => Except.ok (kv.1, t)
                                     | .error e => .error e
                       | _ => .error typeError) pt,
              strsOf an with
        | .ok ptypes, .ok attrNames =>
          let inds' := mapME (fun (kv : Str × JV) =>
              match pyInt kv.1 with
              | .error e => Except.error e
              | .ok k =>
                match attrNames[k]? with
                | none => .error indexError
                | some nm =>
                  match dget nm ptypes with
                  | none => .error keyError
                  | some t => match fromJsonText t kv.2 with
                              | .ok v => .ok (k, v)
                              | .error e => .error e) inds
          let names' := mapME (fun (kv : Str × JV) =>
              match dget kv.1 ptypes with
              | none => Except.error keyError
              | some t => match fromJsonText t kv.2 with
                          | .ok v => .ok (kv.1, v)
                          | .error e => .error e) names
          match inds', names', ext? with
          | .ok ii, .ok inn, some ext =>
            match ext.getKey "Inds".toList, ext.getOpt "Names".toList with
            | .ok ei, .ok en =>
              match intsOf ei, strsOf (en.getD (.arr [])) with
              | .ok ei', .ok en' =>
                if ei'.length != en'.length then .error assertionError
                else if ii.length != inn.length then .error assertionError
                else
                  match JV.lookup "Context_Hash".toList kvs with
                  | none | some .null => .ok ⟨ei', en', ii, inn, ptypes, attrNames, measuresOf kvs, none⟩
                  | some (.int h) => .ok ⟨ei', en', ii, inn, ptypes, attrNames, measuresOf kvs, some h⟩
                  | some _ => .error typeError
              | .error _, _ => .error assertionError
              | _, .error _ => .error assertionError
            | .error e, _ => .error e
            | _, .error e => .error e
          | .error e, _, _ => .error e
          | _, .error e, _ => .error e
          | _, _, none => .error keyError
        | .error e, _ => .error e
        | _, .error _ => .error typeError
      | .error e, _, _, _ => .error e
      | _, .error e, _, _ => .error e
      | _, _, .error e, _ => .error e
      | _, _, _, .error e => .error e
      | _, _, _, _ => .error typeError
  | _ => .error typeError

/-! ### concept lattices -/

/-- what the order of a lattice depends on: extent indexes, context hash, monotonicity flag
    (`none` for pattern concepts, which have no such flag) -/
structure CKey where
  extentI : List Int
  hash : Option Int
  mono : Option Bool
  deriving DecidableEq, Repr, Inhabited

def FConcept.key (c : FConcept) : CKey := ⟨c.extentI, c.contextHash, some c.monotone⟩
def PConcept.key (c : PConcept) : CKey := ⟨c.extentI, c.contextHash, none⟩

/-- `a <= b` once context hash and monotonicity agree: extent inclusion (reversed for monotone
    concepts) -/
def CKey.leq (a b : CKey) : Bool :=
  let (lesser, greater) := if a.mono = some true then (b, a) else (a, b)
  if lesser.extentI.length > greater.extentI.length then false
  else lesser.extentI.all fun g => greater.extentI.contains g

structure Lat (C : Type) where
  concepts : List C
  children : List (List Nat)     -- `children_dict[i]`, ascending, for `i = 0 … n-1`
  top : Nat
  bottom : Nat
  deriving Repr, Inhabited

/-- `descendants(i)`: `{j | j != i and leq(j, i)}` -/
def descendantsOf (ks : List CKey) (i : Nat) : List Nat :=
  match ks[i]? with
  | none => []
  | some ki => (List.range ks.length).filter fun j => j != i && (ks.getD j ki).leq ki

/-- `ancestors(i)`: `{j | j != i and leq(i, j)}` -/
def ancestorsOf (ks : List CKey) (i : Nat) : List Nat :=
  match ks[i]? with
  | none => []
  | some ki => (List.range ks.length).filter fun j => j != i && ki.leq (ks.getD j ki)

/-- `_children_nocache`: drop from the descendants whatever lies below another descendant -/
def childrenOf (ks : List CKey) (i : Nat) : List Nat :=
  let sub := descendantsOf ks i
  sub.foldl (fun cur el => if cur.contains el then cur.filter fun x => !(descendantsOf ks el).contains x
                           else cur) sub

/-- what `ConceptLattice(concepts)` computes when no `children_dict` is passed: the comparisons raise
    on mixed context hashes / monotonicity; exactly one top and one bottom are required -/
def rebuild (ks : List CKey) : Except CErr (List (List Nat) × Nat × Nat) :=
  match ks with
  | [] => .error valueError
  | k0 :: _ =>
    if !(ks.all fun k => k.hash == k0.hash) then
      .error (if k0.mono.isSome then valueError else .py .NotImplementedError)
    else if !(ks.all fun k => k.mono == k0.mono) then .error valueError
    else
      let idx := List.range ks.length
      match idx.filter (fun i => (ancestorsOf ks i).isEmpty), idx.filter (fun i => (descendantsOf ks i).isEmpty) with
      | [t], [b] => .ok (idx.map (childrenOf ks), t, b)
      | _, _ => .error valueError

def arcJ (s d : Nat) : JV := .obj [("S".toList, jNat s), ("D".toList, jNat d)]

/-- `[{"S": s_i, "D": d_i} for s_i, d_is in children_dict.items() for d_i in d_is]` -/
def arcsTree (children : List (List Nat)) : List JV :=
  ((List.range children.length).zip children).flatMap fun (p : Nat × List Nat) => p.2.map (arcJ p.1)

/-- `ConceptLattice.write_json` given the node dicts -/
def writeLatTree {C : Type} (L : Lat C) (nodes : List JV) : Except CErr JV :=
  if L.concepts.length < 3 then .error assertionError
  else
    let arcs : List JV := arcsTree L.children
    .ok (.arr [
      .obj [("Top".toList, .arr [jNat L.top]), ("Bottom".toList, .arr [jNat L.bottom]),
            ("NodesCount".toList, jNat L.concepts.length), ("ArcsCount".toList, jNat arcs.length)],
      .obj [("Nodes".toList, .arr nodes)],
      .obj [("Arcs".toList, .arr arcs)]])

def writeFLat (L : Lat FConcept) (objsOrder attrsOrder : List Str) : Except CErr JV :=
  if L.concepts.length < 3 then .error assertionError
  else match mapME (fun c => FConcept.toDict c objsOrder attrsOrder) L.concepts with
    | .error e => .error e
    | .ok nodes => writeLatTree L nodes

def writePLat (L : Lat PConcept) : Except CErr JV :=
  if L.concepts.length < 3 then .error assertionError
  else match mapME PConcept.toDict L.concepts with
    | .error e => .error e
    | .ok nodes => writeLatTree L nodes

/-- `'PTypes' in nodes_data['Nodes'][0]['Int']` -/
def isPatternNode (n0 : JV) : Except CErr Bool :=
  match n0.getKey "Int".toList with
  | .error e => .error e
  | .ok (.obj kvs) => .ok (JV.lookup "PTypes".toList kvs).isSome
  | .ok (.str _) => .ok false
  | .ok (.arr _) => .ok false
  | .ok _ => .error typeError

/-- `x[0]` -/
def firstOf (x : JV) : Except CErr JV :=
  match x with
  | .arr (v :: _) => .ok v
  | .arr [] => .error indexError
  | _ => .error typeError

/-- `arc['S']`, `arc['D']` -/
def arcCheck (a : JV) : Except CErr Unit :=
  (a.getKey "S".toList).bind fun _ => (a.getKey "D".toList).bind fun _ => .ok ()

def arcsOf (ad : JV) : Except CErr (List JV) :=
  match ad.getKey "Arcs".toList with
  | .ok (.arr as) => .ok as
  | .ok _ => .error typeError
  | .error e => .error e

/-- the header and arc accesses of `read_json` (their values are not used: the constructor
    ignores `subconcepts_dict`, `top_concept_i`, `bottom_concept_i`) -/
def readLatHeader (md ad : JV) : Except CErr Unit :=
  (md.getKey "Top".toList).bind fun t => (firstOf t).bind fun _ =>
  (md.getKey "Bottom".toList).bind fun b => (firstOf b).bind fun _ =>
  (arcsOf ad).bind fun as => (mapME arcCheck as).bind fun _ => .ok ()

def nodesOf (nd : JV) : Except CErr (List JV) :=
  match nd.getKey "Nodes".toList with
  | .ok (.arr ns) => .ok ns
  | .ok _ => .error typeError
  | .error e => .error e

/-- `ConceptLattice(concepts=[FormalConcept.from_dict(d) for d in nodes], …)` -/
def buildFLat (ns : List JV) : Except CErr (Lat FConcept ⊕ Lat PConcept) :=
  (mapME FConcept.fromDict ns).bind fun cs =>
  (rebuild (cs.map FConcept.key)).bind fun r => .ok (.inl ⟨cs, r.1, r.2.1, r.2.2⟩)

/-- `ConceptLattice(concepts=[PatternConcept.from_dict(d, json_ready=True) for d in nodes], …)` -/
def buildPLat (ns : List JV) : Except CErr (Lat FConcept ⊕ Lat PConcept) :=
  (mapME PConcept.fromDict ns).bind fun cs =>
  (rebuild (cs.map PConcept.key)).bind fun r => .ok (.inr ⟨cs, r.1, r.2.1, r.2.2⟩)

/-- `ConceptLattice.read_json` after `json.loads`: formal or pattern lattice -/
def readLatTree (t : JV) : Except CErr (Lat FConcept ⊕ Lat PConcept) :=
  match t with
  | .arr [md, nd, ad] =>
    (nodesOf nd).bind fun ns =>
      match ns with
      | [] => .error indexError
      | n0 :: _ =>
        (readLatHeader md ad).bind fun _ =>
        (isPatternNode n0).bind fun p => if p then buildPLat ns else buildFLat ns
  | .arr _ => .error valueError
  | _ => .error typeError

end Fca.Codec

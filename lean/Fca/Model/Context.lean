/-
  Fca.Model.Context — `FormalContext`'s derivation operators
  (`fcapy/context/formal_context.py`), on top of the backend models.
-/
import Fca.Model.BinTable
namespace Fca

/-- A formal context: backend, table, object names, attribute names. -/
structure Ctx where
  backend : Backend
  table   : Table
  objNames  : List String
  attrNames : List String
  deriving Repr, Inhabited

namespace Ctx

def nObjects (K : Ctx) : Nat := K.table.height
def nAttributes (K : Ctx) : Nat := K.table.width

/-- `FormalContext.extension_i` -/
def extensionI (K : Ctx) (attrs : List Nat) (base : Option (List Nat)) : List Nat :=
  if attrs.length = 0 then
    match base with
    | none => List.range K.nObjects
    | some bs => bs
  else allI K.backend K.table 1 base (some attrs)

/-- `FormalContext.extension_monotone_i` -/
def extensionMonotoneI (K : Ctx) (attrs : List Nat) (base : Option (List Nat)) : List Nat :=
  if attrs.length = K.nAttributes then
    match base with
    | none => List.range K.nObjects
    | some bs => bs
  else anyI K.backend K.table 1 base (some attrs)

/-- `FormalContext.intention_i` -/
def intentionI (K : Ctx) (objs : List Nat) (base : Option (List Nat)) : List Nat :=
  if objs.length = 0 then
    match base with
    | none => List.range K.nAttributes
    | some bs => bs
  else allI K.backend K.table 0 (some objs) base

/-- `FormalContext.intention_monotone_i` -/
def intentionMonotoneI (K : Ctx) (objs : List Nat) (base : Option (List Nat)) : List Nat :=
  let attrIterator := base.getD (List.range K.nAttributes)
  if objs.length = K.nObjects then attrIterator
  else
    let invObjs := (List.range K.nObjects).filter fun g => !(objs.contains g)
    let invAttrs := anyI K.backend K.table 0 (some invObjs) base
    attrIterator.filter fun m => !(invAttrs.contains m)

/-- `FormalContext.extension(attributes, base_objects, is_monotone)` -/
def extension (K : Ctx) (attrs : List String) (base : Option (List String)) (isMonotone : Bool) :
    Except PyErr (List String) := do
  let attrIdx ← namesToIdx K.attrNames attrs
  let baseI ← match base with
    | some bs => namesToIdx K.objNames bs
    | none => pure (List.range K.nObjects)
  let extI := if !isMonotone then K.extensionI attrIdx (some baseI)
              else K.extensionMonotoneI attrIdx (some baseI)
  pure (extI.map fun g => K.objNames.getD g "")

/-- `FormalContext.intention(objects, is_monotone)` -/
def intention (K : Ctx) (objs : List String) (isMonotone : Bool) : Except PyErr (List String) := do
  let objIdx ← namesToIdx K.objNames objs
  let intI := if !isMonotone then K.intentionI objIdx none else K.intentionMonotoneI objIdx none
  pure (intI.map fun m => K.attrNames.getD m "")

end Ctx
end Fca

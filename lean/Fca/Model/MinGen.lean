/-
  Fca.Model.MinGen — `FormalContext.get_minimal_generators(_i)`
  (`fcapy/context/formal_context.py:558-640`), written the way the Python is written:
  `attrs_to_iterate`, the level loop over `itertools.combinations`, `base_generator + list(comb)`,
  closure inside `base_objects_i` (extension inside the base, intention over ALL attributes of the
  full table), `set(int_i) == intent_i`, `tuple(sorted(comb))` added to a `set`, `break` at the first
  non-empty level.

  The Python result is `list(min_gens)` of a `set`: its order is unspecified.  The model returns the
  tuples in insertion order; theorems and the correspondence check treat the result as a set.
-/
import Fca.Model.Context
namespace Fca

/-- `itertools.combinations(l, k)` as a list of lists, in itertools' (lexicographic by position) order. -/
def combinations : List Nat → Nat → List (List Nat)
  | _, 0 => [[]]
  | [], _ + 1 => []
  | x :: xs, k + 1 => (combinations xs k).map (x :: ·) ++ combinations xs (k + 1)

/-- insert into an ascending list -/
def mgInsertSorted (a : Nat) : List Nat → List Nat
  | [] => [a]
  | b :: bs => if a ≤ b then a :: b :: bs else b :: mgInsertSorted a bs

/-- Python `sorted(xs)` on ints (any correct sort gives the same list; insertion sort is used so
    that closed examples reduce in the kernel). -/
def pySorted (xs : List Nat) : List Nat := xs.foldr mgInsertSorted []

/-- `set(a) == set(b)` for lists of ints -/
def mgSetEq (a b : List Nat) : Bool := a.all (b.contains ·) && b.all (a.contains ·)

/-- `s.add(x)` on a set kept as a duplicate-free list (insertion order). -/
def setAdd (s : List (List Nat)) (x : List Nat) : List (List Nat) :=
  if s.contains x then s else s ++ [x]

namespace Ctx

/-- body of `for comb in combinations(attrs_to_iterate, n_projection)` folded over the combinations -/
def minGenLevel (K : Ctx) (intent baseGen baseObjs : List Nat) :
    List (List Nat) → List (List Nat) → List (List Nat)
  | [], minGens => minGens
  | c :: rest, minGens =>
    let comb := baseGen ++ c                                   -- comb = base_generator + list(comb)
    let extI := K.extensionI comb (some baseObjs)              -- extension_i(comb, base_objects_i=...)
    let intI := K.intentionI extI none                         -- intention_i(ext_i)
    let minGens' := if mgSetEq intI intent then setAdd minGens (pySorted comb) else minGens
    minGenLevel K intent baseGen baseObjs rest minGens'

/-- `for n_projection in range(0, len(attrs_to_iterate) + 1): ...; if len(min_gens) > 0: break` -/
def minGenLoop (K : Ctx) (intent baseGen baseObjs attrs : List Nat) :
    List Nat → List (List Nat) → List (List Nat)
  | [], minGens => minGens
  | k :: ks, minGens =>
    let minGens' := minGenLevel K intent baseGen baseObjs (combinations attrs k) minGens
    if minGens'.length > 0 then minGens' else minGenLoop K intent baseGen baseObjs attrs ks minGens'

/-- `attrs_to_iterate = [m_i for m_i in range(self.n_attributes) if m_i not in base_generator]` -/
def attrsToIterate (K : Ctx) (baseGen : List Nat) : List Nat :=
  (List.range K.nAttributes).filter fun m => !(baseGen.contains m)

/-- `FormalContext.get_minimal_generators_i(intent_i, base_generator=None, base_objects_i=None)`.
    `base_objects_i = list(base_objects_i) if base_objects_i is not None else list(range(self.n_objects))`.
    (No modelled path raises; the `Except` type is kept for the by-name wrapper.) -/
def getMinimalGeneratorsI (K : Ctx) (intent : List Nat) (baseGen : Option (List Nat))
    (baseObjs : Option (List Nat)) : Except PyErr (List (List Nat)) :=
  let bg := match baseGen with | some g => g | none => []
  let bo := match baseObjs with | some b => b | none => List.range K.nObjects
  let attrs := K.attrsToIterate bg
  .ok (minGenLoop K intent bg bo attrs (List.range (attrs.length + 1)) [])

/-- `[i for i, x in enumerate(names) if x in sel]` -/
def idxOfNamesIn (names : List String) (sel : List String) : List Nat :=
  (List.range names.length).filter fun i => sel.contains (names.getD i "")

/-- `FormalContext.get_minimal_generators(intent, base_generator, base_objects, use_indexes=False)`:
    names are translated by membership tests (unknown names are silently ignored, order and
    multiplicity of the given names are irrelevant). -/
def getMinimalGenerators (K : Ctx) (intent : List String) (baseGen : Option (List String))
    (baseObjs : Option (List String)) : Except PyErr (List (List String)) :=
  let intentI := idxOfNamesIn K.attrNames intent
  let bgN := match baseGen with | some g => g | none => []
  let bg := idxOfNamesIn K.attrNames bgN
  let bo := match baseObjs with
    | none => List.range K.nObjects
    | some os => idxOfNamesIn K.objNames os
  match K.getMinimalGeneratorsI intentI (some bg) (some bo) with
  | .error e => .error e
  | .ok gens => .ok (gens.map fun mg => mg.map fun m => K.attrNames.getD m "")

end Ctx
end Fca

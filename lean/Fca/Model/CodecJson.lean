/-
  Fca.Model.CodecJson — JSON trees, Python's `json.dumps` / `json.loads` on them (text layer,
  executable; *trusted* as mutually inverse, never used inside a theorem except as an explicit
  hypothesis), and `write_json/read_json` of `fcapy/context/converters.py` as maps between
  contexts and trees.  No Mathlib.
-/
import Fca.Model.Codec
namespace Fca.Codec

/-- a JSON value as Python sees it after `json.loads`: `None`, `bool`, `int`, `float` (kept as the
    literal `repr` text: Python guarantees `float(repr(x)) == x`), `str`, `list`, `dict` (insertion
    ordered, string keys) -/
inductive JV where
  | null
  | bool (b : Bool)
  | int (i : Int)
  | flt (lit : Str)
  | str (s : Str)
  | arr (xs : List JV)
  | obj (kvs : List (Str × JV))
  deriving Repr, Inhabited

namespace JV
/-- `d.get(k)` on a dict (first match: keys are unique in what the writers build) -/
def lookup (k : Str) : List (Str × JV) → Option JV
  | [] => none
  | (k', v) :: r => if k' = k then some v else lookup k r

/-- `d[k] = v` on an insertion-ordered dict: overwrite in place or append -/
def dictSet (k : Str) (v : JV) : List (Str × JV) → List (Str × JV)
  | [] => [(k, v)]
  | (k', v') :: r => if k' = k then (k', v) :: r else (k', v') :: dictSet k v r

/-- `x[k]` for a value expected to be a dict: `TypeError` on a non-dict (list/None…), `KeyError`
    on a missing key -/
def getKey (x : JV) (k : Str) : Except CErr JV :=
  match x with
  | .obj kvs => match lookup k kvs with | some v => .ok v | none => .error keyError
  | _ => .error typeError

/-- `x.get(k)` (`AttributeError` on non-dicts is reported as `TypeError` class family: see driver) -/
def getOpt (x : JV) (k : Str) : Except CErr (Option JV) :=
  match x with
  | .obj kvs => .ok (lookup k kvs)
  | _ => .error (.py .TypeError)
end JV

/-! ### `json.dumps` (ensure_ascii=True) -/

def hexDigit (n : Nat) : Char := if n < 10 then Char.ofNat (48 + n) else Char.ofNat (87 + n)

/-- `\uXXXX` -/
def uEscape (n : Nat) : Str :=
  ['\\', 'u', hexDigit (n / 4096 % 16), hexDigit (n / 256 % 16), hexDigit (n / 16 % 16), hexDigit (n % 16)]

def escapeChar (c : Char) : Str :=
  if c == '"' then ['\\', '"']
  else if c == '\\' then ['\\', '\\']
  else if c == '\n' then ['\\', 'n']
  else if c == '\r' then ['\\', 'r']
  else if c == '\t' then ['\\', 't']
  else if c == Char.ofNat 8 then ['\\', 'b']
  else if c == Char.ofNat 12 then ['\\', 'f']
  else
    let n := c.toNat
    if n < 32 || (126 < n && n < 65536) then uEscape n      -- everything outside ' ' … '~' (DEL included)
    else if n ≥ 65536 then
      let m := n - 65536
      uEscape (55296 + m / 1024) ++ uEscape (56320 + m % 1024)
    else [c]

def dumpsStr (s : Str) : Str := ['"'] ++ (s.map escapeChar).flatten ++ ['"']

def intRepr (i : Int) : Str :=
  match i with
  | .ofNat n => natRepr n
  | .negSucc n => '-' :: natRepr (n + 1)

mutual
/-- `json.dumps(x, separators=(itemSep, keySep))` -/
def dumpsWith (itemSep keySep : Str) : JV → Str
  | .null => "null".toList
  | .bool true => "true".toList
  | .bool false => "false".toList
  | .int i => intRepr i
  | .flt lit => lit
  | .str s => dumpsStr s
  | .arr xs => ['['] ++ dumpsElems itemSep keySep xs ++ [']']
  | .obj kvs => ['{'] ++ dumpsPairs itemSep keySep kvs ++ ['}']
def dumpsElems (itemSep keySep : Str) : List JV → Str
  | [] => []
  | [x] => dumpsWith itemSep keySep x
  | x :: y :: r => dumpsWith itemSep keySep x ++ itemSep ++ dumpsElems itemSep keySep (y :: r)
def dumpsPairs (itemSep keySep : Str) : List (Str × JV) → Str
  | [] => []
  | [(k, v)] => dumpsStr k ++ keySep ++ dumpsWith itemSep keySep v
  | (k, v) :: y :: r =>
    dumpsStr k ++ keySep ++ dumpsWith itemSep keySep v ++ itemSep ++ dumpsPairs itemSep keySep (y :: r)
end

/-- `json.dumps(x)` -/
def dumps (x : JV) : Str := dumpsWith [',', ' '] [':', ' '] x
/-- `json.dumps(x, separators=(',', ':'))` -/
def dumpsCompact (x : JV) : Str := dumpsWith [','] [':'] x

/-! ### `json.loads` -/

def isWs (c : Char) : Bool := c == ' ' || c == '\n' || c == '\r' || c == '\t'

def skipWs : Str → Str
  | [] => []
  | c :: cs => if isWs c then skipWs cs else c :: cs

def hexVal (c : Char) : Option Nat :=
  let n := c.toNat
  if 48 ≤ n && n ≤ 57 then some (n - 48)
  else if 97 ≤ n && n ≤ 102 then some (n - 87)
  else if 65 ≤ n && n ≤ 70 then some (n - 55)
  else none

def hex4 (a b c d : Char) : Option Nat :=
  match hexVal a, hexVal b, hexVal c, hexVal d with
  | some w, some x, some y, some z => some (w * 4096 + x * 256 + y * 16 + z)
  | _, _, _, _ => none

/-- the body of a string literal after the opening quote: `(decoded, rest after closing quote)` -/
def parseStrBody : Nat → Str → Option (Str × Str)
  | 0, _ => none
  | _ + 1, [] => none
  | f + 1, c :: cs =>
    if c == '"' then some ([], cs)
    else if c == '\\' then
      match cs with
      | 'u' :: a :: b :: c' :: d :: r =>
        match hex4 a b c' d with
        | none => none
        | some hi =>
          -- a surrogate pair?
          match r with
          | '\\' :: 'u' :: a2 :: b2 :: c2 :: d2 :: r2 =>
            match hex4 a2 b2 c2 d2 with
            | some lo =>
              if 55296 ≤ hi && hi < 56320 && 56320 ≤ lo && lo < 57344 then
                (parseStrBody f r2).map fun p =>
                  (Char.ofNat (65536 + (hi - 55296) * 1024 + (lo - 56320)) :: p.1, p.2)
              else (parseStrBody f r).map fun p => (Char.ofNat hi :: p.1, p.2)
            | none => (parseStrBody f r).map fun p => (Char.ofNat hi :: p.1, p.2)
          | _ => (parseStrBody f r).map fun p => (Char.ofNat hi :: p.1, p.2)
      | e :: r =>
        let dec : Option Char :=
          if e == '"' then some '"' else if e == '\\' then some '\\' else if e == '/' then some '/'
          else if e == 'n' then some '\n' else if e == 'r' then some '\r' else if e == 't' then some '\t'
          else if e == 'b' then some (Char.ofNat 8) else if e == 'f' then some (Char.ofNat 12) else none
        match dec with
        | none => none
        | some ch => (parseStrBody f r).map fun p => (ch :: p.1, p.2)
      | [] => none
    else (parseStrBody f cs).map fun p => (c :: p.1, p.2)

def isNumChar (c : Char) : Bool :=
  c.isDigit || c == '-' || c == '+' || c == '.' || c == 'e' || c == 'E'

def spanNum : Str → Str × Str
  | [] => ([], [])
  | c :: cs => if isNumChar c then let p := spanNum cs; (c :: p.1, p.2) else ([], c :: cs)

/-- a number literal: `int` when it has no fraction/exponent, else `float` (kept as text) -/
def numOfLit (lit : Str) : Option JV :=
  if lit.any fun c => c == '.' || c == 'e' || c == 'E' then some (.flt lit)
  else
    match lit with
    | '-' :: ds => if !ds.isEmpty && ds.all Char.isDigit then some (.int (-(Nat.ofDigitChars 10 ds 0 : Nat))) else none
    | ds => if !ds.isEmpty && ds.all Char.isDigit then some (.int (Nat.ofDigitChars 10 ds 0 : Nat)) else none

mutual
/-- recursive-descent `json.loads` with fuel (the driver passes the text length + 1) -/
def parseVal : Nat → Str → Option (JV × Str)
  | 0, _ => none
  | f + 1, s =>
    match skipWs s with
    | 'n' :: 'u' :: 'l' :: 'l' :: r => some (.null, r)
    | 't' :: 'r' :: 'u' :: 'e' :: r => some (.bool true, r)
    | 'f' :: 'a' :: 'l' :: 's' :: 'e' :: r => some (.bool false, r)
    -- the three non-finite tokens CPython's scanner accepts (`json.dumps(float('inf'))` writes them)
    | 'I' :: 'n' :: 'f' :: 'i' :: 'n' :: 'i' :: 't' :: 'y' :: r => some (.flt "Infinity".toList, r)
    | '-' :: 'I' :: 'n' :: 'f' :: 'i' :: 'n' :: 'i' :: 't' :: 'y' :: r => some (.flt "-Infinity".toList, r)
    | 'N' :: 'a' :: 'N' :: r => some (.flt "NaN".toList, r)
    | '"' :: r => (parseStrBody (r.length + 1) r).map fun p => (.str p.1, p.2)
    | '[' :: r =>
      match skipWs r with
      | ']' :: r' => some (.arr [], r')
      | _ => (parseElems f r).map fun p => (.arr p.1, p.2)
    | '{' :: r =>
      match skipWs r with
      | '}' :: r' => some (.obj [], r')
      | _ => (parseMembers f r).map fun p => (.obj p.1, p.2)
    | c :: r =>
      if isNumChar c then
        let p := spanNum (c :: r)
        (numOfLit p.1).map fun v => (v, p.2)
      else none
    | [] => none
def parseElems : Nat → Str → Option (List JV × Str)
  | 0, _ => none
  | f + 1, s =>
    match parseVal f s with
    | none => none
    | some (v, r) =>
      match skipWs r with
      | ',' :: r' => (parseElems f r').map fun p => (v :: p.1, p.2)
      | ']' :: r' => some ([v], r')
      | _ => none
def parseMembers : Nat → Str → Option (List (Str × JV) × Str)
  | 0, _ => none
  | f + 1, s =>
    match skipWs s with
    | '"' :: r =>
      match parseStrBody (r.length + 1) r with
      | none => none
      | some (k, r1) =>
        match skipWs r1 with
        | ':' :: r2 =>
          match parseVal f r2 with
          | none => none
          | some (v, r3) =>
            match skipWs r3 with
            | ',' :: r4 => (parseMembers f r4).map fun p => ((k, v) :: p.1, p.2)
            | '}' :: r4 => some ([(k, v)], r4)
            | _ => none
        | _ => none
    | _ => none
end

/-- `json.loads(s)` (`none` = `JSONDecodeError`, a `ValueError`) -/
def loads (s : Str) : Option JV :=
  match parseVal (s.length + 1) s with
  | some (v, r) => if (skipWs r).isEmpty then some v else none
  | none => none

/-! ### FormalContext ↔ tree -/

def jStr (s : Str) : JV := .str s
def jNat (n : Nat) : JV := .int n

/-- `[ind for ind in range(n_attributes) if g_ms[ind]]` -/
def indsOf (m : Nat) (r : List Bool) : List Nat := (List.range m).filter fun i => r.getD i false

/-- the tree `write_json(context)` hands to `json.dumps(.., separators=(',', ':'))` -/
def writeJsonTree (K : Cxt) : JV :=
  let md : List (Str × JV) :=
    (match K.descr with | some d => [("Description".toList, jStr d)] | none => [])
    ++ [("ObjNames".toList, .arr (K.objs.map jStr)),
        ("Params".toList, .obj [("AttrNames".toList, .arr (K.attrs.map jStr))])]
  let oi : List (Str × JV) :=
    [("Count".toList, jNat K.nObjs),
     ("Data".toList, .arr (K.rows.map fun r =>
        .obj [("Count".toList, jNat (r.count true)),
              ("Inds".toList, .arr ((indsOf K.nAttrs r).map jNat))]))]
  .arr [.obj md, .obj oi]

/-- the name setters assert `type(name) == str` -/
def asName : JV → Except CErr Str
  | .str s => .ok s
  | _ => .error assertionError

/-- a list of names out of a JSON value (`None` stays `None`) -/
def namesOf : Option JV → Except CErr (Option (List Str))
  | none => .ok none
  | some .null => .ok none
  | some (.arr xs) =>
    match mapME asName xs with
    | .ok ns => .ok (some ns)
    | .error e => .error e
  | some _ => .error typeError

/-- an element of `set(line['Inds'])` that can equal a column index -/
def asIndex : JV → Except CErr Int
  | .int i => .ok i
  | .bool b => .ok (if b then 1 else 0)
  | _ => .error typeError

/-- `set(line['Inds'])` as a list (negative entries can never equal a column index) -/
def indsIn (x : JV) : Except CErr (List Int) :=
  match x with
  | .arr xs => mapME asIndex xs
  | _ => .error typeError

/-- `set(line['Inds'])` for one element of `Data` -/
def lineInds (line : JV) : Except CErr (List Int) :=
  match line.getKey "Inds".toList with
  | .error e => .error e
  | .ok v => indsIn v

/-- `ctx_metadata['Params'].get('AttrNames') if 'Params' in ctx_metadata else None` -/
def paramsAttrNames : Option JV → Except CErr (Option JV)
  | some p => p.getOpt "AttrNames".toList
  | none => .ok none

/-- `object_info['Data']` as a list -/
def dataLines (oi : JV) : Except CErr (List JV) :=
  match oi.getKey "Data".toList with
  | .error e => .error e
  | .ok (.arr lines) => .ok lines
  | .ok _ => .error typeError

/-- the description setter asserts `None` or `str` -/
def descrOf : Option JV → Except CErr (Option Str)
  | none => .ok none
  | some .null => .ok none
  | some (.str d) => .ok (some d)
  | some _ => .error assertionError

/-- `[[ind in inds for ind in range(len(attribute_names))] for inds in data_inds]` -/
def dataOf (m : Nat) (dataInds : List (List Int)) : List (List Bool) :=
  dataInds.map fun inds => (List.range m).map fun ind => inds.contains (Int.ofNat ind)

/-- the part of `read_json` after the lookups -/
def readJsonBuild (on an descr : Option JV) (dataInds : List (List Int)) : Except CErr Cxt :=
  (namesOf an).bind fun an' =>
    match an' with
    | none => .error typeError                       -- len(None)
    | some attrNames =>
      (namesOf on).bind fun objNames =>
      (descrOf descr).bind fun d =>
      mkCxt (dataOf attrNames.length dataInds) objNames (some attrNames) d

/-- `read_json` after `json.loads` -/
def readJsonTree (t : JV) : Except CErr Cxt :=
  match t with
  | .arr (md :: oi :: _) =>
    (md.getOpt "ObjNames".toList).bind fun on =>
    (md.getOpt "Params".toList).bind fun params =>
    (paramsAttrNames params).bind fun an =>
    (md.getOpt "Description".toList).bind fun descr =>
    (dataLines oi).bind fun lines =>
    (mapME lineInds lines).bind fun dataInds =>
    readJsonBuild on an descr dataInds
  | .arr _ => .error indexError
  | _ => .error typeError

end Fca.Codec

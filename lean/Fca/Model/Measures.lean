/-
  Fca.Model.Measures — `fcapy/lattice/concept_measures.py` (`stability`, `stability_bounds`,
  `log_stability_lbound`), `fcapy/utils/utils.py::powerset`, and the measure dispatch / storage of
  `fcapy/lattice/concept_lattice.py` (`calc_concepts_measures`, the `measures` property).

  Written the way the Python is written: the powerset is enumerated in the order of
  `itertools.chain(combinations(s, r) for r in range(len(s)+1))`, stability is a counter loop with the
  `set(int_i) == set(intent_i)` test and a final `/ 2**len(extent)`, the bounds are built from the
  `inv_diff` list with its `[0]` default, `sum` and `max` are left folds.

  Numbers: Python floats that are dyadic rationals are modelled exactly in core `Rat` (no `Float`).
  `log_stability_lbound` returns the *symbolic* value `Δ_min − log2(n_bin_attrs)` as the pair
  `(Δ_min or +inf, n_bin_attrs)`; no real logarithm is ever evaluated on the Lean side.

  The lattice is plain data: the concept list (extent_i, intent_i) in the lattice's order and, for every
  index, the list `children(c_i)` **in the order the frozenset is iterated** (an unspecified Python
  order: it is a parameter of the model, the theorems hold for every order).

  No Mathlib import (the driver links natively).
-/
import Fca.Model.Context
namespace Fca.Measures
open Fca

/-! ## `powerset` -/

/-- `itertools.combinations(s, r)`: the `r`-element sub-tuples in lexicographic position order. -/
def combinations : List Nat → Nat → List (List Nat)
  | _, 0 => [[]]
  | [], _ + 1 => []
  | x :: xs, r + 1 => (combinations xs r).map (x :: ·) ++ combinations xs (r + 1)

/-- `chain.from_iterable(combinations(s, r) for r in range(len(s)+1))` -/
def powerset (s : List Nat) : List (List Nat) :=
  (List.range (s.length + 1)).flatMap fun r => combinations s r

/-- `set(a) == set(b)` -/
def setEq (a b : List Nat) : Bool := a.all (b.contains ·) && b.all (a.contains ·)

/-! ## the lattice as the measure functions see it -/

/-- `lattice[i]` = `(extent_i, intent_i)`; `lattice.children(i)` = `children[i]` in iteration order. -/
structure Lattice where
  concepts : List (List Nat × List Nat)
  children : List (List Nat)
  deriving Repr, Inhabited

/-- `lattice[c_i]` (IndexError when out of range; negative indexes are outside the API). -/
def Lattice.get (L : Lattice) (i : Nat) : Except PyErr (List Nat × List Nat) :=
  match L.concepts[i]? with
  | some c => .ok c
  | none => .error .IndexError

/-- `lattice.children(c_i)` for an index already known to be valid. -/
def Lattice.childrenOf (L : Lattice) (i : Nat) : List Nat := L.children.getD i []

/-! ## `stability` -/

/-- the loop `for gs in powerset(extent_i): x += int(set(context.intention_i(gs)) == set(intent_i))` -/
def stabilityLoop (K : Ctx) (intent : List Nat) : List (List Nat) → Nat → Nat
  | [], x => x
  | gs :: rest, x =>
    let intI := K.intentionI gs none
    stabilityLoop K intent rest (x + (if setEq intI intent then 1 else 0))

/-- `stability(c_i, lattice, context)` -/
def stability (ci : Nat) (L : Lattice) (K : Ctx) : Except PyErr Rat := do
  let c ← L.get ci
  let n : Nat := 2 ^ c.1.length
  if c.1.length > 0 then
    let x := stabilityLoop K c.2 (powerset c.1) 0
    pure ((x : Rat) / (n : Rat))
  else
    pure 1

/-! ## `stability_bounds` -/

/-- remove later duplicates, keeping first occurrences (what `set(..)` does to a tuple, up to order) -/
def dedup : List Nat → List Nat
  | [] => []
  | x :: xs => x :: (dedup xs).filter (fun y => y != x)

/-- `len(set(a) - set(b))` -/
def setDiffLen (a b : List Nat) : Nat := ((dedup a).filter fun g => !(b.contains g)).length

/-- `2 ** (-k)` -/
def pow2neg (k : Nat) : Rat := 1 / (2 : Rat) ^ k

/-- `sum(xs)` -/
def pySum (xs : List Rat) : Rat := xs.foldl (· + ·) 0

/-- `max(xs)` : first maximal element; `ValueError` on an empty list -/
def pyMax : List Rat → Except PyErr Rat
  | [] => .error .ValueError
  | x :: xs => .ok (xs.foldl (fun m y => if m < y then y else m) x)

/-- `[2 ** (-len(set(extent) - set(lattice[child_i].extent_i))) for child_i in children_i]` -/
def invDiff (L : Lattice) (extent : List Nat) : List Nat → Except PyErr (List Rat)
  | [] => .ok []
  | ch :: rest => do
    let d ← L.get ch
    let r ← invDiff L extent rest
    pure (pow2neg (setDiffLen extent d.1) :: r)

/-- `stability_bounds(c_i, lattice)` → `(lb, ub)` -/
def stabilityBounds (ci : Nat) (L : Lattice) : Except PyErr (Rat × Rat) := do
  let c ← L.get ci
  let childrenI := L.childrenOf ci
  let inv ← if childrenI.length > 0 then invDiff L c.1 childrenI else pure [0]
  let mx ← pyMax inv
  pure (1 - pySum inv, 1 - mx)

/-! ## `log_stability_lbound` -/

/-- the float `minDelta − log2(nBin)`, kept symbolic; `minDelta = none` is `math.inf`. -/
structure LogB where
  minDelta : Option Nat
  nBin : Nat
  deriving DecidableEq, Repr, Inhabited

/-- `min(xs)` of a generator; `ValueError` when empty -/
def pyMin : List Nat → Except PyErr Nat
  | [] => .error .ValueError
  | x :: xs => .ok (xs.foldl (fun m y => if y < m then y else m) x)

/-- `(len(extent_i - set(lattice[child_i].extent_i)) for child_i in children_i)` -/
def deltas (L : Lattice) (extent : List Nat) : List Nat → Except PyErr (List Nat)
  | [] => .ok []
  | ch :: rest => do
    let d ← L.get ch
    let r ← deltas L extent rest
    pure (setDiffLen extent d.1 :: r)

/-- `log_stability_lbound(c_i, lattice, n_bin_attrs)`; `log2(0)` raises `ValueError`. -/
def logStabilityLbound (ci : Nat) (L : Lattice) (nBinAttrs : Nat) : Except PyErr LogB := do
  let c ← L.get ci
  let childrenI := L.childrenOf ci
  let bound ← if !childrenI.isEmpty then (do
      let ds ← deltas L c.1 childrenI
      let m ← pyMin ds
      pure (some m))
    else pure none
  if nBinAttrs = 0 then throw .ValueError
  pure ⟨bound, nBinAttrs⟩

/-! ## `calc_concepts_measures` and the `measures` property -/

/-- a stored measure value: an exact dyadic float, or the symbolic log bound -/
inductive Val where
  | q (r : Rat)
  | lg (b : LogB)
  deriving DecidableEq, Repr, Inhabited

/-- `concept.measures`: an insertion-ordered `dict` -/
abbrev MDict := List (String × Val)

/-- `d[k] = v` : overwrite in place, or append a new key -/
def dictSet : MDict → String → Val → MDict
  | [], k, v => [(k, v)]
  | (k', v') :: rest, k, v => if k' == k then (k, v) :: rest else (k', v') :: dictSet rest k v

/-- the argument `measure`: a name, or the pair `(name, func)` -/
inductive MeasureArg where
  | name (s : String)
  | custom (s : String) (f : Nat → Except PyErr Val)

/-- `for c_i, c in enumerate(self): <kvs> = f(c_i); c.measures[k] = v ...` -/
def calcLoop (f : Nat → Except PyErr (List (String × Val))) : Nat → List MDict → Except PyErr (List MDict)
  | _, [] => .ok []
  | i, d :: rest => do
    let kvs ← f i
    let r ← calcLoop f (i + 1) rest
    pure (kvs.foldl (fun d p => dictSet d p.1 p.2) d :: r)

/-- `ConceptLattice.calc_concepts_measures(measure, context)`.
    `meas[i]` is `self[i].measures`.  `target_entropy` / `mean_information_gain` (numpy statistics of a
    target vector, outside C16) are the opaque per-concept function `other`. -/
def calcConceptsMeasures (L : Lattice) (meas : List MDict) (measure : MeasureArg) (K : Ctx)
    (other : String → Nat → Except PyErr Val := fun _ _ => .error .NotImplementedError) :
    Except PyErr (List MDict) :=
  match measure with
  | .name m =>
    if m = "stability_bounds" ∨ m = "LStab" ∨ m = "UStab" then
      calcLoop (fun ci => do
        let (lb, ub) ← stabilityBounds ci L
        pure [("LStab", .q lb), ("UStab", .q ub)]) 0 meas
    else if m = "log_stability_lbound" then
      let nBinAttrs := K.nAttributes
      calcLoop (fun ci => do
        let b ← logStabilityLbound ci L nBinAttrs
        pure [("log_stability_lbound", .lg b)]) 0 meas
    else if m = "stability" then
      calcLoop (fun ci => do
        let s ← stability ci L K
        pure [("Stab", .q s)]) 0 meas
    else if m = "target_entropy" ∨ m = "mean_information_gain" then
      calcLoop (fun ci => do
        let v ← other m ci
        pure [(m, v)]) 0 meas
    else .error .ValueError
  | .custom nm f =>
    calcLoop (fun ci => do
      let v ← f ci
      pure [(nm, v)]) 0 meas

/-- the arrays under construction: insertion-ordered `dict` name ↦ list (with `None` padding) -/
abbrev MArrays := List (String × List (Option Val))

/-- `k in meas_dict` -/
def hasKey (md : MArrays) (k : String) : Bool := md.any fun p => p.1 == k

/-- `meas_dict[k].append(x)` for a present key -/
def appendAt : MArrays → String → Option Val → MArrays
  | [], _, _ => []
  | (k', vs) :: rest, k, x => if k' == k then (k', vs ++ [x]) :: rest else (k', vs) :: appendAt rest k x

/-- `for k, v in c.measures.items(): if k not in meas_dict: meas_dict[k] = [None]*i; meas_dict[k].append(v)` -/
def measItems (i : Nat) : MDict → MArrays → MArrays
  | [], md => md
  | (k, v) :: rest, md =>
    let md1 := if hasKey md k then md else md ++ [(k, List.replicate i none)]
    measItems i rest (appendAt md1 k (some v))

/-- `for i, c in enumerate(self): ...` -/
def measLoop : Nat → List MDict → MArrays → MArrays
  | _, [], md => md
  | i, d :: rest, md => measLoop (i + 1) rest (measItems i d md)

/-- number of distinct values in a list of lengths (`len(set([...]))`) -/
def distinctCount (xs : List Nat) : Nat := (dedup xs).length

/-- the `measures` property, with its final `assert` on equal lengths -/
def measures (meas : List MDict) : Except PyErr MArrays :=
  let md := measLoop 0 meas []
  if distinctCount (md.map fun p => p.2.length) == 1 || md.length == 0 then .ok md
  else .error .AssertionError

/-- successive `lattice.calc_concepts_measures(name, K)` calls -/
def runCalls (L : Lattice) (K : Ctx) : List String → List MDict → Except PyErr (List MDict)
  | [], st => .ok st
  | nm :: rest, st => do
    let st' ← calcConceptsMeasures L st (.name nm) K
    runCalls L K rest st'

end Fca.Measures

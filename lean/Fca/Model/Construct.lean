/-
  Fca.Model.Construct — executable, code-shaped models of `fcapy/algorithms/lattice_construction.py`
  and of the three `ConceptLattice` helpers it calls (`sort_concepts`, `_get_chains`,
  `get_top_bottom_concepts_i`, `get_all_{super,sub}concepts_dict`).

  Representation
  * a concept is its extent, a duplicate-free `List Nat` (`extent_i`); a concept list is `List Ext`;
  * Python `set`s of concept indexes are duplicate-free `List Nat` (insertion order kept, `addSet`);
    the order in which Python iterates such a set is unspecified, so every loop over a set goes through
    the parameter `ord : List Nat → List Nat` (a permutation of its argument);
  * dictionaries `{c_i: set}` whose keys are `0 … n-1` are `List (List Nat)` indexed by the key;
  * the routines only ever look at a concept through `a < b`, `support` and the sort key, so the
    generic part of each model takes `lt : Nat → Nat → Bool` (`lt i j` = `concepts[i] < concepts[j]`),
    and the entry points at the bottom of the file instantiate it with `ltC` on extents.

  No Mathlib import (linked into the native driver).
-/
import Fca.Model.Basic
namespace Fca.Construct

abbrev Ext := List Nat

/-! ### concept comparison (`AbstractConcept.__le__/__lt__/__eq__`, non-monotone concepts of one context) -/

/-- `a <= b`: support shortcut, then the membership loop over `a.extent_i` -/
def leC (a b : Ext) : Bool :=
  if a.length > b.length then false else a.all fun g => b.contains g

/-- `a < b`: equal supports are "definitely not smaller", otherwise `a <= b` -/
def ltC (a b : Ext) : Bool :=
  if a.length == b.length then false else leC a b

/-- `a == b`: supports differ → False, else `set(a.extent_i) == set(b.extent_i)` -/
def eqC (a b : Ext) : Bool :=
  if a.length != b.length then false
  else (a.all fun g => b.contains g) && (b.all fun g => a.contains g)

/-- `concepts[i] < concepts[j]` -/
def ltAt (cs : List Ext) (i j : Nat) : Bool := ltC (cs.getD i []) (cs.getD j [])

/-- `concepts[i].support` -/
def suppAt (cs : List Ext) (i : Nat) : Nat := (cs.getD i []).length

/-! ### Python sets as duplicate-free lists -/

/-- `s.add(x)` -/
def addSet (s : List Nat) (x : Nat) : List Nat := if s.contains x then s else s ++ [x]

/-- `s | t` -/
def union (s t : List Nat) : List Nat := t.foldl addSet s

/-- `s - t` -/
def diff (s t : List Nat) : List Nat := s.filter fun x => !t.contains x

/-- stable insertion sort: `sorted(xs, key=..)` where `le a b` is `key a <= key b` -/
def insertBy (le : Nat → Nat → Bool) (x : Nat) : List Nat → List Nat
  | [] => [x]
  | y :: ys => if le x y then x :: y :: ys else y :: insertBy le x ys

def sortBy (le : Nat → Nat → Bool) (xs : List Nat) : List Nat := xs.foldr (insertBy le) []

/-- `sorted(s)` for a set of indexes -/
def sortAsc (xs : List Nat) : List Nat := sortBy (fun a b => a ≤ b) xs

/-- `sorted(s)[0]` : `IndexError` on the empty set -/
def minOf (xs : List Nat) : Except PyErr Nat :=
  match sortAsc xs with
  | [] => .error .IndexError
  | x :: _ => .ok x

/-! ### `ConceptLattice.sort_concepts`

`sorted(concepts, key=lambda c: (-len(c.extent_i), ','.join(str(g) for g in c.extent_i)))`.
The dictionaries `{c: index}` the callers build from the result are keyed by concepts; for a list of
pairwise different concepts they are the index look-ups, so the model sorts the *indexes*. -/

def extKey (e : Ext) : String := String.intercalate "," (e.map toString)

/-- tuple comparison `(-len a, key a) <= (-len b, key b)` -/
def sortKeyLe (cs : List Ext) (i j : Nat) : Bool :=
  let a := cs.getD i []
  let b := cs.getD j []
  decide (a.length > b.length) || (a.length == b.length && !(decide (extKey b < extKey a)))

/-- `map_isort_i`: position in the sorted list ↦ original index -/
def sortedIdx (cs : List Ext) : List Nat := sortBy (sortKeyLe cs) (List.range cs.length)

/-- `map_i_isort[c_i]`: original index ↦ position in the sorted list -/
def posIn (isortI : List Nat) (i : Nat) : Nat := isortI.idxOf i

/-- what a routine knows about the listing order: `isortI` (sorted position ↦ index) and `pos`
    (index ↦ sorted position).  With `is_concepts_sorted=True` both are the identity. -/
structure SortView where
  isortI : List Nat
  pos : Nat → Nat

def sortView (cs : List Ext) (isSorted : Bool) : SortView :=
  if isSorted then ⟨List.range cs.length, id⟩
  else ⟨sortedIdx cs, posIn (sortedIdx cs)⟩

/-! ### `complete_comparison` -/

/-- `get_subconcepts(a_i, a, concepts)`: the loop over `enumerate(concepts)` with the sorted shortcut -/
def getSubconcepts (n : Nat) (lt : Nat → Nat → Bool) (isSorted : Bool) (a_i : Nat) : List Nat :=
  (List.range n).filter fun b_i =>
    if isSorted && decide (b_i < a_i) then false   -- `continue`
    else lt b_i a_i

/-- `all_subconcepts`: computed sequentially (`n_jobs == 1`) or by `joblib.Parallel(require='sharedmem')`
    — the workers only read, and joblib returns the results in submission order, so both branches yield
    the list below (the job count is kept as an argument to make that explicit). -/
def allSubconcepts (n : Nat) (lt : Nat → Nat → Bool) (isSorted : Bool) (_nJobs : Nat) : List (List Nat) :=
  (List.range n).map (getSubconcepts n lt isSorted)

/-- one iteration of the loop `for a_i, b_is in all_subconcepts_dict.items()`.
    `subconcepts_dict[a_i] = b_is` stores the *same* set object that `all_subconcepts_dict[a_i]` holds,
    and `-=` updates it in place: one dictionary `D` models both.  The iteration runs over a copy of
    the set (`b_is.copy()`, iterated in the unspecified order `ord`) or over `sorted(b_is)`. -/
def reduceStep (ord : List Nat → List Nat) (isSorted : Bool) (D : List (List Nat)) (a_i : Nat) :
    List (List Nat) :=
  let b_is := D.getD a_i []
  let iter := if isSorted then sortAsc b_is else ord b_is
  iter.foldl (fun D b_i => D.set a_i (diff (D.getD a_i []) (D.getD b_i []))) D

def completeComparison (n : Nat) (lt : Nat → Nat → Bool) (isSorted : Bool) (nJobs : Nat)
    (ord : List Nat → List Nat) : List (List Nat) :=
  (List.range n).foldl (reduceStep ord isSorted) (allSubconcepts n lt isSorted nJobs)

/-! ### `construct_spanning_tree` -/

/-- the `while sifted:` loop: descend to the first already placed child (in the set's iteration order)
    that is still a strict superconcept of `c`; stop when there is none -/
def siftDown (lt : Nat → Nat → Bool) (ord : List Nat → List Nat) (subSt : List (List Nat)) (c : Nat) :
    Nat → Nat → Except PyErr Nat
  | 0, _ => .error .OutOfFuel
  | fuel + 1, sup =>
    match (ord (subSt.getD sup [])).find? (fun s => lt c s) with
    | some s => siftDown lt ord subSt c fuel s
    | none => .ok sup

/-- state of the spanning tree loop: `subconcepts_st_dict`, `superconcepts_st_dict` -/
structure SpTree where
  sub : List (List Nat)
  sup : List (List Nat)
  deriving Repr, BEq

/-- body of `for c_sort_i in range(len(concepts))` for `c_sort_i > 0`; `root = map_isort_i[0]` -/
def placeConcept (lt : Nat → Nat → Bool) (ord : List Nat → List Nat) (fuel root : Nat)
    (t : SpTree) (c_i : Nat) : Except PyErr SpTree :=
  match siftDown lt ord t.sub c_i fuel root with
  | .error e => .error e
  | .ok sup => .ok ⟨t.sub.set sup (addSet (t.sub.getD sup []) c_i), t.sup.set c_i [sup]⟩

def placeAll (lt : Nat → Nat → Bool) (ord : List Nat → List Nat) (fuel root : Nat) :
    SpTree → List Nat → Except PyErr SpTree
  | t, [] => .ok t
  | t, c :: rest =>
    match placeConcept lt ord fuel root t c with
    | .error e => .error e
    | .ok t' => placeAll lt ord fuel root t' rest

/-- `construct_spanning_tree(concepts, is_concepts_sorted)`; `fuel` bounds the sift loop
    (any value above the support of the top concept is enough: every sift step moves to a strictly smaller concept). -/
def constructSpanningTree (n : Nat) (lt : Nat → Nat → Bool) (sv : SortView) (ord : List Nat → List Nat)
    (fuel : Nat) : Except PyErr SpTree :=
  match sv.isortI with
  | [] => .ok ⟨[], []⟩
  | root :: rest =>
    placeAll lt ord fuel root ⟨List.replicate n [], List.replicate n []⟩ rest

/-! ### `ConceptLattice._get_chains` -/

/-- inner `while c_i in visited_concepts: c_sort_i -= 1`, started at `c_sort_i = n-1`
    (argument `k` is `c_sort_i + 1`) -/
def findUnvisited (isortI visited : List Nat) : Nat → Option (Nat × Nat)
  | 0 => none
  | k + 1 =>
    let c := isortI.getD k 0
    if visited.contains c then findUnvisited isortI visited k else some (k, c)

/-- inner `while True:` walking to the root along `sorted(superconcepts_dict[c_i])[0]`;
    the chain is produced in walking order (it is reversed by the caller) -/
def walkUp (supD : List (List Nat)) (pos : Nat → Nat) : Nat → Nat → Nat → Except PyErr (List Nat)
  | 0, _, _ => .error .OutOfFuel
  | fuel + 1, c_i, c_sort_i =>
    if c_sort_i == 0 then .ok [c_i]
    else
      match supD[c_i]? with
      | none => .error .KeyError
      | some ps =>
        match minOf ps with
        | .error e => .error e
        | .ok p =>
          match walkUp supD pos fuel p (pos p) with
          | .error e => .error e
          | .ok ch => .ok (c_i :: ch)

/-- outer `while len(visited_concepts) < n_concepts` -/
def chainsLoop (n : Nat) (supD : List (List Nat)) (sv : SortView) (wfuel : Nat) :
    Nat → List Nat → List (List Nat) → Except PyErr (List (List Nat))
  | 0, _, _ => .error .OutOfFuel
  | fuel + 1, visited, chains =>
    if visited.length < n then
      match findUnvisited sv.isortI visited n with
      | none => .error .OutOfFuel        -- unreachable: fewer than `n` visited ⇒ some index is unvisited
      | some (c_sort_i, c_i) =>
        match walkUp supD sv.pos wfuel c_i c_sort_i with
        | .error e => .error e
        | .ok ch => chainsLoop n supD sv wfuel fuel (union visited ch) (chains ++ [ch.reverse])
    else .ok chains

/-- `_get_chains(concepts, superconcepts_dict, is_concepts_sorted)` -/
def getChains (n : Nat) (supD : List (List Nat)) (sv : SortView) (wfuel : Nat) :
    Except PyErr (List (List Nat)) :=
  chainsLoop n supD sv wfuel (n + 1) [] []

/-! ### `construct_lattice_from_spanning_tree` (and its `_parallel` twin) -/

/-- the three sets of the current concept that `iterate_chain` mutates in place, and the resume index -/
structure Scan where
  sup : List Nat      -- superconcepts_cur
  all : List Nat      -- all_superconcepts_cur
  inc : List Nat      -- incomparables_cur
  start : Nat         -- idx_comp_start
  deriving Repr, BEq

/-- `chain_comp[idx_comp - 1]` with Python's wrap-around for `idx_comp = 0` -/
def chainPrev (chain : List Nat) (idx : Nat) : Nat :=
  if idx = 0 then chain.getLastD 0 else chain.getD (idx - 1) 0

/-- the `for idx_comp, c_i_comp in enumerate(chain_comp[idx_comp_start:])` loop of `iterate_chain`;
    `hasSmaller a b` = "`a` is listed before `b` in the sorted order";  `lt cCur cComp` is the code's
    `c_comp > c_cur` (no `__gt__` is defined, Python evaluates the reflected `c_cur < c_comp`). -/
def iterateChainAux (lt : Nat → Nat → Bool) (pos : Nat → Nat) (chain : List Nat) (cCur : Nat) :
    List Nat → Nat → Scan → Scan
  | [], _, s => s
  | cComp :: rest, idx, s =>
    if s.all.contains cComp then iterateChainAux lt pos chain cCur rest (idx + 1) s    -- `continue`
    else
      let hasSmaller := decide (pos cComp < pos cCur)
      let last := idx + 1 == chain.length
      let isSup := if s.inc.contains cComp then false else (if hasSmaller then lt cCur cComp else false)
      let inc' := if !(s.inc.contains cComp) && hasSmaller && !isSup then addSet s.inc cComp else s.inc
      if isSup && last then
        { sup := addSet s.sup cComp, all := addSet s.all cComp, inc := inc', start := idx }     -- exit 1
      else if !isSup then
        { sup := addSet s.sup (chainPrev chain idx), all := s.all, inc := inc', start := idx }  -- exit 2
      else
        iterateChainAux lt pos chain cCur rest (idx + 1) { s with all := addSet s.all cComp, inc := inc' }

/-- `iterate_chain(chain_comp, c_i_cur, idx_comp_start, …)` (exit 3 = loop exhausted: `start` unchanged) -/
def iterateChain (lt : Nat → Nat → Bool) (pos : Nat → Nat) (chain : List Nat) (cCur : Nat) (s : Scan) : Scan :=
  iterateChainAux lt pos chain cCur (chain.drop s.start) s.start s

/-- the three shared dictionaries -/
structure Sweep where
  allSup : List (List Nat)    -- all_superconcepts
  incomp : List (List Nat)    -- incomparables
  supD   : List (List Nat)    -- superconcepts_dict
  deriving Repr, BEq

/-- one call `iterate_chain(chain_comp, c_i_cur, idxs_comp[ch_i], …)` together with the write-back
    (`|=` onto the very same set objects, `idxs_comp[ch_i] = idx_comp_start`) -/
def scanOne (lt : Nat → Nat → Bool) (pos : Nat → Nat) (chains : List (List Nat)) (cCur : Nat)
    (st : Sweep × List Nat) (chI : Nat) : Sweep × List Nat :=
  let (sw, idxs) := st
  let r := iterateChain lt pos (chains.getD chI []) cCur
    ⟨sw.supD.getD cCur [], sw.allSup.getD cCur [], sw.incomp.getD cCur [], idxs.getD chI 0⟩
  (⟨sw.allSup.set cCur r.all, sw.incomp.set cCur r.inc, sw.supD.set cCur r.sup⟩, idxs.set chI r.start)

/-- body of `for idx_cur, c_i_cur in enumerate(chain[1:])`: `scanOrder` lists the chain indexes in the
    order in which their scans take effect. -/
def processConcept (lt : Nat → Nat → Bool) (pos : Nat → Nat) (chains : List (List Nat))
    (scanOrder : Nat → List Nat) (st : Sweep × List Nat) (parent cCur : Nat) : Sweep × List Nat :=
  let (sw, idxs) := st
  if !(sw.supD.getD cCur []).isEmpty then st           -- superconcepts already found: `continue`
  else
    let sw1 : Sweep :=
      ⟨sw.allSup.set cCur (union (sw.allSup.getD cCur []) (union [parent] (sw.allSup.getD parent []))),
       sw.incomp, sw.supD.set cCur [parent]⟩
    (scanOrder cCur).foldl (scanOne lt pos chains cCur) (sw1, idxs)

/-- `for idx_cur, c_i_cur in enumerate(chain[1:])` as a walk over consecutive pairs -/
def processChainAux (lt : Nat → Nat → Bool) (pos : Nat → Nat) (chains : List (List Nat))
    (scanOrder : Nat → List Nat) : Sweep × List Nat → List Nat → Sweep × List Nat
  | st, [] => st
  | st, [_] => st
  | st, p :: c :: rest =>
    processChainAux lt pos chains scanOrder (processConcept lt pos chains scanOrder st p c) (c :: rest)

/-- body of `for ch_i_cur in range(len(sptree_chains))`: `idxs_comp` is reset for every chain -/
def processChain (lt : Nat → Nat → Bool) (pos : Nat → Nat) (chains : List (List Nat))
    (scanOrder : Nat → List Nat) (sw : Sweep) (chain : List Nat) : Sweep :=
  (processChainAux lt pos chains scanOrder (sw, List.replicate chains.length 0) chain).1

/-- the literal loop
    `for idx in range(len(superconcepts)): if idx >= len(superconcepts): break; sc_i = superconcepts[idx];
     superconcepts = [i for i in superconcepts if i not in all_superconcepts[sc_i]]` -/
def reduceLoop (allSup : List (List Nat)) : Nat → Nat → List Nat → List Nat
  | 0, _, l => l
  | k + 1, idx, l =>
    if idx ≥ l.length then l
    else reduceLoop allSup k (idx + 1) (l.filter fun i => !(allSup.getD (l.getD idx 0) []).contains i)

/-- `sorted(superconcepts_dict[c_i], key=lambda sc_i: -pos[sc_i])` then the loop above -/
def reducedSuperconcepts (pos : Nat → Nat) (ord : List Nat → List Nat) (sw : Sweep) (c : Nat) : List Nat :=
  let cands := sortBy (fun a b => decide (pos b ≤ pos a)) (ord (sw.supD.getD c []))
  reduceLoop sw.allSup cands.length 0 cands

/-- the final `for c_i, c in enumerate(concepts)` building `subconcepts_dict` -/
def finalize (n : Nat) (pos : Nat → Nat) (ord : List Nat → List Nat) (sw : Sweep) : List (List Nat) :=
  (List.range n).foldl
    (fun subD c => (reducedSuperconcepts pos ord sw c).foldl
      (fun subD s => subD.set s (addSet (subD.getD s []) c)) subD)
    (List.replicate n [])

def sweepInit (n : Nat) : Sweep := ⟨List.replicate n [], List.replicate n [], List.replicate n []⟩

/-- `construct_lattice_from_spanning_tree(concepts, sptree_chains, is_concepts_sorted)`:
    every concept scans the chains in the order `0, 1, …` -/
def fromSpanningTree (n : Nat) (lt : Nat → Nat → Bool) (sv : SortView) (ord : List Nat → List Nat)
    (chains : List (List Nat)) : List (List Nat) :=
  let sw := chains.foldl (processChain lt sv.pos chains (fun _ => List.range chains.length)) (sweepInit n)
  finalize n sv.pos ord sw

/-- chain indexes of the batches `chains[k*nJobs : (k+1)*nJobs]`, `k < ceil(len/nJobs)` -/
def batches (nJobs nChains : Nat) : List (List Nat) :=
  (List.range ((nChains + nJobs - 1) / nJobs)).map fun k =>
    (List.range nJobs).filterMap fun r => if k * nJobs + r < nChains then some (k * nJobs + r) else none

/-- `construct_lattice_from_spanning_tree_parallel(…, n_jobs)` with `n_jobs ≥ 1`.
    The chains are handed to the thread pool in batches of `n_jobs`; the scans of one batch run
    concurrently on the *same three set objects* of the current concept and the pool is joined before
    the next batch.  Model: within a batch the scans take effect one after the other in an arbitrary
    order `sched cCur batchNo batch` (a permutation of the batch) — every interleaving *at the
    granularity of whole scans*.  Interleavings inside a scan (between two bytecodes of
    `iterate_chain`) are **not** modelled. -/
def fromSpanningTreePar (n : Nat) (lt : Nat → Nat → Bool) (sv : SortView) (ord : List Nat → List Nat)
    (chains : List (List Nat)) (nJobs : Nat) (sched : Nat → Nat → List Nat → List Nat) : List (List Nat) :=
  let bs := batches nJobs chains.length
  let scanOrder := fun cCur => (List.range bs.length).flatMap fun k => sched cCur k (bs.getD k [])
  let sw := chains.foldl (processChain lt sv.pos chains scanOrder) (sweepInit n)
  finalize n sv.pos ord sw

/-- `construct_lattice_by_spanning_tree(concepts, is_concepts_sorted, n_jobs)`; `fuel` bounds the two
    `while` loops that walk along the tree (any value above the support of the top concept is enough) -/
def bySpanningTree (n : Nat) (lt : Nat → Nat → Bool) (sv : SortView) (ord : List Nat → List Nat)
    (fuel : Nat) (nJobs : Nat) (sched : Nat → Nat → List Nat → List Nat) : Except PyErr (List (List Nat)) :=
  match constructSpanningTree n lt sv ord fuel with
  | .error e => .error e
  | .ok t =>
    match getChains n t.sup sv fuel with
    | .error e => .error e
    | .ok chains =>
      if nJobs == 1 then .ok (fromSpanningTree n lt sv ord chains)
      else .ok (fromSpanningTreePar n lt sv ord chains nJobs sched)

/-! ### `order_extents_comparison` — specification level

`caspailleur.order` is third-party: `topological_sorting` returns the list sorted ascending together
with `id_to_topo_map` (original index ↦ sorted index), and `inverse_order(sort_intents_inclusion(·))`
returns for every sorted index the sorted indexes of its lower covers (its contract on
intersection-closed families, i.e. complete concept sets).  The model takes the permutation and the
cover function of the *sorted* list as given and performs the index translation of the dict
comprehension `{topo_to_id[i]: {topo_to_id[s] for s in subs[i]}}`. -/

def orderExtentsComparison (n : Nat) (idToTopo : List Nat) (coversTopo : Nat → List Nat) :
    List (Nat × List Nat) :=
  let topoToId := fun t => idToTopo.idxOf t     -- `{v: k for k, v in enumerate(id_to_topo_map)}`
  (List.range n).map fun iTopo => (topoToId iTopo, (coversTopo iTopo).map topoToId)

/-- read the resulting dictionary at key `i` -/
def dictGet (d : List (Nat × List Nat)) (i : Nat) : List Nat := (d.lookup i).getD []

/-! ### `get_top_bottom_concepts_i` (unsorted path) -/

structure TB where
  top : Nat
  bot : Nat
  multTop : Bool
  multBot : Bool

def topBottomStep (supp : Nat → Nat) (s : TB) (i : Nat) : TB :=
  let s1 : TB := { s with multTop := s.multTop || supp i == supp s.top,
                          multBot := s.multBot || supp i == supp s.bot }
  let s2 : TB := if supp i > supp s1.top then { s1 with top := i, multTop := false } else s1
  if supp i < supp s2.bot then { s2 with bot := i, multBot := false } else s2

/-- `(top_concept_i, bottom_concept_i)`, each `None` when the extreme support occurs twice -/
def getTopBottom (n : Nat) (supp : Nat → Nat) : Option Nat × Option Nat :=
  let s := ((List.range n).drop 1).foldl (topBottomStep supp) ⟨0, 0, false, false⟩
  (if s.multTop then none else some s.top, if s.multBot then none else some s.bot)

/-! ### `add_concept` -/

/-- the two breadth-first searches of `add_concept`: `adj` = `subconcepts_dict` (resp. `superconcepts_dict`),
    `good s` = `new_concept < concepts[s]` (resp. `>`).  `queue.pop(0)`, `visited.add`, then either the
    good neighbours that are not yet visited are appended (in set order) or the node is a direct one. -/
def bfsDirect (adj : List (List Nat)) (good : Nat → Bool) (ord : List Nat → List Nat) :
    Nat → List Nat → List Nat → List Nat → Except PyErr (List Nat)
  | _, [], _, direct => .ok direct
  | 0, _ :: _, _, _ => .error .OutOfFuel
  | fuel + 1, c :: queue, visited, direct =>
    let visited' := addSet visited c
    match adj[c]? with
    | none => .error .KeyError
    | some nb =>
      let goodNb := nb.filter good
      if goodNb.length > 0 then
        bfsDirect adj good ord fuel (queue ++ ord (diff goodNb visited')) visited' direct
      else
        bfsDirect adj good ord fuel queue visited' (addSet direct c)

/-- what `add_concept` returns (the concept list itself is `cs ++ [new]`) -/
structure Rel where
  sub : List (List Nat)
  sup : List (List Nat)
  top : Option Nat
  bot : Option Nat
  deriving Repr, BEq

/-- the top / bottom indexes `add_concept` works with: the given ones, unless one is `None` or they are
    "weird" (`new > concepts[top]` or `new < concepts[bottom]`), in which case they are recomputed -/
def addTopBottom (cs : List Ext) (new : Ext) (r : Rel) : Option Nat × Option Nat :=
  match r.top, r.bot with
  | some t, some b =>
    if ltC (cs.getD t []) new || ltC new (cs.getD b []) then getTopBottom cs.length (suppAt cs)
    else (some t, some b)
  | _, _ => getTopBottom cs.length (suppAt cs)

/-- `(direct_superconcepts, direct_subconcepts, top_concept_i, bottom_concept_i)` of the three-way branch -/
def addDirect (cs : List Ext) (new : Ext) (r : Rel) (ord : List Nat → List Nat) (fuel t b : Nat) :
    Except PyErr (List Nat × List Nat × Nat × Nat) :=
  if ltC (cs.getD t []) new then .ok ([], [t], cs.length, b)
  else if ltC new (cs.getD b []) then .ok ([b], [], t, cs.length)
  else
    match bfsDirect r.sub (fun s => ltC new (cs.getD s [])) ord fuel [t] [] [] with
    | .error e => .error e
    | .ok dsup =>
      match bfsDirect r.sup (fun s => ltC (cs.getD s []) new) ord fuel [b] [] [] with
      | .error e => .error e
      | .ok dsub => .ok (dsup, dsub, t, b)

/-- the two update loops and the new entries -/
def addFinish (r : Rel) (ord : List Nat → List Nat) (newI : Nat) (dsup dsub : List Nat) (t' b' : Nat) : Rel :=
  let sub1 := (ord dsup).foldl (fun d s => d.set s (addSet (diff (d.getD s []) dsub) newI)) r.sub
  let sup1 := (ord dsub).foldl (fun d s => d.set s (addSet (diff (d.getD s []) dsup) newI)) r.sup
  ⟨sub1 ++ [dsub], sup1 ++ [dsup], some t', some b'⟩

/-- `add_concept(new_concept, concepts, subconcepts_dict, superconcepts_dict, top_concept_i, bottom_concept_i)` -/
def addConcept (cs : List Ext) (new : Ext) (r : Rel) (ord : List Nat → List Nat) (fuel : Nat) :
    Except PyErr Rel :=
  if cs.any (fun c => eqC new c) then .error .AssertionError
  else if cs.length < 2 then .error .AssertionError
  else
    match addTopBottom cs new r with
    | (some t, some b) =>
      match addDirect cs new r ord fuel t b with
      | .error e => .error e
      | .ok (dsup, dsub, t', b') => .ok (addFinish r ord cs.length dsup dsub t' b')
    | _ => .error .AssertionError

/-! ### `get_all_superconcepts_dict` / `get_all_subconcepts_dict` -/

/-- `ancestors[c] |= ancestors[p]`; `KeyError` when `ancestors[p]` is not there yet -/
def closureStep (acc : List (Nat × List Nat)) (r : Except PyErr (List Nat)) (p : Nat) :
    Except PyErr (List Nat) :=
  match r with
  | .error e => .error e
  | .ok cur =>
    match acc.lookup p with
    | none => .error .KeyError
    | some a => .ok (union cur a)

/-- `ancestors[c] = parents[c].copy(); for p in parents[c]: ancestors[c] |= ancestors[p]`
    over `order`; a partial dictionary (association list) -/
def closureDict (parents : List (List Nat)) (ord : List Nat → List Nat) :
    List Nat → List (Nat × List Nat) → Except PyErr (List (Nat × List Nat))
  | [], acc => .ok acc
  | c :: rest, acc =>
    match parents[c]? with
    | none => .error .KeyError
    | some ps =>
      match (ord ps).foldl (closureStep acc) (.ok ps) with
      | .error e => .error e
      | .ok a => closureDict parents ord rest ((c, a) :: acc)

/-- `sorted(range(n), key=lambda c_i: -support)` resp. `key=support` (stable) -/
def bySupportDesc (n : Nat) (supp : Nat → Nat) : List Nat :=
  sortBy (fun a b => decide (supp b ≤ supp a)) (List.range n)
def bySupportAsc (n : Nat) (supp : Nat → Nat) : List Nat :=
  sortBy (fun a b => decide (supp a ≤ supp b)) (List.range n)

/-! ### `remove_concept` -/

/-- the transitive-reduction loop
    `for c_i in sorted(S, key): if c_i not in S: continue; S -= closure[c_i]` -/
def pruneBy (closure : List (Nat × List Nat)) : List Nat → List Nat → Except PyErr (List Nat)
  | [], S => .ok S
  | c :: rest, S =>
    if !S.contains c then pruneBy closure rest S
    else match closure.lookup c with
      | none => .error .KeyError
      | some a => pruneBy closure rest (diff S a)

def decrement (c thr : Nat) : Nat := if c ≥ thr then c - 1 else c

/-- body of one reconnection loop of `remove_concept`:
    `d[x] -= {ci}; d[x] |= others` (first loop) resp. `d[x] |= others - {x}` (second loop, `minusSelf`),
    then the pruning loop over `sorted(d[x], key)` (`le` = the key order, stable on the set order) -/
def reconnect (closure : List (Nat × List Nat)) (le : Nat → Nat → Bool) (ord : List Nat → List Nat)
    (ci : Nat) (others : List Nat) (minusSelf : Bool) (d : List (List Nat)) (x : Nat) :
    Except PyErr (List (List Nat)) :=
  let s1 := union (diff (d.getD x []) [ci]) (if minusSelf then diff others [x] else others)
  match pruneBy closure (sortBy le (ord s1)) s1 with
  | .error e => .error e
  | .ok s2 => .ok (d.set x s2)

def reconnectAll (closure : List (Nat × List Nat)) (le : Nat → Nat → Bool) (ord : List Nat → List Nat)
    (ci : Nat) (others : List Nat) (minusSelf : Bool) :
    List Nat → List (List Nat) → Except PyErr (List (List Nat))
  | [], d => .ok d
  | x :: rest, d =>
    match reconnect closure le ord ci others minusSelf d x with
    | .error e => .error e
    | .ok d' => reconnectAll closure le ord ci others minusSelf rest d'

/-- `del d[concept_i]` and the index shift `{decrement(k): {decrement(v) …}}` -/
def reindex (ci : Nat) (d : List (List Nat)) : List (List Nat) :=
  (d.eraseIdx ci).map fun s => s.map fun v => decrement v ci

/-- the top / bottom indexes `remove_concept` works with (recomputed when one is `None` or the removed
    concept is above the given top / below the given bottom) -/
def remTopBottom (cs : List Ext) (ci : Nat) (r : Rel) : Option Nat × Option Nat :=
  match r.top, r.bot with
  | some t, some b =>
    if ltC (cs.getD t []) (cs.getD ci []) || ltC (cs.getD ci []) (cs.getD b []) then
      getTopBottom cs.length (suppAt cs)
    else (some t, some b)
  | _, _ => getTopBottom cs.length (suppAt cs)

/-- `if concept_i == top_concept_i: top_concept_i = list(subconcepts)[0] if len(subconcepts) == 1 else None;
    assert top_concept_i is not None` (and the same for the bottom with the superconcepts) -/
def remExtreme (cur : Option Nat) (ci : Nat) (nbrs : List Nat) : Except PyErr (Option Nat) :=
  if cur == some ci then
    match nbrs with
    | [x] => .ok (some x)
    | _ => .error .AssertionError
  else .ok cur

/-- `remove_concept(concept_i, concepts, subconcepts_dict, superconcepts_dict, top_concept_i, bottom_concept_i)`;
    the reduced concept list is `cs.eraseIdx ci`.  Assumes (as every caller guarantees) that `ci` is not a
    member of its own relation sets, so that the aliasing `superconcepts = superconcepts_dict[concept_i]`
    is never written through. -/
def removeConcept (cs : List Ext) (ci : Nat) (r : Rel) (ord : List Nat → List Nat) : Except PyErr Rel :=
  if !(ci < cs.length) then .error .AssertionError
  else if cs.length < 3 then .error .AssertionError
  else
    let n := cs.length
    match r.sup[ci]?, r.sub[ci]? with
    | some supers, some subs =>
      match remExtreme (remTopBottom cs ci r).1 ci subs with
      | .error e => .error e
      | .ok top2 =>
      match remExtreme (remTopBottom cs ci r).2 ci supers with
      | .error e => .error e
      | .ok bot2 =>
      match closureDict r.sup ord (bySupportDesc n (suppAt cs)) [] with
      | .error e => .error e
      | .ok allSuper =>
      match closureDict r.sub ord (bySupportAsc n (suppAt cs)) [] with
      | .error e => .error e
      | .ok allSub =>
      match reconnectAll allSub (fun a b => decide (suppAt cs b ≤ suppAt cs a)) ord ci subs false (ord supers) r.sub with
      | .error e => .error e
      | .ok sub1 =>
      match reconnectAll allSuper (fun a b => decide (suppAt cs a ≤ suppAt cs b)) ord ci supers true (ord subs) r.sup with
      | .error e => .error e
      | .ok sup1 =>
        .ok ⟨reindex ci sub1, reindex ci sup1, top2.map (decrement · ci), bot2.map (decrement · ci)⟩
    | _, _ => .error .KeyError

/-! ### entry points on extent lists -/

def completeComparisonC (cs : List Ext) (isSorted : Bool) (nJobs : Nat) (ord : List Nat → List Nat) :=
  completeComparison cs.length (ltAt cs) isSorted nJobs ord

/-- fuel for the tree walks: more than the largest support (enough on every list with a greatest concept,
    see `Lemmas/ConstructTree`), plus the number of concepts (enough for any tree, so that the driver can also
    be run on lists outside the scope of the property) -/
def walkFuel (cs : List Ext) : Nat := (cs.map List.length).foldl max 0 + cs.length + 1

/-- closed-form fuel for the two searches of `add_concept`: `B ^ W + 1` with `B` larger than every
    adjacency set and `W` larger than every support (see `Lemmas/ConstructAdd`: the queue may hold the same
    index many times, its potential `Σ B ^ support` strictly decreases) -/
def addFuel (cs : List Ext) (new : Ext) (r : Rel) : Nat :=
  let edges := (r.sub.map List.length).foldl (· + ·) 0 + (r.sup.map List.length).foldl (· + ·) 0
  (edges + 2) ^ (walkFuel (cs ++ [new])) + 1

def spanningTreeC (cs : List Ext) (isSorted : Bool) (ord : List Nat → List Nat) :=
  constructSpanningTree cs.length (ltAt cs) (sortView cs isSorted) ord (walkFuel cs)

def getChainsC (cs : List Ext) (supD : List (List Nat)) (isSorted : Bool) :=
  getChains cs.length supD (sortView cs isSorted) (walkFuel cs)

def bySpanningTreeC (cs : List Ext) (isSorted : Bool) (nJobs : Nat) (ord : List Nat → List Nat)
    (sched : Nat → Nat → List Nat → List Nat) :=
  bySpanningTree cs.length (ltAt cs) (sortView cs isSorted) ord (walkFuel cs) nJobs sched

end Fca.Construct

/-
  Fca.Model.PosetAlgebra — executable model of the set algebra of `fcapy.poset.POSet`
  (`__and__`, `__or__`, `__xor__`, `__sub__`, `_combine_caches`, `_combine_multiple_caches` of
  `fcapy/poset/poset.py` as they are on the tree now, after the `fix:` commits 94f7329 and 31f9dac).

  Built on the state type `St α` of `Fca.Model.Poset` (element list, cache flag, five caches as association
  lists).  An operator is a *pure* function of the two operand states (Python does not touch the operands; the
  harness checks that on the real objects) returning `Except PyErr (St α)`:

  * `assert self._leq_func == other.leq_func` — function identity is not expressible on `α → α → Bool`, so the
    outcome of the comparison is the explicit flag `sameLeq`; `false` ↦ `AssertionError`.
  * the element list of the result (`combineElems`): list comprehensions with `in` on the *lists*.
  * `s = POSet(elements, leq, use_cache=self._use_cache)`; `if self._use_cache: self._combine_multiple_caches(..)`.
    With an uncached first operand the result is a cache-free poset.  With a cached first and an *uncached*
    second operand the second operand has no `_cache_*` attributes; `_combine_multiple_caches` reads them as
    `other.__dict__.get(cache_name, {})`, i.e. as empty dictionaries (`St.cacheView`).
  * `_combine_caches`: the three index dictionaries (`comb_el_idx_map` is a dict comprehension over
    `enumerate`, i.e. the *last* position of an element wins — `dictIdx?`), the loop over both caches with
    `continue` on keys that do not map, values restricted to the indexes that map, union of set values on key
    collision (bool values: the later one wins).  The type sniffing on the first entry (`type(key)`,
    `type(value)`) selects the tuple/bool or the int/set branch; every cache of a `POSet` has uniformly typed
    entries (the leq cache: tuple ↦ bool, the four others: int ↦ set/frozenset), so the sniffing is static here:
    `combineLeq` is `_combine_caches` on a leq cache, `combineSet` on one of the other four, and the `TypeError`
    branches are unreachable.  (The early `return {}` for two empty caches is kept.)
  * `_combine_multiple_caches`: leq + the two closed relations combined; for `|` and `^`
    (`drop_notcommon_elements=True`) a closed entry is kept only for a common element whose relation is cached in
    BOTH operands; the direct relations are the maximal descendants / minimal ancestors of the combined closed
    entries (comparing with `leq_func` directly), only for the keys `_combine_caches` of the two direct caches
    produces.
-/
import Fca.Model.Poset
namespace Fca.Poset
open Fca

inductive SetOp where
  | and | or | xor | sub
  deriving DecidableEq, Repr

/-- `drop_notcommon_elements` as passed by the four operators -/
def SetOp.dropNotCommon : SetOp → Bool
  | .and => false
  | .or => true
  | .xor => true
  | .sub => false

section Algebra
variable {α : Type} [DecidableEq α]

/-- the element list of the result:
    `&`: `[x for x in A if x in B]`;  `|`: `A + [x for x in B if x not in A]`;
    `^`: `[x for x in A if x not in B] + [x for x in B if x not in A]`;  `-`: `[x for x in A if x not in B]` -/
def combineElems (op : SetOp) (A B : List α) : List α :=
  match op with
  | .and => A.filter fun x => x ∈ B
  | .or => A ++ B.filter fun x => x ∉ A
  | .xor => (A.filter fun x => x ∉ B) ++ B.filter fun x => x ∉ A
  | .sub => A.filter fun x => x ∉ B

/-- `{el: idx for idx, el in enumerate(l)}.get(e)`: the last position of `e` in `l` -/
def dictIdx? (e : α) : List α → Option Nat
  | [] => none
  | x :: xs =>
    match dictIdx? e xs with
    | some i => some (i + 1)
    | none => if e = x then some 0 else none

/-- `base_idx_comb_idx_map.get(i)` where
    `base_idx_comb_idx_map = {idx: comb_el_idx_map[el] for idx, el in enumerate(E) if el in comb_el_idx_map}` -/
def idxMap (E C : List α) (i : Nat) : Option Nat :=
  match E[i]? with
  | none => none
  | some el => dictIdx? el C

/-- a Python `set` built from a sequence: each member once -/
def toSet : List Nat → List Nat
  | [] => []
  | x :: xs => if x ∈ toSet xs then toSet xs else x :: toSet xs

/-- `d.items()`: every key once, with its current value -/
def items {κ β : Type} [DecidableEq κ] (c : List (κ × β)) : List (κ × β) :=
  (dedupKeys c).filterMap fun k => (alookup k c).map fun v => (k, v)

/-- the body of `_combine_caches`'s inner loop, for one base cache:
    ```
    for key, value in base_cache.items():
        comb_key = map_key_to_comb(key, ..); comb_value = map_value_to_comb(value, ..)
        if comb_key is None: continue
        if value_type in {set, frozenset} and comb_key in cache_combined: comb_value |= cache_combined[comb_key]
        cache_combined[comb_key] = comb_value
    ```
    `merge new old` is `new | old` for set values and `new` for bool values. -/
def combineLoop {κ β : Type} [DecidableEq κ] (mapK : κ → Option κ) (mapV : β → β) (merge : β → β → β) :
    List (κ × β) → List (κ × β) → List (κ × β)
  | acc, [] => acc
  | acc, (k, v) :: rest =>
    match mapK k with
    | none => combineLoop mapK mapV merge acc rest
    | some ck =>
      let cv := mapV v
      let cv := match alookup ck acc with
        | some old => merge cv old
        | none => cv
      combineLoop mapK mapV merge (ainsert ck cv acc) rest

/-- `map_key_to_comb` on a tuple key: every component must map -/
def mapPair (m : Nat → Option Nat) (k : Nat × Nat) : Option (Nat × Nat) :=
  match m k.1 with
  | none => none
  | some a =>
    match m k.2 with
    | none => none
    | some b => some (a, b)

/-- `map_value_to_comb` on a set value: `{m[idx] for idx in value if idx in m}` -/
def mapSet (m : Nat → Option Nat) (v : List Nat) : List Nat := toSet (v.filterMap m)

abbrev LeqCache := List ((Nat × Nat) × Bool)

/-- `_combine_caches` on two leq caches (tuple keys, bool values) -/
def combineLeq (ca : LeqCache) (EA : List α) (cb : LeqCache) (EB : List α) (C : List α) : LeqCache :=
  if ca.isEmpty && cb.isEmpty then []
  else
    let new := fun (n _o : Bool) => n
    combineLoop (mapPair (idxMap EB C)) id new
      (combineLoop (mapPair (idxMap EA C)) id new [] (items ca)) (items cb)

/-- `_combine_caches` on two int-keyed, set-valued caches -/
def combineSet (ca : Cache) (EA : List α) (cb : Cache) (EB : List α) (C : List α) : Cache :=
  if ca.isEmpty && cb.isEmpty then []
  else
    combineLoop (idxMap EB C) (mapSet (idxMap EB C)) setUnion
      (combineLoop (idxMap EA C) (mapSet (idxMap EA C)) setUnion [] (items ca)) (items cb)

/-- the test of the `drop_notcommon_elements` loop, `true` = the entry stays:
    ```
    el = poset_combined._elements[idx]
    if el not in elements_and or self.index(el) not in cacheA or other.index(el) not in cacheB: del cache_comb[idx]
    ``` -/
def keepE (a b : St α) (C : List α) (d : Dir) (idx : Nat) : Except PyErr Bool :=
  match C[idx]? with
  | none => .error .IndexError
  | some el =>
    if el ∈ a.elems ∧ el ∈ b.elems then          -- `elements_and = {x for x in A if x in B}`
      match dictIdx? el a.elems with                -- `self.index(el)`
      | none => .error .KeyError
      | some ia =>
        if (alookup ia (a.closed d)).isSome then
          match dictIdx? el b.elems with
          | none => .error .KeyError
          | some ib => .ok (alookup ib (b.closed d)).isSome
        else .ok false
    else .ok false

/-- `for idx in list(cache_comb): if <not keep>: del cache_comb[idx]` -/
def filterKeysE (keep : Nat → Except PyErr Bool) : Cache → Except PyErr Cache
  | [] => .ok []
  | p :: rest =>
    match keep p.1 with
    | .error e => .error e
    | .ok b =>
      match filterKeysE keep rest with
      | .error e => .error e
      | .ok r => .ok (if b then p :: r else r)

/-- the comparison made for a candidate `i` against `j`: `leq(elements[i], elements[j])` (children) /
    `leq(elements[j], elements[i])` (parents) -/
def leqDirNocache (leq : α → α → Bool) (d : Dir) (C : List α) (i j : Nat) : Except PyErr Bool :=
  match d with
  | .desc => leqNocache leq C i j
  | .anc => leqNocache leq C j i

/-- `any(leq(elements[i], elements[j]) for j in rels if j != i)` (children) /
    `any(leq(elements[j], elements[i]) …)` (parents); stops at the first `True` -/
def dominatedE (leq : α → α → Bool) (d : Dir) (C : List α) (i : Nat) : List Nat → Except PyErr Bool
  | [] => .ok false
  | j :: js =>
    if j = i then dominatedE leq d C i js
    else
      match leqDirNocache leq d C i j with
      | .error e => .error e
      | .ok true => .ok true
      | .ok false => dominatedE leq d C i js

/-- `{i for i in rels if not any(...)}`: the maximal descendants / minimal ancestors -/
def maximalE (leq : α → α → Bool) (d : Dir) (C : List α) (rels : List Nat) : List Nat → Except PyErr (List Nat)
  | [] => .ok []
  | i :: is =>
    match dominatedE leq d C i rels with
    | .error e => .error e
    | .ok b =>
      match maximalE leq d C rels is with
      | .error e => .error e
      | .ok r => .ok (if b then r else i :: r)

/-- ```
    cache_comb = {}
    for idx, rels in poset_combined.__dict__[closed_name].items():
        if idx not in keys_cached: continue
        cache_comb[idx] = {maximal elements of rels}
    ``` -/
def directLoop (leq : α → α → Bool) (d : Dir) (C : List α) (keysCached : List Nat) :
    Cache → List (Nat × List Nat) → Except PyErr Cache
  | acc, [] => .ok acc
  | acc, (idx, rels) :: rest =>
    if idx ∈ keysCached then
      match maximalE leq d C rels rels with
      | .error e => .error e
      | .ok dir => directLoop leq d C keysCached (ainsert idx dir acc) rest
    else directLoop leq d C keysCached acc rest

/-- the closed relation of direction `d` of the result -/
def combineClosed (op : SetOp) (a b : St α) (C : List α) (d : Dir) : Except PyErr Cache :=
  let cc := combineSet (a.closed d) a.elems (b.closed d) b.elems C
  if op.dropNotCommon then filterKeysE (keepE a b C d) cc else .ok cc

/-- the direct relation of direction `d` of the result, from the combined closed relation `cl` -/
def combineDirect (leq : α → α → Bool) (a b : St α) (C : List α) (d : Dir) (cl : Cache) : Except PyErr Cache :=
  let keysCached := dedupKeys (combineSet (a.direct d) a.elems (b.direct d) b.elems C)
  directLoop leq d C keysCached [] (items cl)

/-- `_combine_multiple_caches(other, poset_combined, drop_notcommon_elements)`; `b` is the second operand's
    cache view -/
def combineMulti (leq : α → α → Bool) (op : SetOp) (a b : St α) (C : List α) : Except PyErr (St α) :=
  let lq := combineLeq a.leqC a.elems b.leqC b.elems C
  match combineClosed op a b C .desc with
  | .error e => .error e
  | .ok de =>
    match combineClosed op a b C .anc with
    | .error e => .error e
    | .ok an =>
      match combineDirect leq a b C .desc de with
      | .error e => .error e
      | .ok ch =>
        match combineDirect leq a b C .anc an with
        | .error e => .error e
        | .ok pa => .ok ⟨C, true, lq, de, an, ch, pa⟩

/-- the caches of the second operand as `_combine_multiple_caches` sees them:
    `other.__dict__.get(cache_name, {})` - an uncached poset has no cache dictionaries, they read as empty -/
def St.cacheView (b : St α) : St α := if b.useCache then b else init b.elems false

/-- `a & b`, `a | b`, `a ^ b`, `a - b` -/
def combine (leq : α → α → Bool) (op : SetOp) (sameLeq : Bool) (a b : St α) : Except PyErr (St α) :=
  if sameLeq then
    let C := combineElems op a.elems b.elems
    if a.useCache then combineMulti leq op a b.cacheView C
    else .ok (init C false)
  else .error .AssertionError

/-- the same with the operands threaded through, as a method call on two mutable objects would be:
    returns the operand states after the call and the result -/
def combineP (leq : α → α → Bool) (op : SetOp) (sameLeq : Bool) (ab : St α × St α) :
    (St α × St α) × Except PyErr (St α) :=
  (ab, combine leq op sameLeq ab.1 ab.2)

end Algebra
end Fca.Poset

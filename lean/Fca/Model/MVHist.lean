/-
  Fca.Model.MVHist — two further pieces of `MVContext` (`fcapy/mvcontext/mvcontext.py`) for property C14:

  * `binarize()` WITH the names of the binary attributes.  `to_bin_attr_extents()` yields `(name, extent)` pairs;
    `binarize()` unzips them into two parallel tuples (`zip(*list(...))`), so a name is only a label of a position.
    The names themselves are `describe_pattern(...)` strings (`repr` of floats, `str` of arbitrary values joined by
    `', '`): they are data to the model — a function `nm column position ↦ name`, about which nothing is assumed
    (in particular NOT that it is injective: `{'a','b'}` and `{'a, b'}` are both called `"s: a, b"`).
  * histories of ONE context object: the public mutators (`ps.data = …`, an in-place edit of `ps.data[i]`,
    `K.pattern_structures = […]`, `K.object_names = […]`) and queries in between.  `MVContext` and the shipped pattern
    structures keep no memo, so a query leaves the state as it is.
  No Mathlib.
-/
import Fca.Model.MVContext
namespace Fca.MV

/-- one cell of a column, as the structure stores it (`_transform_data`) -/
inductive Cell where
  | iv (p : Int × Int)
  | sv (s : List Nat)
  | bv (b : Bool)
  deriving Repr, DecidableEq, Inhabited

namespace Col

/-- `ps.data[i] = v` on the structure's own storage; a value of another shape is outside the documented API
    (the model leaves the column as it is) -/
def setCell : Col → Nat → Cell → Col
  | interval d, i, .iv p => interval (d.set i p)
  | set d, i, .sv s => set (d.set i s)
  | attr d, i, .bv b => attr (d.set i b)
  | c, _, _ => c

end Col

namespace MVCtx

/-- `MVContext.to_bin_attr_extents()`: the `(name, extent)` pairs in the order they are yielded -/
def binAttrNamed (K : MVCtx) (nm : Nat → Nat → String) : List (String × List Bool) :=
  K.cols.zipIdx.flatMap fun cj => cj.1.binAttrExtents.zipIdx.map fun ek => (nm cj.2 ek.2, ek.1)

/-- the binarised `FormalContext` with its attribute names -/
structure NamedBinCtx where
  table : Table
  objNames : List String
  attrNames : List String
  deriving Repr, Inhabited

/-- `MVContext.binarize()`:
    `attr_names, attr_extents = zip(*list(self.to_bin_attr_extents()))`,
    `K = FormalContext(list(attr_extents)).T`, `K.object_names = self.object_names`, `K.attribute_names = attr_names` -/
def binarizeNamed (K : MVCtx) (nm : Nat → Nat → String) : Except PyErr NamedBinCtx :=
  let pairs := K.binAttrNamed nm
  if pairs.isEmpty then .error .ValueError
  else .ok ⟨tr (Table.ofRows (pairs.map (·.2))), K.objNames, pairs.map (·.1)⟩

/-! ### histories -/

/-- what a caller can ask (the answers are computed by the functions of `Model/MVContext`) -/
inductive Query where
  | nBinAttrs | binarize | toBinAttrExtents
  | intention (A : List Nat) | extension (d : Desc) (base : Option (List Nat)) | closure (A : List Nat)
  | lattice (thr : Nat)
  deriving Repr

/-- one step in the life of a context object -/
inductive Step where
  | query (q : Query)
  | setData (j : Nat) (c : Col)                 -- `K.pattern_structures[j].data = values`
  | setCell (j i : Nat) (v : Cell)              -- `K.pattern_structures[j].data[i] = value` (in place)
  | setPS (cols : List Col)                     -- `K.pattern_structures = [...]`
  | setObjNames (ns : List String)              -- `K.object_names = [...]`
  deriving Repr

/-- the state after one step; a query changes nothing (there is no memo in the code) -/
def step (K : MVCtx) : Step → MVCtx
  | .query _ => K
  | .setData j c => { K with cols := K.cols.set j c }
  | .setCell j i v => { K with cols := K.cols.modify j fun c => c.setCell i v }
  | .setPS cols => { K with cols := cols }
  | .setObjNames ns => { K with objNames := ns }

def run (K : MVCtx) (steps : List Step) : MVCtx := steps.foldl step K

/-- the step is one the setters accept: a new column has one value per object (`assert len(value) == len(self._data)`),
    a new list of structures is non-empty and each has one value per object, names come one per object -/
def Step.Valid (K : MVCtx) : Step → Prop
  | .query _ => True
  | .setData _ c => c.len = K.nObjects
  | .setCell _ _ _ => True
  | .setPS cols => cols ≠ [] ∧ ∀ c ∈ cols, c.len = K.nObjects
  | .setObjNames ns => ns.length = K.nObjects

instance (K : MVCtx) (s : Step) : Decidable (s.Valid K) := by
  cases s <;> unfold Step.Valid <;> infer_instance

/-- every step is valid in the state in which it is executed -/
def HistValid (K : MVCtx) : List Step → Prop
  | [] => True
  | s :: rest => s.Valid K ∧ HistValid (K.step s) rest

instance decHistValid : (K : MVCtx) → (steps : List Step) → Decidable (K.HistValid steps)
  | _, [] => isTrue trivial
  | K, s :: rest =>
    have := decHistValid (K.step s) rest
    by unfold HistValid; infer_instance

end MVCtx
end Fca.MV

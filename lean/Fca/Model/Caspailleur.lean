/-
  Fca.Model.Caspailleur — code-shaped executable model of the third-party pure-Python routines of
  `caspailleur` (`/venv/lib/python3.12/site-packages/caspailleur/{order,io}.py`) that
  `fcapy/algorithms/lattice_construction.py::order_extents_comparison` calls, and of that function itself:

    `isets2bas`, `topological_sorting`, `check_topologically_sorted` (= deprecated alias
    `test_topologically_sorted`), `sort_intents_inclusion`, `inverse_order`, `order_extents_comparison`.

  A `bitarray` / `frozenbitarray` is a `List Bool` (`Bits`) of its length; `a.search(True)` is
  `Fca.search1`, `a.find(True)` is `find1` (`none` for `-1`), `a.count()` is `count1`; `&`, `|`, `~` are
  `band`, `bor`, `bnot` (position-wise; every use below combines arrays of one length, see the guards of
  `sortIntentsInclusion`).  Loops are structural recursions / folds over the iterated sequence.
  No Mathlib (the driver is linked natively).
-/
import Fca.Model.Basic
import Fca.Spec.Covers
namespace Fca.Casp

abbrev Bits := List Bool

def zeros (n : Nat) : Bits := List.replicate n false
def ones (n : Nat) : Bits := List.replicate n true
def band (a b : Bits) : Bits := List.zipWith (· && ·) a b
def bor (a b : Bits) : Bits := List.zipWith (· || ·) a b
def bnot (a : Bits) : Bits := a.map (!·)
/-- `a[i]` for an in-range `i` (`false` otherwise) -/
def bit (a : Bits) (i : Nat) : Bool := a.getD i false
/-- `a.count()` -/
def count1 (a : Bits) : Nat := a.count true

/-- `a.find(True)`; `none` stands for `-1` -/
def find1 : Bits → Option Nat
  | [] => none
  | true :: _ => some 0
  | false :: r => (find1 r).map (· + 1)

/-- `t[r][c] = True` on a list of bitarrays (total: nothing happens out of range; every caller below is
    guarded so that the write is in range whenever the Python statement does not raise) -/
def setCell (t : List Bits) (r c : Nat) : List Bits := t.set r ((t.getD r []).set c true)

/-- `t[r][c]` -/
def cell (t : List Bits) (r c : Nat) : Bool := bit (t.getD r []) c

/-! ### `caspailleur.io.isets2bas` (called through the deprecated wrapper `caspailleur.base_functions.isets2bas`,
     which only forwards its two arguments) -/

/-- `bar = bazeros(length); for m in iset: bar[m] = True` — `IndexError` for `m ≥ len(bar)` -/
def isetToBa : List Nat → Bits → Except PyErr Bits
  | [], bar => .ok bar
  | m :: ms, bar => if m < bar.length then isetToBa ms (bar.set m true) else .error .IndexError

/-- `list(isets2bas(itemsets, length))` -/
def isets2bas : List (List Nat) → Nat → Except PyErr (List Bits)
  | [], _ => .ok []
  | s :: r, len =>
    match isetToBa s (zeros len) with
    | .error e => .error e
    | .ok b =>
      match isets2bas r len with
      | .error e => .error e
      | .ok bs => .ok (b :: bs)

/-! ### `topological_sorting` -/

/-- Python's `<` on tuples of ints -/
def lexLt : List Nat → List Nat → Bool
  | [], [] => false
  | [], _ :: _ => true
  | _ :: _, [] => false
  | a :: as, b :: bs => a < b || (a == b && lexLt as bs)

/-- `key(a) ≤ key(b)` for `key = lambda el: (el.count() * ascending, tuple(el.search(True)))`
    (`ascending = ±1`: the count component is compared reversed when `asc = false`) -/
def keyLe (asc : Bool) (a b : Bits) : Bool :=
  let ca := if asc then count1 a else count1 b
  let cb := if asc then count1 b else count1 a
  ca < cb || (ca == cb && !(lexLt (search1 b) (search1 a)))

/-- insert before the first element whose key is not smaller (keeps equal keys in input order) -/
def insertSorted (asc : Bool) (x : Bits) : List Bits → List Bits
  | [] => [x]
  | y :: r => if keyLe asc x y then x :: y :: r else y :: insertSorted asc x r

/-- `sorted(elements, key=…)` — a stable sort (the result of a stable sort is unique) -/
def stableSort (asc : Bool) : List Bits → List Bits
  | [] => []
  | x :: r => insertSorted asc x (stableSort asc r)

/-- `d[x]` for `d = {el: i for i, el in enumerate(l)}` with `i` starting at `k`: the LAST position of `x`
    (a later duplicate overwrites an earlier one) -/
def lastIdxFrom {α : Type} [DecidableEq α] : List α → Nat → α → Option Nat
  | [], _, _ => none
  | y :: ys, i, x =>
    match lastIdxFrom ys (i + 1) x with
    | some k => some k
    | none => if y = x then some i else none

def lastIdx? {α : Type} [DecidableEq α] (l : List α) (x : α) : Option Nat := lastIdxFrom l 0 x

/-- `[d[x] for x in xs]`, `KeyError` on the first missing key -/
def lookupAll {α : Type} [DecidableEq α] (l : List α) : List α → Except PyErr (List Nat)
  | [] => .ok []
  | x :: xs =>
    match lastIdx? l x with
    | none => .error .KeyError
    | some i =>
      match lookupAll l xs with
      | .error e => .error e
      | .ok is => .ok (i :: is)

/-- `topological_sorting(elements, ascending)` → `(ars_topsort, orig_to_topsort_indices_map)` -/
def topologicalSorting (elements : List Bits) (asc : Bool := true) : Except PyErr (List Bits × List Nat) :=
  let arsTopsort := stableSort asc elements
  match lookupAll arsTopsort elements with
  | .error e => .error e
  | .ok m => .ok (arsTopsort, m)

/-! ### `check_topologically_sorted` -/

/-- `all(a.count() <= b.count() for a, b in zip(elements, elements[1:]))` (resp. `>=`) -/
def checkTopologicallySorted (asc : Bool := true) : List Bits → Bool
  | a :: b :: r =>
    (if asc then decide (count1 a ≤ count1 b) else decide (count1 a ≥ count1 b)) &&
      checkTopologicallySorted asc (b :: r)
  | _ => true

/-! ### the scatter loop shared by `sort_intents_inclusion` (`attrs_descendants`) and `inverse_order` -/

/-- `for j in js: t[j][i] = True` -/
def scatterRow (i : Nat) : List Nat → List Bits → List Bits
  | [], t => t
  | j :: js, t => scatterRow i js (setCell t j i)

/-- `for i, row in enumerate(rows, start=i): for j in row.search(True): t[j][i] = True` -/
def scatter : List Bits → Nat → List Bits → List Bits
  | [], _, t => t
  | row :: rows, i, t => scatter rows (i + 1) (scatterRow i (search1 row) t)

/-! ### `sort_intents_inclusion` -/

/-- `common_descendants = ~zero_intents; for m in intent.search(True): common_descendants &= attrs_descendants[m]` -/
def commonDescendants (ad : List Bits) (n : Nat) (intent : Bits) : Bits :=
  (search1 intent).foldl (fun c m => band c (ad.getD m [])) (ones n)

/-- the `for new_m in (all_attrs & ~intent).search(True)` loop:
    `meet_idx = (common & attrs_descendants[new_m]).find(True)`; `-1` → `continue`; `children[meet_idx] = True` -/
def childrenOf (ad : List Bits) (n nAttrs : Nat) (intent common : Bits) : Bits :=
  (search1 (band (ones nAttrs) (bnot intent))).foldl
    (fun ch newM =>
      match find1 (band common (ad.getD newM [])) with
      | none => ch
      | some meetIdx => ch.set meetIdx true)
    (zeros n)

/-- `trans_children = zeros; for child in children.search(True): trans_children |= trans_lattice[child]` -/
def transChildren (trans : List Bits) (n : Nat) (children : Bits) : Bits :=
  (search1 children).foldl (fun t child => bor t (trans.getD child [])) (zeros n)

/-- one iteration of the main loop; the state is `(lattice, trans_lattice)` -/
def siStep (intents ad : List Bits) (n nAttrs : Nat) (st : List Bits × List Bits) (intentI : Nat) :
    List Bits × List Bits :=
  let intent := intents.getD intentI []
  let common := commonDescendants ad n intent
  let children := childrenOf ad n nAttrs intent common
  let tc := transChildren st.2 n children
  (st.1.set intentI (band children (bnot tc)), st.2.set intentI (bor children tc))

/-- `sort_intents_inclusion(intents, return_transitive_order=True)` → `(lattice, trans_lattice)`.

    Failures, in the order Python meets them: the `assert`; `intents[0]` on an empty list (`IndexError`);
    an intent with a set bit at a position `≥ n_attrs = len(intents[0])` makes `attrs_descendants[m]` raise
    `IndexError` in the first loop; otherwise an intent whose length differs from `n_attrs` makes
    `all_attrs & ~intent` raise `ValueError` ("bitarrays of equal length expected") in the main loop (every
    intent is visited there).  These two conditions are tested up front (same class, same precedence); when
    they pass, every indexed write of the loops is in range and all `&`/`|` combine arrays of length
    `n_intents`, so the loops use the total list operations. -/
def sortIntentsInclusion (intents : List Bits) : Except PyErr (List Bits × List Bits) :=
  if !checkTopologicallySorted true intents then .error .AssertionError
  else
    match intents with
    | [] => .error .IndexError
    | i0 :: _ =>
      let n := intents.length
      let nAttrs := i0.length
      if intents.any (fun it => (search1 it).any (fun m => decide (nAttrs ≤ m))) then .error .IndexError
      else if intents.any (fun it => it.length != nAttrs) then .error .ValueError
      else
        let ad := scatter intents 0 (List.replicate nAttrs (zeros n))
        .ok ((List.range n).reverse.foldl (siStep intents ad n nAttrs)
              (List.replicate n (zeros n), List.replicate n (zeros n)))

/-! ### `inverse_order` -/

/-- the `IndexError` condition of `inversed[el_j][el_i] = True`: `el_j ≥ len(order)` or `el_i ≥ len(order[0])` -/
def inverseBad (nRows len0 : Nat) : List Bits → Nat → Bool
  | [], _ => false
  | ordered :: r, elI =>
    (search1 ordered).any (fun elJ => decide (nRows ≤ elJ) || decide (len0 ≤ elI)) || inverseBad nRows len0 r (elI + 1)

/-- `inverse_order(order)`; `[]` for the empty list (the comprehension never evaluates `order[0]`) -/
def inverseOrder (order : List Bits) : Except PyErr (List Bits) :=
  match order with
  | [] => .ok []
  | o0 :: _ =>
    if inverseBad order.length o0.length order 0 then .error .IndexError
    else .ok (scatter order 0 (List.replicate order.length (zeros o0.length)))

/-! ### `fcapy.algorithms.lattice_construction.order_extents_comparison` -/

/-- `{topo_to_id_map[s] for s in subs_topo.search(True)}` with `topo_to_id_map = {v: k for k, v in
    enumerate(id_to_topo_map)}` (`KeyError` for a value that never occurs in `id_to_topo_map`); listed in
    `search` order (the dictionary is injective, so no two members coincide) -/
def translate (idToTopo : List Nat) : List Nat → Except PyErr (List Nat)
  | [] => .ok []
  | s :: r =>
    match lastIdx? idToTopo s with
    | none => .error .KeyError
    | some k =>
      match translate idToTopo r with
      | .error e => .error e
      | .ok ks => .ok (k :: ks)

/-- the final dict comprehension, as the list of its `(key, value)` pairs in iteration order (the keys are
    images of distinct positions under the injective `topo_to_id_map`, hence distinct: no pair overwrites
    another one) -/
def finalDict (idToTopo : List Nat) : List Bits → Nat → Except PyErr (List (Nat × List Nat))
  | [], _ => .ok []
  | subsTopo :: r, iTopo =>
    match lastIdx? idToTopo iTopo with
    | none => .error .KeyError
    | some k =>
      match translate idToTopo (search1 subsTopo) with
      | .error e => .error e
      | .ok vs =>
        match finalDict idToTopo r (iTopo + 1) with
        | .error e => .error e
        | .ok rest => .ok ((k, vs) :: rest)

/-- `max(len(c.extent_i) for c in concepts)`; `ValueError` on the empty list -/
def maxLen : List (List Nat) → Except PyErr Nat
  | [] => .error .ValueError
  | c :: r => .ok (r.foldl (fun m e => max m e.length) c.length)

/-- `order_extents_comparison(concepts)` on the extents `c.extent_i` of the concepts.
    NB `n_objects` is the largest extent LENGTH, not the largest object index + 1: an extent holding an
    index `≥ n_objects` makes `isets2bas` raise `IndexError`. -/
def orderExtentsComparisonCode (cs : List (List Nat)) : Except PyErr (List (Nat × List Nat)) :=
  match maxLen cs with
  | .error e => .error e
  | .ok nObjects =>
    match isets2bas cs nObjects with
    | .error e => .error e
    | .ok extentsBa =>
      match topologicalSorting extentsBa with
      | .error e => .error e
      | .ok (extentsBaTopo, idToTopo) =>
        if !checkTopologicallySorted true extentsBaTopo then .error .AssertionError
        else if extentsBaTopo.length != extentsBa.length then .error .AssertionError
        else
          match sortIntentsInclusion extentsBaTopo with
          | .error e => .error e
          | .ok (lattice, _) =>
            match inverseOrder lattice with
            | .error e => .error e
            | .ok subconceptsBaTopo => finalDict idToTopo subconceptsBaTopo 0

/-! ### decidable forms of the hypotheses under which the routine is specified -/

/-- no two listed extents are equal as sets -/
def distinctSetsB (cs : List (List Nat)) : Bool :=
  (List.range cs.length).all fun i => (List.range cs.length).all fun j =>
    i == j || !(Spec.sub (cs.getD i []) (cs.getD j []) && Spec.sub (cs.getD j []) (cs.getD i []))

/-- the intersection of any two listed extents is listed (as a set) -/
def interClosedB (cs : List (List Nat)) : Bool :=
  (List.range cs.length).all fun i => (List.range cs.length).all fun j =>
    (List.range cs.length).any fun k =>
      let a := cs.getD i []; let b := cs.getD j []; let c := cs.getD k []
      Spec.sub c a && Spec.sub c b && a.all fun x => !b.contains x || c.contains x

/-- every object index is smaller than the largest extent length (true whenever the family contains the
    full extent `{0..G-1}`) -/
def inRangeB (cs : List (List Nat)) : Bool :=
  match maxLen cs with
  | .error _ => false
  | .ok n => cs.all fun e => e.all fun x => decide (x < n)

end Fca.Casp

/-
  Fca.Lemmas.MeasuresLattice — order-theoretic core of C16 on a concept lattice given as data:
  a subset `S` of the extent `A` of a concept `(A, B)` fails to generate it (`S' ≠ B`) exactly when it lies
  inside the extent of some lower cover (child) of the concept.
-/
import Fca.Lemmas.MeasuresStab
import Mathlib.Data.List.Nodup
namespace Fca.Measures
open Fca Fca.Spec

/-! ### strict inclusion and lower covers -/

theorem subset_iff {a b : List Nat} : Spec.subset a b = true ↔ ∀ x ∈ a, x ∈ b := by
  simp [Spec.subset, List.all_eq_true]

theorem ssubset_iff {a b : List Nat} :
    ssubset a b = true ↔ (∀ x ∈ a, x ∈ b) ∧ ¬ (∀ x ∈ b, x ∈ a) := by
  simp [ssubset, List.all_eq_true]

theorem length_lt_of_ssubset {a b : List Nat} (ha : a.Nodup) (h : ssubset a b = true) :
    a.length < b.length := by
  obtain ⟨hab, hba⟩ := ssubset_iff.mp h
  have : ∃ x, x ∈ b ∧ x ∉ a := by
    apply Classical.byContradiction
    intro hne
    apply hba
    intro x hx
    apply Classical.byContradiction
    intro hxa
    exact hne ⟨x, hx, hxa⟩
  obtain ⟨x, hxb, hxa⟩ := this
  have hnd : (x :: a).Nodup := List.nodup_cons.mpr ⟨hxa, ha⟩
  have hsub : (x :: a) ⊆ b := by
    intro y hy
    rcases List.mem_cons.mp hy with rfl | hy
    · exact hxb
    · exact hab y hy
  have := hnd.length_le_of_subset hsub
  simp only [List.length_cons] at this
  omega

theorem mem_lowerCovers {exts : List (List Nat)} {i j : Nat} :
    j ∈ lowerCovers exts i ↔ j < exts.length ∧ ssubset (exts.getD j []) (exts.getD i []) = true ∧
      ∀ k, k < exts.length →
        ¬ (ssubset (exts.getD j []) (exts.getD k []) = true ∧ ssubset (exts.getD k []) (exts.getD i []) = true) := by
  simp only [lowerCovers, List.mem_filter, List.mem_range, Bool.and_eq_true, Bool.not_eq_true',
    List.any_eq_false, not_and, Bool.not_eq_true]

/-- in a finite family of duplicate-free sets, every member strictly below `exts[i]` lies under a lower
    cover of `exts[i]` -/
theorem exists_cover_above (exts : List (List Nat)) (hnd : ∀ k, k < exts.length → (exts.getD k []).Nodup)
    (i : Nat) : ∀ (d j0 : Nat), j0 < exts.length →
      ssubset (exts.getD j0 []) (exts.getD i []) = true →
      (exts.getD i []).length - (exts.getD j0 []).length = d →
      ∃ j, j ∈ lowerCovers exts i ∧ ∀ x ∈ exts.getD j0 [], x ∈ exts.getD j [] := by
  intro d
  induction d using Nat.strongRecOn with
  | _ d ih =>
    intro j0 hj0 hs hd
    by_cases hc : ∀ k, k < exts.length →
        ¬ (ssubset (exts.getD j0 []) (exts.getD k []) = true ∧ ssubset (exts.getD k []) (exts.getD i []) = true)
    · exact ⟨j0, mem_lowerCovers.mpr ⟨hj0, hs, hc⟩, fun x hx => hx⟩
    · have : ∃ k, k < exts.length ∧ ssubset (exts.getD j0 []) (exts.getD k []) = true
          ∧ ssubset (exts.getD k []) (exts.getD i []) = true := by
        apply Classical.byContradiction
        intro hne
        apply hc
        intro k hk hh
        exact hne ⟨k, hk, hh.1, hh.2⟩
      obtain ⟨k, hk, h1, h2⟩ := this
      have l1 := length_lt_of_ssubset (hnd j0 hj0) h1
      have l2 := length_lt_of_ssubset (hnd k hk) h2
      obtain ⟨j, hj, hsub⟩ := ih ((exts.getD i []).length - (exts.getD k []).length) (by omega) k hk h2 rfl
      exact ⟨j, hj, fun x hx => hsub x ((ssubset_iff.mp h1).1 x hx)⟩

/-! ### facts about a lattice that *is* the concept lattice of `t` -/

section
variable {t : Table} {L : Lattice} (h : IsLatticeOf t L)
include h

theorem isConcept_of_mem {c : List Nat × List Nat} (hc : c ∈ L.concepts) : isConcept t c.1 c.2 = true := by
  have := (h.mem c).mp hc
  exact (mem_allConcepts t).mp this

theorem isConcept_of_get {i : Nat} {A B : List Nat} (hi : L.concepts[i]? = some (A, B)) :
    isConcept t A B = true :=
  isConcept_of_mem h (c := (A, B)) (List.mem_of_getElem? hi)

omit h in
theorem exts_getD (L : Lattice) {j : Nat} {c : List Nat × List Nat} (hj : L.concepts[j]? = some c) :
    (L.concepts.map Prod.fst).getD j [] = c.1 := by
  simp [List.getD_eq_getElem?_getD, List.getElem?_map, hj]

omit h in
theorem get_of_lt (L : Lattice) {j : Nat} (hj : j < L.concepts.length) :
    ∃ c, L.concepts[j]? = some c := ⟨L.concepts[j], List.getElem?_eq_getElem hj⟩

theorem exts_nodup : ∀ k, k < (L.concepts.map Prod.fst).length → ((L.concepts.map Prod.fst).getD k []).Nodup := by
  intro k hk
  rw [List.length_map] at hk
  obtain ⟨c, hc⟩ := get_of_lt L hk
  rw [exts_getD L hc]
  have := isConcept_of_mem h (List.mem_of_getElem? hc)
  rw [← ((isConcept_iff t).mp this).1]
  exact extAll_nodup t _

/-- a child `j` of `i`: in range, its extent is a concept extent strictly inside `A` -/
theorem child_facts {i j : Nat} {A B : List Nat} (hi : L.concepts[i]? = some (A, B))
    (hj : j ∈ L.childrenOf i) :
    ∃ D E, L.concepts[j]? = some (D, E) ∧ isConcept t D E = true ∧ ssubset D A = true := by
  have hilt : i < L.concepts.length := by
    rcases Nat.lt_or_ge i L.concepts.length with hlt | hge
    · exact hlt
    · rw [List.getElem?_eq_none hge] at hi; cases hi
  have hm := (h.cmem i hilt j).mp hj
  obtain ⟨hjlt, hs, _⟩ := mem_lowerCovers.mp hm
  rw [List.length_map] at hjlt
  obtain ⟨⟨D, E⟩, hc⟩ := get_of_lt L hjlt
  refine ⟨D, E, hc, isConcept_of_get h hc, ?_⟩
  rw [exts_getD L hc, exts_getD L hi] at hs
  exact hs

/-- **non-generators lie under a child** (finite lattice: a closed proper subset of `A` is under a lower cover) -/
theorem nongen_under_child {i : Nat} {A B S : List Nat} (hi : L.concepts[i]? = some (A, B))
    (hSA : ∀ g ∈ S, g ∈ A) (hne : intAll t S ≠ B) :
    ∃ j D E, j ∈ L.childrenOf i ∧ L.concepts[j]? = some (D, E) ∧ ∀ g ∈ S, g ∈ D := by
  have hcon := isConcept_of_get h hi
  obtain ⟨hext, hint⟩ := (isConcept_iff t).mp hcon
  have hA : ∀ g ∈ A, g < t.height := by rw [← hext]; exact extAll_lt t
  have hS : ∀ g ∈ S, g < t.height := fun g hg => hA g (hSA g hg)
  have hilt : i < L.concepts.length := by
    rcases Nat.lt_or_ge i L.concepts.length with hlt | hge
    · exact hlt
    · rw [List.getElem?_eq_none hge] at hi; cases hi
  -- the closure of S is a concept extent, hence listed
  have hC : (closure t S, intAll t S) ∈ L.concepts :=
    (h.mem _).mpr ((mem_allConcepts t).mpr (isConcept_of_objs t hS))
  obtain ⟨j0, hj0lt, hj0⟩ := List.mem_iff_getElem.mp hC
  have hj0' : L.concepts[j0]? = some (closure t S, intAll t S) := by
    rw [List.getElem?_eq_getElem hj0lt, hj0]
  -- closure S ⊆ A
  have hclA : closure t A = A := by unfold closure; rw [hint, hext]
  have hCA : ∀ g ∈ closure t S, g ∈ A := by
    intro g hg
    have := closure_mono t hSA g hg
    rwa [hclA] at this
  -- A ⊄ closure S
  have hAC : ¬ ∀ g ∈ A, g ∈ closure t S := by
    intro hh
    apply hne
    rw [← intAll_closure t hS, ← hint]
    apply intAll_eq_of_mem_iff
    intro a _
    constructor
    · intro H g hg; exact H g (hh g hg)
    · intro H g hg; exact H g (hCA g hg)
  have hss : ssubset ((L.concepts.map Prod.fst).getD j0 []) ((L.concepts.map Prod.fst).getD i []) = true := by
    rw [exts_getD L hj0', exts_getD L hi]
    exact ssubset_iff.mpr ⟨hCA, hAC⟩
  obtain ⟨j, hjc, hsub⟩ := exists_cover_above (L.concepts.map Prod.fst) (exts_nodup h) i _ j0
    (by rw [List.length_map]; exact hj0lt) hss rfl
  have hjch : j ∈ L.childrenOf i := (h.cmem i hilt j).mpr hjc
  obtain ⟨D, E, hc, _, _⟩ := child_facts h hi hjch
  refine ⟨j, D, E, hjch, hc, ?_⟩
  intro g hg
  have := hsub g (by rw [exts_getD L hj0']; exact subset_closure t hS g hg)
  rwa [exts_getD L hc] at this

/-- **subsets of a child extent do not generate** -/
theorem under_child_nongen {i j : Nat} {A B D E S : List Nat} (hi : L.concepts[i]? = some (A, B))
    (hj : j ∈ L.childrenOf i) (hc : L.concepts[j]? = some (D, E)) (hSD : ∀ g ∈ S, g ∈ D) :
    intAll t S ≠ B := by
  intro heq
  obtain ⟨D', E', hc', hconD, hss⟩ := child_facts h hi hj
  rw [hc] at hc'
  cases hc'
  obtain ⟨hextA, hintA⟩ := (isConcept_iff t).mp (isConcept_of_get h hi)
  obtain ⟨hextD, hintD⟩ := (isConcept_iff t).mp hconD
  have hclD : closure t D = D := by unfold closure; rw [hintD, hextD]
  have hclS : closure t S = A := by unfold closure; rw [heq, hextA]
  have := closure_mono t hSD
  rw [hclD, hclS] at this
  exact (ssubset_iff.mp hss).2 this

end

/-! ### a concept has at most `|M|` lower covers -/

section
variable {t : Table} {L : Lattice} (h : IsLatticeOf t L)
include h

/-- every child owns an attribute outside `B` -/
theorem child_new_attr {i j : Nat} {A B D E : List Nat} (hi : L.concepts[i]? = some (A, B))
    (hj : j ∈ L.childrenOf i) (hc : L.concepts[j]? = some (D, E)) :
    ∃ a, a < t.width ∧ a ∉ B ∧ a ∈ E := by
  obtain ⟨D', E', hc', hconD, hss⟩ := child_facts h hi hj
  rw [hc] at hc'; cases hc'
  obtain ⟨hextA, hintA⟩ := (isConcept_iff t).mp (isConcept_of_get h hi)
  obtain ⟨hextD, hintD⟩ := (isConcept_iff t).mp hconD
  apply Classical.byContradiction
  intro hne
  have hEB : ∀ a ∈ E, a ∈ B := by
    intro a ha
    apply Classical.byContradiction
    intro hb
    have hw : a < t.width := by rw [← hintD] at ha; exact intAll_lt t a ha
    exact hne ⟨a, hw, hb, ha⟩
  have := extAll_antitone t hEB
  rw [hextA, hextD] at this
  exact (ssubset_iff.mp hss).2 this

/-- two children owning the same new attribute are the same child -/
theorem child_attr_inj {i j j' a : Nat} {A B D E D' E' : List Nat} (hi : L.concepts[i]? = some (A, B))
    (hj : j ∈ L.childrenOf i) (hc : L.concepts[j]? = some (D, E))
    (hj' : j' ∈ L.childrenOf i) (hc' : L.concepts[j']? = some (D', E'))
    (haw : a < t.width) (haB : a ∉ B) (haE : a ∈ E) (haE' : a ∈ E') : j = j' := by
  have hilt : i < L.concepts.length := by
    rcases Nat.lt_or_ge i L.concepts.length with hlt | hge
    · exact hlt
    · rw [List.getElem?_eq_none hge] at hi; cases hi
  obtain ⟨hextA, hintA⟩ := (isConcept_iff t).mp (isConcept_of_get h hi)
  -- X = A ∩ a' is a concept extent strictly inside A
  have hBw : ∀ b ∈ a :: B, b < t.width := by
    intro b hb
    rcases List.mem_cons.mp hb with rfl | hb
    · exact haw
    · rw [← hintA] at hb; exact intAll_lt t b hb
  have hX : (extAll t (a :: B), closureAttr t (a :: B)) ∈ L.concepts :=
    (h.mem _).mpr ((mem_allConcepts t).mpr (isConcept_of_attrs t hBw))
  obtain ⟨k, hklt, hk⟩ := List.mem_iff_getElem.mp hX
  have hk' : L.concepts[k]? = some (extAll t (a :: B), closureAttr t (a :: B)) := by
    rw [List.getElem?_eq_getElem hklt, hk]
  have hXA : ∀ g ∈ extAll t (a :: B), g ∈ A := by
    intro g hg
    rw [← hextA]
    exact extAll_antitone t (fun b hb => List.mem_cons_of_mem _ hb) g hg
  have hAX : ¬ ∀ g ∈ A, g ∈ extAll t (a :: B) := by
    intro hh
    apply haB
    rw [← hintA, mem_intAll]
    refine ⟨haw, fun g hg => ?_⟩
    exact ((mem_extAll t).mp (hh g hg)).2 a List.mem_cons_self
  have hssX : ssubset (extAll t (a :: B)) A = true := ssubset_iff.mpr ⟨hXA, hAX⟩
  -- every child owning `a` has the same members as X
  have key : ∀ (j : Nat) (D E : List Nat), j ∈ L.childrenOf i → L.concepts[j]? = some (D, E) → a ∈ E →
      ∀ g, g ∈ D ↔ g ∈ extAll t (a :: B) := by
    intro j D E hj hc haE
    obtain ⟨D₂, E₂, hc₂, hconD, hss⟩ := child_facts h hi hj
    rw [hc] at hc₂; cases hc₂
    obtain ⟨hextD, hintD⟩ := (isConcept_iff t).mp hconD
    have hDX : ∀ g ∈ D, g ∈ extAll t (a :: B) := by
      intro g hg
      have hgA : g ∈ A := (ssubset_iff.mp hss).1 g hg
      rw [← hextA, mem_extAll] at hgA
      rw [mem_extAll]
      refine ⟨hgA.1, fun b hb => ?_⟩
      rcases List.mem_cons.mp hb with rfl | hb
      · rw [← hextD, mem_extAll] at hg
        exact hg.2 _ haE
      · exact hgA.2 b hb
    have hm := (h.cmem i hilt j).mp hj
    obtain ⟨_, _, hno⟩ := mem_lowerCovers.mp hm
    have hno' := hno k (by rw [List.length_map]; exact hklt)
    rw [exts_getD L hc, exts_getD L hk', exts_getD L hi] at hno'
    have hXD : ∀ g ∈ extAll t (a :: B), g ∈ D := by
      apply Classical.byContradiction
      intro hn
      exact hno' ⟨ssubset_iff.mpr ⟨hDX, hn⟩, hssX⟩
    exact fun g => ⟨hDX g, hXD g⟩
  have k1 := key j D E hj hc haE
  have k2 := key j' D' E' hj' hc' haE'
  obtain ⟨hextD, hintD⟩ := (isConcept_iff t).mp (isConcept_of_get h hc)
  obtain ⟨hextD', hintD'⟩ := (isConcept_iff t).mp (isConcept_of_get h hc')
  have hDD : D = D' := by
    rw [← hextD, ← hextD']
    unfold extAll Spec.ext
    apply filter_eq_of_same_members
    intro g
    have e1 : g ∈ extAll t E ↔ g ∈ extAll t E' := by
      rw [hextD, hextD', k1 g, k2 g]
    exact e1
  have hEE : E = E' := by rw [← hintD, ← hintD', hDD]
  have hjlt : j < L.concepts.length := by
    rcases Nat.lt_or_ge j L.concepts.length with hlt | hge
    · exact hlt
    · rw [List.getElem?_eq_none hge] at hc; cases hc
  exact (List.getElem?_inj hjlt h.nodup).mp (by rw [hc, hc', hDD, hEE])

/-- `#children ≤ |M|` -/
theorem children_length_le_width {i : Nat} {A B : List Nat} (hi : L.concepts[i]? = some (A, B)) :
    (L.childrenOf i).length ≤ t.width := by
  have hilt : i < L.concepts.length := by
    rcases Nat.lt_or_ge i L.concepts.length with hlt | hge
    · exact hlt
    · rw [List.getElem?_eq_none hge] at hi; cases hi
  have hex : ∀ j, j ∈ L.childrenOf i → ∃ a, a < t.width ∧ a ∉ B ∧ a ∈ (L.concepts.getD j ([], [])).2 := by
    intro j hj
    obtain ⟨D, E, hc, _, _⟩ := child_facts h hi hj
    obtain ⟨a, h1, h2, h3⟩ := child_new_attr h hi hj hc
    refine ⟨a, h1, h2, ?_⟩
    simp [List.getD_eq_getElem?_getD, hc, h3]
  let f : Nat → Nat := fun j =>
    if hj : j ∈ L.childrenOf i then Classical.choose (hex j hj) else 0
  have hf : ∀ j (hj : j ∈ L.childrenOf i), f j < t.width ∧ f j ∉ B ∧ f j ∈ (L.concepts.getD j ([], [])).2 := by
    intro j hj
    simp only [f, dif_pos hj]
    exact Classical.choose_spec (hex j hj)
  have hinj : ∀ x ∈ L.childrenOf i, ∀ y ∈ L.childrenOf i, f x = f y → x = y := by
    intro x hx y hy hxy
    obtain ⟨D, E, hc, _, _⟩ := child_facts h hi hx
    obtain ⟨D', E', hc', _, _⟩ := child_facts h hi hy
    have fx := hf x hx
    have fy := hf y hy
    have e1 : f x ∈ E := by
      have := fx.2.2
      simpa [List.getD_eq_getElem?_getD, hc] using this
    have e2 : f x ∈ E' := by
      have := fy.2.2
      rw [← hxy] at this
      simpa [List.getD_eq_getElem?_getD, hc'] using this
    exact child_attr_inj h hi hx hc hy hc' fx.1 fx.2.1 e1 e2
  have hnd : ((L.childrenOf i).map f).Nodup := List.Nodup.map_on hinj (h.cnodup i hilt)
  have hsub : (L.childrenOf i).map f ⊆ List.range t.width := by
    intro a ha
    obtain ⟨j, hj, rfl⟩ := List.mem_map.mp ha
    exact List.mem_range.mpr (hf j hj).1
  have := hnd.length_le_of_subset hsub
  simpa using this

end

end Fca.Measures

/-
  Fca.Lemmas.Sofia — `sofia` on a formal context.
  For all parameters: every final extent is an attribute-extent intersection (hence closed) and the list is
  duplicate-free.  When `L_max ≥ |Concepts|` and `min_supp = 0` the pruning branch is never entered and the
  family after `k` projections is `{ B' | B ⊆ {0..k-1} }`, i.e. at the end all extents.
-/
import Fca.Lemmas.CbOTable
import Fca.Model.Sofia
namespace Fca.SofiaL
open Fca Fca.Spec

/-- the bit vector of the extent `Bs'` -/
def bitsOf (t : Table) (Bs : List Nat) : List Bool :=
  (List.range t.height).map fun g => Bs.all fun a => t.get g a

/-- an attribute-extent intersection -/
def Rep (t : Table) (e : List Bool) : Prop := ∃ Bs, (∀ a ∈ Bs, a < t.width) ∧ e = bitsOf t Bs

theorem bitsOf_nil (t : Table) : List.replicate t.height true = bitsOf t [] := by
  have := replicate_eq_map (List.range t.height) true
  rw [List.length_range] at this
  rw [this]; unfold bitsOf; simp

theorem band_bitsOf (t : Table) (Bs : List Nat) (a : Nat) :
    B.band (bitsOf t Bs) (attrExtentBa t a) = bitsOf t (Bs ++ [a]) := by
  unfold B.band bitsOf attrExtentBa
  rw [zipWith_map_map_self]
  apply List.map_congr_left
  intro g _
  simp

theorem search1_bitsOf (t : Table) (Bs : List Nat) : search1 (bitsOf t Bs) = extAll t Bs := by
  unfold bitsOf
  rw [search1_map_range]
  rfl

theorem bitsOf_congr (t : Table) {B₁ B₂ : List Nat}
    (h : ∀ g, g < t.height → ((∀ a ∈ B₁, t.get g a = true) ↔ (∀ a ∈ B₂, t.get g a = true))) :
    bitsOf t B₁ = bitsOf t B₂ := by
  unfold bitsOf
  apply List.map_congr_left
  intro g hg
  rw [Bool.eq_iff_iff]
  simp only [List.all_eq_true]
  exact h g (List.mem_range.mp hg)

theorem bitsOf_inj (t : Table) {B₁ B₂ : List Nat} (h : extAll t B₁ = extAll t B₂) :
    bitsOf t B₁ = bitsOf t B₂ := by
  apply bitsOf_congr
  intro g hg
  have h1 := mem_extAll t (B := B₁) (g := g)
  have h2 := mem_extAll t (B := B₂) (g := g)
  rw [h] at h1
  simp only [hg, true_and] at h1 h2
  rw [← h1, ← h2]

theorem map_getD_range {α} (l : List α) (d : α) : (List.range l.length).map (fun i => l.getD i d) = l := by
  apply List.ext_getElem
  · simp
  · intro i h1 h2
    simp [List.getD_eq_getElem?_getD, List.getElem?_eq_getElem h2]

theorem prune_sublist (extents : List (List Bool)) (lMax : Nat) :
    (sofiaPrune extents lMax).Sublist extents := by
  unfold sofiaPrune
  simp only
  have h := map_getD_range extents []
  conv => rhs; rw [← h]
  exact List.Sublist.map _ List.filter_sublist

theorem kept_sublist (sorted : List (List Bool)) (p : List Bool → Bool) :
    (sorted.take 1 ++ (sorted.drop 1).filter p).Sublist sorted := by
  conv => rhs; rw [← List.take_append_drop 1 sorted]
  exact List.Sublist.append (List.Sublist.refl _) List.filter_sublist

section
variable (tie : List (List Bool) → List (List Bool)) (htie : ∀ l, (tie l).Perm l)
include htie

/-- members of one step come from the old family or are intersections with the attribute extent -/
theorem step_mem (lMax minSupp : Nat) (ep : List (List Bool)) (col x : List Bool)
    (hx : x ∈ sofiaStep tie lMax minSupp ep col) : x ∈ ep ∨ ∃ e ∈ ep, x = B.band e col := by
  unfold sofiaStep at hx
  split at hx
  · exact Or.inl hx
  split at hx
  · exact Or.inl hx
  simp only at hx
  have hkept : x ∈ (((tie (ep ++ ep.map fun e => B.band e col).eraseDups).mergeSort
      fun a b => decide (baCount a ≤ baCount b)).take 1 ++
      ((((tie (ep ++ ep.map fun e => B.band e col).eraseDups).mergeSort
      fun a b => decide (baCount a ≤ baCount b)).drop 1).filter fun e => decide (baCount e ≥ minSupp))) := by
    split at hx
    · exact (prune_sublist _ _).subset hx
    · exact hx
  have h1 := (kept_sublist _ _).subset hkept
  rw [List.mem_mergeSort, (htie _).mem_iff, List.mem_eraseDups, List.mem_append, List.mem_map] at h1
  rcases h1 with h | ⟨e, he, rfl⟩
  · exact Or.inl h
  · exact Or.inr ⟨e, he, rfl⟩

theorem step_nodup (lMax minSupp : Nat) (ep : List (List Bool)) (col : List Bool) (hnd : ep.Nodup) :
    (sofiaStep tie lMax minSupp ep col).Nodup := by
  unfold sofiaStep
  split
  · exact hnd
  split
  · exact hnd
  simp only
  have hs : (((tie (ep ++ ep.map fun e => B.band e col).eraseDups).mergeSort
      fun a b => decide (baCount a ≤ baCount b))).Nodup :=
    (List.mergeSort_perm _ _).nodup_iff.mpr ((htie _).nodup_iff.mpr (nodup_eraseDups _))
  have hk := (kept_sublist _ (fun e => decide (baCount e ≥ minSupp))).nodup hs
  split
  · exact (prune_sublist _ _).nodup hk
  · exact hk

/-- with `min_supp = 0`, a non-full attribute extent and no pruning, the step adds all intersections -/
theorem step_mem_nonbinding (lMax : Nat) (ep : List (List Bool)) (col : List Bool)
    (hcol : pyAll col = false)
    (hsmall : ∀ l : List (List Bool), l.Nodup → (∀ x ∈ l, x ∈ ep ∨ ∃ e ∈ ep, x = B.band e col) → l.length ≤ lMax)
    (x : List Bool) (hx : x ∈ ep ∨ ∃ e ∈ ep, x = B.band e col) : x ∈ sofiaStep tie lMax 0 ep col := by
  unfold sofiaStep
  rw [if_neg (by simp [hcol]), if_neg (by omega)]
  simp only
  have hfilter : ∀ l : List (List Bool), l.filter (fun e => decide (baCount e ≥ 0)) = l := by
    intro l; apply List.filter_eq_self.mpr; intro a _; simp
  rw [hfilter, List.take_append_drop]
  have hmem : ∀ y, y ∈ ((tie (ep ++ ep.map fun e => B.band e col).eraseDups).mergeSort
      fun a b => decide (baCount a ≤ baCount b)) ↔ (y ∈ ep ∨ ∃ e ∈ ep, y = B.band e col) := by
    intro y
    rw [List.mem_mergeSort, (htie _).mem_iff, List.mem_eraseDups, List.mem_append, List.mem_map]
    constructor
    · rintro (h | ⟨e, he, rfl⟩)
      · exact Or.inl h
      · exact Or.inr ⟨e, he, rfl⟩
    · rintro (h | ⟨e, he, rfl⟩)
      · exact Or.inl h
      · exact Or.inr ⟨e, he, rfl⟩
  have hs : (((tie (ep ++ ep.map fun e => B.band e col).eraseDups).mergeSort
      fun a b => decide (baCount a ≤ baCount b))).Nodup :=
    (List.mergeSort_perm _ _).nodup_iff.mpr ((htie _).nodup_iff.mpr (nodup_eraseDups _))
  have hle := hsmall _ hs (fun y hy => (hmem y).mp hy)
  rw [if_neg (by omega)]
  exact (hmem x).mpr hx

end

/-- the family after the first `k` projections -/
def upTo (t : Table) (tie : List (List Bool) → List (List Bool)) (lMax minSupp k : Nat) : List (List Bool) :=
  (List.range k).foldl (fun ep a => sofiaStep tie lMax minSupp ep (attrExtentBa t a))
    [List.replicate t.height true]

theorem upTo_succ (t : Table) (tie : List (List Bool) → List (List Bool)) (lMax minSupp k : Nat) :
    upTo t tie lMax minSupp (k + 1) =
      sofiaStep tie lMax minSupp (upTo t tie lMax minSupp k) (attrExtentBa t k) := by
  unfold upTo
  rw [List.range_succ, List.foldl_append]
  rfl

theorem sofiaExtents_eq (t : Table) (tie : List (List Bool) → List (List Bool)) (lMax minSupp : Nat) :
    sofiaExtents t tie lMax minSupp = upTo t tie lMax minSupp t.width := rfl

theorem upTo_rep_nodup (t : Table) (tie : List (List Bool) → List (List Bool)) (htie : ∀ l, (tie l).Perm l)
    (lMax minSupp : Nat) : ∀ k, k ≤ t.width →
      (∀ e ∈ upTo t tie lMax minSupp k, ∃ Bs, (∀ a ∈ Bs, a < k) ∧ e = bitsOf t Bs) ∧
      (upTo t tie lMax minSupp k).Nodup := by
  intro k
  induction k with
  | zero =>
    intro _
    simp only [upTo, List.range_zero, List.foldl_nil, List.mem_singleton, List.nodup_cons,
      List.not_mem_nil, not_false_eq_true, List.nodup_nil, and_self, and_true]
    intro e he
    exact ⟨[], fun _ h => (by cases h), he ▸ bitsOf_nil t⟩
  | succ k ih =>
    intro hk
    obtain ⟨h1, h2⟩ := ih (by omega)
    rw [upTo_succ]
    refine ⟨?_, step_nodup tie htie _ _ _ _ h2⟩
    intro e he
    rcases step_mem tie htie _ _ _ _ e he with h | ⟨e', he', rfl⟩
    · obtain ⟨Bs, hB, rfl⟩ := h1 e h
      exact ⟨Bs, fun a ha => by have := hB a ha; omega, rfl⟩
    · obtain ⟨Bs, hB, rfl⟩ := h1 e' he'
      refine ⟨Bs ++ [k], ?_, band_bitsOf t Bs k⟩
      intro a ha
      rcases List.mem_append.mp ha with h | h
      · have := hB a h; omega
      · simp at h; omega

/-- the record built from a represented extent -/
theorem key_of_rep (K : Ctx) (hwf : K.table.WF) (Bs : List Nat) :
    conceptKey (K.fromObjects (search1 (bitsOf K.table Bs)) true) =
      (extAll K.table Bs, closureAttr K.table Bs) := by
  rw [search1_bitsOf]
  have hint : K.intentionI (extAll K.table Bs) none = intAll K.table (extAll K.table Bs) :=
    C01.intention_i_exact K hwf _ none (extAll_lt K.table) (by intro bs hb; cases hb)
  unfold conceptKey Ctx.fromObjects
  simp only [hint, Bool.not_true, Bool.false_eq_true, ↓reduceIte]
  rw [CbOM.sortIdx_sorted (extAll_sorted K.table _), CbOM.sortIdx_sorted (intAll_sorted K.table _)]
  rfl

/-- a duplicate-free list of represented extents is no longer than the number of concepts -/
theorem length_le_concepts (t : Table) (l : List (List Bool)) (hnd : l.Nodup)
    (hrep : ∀ e ∈ l, Rep t e) : l.length ≤ (allConcepts t).length := by
  have hmap : (l.map fun e => (search1 e, intAll t (search1 e))).Nodup := by
    apply CbOM.nodup_map_of_inj_on hnd
    intro a ha b hb he
    obtain ⟨Ba, _, rfl⟩ := hrep a ha
    obtain ⟨Bb, _, rfl⟩ := hrep b hb
    simp only [Prod.mk.injEq, search1_bitsOf] at he
    exact bitsOf_inj t he.1
  have hsub : (l.map fun e => (search1 e, intAll t (search1 e))) ⊆ allConcepts t := by
    intro p hp
    obtain ⟨e, he, rfl⟩ := List.mem_map.mp hp
    obtain ⟨Bs, hB, rfl⟩ := hrep e he
    rw [search1_bitsOf, mem_allConcepts]
    exact isConcept_of_attrs t hB
  have := List.Nodup.length_le_of_subset hmap hsub
  rwa [List.length_map] at this

/-- all parameters: sound and duplicate-free -/
theorem sofia_sound_nodup (K : Ctx) (hwf : K.table.WF) (tie : List (List Bool) → List (List Bool))
    (htie : ∀ l, (tie l).Perm l) (lMax minSupp : Nat) :
    SoundNodup K.table (sofia K tie lMax minSupp) := by
  obtain ⟨hrep, hnd⟩ := upTo_rep_nodup K.table tie htie lMax minSupp K.table.width (Nat.le_refl _)
  rw [← sofiaExtents_eq] at hrep hnd
  unfold SoundNodup sofia
  rw [List.map_map]
  constructor
  · apply CbOM.nodup_map_of_inj_on hnd
    intro a ha b hb he
    obtain ⟨Ba, _, rfl⟩ := hrep a ha
    obtain ⟨Bb, _, rfl⟩ := hrep b hb
    simp only [Function.comp, key_of_rep K hwf, Prod.mk.injEq] at he
    exact bitsOf_inj K.table he.1
  · intro A Bi hm
    obtain ⟨e, he, heq⟩ := List.mem_map.mp hm
    obtain ⟨Bs, hB, rfl⟩ := hrep e he
    simp only [Function.comp, key_of_rep K hwf, Prod.mk.injEq] at heq
    rw [mem_allConcepts, ← heq.1, ← heq.2]
    exact isConcept_of_attrs K.table hB

/-- non-binding limit: after `k` projections every `B'` with `B ⊆ {0..k-1}` is present -/
theorem upTo_complete (t : Table) (_hwf : t.WF) (tie : List (List Bool) → List (List Bool))
    (htie : ∀ l, (tie l).Perm l) (lMax : Nat) (hL : (allConcepts t).length ≤ lMax) :
    ∀ k, k ≤ t.width → ∀ Bs, (∀ a ∈ Bs, a < k) → bitsOf t Bs ∈ upTo t tie lMax 0 k := by
  intro k
  induction k with
  | zero =>
    intro _ Bs hB
    have : Bs = [] := by
      cases Bs with
      | nil => rfl
      | cons a _ => have := hB a List.mem_cons_self; omega
    subst this
    simp [upTo, bitsOf_nil]
  | succ k ih =>
    intro hk Bs hB
    rw [upTo_succ]
    obtain ⟨hrep, hnd⟩ := upTo_rep_nodup t tie htie lMax 0 k (by omega)
    -- the part of `Bs` below `k`
    have hB' : ∀ a ∈ Bs.filter (fun a => decide (a ≠ k)), a < k := by
      intro a ha
      have h1 := List.mem_filter.mp ha
      have := hB a h1.1
      have h2 : a ≠ k := by simpa using h1.2
      omega
    have hprev := ih (by omega) _ hB'
    by_cases hfull : pyAll (attrExtentBa t k) = true
    · -- a full column is skipped; it does not change any extent
      have hstep : sofiaStep tie lMax 0 (upTo t tie lMax 0 k) (attrExtentBa t k) = upTo t tie lMax 0 k := by
        unfold sofiaStep; rw [if_pos hfull]
      rw [hstep]
      have hcolk : ∀ g, g < t.height → t.get g k = true := by
        intro g hg
        unfold pyAll attrExtentBa at hfull
        simp only [List.all_eq_true, List.mem_map, List.mem_range, id] at hfull
        exact hfull _ ⟨g, hg, rfl⟩
      have : bitsOf t Bs = bitsOf t (Bs.filter fun a => decide (a ≠ k)) := by
        apply bitsOf_congr
        intro g hg
        constructor
        · intro H a ha; exact H a (List.mem_filter.mp ha).1
        · intro H a ha
          by_cases hak : a = k
          · subst hak; exact hcolk g hg
          · exact H a (List.mem_filter.mpr ⟨ha, by simpa using hak⟩)
      rw [this]; exact hprev
    · apply step_mem_nonbinding tie htie lMax _ _ (by simpa using hfull)
      · intro l hl hmem
        refine Nat.le_trans (length_le_concepts t l hl ?_) hL
        intro x hx
        rcases hmem x hx with h | ⟨e, he, rfl⟩
        · obtain ⟨Bs', hB1, rfl⟩ := hrep x h
          exact ⟨Bs', fun a ha => by have := hB1 a ha; omega, rfl⟩
        · obtain ⟨Bs', hB1, rfl⟩ := hrep e he
          refine ⟨Bs' ++ [k], ?_, band_bitsOf t Bs' k⟩
          intro a ha
          rcases List.mem_append.mp ha with h | h
          · have := hB1 a h; omega
          · simp at h; omega
      · by_cases hkB : k ∈ Bs
        · right
          refine ⟨_, hprev, ?_⟩
          rw [band_bitsOf]
          apply bitsOf_congr
          intro g _
          constructor
          · intro H a ha
            rcases List.mem_append.mp ha with h | h
            · exact H a (List.mem_filter.mp h).1
            · simp at h; subst h; exact H _ hkB
          · intro H a ha
            by_cases hak : a = k
            · subst hak; exact H _ (List.mem_append_right _ (by simp))
            · exact H a (List.mem_append_left _ (List.mem_filter.mpr ⟨ha, by simpa using hak⟩))
        · left
          have : Bs.filter (fun a => decide (a ≠ k)) = Bs := by
            apply List.filter_eq_self.mpr
            intro a ha
            have : a ≠ k := fun e => hkB (e ▸ ha)
            simpa using this
          rw [this] at hprev
          exact hprev

/-- `sofia` with `L_max ≥ |Concepts|`, `min_supp = 0`: exactly the formal concepts, each once -/
theorem sofia_exact (K : Ctx) (hwf : K.table.WF) (tie : List (List Bool) → List (List Bool))
    (htie : ∀ l, (tie l).Perm l) (lMax : Nat) (hL : (allConcepts K.table).length ≤ lMax) :
    ExactConcepts K.table (sofia K tie lMax 0) := by
  obtain ⟨hnd, hsound⟩ := sofia_sound_nodup K hwf tie htie lMax 0
  refine ⟨hnd, fun A Bi => ⟨hsound A Bi, ?_⟩⟩
  intro hc
  rw [mem_allConcepts] at hc
  have hc' := (isConcept_iff K.table).mp hc
  have hBr : ∀ a ∈ Bi, a < K.table.width := by
    intro a ha; rw [← hc'.2] at ha; exact intAll_lt K.table a ha
  have hmem := upTo_complete K.table hwf tie htie lMax hL K.table.width (Nat.le_refl _) Bi hBr
  rw [← sofiaExtents_eq] at hmem
  unfold sofia
  rw [List.map_map, List.mem_map]
  refine ⟨_, hmem, ?_⟩
  simp only [Function.comp, key_of_rep K hwf, Prod.mk.injEq, closureAttr]
  rw [hc'.1]
  exact ⟨rfl, hc'.2⟩

end Fca.SofiaL

/-
  Fca.Lemmas.Galois — the prime operators of a table form a Galois connection;
  basic facts about formal concepts on the list-level specification.
-/
import Fca.Spec.Concepts
namespace Fca.Spec
open Fca

variable (t : Table)

theorem mem_ext {B base : List Nat} {g : Nat} :
    g ∈ ext t B base ↔ g ∈ base ∧ ∀ a ∈ B, t.get g a = true := by
  simp [ext, List.mem_filter, List.all_eq_true]

theorem mem_int {A base : List Nat} {a : Nat} :
    a ∈ int t A base ↔ a ∈ base ∧ ∀ g ∈ A, t.get g a = true := by
  simp [int, List.mem_filter, List.all_eq_true]

theorem mem_extAll {B : List Nat} {g : Nat} :
    g ∈ extAll t B ↔ g < t.height ∧ ∀ a ∈ B, t.get g a = true := by
  simp [extAll, mem_ext, List.mem_range]

theorem mem_intAll {A : List Nat} {a : Nat} :
    a ∈ intAll t A ↔ a < t.width ∧ ∀ g ∈ A, t.get g a = true := by
  simp [intAll, mem_int, List.mem_range]

/-- two filters of the same list with pointwise-equal predicates on it are equal lists -/
theorem filter_eq_of_mem_iff {l : List Nat} {p q : Nat → Bool}
    (h : ∀ x ∈ l, p x = true ↔ q x = true) : l.filter p = l.filter q := by
  apply List.filter_congr
  intro x hx
  rw [Bool.eq_iff_iff]; exact h x hx

/-- extents are determined by their members (they are filters of `range n`) -/
theorem extAll_eq_of_mem_iff {B B' : List Nat}
    (h : ∀ g, g < t.height → ((∀ a ∈ B, t.get g a = true) ↔ (∀ a ∈ B', t.get g a = true))) :
    extAll t B = extAll t B' := by
  unfold extAll ext
  apply filter_eq_of_mem_iff
  intro g hg
  simp only [List.all_eq_true]
  exact h g (List.mem_range.mp hg)

theorem intAll_eq_of_mem_iff {A A' : List Nat}
    (h : ∀ a, a < t.width → ((∀ g ∈ A, t.get g a = true) ↔ (∀ g ∈ A', t.get g a = true))) :
    intAll t A = intAll t A' := by
  unfold intAll int
  apply filter_eq_of_mem_iff
  intro a ha
  simp only [List.all_eq_true]
  exact h a (List.mem_range.mp ha)

theorem extAll_antitone {B B' : List Nat} (h : ∀ a ∈ B, a ∈ B') : ∀ g ∈ extAll t B', g ∈ extAll t B := by
  intro g hg
  rw [mem_extAll] at *
  exact ⟨hg.1, fun a ha => hg.2 a (h a ha)⟩

theorem intAll_antitone {A A' : List Nat} (h : ∀ g ∈ A, g ∈ A') : ∀ a ∈ intAll t A', a ∈ intAll t A := by
  intro a ha
  rw [mem_intAll] at *
  exact ⟨ha.1, fun g hg => ha.2 g (h g hg)⟩

/-- `A ⊆ A''` for in-range `A` -/
theorem subset_closure {A : List Nat} (hA : ∀ g ∈ A, g < t.height) : ∀ g ∈ A, g ∈ closure t A := by
  intro g hg
  unfold closure
  rw [mem_extAll]
  refine ⟨hA g hg, ?_⟩
  intro a ha
  exact ((mem_intAll t).mp ha).2 g hg

/-- `B ⊆ B''` for in-range `B` -/
theorem subset_closureAttr {B : List Nat} (hB : ∀ a ∈ B, a < t.width) : ∀ a ∈ B, a ∈ closureAttr t B := by
  intro a ha
  unfold closureAttr
  rw [mem_intAll]
  refine ⟨hB a ha, ?_⟩
  intro g hg
  exact ((mem_extAll t).mp hg).2 a ha

/-- `B''' = B'` for in-range `B` -/
theorem extAll_closureAttr {B : List Nat} (hB : ∀ a ∈ B, a < t.width) :
    extAll t (closureAttr t B) = extAll t B := by
  apply extAll_eq_of_mem_iff
  intro g hg
  constructor
  · intro H a ha
    apply H a
    exact subset_closureAttr t hB a ha
  · intro H a ha
    exact ((mem_intAll t).mp ha).2 g ((mem_extAll t).mpr ⟨hg, H⟩)

/-- `A''' = A'` for in-range `A` -/
theorem intAll_closure {A : List Nat} (hA : ∀ g ∈ A, g < t.height) :
    intAll t (closure t A) = intAll t A := by
  apply intAll_eq_of_mem_iff
  intro a ha
  constructor
  · intro H g hg
    apply H g
    exact subset_closure t hA g hg
  · intro H g hg
    exact ((mem_extAll t).mp hg).2 a ((mem_intAll t).mpr ⟨ha, H⟩)

theorem extAll_lt {B : List Nat} : ∀ g ∈ extAll t B, g < t.height :=
  fun _ hg => ((mem_extAll t).mp hg).1

theorem intAll_lt {A : List Nat} : ∀ a ∈ intAll t A, a < t.width :=
  fun _ ha => ((mem_intAll t).mp ha).1

/-- closure is idempotent (as lists) -/
theorem closure_idem {A : List Nat} (hA : ∀ g ∈ A, g < t.height) :
    closure t (closure t A) = closure t A := by
  unfold closure
  rw [show intAll t (extAll t (intAll t A)) = intAll t A from intAll_closure t hA]

/-- closure is monotone -/
theorem closure_mono {A A' : List Nat} (h : ∀ g ∈ A, g ∈ A') : ∀ g ∈ closure t A, g ∈ closure t A' := by
  intro g hg
  unfold closure at *
  exact extAll_antitone t (intAll_antitone t h) g hg

theorem extAll_nodup (B : List Nat) : (extAll t B).Nodup := by
  unfold extAll ext
  exact List.Nodup.sublist List.filter_sublist List.nodup_range

theorem intAll_nodup (A : List Nat) : (intAll t A).Nodup := by
  unfold intAll int
  exact List.Nodup.sublist List.filter_sublist List.nodup_range

theorem extAll_sorted (B : List Nat) : (extAll t B).Pairwise (· < ·) := by
  unfold extAll ext
  exact List.Pairwise.filter _ List.pairwise_lt_range

theorem intAll_sorted (A : List Nat) : (intAll t A).Pairwise (· < ·) := by
  unfold intAll int
  exact List.Pairwise.filter _ List.pairwise_lt_range

theorem isConcept_iff {A B : List Nat} :
    isConcept t A B = true ↔ extAll t B = A ∧ intAll t A = B := by
  simp [isConcept]

/-- `(B', B'')` is a concept for every in-range `B` -/
theorem isConcept_of_attrs {B : List Nat} (hB : ∀ a ∈ B, a < t.width) :
    isConcept t (extAll t B) (closureAttr t B) = true := by
  rw [isConcept_iff]
  exact ⟨extAll_closureAttr t hB, rfl⟩

/-- `(A'', A')` is a concept for every in-range `A` -/
theorem isConcept_of_objs {A : List Nat} (hA : ∀ g ∈ A, g < t.height) :
    isConcept t (closure t A) (intAll t A) = true := by
  rw [isConcept_iff]
  exact ⟨rfl, intAll_closure t hA⟩

/-- concepts are ordered dually by extents and intents -/
theorem concept_order {A₁ B₁ A₂ B₂ : List Nat}
    (h₁ : isConcept t A₁ B₁ = true) (h₂ : isConcept t A₂ B₂ = true) :
    (∀ g ∈ A₁, g ∈ A₂) ↔ (∀ a ∈ B₂, a ∈ B₁) := by
  rw [isConcept_iff] at h₁ h₂
  obtain ⟨e₁, i₁⟩ := h₁
  obtain ⟨e₂, i₂⟩ := h₂
  constructor
  · intro h
    rw [← i₁, ← i₂]
    exact intAll_antitone t h
  · intro h
    rw [← e₁, ← e₂]
    exact extAll_antitone t h

end Fca.Spec

namespace Fca.Spec
open Fca
variable (t : Table)

theorem filter_mem_sublists (l : List Nat) (p : Nat → Bool) : l.filter p ∈ sublists l := by
  induction l with
  | nil => simp [sublists]
  | cons x xs ih =>
    simp only [sublists, List.filter_cons, List.mem_append, List.mem_map]
    by_cases hp : p x = true
    · simp only [hp, ↓reduceIte]
      exact Or.inr ⟨_, ih, rfl⟩
    · simp only [hp, Bool.false_eq_true, ↓reduceIte]
      exact Or.inl ih

theorem mem_of_mem_sublists {l s : List Nat} (h : s ∈ sublists l) : ∀ x ∈ s, x ∈ l := by
  induction l generalizing s with
  | nil => simp [sublists] at h; subst h; intro x hx; cases hx
  | cons y ys ih =>
    simp only [sublists, List.mem_append, List.mem_map] at h
    rcases h with h | ⟨s', hs', rfl⟩
    · intro x hx; exact List.mem_cons_of_mem _ (ih h x hx)
    · intro x hx
      rcases List.mem_cons.mp hx with rfl | hx
      · exact List.mem_cons_self
      · exact List.mem_cons_of_mem _ (ih hs' x hx)

/-- the brute-force enumeration lists exactly the formal concepts (each once) -/
theorem mem_allConcepts {A B : List Nat} :
    (A, B) ∈ allConcepts t ↔ isConcept t A B = true := by
  unfold allConcepts
  rw [List.mem_eraseDups, List.mem_map]
  constructor
  · rintro ⟨B₀, hB₀, heq⟩
    have hr : ∀ a ∈ B₀, a < t.width := fun a ha =>
      List.mem_range.mp (mem_of_mem_sublists hB₀ a ha)
    have := isConcept_of_attrs t hr
    simp only [Prod.mk.injEq] at heq
    rw [← heq.1, ← heq.2]; exact this
  · intro h
    rw [isConcept_iff] at h
    refine ⟨B, ?_, ?_⟩
    · rw [← h.2]; unfold intAll int; exact filter_mem_sublists _ _
    · simp only [closureAttr, Prod.mk.injEq]
      rw [h.1]; exact ⟨rfl, h.2⟩

theorem nodup_eraseDups {α} [BEq α] [LawfulBEq α] (l : List α) : l.eraseDups.Nodup := by
  generalize hn : l.length = n
  induction n using Nat.strongRecOn generalizing l with
  | _ n ih =>
    cases l with
    | nil => simp
    | cons a as =>
      rw [List.eraseDups_cons, List.nodup_cons]
      constructor
      · intro h
        have := (List.mem_eraseDups.mp h)
        simp at this
      · have hlen : (as.filter fun b => !b == a).length < n := by
          have := List.length_filter_le (fun b => !b == a) as
          simp only [List.length_cons] at hn; omega
        exact ih _ hlen _ rfl

theorem allConcepts_nodup : (allConcepts t).Nodup := by
  unfold allConcepts
  exact nodup_eraseDups _

/-! ### transposition -/

theorem transpose_height : (transpose t).height = t.width := by
  simp [transpose, Table.height]

theorem transpose_width : (transpose t).width = t.height := rfl

theorem transpose_wf : (transpose t).WF := by
  intro r hr
  simp only [transpose, List.mem_map, List.mem_range] at hr
  obtain ⟨a, _, rfl⟩ := hr
  simp [transpose]

theorem transpose_get {g a : Nat} (hg : g < t.height) (ha : a < t.width) :
    (transpose t).get a g = t.get g a := by
  simp [transpose, Table.get, Table.row, List.getD_eq_getElem?_getD, List.getElem?_map,
    List.getElem?_range ha, List.getElem?_range hg]

theorem transpose_get_oob {g a : Nat} (hg : t.height ≤ g) (ha : a < t.width) :
    (transpose t).get a g = false := by
  simp [transpose, Table.get, Table.row, List.getD_eq_getElem?_getD, List.getElem?_map,
    List.getElem?_range ha, List.getElem?_eq_none (l := List.range t.height) (by simpa using hg)]

theorem get_oob_row {g a : Nat} (hg : t.height ≤ g) : t.get g a = false := by
  simp [Table.get, Table.row, List.getD_eq_getElem?_getD,
    List.getElem?_eq_none (l := t.data) (by simpa [Table.height] using hg)]

/-- transposing swaps the derivation operators -/
theorem extAll_transpose (A : List Nat) : extAll (transpose t) A = intAll t A := by
  unfold extAll intAll ext int
  rw [transpose_height]
  apply List.filter_congr
  intro a ha
  have haw : a < t.width := List.mem_range.mp ha
  apply List.all_congr rfl
  intro g
  by_cases hg : g < t.height
  · exact transpose_get t hg haw
  · rw [transpose_get_oob t (by omega) haw, get_oob_row t (by omega)]

theorem intAll_transpose (h : t.WF) (B : List Nat) : intAll (transpose t) B = extAll t B := by
  unfold extAll intAll ext int
  rw [transpose_width]
  apply List.filter_congr
  intro g hg
  have hgn : g < t.height := List.mem_range.mp hg
  apply List.all_congr rfl
  intro a
  by_cases ha : a < t.width
  · exact transpose_get t hgn ha
  · have h1 : t.get g a = false := by
      have hmem : t.row g ∈ t.data := by
        unfold Table.row
        rw [List.getD_eq_getElem?_getD, List.getElem?_eq_getElem hgn]
        simp only [Option.getD_some]
        exact List.getElem_mem hgn
      have hlen := h _ hmem
      unfold Table.get
      rw [List.getD_eq_getElem?_getD, List.getElem?_eq_none (by omega)]; rfl
    have h2 : (transpose t).get a g = false := by
      simp [transpose, Table.get, Table.row, List.getD_eq_getElem?_getD, List.getElem?_map,
        List.getElem?_eq_none (l := List.range t.width) (by simpa using Nat.le_of_not_lt ha)]
    rw [h1, h2]

/-- concepts of the transposed table are the swapped concepts -/
theorem isConcept_transpose (h : t.WF) (A B : List Nat) :
    isConcept (transpose t) B A = isConcept t A B := by
  unfold isConcept
  rw [extAll_transpose, intAll_transpose t h, Bool.and_comm]

end Fca.Spec
